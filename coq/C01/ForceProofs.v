(* Lemmas for C01 (R instance of ForceModel.v): the force path realises the chain rule.
   Layers:  sums / powers  ->  restraint potentials (curve form)  ->  atom groups (mass weighting,
   centre-of-geometry fit term)  ->  component kernels (directional derivative)  ->  chain rule. *)
From Coq Require Import ZArith List Bool Reals Lra Lia Psatz.
From Coquelicot Require Import Coquelicot.
From Flocq Require Import Core.Raux.
From CV Require Import Base.Num Base.RNum C18.ValueModel C06.RestraintModel C06.RestraintProofs C01.ForceModel.
From CV Require C18.ValueProofs.
Import ListNotations.
Local Open Scope R_scope.

Notation V3 := (@vec3 R).
Notation GD := (@gdata R).
Notation SYS := (@sys R).
Notation GRP := (@group R).

(* ------------------------------------------------------------------ vectors over R *)
Lemma vget_add k (a b : V3) : vget k (v3add Rops a b) = vget k a + vget k b.
Proof. destruct a as [[ax ay] az], b as [[bx by_] bz], k; reflexivity. Qed.
Lemma vget_sub k (a b : V3) : vget k (v3sub Rops a b) = vget k a - vget k b.
Proof. destruct a as [[ax ay] az], b as [[bx by_] bz], k; reflexivity. Qed.
Lemma vget_scale k s (a : V3) : vget k (v3scale Rops s a) = s * vget k a.
Proof. destruct a as [[ax ay] az], k; reflexivity. Qed.
Lemma vget_div k (a : V3) s : vget k (vdiv Rops a s) = vget k a / s.
Proof. destruct a as [[ax ay] az], k; reflexivity. Qed.
Lemma vget_zero k : vget k (vzero Rops) = 0.
Proof. destruct k; reflexivity. Qed.
Lemma vget_neg k (a : V3) : vget k (vneg Rops a) = - vget k a.
Proof. unfold vneg. rewrite vget_scale. unfold mone; cbn. ring. Qed.
Lemma v3_ext (a b : V3) : (forall k, vget k a = vget k b) -> a = b.
Proof.
  destruct a as [[ax ay] az], b as [[bx by_] bz]. intros H.
  pose proof (H AX) as Hx. pose proof (H AY) as Hy. pose proof (H AZ) as Hz. cbn in Hx, Hy, Hz. subst. reflexivity.
Qed.
Lemma v3dot_get (a b : V3) : v3dot Rops a b = vget AX a * vget AX b + vget AY a * vget AY b + vget AZ a * vget AZ b.
Proof. destruct a as [[ax ay] az], b as [[bx by_] bz]. reflexivity. Qed.

Definition ek (k : axis) : V3 := match k with AX => (1, 0, 0) | AY => (0, 1, 0) | AZ => (0, 0, 1) end.
Lemma v3dot_ek (g : V3) k : v3dot Rops g (ek k) = vget k g.
Proof. destruct g as [[gx gy] gz], k; unfold v3dot, ek, vget; cbn; ring. Qed.
Lemma vset_move k (p : V3) t : vset k p t = v3add Rops p (v3scale Rops (t - vget k p) (ek k)).
Proof. destruct p as [[x y] z], k; unfold vset, v3add, v3scale, vget, ek; cbn; f_equal; try f_equal; ring. Qed.
Lemma vget_vset k j (p : V3) t : vget j (vset k p t) = if match k, j with AX, AX | AY, AY | AZ, AZ => true | _, _ => false end then t else vget j p.
Proof. destruct p as [[x y] z], k, j; reflexivity. Qed.

Lemma Reqb_false a b : a <> b -> Reqb' a b = false.
Proof. intros H. unfold Reqb'. destruct (Req_EM_T a b); [contradiction|reflexivity]. Qed.

(* ------------------------------------------------------------------ sums *)
Lemma tsum_cons a (l : list R) : tsum Rops (a :: l) = a + tsum Rops l.
Proof. reflexivity. Qed.
Lemma tsum_nil : tsum Rops [] = 0.
Proof. reflexivity. Qed.
Lemma tsum_app (l1 l2 : list R) : tsum Rops (l1 ++ l2) = tsum Rops l1 + tsum Rops l2.
Proof.
  induction l1 as [|a l IH]; cbn [app].
  - rewrite tsum_nil. ring.
  - rewrite !tsum_cons, IH. ring.
Qed.
Lemma vsum_cons a (l : list V3) : vsum Rops (a :: l) = v3add Rops a (vsum Rops l).
Proof. reflexivity. Qed.
Lemma vget_vsum k (l : list V3) : vget k (vsum Rops l) = tsum Rops (map (vget k) l).
Proof.
  induction l as [|a l IH]; [apply vget_zero|].
  rewrite vsum_cons, vget_add, IH. reflexivity.
Qed.
Lemma vsum_app (l1 l2 : list V3) : vsum Rops (l1 ++ l2) = v3add Rops (vsum Rops l1) (vsum Rops l2).
Proof.
  apply v3_ext; intros k. rewrite vget_add, !vget_vsum, map_app, tsum_app. reflexivity.
Qed.
Lemma tsum_scale c (l : list R) : tsum Rops (map (fun x => c * x) l) = c * tsum Rops l.
Proof. induction l as [|a l IH]; [cbn; ring|]. cbn [map]. rewrite !tsum_cons, IH. ring. Qed.
Lemma tsum_scale' {A} c (f : A -> R) (l : list A) : tsum Rops (map (fun a => c * f a) l) = c * tsum Rops (map f l).
Proof. rewrite <- tsum_scale, map_map. reflexivity. Qed.
Lemma tsum_plus {A} (f g : A -> R) (l : list A) :
  tsum Rops (map (fun x => f x + g x) l) = tsum Rops (map f l) + tsum Rops (map g l).
Proof. induction l as [|a l IH]; [cbn; ring|]. cbn [map]. rewrite !tsum_cons, IH. ring. Qed.
Lemma tsum_ext {A} (f g : A -> R) (l : list A) : (forall x, In x l -> f x = g x) -> tsum Rops (map f l) = tsum Rops (map g l).
Proof.
  induction l as [|a l IH]; intros H; [reflexivity|]. cbn [map]. rewrite !tsum_cons.
  rewrite (H a) by (left; reflexivity). rewrite IH; [reflexivity|]. intros x Hx. apply H. right; exact Hx.
Qed.
Lemma tsum_zero {A} (l : list A) : tsum Rops (map (fun _ => 0) l) = 0.
Proof. induction l as [|a l IH]; [reflexivity|]. cbn [map]. rewrite tsum_cons, IH. ring. Qed.
Lemma tsum_swap {A B} (f : A -> B -> R) (la : list A) (lb : list B) :
  tsum Rops (map (fun a => tsum Rops (map (fun b => f a b) lb)) la) =
  tsum Rops (map (fun b => tsum Rops (map (fun a => f a b) la)) lb).
Proof.
  induction la as [|a la IH]; cbn [map].
  - rewrite tsum_nil. symmetry. apply (tsum_zero lb).
  - rewrite tsum_cons, IH. rewrite <- tsum_plus. reflexivity.
Qed.

(* the derivative of a finite sum of functions *)
Lemma is_derive_tsum {A} (f : A -> R -> R) (d : A -> R) (l : list A) x :
  (forall a, In a l -> is_derive (f a) x (d a)) ->
  is_derive (fun t => tsum Rops (map (fun a => f a t) l)) x (tsum Rops (map d l)).
Proof.
  induction l as [|a l IH]; intros H; cbn [map].
  - apply (is_derive_ext (fun _ => 0)); [reflexivity|]. rewrite tsum_nil. apply @is_derive_const.
  - apply (is_derive_ext (fun t => f a t + tsum Rops (map (fun a0 => f a0 t) l))); [reflexivity|].
    rewrite tsum_cons. apply @is_derive_plus; [apply H; left; reflexivity|].
    apply IH. intros b Hb. apply H. right; exact Hb.
Qed.

(* ------------------------------------------------------------------ integer powers *)
Lemma powN_pow x n : powN Rops x n = x ^ n.
Proof. induction n as [|n IH]; [reflexivity|]. cbn [powN pow]. rewrite IH. reflexivity. Qed.

Lemma ipow_unfold x n :
  ipow Rops x n = if Req_EM_T x 0 then (if Z.eqb n 0 then 1 else 0)
                  else match n with Z0 => 1 | Zpos p => x ^ Pos.to_nat p | Zneg p => 1 / x ^ Pos.to_nat p end.
Proof.
  unfold ipow, zero, one. cbn [neqb n0 n1 ndiv Rops]. unfold Reqb'.
  destruct (Req_EM_T x 0) as [E|E]; [reflexivity|].
  destruct n as [|p|p]; rewrite ?powN_pow; reflexivity.
Qed.

Lemma ipow_nat x n : ipow Rops x (Z.of_nat n) = x ^ n.
Proof.
  rewrite ipow_unfold. destruct (Req_EM_T x 0) as [->|Hx].
  - destruct n as [|n]; [reflexivity|]. cbn [Z.of_nat Z.eqb pow]. ring.
  - destruct n as [|n]; [reflexivity|]. cbn [Z.of_nat]. rewrite SuccNat2Pos.id_succ. reflexivity.
Qed.

Lemma ipow_0 x : ipow Rops x 0 = 1.
Proof. exact (ipow_nat x 0). Qed.

Lemma ipow_neg x p : x <> 0 -> ipow Rops x (Zneg p) = / x ^ Pos.to_nat p.
Proof.
  intros Hx. rewrite ipow_unfold. destruct (Req_EM_T x 0) as [E|_]; [contradiction|].
  unfold Rdiv. ring.
Qed.

(* the real function integer_power implements: x^n for n >= 0, 1/x^|n| for n < 0 *)
Definition zpow (x : R) (n : Z) : R :=
  match n with Z0 => 1 | Zpos p => x ^ Pos.to_nat p | Zneg p => / x ^ Pos.to_nat p end.
Lemma ipow_zpow x n : (0 <= n)%Z \/ x <> 0 -> ipow Rops x n = zpow x n.
Proof.
  intros H. destruct n as [|p|p].
  - apply (ipow_nat x 0).
  - rewrite <- (positive_nat_Z p). rewrite ipow_nat. cbn [zpow]. rewrite positive_nat_Z. reflexivity.
  - destruct H as [H|H]; [lia|]. apply ipow_neg; exact H.
Qed.

Lemma zpow_nat x m : zpow x (Z.of_nat m) = x ^ m.
Proof. destruct m as [|m]; [reflexivity|]. cbn [Z.of_nat zpow]. rewrite SuccNat2Pos.id_succ. reflexivity. Qed.

(* d/dx x^n = n x^(n-1), in the form communicate_forces uses it: n * integer_power(x, n-1) *)
Lemma zpow_derive x n : (1 <= n)%Z \/ x <> 0 ->
  is_derive (fun y => zpow y n) x (IZR n * zpow x (n - 1)).
Proof.
  intros H. destruct n as [|p|p].
  - cbn [zpow]. replace (IZR 0 * _) with 0 by (cbn; ring). apply @is_derive_const.
  - cbn [zpow]. auto_derive; [exact I|].
    destruct (Pos.to_nat p) as [|m] eqn:E; [pose proof (Pos2Nat.is_pos p); lia|].
    replace (Z.pos p - 1)%Z with (Z.of_nat m) by lia.
    replace (IZR (Z.pos p)) with (INR (Datatypes.S m)) by (rewrite <- E, INR_IZR_INZ, positive_nat_Z; reflexivity).
    rewrite zpow_nat. cbn [Init.Nat.pred]. ring.
  - destruct H as [H|Hx]; [lia|].
    cbn [zpow]. replace (Z.neg p - 1)%Z with (Z.neg (p + 1)) by lia. cbn [zpow].
    assert (Hp : x ^ Pos.to_nat p <> 0) by (apply pow_nonzero; exact Hx).
    auto_derive; [exact Hp|].
    replace (Pos.to_nat (p + 1)) with (Datatypes.S (Pos.to_nat p)) by lia.
    destruct (Pos.to_nat p) as [|m] eqn:E; [pose proof (Pos2Nat.is_pos p); lia|].
    replace (IZR (Z.neg p)) with (- INR (Datatypes.S m)) by (rewrite <- E, INR_IZR_INZ, positive_nat_Z; reflexivity).
    cbn [Init.Nat.pred]. cbn [pow] in *. field. split; [|exact Hx].
    intros H0. apply Hp. rewrite H0. ring.
Qed.

(* ------------------------------------------------------------------ restraints: force = -dU/dxi along every path *)
Lemma tsum_select (n : nat) (g : nat -> R) (i : nat) (o : nat) : (o <= i < o + n)%nat ->
  tsum Rops (map (fun v => if Nat.eqb i v then g v else 0) (seq o n)) = g i.
Proof.
  revert o. induction n as [|n IH]; intros o Hi; [lia|].
  cbn [seq map]. rewrite tsum_cons. destruct (Nat.eqb i o) eqn:E.
  - apply Nat.eqb_eq in E. subst o.
    rewrite (tsum_ext _ (fun _ => 0)); [rewrite tsum_zero; ring|].
    intros v Hv. apply in_seq in Hv. destruct (Nat.eqb i v) eqn:E2; [apply Nat.eqb_eq in E2; lia|reflexivity].
  - apply Nat.eqb_neq in E. rewrite IH by lia. ring.
Qed.

Definition path_ok (xs : R -> list R) (dxs : list R) (t0 : R) : Prop :=
  forall v, is_derive (fun t => xat Rops (xs t) v) t0 (xat Rops dxs v).

(* the statement "the bias force on every variable is minus the partial derivative of the bias energy", in the
   form that composes: along every differentiable path of the variable values the energy is differentiable and
   dU/dt = - sum_v F_v dxi_v/dt *)
Definition bias_force_correct (b : bias) (ws : list cvar) (x0 : list R) : Prop :=
  forall xs dxs t0, xs t0 = x0 -> path_ok xs dxs t0 ->
    is_derive (fun t => bias_energy Rops b ws (xs t)) t0
              (- tsum Rops (map (fun v => bias_force Rops b ws x0 v * xat Rops dxs v) (seq 0 (length ws)))).

Lemma separable_correct {A} (terms : list A) (idx : A -> nat) (U : A -> R -> R) (G : A -> nat -> R -> R) (n : nat) (x0 : list R) :
  (forall a, In a terms -> (idx a < n)%nat) ->
  (forall a, In a terms -> is_derive (U a) (xat Rops x0 (idx a)) (- G a (idx a) (xat Rops x0 (idx a)))) ->
  forall xs dxs t0, xs t0 = x0 -> path_ok xs dxs t0 ->
    is_derive (fun t => tsum Rops (map (fun a => U a (xat Rops (xs t) (idx a))) terms)) t0
      (- tsum Rops (map (fun v => tsum Rops (map (fun a => if Nat.eqb (idx a) v then G a v (xat Rops x0 v) else 0) terms) * xat Rops dxs v) (seq 0 n))).
Proof.
  intros Hidx HU xs dxs t0 Hx0 Hp.
  assert (E : - tsum Rops (map (fun v => tsum Rops (map (fun a => if Nat.eqb (idx a) v then G a v (xat Rops x0 v) else 0) terms) * xat Rops dxs v) (seq 0 n))
              = tsum Rops (map (fun a => - G a (idx a) (xat Rops x0 (idx a)) * xat Rops dxs (idx a)) terms)).
  { transitivity (- tsum Rops (map (fun v => tsum Rops (map (fun a => if Nat.eqb (idx a) v then G a v (xat Rops x0 v) * xat Rops dxs v else 0) terms)) (seq 0 n))).
    - f_equal. apply tsum_ext. intros v _. rewrite Rmult_comm, <- tsum_scale'. apply tsum_ext. intros a _.
      destruct (Nat.eqb (idx a) v); ring.
    - rewrite tsum_swap.
      replace (- tsum Rops (map (fun b : A => tsum Rops (map (fun a : nat => if Nat.eqb (idx b) a then G b a (xat Rops x0 a) * xat Rops dxs a else 0) (seq 0 n))) terms))
        with (-1 * tsum Rops (map (fun b : A => tsum Rops (map (fun a : nat => if Nat.eqb (idx b) a then G b a (xat Rops x0 a) * xat Rops dxs a else 0) (seq 0 n))) terms)) by ring.
      rewrite <- tsum_scale'. apply tsum_ext. intros a Ha.
      rewrite (tsum_select n (fun v => G a v (xat Rops x0 v) * xat Rops dxs v) (idx a) 0) by (pose proof (Hidx a Ha); lia). ring. }
  rewrite E. apply (is_derive_tsum (fun a t => U a (xat Rops (xs t) (idx a)))).
  intros a Ha. evar_last.
  - apply (is_derive_comp (U a) (fun t => xat Rops (xs t) (idx a))).
    + rewrite Hx0. apply HU. exact Ha.
    + apply Hp.
  - unfold scal; simpl; unfold mult; simpl. ring.
Qed.

(* per-term derivatives of the restraint potentials (C06.RestraintModel), non-periodic variables *)
Lemma harm_derive k v x0 c : v_width v <> 0 -> v_periodic v = false ->
  is_derive (fun x => harm_potential Rops k v x c) x0 (- harm_force Rops k v x0 c).
Proof.
  intros Hw Hp.
  apply (is_derive_ext (fun x => k / (2 * v_width v ^ 2) * (x - c) ^ 2)).
  - intros x. symmetry. apply (harmonic_nonperiodic k v x c Hw Hp).
  - destruct (harmonic_nonperiodic k v x0 c Hw Hp) as (_ & -> & _).
    auto_derive; [exact I|]. field. exact Hw.
Qed.

(* periodic restraint metric (dihedral, polarPhi, periodic distanceZ): away from the half-period cut *)
Definition var_ok_h (v : var) (x0 c : R) : Prop :=
  v_width v <> 0 /\
  (v_periodic v = false \/
   (v_periodic v = true /\ 0 < v_period v /\ ValueModel.pdiff Rops (v_period v) (x0 - c) <> - v_period v / 2)).

Lemma harm_derive_gen k v x0 c : var_ok_h v x0 c ->
  is_derive (fun x => harm_potential Rops k v x c) x0 (- harm_force Rops k v x0 c).
Proof.
  intros [Hw [Hp|(Hp & HP & Hcut)]]; [apply harm_derive; assumption|].
  unfold harm_potential, harm_force, dist2, dist2_lgrad, pdiff, wsq. rewrite Hp.
  change (fun x => nmul Rops (ndiv Rops (nmul Rops (RestraintModel.half Rops) k) (nmul Rops (v_width v) (v_width v)))
                     (let d := pdiff_p Rops (v_period v) (nsub Rops x c) in nmul Rops d d))
    with (fun x => (1 / 2 * k) / (v_width v * v_width v) * ValueModel.per_dist2 Rops (v_period v) x c).
  evar_last.
  - apply is_derive_scal. apply (CV.C18.ValueProofs.per_grad_derive (v_period v) x0 c HP Hcut).
  - unfold ValueModel.per_grad. unfold RestraintModel.two, RestraintModel.half, nhalf. cbn [nmul ndiv nneg nsub nofZ n1 Rops].
    change (pdiff_p Rops (v_period v) (x0 - c)) with (ValueModel.pdiff Rops (v_period v) (x0 - c)). field. exact Hw.
Qed.

Lemma lin_derive k v x0 c : v_width v <> 0 ->
  is_derive (fun x => lin_potential Rops k v x c) x0 (- lin_force Rops k v).
Proof.
  intros Hw.
  apply (is_derive_ext (fun x => k / v_width v * (x - c))).
  - intros x. symmetry. apply (linear_closed k v x c Hw).
  - destruct (linear_closed k v x0 c Hw) as (_ & -> & _).
    auto_derive; [exact I|]. field. exact Hw.
Qed.

(* walls: away from the wall positions themselves *)
Lemma walls_derive k lk uk hl hu v x0 L U : v_width v <> 0 -> v_periodic v = false ->
  (hl = true -> x0 <> L) -> (hu = true -> x0 <> U) -> (hl = true -> hu = true -> L < U) ->
  is_derive (fun x => walls_potential Rops k lk uk hl hu v x L U) x0 (- walls_force Rops k lk uk hl hu v x0 L U).
Proof.
  intros Hw Hp HL HU HLU.
  pose proof (walls_nonperiodic k lk uk hl hu v) as W.
  (* region of x0: below the lower wall / above the upper wall / in between *)
  destruct hl eqn:Ehl.
  - destruct (Rlt_dec x0 L) as [Hlt|Hge].
    + (* below the lower wall *)
      apply (is_derive_ext_loc (fun x => k * lk / (2 * v_width v ^ 2) * (x - L) ^ 2)).
      * assert (Hd : 0 < L - x0) by lra. exists (mkposreal _ Hd). intros y Hy.
        unfold ball in Hy; simpl in Hy; unfold AbsRing_ball, abs, minus, plus, opp in Hy; simpl in Hy.
        apply Rabs_def2 in Hy. destruct Hy as [Hy1 Hy2].
        destruct (W y L U Hw Hp) as (W1 & _ & _). symmetry. apply W1; [reflexivity|lra].
      * destruct (W x0 L U Hw Hp) as (W1 & _ & _). destruct (W1 eq_refl Hlt) as (_ & ->).
        auto_derive; [exact I|]. field. exact Hw.
    + assert (HLx : L < x0) by (specialize (HL eq_refl); lra).
      destruct hu eqn:Ehu.
      * destruct (Rlt_dec U x0) as [Hgt|Hle].
        -- apply (is_derive_ext_loc (fun x => k * uk / (2 * v_width v ^ 2) * (x - U) ^ 2)).
           ++ assert (Hd : 0 < x0 - U) by lra. exists (mkposreal _ Hd). intros y Hy.
              unfold ball in Hy; simpl in Hy; unfold AbsRing_ball, abs, minus, plus, opp in Hy; simpl in Hy.
              apply Rabs_def2 in Hy. destruct Hy as [Hy1 Hy2].
              specialize (HLU eq_refl eq_refl).
              destruct (W y L U Hw Hp) as (_ & W2 & _). symmetry. apply W2; [right; lra|reflexivity|lra].
           ++ destruct (W x0 L U Hw Hp) as (_ & W2 & _). destruct (W2 (or_intror (Rlt_le _ _ HLx)) eq_refl Hgt) as (_ & ->).
              auto_derive; [exact I|]. field. exact Hw.
        -- assert (HxU : x0 < U) by (specialize (HU eq_refl); lra).
           apply (is_derive_ext_loc (fun _ => 0)).
           ++ assert (Hd : 0 < Rmin (x0 - L) (U - x0)) by (apply Rmin_pos; lra). exists (mkposreal _ Hd). intros y Hy.
              unfold ball in Hy; simpl in Hy; unfold AbsRing_ball, abs, minus, plus, opp in Hy; simpl in Hy.
              apply Rabs_def2 in Hy. destruct Hy as [Hy1 Hy2].
              pose proof (Rmin_l (x0 - L) (U - x0)). pose proof (Rmin_r (x0 - L) (U - x0)).
              destruct (W y L U Hw Hp) as (_ & _ & W3). symmetry. apply W3; right; lra.
           ++ destruct (W x0 L U Hw Hp) as (_ & _ & W3). destruct (W3 (or_intror (Rlt_le _ _ HLx)) (or_intror (Rlt_le _ _ HxU))) as (_ & ->).
              replace (- 0) with 0 by ring. apply @is_derive_const.
      * apply (is_derive_ext_loc (fun _ => 0)).
        -- assert (Hd : 0 < x0 - L) by lra. exists (mkposreal _ Hd). intros y Hy.
           unfold ball in Hy; simpl in Hy; unfold AbsRing_ball, abs, minus, plus, opp in Hy; simpl in Hy.
           apply Rabs_def2 in Hy. destruct Hy as [Hy1 Hy2].
           destruct (W y L U Hw Hp) as (_ & _ & W3). symmetry. apply W3; [right; lra|left; reflexivity].
        -- destruct (W x0 L U Hw Hp) as (_ & _ & W3). destruct (W3 (or_intror (Rlt_le _ _ HLx)) (or_introl eq_refl)) as (_ & ->).
           replace (- 0) with 0 by ring. apply @is_derive_const.
  - destruct hu eqn:Ehu.
    + destruct (Rlt_dec U x0) as [Hgt|Hle].
      * apply (is_derive_ext_loc (fun x => k * uk / (2 * v_width v ^ 2) * (x - U) ^ 2)).
        -- assert (Hd : 0 < x0 - U) by lra. exists (mkposreal _ Hd). intros y Hy.
           unfold ball in Hy; simpl in Hy; unfold AbsRing_ball, abs, minus, plus, opp in Hy; simpl in Hy.
           apply Rabs_def2 in Hy. destruct Hy as [Hy1 Hy2].
           destruct (W y L U Hw Hp) as (_ & W2 & _). symmetry. apply W2; [left; reflexivity|reflexivity|lra].
        -- destruct (W x0 L U Hw Hp) as (_ & W2 & _). destruct (W2 (or_introl eq_refl) eq_refl Hgt) as (_ & ->).
           auto_derive; [exact I|]. field. exact Hw.
      * assert (HxU : x0 < U) by (specialize (HU eq_refl); lra).
        apply (is_derive_ext_loc (fun _ => 0)).
        -- assert (Hd : 0 < U - x0) by lra. exists (mkposreal _ Hd). intros y Hy.
           unfold ball in Hy; simpl in Hy; unfold AbsRing_ball, abs, minus, plus, opp in Hy; simpl in Hy.
           apply Rabs_def2 in Hy. destruct Hy as [Hy1 Hy2].
           destruct (W y L U Hw Hp) as (_ & _ & W3). symmetry. apply W3; [left; reflexivity|right; lra].
        -- destruct (W x0 L U Hw Hp) as (_ & _ & W3). destruct (W3 (or_introl eq_refl) (or_intror (Rlt_le _ _ HxU))) as (_ & ->).
           replace (- 0) with 0 by ring. apply @is_derive_const.
    + apply (is_derive_ext (fun _ => 0)).
      * intros y. destruct (W y L U Hw Hp) as (_ & _ & W3). symmetry. apply W3; left; reflexivity.
      * destruct (W x0 L U Hw Hp) as (_ & _ & W3). destruct (W3 (or_introl eq_refl) (or_introl eq_refl)) as (_ & ->).
        replace (- 0) with 0 by ring. apply @is_derive_const.
Qed.

Definition var_ok (v : cvar) : Prop := cv_width v <> 0 /\ cv_periodic v = false.
Definition terms_ok {A} (idx : A -> nat) (l : list A) (ws : list cvar) : Prop :=
  forall a, In a l -> (idx a < length ws)%nat /\ var_ok (vat Rops ws (idx a)).

Lemma bias_force_correct_harmonic k cs ws x0 : terms_ok fst cs ws -> bias_force_correct (BHarmonic k cs) ws x0.
Proof.
  intros Hok xs dxs t0 Hx0 Hp. cbn [bias_energy bias_force].
  apply (separable_correct cs fst (fun ic x => harm_potential Rops k (rvar Rops (vat Rops ws (fst ic))) x (snd ic))
                           (fun ic v x => harm_force Rops k (rvar Rops (vat Rops ws v)) x (snd ic)) (length ws) x0); auto.
  - intros a Ha. apply (Hok a Ha).
  - intros a Ha. destruct (Hok a Ha) as (_ & Hw & Hper). apply harm_derive; assumption.
Qed.

Definition terms_ok_h (cs : list (nat * R)) (ws : list cvar) (x0 : list R) : Prop :=
  forall ic, In ic cs -> (fst ic < length ws)%nat /\ var_ok_h (rvar Rops (vat Rops ws (fst ic))) (xat Rops x0 (fst ic)) (snd ic).

Lemma terms_ok_h_of cs ws x0 : terms_ok fst cs ws -> terms_ok_h cs ws x0.
Proof.
  intros H ic Hin. destruct (H ic Hin) as (Hi & Hw & Hp). split; [exact Hi|]. split; [exact Hw|left; exact Hp].
Qed.

Lemma bias_force_correct_harmonic_gen k cs ws x0 : terms_ok_h cs ws x0 -> bias_force_correct (BHarmonic k cs) ws x0.
Proof.
  intros Hok xs dxs t0 Hx0 Hp. cbn [bias_energy bias_force].
  apply (separable_correct cs fst (fun ic x => harm_potential Rops k (rvar Rops (vat Rops ws (fst ic))) x (snd ic))
                           (fun ic v x => harm_force Rops k (rvar Rops (vat Rops ws v)) x (snd ic)) (length ws) x0); auto.
  - intros a Ha. apply (Hok a Ha).
  - intros a Ha. destruct (Hok a Ha) as (_ & Hv). apply harm_derive_gen. exact Hv.
Qed.

Lemma bias_force_correct_linear k cs ws x0 : terms_ok fst cs ws -> bias_force_correct (BLinear k cs) ws x0.
Proof.
  intros Hok xs dxs t0 Hx0 Hp. cbn [bias_energy bias_force].
  apply (separable_correct cs fst (fun ic x => lin_potential Rops k (rvar Rops (vat Rops ws (fst ic))) x (snd ic))
                           (fun ic v x => lin_force Rops k (rvar Rops (vat Rops ws v))) (length ws) x0); auto.
  - intros a Ha. apply (Hok a Ha).
  - intros a Ha. destruct (Hok a Ha) as (_ & Hw & Hper). apply lin_derive; assumption.
Qed.

(* walls: every restrained variable is away from its wall positions *)
Definition walls_guard (hl hu : bool) (l : list (nat * (R * R))) (x0 : list R) : Prop :=
  forall iw, In iw l ->
    (hl = true -> xat Rops x0 (fst iw) <> fst (snd iw)) /\ (hu = true -> xat Rops x0 (fst iw) <> snd (snd iw)) /\
    (hl = true -> hu = true -> fst (snd iw) < snd (snd iw)).
Lemma bias_force_correct_walls k lk uk hl hu l ws x0 : terms_ok fst l ws -> walls_guard hl hu l x0 ->
  bias_force_correct (BWalls k lk uk hl hu l) ws x0.
Proof.
  intros Hok Hg xs dxs t0 Hx0 Hp. cbn [bias_energy bias_force].
  apply (separable_correct l fst (fun iw x => walls_potential Rops k lk uk hl hu (rvar Rops (vat Rops ws (fst iw))) x (fst (snd iw)) (snd (snd iw)))
                           (fun iw v x => walls_force Rops k lk uk hl hu (rvar Rops (vat Rops ws v)) x (fst (snd iw)) (snd (snd iw))) (length ws) x0); auto.
  - intros a Ha. apply (Hok a Ha).
  - intros a Ha. destruct (Hok a Ha) as (_ & Hw & Hper). destruct (Hg a Ha) as (G1 & G2 & G3).
    apply walls_derive; assumption.
Qed.

(* ------------------------------------------------------------------ history-dependent biases at a frozen state *)
Lemma dist2_nonper_derive (v : var) x0 c : v_periodic v = false ->
  is_derive (fun x => dist2 Rops v x c) x0 (dist2_lgrad Rops v x0 c).
Proof.
  intros Hp. unfold dist2, dist2_lgrad, pdiff. rewrite Hp. unfold RestraintModel.two. cbn [nsub nmul nofZ Rops].
  auto_derive; [exact I|ring].
Qed.

(* exp(-s/2) truncated beyond s = 23 *)
Definition gtrunc (s : R) : R := if Rltb 23 s then 0 else exp (- (1 / 2) * s).
Lemma gtrunc_derive s0 : s0 <> 23 -> is_derive gtrunc s0 (if Rltb 23 s0 then 0 else - (1 / 2) * gtrunc s0).
Proof.
  intros Hne. unfold gtrunc. destruct (Rltb 23 s0) eqn:E.
  - apply Rltb_true in E. apply (is_derive_ext_loc (fun _ => 0)); [|apply @is_derive_const].
    assert (Hd : 0 < s0 - 23) by lra. exists (mkposreal _ Hd). intros y Hy.
    unfold ball in Hy; simpl in Hy; unfold AbsRing_ball, abs, minus, plus, opp in Hy; simpl in Hy. apply Rabs_def2 in Hy.
    replace (Rltb 23 y) with true by (symmetry; apply Rltb_true; lra). reflexivity.
  - apply Rltb_false in E. assert (Hlt : s0 < 23) by lra.
    apply (is_derive_ext_loc (fun s => exp (- (1 / 2) * s))).
    + assert (Hd : 0 < 23 - s0) by lra. exists (mkposreal _ Hd). intros y Hy.
      unfold ball in Hy; simpl in Hy; unfold AbsRing_ball, abs, minus, plus, opp in Hy; simpl in Hy. apply Rabs_def2 in Hy.
      replace (Rltb 23 y) with false by (symmetry; apply Rltb_false; lra). reflexivity.
    + auto_derive; [exact I|ring].
Qed.

Definition hill_ok (ws : list cvar) (x0 : list R) (h : R * list (nat * (R * R))) : Prop :=
  terms_ok fst (snd h) ws /\ (forall t, In t (snd h) -> snd (snd t) <> 0) /\ hill_sqdev Rops ws x0 (snd h) <> 23.

Lemma hill_sqdev_path (ws : list cvar) terms xs dxs t0 x0 :
  terms_ok fst terms ws -> (forall t, In t terms -> snd (snd t) <> 0) -> xs t0 = x0 -> path_ok xs dxs t0 ->
  is_derive (fun t => hill_sqdev Rops ws (xs t) terms) t0
    (- tsum Rops (map (fun v => tsum Rops (map (fun a => if Nat.eqb (fst a) v
            then - (dist2_lgrad Rops (rvar Rops (vat Rops ws v)) (xat Rops x0 v) (fst (snd a)) / (snd (snd a) * snd (snd a))) else 0) terms)
          * xat Rops dxs v) (seq 0 (length ws)))).
Proof.
  intros Hok Hsig Hx0 Hp. unfold hill_sqdev. cbn [ndiv nmul Rops].
  apply (separable_correct terms fst
           (fun a x => dist2 Rops (rvar Rops (vat Rops ws (fst a))) x (fst (snd a)) / (snd (snd a) * snd (snd a)))
           (fun a v x => - (dist2_lgrad Rops (rvar Rops (vat Rops ws v)) x (fst (snd a)) / (snd (snd a) * snd (snd a))))
           (length ws) x0); auto.
  - intros a Ha. apply (Hok a Ha).
  - intros a Ha. destruct (Hok a Ha) as (_ & Hw & Hper). specialize (Hsig a Ha).
    apply (is_derive_ext (fun x => / (snd (snd a) * snd (snd a)) * dist2 Rops (rvar Rops (vat Rops ws (fst a))) x (fst (snd a))));
      [intros x; unfold Rdiv; apply Rmult_comm|].
    evar_last.
    + apply is_derive_scal. apply dist2_nonper_derive. exact Hper.
    + field. exact Hsig.
Qed.

Lemma hill_value_gtrunc ws xs terms : hill_value Rops ws xs terms = gtrunc (hill_sqdev Rops ws xs terms).
Proof.
  unfold hill_value, gtrunc, hf, nhalf, zero, ofnat. cbn [nltb nexp nneg nmul ndiv n0 n1 nofZ Rops].
  change (IZR (Z.of_nat 23)) with 23. change (IZR 2) with 2.
  destruct (Rltb 23 (hill_sqdev Rops ws xs terms)); reflexivity.
Qed.

Lemma sel_scale {A} (terms : list A) (idx : A -> nat) (c : R) (P Q : A -> nat -> R) (vs : list nat) (d : nat -> R) :
  (forall a v, In a terms -> Q a v = c * P a v) ->
  tsum Rops (map (fun v => tsum Rops (map (fun a => if Nat.eqb (idx a) v then Q a v else 0) terms) * d v) vs)
  = c * tsum Rops (map (fun v => tsum Rops (map (fun a => if Nat.eqb (idx a) v then P a v else 0) terms) * d v) vs).
Proof.
  intros H. rewrite <- tsum_scale'. apply tsum_ext. intros v _.
  replace (c * (tsum Rops (map (fun a => if Nat.eqb (idx a) v then P a v else 0) terms) * d v))
    with (d v * (c * tsum Rops (map (fun a => if Nat.eqb (idx a) v then P a v else 0) terms))) by ring.
  rewrite <- tsum_scale'. rewrite Rmult_comm. f_equal. apply tsum_ext. intros a Ha.
  destruct (Nat.eqb (idx a) v); [apply H; exact Ha|ring].
Qed.

Lemma bias_force_correct_meta hs ws x0 : (forall h, In h hs -> hill_ok ws x0 h) -> bias_force_correct (BMeta hs) ws x0.
Proof.
  intros Hok xs dxs t0 Hx0 Hp. cbn [bias_energy bias_force].
  (* per hill *)
  set (Fh := fun (h : R * list (nat * (R * R))) (v : nat) =>
     let val := hill_value Rops ws x0 (snd h) in
     if neqb Rops val (zero Rops) then zero Rops
     else tsum Rops (map (fun t => if Nat.eqb (fst t) v
                                   then fst h * val * (hf Rops / (snd (snd t) * snd (snd t))) * dist2_lgrad Rops (rvar Rops (vat Rops ws v)) (xat Rops x0 v) (fst (snd t))
                                   else zero Rops) (snd h))).
  assert (HH : forall h, In h hs ->
     is_derive (fun t => fst h * hill_value Rops ws (xs t) (snd h)) t0
               (- tsum Rops (map (fun v => Fh h v * xat Rops dxs v) (seq 0 (length ws))))).
  { intros h Hin. destruct (Hok h Hin) as (Ht & Hs & Hc).
    pose proof (hill_sqdev_path ws (snd h) xs dxs t0 x0 Ht Hs Hx0 Hp) as HS.
    apply (is_derive_ext (fun t => fst h * gtrunc (hill_sqdev Rops ws (xs t) (snd h)))); [intros t; rewrite hill_value_gtrunc; reflexivity|].
    evar_last.
    - apply is_derive_scal. apply (is_derive_comp gtrunc (fun t => hill_sqdev Rops ws (xs t) (snd h))); [|exact HS].
      rewrite Hx0. apply gtrunc_derive. exact Hc.
    - lazymatch goal with |- context [scal ?a ?b] => change (scal a b) with (Rmult a b) end.
      unfold Fh. cbv zeta. rewrite hill_value_gtrunc. unfold zero, hf, nhalf. cbn [neqb n0 n1 ndiv nofZ Rops]. change (IZR 2) with 2.
      unfold gtrunc. destruct (Rltb 23 (hill_sqdev Rops ws x0 (snd h))) eqn:E.
      + (* beyond the cut-off: value 0, force 0 *)
        rewrite (proj2 (Reqb_true 0 0) eq_refl).
        rewrite (tsum_ext (fun v : nat => 0 * xat Rops dxs v) (fun _ => 0)) by (intros; ring). rewrite tsum_zero. ring.
      + assert (Hex : exp (- (1 / 2) * hill_sqdev Rops ws x0 (snd h)) <> 0) by (apply Rgt_not_eq, exp_pos).
        rewrite (Reqb_false _ _ Hex).
        set (val := exp (- (1 / 2) * hill_sqdev Rops ws x0 (snd h))) in *.
        rewrite (sel_scale (snd h) fst (-1)
                   (fun (a : nat * (R * R)) (v : nat) => dist2_lgrad Rops (rvar Rops (vat Rops ws v)) (xat Rops x0 v) (fst (snd a)) / (snd (snd a) * snd (snd a)))
                   (fun (a : nat * (R * R)) (v : nat) => - (dist2_lgrad Rops (rvar Rops (vat Rops ws v)) (xat Rops x0 v) (fst (snd a)) / (snd (snd a) * snd (snd a))))
                   (seq 0 (length ws)) (xat Rops dxs)) by (intros; ring).
        rewrite (sel_scale (snd h) fst (fst h * val * (1 / 2))
                   (fun (a : nat * (R * R)) (v : nat) => dist2_lgrad Rops (rvar Rops (vat Rops ws v)) (xat Rops x0 v) (fst (snd a)) / (snd (snd a) * snd (snd a)))
                   (fun a v => fst h * val * (1 / 2 / (snd (snd a) * snd (snd a))) * dist2_lgrad Rops (rvar Rops (vat Rops ws v)) (xat Rops x0 v) (fst (snd a)))
                   (seq 0 (length ws)) (xat Rops dxs)).
        * ring.
        * intros a v Ha. field. apply (Hs a Ha). }
  (* sum over the hills, exchange with the sum over the variables *)
  evar_last.
  - apply (is_derive_tsum (fun h t => fst h * hill_value Rops ws (xs t) (snd h))
                          (fun h => - tsum Rops (map (fun v => Fh h v * xat Rops dxs v) (seq 0 (length ws))))). exact HH.
  - transitivity (- tsum Rops (map (fun h => tsum Rops (map (fun v => Fh h v * xat Rops dxs v) (seq 0 (length ws)))) hs)).
    { replace (- tsum Rops (map (fun h => tsum Rops (map (fun v => Fh h v * xat Rops dxs v) (seq 0 (length ws)))) hs))
        with (-1 * tsum Rops (map (fun h => tsum Rops (map (fun v => Fh h v * xat Rops dxs v) (seq 0 (length ws)))) hs)) by ring.
      rewrite <- tsum_scale'. apply tsum_ext. intros h _. ring. }
    f_equal. rewrite tsum_swap. apply tsum_ext. intros v _.
    rewrite Rmult_comm, <- tsum_scale'. apply tsum_ext. intros h _. unfold Fh. cbv zeta. apply Rmult_comm.
Qed.

(* ABMD at a fixed reference: E = k/2 min(0, s (x - ref))^2 *)
Lemma abmd_derive k dec ref x0 : abmd_diff Rops dec x0 ref <> 0 ->
  is_derive (fun x => if Rltb 0 (abmd_diff Rops dec x ref) then 0 else 1 / 2 * k * abmd_diff Rops dec x ref * abmd_diff Rops dec x ref) x0
            (- (if Rltb 0 (abmd_diff Rops dec x0 ref) then 0 else - (if dec then -1 else 1) * k * abmd_diff Rops dec x0 ref)).
Proof.
  intros Hne. unfold abmd_diff in *. unfold mone, one in *. cbn [nsub nmul nneg n1 Rops] in *.
  destruct dec.
  - destruct (Rltb 0 ((x0 - ref) * - (1))) eqn:E.
    + apply Rltb_true in E.
      apply (is_derive_ext_loc (fun _ => 0)); [|replace (- 0) with 0 by ring; apply @is_derive_const].
      exists (mkposreal _ E). intros y Hy.
      unfold ball in Hy; simpl in Hy; unfold AbsRing_ball, abs, minus, plus, opp in Hy; simpl in Hy. apply Rabs_def2 in Hy.
      replace (Rltb 0 ((y - ref) * - (1))) with true; [reflexivity|]. symmetry. apply Rltb_true. lra.
    + apply Rltb_false in E. assert (Hlt : (x0 - ref) * - (1) < 0) by lra.
      apply (is_derive_ext_loc (fun x => 1 / 2 * k * ((x - ref) * - (1)) * ((x - ref) * - (1)))).
      * assert (Hd : 0 < - ((x0 - ref) * - (1))) by lra. exists (mkposreal _ Hd). intros y Hy.
        unfold ball in Hy; simpl in Hy; unfold AbsRing_ball, abs, minus, plus, opp in Hy; simpl in Hy. apply Rabs_def2 in Hy.
        replace (Rltb 0 ((y - ref) * - (1))) with false; [reflexivity|]. symmetry. apply Rltb_false. lra.
      * auto_derive; [exact I|field].
  - destruct (Rltb 0 ((x0 - ref) * 1)) eqn:E.
    + apply Rltb_true in E.
      apply (is_derive_ext_loc (fun _ => 0)); [|replace (- 0) with 0 by ring; apply @is_derive_const].
      exists (mkposreal _ E). intros y Hy.
      unfold ball in Hy; simpl in Hy; unfold AbsRing_ball, abs, minus, plus, opp in Hy; simpl in Hy. apply Rabs_def2 in Hy.
      replace (Rltb 0 ((y - ref) * 1)) with true; [reflexivity|]. symmetry. apply Rltb_true. lra.
    + apply Rltb_false in E. assert (Hlt : (x0 - ref) * 1 < 0) by lra.
      apply (is_derive_ext_loc (fun x => 1 / 2 * k * ((x - ref) * 1) * ((x - ref) * 1))).
      * assert (Hd : 0 < - ((x0 - ref) * 1)) by lra. exists (mkposreal _ Hd). intros y Hy.
        unfold ball in Hy; simpl in Hy; unfold AbsRing_ball, abs, minus, plus, opp in Hy; simpl in Hy. apply Rabs_def2 in Hy.
        replace (Rltb 0 ((y - ref) * 1)) with false; [reflexivity|]. symmetry. apply Rltb_false. lra.
      * auto_derive; [exact I|field].
Qed.

Lemma bias_force_correct_abmd k dec v ref ws x0 : (v < length ws)%nat -> abmd_diff Rops dec (xat Rops x0 v) ref <> 0 ->
  bias_force_correct (BAbmd k dec v ref) ws x0.
Proof.
  intros Hv Hne xs dxs t0 Hx0 Hp. cbn [bias_energy bias_force].
  unfold hf, nhalf, zero, mone, one. cbn [nltb nmul nneg ndiv n0 n1 nofZ Rops]. change (IZR 2) with 2.
  rewrite (tsum_ext _ (fun v' => if Nat.eqb v v' then
      (if Rltb 0 (abmd_diff Rops dec (xat Rops x0 v') ref) then 0 else - (if dec then - (1) else 1) * k * abmd_diff Rops dec (xat Rops x0 v') ref) * xat Rops dxs v' else 0)).
  2:{ intros v' _. destruct (Nat.eqb v v'); ring. }
  rewrite (tsum_select (length ws) (fun v' => (if Rltb 0 (abmd_diff Rops dec (xat Rops x0 v') ref) then 0 else - (if dec then - (1) else 1) * k * abmd_diff Rops dec (xat Rops x0 v') ref) * xat Rops dxs v') v 0) by lia.
  evar_last.
  - apply (is_derive_comp (fun x => if Rltb 0 (abmd_diff Rops dec x ref) then 0 else 1 / 2 * k * abmd_diff Rops dec x ref * abmd_diff Rops dec x ref)
                          (fun t => xat Rops (xs t) v)); [rewrite Hx0; apply abmd_derive; exact Hne|apply Hp].
  - lazymatch goal with |- context [scal ?a ?b] => change (scal a b) with (Rmult a b) end.
    replace (- (1)) with (-1) by ring. ring.
Qed.

(* ------------------------------------------------------------------ histogramRestraint *)
Definition hist_ok (sigma : R) (vs : list nat) (ws : list (@cvar R)) : Prop := sigma <> 0 /\ forall v, In v vs -> (v < length ws)%nat.

Lemma hist_gauss_derive norm sigma xg x0 : sigma <> 0 ->
  is_derive (fun x => hist_gauss Rops norm sigma xg x) x0 (hist_gauss Rops norm sigma xg x0 * ((xg - x0) / (sigma * sigma))).
Proof.
  intros Hs. unfold hist_gauss, mone, one, tw, ofnat. cbn [nmul nsub ndiv nneg nexp n1 nofZ Rops]. change (IZR (Z.of_nat 2)) with 2.
  auto_derive; [exact I|].
  replace (exp (- (1) * (xg + - x0) * (xg + - x0) * / (2 * sigma * sigma))) with (exp (- (1) * (xg - x0) * (xg - x0) / (2 * sigma * sigma)))
    by (f_equal; field; exact Hs).
  field. exact Hs.
Qed.

Lemma is_derive_minus_const (f : R -> R) x d r : is_derive f x d -> is_derive (fun t => f t - r) x d.
Proof. intros H. evar_last; [apply @is_derive_minus; [exact H|apply @is_derive_const]|]. exact (Rminus_0_r d). Qed.


(* ------------------------------------------------------------------ atom groups *)
Definition rnat (n : nat) : R := IZR (Z.of_nat n).

(* moving the atoms of the groups along directions D (one vector per atom), by t *)
Fixpoint move_atoms (l : list (R * R * V3)) (t : R) (D : list V3) : list (R * R * V3) :=
  match l, D with
  | a :: l', d :: D' => (am a, aq a, v3add Rops (ap a) (v3scale Rops t d)) :: move_atoms l' t D'
  | _, _ => l
  end.
Definition move_gd (g : GD) (t : R) (D : list V3) : gdata := mkGd (move_atoms (gd_atoms g) t D) (gd_dummy g).
Fixpoint move_gs (gs : list GD) (t : R) (Ds : list (list V3)) : list GD :=
  match gs, Ds with
  | g :: gs', D :: Ds' => move_gd g t D :: move_gs gs' t Ds'
  | _, _ => gs
  end.
Fixpoint dot_list (gr D : list V3) : R :=
  match gr, D with g :: gr', d :: D' => v3dot Rops g d + dot_list gr' D' | _, _ => 0 end.
Fixpoint dot_lists (grs Ds : list (list V3)) : R :=
  match grs, Ds with gr :: grs', D :: Ds' => dot_list gr D + dot_lists grs' Ds' | _, _ => 0 end.
Fixpoint shape_ok (grs : list (list V3)) (gs : list GD) : Prop :=
  match grs, gs with
  | gr :: grs', g :: gs' => length gr = length (gd_atoms g) /\ shape_ok grs' gs'
  | [], [] => True
  | _, _ => False
  end.

(* a kernel (value, per-atom gradients) is correct at group data Gs when its gradients have the shape of the
   groups and give the derivative of its value along EVERY direction of atomic displacements *)
Definition dir_correct (K : list GD -> R * list (list V3)) (Gs : list GD) : Prop :=
  shape_ok (snd (K Gs)) Gs /\
  forall Ds, shape_ok Ds Gs -> is_derive (fun t => fst (K (move_gs Gs t Ds))) 0 (dot_lists (snd (K Gs)) Ds).

Definition ind (i a : nat) : R := if Nat.eqb i a then 1 else 0.
Definition cnt (l : list nat) (a : nat) : R := tsum Rops (map (fun j => ind j a) l).
Definition cfit (c : option V3) (fids : list nat) (a : nat) : R :=
  match c with None => 0 | Some _ => cnt fids a / rnat (length fids) end.
(* the direction in which the atoms of a group move (in its fitted frame) when coordinate k of atom a grows *)
Definition gdir (g : GRP) (a : nat) (k : axis) : list V3 :=
  match g with
  | GDummy _ => []
  | GAtoms ids c fit _ => map (fun i => v3scale Rops (ind i a - cfit c (fit_ids ids fit) a) (ek k)) ids
  end.

Definition ids_ok (s : SYS) (l : list nat) : Prop := forall i, In i l -> (i < length s)%nat.
Definition wf_group (s : SYS) (g : GRP) : Prop :=
  match g with
  | GDummy _ => True
  | GAtoms ids c fit _ => ids_ok s ids /\ ids_ok s (fit_ids ids fit) /\ (c <> None -> fit_ids ids fit <> [])
  end.

Lemma atom_at_set_coord (s : SYS) a k t i : (i < length s)%nat ->
  atom_at Rops (set_coord s a k t) i =
  if Nat.eqb i a then mkAtom (a_mass (atom_at Rops s i)) (a_charge (atom_at Rops s i)) (vset k (a_pos (atom_at Rops s i)) t)
  else atom_at Rops s i.
Proof.
  revert a i. induction s as [|x r IH]; intros a i Hi; [cbn in Hi; lia|].
  destruct a as [|a'], i as [|i']; cbn [set_coord atom_at nth Nat.eqb]; try reflexivity.
  cbn [length] in Hi. apply (IH a' i'). lia.
Qed.

Lemma pos_set_coord (s : SYS) a k t i j : (i < length s)%nat ->
  vget j (a_pos (atom_at Rops (set_coord s a k t) i)) =
  vget j (a_pos (atom_at Rops s i)) + (t - coord Rops s a k) * ind i a * vget j (ek k).
Proof.
  intros Hi. rewrite atom_at_set_coord by exact Hi. unfold ind. destruct (Nat.eqb i a) eqn:E.
  - apply Nat.eqb_eq in E. subst i. cbn [a_pos]. rewrite vset_move, vget_add, vget_scale. unfold coord. ring.
  - ring.
Qed.
Lemma mass_set_coord (s : SYS) a k t i : (i < length s)%nat ->
  a_mass (atom_at Rops (set_coord s a k t) i) = a_mass (atom_at Rops s i) /\
  a_charge (atom_at Rops (set_coord s a k t) i) = a_charge (atom_at Rops s i).
Proof. intros Hi. rewrite atom_at_set_coord by exact Hi. destruct (Nat.eqb i a); split; reflexivity. Qed.

Lemma cog_set_coord (s : SYS) a k t fids j : ids_ok s fids ->
  vget j (cog_of Rops (set_coord s a k t) fids) =
  vget j (cog_of Rops s fids) + (t - coord Rops s a k) * (cnt fids a / rnat (length fids)) * vget j (ek k).
Proof.
  intros Hok. unfold cog_of. rewrite !vget_div, !vget_vsum, !map_map.
  assert (E : tsum Rops (map (fun x => vget j (a_pos (atom_at Rops (set_coord s a k t) x))) fids) =
              tsum Rops (map (fun x => vget j (a_pos (atom_at Rops s x))) fids) + (t - coord Rops s a k) * cnt fids a * vget j (ek k)).
  { unfold cnt. induction fids as [|f l IH]; cbn [map]; [rewrite !tsum_nil; ring|].
    rewrite !tsum_cons. rewrite IH by (intros i Hi; apply Hok; right; exact Hi).
    rewrite pos_set_coord by (apply Hok; left; reflexivity). ring. }
  rewrite E. unfold ofnat, rnat. cbn [nofZ Rops]. unfold Rdiv. ring.
Qed.

Lemma move_atoms_map (f : nat -> R * R * V3) (d : nat -> V3) tau ids :
  move_atoms (map f ids) tau (map d ids) = map (fun i => (am (f i), aq (f i), v3add Rops (ap (f i)) (v3scale Rops tau (d i)))) ids.
Proof. induction ids as [|i l IH]; [reflexivity|]. cbn [map move_atoms]. rewrite IH. reflexivity. Qed.

(* the mass-weighting / centre-fit lemma, position side: setting one coordinate moves the group data along gdir *)
Lemma gdata_set_coord (s : SYS) g a k t : wf_group s g ->
  gdata_of Rops (set_coord s a k t) g = move_gd (gdata_of Rops s g) (t - coord Rops s a k) (gdir g a k).
Proof.
  destruct g as [p|ids c fit fg]; intros Hwf; [reflexivity|].
  destruct Hwf as (Hids & Hfids & Hne).
  unfold gdata_of, move_gd, gdir. cbn [gd_atoms gd_dummy]. f_equal.
  rewrite move_atoms_map. apply map_ext_in. intros i Hi.
  pose proof (Hids i Hi) as Hlt. destruct (mass_set_coord s a k t i Hlt) as [Em Eq].
  unfold am, aq, ap. cbn [fst snd]. rewrite Em, Eq. f_equal.
  apply v3_ext. intros j. rewrite !vget_add, vget_scale, vget_scale.
  rewrite pos_set_coord by exact Hlt.
  unfold gshift, cfit. destruct c as [rc|].
  - rewrite !vget_sub. rewrite cog_set_coord by exact Hfids. ring.
  - rewrite vget_zero. ring.
Qed.

(* gradient side: what apply_colvar_force sends to atom a is the gradient contracted with gdir *)
Lemma scatter_app (l1 l2 : list (nat * V3)) a : scatter Rops (l1 ++ l2) a = v3add Rops (scatter Rops l1 a) (scatter Rops l2 a).
Proof. unfold scatter. rewrite filter_app, map_app, vsum_app. reflexivity. Qed.
Lemma scatter_nil a : scatter Rops (@nil (nat * V3)) a = vzero Rops.
Proof. reflexivity. Qed.
Lemma scatter_cons i (v : V3) l a k : vget k (scatter Rops ((i, v) :: l) a) = ind i a * vget k v + vget k (scatter Rops l a).
Proof.
  unfold scatter, ind. cbn [filter fst]. destruct (Nat.eqb i a); cbn [map snd].
  - rewrite vsum_cons, vget_add. ring.
  - ring.
Qed.

Fixpoint sel_sum (ids : list nat) (gr : list V3) (a : nat) (k : axis) : R :=
  match ids, gr with i :: ids', g :: gr' => ind i a * vget k g + sel_sum ids' gr' a k | _, _ => 0 end.

Lemma scatter_combine ids (gr : list V3) F a k :
  vget k (scatter Rops (combine ids (map (v3scale Rops F) gr)) a) = F * sel_sum ids gr a k.
Proof.
  revert gr. induction ids as [|i l IH]; intros gr.
  - cbn [combine sel_sum]. rewrite scatter_nil, vget_zero. ring.
  - destruct gr as [|g gr']; cbn [map combine sel_sum].
    + rewrite scatter_nil, vget_zero. ring.
    + rewrite scatter_cons, IH, vget_scale. ring.
Qed.

Lemma scatter_const (fids : list nat) (v : V3) a k :
  vget k (scatter Rops (map (fun j => (j, v)) fids) a) = cnt fids a * vget k v.
Proof.
  unfold cnt. induction fids as [|f l IH]; cbn [map].
  - rewrite scatter_nil, vget_zero, tsum_nil. ring.
  - rewrite scatter_cons, IH, tsum_cons. ring.
Qed.

Lemma dot_list_gdir ids (gr : list V3) cf a k : length gr = length ids ->
  dot_list gr (map (fun i => v3scale Rops (ind i a - cf) (ek k)) ids) = sel_sum ids gr a k - cf * tsum Rops (map (vget k) gr).
Proof.
  revert gr. induction ids as [|i l IH]; intros gr Hl; destruct gr as [|g gr']; cbn [length] in Hl; try lia.
  - cbn [map dot_list sel_sum]. rewrite tsum_nil. ring.
  - cbn [map dot_list sel_sum]. rewrite tsum_cons, IH by lia.
    rewrite v3dot_get, !vget_scale. rewrite (v3dot_get g (ek k)) || idtac.
    destruct g as [[gx gy] gz], k; cbn [vget ek]; ring.
Qed.

Definition fit_ok_g (g : GRP) (gr : list V3) : Prop :=
  match g with
  | GAtoms _ (Some _) _ false => vsum Rops gr = vzero Rops
  | _ => True
  end.
Fixpoint fit_ok (gs : list GRP) (grs : list (list V3)) : Prop :=
  match gs, grs with g :: gs', gr :: grs' => fit_ok_g g gr /\ fit_ok gs' grs' | _, _ => True end.

Lemma apply_group_grad (s : SYS) (g : GRP) (gr : list V3) a k F :
  length gr = length (gd_atoms (gdata_of Rops s g)) -> fit_ok_g g gr ->
  vget k (scatter Rops (apply_group Rops g gr F) a) = F * dot_list gr (gdir g a k).
Proof.
  destruct g as [p|ids c fit fg]; intros Hl Hfit.
  - cbn [apply_group gdir]. rewrite scatter_nil, vget_zero. destruct gr; cbn [dot_list]; ring.
  - cbn [gdata_of gd_atoms] in Hl. rewrite map_length in Hl.
    cbn [apply_group gdir]. rewrite scatter_app, vget_add, scatter_combine, dot_list_gdir by exact Hl.
    destruct c as [rc|]; cbn [cfit].
    + destruct fg.
      * rewrite scatter_const, !vget_scale, vget_vsum. unfold mone, ofnat, rnat. cbn [nneg n1 ndiv nofZ Rops]. unfold Rdiv. ring.
      * cbn [fit_ok_g] in Hfit. rewrite scatter_nil, vget_zero.
        rewrite <- vget_vsum, Hfit, vget_zero. ring.
    + rewrite scatter_nil, vget_zero. ring.
Qed.

Lemma apply_groups_grad (s : SYS) (gs : list GRP) (grs : list (list V3)) a k F :
  shape_ok grs (map (gdata_of Rops s) gs) -> fit_ok gs grs ->
  vget k (scatter Rops (apply_groups Rops gs grs F) a) = F * dot_lists grs (map (fun g => gdir g a k) gs).
Proof.
  revert grs. induction gs as [|g gs' IH]; intros grs Hs Hf; destruct grs as [|gr grs']; cbn [map shape_ok] in Hs; try contradiction.
  - cbn [apply_groups map dot_lists]. rewrite scatter_nil, vget_zero. ring.
  - destruct Hs as [Hl Hs]. destruct Hf as [Hf1 Hf2].
    cbn [apply_groups map dot_lists]. rewrite scatter_app, vget_add, (apply_group_grad s) by assumption.
    rewrite IH by assumption. ring.
Qed.

Lemma map_gdata_set_coord (s : SYS) (gs : list GRP) a k t : List.Forall (wf_group s) gs ->
  map (gdata_of Rops (set_coord s a k t)) gs =
  move_gs (map (gdata_of Rops s) gs) (t - coord Rops s a k) (map (fun g => gdir g a k) gs).
Proof.
  induction gs as [|g gs' IH]; intros Hwf; [reflexivity|].
  inversion Hwf as [|g0 l0 Hg Hrest]; subst. cbn [map move_gs]. rewrite gdata_set_coord by exact Hg. rewrite IH by exact Hrest. reflexivity.
Qed.

Lemma gdir_shape (s : SYS) (gs : list GRP) a k : shape_ok (map (fun g => gdir g a k) gs) (map (gdata_of Rops s) gs).
Proof.
  induction gs as [|g gs' IH]; cbn [map shape_ok]; [exact I|]. split; [|exact IH].
  destruct g as [p|ids c fit fg]; cbn [gdir gdata_of gd_atoms]; [reflexivity|]. rewrite !map_length. reflexivity.
Qed.

(* d(component value)/d(coordinate k of atom a) = what the force path sends to that coordinate for a unit force *)
Definition cvc_grad_correct (cell : option V3) (c : cvc) (s : SYS) : Prop :=
  forall a k, is_derive (fun t => cvc_value Rops PI cell c (set_coord s a k t)) (coord Rops s a k)
                        (vget k (cvc_total_grad Rops PI cell c s a)).

(* C01_mass_weighting / C01_center_fit_term in one statement: a kernel that is correct as a function of the
   group data is correct as a function of every atomic coordinate of the system, for mass-weighted,
   overlapping, dummy and centred (own or separate fitting group) groups *)
Lemma group_layer cell (c : cvc) (s : SYS) :
  List.Forall (wf_group s) (c_groups c) ->
  dir_correct (keval Rops PI cell (c_kind c)) (map (gdata_of Rops s) (c_groups c)) ->
  fit_ok (c_groups c) (snd (cvc_eval Rops PI cell c s)) ->
  cvc_grad_correct cell c s.
Proof.
  intros Hwf [Hshape Hdir] Hfit a k.
  unfold cvc_value, cvc_total_grad, cvc_eval in *.
  apply (is_derive_ext (fun t => fst (keval Rops PI cell (c_kind c)
           (move_gs (map (gdata_of Rops s) (c_groups c)) (t - coord Rops s a k) (map (fun g => gdir g a k) (c_groups c)))))).
  - intros t. rewrite map_gdata_set_coord by exact Hwf. reflexivity.
  - rewrite (apply_groups_grad s) by assumption. unfold one. cbn [n1 Rops]. rewrite Rmult_1_l.
    evar_last.
    + apply (is_derive_comp (fun tau => fst (keval Rops PI cell (c_kind c) (move_gs (map (gdata_of Rops s) (c_groups c)) tau (map (fun g => gdir g a k) (c_groups c)))))
                            (fun t => t - coord Rops s a k)).
      * replace (coord Rops s a k - coord Rops s a k) with 0 by ring. apply Hdir. apply gdir_shape.
      * auto_derive; [exact I|reflexivity].
    + unfold scal; simpl; unfold mult; simpl. ring.
Qed.

(* ------------------------------------------------------------------ polynomial combination and chain rule *)
Lemma set_coord_id (s : SYS) a k : set_coord s a k (coord Rops s a k) = s.
Proof.
  unfold coord. revert a. induction s as [|x r IH]; intros a; [destruct a; reflexivity|].
  destruct a as [|a']; cbn [set_coord atom_at nth].
  - destruct x as [m q p]. cbn [a_mass a_charge a_pos]. f_equal. f_equal.
    destruct p as [[px py] pz], k; reflexivity.
  - f_equal. apply (IH a').
Qed.

Lemma locally_nonzero (q : R -> R) x0 dq : is_derive q x0 dq -> q x0 <> 0 -> locally x0 (fun t => q t <> 0).
Proof.
  intros Hq Hne.
  assert (Hc : continuous q x0) by (apply (@ex_derive_continuous R_AbsRing R_NormedModule); exists dq; exact Hq).
  apply (Hc (fun y => y <> 0)).
  assert (Hpos : 0 < Rabs (q x0)) by (apply Rabs_pos_lt; exact Hne).
  exists (mkposreal _ Hpos). intros y Hy Hy0. subst y.
  unfold ball in Hy; simpl in Hy; unfold AbsRing_ball, abs, minus, plus, opp in Hy; simpl in Hy.
  rewrite Rplus_0_l, Rabs_Ropp in Hy. lra.
Qed.

Definition exp_ok_at (n : Z) (q0 : R) : Prop := (0 <= n)%Z \/ q0 <> 0.

Lemma poly_term_derive (q : R -> R) x0 dq c n : is_derive q x0 dq -> exp_ok_at n (q x0) ->
  is_derive (fun t => c * (if Z.eqb n 1 then q t else ipow Rops (q t) n)) x0 (c * IZR n * ipow Rops (q x0) (n - 1) * dq).
Proof.
  intros Hq Hok.
  destruct (Z.eqb n 1) eqn:E1.
  - apply Z.eqb_eq in E1. subst n. replace (1 - 1)%Z with 0%Z by lia. rewrite ipow_0.
    evar_last; [apply is_derive_scal; exact Hq|]. cbn. ring.
  - apply Z.eqb_neq in E1.
    destruct (Z_le_gt_dec 1 n) as [Hn|Hn].
    + (* n >= 2 *)
      apply (is_derive_ext (fun t => c * zpow (q t) n)).
      * intros t. rewrite ipow_zpow by (left; lia). reflexivity.
      * rewrite ipow_zpow by (left; lia).
        evar_last.
        -- apply is_derive_scal. apply (is_derive_comp (fun y => zpow y n) q); [apply zpow_derive; left; exact Hn|exact Hq].
        -- unfold scal; simpl; unfold mult; simpl. ring.
    + destruct (Z.eq_dec n 0) as [->|Hn0].
      * (* n = 0: the term is the constant c *)
        apply (is_derive_ext (fun _ => c * 1)).
        -- intros t. rewrite ipow_0. reflexivity.
        -- replace (c * IZR 0 * _ * dq) with 0 by (cbn; ring). apply @is_derive_const.
      * (* n < 0 *)
        destruct Hok as [Hok|Hne]; [lia|].
        apply (is_derive_ext_loc (fun t => c * zpow (q t) n)).
        -- generalize (locally_nonzero q x0 dq Hq Hne). apply filter_imp. intros t Ht.
           rewrite ipow_zpow by (right; exact Ht). reflexivity.
        -- rewrite ipow_zpow by (right; exact Hne).
           evar_last.
           ++ apply is_derive_scal. apply (is_derive_comp (fun y => zpow y n) q); [apply zpow_derive; right; exact Hne|exact Hq].
           ++ unfold scal; simpl; unfold mult; simpl. ring.
Qed.

Definition cvc_ok (cell : option V3) (c : cvc) (s : SYS) : Prop :=
  cvc_grad_correct cell c s /\ exp_ok_at (c_exp c) (cvc_value Rops PI cell c s).

(* d(variable)/d(coordinate) *)
Definition var_dcoord (cell : option V3) (s : SYS) (a : nat) (k : axis) (v : cvar) : R :=
  tsum Rops (map (fun c => c_coeff c * IZR (c_exp c) * ipow Rops (cvc_value Rops PI cell c s) (c_exp c - 1)
                           * vget k (cvc_total_grad Rops PI cell c s a)) (cv_cvcs v)).

Lemma var_value_derive cell (s : SYS) a k (v : cvar) :
  (forall c, In c (cv_cvcs v) -> cvc_ok cell c s) ->
  is_derive (fun t => var_value Rops PI cell (set_coord s a k t) v) (coord Rops s a k) (var_dcoord cell s a k v).
Proof.
  intros Hok. unfold var_value, var_dcoord.
  apply (is_derive_tsum (fun c t => cvc_term Rops PI cell (set_coord s a k t) c)).
  intros c Hc. destruct (Hok c Hc) as [Hg He]. unfold cvc_term.
  pose proof (poly_term_derive (fun t => cvc_value Rops PI cell c (set_coord s a k t)) (coord Rops s a k)
                               (vget k (cvc_total_grad Rops PI cell c s a)) (c_coeff c) (c_exp c) (Hg a k)) as P.
  cbv beta in P. rewrite set_coord_id in P. apply P. exact He.
Qed.

Lemma path_of_vars cell (s : SYS) a k (vars : list cvar) :
  (forall v c, In v vars -> In c (cv_cvcs v) -> cvc_ok cell c s) ->
  path_ok (fun t => map (var_value Rops PI cell (set_coord s a k t)) vars) (map (var_dcoord cell s a k) vars) (coord Rops s a k).
Proof.
  intros Hok i. unfold xat. revert i. induction vars as [|v l IH]; intros i.
  - cbn [map]. destruct i; cbn [nth]; apply @is_derive_const.
  - destruct i as [|i']; cbn [map nth].
    + apply var_value_derive. intros c Hc. apply (Hok v c); [left; reflexivity|exact Hc].
    + apply IH. intros v' c Hv Hc. apply (Hok v' c); [right; exact Hv|exact Hc].
Qed.

(* linearity of the force path in the force *)
Lemma apply_group_linear (g : GRP) (gr : list V3) F a k :
  vget k (scatter Rops (apply_group Rops g gr F) a) = F * vget k (scatter Rops (apply_group Rops g gr 1) a).
Proof.
  destruct g as [p|ids c fit fg]; cbn [apply_group].
  - rewrite scatter_nil, vget_zero. ring.
  - rewrite !scatter_app, !vget_add, !scatter_combine.
    destruct c as [rc|]; [destruct fg|]; rewrite ?scatter_const, ?scatter_nil, ?vget_zero, ?vget_scale; ring.
Qed.
Lemma apply_groups_linear (gs : list GRP) (grs : list (list V3)) F a k :
  vget k (scatter Rops (apply_groups Rops gs grs F) a) = F * vget k (scatter Rops (apply_groups Rops gs grs 1) a).
Proof.
  revert grs. induction gs as [|g gs' IH]; intros grs; destruct grs as [|gr grs']; cbn [apply_groups];
    rewrite ?scatter_nil, ?vget_zero; try ring.
  rewrite !scatter_app, !vget_add, apply_group_linear, IH. ring.
Qed.

Lemma var_contribs_grad cell (s : SYS) f (v : cvar) a k :
  vget k (scatter Rops (var_contribs Rops PI cell s f v) a) = f * var_dcoord cell s a k v.
Proof.
  unfold var_contribs, var_dcoord. induction (cv_cvcs v) as [|c l IH]; cbn [map concat].
  - rewrite scatter_nil, vget_zero, tsum_nil. ring.
  - rewrite scatter_app, vget_add, IH, tsum_cons, apply_groups_linear.
    unfold cvc_force, cvc_total_grad, one. cbn [nmul nofZ n1 Rops]. ring.
Qed.

Lemma contribs_from_grad (cf : config) (s : SYS) a k o (vars : list cvar) :
  vget k (scatter Rops (contribs_from Rops PI cf s o vars) a) =
  tsum Rops (map (fun p => var_force Rops PI cf s (fst p) * var_dcoord (cf_cell cf) s a k (snd p)) (combine (seq o (length vars)) vars)).
Proof.
  revert o. induction vars as [|v l IH]; intros o; cbn [contribs_from length seq combine map].
  - rewrite scatter_nil, vget_zero, tsum_nil. reflexivity.
  - rewrite scatter_app, vget_add, var_contribs_grad, IH, tsum_cons. reflexivity.
Qed.

Lemma tsum_seq_combine {A} (g : nat -> R) (f : A -> R) (l : list A) o :
  tsum Rops (map (fun v => g v * nth (v - o) (map f l) 0) (seq o (length l))) =
  tsum Rops (map (fun p => g (fst p) * f (snd p)) (combine (seq o (length l)) l)).
Proof.
  revert o. induction l as [|x l IH]; intros o; [reflexivity|].
  cbn [length seq map combine]. rewrite !tsum_cons. cbn [fst snd]. rewrite Nat.sub_diag. cbn [nth].
  rewrite <- IH. f_equal. apply tsum_ext. intros v Hv. apply in_seq in Hv.
  replace (v - o)%nat with (Datatypes.S (v - Datatypes.S o)) by lia. reflexivity.
Qed.

(* C01_chain_rule *)
Theorem chain_rule (cf : config) (s : SYS) :
  (forall v c, In v (cf_vars cf) -> In c (cv_cvcs v) -> cvc_ok (cf_cell cf) c s) ->
  (forall b, In b (cf_biases cf) -> bias_force_correct b (cf_vars cf) (var_values Rops PI cf s)) ->
  forall a k, is_derive (fun t => energy Rops PI cf (set_coord s a k t)) (coord Rops s a k)
                        (- vget k (force_on Rops PI cf s a)).
Proof.
  intros Hc Hb a k. unfold energy, force_on, all_contribs.
  rewrite contribs_from_grad.
  set (dxs := map (var_dcoord (cf_cell cf) s a k) (cf_vars cf)).
  (* derivative of each bias energy along the path of the variable values *)
  assert (HB : forall b, In b (cf_biases cf) ->
     is_derive (fun t => bias_energy Rops b (cf_vars cf) (var_values Rops PI cf (set_coord s a k t))) (coord Rops s a k)
               (- tsum Rops (map (fun v => bias_force Rops b (cf_vars cf) (var_values Rops PI cf s) v * xat Rops dxs v) (seq 0 (length (cf_vars cf)))))).
  { intros b Hin. apply (Hb b Hin (fun t => var_values Rops PI cf (set_coord s a k t)) dxs).
    - rewrite set_coord_id. reflexivity.
    - unfold var_values, dxs. apply path_of_vars. exact Hc. }
  evar_last.
  - apply (is_derive_tsum (fun b t => bias_energy Rops b (cf_vars cf) (var_values Rops PI cf (set_coord s a k t)))
                          (fun b => - tsum Rops (map (fun v => bias_force Rops b (cf_vars cf) (var_values Rops PI cf s) v * xat Rops dxs v) (seq 0 (length (cf_vars cf)))))).
    exact HB.
  - (* exchange the sums over biases and variables *)
    rewrite <- (tsum_seq_combine (var_force Rops PI cf s) (var_dcoord (cf_cell cf) s a k) (cf_vars cf) 0).
    transitivity (- tsum Rops (map (fun b => tsum Rops (map (fun v => bias_force Rops b (cf_vars cf) (var_values Rops PI cf s) v * xat Rops dxs v) (seq 0 (length (cf_vars cf))))) (cf_biases cf))).
    { replace (- tsum Rops (map (fun b => tsum Rops (map (fun v => bias_force Rops b (cf_vars cf) (var_values Rops PI cf s) v * xat Rops dxs v) (seq 0 (length (cf_vars cf))))) (cf_biases cf)))
        with (-1 * tsum Rops (map (fun b => tsum Rops (map (fun v => bias_force Rops b (cf_vars cf) (var_values Rops PI cf s) v * xat Rops dxs v) (seq 0 (length (cf_vars cf))))) (cf_biases cf))) by ring.
      rewrite <- tsum_scale'. apply tsum_ext. intros b _. ring. }
    f_equal. rewrite tsum_swap. apply tsum_ext. intros v _.
    unfold var_force. rewrite Rmult_comm, <- tsum_scale'. apply tsum_ext. intros b _.
    unfold xat, dxs. rewrite Nat.sub_0_r. cbn [n0 Rops]. unfold zero. cbn [n0 Rops]. ring.
Qed.

(* ------------------------------------------------------------------ component kernels: centre-of-mass layer *)
Definition gd_wf (g : GD) : Prop :=
  match gd_dummy g with Some _ => gd_atoms g = [] | None => gd_mass Rops g <> 0 end.

Fixpoint wsum (l : list (R * R * V3)) (D : list V3) : V3 :=
  match l, D with a :: l', d :: D' => v3add Rops (v3scale Rops (am a) d) (wsum l' D') | _, _ => vzero Rops end.
(* the direction in which the centre of mass moves *)
Definition comdir (g : GD) (D : list V3) : V3 :=
  match gd_dummy g with Some _ => vzero Rops | None => vdiv Rops (wsum (gd_atoms g) D) (gd_mass Rops g) end.

Lemma move_atoms_mass l t D : map am (move_atoms l t D) = map am l.
Proof. revert D. induction l as [|a l IH]; intros D; destruct D as [|d D']; try reflexivity. cbn [move_atoms map]. rewrite IH. reflexivity. Qed.
Lemma gd_mass_move g t D : gd_mass Rops (move_gd g t D) = gd_mass Rops g.
Proof. unfold gd_mass, move_gd. cbn [gd_atoms]. rewrite move_atoms_mass. reflexivity. Qed.
Lemma move_atoms_length l t D : length (move_atoms l t D) = length l.
Proof. rewrite <- (map_length am), move_atoms_mass, map_length. reflexivity. Qed.

Lemma msum_move (l : list (R * R * V3)) t D j :
  vget j (vsum Rops (map (fun a => v3scale Rops (am a) (ap a)) (move_atoms l t D))) =
  vget j (vsum Rops (map (fun a => v3scale Rops (am a) (ap a)) l)) + t * vget j (wsum l D).
Proof.
  revert D. induction l as [|a l IH]; intros D; destruct D as [|d D']; cbn [move_atoms map wsum];
    rewrite ?vget_zero; try ring.
  rewrite !vsum_cons, !vget_add, IH, !vget_scale. unfold am, ap. cbn [fst snd]. rewrite vget_add, vget_scale. ring.
Qed.

Lemma gd_atoms_move (g : GD) t D : gd_atoms (move_gd g t D) = move_atoms (gd_atoms g) t D.
Proof. reflexivity. Qed.
Lemma gd_dummy_move (g : GD) t D : gd_dummy (move_gd g t D) = gd_dummy g.
Proof. reflexivity. Qed.

Lemma gd_com_move (g : GD) t D : gd_wf g ->
  gd_com Rops (move_gd g t D) = v3add Rops (gd_com Rops g) (v3scale Rops t (comdir g D)).
Proof.
  intros Hwf. unfold gd_wf in Hwf. unfold gd_com, comdir. rewrite gd_dummy_move.
  destruct (gd_dummy g) as [p|] eqn:Ed.
  - apply v3_ext. intros j. rewrite vget_add, vget_scale, vget_zero. ring.
  - apply v3_ext. intros j. rewrite gd_mass_move. rewrite vget_add, vget_scale, !vget_div.
    rewrite gd_atoms_move, msum_move. field. exact Hwf.
Qed.

Lemma wgrad_dot (g : GD) (G : V3) D : gd_wf g -> dot_list (wgrad Rops g G) D = v3dot Rops G (comdir g D).
Proof.
  intros Hwf. unfold gd_wf in Hwf. unfold wgrad, comdir. destruct (gd_dummy g) as [p|] eqn:Ed.
  - rewrite Hwf. cbn [map dot_list]. rewrite v3dot_get, !vget_zero. ring.
  - set (M := gd_mass Rops g) in *. clearbody M.
    rewrite v3dot_get, !vget_div.
    revert D. induction (gd_atoms g) as [|a l IH]; intros D; destruct D as [|d D']; cbn [map dot_list wsum];
      rewrite ?vget_zero; try (field; exact Hwf).
    rewrite IH, !vget_add, !vget_scale, v3dot_get, !vget_scale. cbn [ndiv Rops]. field. exact Hwf.
Qed.

Lemma wgrad_length (g : GD) G : length (wgrad Rops g G) = length (gd_atoms g).
Proof. unfold wgrad. apply map_length. Qed.

Lemma move_gd_nil (g : GD) t : move_gd g t [] = g.
Proof. destruct g as [l d]. unfold move_gd. cbn [gd_atoms gd_dummy]. destruct l; reflexivity. Qed.
Lemma gnth_move (gs : list GD) t Ds i : gnth (move_gs gs t Ds) i = move_gd (gnth gs i) t (nth i Ds []).
Proof.
  unfold gnth. revert Ds i. induction gs as [|g gs' IH]; intros Ds i.
  - cbn [move_gs]. destruct i; cbn [nth]; reflexivity.
  - destruct Ds as [|D Ds']; cbn [move_gs].
    + replace (nth i [] []) with (@nil V3) by (destruct i; reflexivity). rewrite move_gd_nil. reflexivity.
    + destruct i as [|i']; cbn [nth]; [reflexivity|apply IH].
Qed.

Definition gds_wf (gs : list GD) (n : nat) : Prop := length gs = n /\ List.Forall gd_wf gs.
Lemma gds_wf_nth gs n i : gds_wf gs n -> (i < n)%nat -> gd_wf (gnth gs i).
Proof.
  intros [Hl Hf] Hi. unfold gnth. rewrite Forall_forall in Hf. apply Hf. apply nth_In. lia.
Qed.

(* lines in the direction e through d: the elementary calculus facts *)
Lemma line_sub (c1 c2 E1 E2 : V3) t :
  v3sub Rops (v3add Rops c2 (v3scale Rops t E2)) (v3add Rops c1 (v3scale Rops t E1)) =
  v3add Rops (v3sub Rops c2 c1) (v3scale Rops t (v3sub Rops E2 E1)).
Proof. apply v3_ext. intros j. rewrite ?vget_sub, ?vget_add, ?vget_scale, ?vget_sub. ring. Qed.

Lemma norm2_pos (d : V3) : v3norm2 Rops d <> 0 -> 0 < v3norm2 Rops d.
Proof.
  destruct d as [[x y] z]. unfold v3norm2, v3dot. cbn [nadd nmul Rops]. intros H.
  pose proof (Rle_0_sqr x). pose proof (Rle_0_sqr y). pose proof (Rle_0_sqr z). unfold Rsqr in *. lra.
Qed.

Lemma norm_dir (d e : V3) : v3norm2 Rops d <> 0 ->
  is_derive (fun t => vnorm Rops (v3add Rops d (v3scale Rops t e))) 0 (v3dot Rops (vunit Rops d) e).
Proof.
  intros Hd. pose proof (norm2_pos d Hd) as Hpos.
  assert (Hs : 0 < sqrt (v3norm2 Rops d)) by (apply sqrt_lt_R0; exact Hpos).
  unfold vunit, vnorm. cbn [nltb nsqrt Rops]. unfold zero. cbn [n0 Rops].
  replace (Rltb 0 (sqrt (v3norm2 Rops d))) with true by (symmetry; apply Rltb_true; exact Hs).
  destruct d as [[x y] z], e as [[ex ey] ez].
  unfold v3norm2, v3dot, v3add, v3scale, vdiv in *. cbn [nadd nmul ndiv nsqrt Rops] in *.
  auto_derive.
  - replace ((x + 0 * ex) * (x + 0 * ex) + (y + 0 * ey) * (y + 0 * ey) + (z + 0 * ez) * (z + 0 * ez)) with (x * x + y * y + z * z) by ring.
    exact Hpos.
  - replace ((x + 0 * ex) * (x + 0 * ex) + (y + 0 * ey) * (y + 0 * ey) + (z + 0 * ez) * (z + 0 * ez)) with (x * x + y * y + z * z) by ring.
    field. lra.
Qed.

(* ---- distance ---- *)
Lemma pdist_nocell pbc (p1 p2 : V3) : pdist Rops pbc None p1 p2 = v3sub Rops p2 p1.
Proof. destruct pbc; reflexivity. Qed.
Lemma pdist_nopbc cell (p1 p2 : V3) : pdist Rops false cell p1 p2 = v3sub Rops p2 p1.
Proof. reflexivity. Qed.
(* the minimum-image convention does not enter: no cell, or forceNoPBC *)
Definition plain (pbc : bool) (cell : option V3) : Prop := cell = None \/ pbc = false.
Lemma pdist_plain pbc cell (p1 p2 : V3) : plain pbc cell -> pdist Rops pbc cell p1 p2 = v3sub Rops p2 p1.
Proof. intros [->| ->]; [apply pdist_nocell|apply pdist_nopbc]. Qed.

Lemma line_zero (p e : V3) : v3add Rops p (v3scale Rops 0 e) = p.
Proof. apply v3_ext. intros j. rewrite vget_add, vget_scale. ring. Qed.

Lemma com_curve (gs : list GD) n Ds i t : gds_wf gs n -> (i < n)%nat ->
  gd_com Rops (gnth (move_gs gs t Ds) i) = v3add Rops (gd_com Rops (gnth gs i)) (v3scale Rops t (comdir (gnth gs i) (nth i Ds []))).
Proof. intros Hwf Hi. rewrite gnth_move. apply gd_com_move. apply (gds_wf_nth gs n i Hwf Hi). Qed.

(* ------------------------------------------------------------------ minimum image in an orthorhombic cell: locally a constant lattice shift *)
Lemma min_image1_pdiff L d : min_image1 Rops L d = ValueModel.pdiff Rops L d.
Proof. reflexivity. Qed.

Definition cut_free1 (L d : R) : Prop := 0 < L /\ - L / 2 < min_image1 Rops L d.

Lemma min_image1_loc L d e : cut_free1 L d ->
  locally 0 (fun t => min_image1 Rops L (d + t * e) = min_image1 Rops L d + t * e).
Proof.
  intros [HL Hlo]. rewrite !min_image1_pdiff in *.
  pose proof (CV.C18.ValueProofs.pdiff_range L d HL) as [_ Hhi].
  set (r0 := ValueModel.pdiff Rops L d) in *.
  set (n0 := Zfloor (d / L + 1 / 2)).
  assert (Er : r0 = d - IZR n0 * L) by (unfold r0, n0; apply CV.C18.ValueProofs.pdiff_eq).
  set (eps := Rmin (r0 + L / 2) (L / 2 - r0)).
  assert (Heps : 0 < eps) by (unfold eps; apply Rmin_pos; lra).
  assert (Hd : 0 < eps / (Rabs e + 1)) by (apply Rdiv_lt_0_compat; [exact Heps|pose proof (Rabs_pos e); lra]).
  exists (mkposreal _ Hd). intros t Ht.
  unfold ball in Ht; simpl in Ht; unfold AbsRing_ball, abs, minus, plus, opp in Ht; simpl in Ht.
  rewrite Ropp_0, Rplus_0_r in Ht.
  assert (Hte : Rabs (t * e) < eps).
  { rewrite Rabs_mult. pose proof (Rabs_pos e) as He. pose proof (Rabs_pos t) as Htp.
    assert (Rabs t * (Rabs e + 1) < eps) by (apply (Rmult_lt_reg_r (/ (Rabs e + 1))); [apply Rinv_0_lt_compat; lra|];
      rewrite Rmult_assoc, Rinv_r by lra; rewrite Rmult_1_r; exact Ht).
    nra. }
  apply Rabs_def2 in Hte. destruct Hte as [Ht1 Ht2].
  pose proof (Rmin_l (r0 + L / 2) (L / 2 - r0)). pose proof (Rmin_r (r0 + L / 2) (L / 2 - r0)). fold eps in H, H0.
  rewrite min_image1_pdiff. apply (CV.C18.ValueProofs.pdiff_unique L (d + t * e) (r0 + t * e) n0 HL); lra.
Qed.

(* the minimum-image convention does not enter, or no component of the difference sits on a cut of the cell *)
Definition image_ok (pbc : bool) (cell : option V3) (a b : V3) : Prop :=
  plain pbc cell \/
  exists lx ly lz, cell = Some (lx, ly, lz) /\ pbc = true /\
    cut_free1 lx (vget AX (v3sub Rops b a)) /\ cut_free1 ly (vget AY (v3sub Rops b a)) /\ cut_free1 lz (vget AZ (v3sub Rops b a)).

Lemma pdist_line_loc pbc cell (c1 c2 E1 E2 : V3) : image_ok pbc cell c1 c2 ->
  locally 0 (fun t => pdist Rops pbc cell (v3add Rops c1 (v3scale Rops t E1)) (v3add Rops c2 (v3scale Rops t E2))
                      = v3add Rops (pdist Rops pbc cell c1 c2) (v3scale Rops t (v3sub Rops E2 E1))).
Proof.
  intros [Hpl|(lx & ly & lz & -> & -> & Cx & Cy & Cz)].
  - apply filter_forall. intros t. rewrite !pdist_plain by exact Hpl. apply line_sub.
  - pose proof (min_image1_loc lx _ (vget AX (v3sub Rops E2 E1)) Cx) as Lx.
    pose proof (min_image1_loc ly _ (vget AY (v3sub Rops E2 E1)) Cy) as Ly.
    pose proof (min_image1_loc lz _ (vget AZ (v3sub Rops E2 E1)) Cz) as Lz.
    generalize (filter_and _ _ Lx (filter_and _ _ Ly Lz)). apply filter_imp. intros t (Hx & Hy & Hz).
    unfold pdist. cbn [position_distance]. rewrite (line_sub c1 c2 E1 E2 t).
    destruct (v3sub Rops c2 c1) as [[dx dy] dz] eqn:Ed. destruct (v3sub Rops E2 E1) as [[ex ey] ez] eqn:Ee.
    cbn [vget] in Hx, Hy, Hz. unfold v3add, v3scale. cbn [nadd nmul Rops]. rewrite Hx, Hy, Hz. reflexivity.
Qed.

Lemma dot_lists_2 (a b : list V3) Ds : dot_lists [a; b] Ds = dot_list a (nth 0 Ds []) + dot_list b (nth 1 Ds []).
Proof.
  destruct Ds as [|D0 [|D1 Ds']]; cbn [dot_lists nth].
  - destruct a, b; cbn [dot_list]; ring.
  - destruct b; cbn [dot_list]; ring.
  - ring.
Qed.
Lemma dot_lists_3 (a b c : list V3) Ds :
  dot_lists [a; b; c] Ds = dot_list a (nth 0 Ds []) + dot_list b (nth 1 Ds []) + dot_list c (nth 2 Ds []).
Proof.
  destruct Ds as [|D0 [|D1 [|D2 Ds']]]; cbn [dot_lists nth].
  - destruct a, b, c; cbn [dot_list]; ring.
  - destruct b, c; cbn [dot_list]; ring.
  - destruct c; cbn [dot_list]; ring.
  - ring.
Qed.
Lemma shape_2 (g0 g1 : GD) (gs : list GD) (a b : list V3) : gs = [g0; g1] ->
  length a = length (gd_atoms g0) -> length b = length (gd_atoms g1) -> shape_ok [a; b] gs.
Proof. intros -> H1 H2. cbn [shape_ok]. auto. Qed.
Lemma gds_2 (gs : list GD) : gds_wf gs 2 -> gs = [gnth gs 0; gnth gs 1].
Proof. intros [Hl _]. destruct gs as [|g0 [|g1 [|g2 r]]]; cbn [length] in Hl; try lia. reflexivity. Qed.
Lemma gds_3 (gs : list GD) : gds_wf gs 3 -> gs = [gnth gs 0; gnth gs 1; gnth gs 2].
Proof. intros [Hl _]. destruct gs as [|g0 [|g1 [|g2 [|g3 r]]]]; cbn [length] in Hl; try lia. reflexivity. Qed.

Lemma v3dot_neg_l (a b : V3) : v3dot Rops (vneg Rops a) b = - v3dot Rops a b.
Proof. rewrite !v3dot_get, !vget_neg. ring. Qed.
Lemma v3dot_sub_r (a b c : V3) : v3dot Rops a (v3sub Rops b c) = v3dot Rops a b - v3dot Rops a c.
Proof. rewrite !v3dot_get, !vget_sub. ring. Qed.
Lemma v3dot_scale_l s (a b : V3) : v3dot Rops (v3scale Rops s a) b = s * v3dot Rops a b.
Proof. rewrite !v3dot_get, !vget_scale. ring. Qed.

Lemma dir_correct_distance pbc cell (gs : list GD) : gds_wf gs 2 ->
  image_ok pbc cell (gd_com Rops (gnth gs 0)) (gd_com Rops (gnth gs 1)) ->
  v3norm2 Rops (pdist Rops pbc cell (gd_com Rops (gnth gs 0)) (gd_com Rops (gnth gs 1))) <> 0 ->
  dir_correct (k_distance Rops pbc cell) gs.
Proof.
  intros Hwf Himg Hne.
  pose proof (gds_wf_nth gs 2 0 Hwf ltac:(lia)) as W0. pose proof (gds_wf_nth gs 2 1 Hwf ltac:(lia)) as W1.
  split.
  - unfold k_distance. cbn [snd]. apply (shape_2 (gnth gs 0) (gnth gs 1)); [apply gds_2; exact Hwf| |]; apply wgrad_length.
  - intros Ds _. unfold k_distance. cbn [fst snd]. rewrite dot_lists_2, !wgrad_dot by assumption.
    set (d0 := pdist Rops pbc cell (gd_com Rops (gnth gs 0)) (gd_com Rops (gnth gs 1))) in *.
    apply (is_derive_ext_loc (fun t => vnorm Rops (v3add Rops d0
             (v3scale Rops t (v3sub Rops (comdir (gnth gs 1) (nth 1 Ds [])) (comdir (gnth gs 0) (nth 0 Ds []))))))).
    + generalize (pdist_line_loc pbc cell _ _ (comdir (gnth gs 0) (nth 0 Ds [])) (comdir (gnth gs 1) (nth 1 Ds [])) Himg).
      apply filter_imp. intros t Ht. rewrite !(com_curve gs 2 Ds _ t Hwf) by lia. rewrite Ht. reflexivity.
    + evar_last; [apply norm_dir; exact Hne|]. rewrite v3dot_neg_l, v3dot_sub_r. ring.
Qed.

(* ---- distanceZ, fixed axis ---- *)
Lemma dir_correct_distance_z pbc cell ax (gs : list GD) : gds_wf gs 2 ->
  image_ok pbc cell (gd_com Rops (gnth gs 1)) (gd_com Rops (gnth gs 0)) ->
  dir_correct (k_distance_z Rops pbc cell ax) gs.
Proof.
  intros Hwf Himg.
  pose proof (gds_wf_nth gs 2 0 Hwf ltac:(lia)) as W0. pose proof (gds_wf_nth gs 2 1 Hwf ltac:(lia)) as W1.
  split.
  - unfold k_distance_z. cbn [snd]. apply (shape_2 (gnth gs 0) (gnth gs 1)); [apply gds_2; exact Hwf| |]; apply wgrad_length.
  - intros Ds _. unfold k_distance_z. cbn [fst snd]. rewrite dot_lists_2, !wgrad_dot by assumption.
    set (d0 := pdist Rops pbc cell (gd_com Rops (gnth gs 1)) (gd_com Rops (gnth gs 0))) in *.
    apply (is_derive_ext_loc (fun t => v3dot Rops ax (v3add Rops d0
             (v3scale Rops t (v3sub Rops (comdir (gnth gs 0) (nth 0 Ds [])) (comdir (gnth gs 1) (nth 1 Ds []))))))).
    + generalize (pdist_line_loc pbc cell _ _ (comdir (gnth gs 1) (nth 1 Ds [])) (comdir (gnth gs 0) (nth 0 Ds [])) Himg).
      apply filter_imp. intros t Ht. rewrite !(com_curve gs 2 Ds _ t Hwf) by lia. rewrite Ht. reflexivity.
    + rewrite v3dot_neg_l.
      destruct ax as [[ax ay] az], d0 as [[dx dy] dz],
               (comdir (gnth gs 0) (nth 0 Ds [])) as [[ex ey] ez], (comdir (gnth gs 1) (nth 1 Ds [])) as [[fx fy] fz].
      unfold v3dot, v3add, v3scale, v3sub. cbn [nadd nsub nmul Rops]. auto_derive; [exact I|ring].
Qed.

(* ---- distanceXY, fixed (unit) axis ---- *)

Definition vperp (d ax : V3) : V3 := v3sub Rops d (v3scale Rops (v3dot Rops d ax) ax).
Lemma vperp_line (d e ax : V3) t : vperp (v3add Rops d (v3scale Rops t e)) ax = v3add Rops (vperp d ax) (v3scale Rops t (vperp e ax)).
Proof.
  unfold vperp. apply v3_ext. intros j.
  rewrite ?vget_sub, ?vget_add, ?vget_scale, ?vget_sub, ?vget_scale, !v3dot_get, ?vget_add, ?vget_scale. ring.
Qed.
Lemma vperp_orth (d ax : V3) : v3norm2 Rops ax = 1 -> v3dot Rops (vperp d ax) ax = 0.
Proof.
  unfold vperp, v3norm2. rewrite ?v3dot_get, ?vget_sub, ?vget_scale, ?v3dot_get. intros H.
  set (a := vget AX ax) in *. set (b := vget AY ax) in *. set (c := vget AZ ax) in *.
  set (x := vget AX d). set (y := vget AY d). set (z := vget AZ d).
  replace ((x - (x * a + y * b + z * c) * a) * a + (y - (x * a + y * b + z * c) * b) * b + (z - (x * a + y * b + z * c) * c) * c)
    with ((x * a + y * b + z * c) * (1 - (a * a + b * b + c * c))) by ring.
  rewrite H. ring.
Qed.

Lemma dir_correct_distance_xy pbc cell ax (gs : list GD) : gds_wf gs 2 ->
  image_ok pbc cell (gd_com Rops (gnth gs 1)) (gd_com Rops (gnth gs 0)) -> v3norm2 Rops ax = 1 ->
  v3norm2 Rops (vperp (pdist Rops pbc cell (gd_com Rops (gnth gs 1)) (gd_com Rops (gnth gs 0))) ax) <> 0 ->
  dir_correct (k_distance_xy Rops pbc cell ax) gs.
Proof.
  intros Hwf Himg Hax Hne.
  pose proof (gds_wf_nth gs 2 0 Hwf ltac:(lia)) as W0. pose proof (gds_wf_nth gs 2 1 Hwf ltac:(lia)) as W1.
  set (d0 := pdist Rops pbc cell (gd_com Rops (gnth gs 1)) (gd_com Rops (gnth gs 0))) in *.
  pose proof (norm2_pos _ Hne) as Hpos.
  assert (Hs : sqrt (v3norm2 Rops (vperp d0 ax)) <> 0) by (apply Rgt_not_eq, sqrt_lt_R0; exact Hpos).
  assert (Ev : forall gs', fst (k_distance_xy Rops pbc cell ax gs') =
           vnorm Rops (vperp (pdist Rops pbc cell (gd_com Rops (gnth gs' 1)) (gd_com Rops (gnth gs' 0))) ax)).
  { intros gs'. unfold k_distance_xy. cbv zeta. fold (vperp (pdist Rops pbc cell (gd_com Rops (gnth gs' 1)) (gd_com Rops (gnth gs' 0))) ax).
    destruct (neqb Rops _ (zero Rops)); reflexivity. }
  assert (Eg : snd (k_distance_xy Rops pbc cell ax gs) =
           [wgrad Rops (gnth gs 0) (v3scale Rops (1 / vnorm Rops (vperp d0 ax)) (vperp d0 ax));
            wgrad Rops (gnth gs 1) (v3scale Rops (-1 * (1 / vnorm Rops (vperp d0 ax))) (vperp d0 ax))]).
  { unfold k_distance_xy. cbv zeta. fold d0. fold (vperp d0 ax).
    unfold vnorm. cbn [neqb nsqrt Rops]. unfold zero. cbn [n0 Rops]. rewrite Reqb_false by exact Hs. reflexivity. }
  split.
  - rewrite Eg. apply (shape_2 (gnth gs 0) (gnth gs 1)); [apply gds_2; exact Hwf| |]; apply wgrad_length.
  - intros Ds _. rewrite Eg, dot_lists_2, !wgrad_dot by assumption.
    apply (is_derive_ext_loc (fun t => vnorm Rops (v3add Rops (vperp d0 ax)
              (v3scale Rops t (vperp (v3sub Rops (comdir (gnth gs 0) (nth 0 Ds [])) (comdir (gnth gs 1) (nth 1 Ds []))) ax))))).
    + generalize (pdist_line_loc pbc cell _ _ (comdir (gnth gs 1) (nth 1 Ds [])) (comdir (gnth gs 0) (nth 0 Ds [])) Himg).
      apply filter_imp. intros t Ht. rewrite Ev. rewrite !(com_curve gs 2 Ds _ t Hwf) by lia. rewrite Ht. fold d0.
      rewrite vperp_line. reflexivity.
    + evar_last; [apply norm_dir; exact Hne|].
      (* unit(v).(e - (e.ax) ax) = (v/x).e because v is orthogonal to the axis *)
      pose proof (vperp_orth d0 ax Hax) as Ho.
      set (v := vperp d0 ax) in *. set (e0 := comdir (gnth gs 0) (nth 0 Ds [])). set (e1 := comdir (gnth gs 1) (nth 1 Ds [])).
      unfold vunit, vnorm in *. cbn [nltb nsqrt Rops]. unfold zero. cbn [n0 Rops].
      replace (Rltb 0 (sqrt (v3norm2 Rops v))) with true by (symmetry; apply Rltb_true; apply sqrt_lt_R0; exact Hpos).
      unfold vperp. rewrite !v3dot_get in *. rewrite ?vget_div, ?vget_sub, ?vget_scale, ?v3dot_get, ?vget_sub.
      set (n := sqrt (v3norm2 Rops v)) in *.
      set (vx := vget AX v) in *. set (vy := vget AY v) in *. set (vz := vget AZ v) in *.
      set (a := vget AX ax) in *. set (b := vget AY ax) in *. set (c := vget AZ ax) in *.
      clearbody n vx vy vz a b c. clear - Hs Ho.
      set (S := (vget AX e0 - vget AX e1) * a + (vget AY e0 - vget AY e1) * b + (vget AZ e0 - vget AZ e1) * c).
      transitivity ((vx * (vget AX e0 - vget AX e1) + vy * (vget AY e0 - vget AY e1) + vz * (vget AZ e0 - vget AZ e1)) / n
                    - S * (vx * a + vy * b + vz * c) / n).
      { unfold S. field. exact Hs. }
      rewrite Ho. field. exact Hs.
Qed.

(* ---- components that look at individual atoms: inertia, gyration ---- *)
Fixpoint move_pos (l : list V3) (t : R) (D : list V3) : list V3 :=
  match l, D with p :: l', d :: D' => v3add Rops p (v3scale Rops t d) :: move_pos l' t D' | _, _ => l end.
Lemma gd_pos_move (g : GD) t D : gd_pos (move_gd g t D) = move_pos (gd_pos g) t D.
Proof.
  unfold gd_pos. rewrite gd_atoms_move. generalize (gd_atoms g) as l. intros l. revert D.
  induction l as [|a l IH]; intros D; destruct D as [|d D']; try reflexivity.
  cbn [move_atoms map move_pos]. rewrite IH. reflexivity.
Qed.
Lemma dot_list_nil_r (gr : list V3) : dot_list gr [] = 0.
Proof. destruct gr; reflexivity. Qed.
Lemma move_pos_nil (l : list V3) t : move_pos l t [] = l.
Proof. destruct l; reflexivity. Qed.
Lemma dot_list_scale c (l D : list V3) : dot_list (map (v3scale Rops c) l) D = c * dot_list l D.
Proof.
  revert D. induction l as [|p l IH]; intros D; destruct D as [|d D']; cbn [map dot_list]; try ring.
  rewrite IH, v3dot_scale_l. ring.
Qed.
Lemma dot_lists_1 (a : list V3) Ds : dot_lists [a] Ds = dot_list a (nth 0 Ds []).
Proof. destruct Ds as [|D0 Ds']; cbn [dot_lists nth]; [rewrite dot_list_nil_r; reflexivity|ring]. Qed.
Lemma gds_1 (gs : list GD) : length gs = 1%nat -> gs = [gnth gs 0].
Proof. intros Hl. destruct gs as [|g0 [|g1 r]]; cbn [length] in Hl; try lia. reflexivity. Qed.

Lemma move_pos_zero (l D : list V3) : move_pos l 0 D = l.
Proof.
  revert D. induction l as [|p l IH]; intros D; destruct D as [|d D']; try reflexivity.
  cbn [move_pos]. rewrite IH. f_equal. apply v3_ext. intros j. rewrite vget_add, vget_scale. ring.
Qed.

Lemma move_pos_length (l D : list V3) t : length (move_pos l t D) = length l.
Proof. revert D. induction l as [|p l IH]; intros D; destruct D as [|d D']; try reflexivity. cbn [move_pos length]. rewrite IH. reflexivity. Qed.

Lemma sumsq_dir (l D : list V3) :
  is_derive (fun t => tsum Rops (map (v3norm2 Rops) (move_pos l t D))) 0 (2 * dot_list l D).
Proof.
  revert D. induction l as [|p l IH]; intros D.
  - cbn [move_pos map dot_list]. replace (2 * 0) with 0 by ring. apply @is_derive_const.
  - destruct D as [|d D'].
    + cbn [move_pos dot_list]. replace (2 * 0) with 0 by ring. apply @is_derive_const.
    + cbn [move_pos map dot_list].
      apply (is_derive_ext (fun t => v3norm2 Rops (v3add Rops p (v3scale Rops t d)) + tsum Rops (map (v3norm2 Rops) (move_pos l t D')))); [reflexivity|].
      replace (2 * (v3dot Rops p d + dot_list l D')) with (2 * v3dot Rops p d + 2 * dot_list l D') by ring.
      apply @is_derive_plus; [|apply IH].
      destruct p as [[x y] z], d as [[dx dy] dz]. unfold v3norm2, v3dot, v3add, v3scale. cbn [nadd nmul Rops].
      auto_derive; [exact I|ring].
Qed.

Lemma dir_correct_inertia (gs : list GD) : length gs = 1%nat -> dir_correct (k_inertia Rops) gs.
Proof.
  intros Hl. split.
  - unfold k_inertia. cbn [snd]. pose proof (gds_1 gs Hl) as E. set (g0 := gnth gs 0) in *. rewrite E. cbn [shape_ok]. split; [|exact I].
    unfold gd_pos. rewrite !map_length. reflexivity.
  - intros Ds _. unfold k_inertia. cbn [fst snd]. rewrite dot_lists_1.
    apply (is_derive_ext (fun t => tsum Rops (map (v3norm2 Rops) (move_pos (gd_pos (gnth gs 0)) t (nth 0 Ds []))))).
    + intros t. rewrite gnth_move, gd_pos_move. reflexivity.
    + rewrite dot_list_scale. apply sumsq_dir.
Qed.

Lemma dir_correct_gyration (gs : list GD) : length gs = 1%nat -> fst (k_gyration Rops gs) <> 0 ->
  dir_correct (k_gyration Rops) gs.
Proof.
  intros Hl Hne. split.
  - unfold k_gyration. cbn [snd]. pose proof (gds_1 gs Hl) as E. set (g0 := gnth gs 0) in *. rewrite E. cbn [shape_ok]. split; [|exact I].
    unfold gd_pos. rewrite !map_length. reflexivity.
  - intros Ds _. unfold k_gyration in *. cbn [fst snd] in *. rewrite dot_lists_1.
    set (l := gd_pos (gnth gs 0)) in *. set (N := ofnat Rops (length l)) in *.
    cbn [nsqrt ndiv nmul Rops] in *.
    assert (Hpos : 0 < tsum Rops (map (v3norm2 Rops) l) / N).
    { destruct (Rlt_dec 0 (tsum Rops (map (v3norm2 Rops) l) / N)) as [H|H]; [exact H|].
      exfalso. apply Hne. apply sqrt_neg_0. lra. }
    apply (is_derive_ext (fun t => sqrt (tsum Rops (map (v3norm2 Rops) (move_pos l t (nth 0 Ds []))) / N))).
    + intros t. rewrite gnth_move, gd_pos_move. fold l. rewrite move_pos_length. reflexivity.
    + rewrite dot_list_scale.
      assert (HN : N <> 0).
      { intros H0. rewrite H0 in Hpos. unfold Rdiv in Hpos. rewrite Rinv_0, Rmult_0_r in Hpos. lra. }
      evar_last.
      * apply (is_derive_sqrt (fun t => tsum Rops (map (v3norm2 Rops) (move_pos l t (nth 0 Ds []))) / N) 0 (/ N * (2 * dot_list l (nth 0 Ds [])))).
        -- apply (is_derive_ext (fun t => / N * tsum Rops (map (v3norm2 Rops) (move_pos l t (nth 0 Ds []))))); [intros t; unfold Rdiv; apply Rmult_comm|].
           apply is_derive_scal. apply sumsq_dir.
        -- rewrite move_pos_zero. exact Hpos.
      * rewrite move_pos_zero. unfold one. cbn [n1 Rops].
        assert (Hs : sqrt (tsum Rops (map (v3norm2 Rops) l) / N) <> 0) by (apply Rgt_not_eq, sqrt_lt_R0; exact Hpos).
        field. split; [exact Hs|exact HN].
Qed.

(* ------------------------------------------------------------------ components as functions of the atomic coordinates *)
Definition group_mass_ok (s : SYS) (g : GRP) : Prop :=
  match g with GDummy _ => True | GAtoms ids _ _ _ => tsum Rops (map (fun i => a_mass (atom_at Rops s i)) ids) <> 0 end.
(* a centred group carries its fit gradients (enableFitGradients on, the default) *)
Definition fit_on (g : GRP) : Prop := match g with GAtoms _ (Some _) _ false => False | _ => True end.
Definition grp_ok (s : SYS) (g : GRP) : Prop := wf_group s g /\ group_mass_ok s g /\ fit_on g.

Lemma gd_wf_of (s : SYS) (g : GRP) : group_mass_ok s g -> gd_wf (gdata_of Rops s g).
Proof.
  destruct g as [p|ids c fit fg]; intros H; unfold gd_wf; cbn [gdata_of gd_dummy gd_atoms]; [reflexivity|].
  unfold gd_mass. cbn [gd_atoms]. rewrite map_map. unfold am. cbn [fst]. exact H.
Qed.
Lemma fit_ok_on (gs : list GRP) grs : List.Forall fit_on gs -> fit_ok gs grs.
Proof.
  revert grs. induction gs as [|g gs' IH]; intros grs H; destruct grs as [|gr grs']; cbn [fit_ok]; auto.
  inversion H as [|g0 l0 Hg Hr]; subst. split; [|apply IH; exact Hr].
  destruct g as [p|ids c fit fg]; cbn [fit_ok_g]; auto. destruct c; auto. destruct fg; auto. cbn [fit_on] in Hg. contradiction.
Qed.

Lemma grp_ok_2 (s : SYS) g1 g2 : grp_ok s g1 -> grp_ok s g2 ->
  List.Forall (wf_group s) [g1; g2] /\ gds_wf (map (gdata_of Rops s) [g1; g2]) 2 /\ List.Forall fit_on [g1; g2].
Proof.
  intros (W1 & M1 & F1) (W2 & M2 & F2). repeat split; auto.
  cbn [map]. repeat constructor; apply gd_wf_of; assumption.
Qed.

Lemma norm2_sub_ne (a b : V3) : a <> b -> v3norm2 Rops (v3sub Rops a b) <> 0.
Proof. intros H E. apply H. apply (proj1 (CV.C18.ValueProofs.v3_zero_iff a b)). exact E. Qed.

Lemma cvc_grad_correct_distance cell pbc co e g1 g2 (s : SYS) :
  grp_ok s g1 -> grp_ok s g2 ->
  image_ok pbc cell (gd_com Rops (gdata_of Rops s g1)) (gd_com Rops (gdata_of Rops s g2)) ->
  v3norm2 Rops (pdist Rops pbc cell (gd_com Rops (gdata_of Rops s g1)) (gd_com Rops (gdata_of Rops s g2))) <> 0 ->
  cvc_grad_correct cell (mkCvc co e (KDistance pbc) [g1; g2]) s.
Proof.
  intros H1 H2 Hpl Hne. destruct (grp_ok_2 s g1 g2 H1 H2) as (HW & HG & HF).
  apply group_layer; cbn [c_groups c_kind keval]; [exact HW| |apply fit_ok_on; exact HF].
  apply dir_correct_distance; [exact HG| |]; cbn [map]; unfold gnth; cbn [nth]; assumption.
Qed.

Lemma cvc_grad_correct_distanceZ cell pbc co e ax gm gr (s : SYS) :
  grp_ok s gm -> grp_ok s gr ->
  image_ok pbc cell (gd_com Rops (gdata_of Rops s gr)) (gd_com Rops (gdata_of Rops s gm)) ->
  cvc_grad_correct cell (mkCvc co e (KDistanceZ pbc ax) [gm; gr]) s.
Proof.
  intros H1 H2 Hpl. destruct (grp_ok_2 s gm gr H1 H2) as (HW & HG & HF).
  apply group_layer; cbn [c_groups c_kind keval]; [exact HW| |apply fit_ok_on; exact HF].
  apply dir_correct_distance_z; [exact HG|]. cbn [map]. unfold gnth. cbn [nth]. exact Hpl.
Qed.

Lemma cvc_grad_correct_distanceXY cell pbc co e ax gm gr (s : SYS) :
  grp_ok s gm -> grp_ok s gr ->
  image_ok pbc cell (gd_com Rops (gdata_of Rops s gr)) (gd_com Rops (gdata_of Rops s gm)) -> v3norm2 Rops ax = 1 ->
  v3norm2 Rops (vperp (pdist Rops pbc cell (gd_com Rops (gdata_of Rops s gr)) (gd_com Rops (gdata_of Rops s gm))) ax) <> 0 ->
  cvc_grad_correct cell (mkCvc co e (KDistanceXY pbc ax) [gm; gr]) s.
Proof.
  intros H1 H2 Hpl Hax Hne. destruct (grp_ok_2 s gm gr H1 H2) as (HW & HG & HF).
  apply group_layer; cbn [c_groups c_kind keval]; [exact HW| |apply fit_ok_on; exact HF].
  apply dir_correct_distance_xy; [exact HG| |exact Hax|]; cbn [map]; unfold gnth; cbn [nth]; assumption.
Qed.

(* gyration / inertia: the component centres its group on the origin itself (no fit gradients are stored: they vanish) *)
Lemma rnat_S n : rnat (Datatypes.S n) = rnat n + 1.
Proof. unfold rnat. rewrite Nat2Z.inj_succ, succ_IZR. reflexivity. Qed.
Lemma tsum_const {A} c (l : list A) : tsum Rops (map (fun _ => c) l) = rnat (length l) * c.
Proof. induction l as [|a l IH]; [cbn; unfold rnat; cbn; ring|]. cbn [map length]. rewrite tsum_cons, IH, rnat_S. ring. Qed.

Lemma centred_vsum (s : SYS) ids rc fg : ids <> [] ->
  vsum Rops (gd_pos (gdata_of Rops s (GAtoms ids (Some rc) None fg))) = v3scale Rops (rnat (length ids)) rc.
Proof.
  intros Hne. apply v3_ext. intros j. rewrite vget_vsum, vget_scale.
  unfold gd_pos. cbn [gdata_of gd_atoms fit_ids gshift]. rewrite !map_map. unfold ap. cbn [snd].
  rewrite (tsum_ext _ (fun i => vget j (a_pos (atom_at Rops s i)) + (vget j rc - vget j (cog_of Rops s ids))))
    by (intros i _; rewrite vget_add, vget_sub; reflexivity).
  rewrite tsum_plus, tsum_const. unfold cog_of. rewrite vget_div, vget_vsum, map_map.
  assert (HN : rnat (length ids) <> 0).
  { destruct ids as [|i l]; [contradiction|]. cbn [length]. rewrite rnat_S. unfold rnat.
    pose proof (IZR_le 0 (Z.of_nat (length l)) ltac:(lia)). lra. }
  unfold ofnat. cbn [nofZ Rops]. fold (rnat (length ids)). field. exact HN.
Qed.

Lemma vsum_scale c (l : list V3) : vsum Rops (map (v3scale Rops c) l) = v3scale Rops c (vsum Rops l).
Proof.
  apply v3_ext. intros j. rewrite vget_scale, !vget_vsum, map_map.
  rewrite (tsum_ext _ (fun p => c * vget j p)) by (intros p _; apply vget_scale). apply tsum_scale'.
Qed.
Lemma v3scale_zero_r c : v3scale Rops c (vzero Rops) = vzero Rops.
Proof. apply v3_ext. intros j. rewrite vget_scale, vget_zero. ring. Qed.

Definition self_centred (ids : list nat) : GRP := GAtoms ids (Some (vzero Rops)) None false.

Lemma cvc_grad_correct_inertia cell co e ids (s : SYS) :
  ids_ok s ids -> ids <> [] ->
  cvc_grad_correct cell (mkCvc co e KInertia [self_centred ids]) s.
Proof.
  intros Hok Hne.
  apply group_layer; cbn [c_groups c_kind keval].
  - repeat constructor; cbn [fit_ids]; auto.
  - apply dir_correct_inertia. reflexivity.
  - unfold cvc_eval. cbn [c_groups c_kind keval map k_inertia snd fit_ok fit_ok_g self_centred]. split; [|exact I].
    unfold gnth. cbn [nth]. unfold self_centred. rewrite vsum_scale, centred_vsum by exact Hne. rewrite !v3scale_zero_r. reflexivity.
Qed.

Lemma cvc_grad_correct_gyration cell co e ids (s : SYS) :
  ids_ok s ids -> ids <> [] ->
  cvc_value Rops PI cell (mkCvc co e KGyration [self_centred ids]) s <> 0 ->
  cvc_grad_correct cell (mkCvc co e KGyration [self_centred ids]) s.
Proof.
  intros Hok Hne Hv.
  apply group_layer; cbn [c_groups c_kind keval].
  - repeat constructor; cbn [fit_ids]; auto.
  - apply dir_correct_gyration; [reflexivity|exact Hv].
  - unfold cvc_eval. cbn [c_groups c_kind keval map k_gyration snd fit_ok fit_ok_g self_centred]. split; [|exact I].
    unfold gnth. cbn [nth]. unfold self_centred. rewrite vsum_scale, centred_vsum by exact Hne. rewrite !v3scale_zero_r. reflexivity.
Qed.

(* ------------------------------------------------------------------ a small calculus of vector-valued curves *)
Definition vderive (f : R -> V3) (t0 : R) (df : V3) : Prop :=
  forall k, is_derive (fun t => vget k (f t)) t0 (vget k df).

Lemma vderive_line (p e : V3) t0 : vderive (fun t => v3add Rops p (v3scale Rops t e)) t0 e.
Proof.
  intros k. apply (is_derive_ext (fun t => vget k p + t * vget k e)).
  - intros t. rewrite vget_add, vget_scale. reflexivity.
  - auto_derive; [exact I|ring].
Qed.
Lemma vderive_const (p : V3) t0 : vderive (fun _ => p) t0 (vzero Rops).
Proof. intros k. rewrite vget_zero. apply @is_derive_const. Qed.
Lemma vderive_add f g t0 df dg : vderive f t0 df -> vderive g t0 dg ->
  vderive (fun t => v3add Rops (f t) (g t)) t0 (v3add Rops df dg).
Proof.
  intros Hf Hg k. apply (is_derive_ext (fun t => vget k (f t) + vget k (g t))).
  - intros t. rewrite vget_add. reflexivity.
  - rewrite vget_add. apply @is_derive_plus; [apply Hf|apply Hg].
Qed.
Lemma vderive_sub f g t0 df dg : vderive f t0 df -> vderive g t0 dg ->
  vderive (fun t => v3sub Rops (f t) (g t)) t0 (v3sub Rops df dg).
Proof.
  intros Hf Hg k. apply (is_derive_ext (fun t => vget k (f t) - vget k (g t))).
  - intros t. rewrite vget_sub. reflexivity.
  - rewrite vget_sub. apply @is_derive_minus; [apply Hf|apply Hg].
Qed.
Lemma vderive_smul (s : R -> R) f t0 ds df : is_derive s t0 ds -> vderive f t0 df ->
  vderive (fun t => v3scale Rops (s t) (f t)) t0 (v3add Rops (v3scale Rops ds (f t0)) (v3scale Rops (s t0) df)).
Proof.
  intros Hs Hf k. apply (is_derive_ext (fun t => s t * vget k (f t))).
  - intros t. rewrite vget_scale. reflexivity.
  - rewrite vget_add, !vget_scale. apply Derive.is_derive_mult; [exact Hs|apply Hf].
Qed.
Lemma vderive_cscale c f t0 df : vderive f t0 df -> vderive (fun t => v3scale Rops c (f t)) t0 (v3scale Rops c df).
Proof.
  intros Hf k. apply (is_derive_ext (fun t => c * vget k (f t))).
  - intros t. rewrite vget_scale. reflexivity.
  - rewrite vget_scale. apply is_derive_scal. apply Hf.
Qed.
Lemma vderive_ext f g t0 df : (forall t, f t = g t) -> vderive f t0 df -> vderive g t0 df.
Proof. intros E Hf k. apply (is_derive_ext (fun t => vget k (f t))); [intros t; rewrite E; reflexivity|apply Hf]. Qed.

Lemma derive_dot f g t0 df dg : vderive f t0 df -> vderive g t0 dg ->
  is_derive (fun t => v3dot Rops (f t) (g t)) t0 (v3dot Rops df (g t0) + v3dot Rops (f t0) dg).
Proof.
  intros Hf Hg.
  apply (is_derive_ext (fun t => vget AX (f t) * vget AX (g t) + vget AY (f t) * vget AY (g t) + vget AZ (f t) * vget AZ (g t))).
  - intros t. rewrite v3dot_get. reflexivity.
  - replace (v3dot Rops df (g t0) + v3dot Rops (f t0) dg)
      with ((vget AX df * vget AX (g t0) + vget AX (f t0) * vget AX dg) + (vget AY df * vget AY (g t0) + vget AY (f t0) * vget AY dg)
            + (vget AZ df * vget AZ (g t0) + vget AZ (f t0) * vget AZ dg)) by (rewrite !v3dot_get; ring).
    apply @is_derive_plus; [apply @is_derive_plus|].
    + apply Derive.is_derive_mult; [apply Hf|apply Hg].
    + apply Derive.is_derive_mult; [apply Hf|apply Hg].
    + apply Derive.is_derive_mult; [apply Hf|apply Hg].
Qed.

Lemma derive_norm f t0 df : vderive f t0 df -> v3norm2 Rops (f t0) <> 0 ->
  is_derive (fun t => vnorm Rops (f t)) t0 (v3dot Rops (f t0) df / vnorm Rops (f t0)).
Proof.
  intros Hf Hne. pose proof (norm2_pos _ Hne) as Hpos.
  unfold vnorm, v3norm2 in *. cbn [nsqrt Rops].
  evar_last.
  - apply (is_derive_sqrt (fun t => v3dot Rops (f t) (f t)) t0); [apply (derive_dot f f t0 df df Hf Hf)|exact Hpos].
  - assert (Hs : sqrt (v3dot Rops (f t0) (f t0)) <> 0) by (apply Rgt_not_eq, sqrt_lt_R0; exact Hpos).
    rewrite (v3dot_get df (f t0)), (v3dot_get (f t0) df). field. exact Hs.
Qed.

Lemma vunit_eq (v : V3) : v3norm2 Rops v <> 0 -> vunit Rops v = vdiv Rops v (vnorm Rops v).
Proof.
  intros Hne. pose proof (norm2_pos _ Hne) as Hpos. unfold vunit, vnorm. cbn [nltb nsqrt Rops]. unfold zero. cbn [n0 Rops].
  replace (Rltb 0 (sqrt (v3norm2 Rops v))) with true by (symmetry; apply Rltb_true, sqrt_lt_R0; exact Hpos). reflexivity.
Qed.

Lemma norm2_loc f t0 df : vderive f t0 df -> v3norm2 Rops (f t0) <> 0 -> locally t0 (fun t => v3norm2 Rops (f t) <> 0).
Proof.
  intros Hf Hne. unfold v3norm2 in *.
  apply (locally_nonzero (fun t => v3dot Rops (f t) (f t)) t0 _ (derive_dot f f t0 df df Hf Hf) Hne).
Qed.

(* the unit vector along a curve: a' = (f' - (a.f') a)/|f| *)
Lemma vderive_unit f t0 df : vderive f t0 df -> v3norm2 Rops (f t0) <> 0 ->
  vderive (fun t => vunit Rops (f t)) t0
          (vdiv Rops (v3sub Rops df (v3scale Rops (v3dot Rops (vunit Rops (f t0)) df) (vunit Rops (f t0)))) (vnorm Rops (f t0))).
Proof.
  intros Hf Hne k. pose proof (norm2_pos _ Hne) as Hpos.
  assert (Hs : vnorm Rops (f t0) <> 0) by (unfold vnorm; cbn [nsqrt Rops]; apply Rgt_not_eq, sqrt_lt_R0; exact Hpos).
  apply (is_derive_ext_loc (fun t => vget k (f t) / vnorm Rops (f t))).
  - generalize (norm2_loc f t0 df Hf Hne). apply filter_imp. intros t Ht. rewrite vunit_eq by exact Ht. rewrite vget_div. reflexivity.
  - evar_last.
    + apply (is_derive_div (fun t => vget k (f t)) (fun t => vnorm Rops (f t))); [apply Hf|apply (derive_norm f t0 df Hf Hne)|exact Hs].
    + rewrite vunit_eq by exact Hne. rewrite vget_div, vget_sub, vget_scale, vget_div.
      rewrite (v3dot_get (vdiv Rops (f t0) (vnorm Rops (f t0))) df), !vget_div, (v3dot_get (f t0) df).
      field. exact Hs.
Qed.

(* ------------------------------------------------------------------ more kernels *)


Lemma shape_3 (g0 g1 g2 : GD) (gs : list GD) (a b c : list V3) : gs = [g0; g1; g2] ->
  length a = length (gd_atoms g0) -> length b = length (gd_atoms g1) -> length c = length (gd_atoms g2) -> shape_ok [a; b; c] gs.
Proof. intros -> H1 H2 H3. cbn [shape_ok]. auto. Qed.

(* ---- inertiaZ ---- *)
Lemma sumsqz_dir (ax : V3) (l D : list V3) :
  is_derive (fun t => tsum Rops (map (fun p => v3dot Rops p ax * v3dot Rops p ax) (move_pos l t D))) 0
            (dot_list (map (fun p => v3scale Rops (2 * v3dot Rops p ax) ax) l) D).
Proof.
  revert D. induction l as [|p l IH]; intros D.
  - cbn [move_pos map dot_list]. apply @is_derive_const.
  - destruct D as [|d D'].
    + cbn [move_pos map dot_list]. apply @is_derive_const.
    + cbn [move_pos map dot_list].
      apply (is_derive_ext (fun t => v3dot Rops (v3add Rops p (v3scale Rops t d)) ax * v3dot Rops (v3add Rops p (v3scale Rops t d)) ax
                                     + tsum Rops (map (fun p0 => v3dot Rops p0 ax * v3dot Rops p0 ax) (move_pos l t D')))); [reflexivity|].
      apply @is_derive_plus; [|apply IH].
      destruct p as [[x y] z], d as [[dx dy] dz], ax as [[a b] c]. unfold v3dot, v3add, v3scale. cbn [nadd nmul Rops].
      auto_derive; [exact I|ring].
Qed.

Lemma dir_correct_inertia_z ax (gs : list GD) : length gs = 1%nat -> dir_correct (k_inertia_z Rops ax) gs.
Proof.
  intros Hl. split.
  - unfold k_inertia_z. cbn [snd]. pose proof (gds_1 gs Hl) as E. set (g0 := gnth gs 0) in *. rewrite E. cbn [shape_ok]. split; [|exact I].
    unfold gd_pos. rewrite !map_length. reflexivity.
  - intros Ds _. unfold k_inertia_z. cbn [fst snd]. rewrite dot_lists_1.
    apply (is_derive_ext (fun t => tsum Rops (map (fun p => v3dot Rops p ax * v3dot Rops p ax) (move_pos (gd_pos (gnth gs 0)) t (nth 0 Ds []))))).
    + intros t. rewrite gnth_move, gd_pos_move. reflexivity.
    + unfold tw, ofnat. cbn [nofZ nmul Rops Z.of_nat Pos.of_succ_nat Pos.succ]. apply sumsqz_dir.
Qed.

(* ---- distanceZ with a two-point axis (ref, ref2) ---- *)
Lemma z2_algebra (cm c1 c2 Em E1 E2 : V3) : v3norm2 Rops (v3sub Rops c2 c1) <> 0 ->
  let u := v3sub Rops c2 c1 in
  let w := v3sub Rops cm (v3scale Rops (1 / 2) (v3add Rops c1 c2)) in
  let L := vnorm Rops u in
  let a := vunit Rops u in
  let x := v3dot Rops a w in
  v3dot Rops (vdiv Rops (v3sub Rops (v3sub Rops E2 E1) (v3scale Rops (v3dot Rops a (v3sub Rops E2 E1)) a)) L) w
  + v3dot Rops a (v3sub Rops Em (v3scale Rops (1 / 2) (v3add Rops E1 E2)))
  = v3dot Rops a Em
    + v3dot Rops (v3scale Rops (1 / L) (v3add Rops (v3sub Rops c1 cm) (v3scale Rops x a))) E1
    + v3dot Rops (v3scale Rops (1 / L) (v3sub Rops (v3sub Rops cm c2) (v3scale Rops x a))) E2.
Proof.
  intros Hne u w L a x. unfold x, a. rewrite (vunit_eq u Hne). fold L.
  assert (HL : L <> 0).
  { unfold L, vnorm. cbn [nsqrt Rops]. apply Rgt_not_eq, sqrt_lt_R0, norm2_pos. exact Hne. }
  clearbody L. unfold w, u. revert HL. clear x a w u Hne.
  destruct cm as [[mx my] mz], c1 as [[x1 y1] z1], c2 as [[x2 y2] z2], Em as [[emx emy] emz], E1 as [[e1x e1y] e1z], E2 as [[e2x e2y] e2z].
  unfold v3dot, v3sub, v3add, v3scale, vdiv. cbn [nadd nsub nmul ndiv Rops]. intros HL. field. exact HL.
Qed.

Lemma zmid_plain (pbc : bool) (c1 c2 : V3) :
  (if pbc then v3add Rops c1 (v3scale Rops (hf Rops) (v3sub Rops c2 c1)) else v3scale Rops (hf Rops) (v3add Rops c1 c2))
  = v3scale Rops (hf Rops) (v3add Rops c1 c2).
Proof.
  destruct pbc; [|reflexivity]. apply v3_ext. intros j. rewrite ?vget_add, ?vget_scale, ?vget_sub, ?vget_add.
  change (hf Rops) with (1 / 2). field.
Qed.

Lemma dir_correct_distance_z2 pbc cell (gs : list GD) : gds_wf gs 3 -> plain pbc cell ->
  v3norm2 Rops (v3sub Rops (gd_com Rops (gnth gs 2)) (gd_com Rops (gnth gs 1))) <> 0 ->
  dir_correct (k_distance_z2 Rops pbc cell) gs.
Proof.
  intros Hwf Hpl Hne.
  pose proof (gds_wf_nth gs 3 0 Hwf ltac:(lia)) as W0. pose proof (gds_wf_nth gs 3 1 Hwf ltac:(lia)) as W1.
  pose proof (gds_wf_nth gs 3 2 Hwf ltac:(lia)) as W2.
  split.
  - unfold k_distance_z2. cbv zeta. cbn [snd]. apply (shape_3 (gnth gs 0) (gnth gs 1) (gnth gs 2)); [apply gds_3; exact Hwf| | |]; apply wgrad_length.
  - intros Ds _. unfold k_distance_z2. cbv zeta. cbn [fst snd]. rewrite dot_lists_3, !wgrad_dot by assumption. rewrite !pdist_plain by exact Hpl.
    rewrite !(zmid_plain pbc).
    set (cm := gd_com Rops (gnth gs 0)) in *. set (c1 := gd_com Rops (gnth gs 1)) in *. set (c2 := gd_com Rops (gnth gs 2)) in *.
    set (Em := comdir (gnth gs 0) (nth 0 Ds [])). set (E1 := comdir (gnth gs 1) (nth 1 Ds [])). set (E2 := comdir (gnth gs 2) (nth 2 Ds [])).
    apply (is_derive_ext (fun t => v3dot Rops (vunit Rops (v3sub Rops (v3add Rops c2 (v3scale Rops t E2)) (v3add Rops c1 (v3scale Rops t E1))))
                                     (v3sub Rops (v3add Rops cm (v3scale Rops t Em))
                                            (v3scale Rops (hf Rops) (v3add Rops (v3add Rops c1 (v3scale Rops t E1)) (v3add Rops c2 (v3scale Rops t E2))))))).
    + intros t. rewrite !(com_curve gs 3 Ds _ t Hwf) by lia. rewrite !pdist_plain by exact Hpl. rewrite !(zmid_plain pbc). reflexivity.
    + evar_last.
      * apply (derive_dot (fun t => vunit Rops (v3sub Rops (v3add Rops c2 (v3scale Rops t E2)) (v3add Rops c1 (v3scale Rops t E1))))
                          (fun t => v3sub Rops (v3add Rops cm (v3scale Rops t Em))
                                          (v3scale Rops (hf Rops) (v3add Rops (v3add Rops c1 (v3scale Rops t E1)) (v3add Rops c2 (v3scale Rops t E2)))))).
        -- apply (vderive_unit (fun t => v3sub Rops (v3add Rops c2 (v3scale Rops t E2)) (v3add Rops c1 (v3scale Rops t E1))) 0 (v3sub Rops E2 E1)).
           ++ apply vderive_sub; apply vderive_line.
           ++ cbv beta. rewrite !line_zero. exact Hne.
        -- apply (vderive_sub _ _ 0 Em (v3scale Rops (hf Rops) (v3add Rops E1 E2))); [apply vderive_line|].
           apply vderive_cscale. apply vderive_add; apply vderive_line.
      * cbv beta. rewrite !line_zero. change (hf Rops) with (1 / 2). apply (z2_algebra cm c1 c2 Em E1 E2 Hne).
Qed.

(* ---- angle ---- *)
Lemma acos_derive x : -1 < x < 1 -> is_derive acos x (-1 / sqrt (1 - x * x)).
Proof.
  intros Hx. apply is_derive_Reals. fold (Rsqr x).
  apply (derive_pt_eq_1 acos x _ (derivable_pt_acos x Hx)). apply derive_pt_acos.
Qed.

Definition cosang (r1 r3 : V3) : R := v3dot Rops r1 r3 / (vnorm Rops r1 * vnorm Rops r3).

Lemma cosang_derive f g t0 df dg : vderive f t0 df -> vderive g t0 dg ->
  v3norm2 Rops (f t0) <> 0 -> v3norm2 Rops (g t0) <> 0 ->
  is_derive (fun t => cosang (f t) (g t)) t0
    (((v3dot Rops df (g t0) + v3dot Rops (f t0) dg) * (vnorm Rops (f t0) * vnorm Rops (g t0))
      - v3dot Rops (f t0) (g t0) * (v3dot Rops (f t0) df / vnorm Rops (f t0) * vnorm Rops (g t0)
                                    + vnorm Rops (f t0) * (v3dot Rops (g t0) dg / vnorm Rops (g t0))))
     / (vnorm Rops (f t0) * vnorm Rops (g t0)) ^ 2).
Proof.
  intros Hf Hg Hnf Hng. unfold cosang.
  assert (Hlf : vnorm Rops (f t0) <> 0) by (unfold vnorm; cbn [nsqrt Rops]; apply Rgt_not_eq, sqrt_lt_R0, norm2_pos; exact Hnf).
  assert (Hlg : vnorm Rops (g t0) <> 0) by (unfold vnorm; cbn [nsqrt Rops]; apply Rgt_not_eq, sqrt_lt_R0, norm2_pos; exact Hng).
  apply (is_derive_div (fun t => v3dot Rops (f t) (g t)) (fun t => vnorm Rops (f t) * vnorm Rops (g t))).
  - apply derive_dot; assumption.
  - apply Derive.is_derive_mult; apply derive_norm; assumption.
  - apply Rmult_integral_contrapositive. split; assumption.
Qed.

Lemma angle_algebra (r1 r3 e1 e3 : V3) (l1 l3 s K : R) : l1 <> 0 -> l3 <> 0 -> s <> 0 ->
  let c := v3dot Rops r1 r3 / (l1 * l3) in
  K * (-1 / s * (((v3dot Rops e1 r3 + v3dot Rops r1 e3) * (l1 * l3) - v3dot Rops r1 r3 * (v3dot Rops r1 e1 / l1 * l3 + l1 * (v3dot Rops r3 e3 / l3))) / (l1 * l3) ^ 2))
  = v3dot Rops (v3scale Rops (K * (-1 / s) * (1 / l1)) (v3add Rops (vdiv Rops r3 l3) (vdiv Rops (v3scale Rops (-1 * c) r1) l1))) e1
    + v3dot Rops (v3scale Rops (K * (-1 / s) * (1 / l3)) (v3add Rops (vdiv Rops r1 l1) (vdiv Rops (v3scale Rops (-1 * c) r3) l3))) e3.
Proof.
  intros H1 H3 Hs c. unfold c. clear c.
  destruct r1 as [[x1 y1] z1], r3 as [[x3 y3] z3], e1 as [[a1 b1] c1], e3 as [[a3 b3] c3].
  unfold v3dot, v3add, v3scale, vdiv. cbn [nadd nsub nmul ndiv Rops]. field. repeat split; assumption.
Qed.

Lemma dir_correct_angle pbc cell (gs : list GD) : gds_wf gs 3 -> plain pbc cell ->
  let r21 := v3sub Rops (gd_com Rops (gnth gs 0)) (gd_com Rops (gnth gs 1)) in
  let r23 := v3sub Rops (gd_com Rops (gnth gs 2)) (gd_com Rops (gnth gs 1)) in
  v3norm2 Rops r21 <> 0 -> v3norm2 Rops r23 <> 0 -> -1 < cosang r21 r23 < 1 ->
  dir_correct (k_angle Rops PI pbc cell) gs.
Proof.
  intros Hwf Hpl r21 r23 Hn1 Hn3 Hc.
  pose proof (gds_wf_nth gs 3 0 Hwf ltac:(lia)) as W0. pose proof (gds_wf_nth gs 3 1 Hwf ltac:(lia)) as W1.
  pose proof (gds_wf_nth gs 3 2 Hwf ltac:(lia)) as W2.
  split.
  - unfold k_angle. cbv zeta. cbn [snd]. apply (shape_3 (gnth gs 0) (gnth gs 1) (gnth gs 2)); [apply gds_3; exact Hwf| | |]; apply wgrad_length.
  - intros Ds _. unfold k_angle. cbv zeta. cbn [fst snd]. rewrite dot_lists_3, !wgrad_dot by assumption. rewrite !pdist_plain by exact Hpl.
    fold r21 r23.
    set (c1 := gd_com Rops (gnth gs 0)) in *. set (c2 := gd_com Rops (gnth gs 1)) in *. set (c3 := gd_com Rops (gnth gs 2)) in *.
    set (E1 := comdir (gnth gs 0) (nth 0 Ds [])). set (E2 := comdir (gnth gs 1) (nth 1 Ds [])). set (E3 := comdir (gnth gs 2) (nth 2 Ds [])).
    set (R1 := fun t => v3sub Rops (v3add Rops c1 (v3scale Rops t E1)) (v3add Rops c2 (v3scale Rops t E2))).
    set (R3 := fun t => v3sub Rops (v3add Rops c3 (v3scale Rops t E3)) (v3add Rops c2 (v3scale Rops t E2))).
    assert (HR1 : vderive R1 0 (v3sub Rops E1 E2)) by (apply vderive_sub; apply vderive_line).
    assert (HR3 : vderive R3 0 (v3sub Rops E3 E2)) by (apply vderive_sub; apply vderive_line).
    assert (E10 : R1 0 = r21) by (unfold R1, r21; rewrite !line_zero; reflexivity).
    assert (E30 : R3 0 = r23) by (unfold R3, r23; rewrite !line_zero; reflexivity).
    apply (is_derive_ext (fun t => rad2deg Rops PI * acos (cosang (R1 t) (R3 t)))).
    + intros t. rewrite !(com_curve gs 3 Ds _ t Hwf) by lia. rewrite !pdist_plain by exact Hpl. reflexivity.
    + assert (Hs : sqrt (1 - cosang r21 r23 * cosang r21 r23) <> 0).
      { apply Rgt_not_eq, sqrt_lt_R0. destruct Hc as [Hc1 Hc2]. nra. }
      assert (Hl1 : vnorm Rops r21 <> 0) by (unfold vnorm; cbn [nsqrt Rops]; apply Rgt_not_eq, sqrt_lt_R0, norm2_pos; exact Hn1).
      assert (Hl3 : vnorm Rops r23 <> 0) by (unfold vnorm; cbn [nsqrt Rops]; apply Rgt_not_eq, sqrt_lt_R0, norm2_pos; exact Hn3).
      evar_last.
      * apply is_derive_scal. apply (is_derive_comp acos (fun t => cosang (R1 t) (R3 t))).
        -- rewrite E10, E30. apply acos_derive. exact Hc.
        -- apply (cosang_derive R1 R3 0 _ _ HR1 HR3); [rewrite E10; exact Hn1|rewrite E30; exact Hn3].
      * rewrite E10, E30.
        lazymatch goal with |- context [scal ?a ?b] => change (scal a b) with (Rmult a b) end.
        pose proof (angle_algebra r21 r23 (v3sub Rops E1 E2) (v3sub Rops E3 E2) (vnorm Rops r21) (vnorm Rops r23)
                                  (sqrt (1 - cosang r21 r23 * cosang r21 r23)) (rad2deg Rops PI) Hl1 Hl3 Hs) as A.
        cbv zeta in A. fold (cosang r21 r23) in A.
        unfold mone, one. cbn [nneg n1 nmul ndiv nsub nsqrt Rops]. fold (cosang r21 r23).
        replace (- (1)) with (-1) by ring.
        set (G1 := v3scale Rops (rad2deg Rops PI * (-1 / sqrt (1 - cosang r21 r23 * cosang r21 r23)) * (1 / vnorm Rops r21))
                            (v3add Rops (vdiv Rops r23 (vnorm Rops r23)) (vdiv Rops (v3scale Rops (-1 * cosang r21 r23) r21) (vnorm Rops r21)))) in *.
        set (G3 := v3scale Rops (rad2deg Rops PI * (-1 / sqrt (1 - cosang r21 r23 * cosang r21 r23)) * (1 / vnorm Rops r23))
                            (v3add Rops (vdiv Rops r21 (vnorm Rops r21)) (vdiv Rops (v3scale Rops (-1 * cosang r21 r23) r23) (vnorm Rops r23)))) in *.
        transitivity (v3dot Rops G1 (v3sub Rops E1 E2) + v3dot Rops G3 (v3sub Rops E3 E2)).
        -- rewrite <- A. rewrite !v3dot_sub_r. ring.
        -- rewrite !v3dot_sub_r, v3dot_scale_l. rewrite (v3dot_get (v3add Rops G1 G3) E2), !vget_add, (v3dot_get G1 E2), (v3dot_get G3 E2). ring.
Qed.

(* ---- distanceXY with a two-point axis ---- *)
Lemma vunit_norm2 (u : V3) : v3norm2 Rops u <> 0 -> v3norm2 Rops (vunit Rops u) = 1.
Proof.
  intros Hne. rewrite (vunit_eq u Hne). pose proof (norm2_pos u Hne) as Hpos.
  assert (HL : vnorm Rops u * vnorm Rops u = v3norm2 Rops u) by (unfold vnorm; cbn [nsqrt Rops]; apply sqrt_sqrt; lra).
  assert (HL0 : vnorm Rops u <> 0) by (unfold vnorm; cbn [nsqrt Rops]; apply Rgt_not_eq, sqrt_lt_R0; exact Hpos).
  set (L := vnorm Rops u) in *. clearbody L.
  destruct u as [[x y] z]. unfold v3norm2, v3dot, vdiv in *. cbn [nadd nmul ndiv Rops] in *.
  replace (x / L * (x / L) + y / L * (y / L) + z / L * (z / L)) with ((x * x + y * y + z * z) / (L * L)) by (field; exact HL0).
  rewrite HL. field. lra.
Qed.

Lemma xy2_algebra (D a Em E1 E2 : V3) (L x : R) : L <> 0 -> x <> 0 -> v3dot Rops (vperp D a) a = 0 ->
  let D' := v3sub Rops Em E1 in
  let up := v3sub Rops E2 E1 in
  let a' := vdiv Rops (v3sub Rops up (v3scale Rops (v3dot Rops a up) a)) L in
  v3dot Rops (vperp D a) (v3sub Rops D' (v3add Rops (v3scale Rops (v3dot Rops D' a + v3dot Rops D a') a) (v3scale Rops (v3dot Rops D a) a'))) / x
  = v3dot Rops (v3scale Rops (1 * (1 / x)) (vperp D a)) Em
    + v3dot Rops (v3scale Rops ((v3dot Rops D a / L - 1) * (1 / x)) (vperp D a)) E1
    + v3dot Rops (v3scale Rops (- (v3dot Rops D a / L) * (1 / x)) (vperp D a)) E2.
Proof.
  intros HL Hx Ho D' up a'.
  transitivity (v3dot Rops (v3scale Rops (1 * (1 / x)) (vperp D a)) Em
                + v3dot Rops (v3scale Rops ((v3dot Rops D a / L - 1) * (1 / x)) (vperp D a)) E1
                + v3dot Rops (v3scale Rops (- (v3dot Rops D a / L) * (1 / x)) (vperp D a)) E2
                + v3dot Rops (vperp D a) a * (- (v3dot Rops D' a + v3dot Rops D up / L - 2 * (v3dot Rops a up * v3dot Rops D a) / L) / x)).
  - unfold a', up, D', vperp.
    destruct D as [[dx dy] dz], a as [[ax ay] az], Em as [[emx emy] emz], E1 as [[e1x e1y] e1z], E2 as [[e2x e2y] e2z].
    unfold v3dot, v3sub, v3add, v3scale, vdiv. cbn [nadd nsub nmul ndiv Rops]. field. split; assumption.
  - rewrite Ho. ring.
Qed.

Lemma dir_correct_distance_xy2 pbc cell (gs : list GD) : gds_wf gs 3 -> plain pbc cell ->
  let d := v3sub Rops (gd_com Rops (gnth gs 0)) (gd_com Rops (gnth gs 1)) in
  let u := v3sub Rops (gd_com Rops (gnth gs 2)) (gd_com Rops (gnth gs 1)) in
  v3norm2 Rops u <> 0 -> v3norm2 Rops (vperp d (vunit Rops u)) <> 0 ->
  dir_correct (k_distance_xy2 Rops pbc cell) gs.
Proof.
  intros Hwf Hpl d u Hnu Hnv.
  pose proof (gds_wf_nth gs 3 0 Hwf ltac:(lia)) as W0. pose proof (gds_wf_nth gs 3 1 Hwf ltac:(lia)) as W1.
  pose proof (gds_wf_nth gs 3 2 Hwf ltac:(lia)) as W2.
  set (cm := gd_com Rops (gnth gs 0)) in *. set (c1 := gd_com Rops (gnth gs 1)) in *. set (c2 := gd_com Rops (gnth gs 2)) in *.
  set (a := vunit Rops u) in *. set (v := vperp d a) in *.
  assert (Hx : vnorm Rops v <> 0) by (unfold vnorm; cbn [nsqrt Rops]; apply Rgt_not_eq, sqrt_lt_R0, norm2_pos; exact Hnv).
  assert (HL : vnorm Rops u <> 0) by (unfold vnorm; cbn [nsqrt Rops]; apply Rgt_not_eq, sqrt_lt_R0, norm2_pos; exact Hnu).
  assert (Ev : forall gs', fst (k_distance_xy2 Rops pbc cell gs') =
           vnorm Rops (vperp (pdist Rops pbc cell (gd_com Rops (gnth gs' 1)) (gd_com Rops (gnth gs' 0)))
                             (vunit Rops (pdist Rops pbc cell (gd_com Rops (gnth gs' 1)) (gd_com Rops (gnth gs' 2)))))).
  { intros gs'. unfold k_distance_xy2. cbv zeta. unfold vperp. destruct (neqb Rops _ (zero Rops)); reflexivity. }
  assert (Eg : snd (k_distance_xy2 Rops pbc cell gs) =
           [wgrad Rops (gnth gs 0) (v3scale Rops (1 * (1 / vnorm Rops v)) v);
            wgrad Rops (gnth gs 1) (v3scale Rops ((v3dot Rops d a / vnorm Rops u - 1) * (1 / vnorm Rops v)) v);
            wgrad Rops (gnth gs 2) (v3scale Rops (- (v3dot Rops d a / vnorm Rops u) * (1 / vnorm Rops v)) v)]).
  { unfold k_distance_xy2. cbv zeta. rewrite !pdist_plain by exact Hpl. fold cm c1 c2. fold d u. fold a. fold (vperp d a). fold v.
    unfold vnorm at 1. cbn [neqb nsqrt Rops]. unfold zero. cbn [n0 Rops].
    rewrite Reqb_false by (unfold vnorm in Hx; cbn [nsqrt Rops] in Hx; exact Hx). reflexivity. }
  split.
  - rewrite Eg. apply (shape_3 (gnth gs 0) (gnth gs 1) (gnth gs 2)); [apply gds_3; exact Hwf| | |]; apply wgrad_length.
  - intros Ds _. rewrite Eg, dot_lists_3, !wgrad_dot by assumption.
    set (Em := comdir (gnth gs 0) (nth 0 Ds [])). set (E1 := comdir (gnth gs 1) (nth 1 Ds [])). set (E2 := comdir (gnth gs 2) (nth 2 Ds [])).
    set (Dt := fun t => v3sub Rops (v3add Rops cm (v3scale Rops t Em)) (v3add Rops c1 (v3scale Rops t E1))).
    set (Ut := fun t => v3sub Rops (v3add Rops c2 (v3scale Rops t E2)) (v3add Rops c1 (v3scale Rops t E1))).
    assert (HD : vderive Dt 0 (v3sub Rops Em E1)) by (apply vderive_sub; apply vderive_line).
    assert (HU : vderive Ut 0 (v3sub Rops E2 E1)) by (apply vderive_sub; apply vderive_line).
    assert (ED0 : Dt 0 = d) by (unfold Dt, d; rewrite !line_zero; reflexivity).
    assert (EU0 : Ut 0 = u) by (unfold Ut, u; rewrite !line_zero; reflexivity).
    assert (Ha : vderive (fun t => vunit Rops (Ut t)) 0
                         (vdiv Rops (v3sub Rops (v3sub Rops E2 E1) (v3scale Rops (v3dot Rops a (v3sub Rops E2 E1)) a)) (vnorm Rops u))).
    { pose proof (vderive_unit Ut 0 (v3sub Rops E2 E1) HU) as P. rewrite EU0 in P. apply P. exact Hnu. }
    apply (is_derive_ext (fun t => vnorm Rops (v3sub Rops (Dt t) (v3scale Rops (v3dot Rops (Dt t) (vunit Rops (Ut t))) (vunit Rops (Ut t)))))).
    + intros t. rewrite Ev. rewrite !(com_curve gs 3 Ds _ t Hwf) by lia. rewrite !pdist_plain by exact Hpl. reflexivity.
    + evar_last.
      * apply (derive_norm (fun t => v3sub Rops (Dt t) (v3scale Rops (v3dot Rops (Dt t) (vunit Rops (Ut t))) (vunit Rops (Ut t)))) 0).
        -- apply (vderive_sub Dt (fun t => v3scale Rops (v3dot Rops (Dt t) (vunit Rops (Ut t))) (vunit Rops (Ut t))) 0 (v3sub Rops Em E1)
                   (v3add Rops (v3scale Rops (v3dot Rops (v3sub Rops Em E1) (vunit Rops (Ut 0))
                                              + v3dot Rops (Dt 0) (vdiv Rops (v3sub Rops (v3sub Rops E2 E1) (v3scale Rops (v3dot Rops a (v3sub Rops E2 E1)) a)) (vnorm Rops u)))
                                             (vunit Rops (Ut 0)))
                               (v3scale Rops (v3dot Rops (Dt 0) (vunit Rops (Ut 0)))
                                        (vdiv Rops (v3sub Rops (v3sub Rops E2 E1) (v3scale Rops (v3dot Rops a (v3sub Rops E2 E1)) a)) (vnorm Rops u)))) HD).
           apply (vderive_smul (fun t => v3dot Rops (Dt t) (vunit Rops (Ut t))) (fun t => vunit Rops (Ut t)) 0); [|exact Ha].
           apply (derive_dot Dt (fun t => vunit Rops (Ut t)) 0 _ _ HD Ha).
        -- cbv beta. rewrite ED0, EU0. fold a. exact Hnv.
      * cbv beta. rewrite ED0, EU0. fold a. fold (vperp d a). fold v.
        apply (xy2_algebra d a Em E1 E2 (vnorm Rops u) (vnorm Rops v) HL Hx).
        apply vperp_orth. apply vunit_norm2. exact Hnu.
Qed.

(* ------------------------------------------------------------------ pair sums (coordNum) *)
Lemma move_pos_combine (l D : list V3) t : length D = length l ->
  move_pos l t D = map (fun pd => v3add Rops (fst pd) (v3scale Rops t (snd pd))) (combine l D).
Proof.
  revert D. induction l as [|p l IH]; intros D Hl; destruct D as [|d D']; cbn [length] in Hl; try lia; [reflexivity|].
  cbn [move_pos combine map fst snd]. rewrite IH by lia. reflexivity.
Qed.
Lemma combine_fst (l D : list V3) : length D = length l -> map fst (combine l D) = l.
Proof.
  revert D. induction l as [|p l IH]; intros D Hl; destruct D as [|d D']; cbn [length] in Hl; try lia; [reflexivity|].
  cbn [combine map fst]. rewrite IH by lia. reflexivity.
Qed.
Lemma dot_list_map (F : V3 -> V3) (l D : list V3) : length D = length l ->
  dot_list (map F l) D = tsum Rops (map (fun pd => v3dot Rops (F (fst pd)) (snd pd)) (combine l D)).
Proof.
  revert D. induction l as [|p l IH]; intros D Hl; destruct D as [|d D']; cbn [length] in Hl; try lia; [reflexivity|].
  cbn [map dot_list combine fst snd]. rewrite tsum_cons, IH by lia. reflexivity.
Qed.
Lemma v3dot_vsum {A} (G : A -> V3) (l : list A) (d : V3) : v3dot Rops (vsum Rops (map G l)) d = tsum Rops (map (fun x => v3dot Rops (G x) d) l).
Proof.
  induction l as [|a l IH]; cbn [map].
  - rewrite tsum_nil. unfold vsum. cbn [fold_right]. rewrite v3dot_get, !vget_zero. ring.
  - rewrite vsum_cons, tsum_cons, <- IH. rewrite !v3dot_get, !vget_add. ring.
Qed.
Lemma tsum_map_fst {A B} (h : A -> R) (l : list (A * B)) : tsum Rops (map (fun ab => h (fst ab)) l) = tsum Rops (map h (map fst l)).
Proof. rewrite map_map. reflexivity. Qed.

(* f(p, q) depends on the two positions with gradient g(p, q) in q and -g(p, q) in p *)
Definition pair_correct (f : V3 -> V3 -> R) (g : V3 -> V3 -> V3) (p q : V3) : Prop :=
  forall dp dq, is_derive (fun t => f (v3add Rops p (v3scale Rops t dp)) (v3add Rops q (v3scale Rops t dq))) 0
                          (v3dot Rops (g p q) (v3sub Rops dq dp)).

Lemma pair_dir (f : V3 -> V3 -> R) (g : V3 -> V3 -> V3) (l1 l2 D1 D2 : list V3) :
  (forall p q, In p l1 -> In q l2 -> pair_correct f g p q) ->
  length D1 = length l1 -> length D2 = length l2 ->
  is_derive (fun t => pair_sum Rops f (move_pos l1 t D1) (move_pos l2 t D2)) 0
            (dot_list (pair_grad1 Rops (fun p q => vneg Rops (g p q)) l1 l2) D1 + dot_list (pair_grad2 Rops g l1 l2) D2).
Proof.
  intros Hpc H1 H2.
  set (c1 := combine l1 D1). set (c2 := combine l2 D2).
  apply (is_derive_ext (fun t => tsum Rops (map (fun a => tsum Rops (map (fun b =>
            f (v3add Rops (fst a) (v3scale Rops t (snd a))) (v3add Rops (fst b) (v3scale Rops t (snd b)))) c2)) c1))).
  - intros t. unfold pair_sum. rewrite (move_pos_combine l1 D1 t H1), (move_pos_combine l2 D2 t H2). fold c1 c2.
    rewrite map_map. apply tsum_ext. intros a _. rewrite map_map. reflexivity.
  - replace (dot_list (pair_grad1 Rops (fun p q => vneg Rops (g p q)) l1 l2) D1 + dot_list (pair_grad2 Rops g l1 l2) D2)
      with (tsum Rops (map (fun a => tsum Rops (map (fun b => v3dot Rops (g (fst a) (fst b)) (v3sub Rops (snd b) (snd a))) c2)) c1)).
    + apply (is_derive_tsum (fun a t => tsum Rops (map (fun b => f (v3add Rops (fst a) (v3scale Rops t (snd a))) (v3add Rops (fst b) (v3scale Rops t (snd b)))) c2))).
      intros a Ha.
      apply (is_derive_tsum (fun b t => f (v3add Rops (fst a) (v3scale Rops t (snd a))) (v3add Rops (fst b) (v3scale Rops t (snd b))))).
      intros b Hb. apply Hpc.
      * destruct a as [p d]. apply (in_combine_l l1 D1 p d). exact Ha.
      * destruct b as [q e]. apply (in_combine_l l2 D2 q e). exact Hb.
    + unfold pair_grad1, pair_grad2.
      rewrite (dot_list_map (fun p1 => vsum Rops (map (fun p2 => vneg Rops (g p1 p2)) l2)) l1 D1 H1).
      rewrite (dot_list_map (fun p2 => vsum Rops (map (fun p1 => g p1 p2) l1)) l2 D2 H2). fold c1 c2.
      (* first sum: over a in c1, over q in l2 = map fst c2 *)
      rewrite (tsum_ext (fun pd => v3dot Rops (vsum Rops (map (fun p2 => vneg Rops (g (fst pd) p2)) l2)) (snd pd))
                        (fun a => tsum Rops (map (fun b => - v3dot Rops (g (fst a) (fst b)) (snd a)) c2)) c1).
      2:{ intros a _. rewrite v3dot_vsum. rewrite <- (combine_fst l2 D2 H2) at 1. fold c2. rewrite map_map. apply tsum_ext. intros b _.
          apply v3dot_neg_l. }
      rewrite (tsum_ext (fun pd => v3dot Rops (vsum Rops (map (fun p1 => g p1 (fst pd)) l1)) (snd pd))
                        (fun b => tsum Rops (map (fun a => v3dot Rops (g (fst a) (fst b)) (snd b)) c1)) c2).
      2:{ intros b _. rewrite v3dot_vsum. rewrite <- (combine_fst l1 D1 H1) at 1. fold c1. rewrite map_map. reflexivity. }
      rewrite (tsum_swap (fun (b : V3 * V3) (a : V3 * V3) => v3dot Rops (g (fst a) (fst b)) (snd b)) c2 c1).
      rewrite <- tsum_plus. apply tsum_ext. intros a _. rewrite <- tsum_plus. apply tsum_ext. intros b _.
      rewrite v3dot_sub_r. ring.
Qed.

(* ---- the rational switching function of coordNum ---- *)
Definition swF (n m : nat) (x : R) : R := (1 - x ^ n) / (1 - x ^ m).

Lemma pow_ne_1 x n : 0 <= x -> x <> 1 -> (1 <= n)%nat -> x ^ n <> 1 /\ (x < 1 -> x ^ n < 1) /\ (1 < x -> 1 < x ^ n).
Proof.
  intros Hx Hne Hn.
  assert (A : x < 1 -> x ^ n < 1) by (intros H; apply (pow_lt_1_compat x n); [lra|lia]).
  assert (B : 1 < x -> 1 < x ^ n) by (intros H; apply Rlt_pow_R1; [exact H|lia]).
  split; [|split; assumption].
  destruct (Rlt_dec x 1) as [H|H]; [specialize (A H); lra|]. assert (1 < x) by lra. specialize (B H0). lra.
Qed.

Lemma swF_pos n m x : 0 <= x -> x <> 1 -> (1 <= n)%nat -> (1 <= m)%nat -> 0 < swF n m x.
Proof.
  intros Hx Hne Hn Hm. unfold swF.
  destruct (pow_ne_1 x n Hx Hne Hn) as (_ & An & Bn). destruct (pow_ne_1 x m Hx Hne Hm) as (_ & Am & Bm).
  destruct (Rlt_dec x 1) as [H|H].
  - specialize (An H). specialize (Am H). apply Rdiv_lt_0_compat; lra.
  - assert (H1 : 1 < x) by lra. specialize (Bn H1). specialize (Bm H1).
    replace ((1 - x ^ n) / (1 - x ^ m)) with ((x ^ n - 1) / (x ^ m - 1)) by (field; lra).
    apply Rdiv_lt_0_compat; lra.
Qed.

Lemma pow_pred x n : x <> 0 -> (1 <= n)%nat -> x ^ Init.Nat.pred n = x ^ n / x.
Proof. intros Hx Hn. destruct n as [|n']; [lia|]. cbn [Init.Nat.pred pow]. field. exact Hx. Qed.

Lemma swF_derive n m x : x <> 0 -> x ^ n <> 1 -> x ^ m <> 1 -> (1 <= n)%nat -> (1 <= m)%nat ->
  is_derive (swF n m) x (swF n m x * (INR m * x ^ m / ((1 - x ^ m) * x) - INR n * x ^ n / ((1 - x ^ n) * x))).
Proof.
  intros Hx Hn1 Hm1 Hn Hm. unfold swF. auto_derive.
  - lra.
  - rewrite (pow_pred x n Hx Hn), (pow_pred x m Hx Hm). field. repeat split; lra.
Qed.

Definition l2of (r0 : R) (d : V3) : R := v3norm2 Rops d / (r0 * r0).

Lemma sw_l2_eq r0 (p q : V3) : r0 <> 0 -> sw_l2 Rops None r0 p q = l2of r0 (v3sub Rops q p).
Proof.
  intros Hr. unfold sw_l2, l2of. cbn [position_distance].
  destruct (v3sub Rops q p) as [[dx dy] dz]. unfold v3norm2, v3dot. cbn [nadd nmul ndiv Rops]. field. exact Hr.
Qed.
Lemma l2of_nonneg r0 d : r0 <> 0 -> 0 <= l2of r0 d.
Proof.
  intros Hr. unfold l2of. destruct d as [[x y] z]. unfold v3norm2, v3dot. cbn [nadd nmul Rops].
  apply Rmult_le_pos; [nra|]. apply Rlt_le, Rinv_0_lt_compat. nra.
Qed.

Lemma sw_func_eq r0 n m (p q : V3) : r0 <> 0 -> (1 <= n)%nat -> (1 <= m)%nat -> l2of r0 (v3sub Rops q p) <> 1 ->
  sw_func Rops None r0 n m p q = swF n m (l2of r0 (v3sub Rops q p)).
Proof.
  intros Hr Hn Hm Hne. unfold sw_func. rewrite (sw_l2_eq r0 p q Hr), !ipow_nat.
  unfold one, zero. cbn [n0 n1 nsub ndiv nltb Rops]. fold (swF n m (l2of r0 (v3sub Rops q p))).
  pose proof (swF_pos n m _ (l2of_nonneg r0 (v3sub Rops q p) Hr) Hne Hn Hm) as Hp.
  replace (Rltb (swF n m (l2of r0 (v3sub Rops q p))) 0) with false by (symmetry; apply Rltb_false; lra). reflexivity.
Qed.

Lemma l2of_line_derive r0 (d e : V3) : r0 <> 0 ->
  is_derive (fun t => l2of r0 (v3add Rops d (v3scale Rops t e))) 0 (2 / (r0 * r0) * v3dot Rops d e).
Proof.
  intros Hr. unfold l2of, v3norm2.
  evar_last.
  - apply (is_derive_div (fun t => v3dot Rops (v3add Rops d (v3scale Rops t e)) (v3add Rops d (v3scale Rops t e))) (fun _ => r0 * r0) 0).
    + apply (derive_dot _ _ 0 e e); apply vderive_line.
    + apply @is_derive_const.
    + nra.
  - cbv beta. rewrite !line_zero. rewrite (v3dot_get e d), (v3dot_get d e). change (@Hierarchy.zero R_NormedModule) with 0. field. exact Hr.
Qed.

Lemma pair_correct_sw r0 n m (p q : V3) : r0 <> 0 -> (1 <= n)%nat -> (1 <= m)%nat ->
  l2of r0 (v3sub Rops q p) <> 0 -> l2of r0 (v3sub Rops q p) <> 1 ->
  pair_correct (sw_func Rops None r0 n m) (sw_grad Rops None r0 n m) p q.
Proof.
  intros Hr Hn Hm Hne0 Hne1 dp dq.
  set (d := v3sub Rops q p) in *. set (e := v3sub Rops dq dp).
  set (X := fun t => l2of r0 (v3add Rops d (v3scale Rops t e))).
  assert (HX : is_derive X 0 (2 / (r0 * r0) * v3dot Rops d e)) by (apply l2of_line_derive; exact Hr).
  assert (X0 : X 0 = l2of r0 d) by (unfold X; rewrite line_zero; reflexivity).
  pose proof (l2of_nonneg r0 d Hr) as Hge.
  destruct (pow_ne_1 _ n Hge Hne1 Hn) as (Pn & _). destruct (pow_ne_1 _ m Hge Hne1 Hm) as (Pm & _).
  apply (is_derive_ext_loc (fun t => swF n m (X t))).
  - (* near t = 0 the pair stays away from the cut-off *)
    assert (Hloc : locally 0 (fun t => X t - 1 <> 0)).
    { eapply (locally_nonzero (fun t => X t - 1) 0).
      - apply @is_derive_minus; [exact HX|apply @is_derive_const].
      - rewrite X0. lra. }
    generalize Hloc. apply filter_imp. intros t Ht. unfold X in *. symmetry.
    rewrite sw_func_eq; try assumption.
    + rewrite (line_sub p q dp dq t). reflexivity.
    + rewrite (line_sub p q dp dq t). intros E. apply Ht. unfold d, e. rewrite E. ring.
  - evar_last.
    + apply (is_derive_comp (swF n m) X); [|exact HX].
      unfold X. cbv beta. rewrite line_zero. apply swF_derive; assumption.
    + lazymatch goal with |- context [scal ?a ?b] => change (scal a b) with (Rmult a b) end.
      (* the model's gradient *)
      unfold sw_grad. rewrite (sw_l2_eq r0 p q Hr), !ipow_nat. cbn [position_distance]. fold d.
      unfold one, zero, ofnat, tw. cbn [n0 n1 nsub ndiv nmul nltb nofZ Rops].
      fold (swF n m (l2of r0 d)).
      pose proof (swF_pos n m _ Hge Hne1 Hn Hm) as Hp.
      replace (Rltb (swF n m (l2of r0 d)) 0) with false by (symmetry; apply Rltb_false; lra).
      rewrite !v3dot_scale_l. rewrite <- !INR_IZR_INZ. change (ofnat Rops 2) with 2. ring.
Qed.

(* ---- coordNum (group1 x group2 pairs, isotropic cut-off, no cell) ---- *)
Definition pairs_ok (r0 : R) (l1 l2 : list V3) : Prop :=
  forall p q, In p l1 -> In q l2 -> l2of r0 (v3sub Rops q p) <> 0 /\ l2of r0 (v3sub Rops q p) <> 1.

Lemma shape_ok_2 (D0 D1 : list V3) (Ds : list (list V3)) (gs : list GD) : length gs = 2%nat -> shape_ok Ds gs ->
  length (nth 0 Ds []) = length (gd_atoms (gnth gs 0)) /\ length (nth 1 Ds []) = length (gd_atoms (gnth gs 1)).
Proof.
  intros Hl Hs. destruct gs as [|g0 [|g1 [|g2 r]]]; cbn [length] in Hl; try lia.
  destruct Ds as [|E0 Ds1]; cbn [shape_ok] in Hs; [contradiction|].
  destruct Hs as [H0 Hs]. destruct Ds1 as [|E1 Ds2]; cbn [shape_ok] in Hs; [contradiction|].
  destruct Hs as [H1 _]. unfold gnth. cbn [nth]. split; assumption.
Qed.

Lemma dir_correct_coordnum r0 n m (gs : list GD) : length gs = 2%nat -> r0 <> 0 -> (1 <= n)%nat -> (1 <= m)%nat ->
  pairs_ok r0 (gd_pos (gnth gs 0)) (gd_pos (gnth gs 1)) ->
  dir_correct (k_coordnum Rops None r0 n m false) gs.
Proof.
  intros Hl Hr Hn Hm Hok.
  assert (Egs : gs = [gnth gs 0; gnth gs 1]) by (destruct gs as [|g0 [|g1 [|g2 r]]]; cbn [length] in Hl; try lia; reflexivity).
  split.
  - unfold k_coordnum. cbv zeta. cbn [snd]. apply (shape_2 (gnth gs 0) (gnth gs 1)); [exact Egs| |];
      unfold pair_grad1, pair_grad2, gd_pos; rewrite !map_length; reflexivity.
  - intros Ds Hs. destruct (shape_ok_2 [] [] Ds gs Hl Hs) as [H0 H1].
    unfold k_coordnum. cbv zeta. cbn [fst snd]. rewrite dot_lists_2.
    apply (is_derive_ext (fun t => pair_sum Rops (sw_func Rops None r0 n m) (move_pos (gd_pos (gnth gs 0)) t (nth 0 Ds []))
                                            (move_pos (gd_pos (gnth gs 1)) t (nth 1 Ds [])))).
    + intros t. rewrite !gnth_move, !gd_pos_move. reflexivity.
    + apply pair_dir.
      * intros p q Hp Hq. destruct (Hok p q Hp Hq) as [A B]. apply pair_correct_sw; assumption.
      * unfold gd_pos. rewrite map_length. exact H0.
      * unfold gd_pos. rewrite map_length. exact H1.
Qed.

(* ---- selfCoordNum (pairs i < j of one group) ---- *)
Fixpoint self_ok (P : V3 -> V3 -> Prop) (l : list V3) : Prop :=
  match l with [] => True | p :: r => (forall q, In q r -> P p q) /\ self_ok P r end.

Lemma self_grad_length (g : V3 -> V3 -> V3) (l : list V3) : length (self_grad Rops g l) = length l.
Proof.
  induction l as [|p r IH]; [reflexivity|]. cbn [self_grad length]. rewrite map_length, combine_length, IH, Nat.min_id. reflexivity.
Qed.

Lemma dot_list_add_combine (F : V3 -> V3) (r SG D : list V3) : length SG = length r -> length D = length r ->
  dot_list (map (fun qg => v3add Rops (F (fst qg)) (snd qg)) (combine r SG)) D = dot_list (map F r) D + dot_list SG D.
Proof.
  revert SG D. induction r as [|q r IH]; intros SG D H1 H2; destruct SG as [|sg SG'], D as [|d D']; cbn [length] in *; try lia.
  - cbn [combine map dot_list]. ring.
  - cbn [combine map dot_list fst snd]. rewrite IH by lia. rewrite !v3dot_get, !vget_add. ring.
Qed.

Lemma self_dir (f : V3 -> V3 -> R) (g : V3 -> V3 -> V3) (l D : list V3) :
  self_ok (pair_correct f g) l -> length D = length l ->
  is_derive (fun t => self_sum Rops f (move_pos l t D)) 0 (dot_list (self_grad Rops g l) D).
Proof.
  revert D. induction l as [|p r IH]; intros D Hok Hl.
  - cbn [move_pos self_sum self_grad dot_list]. apply @is_derive_const.
  - destruct D as [|d D']; cbn [length] in Hl; [lia|]. destruct Hok as [Hp Hr].
    cbn [move_pos self_sum self_grad dot_list].
    apply (is_derive_ext (fun t => pair_sum Rops f (move_pos [p] t [d]) (move_pos r t D') + self_sum Rops f (move_pos r t D'))).
    + intros t. unfold pair_sum. cbn [move_pos map]. rewrite tsum_cons, tsum_nil, Rplus_0_r. reflexivity.
    + replace (v3dot Rops (vsum Rops (map (fun q => vneg Rops (g p q)) r)) d
               + dot_list (map (fun qg => v3add Rops (g p (fst qg)) (snd qg)) (combine r (self_grad Rops g r))) D')
        with ((dot_list (pair_grad1 Rops (fun p0 q => vneg Rops (g p0 q)) [p] r) [d] + dot_list (pair_grad2 Rops g [p] r) D')
              + dot_list (self_grad Rops g r) D').
      * apply @is_derive_plus.
        -- apply pair_dir; [|reflexivity|lia]. intros p0 q [<-|[]] Hq. apply Hp. exact Hq.
        -- apply IH; [exact Hr|lia].
      * rewrite dot_list_add_combine by (rewrite ?self_grad_length; lia).
        unfold pair_grad1, pair_grad2. cbn [map dot_list]. 
        assert (E : dot_list (map (fun p2 => vsum Rops [g p p2]) r) D' = dot_list (map (g p) r) D').
        { f_equal. apply map_ext. intros q. apply v3_ext. intros j. rewrite vsum_cons, vget_add. unfold vsum. cbn [fold_right]. rewrite vget_zero. ring. }
        rewrite E. ring.
Qed.

Lemma dir_correct_selfcoordnum r0 n m (gs : list GD) : length gs = 1%nat -> r0 <> 0 -> (1 <= n)%nat -> (1 <= m)%nat ->
  self_ok (fun p q => l2of r0 (v3sub Rops q p) <> 0 /\ l2of r0 (v3sub Rops q p) <> 1) (gd_pos (gnth gs 0)) ->
  dir_correct (k_selfcoordnum Rops None r0 n m) gs.
Proof.
  intros Hl Hr Hn Hm Hok.
  pose proof (gds_1 gs Hl) as Egs.
  split.
  - unfold k_selfcoordnum. cbn [snd]. set (g0 := gnth gs 0) in *. rewrite Egs. cbn [shape_ok]. split; [|exact I].
    rewrite self_grad_length. unfold gd_pos. rewrite map_length. reflexivity.
  - intros Ds Hs. unfold k_selfcoordnum. cbn [fst snd]. rewrite dot_lists_1.
    assert (H0 : length (nth 0 Ds []) = length (gd_atoms (gnth gs 0))).
    { set (g0 := gnth gs 0) in *. rewrite Egs in Hs. destruct Ds as [|E0 Ds1]; cbn [shape_ok] in Hs; [contradiction|]. cbn [nth]. apply Hs. }
    apply (is_derive_ext (fun t => self_sum Rops (sw_func Rops None r0 n m) (move_pos (gd_pos (gnth gs 0)) t (nth 0 Ds [])))).
    + intros t. rewrite gnth_move, gd_pos_move. reflexivity.
    + apply self_dir.
      * generalize Hok. generalize (gd_pos (gnth gs 0)) as l. intros l. induction l as [|p r IHl]; cbn [self_ok]; [auto|].
        intros [A B]. split; [|apply IHl; exact B]. intros q Hq. destruct (A q Hq). apply pair_correct_sw; assumption.
      * unfold gd_pos. rewrite map_length. exact H0.
Qed.

(* ---- dipoleMagnitude ---- *)
Fixpoint zsum (f : R * R * V3 -> V3 -> R) (l : list (R * R * V3)) (D : list V3) : R :=
  match l, D with a :: l', d :: D' => f a d + zsum f l' D' | _, _ => 0 end.
Fixpoint dsum (aux : R) (l : list (R * R * V3)) (D : list V3) : V3 :=
  match l, D with a :: l', d :: D' => v3add Rops (v3scale Rops (aq a - aux * am a) d) (dsum aux l' D') | _, _ => vzero Rops end.

Lemma move_atoms_charge l t D : map aq (move_atoms l t D) = map aq l.
Proof. revert D. induction l as [|a l IH]; intros D; destruct D as [|d D']; try reflexivity. cbn [move_atoms map]. rewrite IH. reflexivity. Qed.
Lemma gd_charge_move g t D : gd_charge Rops (move_gd g t D) = gd_charge Rops g.
Proof. unfold gd_charge. rewrite gd_atoms_move, move_atoms_charge. reflexivity. Qed.

Lemma dipole_get (l : list (R * R * V3)) (c : V3) j :
  vget j (vsum Rops (map (fun a => v3scale Rops (aq a) (v3sub Rops (ap a) c)) l)) =
  tsum Rops (map (fun a => aq a * vget j (ap a)) l) - tsum Rops (map aq l) * vget j c.
Proof.
  induction l as [|a l IH]; cbn [map].
  - unfold vsum. cbn [fold_right]. rewrite vget_zero, !tsum_nil. ring.
  - rewrite vsum_cons, vget_add, IH, vget_scale, vget_sub, !tsum_cons. ring.
Qed.
Lemma qp_move (l : list (R * R * V3)) t D j : length D = length l ->
  tsum Rops (map (fun a => aq a * vget j (ap a)) (move_atoms l t D)) =
  tsum Rops (map (fun a => aq a * vget j (ap a)) l) + t * zsum (fun a d => aq a * vget j d) l D.
Proof.
  revert D. induction l as [|a l IH]; intros D Hl; destruct D as [|d D']; cbn [length] in Hl; try lia.
  - cbn [move_atoms map zsum]. rewrite tsum_nil. ring.
  - cbn [move_atoms map zsum]. rewrite !tsum_cons, IH by lia. unfold aq, ap. cbn [fst snd]. rewrite vget_add, vget_scale. ring.
Qed.
Lemma wsum_get (l : list (R * R * V3)) D j : length D = length l -> vget j (wsum l D) = zsum (fun a d => am a * vget j d) l D.
Proof.
  revert D. induction l as [|a l IH]; intros D Hl; destruct D as [|d D']; cbn [length] in Hl; try lia.
  - cbn [wsum zsum]. apply vget_zero.
  - cbn [wsum zsum]. rewrite vget_add, vget_scale, IH by lia. reflexivity.
Qed.
Lemma dsum_get aux (l : list (R * R * V3)) D j : length D = length l ->
  vget j (dsum aux l D) = zsum (fun a d => aq a * vget j d) l D - aux * zsum (fun a d => am a * vget j d) l D.
Proof.
  revert D. induction l as [|a l IH]; intros D Hl; destruct D as [|d D']; cbn [length] in Hl; try lia.
  - cbn [dsum zsum]. rewrite vget_zero. ring.
  - cbn [dsum zsum]. rewrite vget_add, vget_scale, IH by lia. ring.
Qed.

Lemma dipole_move (g : GD) t D : gd_dummy g = None -> gd_mass Rops g <> 0 -> length D = length (gd_atoms g) ->
  dipole Rops (move_gd g t D) (gd_com Rops (move_gd g t D)) =
  v3add Rops (dipole Rops g (gd_com Rops g)) (v3scale Rops t (dsum (gd_charge Rops g / gd_mass Rops g) (gd_atoms g) D)).
Proof.
  intros Hd HM Hl. apply v3_ext. intros j.
  assert (Hwf : gd_wf g) by (unfold gd_wf; rewrite Hd; exact HM).
  rewrite (gd_com_move g t D Hwf). unfold dipole. rewrite gd_atoms_move.
  rewrite vget_add, vget_scale, !dipole_get, move_atoms_charge, (qp_move _ t D j Hl).
  rewrite vget_add, vget_scale. unfold comdir. rewrite Hd. rewrite vget_div, (wsum_get _ D j Hl), (dsum_get _ _ D j Hl).
  unfold gd_charge. field. exact HM.
Qed.

Lemma dot_list_dsum aux (u : V3) (l : list (R * R * V3)) D : length D = length l ->
  dot_list (map (fun a => v3scale Rops (aq a - aux * am a) u) l) D = v3dot Rops u (dsum aux l D).
Proof.
  revert D. induction l as [|a l IH]; intros D Hl; destruct D as [|d D']; cbn [length] in Hl; try lia.
  - cbn [map dot_list dsum]. rewrite v3dot_get, !vget_zero. ring.
  - cbn [map dot_list dsum]. rewrite IH by lia. rewrite !v3dot_get, !vget_add, !vget_scale. ring.
Qed.

Lemma dir_correct_dipole_magnitude (gs : list GD) : length gs = 1%nat ->
  gd_dummy (gnth gs 0) = None -> gd_mass Rops (gnth gs 0) <> 0 ->
  v3norm2 Rops (dipole Rops (gnth gs 0) (gd_com Rops (gnth gs 0))) <> 0 ->
  dir_correct (k_dipole_magnitude Rops) gs.
Proof.
  intros Hl Hd HM Hne. pose proof (gds_1 gs Hl) as Egs.
  split.
  - unfold k_dipole_magnitude. cbv zeta. cbn [snd]. set (g0 := gnth gs 0) in *. rewrite Egs. cbn [shape_ok]. split; [|exact I].
    rewrite map_length. reflexivity.
  - intros Ds Hs. unfold k_dipole_magnitude. cbv zeta. cbn [fst snd]. rewrite dot_lists_1.
    assert (H0 : length (nth 0 Ds []) = length (gd_atoms (gnth gs 0))).
    { set (g0 := gnth gs 0) in *. rewrite Egs in Hs. destruct Ds as [|E0 Ds1]; cbn [shape_ok] in Hs; [contradiction|]. cbn [nth]. apply Hs. }
    cbn [nsub nmul ndiv Rops]. rewrite (dot_list_dsum _ _ _ _ H0).
    apply (is_derive_ext (fun t => vnorm Rops (v3add Rops (dipole Rops (gnth gs 0) (gd_com Rops (gnth gs 0)))
              (v3scale Rops t (dsum (gd_charge Rops (gnth gs 0) / gd_mass Rops (gnth gs 0)) (gd_atoms (gnth gs 0)) (nth 0 Ds [])))))).
    + intros t. rewrite gnth_move, (dipole_move _ t _ Hd HM H0). reflexivity.
    + apply norm_dir. exact Hne.
Qed.

Lemma shape_ok_nth (Ds : list (list V3)) (gs : list GD) i : shape_ok Ds gs -> (i < length gs)%nat ->
  length (nth i Ds []) = length (gd_atoms (gnth gs i)).
Proof.
  unfold gnth. revert Ds i. induction gs as [|g gs' IH]; intros Ds i Hs Hi; [cbn in Hi; lia|].
  destruct Ds as [|D Ds']; cbn [shape_ok] in Hs; [contradiction|]. destruct Hs as [H0 Hs].
  destruct i as [|i']; cbn [nth]; [exact H0|]. apply IH; [exact Hs|cbn [length] in Hi; lia].
Qed.

(* ---- dipoleAngle ---- *)
Lemma dir_correct_dipole_angle pbc cell (gs : list GD) : gds_wf gs 3 -> plain pbc cell ->
  gd_dummy (gnth gs 0) = None ->
  let r21 := dipole Rops (gnth gs 0) (gd_com Rops (gnth gs 0)) in
  let r23 := v3sub Rops (gd_com Rops (gnth gs 2)) (gd_com Rops (gnth gs 1)) in
  v3norm2 Rops r21 <> 0 -> v3norm2 Rops r23 <> 0 -> -1 < cosang r21 r23 < 1 ->
  dir_correct (k_dipole_angle Rops PI pbc cell) gs.
Proof.
  intros Hwf Hpl Hd r21 r23 Hn1 Hn3 Hc.
  pose proof (gds_wf_nth gs 3 0 Hwf ltac:(lia)) as W0. pose proof (gds_wf_nth gs 3 1 Hwf ltac:(lia)) as W1.
  pose proof (gds_wf_nth gs 3 2 Hwf ltac:(lia)) as W2.
  assert (HM : gd_mass Rops (gnth gs 0) <> 0) by (unfold gd_wf in W0; rewrite Hd in W0; exact W0).
  assert (Hlen : length gs = 3%nat) by (destruct Hwf; assumption).
  split.
  - unfold k_dipole_angle. cbv zeta. cbn [snd]. apply (shape_3 (gnth gs 0) (gnth gs 1) (gnth gs 2)); [apply gds_3; exact Hwf| | |];
      [rewrite map_length; reflexivity|apply wgrad_length|apply wgrad_length].
  - intros Ds Hs. pose proof (shape_ok_nth Ds gs 0 Hs ltac:(lia)) as H0.
    unfold k_dipole_angle. cbv zeta. cbn [fst snd]. rewrite dot_lists_3, !wgrad_dot by assumption. rewrite !pdist_plain by exact Hpl.
    fold r21 r23.
    set (aux := gd_charge Rops (gnth gs 0) / gd_mass Rops (gnth gs 0)).
    set (e1 := dsum aux (gd_atoms (gnth gs 0)) (nth 0 Ds [])).
    set (c2 := gd_com Rops (gnth gs 1)) in *. set (c3 := gd_com Rops (gnth gs 2)) in *.
    set (E2 := comdir (gnth gs 1) (nth 1 Ds [])). set (E3 := comdir (gnth gs 2) (nth 2 Ds [])).
    set (R1 := fun t => v3add Rops r21 (v3scale Rops t e1)).
    set (R3 := fun t => v3sub Rops (v3add Rops c3 (v3scale Rops t E3)) (v3add Rops c2 (v3scale Rops t E2))).
    assert (HR1 : vderive R1 0 e1) by apply vderive_line.
    assert (HR3 : vderive R3 0 (v3sub Rops E3 E2)) by (apply vderive_sub; apply vderive_line).
    assert (E10 : R1 0 = r21) by (unfold R1; rewrite line_zero; reflexivity).
    assert (E30 : R3 0 = r23) by (unfold R3, r23; rewrite !line_zero; reflexivity).
    apply (is_derive_ext (fun t => rad2deg Rops PI * acos (cosang (R1 t) (R3 t)))).
    + intros t. rewrite (gnth_move gs t Ds 0), (dipole_move _ t _ Hd HM H0).
      rewrite !(com_curve gs 3 Ds _ t Hwf) by lia. rewrite !pdist_plain by exact Hpl. reflexivity.
    + assert (Hs' : sqrt (1 - cosang r21 r23 * cosang r21 r23) <> 0).
      { apply Rgt_not_eq, sqrt_lt_R0. destruct Hc as [Hc1 Hc2]. nra. }
      assert (Hl1 : vnorm Rops r21 <> 0) by (unfold vnorm; cbn [nsqrt Rops]; apply Rgt_not_eq, sqrt_lt_R0, norm2_pos; exact Hn1).
      assert (Hl3 : vnorm Rops r23 <> 0) by (unfold vnorm; cbn [nsqrt Rops]; apply Rgt_not_eq, sqrt_lt_R0, norm2_pos; exact Hn3).
      evar_last.
      * apply is_derive_scal. apply (is_derive_comp acos (fun t => cosang (R1 t) (R3 t))).
        -- rewrite E10, E30. apply acos_derive. exact Hc.
        -- apply (cosang_derive R1 R3 0 _ _ HR1 HR3); [rewrite E10; exact Hn1|rewrite E30; exact Hn3].
      * rewrite E10, E30.
        lazymatch goal with |- context [scal ?a ?b] => change (scal a b) with (Rmult a b) end.
        pose proof (angle_algebra r21 r23 e1 (v3sub Rops E3 E2) (vnorm Rops r21) (vnorm Rops r23)
                                  (sqrt (1 - cosang r21 r23 * cosang r21 r23)) (rad2deg Rops PI) Hl1 Hl3 Hs') as A.
        cbv zeta in A. fold (cosang r21 r23) in A.
        unfold mone, one. cbn [nneg n1 nmul ndiv nsub nadd nsqrt Rops]. fold (cosang r21 r23).
        replace (- (1)) with (-1) by ring.
        set (G1 := v3scale Rops (rad2deg Rops PI * (-1 / sqrt (1 - cosang r21 r23 * cosang r21 r23)) * (1 / vnorm Rops r21))
                            (v3add Rops (vdiv Rops r23 (vnorm Rops r23)) (vdiv Rops (v3scale Rops (-1 * cosang r21 r23) r21) (vnorm Rops r21)))) in *.
        set (G3 := v3scale Rops (rad2deg Rops PI * (-1 / sqrt (1 - cosang r21 r23 * cosang r21 r23)) * (1 / vnorm Rops r23))
                            (v3add Rops (vdiv Rops r21 (vnorm Rops r21)) (vdiv Rops (v3scale Rops (-1 * cosang r21 r23) r23) (vnorm Rops r23)))) in *.
        transitivity (v3dot Rops G1 e1 + v3dot Rops G3 (v3sub Rops E3 E2)).
        -- rewrite <- A. ring.
        -- rewrite (map_ext (fun a => v3scale Rops (aq a + -1 * am a * aux) G1) (fun a => v3scale Rops (aq a - aux * am a) G1))
             by (intros a; f_equal; ring).
           rewrite (dot_list_dsum aux G1 _ _ H0). fold e1.
           rewrite !v3dot_sub_r, v3dot_scale_l. ring.
Qed.

(* ---- coordNum with group2CenterOnly (group1 atoms x centre of mass of group2) ---- *)
Lemma dir_correct_coordnum_g2c r0 n m (gs : list GD) : length gs = 2%nat -> gd_wf (gnth gs 1) -> r0 <> 0 -> (1 <= n)%nat -> (1 <= m)%nat ->
  pairs_ok r0 (gd_pos (gnth gs 0)) [gd_com Rops (gnth gs 1)] ->
  dir_correct (k_coordnum Rops None r0 n m true) gs.
Proof.
  intros Hl W1 Hr Hn Hm Hok.
  assert (Egs : gs = [gnth gs 0; gnth gs 1]) by (destruct gs as [|g0 [|g1 [|g2 r]]]; cbn [length] in Hl; try lia; reflexivity).
  split.
  - unfold k_coordnum. cbv zeta. cbn [snd]. apply (shape_2 (gnth gs 0) (gnth gs 1)); [exact Egs| |apply wgrad_length].
    unfold pair_grad1, gd_pos. rewrite !map_length. reflexivity.
  - intros Ds Hs. pose proof (shape_ok_nth Ds gs 0 Hs ltac:(lia)) as H0.
    unfold k_coordnum. cbv zeta. cbn [fst snd]. rewrite dot_lists_2, wgrad_dot by exact W1.
    set (c2 := gd_com Rops (gnth gs 1)) in *. set (E2 := comdir (gnth gs 1) (nth 1 Ds [])).
    apply (is_derive_ext (fun t => pair_sum Rops (sw_func Rops None r0 n m) (move_pos (gd_pos (gnth gs 0)) t (nth 0 Ds [])) (move_pos [c2] t [E2]))).
    + intros t. rewrite (gnth_move gs t Ds 0), gd_pos_move. rewrite (gnth_move gs t Ds 1), (gd_com_move _ t _ W1). reflexivity.
    + evar_last.
      * apply pair_dir.
        -- intros p q Hp Hq. destruct (Hok p q Hp Hq) as [A B]. apply pair_correct_sw; assumption.
        -- unfold gd_pos. rewrite map_length. exact H0.
        -- reflexivity.
      * f_equal. unfold pair_grad2. cbn [map dot_list]. rewrite Rplus_0_r. reflexivity.
Qed.

(* ---- distanceInv ---- *)
Lemma zpow_pred x n : x <> 0 -> (n <= 0)%Z -> zpow x (n - 1) = zpow x n / x.
Proof.
  intros Hx Hn. destruct n as [|p|p]; [|lia|].
  - change (0 - 1)%Z with (Z.neg 1). cbn [zpow]. change (Pos.to_nat 1) with 1%nat. cbn [pow]. field. exact Hx.
  - replace (Z.neg p - 1)%Z with (Z.neg (p + 1)) by lia. cbn [zpow].
    replace (Pos.to_nat (p + 1)) with (Datatypes.S (Pos.to_nat p)) by lia. cbn [pow].
    assert (x ^ Pos.to_nat p <> 0) by (apply pow_nonzero; exact Hx). field. split; assumption.
Qed.

Definition dinvf (e : nat) (p q : V3) : R := ipow Rops (v3norm2 Rops (v3sub Rops q p)) (- Z.of_nat e).
Definition dinvg (e : nat) (p q : V3) : V3 :=
  v3scale Rops (-1 * IZR (Z.of_nat e) * (dinvf e p q / v3norm2 Rops (v3sub Rops q p)) * 2) (v3sub Rops q p).

Lemma pair_correct_dinv e (p q : V3) : (1 <= e)%nat -> v3norm2 Rops (v3sub Rops q p) <> 0 ->
  pair_correct (dinvf e) (dinvg e) p q.
Proof.
  intros He Hne dp dq. unfold dinvf, dinvg.
  set (d := v3sub Rops q p) in *. set (e' := v3sub Rops dq dp).
  set (N := fun t => v3norm2 Rops (v3add Rops d (v3scale Rops t e'))).
  assert (HN : is_derive N 0 (v3dot Rops e' d + v3dot Rops d e')).
  { unfold N, v3norm2. pose proof (derive_dot (fun t => v3add Rops d (v3scale Rops t e')) (fun t => v3add Rops d (v3scale Rops t e')) 0 e' e'
                                              (vderive_line d e' 0) (vderive_line d e' 0)) as P. cbv beta in P. rewrite !line_zero in P. exact P. }
  assert (N0 : N 0 = v3norm2 Rops d) by (unfold N; rewrite line_zero; reflexivity).
  apply (is_derive_ext_loc (fun t => zpow (N t) (- Z.of_nat e))).
  - assert (Hloc : locally 0 (fun t => N t <> 0)) by (apply (locally_nonzero N 0 _ HN); rewrite N0; exact Hne).
    generalize Hloc. apply filter_imp. intros t Ht. rewrite (line_sub p q dp dq t). fold d e'. fold (N t).
    symmetry. apply ipow_zpow. right. exact Ht.
  - evar_last.
    + apply (is_derive_comp (fun y => zpow y (- Z.of_nat e)) N); [|exact HN].
      unfold N. cbv beta. rewrite line_zero. apply zpow_derive. right. exact Hne.
    + lazymatch goal with |- context [scal ?a ?b] => change (scal a b) with (Rmult a b) end.
      unfold dinvf. fold d. rewrite (ipow_zpow (v3norm2 Rops d) (- Z.of_nat e)) by (right; exact Hne).
      rewrite (zpow_pred _ (- Z.of_nat e) Hne) by lia.
      rewrite v3dot_scale_l, opp_IZR. rewrite (v3dot_get e' d), (v3dot_get d e'). field. exact Hne.
Qed.

Lemma pair_grad1_ext (f g : V3 -> V3 -> V3) (l1 l2 : list V3) : (forall p q, f p q = g p q) -> pair_grad1 Rops f l1 l2 = pair_grad1 Rops g l1 l2.
Proof. intros H. unfold pair_grad1. apply map_ext. intros p. f_equal. apply map_ext. intros q. apply H. Qed.
Lemma pair_grad2_ext (f g : V3 -> V3 -> V3) (l1 l2 : list V3) : (forall p q, f p q = g p q) -> pair_grad2 Rops f l1 l2 = pair_grad2 Rops g l1 l2.
Proof. intros H. unfold pair_grad2. apply map_ext. intros q. f_equal. apply map_ext. intros p. apply H. Qed.

Lemma pair_sum_pos (f : V3 -> V3 -> R) (l1 l2 : list V3) : l1 <> [] -> l2 <> [] ->
  (forall p q, In p l1 -> In q l2 -> 0 < f p q) -> 0 < pair_sum Rops f l1 l2.
Proof.
  intros H1 H2 Hp. unfold pair_sum.
  assert (T : forall (g : V3 -> R) (l : list V3), l <> [] -> (forall x, In x l -> 0 < g x) -> 0 < tsum Rops (map g l)).
  { intros g l. induction l as [|a l IH]; intros Hl Hg; [contradiction|]. cbn [map]. rewrite tsum_cons.
    destruct l as [|b l']; [cbn [map]; rewrite tsum_nil; pose proof (Hg a (or_introl eq_refl)); lra|].
    pose proof (Hg a (or_introl eq_refl)). assert (0 < tsum Rops (map g (b :: l'))) by (apply IH; [discriminate|intros x Hx; apply Hg; right; exact Hx]). lra. }
  apply (T (fun p1 => tsum Rops (map (fun p2 => f p1 p2) l2)) l1 H1). intros p Hin.
  apply (T (fun p2 => f p p2) l2 H2). intros q Hq. apply Hp; assumption.
Qed.

Lemma dir_correct_distance_inv pbc cell e (gs : list GD) : length gs = 2%nat -> plain pbc cell -> (1 <= e)%nat ->
  gd_pos (gnth gs 0) <> [] -> gd_pos (gnth gs 1) <> [] ->
  (forall p q, In p (gd_pos (gnth gs 0)) -> In q (gd_pos (gnth gs 1)) -> v3norm2 Rops (v3sub Rops q p) <> 0) ->
  dir_correct (k_distance_inv Rops pbc cell e) gs.
Proof.
  intros Hl Hpl He Hn1 Hn2 Hok.
  assert (Egs : gs = [gnth gs 0; gnth gs 1]) by (destruct gs as [|g0 [|g1 [|g2 r]]]; cbn [length] in Hl; try lia; reflexivity).
  set (l1 := gd_pos (gnth gs 0)) in *. set (l2 := gd_pos (gnth gs 1)) in *.
  (* the model's pair functions are dinvf / dinvg *)
  assert (Ef : forall p q, ipow Rops (v3norm2 Rops (pdist Rops pbc cell p q)) (- Z.of_nat e) = dinvf e p q)
    by (intros p q; rewrite pdist_plain by exact Hpl; reflexivity).
  assert (Eg : forall p q, v3scale Rops (mone Rops * ofnat Rops e * (ipow Rops (v3norm2 Rops (pdist Rops pbc cell p q)) (- Z.of_nat e) / v3norm2 Rops (pdist Rops pbc cell p q)) * tw Rops) (pdist Rops pbc cell p q) = dinvg e p q).
  { intros p q. rewrite !pdist_plain by exact Hpl. unfold dinvg, dinvf, mone, one, ofnat, tw. cbn [nneg n1 nmul ndiv nofZ Rops].
    change (IZR (Z.of_nat 2)) with 2. f_equal; try ring. }
  assert (Eps : forall la lb, pair_sum Rops (fun p1 p2 => ipow Rops (v3norm2 Rops (pdist Rops pbc cell p1 p2)) (- Z.of_nat e)) la lb = pair_sum Rops (dinvf e) la lb).
  { intros la lb. unfold pair_sum. apply tsum_ext. intros p _. apply tsum_ext. intros q _. apply Ef. }
  split.
  - unfold k_distance_inv. cbv zeta. cbn [snd]. apply (shape_2 (gnth gs 0) (gnth gs 1)); [exact Egs| |];
      unfold pair_grad1, pair_grad2, gd_pos; rewrite !map_length; reflexivity.
  - intros Ds Hs. pose proof (shape_ok_nth Ds gs 0 Hs ltac:(lia)) as H0. pose proof (shape_ok_nth Ds gs 1 Hs ltac:(lia)) as H1.
    unfold k_distance_inv. cbv zeta. cbn [fst snd]. fold l1 l2. rewrite dot_lists_2, !dot_list_scale.
    set (Np := ofnat Rops (length l1 * length l2)). set (ex := ofnat Rops (2 * e)).
    assert (HNp : 0 < Np).
    { unfold Np, ofnat. cbn [nofZ Rops]. apply IZR_lt. destruct l1, l2; try contradiction. cbn [length]. lia. }
    assert (Hex : 0 < ex) by (unfold ex, ofnat; cbn [nofZ Rops]; apply IZR_lt; lia).
    set (Sf := fun t => pair_sum Rops (dinvf e) (move_pos l1 t (nth 0 Ds [])) (move_pos l2 t (nth 1 Ds []))).
    assert (HS : is_derive Sf 0 (dot_list (pair_grad1 Rops (fun p q => vneg Rops (dinvg e p q)) l1 l2) (nth 0 Ds [])
                                + dot_list (pair_grad2 Rops (dinvg e) l1 l2) (nth 1 Ds []))).
    { apply pair_dir; [|unfold l1, gd_pos; rewrite map_length; exact H0|unfold l2, gd_pos; rewrite map_length; exact H1].
      intros p q Hp Hq. apply pair_correct_dinv; [exact He|apply Hok; assumption]. }
    assert (S0 : Sf 0 = pair_sum Rops (dinvf e) l1 l2) by (unfold Sf; rewrite !move_pos_zero; reflexivity).
    assert (Spos : 0 < pair_sum Rops (dinvf e) l1 l2).
    { apply pair_sum_pos; [exact Hn1|exact Hn2|]. intros p q Hp Hq. unfold dinvf.
      rewrite ipow_zpow by (right; apply Hok; assumption).
      destruct e as [|e']; [lia|]. cbn [Z.of_nat Z.opp zpow]. apply Rinv_0_lt_compat. apply pow_lt. apply norm2_pos. apply Hok; assumption. }
    apply (is_derive_ext (fun t => Rpower (Sf t * (1 / Np)) (-1 / ex))).
    + intros t. unfold Sf. rewrite !gnth_move, !gd_pos_move. fold l1 l2.
      rewrite (move_pos_length l1), (move_pos_length l2). fold Np. unfold mone, one. cbn [npow nmul ndiv nneg n1 Rops].
      rewrite Eps. replace (- (1) / ex) with (-1 / ex) by (unfold Rdiv; ring). reflexivity.
    + (* gradients of the model in terms of dinvg *)
      match goal with |- context [pair_grad1 Rops ?f l1 l2] =>
        rewrite (pair_grad1_ext f (fun p q => vneg Rops (dinvg e p q)) l1 l2) by (intros p q; cbv beta; rewrite <- Eg; reflexivity) end.
      match goal with |- context [pair_grad2 Rops ?f l1 l2] =>
        rewrite (pair_grad2_ext f (dinvg e) l1 l2) by (intros p q; cbv beta; rewrite <- Eg; reflexivity) end.
      set (dS := dot_list (pair_grad1 Rops (fun p q => vneg Rops (dinvg e p q)) l1 l2) (nth 0 Ds [])
                 + dot_list (pair_grad2 Rops (dinvg e) l1 l2) (nth 1 Ds [])) in *.
      set (Sb := pair_sum Rops (dinvf e) l1 l2 * (1 / Np)).
      assert (Sbpos : 0 < Sb) by (unfold Sb; apply Rmult_lt_0_compat; [exact Spos|apply Rdiv_lt_0_compat; lra]).
      evar_last.
      * apply (is_derive_comp (fun y => Rpower y (-1 / ex)) (fun t => Sf t * (1 / Np))).
        -- unfold Sf. cbv beta. rewrite (move_pos_zero l1 (nth 0 Ds [])), (move_pos_zero l2 (nth 1 Ds [])). fold Sb. unfold Rpower. auto_derive; [exact Sbpos|reflexivity].
        -- apply (is_derive_ext (fun t => (1 / Np) * Sf t)); [intros t; apply Rmult_comm|]. apply is_derive_scal. exact HS.
      * lazymatch goal with |- context [scal ?a ?b] => change (scal a b) with (Rmult a b) end.
        fold dS. fold Sb.
        (* x0^(2e+1) = x0 / Sb *)
        set (x0 := Rpower Sb (-1 / ex)).
        assert (Hx0 : 0 < x0) by (unfold x0, Rpower; apply exp_pos).
        assert (Epow : ipow Rops x0 (Z.of_nat (2 * e + 1)) = x0 / Sb).
        { rewrite ipow_nat. replace (2 * e + 1)%nat with (Datatypes.S (2 * e)) by lia. cbn [pow].
          rewrite <- (Rpower_pow (2 * e) x0 Hx0). unfold x0. rewrite Rpower_mult.
          replace (-1 / ex * INR (2 * e)) with (Ropp 1).
          - rewrite Rpower_Ropp, (Rpower_1 Sb Sbpos). unfold Rdiv. ring.
          - unfold ex, ofnat. cbn [nofZ Rops]. rewrite <- INR_IZR_INZ. field. apply not_0_INR. lia. }
        unfold mone, one. cbn [nneg n1 nmul ndiv npow Rops].
        rewrite Eps. replace (- (1) / ex) with (-1 / ex) by (unfold Rdiv; ring). fold Sb. fold x0.
        rewrite Epow. unfold dS. change (exp (-1 / ex * ln Sb)) with x0. field. repeat split; lra.
Qed.

(* ------------------------------------------------------------------ rmsd with its optimal rotation: the envelope argument *)
Notation Q4 := (@quat R).
Definition qn2 (q : Q4) : R := let '(q0, q1, q2, q3) := q in q0 * q0 + q1 * q1 + q2 * q2 + q3 * q3.
Definition sqdev (q : Q4) (prs : list (V3 * V3)) : R := tsum Rops (map (v3norm2 Rops) (rdev Rops q prs)).
(* what rotation::calc_optimal_rotation has to deliver (C02_eigen_decomposition_is_optimal shows that the eigenvector of the
   largest eigenvalue of the overlap matrix does): a unit quaternion minimising the sum of squared deviations *)
Definition qopt_ok (ref : list V3) (qopt : list (V3 * V3) -> Q4) : Prop :=
  forall Y, let prs := combine Y (centred Rops ref) in
            qn2 (qopt prs) = 1 /\ forall q', qn2 q' = 1 -> sqdev (qopt prs) prs <= sqdev q' prs.

(* Fermat / envelope: a differentiable function that lies below a differentiable one and touches it has the same derivative *)
Lemma envelope (F G : R -> R) t0 d : ex_derive F t0 -> (forall t, F t <= G t) -> F t0 = G t0 -> is_derive G t0 d -> is_derive F t0 d.
Proof.
  intros [dF HF] Hle Heq HG.
  assert (HH : is_derive (fun t => G t - F t) t0 (d - dF)) by (apply @is_derive_minus; assumption).
  assert (pr : derivable_pt (fun t => G t - F t) t0) by (exists (d - dF); apply is_derive_Reals; exact HH).
  assert (E0 : derive_pt (fun t => G t - F t) t0 pr = 0).
  { apply (deriv_minimum (fun t => G t - F t) (t0 - 1) (t0 + 1) t0 pr); [lra|lra|]. intros x _ _. rewrite Heq. specialize (Hle x). lra. }
  assert (E1 : derive_pt (fun t => G t - F t) t0 pr = d - dF) by (apply derive_pt_eq_0; apply is_derive_Reals; exact HH).
  replace d with dF by lra. exact HF.
Qed.

Lemma qrot_lin (q : Q4) (a b : V3) t : qrot Rops q (v3add Rops a (v3scale Rops t b)) = v3add Rops (qrot Rops q a) (v3scale Rops t (qrot Rops q b)).
Proof.
  destruct q as [[[q0 q1] q2] q3], a as [[ax ay] az], b as [[bx by_] bz].
  unfold qrot, v3add, v3scale, tw, ofnat. cbn [nadd nsub nmul nofZ Rops]. change (IZR (Z.of_nat 2)) with 2. f_equal; [f_equal|]; ring.
Qed.
Lemma qrot_sub (q : Q4) (a b : V3) : qrot Rops q (v3sub Rops a b) = v3sub Rops (qrot Rops q a) (qrot Rops q b).
Proof.
  destruct q as [[[q0 q1] q2] q3], a as [[ax ay] az], b as [[bx by_] bz].
  unfold qrot, v3sub, tw, ofnat. cbn [nadd nsub nmul nofZ Rops]. change (IZR (Z.of_nat 2)) with 2. f_equal; [f_equal|]; ring.
Qed.
Lemma qrot_zero (q : Q4) : qrot Rops q (vzero Rops) = vzero Rops.
Proof.
  destruct q as [[[q0 q1] q2] q3]. unfold qrot, vzero, zero, tw, ofnat. cbn [nadd nsub nmul nofZ n0 Rops]. f_equal; [f_equal|]; ring.
Qed.
(* the matrix of the conjugate quaternion is the transpose *)
Lemma qrot_adj (q : Q4) (a b : V3) : v3dot Rops (qrot Rops (qconj Rops q) a) b = v3dot Rops a (qrot Rops q b).
Proof.
  destruct q as [[[q0 q1] q2] q3], a as [[ax ay] az], b as [[bx by_] bz].
  unfold qrot, qconj, v3dot, tw, ofnat. cbn [nadd nsub nmul nneg nofZ Rops]. change (IZR (Z.of_nat 2)) with 2. ring.
Qed.

Lemma vsum_move (l D : list V3) t : length D = length l -> vsum Rops (move_pos l t D) = v3add Rops (vsum Rops l) (v3scale Rops t (vsum Rops D)).
Proof.
  revert D. induction l as [|p l IH]; intros D Hl; destruct D as [|d D']; cbn [length] in Hl; try lia.
  - cbn [move_pos]. apply v3_ext. intros j. unfold vsum. cbn [fold_right]. rewrite vget_add, vget_scale, !vget_zero. ring.
  - cbn [move_pos]. rewrite !vsum_cons, IH by lia. apply v3_ext. intros j. rewrite ?vget_add, ?vget_scale, ?vget_add. ring.
Qed.

Lemma sub_move (l D : list V3) (cl cD : V3) t : length D = length l ->
  map (fun p => v3sub Rops p (v3add Rops cl (v3scale Rops t cD))) (move_pos l t D)
  = move_pos (map (fun p => v3sub Rops p cl) l) t (map (fun d => v3sub Rops d cD) D).
Proof.
  revert D. induction l as [|p l IH]; intros D Hl; destruct D as [|d D']; cbn [length] in Hl; try lia; [reflexivity|].
  cbn [move_pos map]. rewrite IH by lia. f_equal.
  apply v3_ext. intros j. rewrite ?vget_sub, ?vget_add, ?vget_scale, ?vget_sub. ring.
Qed.

Lemma ofnat_pos (n : nat) : (0 < n)%nat -> 0 < ofnat Rops n.
Proof. intros H. unfold ofnat. cbn [nofZ Rops]. apply IZR_lt. lia. Qed.

Lemma centred_move (l D : list V3) t : length D = length l -> l <> [] ->
  centred Rops (move_pos l t D) = move_pos (centred Rops l) t (centred Rops D).
Proof.
  intros Hl Hne. unfold centred. rewrite move_pos_length, Hl, vsum_move by exact Hl.
  assert (Hn : ofnat Rops (length l) <> 0) by (apply Rgt_not_eq, ofnat_pos; destruct l; [contradiction|cbn; lia]).
  rewrite <- (sub_move l D _ _ t Hl). apply map_ext. intros p. f_equal.
  apply v3_ext. intros j. rewrite ?vget_div, ?vget_add, ?vget_scale, ?vget_div. field. exact Hn.
Qed.

Lemma vsum_centred (l : list V3) : l <> [] -> vsum Rops (centred Rops l) = vzero Rops.
Proof.
  intros Hne. unfold centred. apply v3_ext. intros j. rewrite vget_vsum, map_map, vget_zero.
  rewrite (tsum_ext _ (fun p => vget j p + - vget j (vdiv Rops (vsum Rops l) (ofnat Rops (length l))))) by (intros p _; rewrite vget_sub; ring).
  rewrite tsum_plus, tsum_const. rewrite vget_div, vget_vsum.
  assert (Hn : ofnat Rops (length l) <> 0) by (apply Rgt_not_eq, ofnat_pos; destruct l; [contradiction|cbn; lia]).
  unfold ofnat, rnat in *. cbn [nofZ Rops] in *. field. exact Hn.
Qed.

Lemma centred_length (l : list V3) : length (centred Rops l) = length l.
Proof. unfold centred. apply map_length. Qed.

Lemma rdev_move (q : Q4) (Y E Rf : list V3) t : length E = length Y -> length Rf = length Y ->
  rdev Rops q (combine (move_pos Y t E) Rf) = move_pos (rdev Rops q (combine Y Rf)) t (map (qrot Rops q) E).
Proof.
  revert E Rf. induction Y as [|y Y IH]; intros E Rf H1 H2; destruct E as [|e E'], Rf as [|r Rf']; cbn [length] in *; try lia; [reflexivity|].
  cbn [move_pos combine rdev map fst snd]. unfold rdev in IH. rewrite IH by lia. f_equal.
  rewrite qrot_lin. apply v3_ext. intros j. rewrite ?vget_sub, ?vget_add, ?vget_scale, ?vget_sub. ring.
Qed.
Lemma rdev_length (q : Q4) (Y Rf : list V3) : length Rf = length Y -> length (rdev Rops q (combine Y Rf)) = length Y.
Proof. intros H. unfold rdev. rewrite map_length, combine_length, H, Nat.min_id. reflexivity. Qed.

Lemma vsum_rdev (q : Q4) (Y Rf : list V3) : length Rf = length Y ->
  vsum Rops (rdev Rops q (combine Y Rf)) = v3sub Rops (qrot Rops q (vsum Rops Y)) (vsum Rops Rf).
Proof.
  revert Rf. induction Y as [|y Y IH]; intros Rf H; destruct Rf as [|r Rf']; cbn [length] in H; try lia.
  - cbn [combine rdev map]. unfold vsum. cbn [fold_right]. rewrite qrot_zero. apply v3_ext. intros j. rewrite vget_sub, vget_zero. ring.
  - cbn [combine rdev map fst snd]. unfold rdev in IH. rewrite !vsum_cons, IH by lia.
    replace (v3add Rops y (vsum Rops Y)) with (v3add Rops y (v3scale Rops 1 (vsum Rops Y))) by (apply v3_ext; intros j; rewrite !vget_add, vget_scale; ring).
    rewrite qrot_lin. apply v3_ext. intros j. rewrite ?vget_add, ?vget_sub, ?vget_add, ?vget_scale. ring.
Qed.

Lemma dot_list_rot_centred (q : Q4) (dev D : list V3) (c : V3) : length D = length dev ->
  dot_list dev (map (qrot Rops q) (map (fun d => v3sub Rops d c) D)) = dot_list dev (map (qrot Rops q) D) - v3dot Rops (vsum Rops dev) (qrot Rops q c).
Proof.
  revert D. induction dev as [|g dev IH]; intros D Hl; destruct D as [|d D']; cbn [length] in Hl; try lia.
  - cbn [map dot_list]. unfold vsum. cbn [fold_right]. rewrite v3dot_get, !vget_zero. ring.
  - cbn [map dot_list]. rewrite IH by lia. rewrite vsum_cons, qrot_sub. rewrite !v3dot_get, ?vget_sub, ?vget_add. ring.
Qed.

Lemma dot_list_rot_adj (q : Q4) c (dev D : list V3) :
  dot_list (map (fun d => qrot Rops (qconj Rops q) (v3scale Rops c d)) dev) D = c * dot_list dev (map (qrot Rops q) D).
Proof.
  revert D. induction dev as [|g dev IH]; intros D; destruct D as [|d D']; cbn [map dot_list]; try ring.
  rewrite IH, qrot_adj, v3dot_scale_l. ring.
Qed.

Lemma dir_correct_rmsd ref qopt (gs : list GD) : length gs = 1%nat -> qopt_ok ref qopt ->
  gd_pos (gnth gs 0) <> [] -> length ref = length (gd_pos (gnth gs 0)) ->
  fst (k_rmsd Rops ref qopt gs) <> 0 ->
  (* the minimum rmsd is differentiable along straight atomic displacements (non-degenerate optimal rotation) *)
  (forall Ds, ex_derive (fun t => fst (k_rmsd Rops ref qopt (move_gs gs t Ds))) 0) ->
  dir_correct (k_rmsd Rops ref qopt) gs.
Proof.
  intros Hl Hopt Hne Hlen Hx Hdiff. pose proof (gds_1 gs Hl) as Egs.
  set (l := gd_pos (gnth gs 0)) in *.
  set (n := ofnat Rops (length l)) in *.
  assert (Hn : 0 < n) by (apply ofnat_pos; destruct l; [contradiction|cbn; lia]).
  set (Y := centred Rops l). set (Rf := centred Rops ref).
  assert (HRY : length Rf = length Y) by (unfold Rf, Y; rewrite !centred_length; exact Hlen).
  set (q0 := qopt (combine Y Rf)). set (dev0 := rdev Rops q0 (combine Y Rf)).
  assert (Hdl : length dev0 = length l) by (unfold dev0; rewrite rdev_length by exact HRY; unfold Y; apply centred_length).
  set (x0 := sqrt (tsum Rops (map (v3norm2 Rops) dev0) / n)).
  assert (Ex : fst (k_rmsd Rops ref qopt gs) = x0) by reflexivity.
  assert (Hpos : 0 < tsum Rops (map (v3norm2 Rops) dev0) / n).
  { destruct (Rlt_dec 0 (tsum Rops (map (v3norm2 Rops) dev0) / n)) as [H|H]; [exact H|]. exfalso. apply Hx. rewrite Ex. unfold x0. apply sqrt_neg_0. lra. }
  assert (Hx0 : 0 < x0) by (unfold x0; apply sqrt_lt_R0; exact Hpos).
  split.
  - unfold k_rmsd. cbv zeta. cbn [snd]. set (g0 := gnth gs 0) in *. rewrite Egs. cbn [shape_ok]. split; [|exact I].
    rewrite map_length. fold l Y Rf q0. fold dev0. rewrite Hdl. unfold l, gd_pos. apply map_length.
  - intros Ds Hs. pose proof (shape_ok_nth Ds gs 0 Hs ltac:(lia)) as H0.
    set (D := nth 0 Ds []) in *.
    assert (HD : length D = length l) by (unfold l, gd_pos; rewrite map_length; exact H0).
    set (E := centred Rops D).
    assert (HE : length E = length Y) by (unfold E, Y; rewrite !centred_length; exact HD).
    set (RE := map (qrot Rops q0) E).
    (* the value with the rotation frozen at q0 *)
    set (G := fun t => sqrt (tsum Rops (map (v3norm2 Rops) (move_pos dev0 t RE)) / n)).
    assert (Eprs : forall t, combine (centred Rops (gd_pos (gnth (move_gs gs t Ds) 0))) (centred Rops ref) = combine (move_pos Y t E) Rf).
    { intros t. rewrite gnth_move, gd_pos_move. fold l D. rewrite (centred_move l D t HD Hne). reflexivity. }
    assert (EF : forall t, fst (k_rmsd Rops ref qopt (move_gs gs t Ds)) =
                           sqrt (sqdev (qopt (combine (move_pos Y t E) Rf)) (combine (move_pos Y t E) Rf) / n)).
    { intros t. unfold k_rmsd. cbv zeta. cbn [fst]. rewrite Eprs. rewrite gnth_move, gd_pos_move. fold l D.
      rewrite move_pos_length. reflexivity. }
    assert (EG : forall t, G t = sqrt (sqdev q0 (combine (move_pos Y t E) Rf) / n)).
    { intros t. unfold G, sqdev. rewrite (rdev_move q0 Y E Rf t HE HRY). reflexivity. }
    (* derivative of G *)
    assert (HG : is_derive G 0 (dot_list dev0 RE / (n * x0))).
    { unfold G. evar_last.
      - apply (is_derive_sqrt (fun t => tsum Rops (map (v3norm2 Rops) (move_pos dev0 t RE)) / n) 0 (/ n * (2 * dot_list dev0 RE))).
        + apply (is_derive_ext (fun t => / n * tsum Rops (map (v3norm2 Rops) (move_pos dev0 t RE)))); [intros t; unfold Rdiv; apply Rmult_comm|].
          apply is_derive_scal. apply sumsq_dir.
        + rewrite move_pos_zero. exact Hpos.
      - rewrite move_pos_zero. fold x0. field. split; lra. }
    (* the model's gradient contracted with the directions *)
    unfold k_rmsd. cbv zeta. cbn [snd]. rewrite dot_lists_1. fold l Y Rf q0. fold dev0. fold n. fold D.
    cbn [nsqrt ndiv nmul nltb Rops]. unfold zero, hf, nhalf, tw, ofnat. cbn [n0 n1 ndiv nofZ Rops]. change (IZR (Z.of_nat 2)) with 2. change (IZR 2) with 2.
    fold n. fold x0.
    replace (Rltb 0 x0) with true by (symmetry; apply Rltb_true; exact Hx0).
    rewrite dot_list_rot_adj.
    assert (Hsum0 : vsum Rops dev0 = vzero Rops).
    { unfold dev0. rewrite vsum_rdev by exact HRY. unfold Y, Rf. rewrite !vsum_centred; [|destruct ref; [cbn in Hlen; destruct l; [contradiction|discriminate]|discriminate]|exact Hne].
      rewrite qrot_zero. apply v3_ext. intros j. rewrite vget_sub, vget_zero. ring. }
    assert (ERE : dot_list dev0 RE = dot_list dev0 (map (qrot Rops q0) D)).
    { unfold RE, E, centred. rewrite (dot_list_rot_centred q0 dev0 D _) by (rewrite HD, Hdl; reflexivity).
      rewrite Hsum0, v3dot_get, !vget_zero. ring. }
    apply (envelope (fun t => fst (k_rmsd Rops ref qopt (move_gs gs t Ds))) G 0).
    + apply Hdiff.
    + intros t. rewrite EF, EG. apply sqrt_le_1_alt. apply Rmult_le_compat_r; [apply Rlt_le, Rinv_0_lt_compat; exact Hn|].
      destruct (Hopt (move_pos Y t E)) as [_ Hmin]. apply Hmin. unfold q0. apply (Hopt Y).
    + rewrite EF, EG. rewrite move_pos_zero. reflexivity.
    + evar_last; [exact HG|]. rewrite <- ERE. field. split; lra.
Qed.

(* ------------------------------------------------------------------ more components as functions of the atomic coordinates *)
Lemma grp_ok_3 (s : SYS) g1 g2 g3 : grp_ok s g1 -> grp_ok s g2 -> grp_ok s g3 ->
  List.Forall (wf_group s) [g1; g2; g3] /\ gds_wf (map (gdata_of Rops s) [g1; g2; g3]) 3 /\ List.Forall fit_on [g1; g2; g3].
Proof.
  intros (W1 & M1 & F1) (W2 & M2 & F2) (W3 & M3 & F3). repeat split; auto.
  cbn [map]. repeat constructor; apply gd_wf_of; assumption.
Qed.

Lemma cvc_grad_correct_distanceZ2 cell pbc co e gm g1 g2 (s : SYS) :
  grp_ok s gm -> grp_ok s g1 -> grp_ok s g2 -> plain pbc cell ->
  gd_com Rops (gdata_of Rops s g2) <> gd_com Rops (gdata_of Rops s g1) ->
  cvc_grad_correct cell (mkCvc co e (KDistanceZ2 pbc) [gm; g1; g2]) s.
Proof.
  intros H0 H1 H2 Hpl Hne. destruct (grp_ok_3 s gm g1 g2 H0 H1 H2) as (HW & HG & HF).
  apply group_layer; cbn [c_groups c_kind keval]; [exact HW| |apply fit_ok_on; exact HF].
  apply dir_correct_distance_z2; [exact HG|exact Hpl|]. cbn [map]. unfold gnth. cbn [nth]. apply norm2_sub_ne. exact Hne.
Qed.

Lemma cvc_grad_correct_distanceXY2 cell pbc co e gm g1 g2 (s : SYS) :
  grp_ok s gm -> grp_ok s g1 -> grp_ok s g2 -> plain pbc cell ->
  gd_com Rops (gdata_of Rops s g2) <> gd_com Rops (gdata_of Rops s g1) ->
  v3norm2 Rops (vperp (v3sub Rops (gd_com Rops (gdata_of Rops s gm)) (gd_com Rops (gdata_of Rops s g1)))
                      (vunit Rops (v3sub Rops (gd_com Rops (gdata_of Rops s g2)) (gd_com Rops (gdata_of Rops s g1))))) <> 0 ->
  cvc_grad_correct cell (mkCvc co e (KDistanceXY2 pbc) [gm; g1; g2]) s.
Proof.
  intros H0 H1 H2 Hpl Hne Hnv. destruct (grp_ok_3 s gm g1 g2 H0 H1 H2) as (HW & HG & HF).
  apply group_layer; cbn [c_groups c_kind keval]; [exact HW| |apply fit_ok_on; exact HF].
  apply dir_correct_distance_xy2; [exact HG|exact Hpl| |]; cbn [map]; unfold gnth; cbn [nth]; [apply norm2_sub_ne; exact Hne|exact Hnv].
Qed.

Lemma cvc_grad_correct_angle cell pbc co e g1 g2 g3 (s : SYS) :
  grp_ok s g1 -> grp_ok s g2 -> grp_ok s g3 -> plain pbc cell ->
  gd_com Rops (gdata_of Rops s g1) <> gd_com Rops (gdata_of Rops s g2) ->
  gd_com Rops (gdata_of Rops s g3) <> gd_com Rops (gdata_of Rops s g2) ->
  -1 < cosang (v3sub Rops (gd_com Rops (gdata_of Rops s g1)) (gd_com Rops (gdata_of Rops s g2)))
              (v3sub Rops (gd_com Rops (gdata_of Rops s g3)) (gd_com Rops (gdata_of Rops s g2))) < 1 ->
  cvc_grad_correct cell (mkCvc co e (KAngle pbc) [g1; g2; g3]) s.
Proof.
  intros H1 H2 H3 Hpl Hn1 Hn3 Hc. destruct (grp_ok_3 s g1 g2 g3 H1 H2 H3) as (HW & HG & HF).
  apply group_layer; cbn [c_groups c_kind keval]; [exact HW| |apply fit_ok_on; exact HF].
  apply dir_correct_angle; [exact HG|exact Hpl| | |]; cbn [map]; unfold gnth; cbn [nth];
    [apply norm2_sub_ne; exact Hn1|apply norm2_sub_ne; exact Hn3|exact Hc].
Qed.

Lemma cvc_grad_correct_inertiaZ cell co e ax ids (s : SYS) :
  ids_ok s ids -> ids <> [] ->
  cvc_grad_correct cell (mkCvc co e (KInertiaZ ax) [self_centred ids]) s.
Proof.
  intros Hok Hne.
  apply group_layer; cbn [c_groups c_kind keval].
  - repeat constructor; cbn [fit_ids]; auto.
  - apply dir_correct_inertia_z. reflexivity.
  - unfold cvc_eval. cbn [c_groups c_kind keval map k_inertia_z snd fit_ok fit_ok_g self_centred]. split; [|exact I].
    unfold gnth. cbn [nth]. unfold self_centred.
    (* sum_i 2 (p_i . ax) ax = 2 ((sum_i p_i) . ax) ax = 0 for a centred group *)
    apply v3_ext. intros j. rewrite vget_vsum, map_map, vget_zero.
    rewrite (tsum_ext _ (fun p => (tw Rops * vget j ax) * v3dot Rops p ax)) by (intros p _; rewrite vget_scale; cbn [nmul Rops]; ring).
    rewrite tsum_scale'.
    rewrite (tsum_ext _ (fun p => vget AX p * vget AX ax + vget AY p * vget AY ax + vget AZ p * vget AZ ax)) by (intros p _; apply v3dot_get).
    rewrite !tsum_plus.
    rewrite (tsum_ext (fun p : V3 => vget AX p * vget AX ax) (fun p => vget AX ax * vget AX p)) by (intros; ring).
    rewrite (tsum_ext (fun p : V3 => vget AY p * vget AY ax) (fun p => vget AY ax * vget AY p)) by (intros; ring).
    rewrite (tsum_ext (fun p : V3 => vget AZ p * vget AZ ax) (fun p => vget AZ ax * vget AZ p)) by (intros; ring).
    rewrite !tsum_scale'. rewrite <- !vget_vsum. rewrite centred_vsum by exact Hne. rewrite !vget_scale, !vget_zero. ring.
Qed.
Definition grp_ok0 (s : SYS) (g : GRP) : Prop := wf_group s g /\ fit_on g.

Lemma cvc_grad_correct_coordNum co e r0 n m g1 g2 (s : SYS) :
  grp_ok0 s g1 -> grp_ok0 s g2 -> r0 <> 0 -> (1 <= n)%nat -> (1 <= m)%nat ->
  pairs_ok r0 (gd_pos (gdata_of Rops s g1)) (gd_pos (gdata_of Rops s g2)) ->
  cvc_grad_correct None (mkCvc co e (KCoordNum r0 n m false) [g1; g2]) s.
Proof.
  intros (W1 & F1) (W2 & F2) Hr Hn Hm Hok.
  apply group_layer; cbn [c_groups c_kind keval].
  - repeat constructor; assumption.
  - apply dir_correct_coordnum; try assumption; reflexivity.
  - apply fit_ok_on. repeat constructor; assumption.
Qed.

Lemma cvc_grad_correct_selfCoordNum co e r0 n m g1 (s : SYS) :
  grp_ok0 s g1 -> r0 <> 0 -> (1 <= n)%nat -> (1 <= m)%nat ->
  self_ok (fun p q => l2of r0 (v3sub Rops q p) <> 0 /\ l2of r0 (v3sub Rops q p) <> 1) (gd_pos (gdata_of Rops s g1)) ->
  cvc_grad_correct None (mkCvc co e (KSelfCoordNum r0 n m) [g1]) s.
Proof.
  intros (W1 & F1) Hr Hn Hm Hok.
  apply group_layer; cbn [c_groups c_kind keval].
  - repeat constructor; assumption.
  - apply dir_correct_selfcoordnum; try assumption; reflexivity.
  - apply fit_ok_on. repeat constructor; assumption.
Qed.

Lemma cvc_grad_correct_coordNum_g2c co e r0 n m g1 g2 (s : SYS) :
  grp_ok0 s g1 -> grp_ok s g2 -> r0 <> 0 -> (1 <= n)%nat -> (1 <= m)%nat ->
  pairs_ok r0 (gd_pos (gdata_of Rops s g1)) [gd_com Rops (gdata_of Rops s g2)] ->
  cvc_grad_correct None (mkCvc co e (KCoordNum r0 n m true) [g1; g2]) s.
Proof.
  intros (W1 & F1) (W2 & M2 & F2) Hr Hn Hm Hok.
  apply group_layer; cbn [c_groups c_kind keval].
  - repeat constructor; assumption.
  - apply dir_correct_coordnum_g2c; try assumption; try reflexivity. cbn [map]. unfold gnth. cbn [nth]. apply gd_wf_of. exact M2.
  - apply fit_ok_on. repeat constructor; assumption.
Qed.

Lemma cvc_grad_correct_dipoleMagnitude cell co e ids c fit (s : SYS) :
  grp_ok s (GAtoms ids c fit true) ->
  v3norm2 Rops (dipole Rops (gdata_of Rops s (GAtoms ids c fit true)) (gd_com Rops (gdata_of Rops s (GAtoms ids c fit true)))) <> 0 ->
  cvc_grad_correct cell (mkCvc co e KDipoleMagnitude [GAtoms ids c fit true]) s.
Proof.
  intros (W & M & F) Hne.
  apply group_layer; cbn [c_groups c_kind keval].
  - constructor; [exact W|constructor].
  - apply dir_correct_dipole_magnitude; cbn [map]; unfold gnth; cbn [nth]; try reflexivity; try assumption.
    pose proof (gd_wf_of s _ M) as Wf. unfold gd_wf in Wf. cbn [gdata_of gd_dummy] in Wf. exact Wf.
  - apply fit_ok_on. constructor; [exact F|constructor].
Qed.

Lemma cvc_grad_correct_dipoleAngle cell pbc co e ids c fit g2 g3 (s : SYS) :
  grp_ok s (GAtoms ids c fit true) -> grp_ok s g2 -> grp_ok s g3 -> plain pbc cell ->
  let g1 := GAtoms ids c fit true in
  let r21 := dipole Rops (gdata_of Rops s g1) (gd_com Rops (gdata_of Rops s g1)) in
  let r23 := v3sub Rops (gd_com Rops (gdata_of Rops s g3)) (gd_com Rops (gdata_of Rops s g2)) in
  v3norm2 Rops r21 <> 0 -> v3norm2 Rops r23 <> 0 -> -1 < cosang r21 r23 < 1 ->
  cvc_grad_correct cell (mkCvc co e (KDipoleAngle pbc) [GAtoms ids c fit true; g2; g3]) s.
Proof.
  intros H1 H2 H3 Hpl g1 r21 r23 Hn1 Hn3 Hc. destruct (grp_ok_3 s g1 g2 g3 H1 H2 H3) as (HW & HG & HF).
  apply group_layer; cbn [c_groups c_kind keval]; [exact HW| |apply fit_ok_on; exact HF].
  apply dir_correct_dipole_angle; [exact HG|exact Hpl|reflexivity| | |]; cbn [map]; unfold gnth; cbn [nth]; assumption.
Qed.

Definition inv_ok (l1 l2 : list V3) : Prop :=
  l1 <> [] /\ l2 <> [] /\ forall p q, In p l1 -> In q l2 -> v3norm2 Rops (v3sub Rops q p) <> 0.

Lemma cvc_grad_correct_distanceInv cell pbc co e ex g1 g2 (s : SYS) :
  grp_ok0 s g1 -> grp_ok0 s g2 -> plain pbc cell -> (1 <= ex)%nat ->
  inv_ok (gd_pos (gdata_of Rops s g1)) (gd_pos (gdata_of Rops s g2)) ->
  cvc_grad_correct cell (mkCvc co e (KDistanceInv pbc ex) [g1; g2]) s.
Proof.
  intros (W1 & F1) (W2 & F2) Hpl He (N1 & N2 & Hok).
  apply group_layer; cbn [c_groups c_kind keval].
  - repeat constructor; assumption.
  - apply dir_correct_distance_inv; try assumption; reflexivity.
  - apply fit_ok_on. repeat constructor; assumption.
Qed.

(* rmsd with its default fit: the component centres and rotates its own atoms with the optimal rotation and applies
   rot^-1 (F grad); neither the centre term nor the derivative of the rotation is computed.  Under the hypotheses that the
   solver returns an optimal unit quaternion and that the minimum rmsd is differentiable at the configuration, this is
   the exact gradient (the rotation derivative cancels by optimality). *)
Definition plain_group (ids : list nat) : GRP := GAtoms ids None None false.
Lemma cvc_grad_correct_rmsd cell co e ref qopt ids (s : SYS) :
  ids_ok s ids -> ids <> [] -> length ref = length ids -> qopt_ok ref qopt ->
  cvc_value Rops PI cell (mkCvc co e (KRmsd ref qopt) [plain_group ids]) s <> 0 ->
  (forall Ds, ex_derive (fun t => fst (k_rmsd Rops ref qopt (move_gs [gdata_of Rops s (plain_group ids)] t Ds))) 0) ->
  cvc_grad_correct cell (mkCvc co e (KRmsd ref qopt) [plain_group ids]) s.
Proof.
  intros Hok Hne Hlen Hopt Hv Hdiff.
  apply group_layer; cbn [c_groups c_kind keval].
  - constructor; [|constructor]. unfold plain_group, wf_group. cbn [fit_ids]. repeat split; try assumption. intros H; exfalso; apply H; reflexivity.
  - cbn [map]. apply dir_correct_rmsd; try assumption; try reflexivity.
    + unfold gnth. cbn [nth]. unfold gd_pos, plain_group. cbn [gdata_of gd_atoms]. rewrite map_map. destruct ids; [contradiction|discriminate].
    + unfold gnth. cbn [nth]. unfold gd_pos, plain_group. cbn [gdata_of gd_atoms]. rewrite !map_length. exact Hlen.
  - unfold plain_group. cbn [fit_ok fit_ok_g]. unfold cvc_eval. cbn [c_groups c_kind keval map k_rmsd snd fit_ok fit_ok_g]. auto.
Qed.

(* ------------------------------------------------------------------ closed form: guards instead of abstract hypotheses *)
Definition com_of (s : SYS) (g : GRP) : V3 := gd_com Rops (gdata_of Rops s g).

(* the documented non-singular geometries of the components proved so far *)
Definition kind_guard (cell : option V3) (c : cvc) (s : SYS) : Prop :=
  match c_kind c, c_groups c with
  | KDistance pbc, [g1; g2] =>
    grp_ok s g1 /\ grp_ok s g2 /\ image_ok pbc cell (com_of s g1) (com_of s g2) /\
    v3norm2 Rops (pdist Rops pbc cell (com_of s g1) (com_of s g2)) <> 0
  | KDistanceZ pbc ax, [gm; gr] => grp_ok s gm /\ grp_ok s gr /\ image_ok pbc cell (com_of s gr) (com_of s gm)
  | KDistanceXY pbc ax, [gm; gr] =>
    grp_ok s gm /\ grp_ok s gr /\ image_ok pbc cell (com_of s gr) (com_of s gm) /\ v3norm2 Rops ax = 1 /\
    v3norm2 Rops (vperp (pdist Rops pbc cell (com_of s gr) (com_of s gm)) ax) <> 0
  | KDistanceZ2 pbc, [gm; g1; g2] => grp_ok s gm /\ grp_ok s g1 /\ grp_ok s g2 /\ plain pbc cell /\ com_of s g2 <> com_of s g1
  | KDistanceXY2 pbc, [gm; g1; g2] =>
    grp_ok s gm /\ grp_ok s g1 /\ grp_ok s g2 /\ plain pbc cell /\ com_of s g2 <> com_of s g1 /\
    v3norm2 Rops (vperp (v3sub Rops (com_of s gm) (com_of s g1)) (vunit Rops (v3sub Rops (com_of s g2) (com_of s g1)))) <> 0
  | KAngle pbc, [g1; g2; g3] =>
    grp_ok s g1 /\ grp_ok s g2 /\ grp_ok s g3 /\ plain pbc cell /\ com_of s g1 <> com_of s g2 /\ com_of s g3 <> com_of s g2 /\
    -1 < cosang (v3sub Rops (com_of s g1) (com_of s g2)) (v3sub Rops (com_of s g3) (com_of s g2)) < 1
  | KCoordNum r0 n m false, [g1; g2] =>
    cell = None /\ grp_ok0 s g1 /\ grp_ok0 s g2 /\ r0 <> 0 /\ (1 <= n)%nat /\ (1 <= m)%nat /\
    pairs_ok r0 (gd_pos (gdata_of Rops s g1)) (gd_pos (gdata_of Rops s g2))          (* no pair coincident or exactly at the cut-off *)
  | KCoordNum r0 n m true, [g1; g2] =>
    cell = None /\ grp_ok0 s g1 /\ grp_ok s g2 /\ r0 <> 0 /\ (1 <= n)%nat /\ (1 <= m)%nat /\
    pairs_ok r0 (gd_pos (gdata_of Rops s g1)) [com_of s g2]
  | KDipoleMagnitude, [GAtoms ids c fit true] =>
    grp_ok s (GAtoms ids c fit true) /\
    v3norm2 Rops (dipole Rops (gdata_of Rops s (GAtoms ids c fit true)) (com_of s (GAtoms ids c fit true))) <> 0
  | KDipoleAngle pbc, [GAtoms ids c fit true; g2; g3] =>
    grp_ok s (GAtoms ids c fit true) /\ grp_ok s g2 /\ grp_ok s g3 /\ plain pbc cell /\
    v3norm2 Rops (dipole Rops (gdata_of Rops s (GAtoms ids c fit true)) (com_of s (GAtoms ids c fit true))) <> 0 /\
    com_of s g3 <> com_of s g2 /\
    -1 < cosang (dipole Rops (gdata_of Rops s (GAtoms ids c fit true)) (com_of s (GAtoms ids c fit true)))
                (v3sub Rops (com_of s g3) (com_of s g2)) < 1
  | KSelfCoordNum r0 n m, [g1] =>
    cell = None /\ grp_ok0 s g1 /\ r0 <> 0 /\ (1 <= n)%nat /\ (1 <= m)%nat /\
    self_ok (fun p q => l2of r0 (v3sub Rops q p) <> 0 /\ l2of r0 (v3sub Rops q p) <> 1) (gd_pos (gdata_of Rops s g1))
  | KInertia, [GAtoms ids (Some z) None false] => z = vzero Rops /\ ids_ok s ids /\ ids <> []
  | KInertiaZ ax, [GAtoms ids (Some z) None false] => z = vzero Rops /\ ids_ok s ids /\ ids <> []
  | KDistanceInv pbc ex, [g1; g2] =>
    grp_ok0 s g1 /\ grp_ok0 s g2 /\ plain pbc cell /\ (1 <= ex)%nat /\
    inv_ok (gd_pos (gdata_of Rops s g1)) (gd_pos (gdata_of Rops s g2))           (* no two atoms of the two groups coincide *)
  | KGyration, [GAtoms ids (Some z) None false] =>
    z = vzero Rops /\ ids_ok s ids /\ ids <> [] /\ cvc_value Rops PI cell c s <> 0
  | _, _ => False
  end.
Definition cvc_guard (cell : option V3) (c : cvc) (s : SYS) : Prop :=
  kind_guard cell c s /\ exp_ok_at (c_exp c) (cvc_value Rops PI cell c s).

Lemma cvc_guard_ok cell c (s : SYS) : cvc_guard cell c s -> cvc_ok cell c s.
Proof.
  intros [Hk He]. split; [|exact He]. clear He.
  destruct c as [co e kind groups]. unfold kind_guard in Hk. cbn [c_kind c_groups] in Hk.
  destruct kind; try contradiction.
  - destruct groups as [|g1 [|g2 [|g3 r]]]; try contradiction. destruct Hk as (H1 & H2 & Hp & Hn).
    apply cvc_grad_correct_distance; assumption.
  - destruct groups as [|g1 [|g2 [|g3 r]]]; try contradiction. destruct Hk as (H1 & H2 & Hp).
    apply cvc_grad_correct_distanceZ; assumption.
  - destruct groups as [|g1 [|g2 [|g3 [|g4 r]]]]; try contradiction. destruct Hk as (H0 & H1 & H2 & Hp & Hn).
    apply cvc_grad_correct_distanceZ2; assumption.
  - destruct groups as [|g1 [|g2 [|g3 r]]]; try contradiction. destruct Hk as (H1 & H2 & Hp & Ha & Hn).
    apply cvc_grad_correct_distanceXY; assumption.
  - destruct groups as [|g1 [|g2 [|g3 [|g4 r]]]]; try contradiction. destruct Hk as (H0 & H1 & H2 & Hp & Hn & Hv).
    apply cvc_grad_correct_distanceXY2; assumption.
  - destruct groups as [|g1 [|g2 [|g3 r]]]; try contradiction. destruct Hk as (H1 & H2 & Hp & He & Hok).
    apply cvc_grad_correct_distanceInv; assumption.
  - destruct groups as [|[p|ids c fit fg] [|g2 r]]; try contradiction;
      (destruct c as [z|]; try contradiction; destruct fit; try contradiction; destruct fg; try contradiction).
    destruct Hk as (-> & Hi & Hne & Hv). apply cvc_grad_correct_gyration; assumption.
  - destruct groups as [|[p|ids c fit fg] [|g2 r]]; try contradiction;
      (destruct c as [z|]; try contradiction; destruct fit; try contradiction; destruct fg; try contradiction).
    destruct Hk as (-> & Hi & Hne). apply cvc_grad_correct_inertia; assumption.
  - destruct groups as [|[p|ids c fit fg] [|g2 r]]; try contradiction;
      (destruct c as [z|]; try contradiction; destruct fit; try contradiction; destruct fg; try contradiction).
    destruct Hk as (-> & Hi & Hne). apply cvc_grad_correct_inertiaZ; assumption.
  - destruct groups as [|g1 [|g2 [|g3 [|g4 r]]]]; try contradiction. destruct Hk as (H1 & H2 & H3 & Hp & Hn1 & Hn3 & Hc).
    apply cvc_grad_correct_angle; assumption.
  - destruct g2center; (destruct groups as [|g1 [|g2 [|g3 r]]]; try contradiction);
      destruct Hk as (-> & H1 & H2 & Hr & Hn & Hm & Hok); [apply cvc_grad_correct_coordNum_g2c|apply cvc_grad_correct_coordNum]; assumption.
  - destruct groups as [|g1 [|g2 r]]; try contradiction.
    destruct Hk as (-> & H1 & Hr & Hn & Hm & Hok). apply cvc_grad_correct_selfCoordNum; assumption.
  - destruct groups as [|[p|ids c fit fg] [|g2 r]]; try contradiction; (destruct fg; try contradiction).
    destruct Hk as (H1 & Hn). apply cvc_grad_correct_dipoleMagnitude; assumption.
  - destruct groups as [|[p|ids c fit fg] [|g2 [|g3 [|g4 r]]]]; try contradiction; (destruct fg; try contradiction).
    destruct Hk as (H1 & H2 & H3 & Hp & Hn1 & Hn3 & Hc).
    apply cvc_grad_correct_dipoleAngle; try assumption. apply norm2_sub_ne. exact Hn3.
Qed.

Definition bias_guard (b : bias) (ws : list cvar) (x0 : list R) : Prop :=
  match b with
  | BHarmonic k cs => terms_ok_h cs ws x0                (* non-periodic, or periodic away from the half-period cut *)
  | BLinear k cs => terms_ok fst cs ws
  | BWalls k lk uk hl hu l => terms_ok fst l ws /\ walls_guard hl hu l x0
  | BMeta hs => forall h, In h hs -> hill_ok ws x0 h                         (* no hill exactly at its truncation radius *)
  | BAbmd k dec v ref => (v < length ws)%nat /\ abmd_diff Rops dec (xat Rops x0 v) ref <> 0   (* not exactly at the reference *)
  | BHist k norm sigma grid vs => False        (* modelled and tied; force correctness not proved yet *)
  end.
Lemma bias_guard_ok b ws x0 : bias_guard b ws x0 -> bias_force_correct b ws x0.
Proof.
  destruct b as [k cs|k lk uk hl hu l|k cs|hs|k dec v ref|k norm sigma grid vs]; cbn [bias_guard].
  - apply bias_force_correct_harmonic_gen.
  - intros [H1 H2]. apply bias_force_correct_walls; assumption.
  - apply bias_force_correct_linear.
  - apply bias_force_correct_meta.
  - intros [H1 H2]. apply bias_force_correct_abmd; assumption.
  - contradiction.
Qed.

Lemma forces_nth (cf : config) (s : SYS) a : (a < length s)%nat ->
  nth a (forces Rops PI cf s) (vzero Rops) = force_on Rops PI cf s a.
Proof.
  intros Ha. unfold forces, force_on.
  rewrite (nth_indep _ (vzero Rops) (scatter Rops (all_contribs Rops PI cf s) 0)) by (rewrite map_length, seq_length; exact Ha).
  rewrite (map_nth (scatter Rops (all_contribs Rops PI cf s)) (seq 0 (length s)) 0%nat a), seq_nth by exact Ha. reflexivity.
Qed.

Theorem forces_are_minus_gradient (cf : config) (s : SYS) :
  (forall v c, In v (cf_vars cf) -> In c (cv_cvcs v) -> cvc_guard (cf_cell cf) c s) ->
  (forall b, In b (cf_biases cf) -> bias_guard b (cf_vars cf) (var_values Rops PI cf s)) ->
  forall a k, (a < length s)%nat ->
    is_derive (fun t => energy Rops PI cf (set_coord s a k t)) (coord Rops s a k)
              (- vget k (nth a (forces Rops PI cf s) (vzero Rops))).
Proof.
  intros Hc Hb a k Ha. rewrite forces_nth by exact Ha. apply chain_rule.
  - intros v c Hv Hin. apply cvc_guard_ok. apply (Hc v c Hv Hin).
  - intros b Hin. apply bias_guard_ok. apply (Hb b Hin).
Qed.

(* ------------------------------------------------------------------ a concrete configuration satisfying every guard *)
Definition ex_sys : SYS :=
  [mkAtom 1 0 (0, 0, 0); mkAtom 2 0 (3, 0, 0); mkAtom 1 0 (0, 4, 0); mkAtom 1 0 (1, 1, 1)].
Definition ex_g1 : GRP := GAtoms [0%nat] None None true.
Definition ex_g2 : GRP := GAtoms [1%nat; 2%nat] (Some (0, 0, 0)) (Some [0%nat; 3%nat]) true.
Definition ex_cvc : cvc := mkCvc 2 2 (KDistance true) [ex_g1; ex_g2].
Definition ex_cf : config :=
  mkConfig None [mkCvar 1 false 0 [ex_cvc]] [BHarmonic 3 [(0%nat, 1)]; BWalls 1 1 1 false true [(0%nat, (0, -1))]].


Lemma ex_grp : grp_ok ex_sys ex_g1 /\ grp_ok ex_sys ex_g2.
Proof.
  unfold grp_ok, wf_group, group_mass_ok, fit_on, ids_ok, ex_g1, ex_g2, ex_sys. cbn [fit_ids length In].
  repeat split; try (intros i Hi; repeat (destruct Hi as [<-|Hi]; [lia|]); contradiction); try discriminate; cbn; intros H; lra.
Qed.

Lemma ex_value_nonneg : 0 <= xat Rops (var_values Rops PI ex_cf ex_sys) 0.
Proof.
  unfold var_values, ex_cf, xat. cbn [cf_vars map nth cf_cell]. unfold var_value. cbn [cv_cvcs map]. rewrite tsum_cons, tsum_nil.
  unfold cvc_term. cbn [c_exp c_coeff ex_cvc Z.eqb Pos.eqb]. change 2%Z with (Z.of_nat 2). rewrite ipow_nat.
  change (IZR (Z.of_nat 2)) with 2. cbn [nmul Rops]. set (q := cvc_value Rops PI None ex_cvc ex_sys). pose proof (pow2_ge_0 q). lra.
Qed.

Lemma ex_guards :
  (forall v c, In v (cf_vars ex_cf) -> In c (cv_cvcs v) -> cvc_guard (cf_cell ex_cf) c ex_sys) /\
  (forall b, In b (cf_biases ex_cf) -> bias_guard b (cf_vars ex_cf) (var_values Rops PI ex_cf ex_sys)).
Proof.
  assert (T : terms_ok fst [(0%nat, 1)] (cf_vars ex_cf)).
  { intros a [<-|[]]. cbn [fst length cf_vars ex_cf]. split; [lia|]. unfold var_ok, vat. cbn. split; [lra|reflexivity]. }
  split.
  - intros v c [<-|[]] [<-|[]]. split.
    + unfold kind_guard, ex_cvc. cbn [c_kind c_groups cf_cell ex_cf]. destruct ex_grp as [G1 G2].
      split; [exact G1|split; [exact G2|split; [left; left; reflexivity|]]].
      apply norm2_sub_ne. intros H. apply (f_equal (vget AX)) in H.
      unfold com_of, gd_com, gdata_of, ex_g1, ex_g2, ex_sys, gshift, cog_of, fit_ids, gd_mass, atom_at in H.
      cbn in H. lra.
    + left. cbn. lia.
  - intros b [<-|[<-|[]]]; cbn [bias_guard].
    + apply terms_ok_h_of. exact T.
    + split.
      * intros a [<-|[]]. apply (T (0%nat, 1)). left; reflexivity.
      * intros iw [<-|[]]. cbn [fst snd]. repeat split; try discriminate.
        intros _. pose proof ex_value_nonneg. lra.
Qed.

(* the periodic-cell disjunct of image_ok is inhabited: (0,0,0) and (5,1,1) in a cubic cell of edge 8 (image -3,1,1) *)
Lemma ex_image_cell : image_ok true (Some (8, 8, 8)) (0, 0, 0) (5, 1, 1) /\ ~ plain true (Some (8, 8, 8)).
Proof.
  split.
  - right. exists 8, 8, 8. split; [reflexivity|]. split; [reflexivity|].
    assert (A : min_image1 Rops 8 (5 - 0) = -3) by (rewrite min_image1_pdiff; apply (CV.C18.ValueProofs.pdiff_unique 8 (5 - 0) (-3) 1); lra).
    assert (B : min_image1 Rops 8 (1 - 0) = 1) by (rewrite min_image1_pdiff; apply (CV.C18.ValueProofs.pdiff_unique 8 (1 - 0) 1 0); lra).
    unfold cut_free1. cbn [vget v3sub nsub Rops]. rewrite A, B. repeat split; lra.
  - intros [H|H]; discriminate.
Qed.

Lemma ex_hill : hill_ok [mkCvar 1 false 0 []] [3] (2, [(0%nat, (1, 2))]) /\ abmd_diff Rops false 3 5 <> 0.
Proof.
  split.
  - unfold hill_ok. cbn [snd]. split; [|split].
    + intros a [<-|[]]. cbn [fst length]. split; [lia|]. unfold var_ok, vat. cbn. split; [lra|reflexivity].
    + intros t [<-|[]]. cbn. lra.
    + unfold hill_sqdev, dist2, pdiff, rvar, vat, xat. cbn. lra.
  - unfold abmd_diff, one. cbn. lra.
Qed.

Lemma ex_periodic : var_ok_h (mkVar 1 true 360 0) 10 350.
Proof.
  split; [cbn; lra|]. right. cbn [v_periodic v_period]. split; [reflexivity|]. split; [lra|].
  rewrite (CV.C18.ValueProofs.pdiff_unique 360 (10 - 350) 20 (-1)); lra.
Qed.

(* distancePairs: element (i, j) of the vector value is the distance between atom i of group1 and atom j of group2, and
   apply_force pushes those two atoms: the `distance` kernel on two one-atom groups, minimum image included *)
Lemma cvc_grad_correct_distancePairs_elem cell pbc co e i j (s : SYS) :
  (i < length s)%nat -> (j < length s)%nat -> a_mass (atom_at Rops s i) <> 0 -> a_mass (atom_at Rops s j) <> 0 ->
  let gi := GAtoms [i] None None true in let gj := GAtoms [j] None None true in
  image_ok pbc cell (gd_com Rops (gdata_of Rops s gi)) (gd_com Rops (gdata_of Rops s gj)) ->
  v3norm2 Rops (pdist Rops pbc cell (gd_com Rops (gdata_of Rops s gi)) (gd_com Rops (gdata_of Rops s gj))) <> 0 ->
  cvc_grad_correct cell (mkCvc co e (KDistance pbc) [gi; gj]) s.
Proof.
  intros Hi Hj Mi Mj gi gj Himg Hne.
  apply cvc_grad_correct_distance; try assumption.
  - unfold grp_ok, wf_group, group_mass_ok, fit_on, ids_ok, gi. cbn [fit_ids map]. repeat split; try discriminate.
    + intros x [<-|[]]. exact Hi.
    + intros x [<-|[]]. exact Hi.
    + rewrite tsum_cons, tsum_nil. intros H. apply Mi. lra.
  - unfold grp_ok, wf_group, group_mass_ok, fit_on, ids_ok, gj. cbn [fit_ids map]. repeat split; try discriminate.
    + intros x [<-|[]]. exact Hj.
    + intros x [<-|[]]. exact Hj.
    + rewrite tsum_cons, tsum_nil. intros H. apply Mj. lra.
Qed.

(* qopt_ok is inhabited: with an all-zero reference every unit quaternion is optimal (rotations preserve norms) *)
Lemma qrot_norm2 (q : Q4) (v : V3) : v3norm2 Rops (qrot Rops q v) = qn2 q * qn2 q * v3norm2 Rops v.
Proof.
  destruct q as [[[q0 q1] q2] q3], v as [[x y] z].
  unfold qrot, qn2, v3norm2, v3dot, tw, ofnat. cbn [nadd nsub nmul nofZ Rops]. change (IZR (Z.of_nat 2)) with 2. ring.
Qed.
Lemma sqdev_zero_ref (q : Q4) (Y Z : list V3) : (forall r, In r Z -> r = vzero Rops) ->
  sqdev q (combine Y Z) = qn2 q * qn2 q * tsum Rops (map (fun yr => v3norm2 Rops (fst yr)) (combine Y Z)).
Proof.
  unfold sqdev, rdev. revert Z. induction Y as [|y Y IH]; intros Z HZ; destruct Z as [|r Z']; cbn [combine map]; rewrite ?tsum_nil; try ring.
  rewrite !tsum_cons, IH by (intros r0 Hr; apply HZ; right; exact Hr). cbn [fst snd].
  rewrite (HZ r (or_introl eq_refl)).
  replace (v3sub Rops (qrot Rops q y) (vzero Rops)) with (qrot Rops q y) by (apply v3_ext; intros j; rewrite vget_sub, vget_zero; ring).
  rewrite qrot_norm2. ring.
Qed.
Lemma ex_qopt : qopt_ok [vzero Rops; vzero Rops; vzero Rops] (fun _ => (1, 0, 0, 0)).
Proof.
  intros Y prs.
  assert (HZ : forall r, In r (centred Rops [vzero Rops; vzero Rops; vzero Rops]) -> r = vzero Rops).
  { intros r Hr. unfold centred in Hr. cbn [map length] in Hr.
    assert (E : v3sub Rops (vzero Rops) (vdiv Rops (vsum Rops [vzero Rops; vzero Rops; vzero Rops]) (ofnat Rops 3)) = vzero Rops).
    { apply v3_ext. intros j. rewrite vget_sub, vget_div, vget_vsum. cbn [map]. rewrite !tsum_cons, tsum_nil, !vget_zero.
      unfold ofnat. cbn [nofZ Rops]. change (IZR (Z.of_nat 3)) with 3. field. }
    rewrite E in Hr. destruct Hr as [<-|[<-|[<-|[]]]]; reflexivity. }
  split; [cbn; ring|]. intros q' Hq'. unfold prs. rewrite !sqdev_zero_ref by exact HZ. rewrite Hq'. cbn [qn2]. 
  replace (1 * 1 + 0 * 0 + 0 * 0 + 0 * 0) with 1 by ring. lra.
Qed.
