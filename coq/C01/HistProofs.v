(* Force correctness of histogramRestraint (colvarbias_restraint_histogram::update), R instance.
   E = 1/2 k n sum_g (p_g - ref_g)^2 with p_g = sum_{v in vs} norm exp(-(x_g - x_v)^2 / (2 sigma^2));
   force on variable w = sum_{i in vs, i = w} sum_g k n (p_g - ref_g) G_g(x_w) (-(x_g - x_w) / sigma^2). *)
From Coq Require Import ZArith List Bool Reals Lra Lia.
From Coquelicot Require Import Coquelicot.
From CV Require Import Base.Num Base.RNum C18.ValueModel C06.RestraintModel C01.ForceModel C01.ForceProofs C01.PolarProofs.
Import ListNotations.
Local Open Scope R_scope.

Lemma tsum_if_factor (l : list nat) (w : nat) (X : R) :
  tsum Rops (map (fun i => if Nat.eqb i w then X else 0) l) = tsum Rops (map (fun i => if Nat.eqb i w then 1 else 0) l) * X.
Proof.
  induction l as [|a l IH]; [cbn; ring|]. cbn [map]. rewrite !tsum_cons, IH. destruct (Nat.eqb a w); ring.
Qed.

Lemma bias_force_correct_hist k norm sigma grid vs ws x0 :
  sigma <> 0 -> (forall v, In v vs -> (v < length ws)%nat) ->
  bias_force_correct (BHist k norm sigma grid vs) ws x0.
Proof.
  intros Hs Hvs xs dxs t0 Hx0 Hp. cbn [bias_energy bias_force].
  set (n := length ws).
  set (cnt := fun w : nat => tsum Rops (map (fun i => if Nat.eqb i w then 1 else 0) vs)).
  set (B := fun (xg : R) (w : nat) => hist_gauss Rops norm sigma xg (xat Rops x0 w) * (- (1) * (xg - xat Rops x0 w) / (sigma * sigma))).
  (* the histogram at one grid point along the path *)
  assert (HP : forall xg, is_derive (fun t => hist_p Rops norm sigma (xs t) vs xg) t0
                 (- tsum Rops (map (fun w => cnt w * B xg w * xat Rops dxs w) (seq 0 n)))).
  { intros xg. unfold hist_p.
    pose proof (separable_correct vs (fun v => v) (fun _ x => hist_gauss Rops norm sigma xg x)
                  (fun _ w x => hist_gauss Rops norm sigma xg x * (- (1) * (xg - x) / (sigma * sigma))) n x0 Hvs) as HS.
    evar_last.
    - apply HS; [|exact Hx0|exact Hp]. intros a _. evar_last; [apply hist_gauss_derive; exact Hs|]. field. exact Hs.
    - f_equal. apply tsum_ext. intros w _. unfold cnt, B. rewrite (tsum_if_factor vs w). ring. }
  set (P0 := fun xg => hist_p Rops norm sigma x0 vs xg).
  set (c := hf Rops * (k * ofnat Rops (length vs))).
  evar_last.
  - apply (is_derive_scal (fun t => tsum Rops (map (fun gr => (hist_p Rops norm sigma (xs t) vs (fst gr) - snd gr) * (hist_p Rops norm sigma (xs t) vs (fst gr) - snd gr)) grid)) t0 c).
    apply (is_derive_tsum (fun gr t => (hist_p Rops norm sigma (xs t) vs (fst gr) - snd gr) * (hist_p Rops norm sigma (xs t) vs (fst gr) - snd gr))
             (fun gr => 2 * (P0 (fst gr) - snd gr) * (- tsum Rops (map (fun w => cnt w * B (fst gr) w * xat Rops dxs w) (seq 0 n))))).
    intros gr _. evar_last.
    + apply (Derive.is_derive_mult (fun t => hist_p Rops norm sigma (xs t) vs (fst gr) - snd gr) (fun t => hist_p Rops norm sigma (xs t) vs (fst gr) - snd gr));
        [apply is_derive_minus_const; apply HP|apply is_derive_minus_const; apply HP].
    + rewrite Hx0. fold (P0 (fst gr)). unfold plus, mult; cbn. ring.
  - (* the two double sums agree *)
    unfold scal; cbn [scal]. unfold mult; cbn [mult]. unfold c, hf, nhalf, ofnat. cbn [ndiv nmul nofZ n1 Rops].
    fold n.
    set (K := k * IZR (Z.of_nat (length vs))).
    set (f := fun (gr : R * R) (w : nat) => (K * (P0 (fst gr) - snd gr)) * (cnt w * B (fst gr) w * xat Rops dxs w)).
    transitivity (- tsum Rops (map (fun gr => tsum Rops (map (fun w => f gr w) (seq 0 n))) grid)).
    { rewrite <- tsum_scale'. rewrite <- (Rmult_1_l (tsum Rops (map (fun gr => tsum Rops (map (fun w => f gr w) (seq 0 n))) grid))), Ropp_mult_distr_l.
      rewrite <- (tsum_scale' (- (1))). apply tsum_ext. intros gr _. unfold f. rewrite tsum_scale'. field. }
    rewrite tsum_swap. f_equal. apply tsum_ext. intros w _.
    unfold zero; cbn [n0 Rops]. rewrite (tsum_if_factor vs w). fold (cnt w).
    transitivity (cnt w * (tsum Rops (map (fun gr => (K * (P0 (fst gr) - snd gr)) * B (fst gr) w) grid) * xat Rops dxs w)).
    { rewrite (Rmult_comm _ (xat Rops dxs w)), <- !tsum_scale'. apply tsum_ext. intros gr _. unfold f. ring. }
    rewrite <- Rmult_assoc. f_equal. f_equal. apply tsum_ext. intros gr _. unfold B, K, mone, one. cbn [nmul nsub ndiv nneg n1 Rops]. field. exact Hs.
Qed.

(* ------------------------------------------------------------------ the closed statement with histogramRestraint *)
Definition bias_guard_w (b : bias) (ws : list cvar) (x0 : list R) : Prop :=
  match b with
  | BHist k norm sigma grid vs => sigma <> 0 /\ (forall v, In v vs -> (v < length ws)%nat)
  | _ => bias_guard b ws x0
  end.
Lemma bias_guard_w_ok b ws x0 : bias_guard_w b ws x0 -> bias_force_correct b ws x0.
Proof.
  destruct b as [k cs|k lk uk hl hu l|k cs|hs|k dec v ref|k norm sigma grid vs]; cbn [bias_guard_w];
    try (intros H; apply bias_guard_ok; exact H).
  intros [Hs Hv]. apply bias_force_correct_hist; assumption.
Qed.
Lemma bias_guard_widen b ws x0 : bias_guard b ws x0 -> bias_guard_w b ws x0.
Proof. destruct b; cbn [bias_guard_w bias_guard]; auto. contradiction. Qed.

Theorem forces_are_minus_gradient_ww (cf : config) (s : SYS) :
  (forall v c, In v (cf_vars cf) -> In c (cv_cvcs v) -> cvc_guard_w (cf_cell cf) c s) ->
  (forall b, In b (cf_biases cf) -> bias_guard_w b (cf_vars cf) (var_values Rops PI cf s)) ->
  forall a k, (a < length s)%nat ->
    is_derive (fun t => energy Rops PI cf (set_coord s a k t)) (coord Rops s a k)
              (- vget k (nth a (forces Rops PI cf s) (vzero Rops))).
Proof.
  intros Hc Hb a k Ha. rewrite forces_nth by exact Ha. apply chain_rule.
  - intros v c Hv Hin. apply cvc_guard_w_ok. apply (Hc v c Hv Hin).
  - intros b Hin. apply bias_guard_w_ok. apply (Hb b Hin).
Qed.

Lemma ex_guards_ww :
  (forall v c, In v (cf_vars ex_cf) -> In c (cv_cvcs v) -> cvc_guard_w (cf_cell ex_cf) c ex_sys) /\
  (forall b, In b (cf_biases ex_cf) -> bias_guard_w b (cf_vars ex_cf) (var_values Rops PI ex_cf ex_sys)).
Proof. destruct ex_guards_w as [H1 H2]. split; [exact H1|]. intros b Hb. apply bias_guard_widen. apply (H2 b Hb). Qed.

Lemma ex_hist_guard : bias_guard_w (BHist 10 (1 / 2) 1 [(0, 1 / 4); (2, 1 / 8)] [0%nat]) [mkCvar 1 false 0 []] [3].
Proof. cbn [bias_guard_w]. split; [lra|]. intros v [<-|[]]. cbn. lia. Qed.
