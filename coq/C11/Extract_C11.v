From Coq Require Import Extraction ExtrOcamlBasic.
From CV Require Import C11.MemStreamModel C11.CrashModel C11.StateReadModel C11.BinReadModel.
Extraction Language OCaml.
Extraction "model.ml" empty_stream input_stream run_op read_vector_into output good blen DEFAULT_MAX le64 enc_all read_items write_items
  history session history_w session_w W_restart W_bias W_replica start empty_fs safe complete mkS
  load_c mkB load_bin_c mkBB.
