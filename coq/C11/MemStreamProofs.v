(* C11 (a): lemmas about the memory_stream model. *)
From Coq Require Import NArith List Bool Lia Arith.
From CV Require Import C11.MemStreamModel.
Import ListNotations.
Open Scope N_scope.

(* ---------------------------------------------------------------- lists *)
Lemma blen_app {A} (a b : list A) : blen (a ++ b) = blen a + blen b.
Proof. unfold blen. rewrite app_length. lia. Qed.

Lemma blen_nil {A} : blen (@nil A) = 0.
Proof. reflexivity. Qed.

Lemma to_nat_blen {A} (a : list A) : N.to_nat (blen a) = length a.
Proof. unfold blen. apply Nat2N.id. Qed.

Lemma firstn_exact {A} (a r : list A) : firstn (length a) (a ++ r) = a.
Proof. induction a as [|x a IH]; cbn [length firstn app]; [destruct r; reflexivity | now rewrite IH]. Qed.

Lemma skipn_exact {A} (a r : list A) : skipn (length a) (a ++ r) = r.
Proof. induction a as [|x a IH]; cbn [length skipn app]; [reflexivity | exact IH]. Qed.

Lemma firstn_short {A} (n : nat) (a : list A) : (length a <= n)%nat -> firstn n a = a.
Proof. apply firstn_all2. Qed.

Lemma skipn_repeat {A} (x : A) (n k : nat) : skipn n (repeat x k) = repeat x (k - n).
Proof.
  revert k. induction n as [|n IH]; intros k.
  - now rewrite Nat.sub_0_r.
  - destruct k as [|k]; cbn [repeat skipn Nat.sub]; [reflexivity | apply IH].
Qed.

(* ---------------------------------------------------------------- 64-bit arithmetic *)
Lemma W64_pos : 0 < W64. Proof. reflexivity. Qed.

Lemma w64_small x : x < W64 -> w64 x = x.
Proof. intros H. unfold w64. now apply N.mod_small. Qed.

Lemma wsub_ok a b : b <= a -> a < W64 -> wsub a b = a - b.
Proof.
  intros Hb Ha. unfold wsub. rewrite (N.mod_small b) by lia.
  replace (a + W64 - b) with ((a - b) + 1 * W64) by lia.
  rewrite N.mod_add by (unfold W64; lia). apply N.mod_small. lia.
Qed.

Lemma le_bytes_length k n : length (le_bytes k n) = k.
Proof. revert n. induction k as [|k IH]; intros n; cbn [le_bytes length]; [reflexivity | now rewrite IH]. Qed.

Lemma of_le_le_bytes k n : of_le (le_bytes k n) = n mod 256 ^ N.of_nat k.
Proof.
  revert n. induction k as [|k IH]; intros n.
  - cbn [le_bytes of_le N.of_nat]. now rewrite N.pow_0_r, N.mod_1_r.
  - cbn [le_bytes of_le]. rewrite IH.
    replace (N.of_nat (S k)) with (N.succ (N.of_nat k)) by lia.
    rewrite N.pow_succ_r by lia.
    rewrite N.mod_mul_r; [reflexivity | lia | apply N.pow_nonzero; lia].
Qed.

Lemma le64_length n : length (le64 n) = 8%nat.
Proof. apply le_bytes_length. Qed.

Lemma blen_le64 n : blen (le64 n) = 8.
Proof. unfold blen. now rewrite le64_length. Qed.

Lemma of_le_le64 n : n < W64 -> of_le (le64 n) = n.
Proof.
  intros H. unfold le64. rewrite of_le_le_bytes.
  change (256 ^ N.of_nat 8) with W64. now apply N.mod_small.
Qed.

(* ---------------------------------------------------------------- memcpy lemmas *)
Lemma blit_fresh (b src : list byte) (k : nat) : (length src <= k)%nat ->
  blit (b ++ repeat 0 k) (blen b) src = ((b ++ src) ++ repeat 0 (k - length src), false).
Proof.
  intros H. unfold blit. rewrite to_nat_blen.
  rewrite app_length, repeat_length.
  replace (length b + k - length b)%nat with k by lia.
  rewrite (firstn_short k src H).
  rewrite firstn_exact.
  rewrite skipn_app. rewrite skipn_all2 by lia.
  replace (length b + length src - length b)%nat with (length src) by lia.
  rewrite skipn_repeat. cbn [app].
  f_equal; [now rewrite <- app_assoc|].
  apply Nat.leb_le in H. now rewrite H.
Qed.

Lemma slice_mid (b1 x b2 : list byte) :
  slice (b1 ++ x ++ b2) (blen b1) (blen x) = (x, false).
Proof.
  unfold slice. rewrite !to_nat_blen. rewrite skipn_exact, firstn_exact.
  rewrite Nat.sub_diag. cbn [repeat]. rewrite app_nil_r. f_equal.
  rewrite !blen_app.
  replace (blen b1 + blen x <=? blen b1 + (blen x + blen b2)) with true; [reflexivity|].
  symmetry. apply N.leb_le. lia.
Qed.

Lemma resize_grow (b : list byte) (add : N) :
  resize b (blen b + add) = b ++ repeat 0 (N.to_nat add).
Proof.
  unfold resize. rewrite N2Nat.inj_add, to_nat_blen.
  rewrite firstn_short by lia. f_equal. f_equal. lia.
Qed.

(* ---------------------------------------------------------------- writes on a well-formed stream *)
(* a well-formed output stream: cursor at the end of the buffer, no error, nothing out of bounds *)
Definition wst (b : list byte) (mx p : N) : mstream := mkMS b (blen b) mx false false false p false.

Lemma expand_wst b mx p add : blen b + add <= mx -> blen b + add < W64 ->
  expand (wst b mx p) add = (mkMS (b ++ repeat 0 (N.to_nat add)) (blen b) mx false false false p false, true).
Proof.
  intros H1 H2. unfold expand, wst. cbn [ms_buf ms_max ms_len ms_eof ms_fail ms_bad ms_pos ms_oob].
  rewrite (w64_small _ H2).
  replace (blen b + add <=? mx) with true by (symmetry; apply N.leb_le; lia).
  rewrite resize_grow. reflexivity.
Qed.

Lemma put_fresh (b : list byte) k mx p (src : list byte) : (length src <= k)%nat -> blen b + blen src < W64 ->
  put (mkMS (b ++ repeat 0 k) (blen b) mx false false false p false) src (blen src)
  = mkMS ((b ++ src) ++ repeat 0 (k - length src)) (blen (b ++ src)) mx false false false p false.
Proof.
  intros H1 H2. unfold put. cbn [ms_buf ms_max ms_len ms_eof ms_fail ms_bad ms_pos ms_oob].
  rewrite (blit_fresh b src k H1). rewrite (w64_small _ H2). rewrite blen_app. reflexivity.
Qed.

Lemma write_object_wst b mx p x : blen b + blen x <= mx -> blen b + blen x < W64 ->
  write_object (wst b mx p) x = wst (b ++ x) mx p.
Proof.
  intros H1 H2. unfold write_object. rewrite (expand_wst b mx p (blen x) H1 H2).
  rewrite to_nat_blen. rewrite put_fresh by (auto; lia).
  rewrite Nat.sub_diag. cbn [repeat]. now rewrite app_nil_r.
Qed.

Lemma write_string_wst b mx p x : blen b + (8 + blen x) <= mx -> blen b + (8 + blen x) < W64 ->
  write_string (wst b mx p) x = wst (b ++ le64 (blen x) ++ x) mx p.
Proof.
  intros H1 H2. unfold write_string.
  rewrite (w64_small (8 + blen x)) by lia.
  rewrite (expand_wst b mx p _ H1 H2).
  rewrite <- (blen_le64 (blen x)) at 2.
  rewrite put_fresh; [| rewrite le64_length; lia | rewrite blen_le64; lia].
  rewrite put_fresh; [| rewrite le64_length; unfold blen; lia | rewrite blen_app, blen_le64; lia].
  rewrite le64_length.
  replace (N.to_nat (8 + blen x) - 8 - length x)%nat with 0%nat by (unfold blen; lia).
  cbn [repeat]. rewrite app_nil_r. now rewrite <- app_assoc.
Qed.

Lemma blen_concat sz (es : list (list byte)) : Forall (fun e => blen e = sz) es ->
  blen (concat es) = sz * blen es.
Proof.
  induction 1 as [|e es He Hes IH]; cbn [concat]; [unfold blen; cbn; lia|].
  rewrite blen_app, IH, He. unfold blen. cbn [length]. lia.
Qed.

Lemma write_vector_wst b mx p sz es : Forall (fun e => blen e = sz) es ->
  blen b + (8 + sz * blen es) <= mx -> blen b + (8 + sz * blen es) < W64 ->
  write_vector (wst b mx p) sz es = wst (b ++ le64 (blen es) ++ concat es) mx p.
Proof.
  intros Hes H1 H2. unfold write_vector.
  pose proof (blen_concat sz es Hes) as Hc.
  rewrite (w64_small (sz * blen es)) by lia.
  rewrite (w64_small (8 + sz * blen es)) by lia.
  rewrite (expand_wst b mx p _ H1 H2).
  replace (put (mkMS (b ++ repeat 0 (N.to_nat (8 + sz * blen es))) (blen b) mx false false false p false) (le64 (blen es)) 8)
    with (put (mkMS (b ++ repeat 0 (N.to_nat (8 + sz * blen es))) (blen b) mx false false false p false) (le64 (blen es)) (blen (le64 (blen es))))
    by (now rewrite blen_le64).
  rewrite put_fresh; [| rewrite le64_length; lia | rewrite blen_le64; lia].
  rewrite (w64_small (blen es * sz)) by lia.
  replace (blen es * sz) with (blen (concat es)) by lia.
  rewrite put_fresh; [| rewrite le64_length; unfold blen in *; lia | rewrite blen_app, blen_le64; lia].
  rewrite le64_length.
  replace (N.to_nat (8 + sz * blen es) - 8 - length (concat es))%nat with 0%nat by (unfold blen in *; lia).
  cbn [repeat]. rewrite app_nil_r. now rewrite <- app_assoc.
Qed.

Lemma blen_enc_vec sz es : Forall (fun e => blen e = sz) es -> blen (enc (IVec sz es)) = 8 + sz * blen es.
Proof. intros H. cbn [enc]. now rewrite blen_app, blen_le64, (blen_concat sz es H). Qed.

Lemma write_item_wst b mx p i : item_ok i ->
  blen b + blen (enc i) <= mx -> blen b + blen (enc i) < W64 ->
  write_item (wst b mx p) i = wst (b ++ enc i) mx p.
Proof.
  destruct i as [x|x|sz es]; cbn [item_ok write_item enc]; intros Hok H1 H2.
  - now apply write_object_wst.
  - rewrite blen_app, blen_le64 in H1, H2. now apply write_string_wst.
  - destruct Hok as (_ & Hes & _).
    rewrite blen_app, blen_le64, (blen_concat sz es Hes) in H1, H2.
    now apply write_vector_wst.
Qed.

Lemma enc_all_cons i l : enc_all (i :: l) = enc i ++ enc_all l.
Proof. reflexivity. Qed.

Lemma write_items_wst l : forall b mx p, Forall item_ok l ->
  blen b + blen (enc_all l) <= mx -> blen b + blen (enc_all l) < W64 ->
  write_items (wst b mx p) l = wst (b ++ enc_all l) mx p.
Proof.
  induction l as [|i l IH]; intros b mx p Hok H1 H2.
  - cbn [write_items fold_left enc_all map concat]. now rewrite app_nil_r.
  - inversion Hok as [|? ? Hi Hl]; subst.
    rewrite enc_all_cons, blen_app in H1, H2.
    unfold write_items. cbn [fold_left]. fold (write_items (write_item (wst b mx p) i) l).
    rewrite write_item_wst by (auto; lia).
    rewrite IH by (auto; rewrite blen_app; lia).
    rewrite enc_all_cons. now rewrite <- app_assoc.
Qed.

Lemma output_wst b mx p : output (wst b mx p) = (b, false).
Proof.
  unfold output, wst. cbn [ms_buf ms_len].
  pose proof (slice_mid [] b []) as H. cbn [app] in H. rewrite app_nil_r in H. exact H.
Qed.

Ltac bl := rewrite ?blen_app, ?blen_le64 in *; try lia; try nia.

(* ---------------------------------------------------------------- reads *)
(* an input stream positioned at p, with arbitrary previous error bits *)
Definition rst (buf : list byte) (mx : N) (e f bd : bool) (p : N) (o : bool) : mstream :=
  mkMS buf (blen buf) mx e f bd p o.

Lemma has_remaining_rst buf mx e f bd p o c : p <= blen buf -> blen buf < W64 ->
  has_remaining (rst buf mx e f bd p o) c = (c <=? blen buf - p).
Proof. intros H1 H2. unfold has_remaining, rst. cbn [ms_len ms_pos]. now rewrite wsub_ok. Qed.

Lemma rem_rst buf mx e f bd p o : p <= blen buf -> blen buf < W64 ->
  wsub (ms_len (rst buf mx e f bd p o)) (ms_pos (rst buf mx e f bd p o)) = blen buf - p.
Proof. intros H1 H2. unfold rst. cbn [ms_len ms_pos]. now rewrite wsub_ok. Qed.

Lemma take_mid b1 x b2 mx e f bd o n : n = blen x -> blen (b1 ++ x ++ b2) < W64 ->
  take (rst (b1 ++ x ++ b2) mx e f bd (blen b1) o) n
  = (x, rst (b1 ++ x ++ b2) mx e f bd (blen (b1 ++ x)) o).
Proof.
  intros -> H. unfold take, rst. cbn [ms_buf ms_len ms_max ms_eof ms_fail ms_bad ms_pos ms_oob].
  rewrite slice_mid. rewrite orb_false_r. rewrite w64_small; [now rewrite !blen_app|].
  rewrite !blen_app in H. lia.
Qed.

Lemma begin_rst buf mx e f bd p o : begin_reading (rst buf mx e f bd p o) = rst buf mx true f bd p o.
Proof. reflexivity. Qed.
Lemma done_rst buf mx e f bd p o : done_reading (rst buf mx e f bd p o) = rst buf mx false false false p o.
Proof. reflexivity. Qed.

Lemma read_object_mid b1 x b2 mx e f bd o : blen (b1 ++ x ++ b2) < W64 ->
  read_object (rst (b1 ++ x ++ b2) mx e f bd (blen b1) o) (blen x)
  = (RBytes x, rst (b1 ++ x ++ b2) mx false false false (blen (b1 ++ x)) o).
Proof.
  intros H. unfold read_object. rewrite begin_rst.
  rewrite has_remaining_rst by bl.
  replace (blen x <=? blen (b1 ++ x ++ b2) - blen b1) with true
    by (symmetry; apply N.leb_le; bl).
  rewrite (take_mid b1 x b2 mx true f bd o (blen x) eq_refl H). now rewrite done_rst.
Qed.

Lemma read_string_mid b1 x b2 mx e f bd o : blen (b1 ++ enc (IStr x) ++ b2) < W64 ->
  read_string (rst (b1 ++ enc (IStr x) ++ b2) mx e f bd (blen b1) o)
  = (RBytes x, rst (b1 ++ enc (IStr x) ++ b2) mx false false false (blen (b1 ++ enc (IStr x))) o).
Proof.
  cbn [enc]. intros H. unfold read_string. rewrite begin_rst.
  assert (Hl : blen b1 + 8 + blen x + blen b2 < W64) by (rewrite !blen_app, blen_le64 in H; lia).
  rewrite has_remaining_rst by bl.
  replace (8 <=? _) with true by (symmetry; apply N.leb_le; bl).
  rewrite <- (app_assoc (le64 (blen x)) x b2).
  rewrite (take_mid b1 (le64 (blen x)) (x ++ b2) mx true f bd o 8) by bl.
  rewrite of_le_le64 by lia.
  rewrite has_remaining_rst by bl.
  replace (blen x <=? _) with true by (symmetry; apply N.leb_le; bl).
  rewrite (app_assoc b1 (le64 (blen x)) (x ++ b2)).
  rewrite (take_mid (b1 ++ le64 (blen x)) x b2 mx true f bd o (blen x)) by bl.
  rewrite done_rst. rewrite <- !app_assoc. reflexivity.
Qed.

Lemma chunks_concat (k : nat) (es : list (list byte)) : Forall (fun e => length e = k) es ->
  chunks (length es) k (concat es) = es.
Proof.
  induction 1 as [|e es He Hes IH]; cbn [length chunks concat]; [reflexivity|].
  subst k. rewrite firstn_exact, skipn_exact. now rewrite IH.
Qed.

Lemma read_vector_mid sz es b1 b2 mx e f bd o :
  item_ok (IVec sz es) -> blen (b1 ++ enc (IVec sz es) ++ b2) < W64 ->
  read_vector (rst (b1 ++ enc (IVec sz es) ++ b2) mx e f bd (blen b1) o) sz
  = (RVec es, rst (b1 ++ enc (IVec sz es) ++ b2) mx false false false (blen (b1 ++ enc (IVec sz es))) o).
Proof.
  intros (Hsz & Hes & Hmax) H. cbn [enc] in *. unfold read_vector. rewrite begin_rst.
  pose proof (blen_concat sz es Hes) as Hc.
  assert (Hl : blen b1 + 8 + sz * blen es + blen b2 < W64) by (rewrite !blen_app, blen_le64 in H; lia).
  rewrite has_remaining_rst by bl.
  replace (8 <=? _) with true by (symmetry; apply N.leb_le; bl).
  rewrite <- (app_assoc (le64 (blen es)) (concat es) b2).
  rewrite (take_mid b1 (le64 (blen es)) (concat es ++ b2) mx true f bd o 8) by bl.
  rewrite of_le_le64 by nia.
  rewrite (w64_small (blen es * sz)) by lia.
  rewrite rem_rst by bl.
  replace (blen es <=? _ / sz) with true
    by (symmetry; apply N.leb_le; apply N.div_le_lower_bound; bl).
  replace (max_elems sz <? blen es) with false.
  2:{ symmetry. apply N.ltb_ge. unfold max_elems. apply N.div_le_lower_bound; lia. }
  rewrite (app_assoc b1 (le64 (blen es)) (concat es ++ b2)).
  rewrite (take_mid (b1 ++ le64 (blen es)) (concat es) b2 mx true f bd o (blen es * sz)) by bl.
  rewrite done_rst. rewrite <- !app_assoc.
  f_equal. f_equal. unfold blen at 1. rewrite Nat2N.id.
  apply chunks_concat. eapply Forall_impl; [|exact Hes].
  intros a Ha. cbn beta in Ha. unfold blen in Ha. lia.
Qed.

Lemma read_shape_mid i b1 b2 mx e f bd o : item_ok i -> blen (b1 ++ enc i ++ b2) < W64 ->
  exists res, read_shape (rst (b1 ++ enc i ++ b2) mx e f bd (blen b1) o) (shape_of i)
              = (res, rst (b1 ++ enc i ++ b2) mx false false false (blen (b1 ++ enc i)) o)
              /\ item_of (shape_of i) res = Some i.
Proof.
  intros Hok H. destruct i as [x|x|sz es]; cbn [shape_of read_shape].
  - exists (RBytes x). split; [now apply read_object_mid | reflexivity].
  - exists (RBytes x). split; [now apply read_string_mid | reflexivity].
  - exists (RVec es). split; [now apply read_vector_mid | reflexivity].
Qed.

Lemma read_items_mid l : forall b1 b2 mx o, Forall item_ok l -> blen (b1 ++ enc_all l ++ b2) < W64 ->
  read_items (rst (b1 ++ enc_all l ++ b2) mx false false false (blen b1) o) (map shape_of l)
  = (l, rst (b1 ++ enc_all l ++ b2) mx false false false (blen (b1 ++ enc_all l)) o, true).
Proof.
  induction l as [|i l IH]; intros b1 b2 mx o Hok H.
  - cbn [map read_items enc_all concat app]. now rewrite app_nil_r.
  - inversion Hok as [|? ? Hi Hl]; subst.
    cbn [map read_items]. rewrite enc_all_cons in *. rewrite <- (app_assoc (enc i)) in *.
    destruct (read_shape_mid i b1 (enc_all l ++ b2) mx false false false o Hi H) as (res & Hr & Hit).
    rewrite Hr, Hit.
    rewrite (app_assoc b1 (enc i)) in *.
    rewrite (IH (b1 ++ enc i) b2 mx o Hl H).
    now rewrite <- !app_assoc.
Qed.

(* ---------------------------------------------------------------- the round trip *)
Lemma stream_roundtrip l mx : Forall item_ok l ->
  blen (enc_all l) <= mx -> blen (enc_all l) < W64 ->
  let w := write_items (empty_stream mx) l in
  output w = (enc_all l, false) /\ good w = true /\ ms_oob w = false /\
  exists s', read_items (input_stream (fst (output w))) (map shape_of l) = (l, s', true)
             /\ good s' = true /\ ms_pos s' = ms_len s' /\ ms_oob s' = false.
Proof.
  intros Hok H1 H2 w.
  assert (Hw : w = wst (enc_all l) mx 0).
  { unfold w. change (empty_stream mx) with (wst [] mx 0).
    rewrite write_items_wst by (auto; rewrite blen_nil; lia). reflexivity. }
  rewrite Hw, output_wst. repeat split; try reflexivity.
  cbn [fst].
  pose proof (read_items_mid l [] [] (blen (enc_all l)) false Hok) as Hr.
  cbn [app] in Hr. rewrite app_nil_r in Hr. specialize (Hr H2).
  eexists. split; [exact Hr|]. repeat split; reflexivity.
Qed.

(* ---------------------------------------------------------------- truncation *)
Lemma prefix_split {A} (a b p x : list A) : a ++ b = p ++ x -> (length a <= length p)%nat ->
  exists l, p = a ++ l /\ b = l ++ x.
Proof.
  revert p. induction a as [|h a IH]; intros p H Hl.
  - exists p. split; [reflexivity | exact H].
  - destruct p as [|h' p]; [cbn in Hl; lia|].
    cbn [app] in H. inversion H as [[Hh Ht]]. subst h'.
    destruct (IH p Ht) as (l & Hp & Hb); [cbn in Hl; lia|].
    exists l. split; [now rewrite Hp | exact Hb].
Qed.

Lemma blen_pos_nonnil {A} (x : list A) : x <> [] -> 0 < blen x.
Proof. destruct x; [congruence | intros _; unfold blen; cbn [length]; lia]. Qed.

Definition failed (s : mstream) (o : bool) : Prop := good s = false /\ ms_oob s = o.

Lemma read_object_trunc b1 p x' mx o : x' <> [] -> blen (b1 ++ p) < W64 ->
  exists s', read_object (rst (b1 ++ p) mx false false false (blen b1) o) (blen (p ++ x')) = (RNone, s')
             /\ failed s' o.
Proof.
  intros Hx H. apply blen_pos_nonnil in Hx. unfold read_object. rewrite begin_rst.
  rewrite has_remaining_rst by bl.
  replace (blen (p ++ x') <=? _) with false by (symmetry; apply N.leb_gt; bl).
  eexists. split; [reflexivity|]. split; reflexivity.
Qed.

Lemma read_string_trunc b b1 p x' mx o : item_ok (IStr b) -> enc (IStr b) = p ++ x' -> x' <> [] ->
  blen (b1 ++ p) < W64 ->
  exists s', read_string (rst (b1 ++ p) mx false false false (blen b1) o) = (RNone, s') /\ failed s' o.
Proof.
  cbn [item_ok enc]. intros Hok He Hx H. apply blen_pos_nonnil in Hx.
  unfold read_string. rewrite begin_rst. rewrite has_remaining_rst by bl.
  destruct (8 <=? blen (b1 ++ p) - blen b1) eqn:E8.
  2:{ eexists. split; [reflexivity|]. split; reflexivity. }
  apply N.leb_le in E8.
  destruct (prefix_split _ _ _ _ He) as (l & Hp & Hb).
  { rewrite le64_length. unfold blen in E8. rewrite app_length in E8. lia. }
  subst p b.
  rewrite (take_mid b1 (le64 (blen (l ++ x'))) l mx true false false o 8) by bl.
  rewrite of_le_le64 by lia.
  rewrite has_remaining_rst by bl.
  replace (blen (l ++ x') <=? _) with false by (symmetry; apply N.leb_gt; bl).
  eexists. split; [reflexivity|]. split; reflexivity.
Qed.

Lemma read_vector_trunc sz es b1 p x' mx o : item_ok (IVec sz es) -> enc (IVec sz es) = p ++ x' -> x' <> [] ->
  blen (b1 ++ p) < W64 ->
  exists s', read_vector (rst (b1 ++ p) mx false false false (blen b1) o) sz = (RNone, s') /\ failed s' o.
Proof.
  cbn [item_ok enc]. intros (Hsz & Hes & Hmax) He Hx H. apply blen_pos_nonnil in Hx.
  pose proof (blen_concat sz es Hes) as Hc.
  unfold read_vector. rewrite begin_rst. rewrite has_remaining_rst by bl.
  destruct (8 <=? blen (b1 ++ p) - blen b1) eqn:E8.
  2:{ eexists. split; [reflexivity|]. split; reflexivity. }
  apply N.leb_le in E8.
  destruct (prefix_split _ _ _ _ He) as (l & Hp & Hb).
  { rewrite le64_length. unfold blen in E8. rewrite app_length in E8. lia. }
  subst p.
  assert (Hn : blen es < W64) by (unfold PTRDIFF_MAX, W64 in *; nia).
  assert (Hcl : blen es * sz = blen l + blen x') by (rewrite Hb, blen_app in Hc; lia).
  rewrite (take_mid b1 (le64 (blen es)) l mx true false false o 8) by bl.
  rewrite of_le_le64 by lia.
  rewrite rem_rst by bl.
  replace (blen es <=? _ / sz) with false
    by (symmetry; apply N.leb_gt; apply N.div_lt_upper_bound; bl).
  eexists. split; [reflexivity|]. split; reflexivity.
Qed.

Lemma read_shape_trunc i b1 p x' mx o : item_ok i -> enc i = p ++ x' -> x' <> [] -> blen (b1 ++ p) < W64 ->
  exists res s', read_shape (rst (b1 ++ p) mx false false false (blen b1) o) (shape_of i) = (res, s')
                 /\ item_of (shape_of i) res = None /\ failed s' o.
Proof.
  intros Hok He Hx H. destruct i as [x|x|sz es]; cbn [shape_of read_shape].
  - cbn [enc] in He. subst x. destruct (read_object_trunc b1 p x' mx o Hx H) as (s' & Hr & Hf).
    exists RNone, s'. auto.
  - destruct (read_string_trunc x b1 p x' mx o Hok He Hx H) as (s' & Hr & Hf). exists RNone, s'. auto.
  - destruct (read_vector_trunc sz es b1 p x' mx o Hok He Hx H) as (s' & Hr & Hf). exists RNone, s'. auto.
Qed.

Lemma read_items_trunc l : forall b1 p q mx o, Forall item_ok l -> enc_all l = p ++ q -> q <> [] ->
  blen (b1 ++ p) < W64 ->
  exists its rest s', read_items (rst (b1 ++ p) mx false false false (blen b1) o) (map shape_of l) = (its, s', false)
                 /\ failed s' o /\ l = its ++ rest.
Proof.
  induction l as [|i l IH]; intros b1 p q mx o Hok He Hq H.
  - cbn in He. symmetry in He. apply app_eq_nil in He. destruct He; congruence.
  - inversion Hok as [|? ? Hi Hl]; subst. rewrite enc_all_cons in He.
    cbn [map read_items].
    destruct (Nat.le_gt_cases (length (enc i)) (length p)) as [Hle|Hgt].
    + destruct (prefix_split _ _ _ _ He Hle) as (m & Hp & Hm). subst p.
      destruct (read_shape_mid i b1 m mx false false false o Hi H) as (res & Hr & Hit).
      rewrite Hr, Hit. rewrite app_assoc in H |- *.
      destruct (IH (b1 ++ enc i) m q mx o Hl Hm Hq H) as (its & rest & s' & Hri & Hf & Hlr).
      rewrite Hri. exists (i :: its), rest, s'. repeat split; try apply Hf. now rewrite Hlr.
    + symmetry in He. destruct (prefix_split _ _ _ _ He) as (m & Hp & Hm); [lia|].
      assert (Hmn : m <> []) by (intros ->; rewrite app_nil_r in Hp; rewrite Hp in Hgt; lia).
      destruct (read_shape_trunc i b1 p m mx o Hi Hp Hmn H) as (res & s' & Hr & Hit & Hf).
      rewrite Hr, Hit. exists [], (i :: l), s'. repeat split; try apply Hf.
Qed.

Lemma truncation_detected l p q : Forall item_ok l -> enc_all l = p ++ q -> q <> [] -> blen p < W64 ->
  exists its rest s', read_items (input_stream p) (map shape_of l) = (its, s', false)
                      /\ good s' = false /\ ms_oob s' = false /\ l = its ++ rest.
Proof.
  intros Hok He Hq H.
  destruct (read_items_trunc l [] p q (blen p) false Hok He Hq H) as (its & rest & s' & Hr & (Hg & Ho) & Hl).
  exists its, rest, s'. auto.
Qed.

(* ---------------------------------------------------------------- reads stay in bounds *)
Definition rinv (s : mstream) : Prop :=
  ms_len s = blen (ms_buf s) /\ ms_pos s <= ms_len s /\ ms_len s < W64 /\ ms_oob s = false.

Lemma rinv_state s e f b : rinv s -> rinv (set_state s e f b).
Proof. intros H. exact H. Qed.

Lemma has_remaining_inv s c : rinv s -> has_remaining s c = (c <=? ms_len s - ms_pos s).
Proof. intros (H1 & H2 & H3 & H4). unfold has_remaining. now rewrite wsub_ok. Qed.

Lemma take_inv s n : rinv s -> n <= ms_len s - ms_pos s ->
  rinv (snd (take s n)) /\ ms_pos (snd (take s n)) = ms_pos s + n
  /\ ms_buf (snd (take s n)) = ms_buf s /\ ms_len (snd (take s n)) = ms_len s.
Proof.
  intros (H1 & H2 & H3 & H4) Hn. unfold take, slice.
  cbn [snd ms_buf ms_len ms_max ms_eof ms_fail ms_bad ms_pos ms_oob].
  rewrite w64_small by lia. rewrite H4.
  replace (ms_pos s + n <=? blen (ms_buf s)) with true by (symmetry; apply N.leb_le; lia).
  unfold rinv. cbn [negb andb orb ms_buf ms_len ms_pos ms_oob]. repeat split; auto; lia.
Qed.

Lemma take_eq s n : take s n = (fst (take s n), snd (take s n)).
Proof. apply surjective_pairing. Qed.

Lemma read_object_inv s sz : rinv s -> rinv (snd (read_object s sz)).
Proof.
  intros H. unfold read_object.
  assert (H0 : rinv (begin_reading s)) by exact H.
  rewrite (has_remaining_inv _ sz H0).
  destruct (sz <=? _) eqn:E; cbn [snd]; [|exact H0].
  apply N.leb_le in E. rewrite take_eq. cbn [snd].
  apply rinv_state. now apply take_inv.
Qed.

Lemma read_string_inv s : rinv s -> rinv (snd (read_string s)).
Proof.
  intros H. unfold read_string.
  assert (H0 : rinv (begin_reading s)) by exact H.
  rewrite (has_remaining_inv _ 8 H0).
  destruct (8 <=? _) eqn:E; cbn [snd]; [|exact H0].
  apply N.leb_le in E. rewrite (take_eq (begin_reading s) 8).
  destruct (take_inv _ 8 H0 E) as (H1 & Hp & Hb & Hl).
  set (s1 := snd (take (begin_reading s) 8)) in *.
  rewrite (has_remaining_inv _ _ H1).
  destruct (_ <=? ms_len s1 - ms_pos s1) eqn:E2; cbn [snd].
  - apply N.leb_le in E2. rewrite take_eq. cbn [snd]. apply rinv_state. now apply take_inv.
  - exact H1.
Qed.

Lemma rem_inv s : rinv s -> wsub (ms_len s) (ms_pos s) = ms_len s - ms_pos s.
Proof. intros (H1 & H2 & H3 & H4). now rewrite wsub_ok. Qed.

(* n elements of sz bytes fit in rem bytes when n <= rem / sz: the product cannot wrap *)
Lemma elems_fit n sz rem : rem < W64 -> n <= rem / sz -> w64 (n * sz) = n * sz /\ n * sz <= rem.
Proof.
  intros Hr Hn. assert (H : n * sz <= rem).
  { destruct (N.eq_dec sz 0) as [->|Hz]; [lia|].
    pose proof (N.mul_div_le rem sz Hz). nia. }
  split; [apply w64_small; lia | exact H].
Qed.

Lemma read_vector_inv s sz : rinv s -> rinv (snd (read_vector s sz)).
Proof.
  intros H. unfold read_vector.
  assert (H0 : rinv (begin_reading s)) by exact H.
  rewrite (has_remaining_inv _ 8 H0).
  destruct (8 <=? _) eqn:E; cbn [snd]; [|exact H0].
  apply N.leb_le in E. rewrite (take_eq (begin_reading s) 8).
  destruct (take_inv _ 8 H0 E) as (H1 & Hp & Hb & Hl).
  set (s1 := snd (take (begin_reading s) 8)) in *.
  rewrite (rem_inv _ H1).
  destruct (_ <=? (ms_len s1 - ms_pos s1) / sz) eqn:E2; cbn [snd].
  - apply N.leb_le in E2. destruct (max_elems sz <? _); cbn [snd]; [exact H1|].
    assert (Hlt : ms_len s1 - ms_pos s1 < W64) by (destruct H1 as (_ & _ & Hw & _); lia).
    destruct (elems_fit _ _ _ Hlt E2) as [Hw Hfit].
    rewrite take_eq. cbn [snd]. apply rinv_state. apply take_inv; [exact H1 | now rewrite Hw].
  - exact H1.
Qed.

Lemma read_shape_inv s sh : rinv s -> rinv (snd (read_shape s sh)).
Proof.
  destruct sh; cbn [read_shape]; [apply read_object_inv | apply read_string_inv | apply read_vector_inv].
Qed.

Definition read_any (s : mstream) (l : list shape) : mstream :=
  fold_left (fun s sh => snd (read_shape s sh)) l s.

Lemma reads_in_bounds buf l : blen buf < W64 ->
  let s' := read_any (input_stream buf) l in
  ms_oob s' = false /\ ms_pos s' <= ms_len s' /\ ms_len s' = blen (ms_buf s').
Proof.
  intros H.
  assert (Hi : rinv (input_stream buf)).
  { unfold rinv, input_stream. cbn [ms_len ms_buf ms_pos ms_oob]. repeat split; auto. lia. }
  revert Hi. generalize (input_stream buf). induction l as [|sh l IH]; intros s Hs.
  - cbn. destruct Hs as (H1 & H2 & H3 & H4). auto.
  - cbn [read_any fold_left]. apply IH. now apply read_shape_inv.
Qed.

(* a read that delivers consumes exactly the bytes between the old and the new position *)
Lemma read_object_delivers s sz v s' : rinv s -> read_object s sz = (RBytes v, s') ->
  ms_pos s' = ms_pos s + sz /\ ms_pos s' <= ms_len s /\ good s' = true.
Proof.
  intros H. unfold read_object.
  assert (H0 : rinv (begin_reading s)) by exact H.
  rewrite (has_remaining_inv _ sz H0).
  destruct (sz <=? _) eqn:E; [|discriminate].
  apply N.leb_le in E. rewrite take_eq. intros Hr. inversion Hr as [[Hv Hs]]. clear Hr Hs Hv.
  destruct (take_inv _ sz H0 E) as (_ & Hp & _ & _).
  cbn [done_reading set_state ms_pos good ms_eof ms_fail ms_bad orb negb].
  change (ms_pos (begin_reading s)) with (ms_pos s) in *. change (ms_len (begin_reading s)) with (ms_len s) in *.
  destruct H as (_ & H2 & H3 & _). rewrite w64_small by lia. repeat split; lia.
Qed.

(* ---------------------------------------------------------------- allocation requests *)
(* strings (element size 1): the length prefix can never make the reader throw *)
Lemma read_string_never_throws s n : fst (read_string s) <> RThrow n.
Proof.
  unfold read_string. destruct (has_remaining _ 8); cbn [fst]; [|discriminate].
  destruct (take (begin_reading s) 8) as [lb s1].
  destruct (has_remaining s1 (of_le lb)); [|cbn; discriminate].
  destruct (take s1 (of_le lb)). cbn. discriminate.
Qed.

(* on a buffer that fits in memory (at most PTRDIFF_MAX bytes, as every C++ object), a vector read
   never asks std::vector::resize for more elements than max_size(): it cannot throw *)
Lemma read_vector_never_throws s sz n : rinv s -> ms_len s <= PTRDIFF_MAX -> 0 < sz ->
  fst (read_vector s sz) <> RThrow n.
Proof.
  intros H Hmem Hsz. unfold read_vector.
  assert (H0 : rinv (begin_reading s)) by exact H.
  rewrite (has_remaining_inv _ 8 H0).
  destruct (8 <=? _) eqn:E; cbn [fst]; [|discriminate].
  apply N.leb_le in E. rewrite (take_eq (begin_reading s) 8).
  destruct (take_inv _ 8 H0 E) as (H1 & Hp & Hb & Hl).
  set (s1 := snd (take (begin_reading s) 8)) in *.
  set (m := of_le (fst (take (begin_reading s) 8))).
  rewrite (rem_inv _ H1).
  destruct (_ <=? (ms_len s1 - ms_pos s1) / sz) eqn:E2; cbn [fst]; [|discriminate].
  apply N.leb_le in E2.
  change (ms_len (begin_reading s)) with (ms_len s) in Hl.
  assert (Hle : (ms_len s1 - ms_pos s1) / sz <= PTRDIFF_MAX / sz) by (apply N.div_le_mono; lia).
  replace (max_elems sz <? m) with false by (symmetry; apply N.ltb_ge; unfold max_elems; lia).
  rewrite take_eq. cbn [fst]. discriminate.
Qed.

Lemma chunks_length k sz bs : blen (chunks k sz bs) = N.of_nat k.
Proof.
  unfold blen. f_equal. revert bs.
  induction k as [|k IH]; intros bs; cbn [chunks length]; [reflexivity | now rewrite IH].
Qed.

(* a vector read that delivers n elements found n * sz bytes after the length prefix: the allocation
   is bounded by the data that is there *)
Lemma read_vector_alloc_bounded s sz v s' : rinv s -> 0 < sz -> read_vector s sz = (RVec v, s') ->
  blen v * sz + 8 <= ms_len s - ms_pos s.
Proof.
  intros H Hsz. unfold read_vector.
  assert (H0 : rinv (begin_reading s)) by exact H.
  rewrite (has_remaining_inv _ 8 H0).
  destruct (8 <=? _) eqn:E; [|discriminate].
  apply N.leb_le in E. rewrite (take_eq (begin_reading s) 8).
  destruct (take_inv _ 8 H0 E) as (H1 & Hp & Hb & Hl).
  set (s1 := snd (take (begin_reading s) 8)) in *.
  set (m := of_le (fst (take (begin_reading s) 8))).
  rewrite (rem_inv _ H1).
  destruct (_ <=? (ms_len s1 - ms_pos s1) / sz) eqn:E2; [|discriminate].
  apply N.leb_le in E2.
  destruct (max_elems sz <? m); [discriminate|].
  rewrite take_eq. intros Hr. inversion Hr as [[Hv Hs]]. clear Hr Hs.
  assert (Hlt : ms_len s1 - ms_pos s1 < W64) by (destruct H1 as (_ & _ & Hw & _); lia).
  destruct (elems_fit _ _ _ Hlt E2) as [Hw Hfit].
  rewrite chunks_length, N2Nat.id.
  change (ms_len (begin_reading s)) with (ms_len s) in Hl, E.
  change (ms_pos (begin_reading s)) with (ms_pos s) in Hp, E.
  lia.
Qed.

(* ---------------------------------------------------------------- single-item corollaries *)
Lemma object_roundtrip (b : list byte) mx : blen b <= mx -> blen b < W64 ->
  let w := write_object (empty_stream mx) b in
  output w = (b, false) /\
  exists s', read_object (input_stream (fst (output w))) (blen b) = (RBytes b, s')
             /\ good s' = true /\ ms_pos s' = ms_len s'.
Proof.
  intros H1 H2.
  destruct (stream_roundtrip [IObj b] mx) as (Ho & _ & _ & s' & Hr & Hg & Hp & _).
  - repeat constructor.
  - unfold enc_all. cbn [map concat enc]. now rewrite app_nil_r.
  - unfold enc_all. cbn [map concat enc]. now rewrite app_nil_r.
  - unfold enc_all in *. cbn [map concat enc write_items fold_left write_item shape_of read_items read_shape] in *.
    rewrite app_nil_r in *. split; [exact Ho|].
    destruct (read_object _ _) as [r s1] eqn:E. destruct r; cbn [item_of] in Hr; try discriminate.
    exists s1. inversion Hr; subst. auto.
Qed.

Lemma string_roundtrip (b : list byte) mx : 8 + blen b <= mx -> 8 + blen b < W64 ->
  let w := write_string (empty_stream mx) b in
  output w = (le64 (blen b) ++ b, false) /\
  exists s', read_string (input_stream (fst (output w))) = (RBytes b, s')
             /\ good s' = true /\ ms_pos s' = ms_len s'.
Proof.
  intros H1 H2.
  destruct (stream_roundtrip [IStr b] mx) as (Ho & _ & _ & s' & Hr & Hg & Hp & _).
  - repeat constructor. cbn [item_ok]. exact H2.
  - unfold enc_all. cbn [map concat enc]. rewrite app_nil_r, blen_app, blen_le64. exact H1.
  - unfold enc_all. cbn [map concat enc]. rewrite app_nil_r, blen_app, blen_le64. exact H2.
  - unfold enc_all in *. cbn [map concat enc write_items fold_left write_item shape_of read_items read_shape] in *.
    rewrite app_nil_r in *. split; [exact Ho|].
    destruct (read_string _) as [r s1] eqn:E. destruct r; cbn [item_of] in Hr; try discriminate.
    exists s1. inversion Hr; subst. auto.
Qed.

Lemma vector_roundtrip (sz : N) (es : list (list byte)) mx : item_ok (IVec sz es) -> 8 + sz * blen es <= mx ->
  let w := write_vector (empty_stream mx) sz es in
  output w = (le64 (blen es) ++ concat es, false) /\
  exists s', read_vector (input_stream (fst (output w))) sz = (RVec es, s')
             /\ good s' = true /\ ms_pos s' = ms_len s'.
Proof.
  intros Hok H1. pose proof Hok as (Hsz & Hes & Hm).
  assert (Hc := blen_concat sz es Hes).
  destruct (stream_roundtrip [IVec sz es] mx) as (Ho & _ & _ & s' & Hr & Hg & Hp & _).
  - repeat constructor; auto.
  - unfold enc_all. cbn [map concat enc]. rewrite app_nil_r, blen_app, blen_le64. lia.
  - unfold enc_all. cbn [map concat enc]. rewrite app_nil_r, blen_app, blen_le64.
    unfold PTRDIFF_MAX, W64 in *. lia.
  - unfold enc_all in *. cbn [map concat enc write_items fold_left write_item shape_of read_items read_shape] in *.
    rewrite app_nil_r in *. split; [exact Ho|].
    destruct (read_vector _ _) as [r s1] eqn:E. destruct r; cbn [item_of] in Hr; try discriminate.
    exists s1. inversion Hr; subst. auto.
Qed.

(* the write cursor of write_vector stays inside the buffer, for every element size, whether or not
   the data fits under max_length *)
Lemma write_cursor_in_buffer (sz : N) (es : list (list byte)) mx : item_ok (IVec sz es) ->
  let w := write_vector (empty_stream mx) sz es in
  ms_len w <= blen (ms_buf w) /\ ms_oob w = false.
Proof.
  intros Hok w. pose proof Hok as (Hsz & Hes & Hm).
  destruct (N.le_gt_cases (8 + sz * blen es) mx) as [Hfit|Hbig].
  - assert (Hw : w = wst (le64 (blen es) ++ concat es) mx 0).
    { unfold w. change (empty_stream mx) with (wst [] mx 0).
      rewrite write_vector_wst; [reflexivity | exact Hes | rewrite blen_nil; lia |
                                 rewrite blen_nil; unfold PTRDIFF_MAX, W64 in *; lia]. }
    rewrite Hw. unfold wst. cbn [ms_len ms_buf ms_oob]. split; [lia | reflexivity].
  - unfold w, write_vector, expand, empty_stream.
    cbn [ms_buf ms_max ms_len ms_eof ms_fail ms_bad ms_pos ms_oob].
    rewrite (w64_small (sz * blen es)) by (unfold PTRDIFF_MAX, W64 in *; lia).
    rewrite blen_nil, N.add_0_l.
    rewrite (w64_small (8 + sz * blen es)) by (unfold PTRDIFF_MAX, W64 in *; lia).
    rewrite (w64_small (8 + sz * blen es)) by (unfold PTRDIFF_MAX, W64 in *; lia).
    replace (8 + sz * blen es <=? mx) with false by (symmetry; apply N.leb_gt; lia).
    cbn. split; [lia | reflexivity].
Qed.

(* ---------------------------------------------------------------- what a string read delivers was there *)
Lemma slice_length b off n : blen (fst (slice b off n)) = n.
Proof.
  unfold slice. cbn [fst]. unfold blen. rewrite app_length, repeat_length.
  pose proof (firstn_le_length (N.to_nat n) (skipn (N.to_nat off) b)) as H.
  replace (length (firstn (N.to_nat n) (skipn (N.to_nat off) b)) +
           (N.to_nat n - length (firstn (N.to_nat n) (skipn (N.to_nat off) b))))%nat with (N.to_nat n) by lia.
  apply N2Nat.id.
Qed.

(* whatever the 8-byte length word says (also 2^64-1, or any value that makes read_pos_ + length wrap
   around): a string is delivered only when the 8 + length bytes lie between the position and the end *)
Lemma read_string_delivers s v s' : rinv s -> read_string s = (RBytes v, s') ->
  8 + blen v <= ms_len s - ms_pos s /\ ms_pos s' = ms_pos s + 8 + blen v /\ good s' = true.
Proof.
  intros H. unfold read_string.
  assert (H0 : rinv (begin_reading s)) by exact H.
  rewrite (has_remaining_inv _ 8 H0).
  destruct (8 <=? _) eqn:E; [|discriminate].
  apply N.leb_le in E. rewrite (take_eq (begin_reading s) 8).
  destruct (take_inv _ 8 H0 E) as (H1 & Hp & Hb & Hl).
  set (s1 := snd (take (begin_reading s) 8)) in *.
  set (n := of_le (fst (take (begin_reading s) 8))).
  rewrite (has_remaining_inv _ _ H1).
  destruct (n <=? ms_len s1 - ms_pos s1) eqn:E2; [|discriminate].
  apply N.leb_le in E2. rewrite (take_eq s1 n). intros Hr.
  assert (Hv : fst (take s1 n) = v) by congruence.
  assert (Hs : done_reading (snd (take s1 n)) = s') by congruence. clear Hr. subst v s'.
  destruct (take_inv _ n H1 E2) as (_ & Hp2 & _ & _).
  change (ms_len (begin_reading s)) with (ms_len s) in *. change (ms_pos (begin_reading s)) with (ms_pos s) in *.
  assert (Hlen : blen (fst (take s1 n)) = n) by (unfold take; destruct (slice (ms_buf s1) (ms_pos s1) n) as [vv oo] eqn:Es;
     cbn [fst]; change vv with (fst (vv, oo)); rewrite <- Es; apply slice_length).
  rewrite Hlen. cbn [done_reading set_state ms_pos good ms_eof ms_fail ms_bad orb negb].
  repeat split; lia.
Qed.

(* ---------------------------------------------------------------- the destination of a vector read *)
Lemma vresize_length sz dest n : length (vresize sz dest n) = n.
Proof.
  unfold vresize. rewrite app_length, repeat_length, firstn_length. lia.
Qed.

Lemma voverwrite_full (d v : list (list byte)) : length d = length v -> voverwrite d v = v.
Proof. intros H. unfold voverwrite. rewrite skipn_all2 by lia. apply app_nil_r. Qed.

(* what the destination holds after a read that delivers is what was decoded, whatever it held before (also for
   zero elements: the destination is emptied); a read that does not deliver leaves it as it was *)
Lemma read_vector_into_spec s sz dest :
  match read_vector s sz with
  | (RVec v, s') => read_vector_into s sz dest = (RVec v, s', v)
  | (r, s') => read_vector_into s sz dest = (r, s', dest)
  end.
Proof.
  unfold read_vector_into. destruct (read_vector s sz) as [r s'] eqn:E. destruct r as [|b|v|n]; try reflexivity.
  now rewrite (voverwrite_full _ v (vresize_length sz dest (length v))).
Qed.

Lemma read_vector_into_independent s sz d1 d2 v s1 t1 :
  read_vector_into s sz d1 = (RVec v, s1, t1) ->
  t1 = v /\ read_vector_into s sz d2 = (RVec v, s1, v).
Proof.
  intros H. pose proof (read_vector_into_spec s sz d1) as H1. pose proof (read_vector_into_spec s sz d2) as H2.
  destruct (read_vector s sz) as [r s'] eqn:E. destruct r as [|b|w|n]; rewrite H1 in H; try discriminate.
  inversion H; subst. split; [reflexivity | exact H2].
Qed.
