(* C11 (d): the readers of an unformatted (binary) state above cvm::memory_stream:
   colvarmodule::read_state(memory_stream &) (magic number), read_state_template_<memory_stream> (global
   configuration block), read_objects_state(memory_stream &), colvar::read_state(memory_stream &),
   colvarbias::read_state_template_<memory_stream> with operator>>(memory_stream &, read_block) and
   raise_error_rewind, colvarbias_meta::read_hill_template_<memory_stream> with unread_bytes() and
   hill_stream_error (src/colvarmodule.cpp, src/colvar.cpp, src/colvarbias.cpp, src/colvarparse.cpp,
   src/colvarbias_meta.cpp).  Every read goes through the stream model of MemStreamModel.v (read_object,
   read_object<std::string> with has_remaining); what is computed is whether the load reports an error
   (cvm::error was called or the stream came back failed).  Definitions only. *)
From Coq Require Import NArith List Bool.
From CV Require Import C11.MemStreamModel.
Import ListNotations.
Open Scope N_scope.

Fixpoint bytes_eqb (a b : list byte) : bool :=
  match a, b with
  | [], [] => true
  | x :: a', y :: b' => (x =? y) && bytes_eqb a' b'
  | _, _ => false
  end.

(* the keywords, as the characters written by operator<<(memory_stream &, std::string) *)
Definition kw_configuration : list byte := [99;111;110;102;105;103;117;114;97;116;105;111;110].
Definition kw_colvar : list byte := [99;111;108;118;97;114].
Definition kw_hill : list byte := [104;105;108;108].
Definition kw_step : list byte := [115;116;101;112].
Definition kw_weight : list byte := [119;101;105;103;104;116].
Definition kw_centers : list byte := [99;101;110;116;101;114;115].
Definition kw_widths : list byte := [119;105;100;116;104;115].
(* colvars_magic_number = 2013813594 as written by write_object<uint32_t> *)
Definition magic : list byte := [90;91;8;120].

(* one framed field of a record: a string that must be a given keyword, any string, an object of sz bytes *)
Inductive field := FKey (k : list byte) | FAny | FObj (sz : N).
Definition shape_of_field (f : field) : shape :=
  match f with FKey _ => SStr | FAny => SStr | FObj sz => SObj sz end.
Definition field_ok (f : field) (it : item) : bool :=
  match f, it with
  | FKey k, IStr v => bytes_eqb k v
  | FAny, IStr _ => true
  | FObj _, IObj _ => true
  | _, _ => false
  end.

(* read the fields in order, `if (!(is >> x)) error`, `if (key != expected) error`: None = a read did not
   deliver or a keyword differs (every caller reports that as an error) *)
Fixpoint read_fields (s : mstream) (fs : list field) : option (list item * mstream) :=
  match fs with
  | [] => Some ([], s)
  | f :: r =>
    let '(res, s1) := read_shape s (shape_of_field f) in
    match item_of (shape_of_field f) res with
    | Some it =>
      if field_ok f it then
        match read_fields s1 r with
        | Some (its, s2) => Some (it :: its, s2)
        | None => None
        end
      else None
    | None => None
    end
  end.

(* is.clear(); is.seekg(p) *)
Definition rewind (s : mstream) (p : N) : mstream :=
  mkMS (ms_buf s) (ms_len s) (ms_max s) false false false p (ms_oob s).

(* a hill of a bias with nv scalar variables:
   "step" it "weight" w "centers" c_1..c_nv "widths" s_1..s_nv   (single replica: no replicaID) *)
Definition hill_fields (nv : nat) : list field :=
  [FKey kw_step; FObj 8; FKey kw_weight; FObj 8; FKey kw_centers] ++ repeat (FObj 8) nv ++
  [FKey kw_widths] ++ repeat (FObj 8) nv.

(* `while (read_hill(is)) {}  is.clear();` on a memory_stream.  read_hill: the key; when it cannot be read,
   unread_bytes(is, start_pos) > 0 tells a cut inside the keyword (hill_stream_error) from the end of the
   data; a different key ends the list (rewind, no error); any field that cannot be read is an error.
   Result: the stream (good) and whether cvm::error was called *)
Fixpoint read_hills (fuel : nat) (nv : nat) (s : mstream) : mstream * bool :=
  match fuel with
  | O => (s, false)
  | S f =>
    let start := ms_pos s in
    match read_string s with
    | (RBytes k, s1) =>
      if bytes_eqb k kw_hill then
        match read_fields s1 (hill_fields nv) with
        | Some (_, s2) => read_hills f nv s2
        | None => (rewind s start, true)
        end
      else (rewind s start, false)
    | (_, _) => (rewind s start, start <? ms_len s)
    end
  end.

(* num_hills_read of the same loop: the records that read_hill() accepted *)
Fixpoint count_hills (fuel : nat) (nv : nat) (s : mstream) : nat :=
  match fuel with
  | O => O
  | S f =>
    match read_string s with
    | (RBytes k, s1) =>
      if bytes_eqb k kw_hill then
        match read_fields s1 (hill_fields nv) with
        | Some (_, s2) => S (count_hills f nv s2)
        | None => O
        end
      else O
    | (_, _) => O
    end
  end.

(* "numHills <n>" in the configuration string of a metadynamics state (absent from states written before the
   number was added): the decimal number after the first occurrence of the keyword *)
Definition kw_numhills : list byte := [110;117;109;72;105;108;108;115;32].
Fixpoint starts_with (pat l : list byte) : option (list byte) :=
  match pat, l with
  | [], _ => Some l
  | x :: pat', y :: l' => if x =? y then starts_with pat' l' else None
  | _, [] => None
  end.
Fixpoint parse_digits (l : list byte) (acc : nat) : nat :=
  match l with
  | c :: r => if (48 <=? c) && (c <=? 57) then parse_digits r (10 * acc + N.to_nat (c - 48)) else acc
  | [] => acc
  end.
Fixpoint find_numhills (l : list byte) : option nat :=
  match starts_with kw_numhills l with
  | Some rest => Some (parse_digits rest 0)
  | None => match l with _ :: r => find_numhills r | [] => None end
  end.

Record bbias := mkBB {
  bb_kw : list byte;      (* state_keyword *)
  bb_type : list byte;    (* bias_type *)
  bb_kind : nat;          (* 1: a list of hills follows the fixed data (metadynamics); otherwise nothing *)
  bb_nvar : nat;
  bb_fields : list field  (* the fixed data after the configuration, all mandatory: read_state_data_key(is, k) and
                             colvar_grid::read_raw (n objects of 8 bytes), e.g. ABF: "samples" n*8 "gradient" n*8
                             and, with the CZAR estimator, "z_samples" n*8 "z_gradient" n*8; histogram: "grid" n*8 *)
}.

Inductive bres := BErr | BSkip | BOk (s : mstream) (err : bool).

Section BinReader.
  (* colvar::set_state_params(data) == COLVARS_OK *)
  Variable cv_ok : list byte -> bool.
  (* colvarbias::check_matching_state(conf): None = error (no identifier), Some true = this bias *)
  Variable matches : bbias -> list byte -> option bool.
  (* set_state_params(conf) == COLVARS_OK *)
  Variable params_ok : bbias -> list byte -> bool.
  (* state_num_hills: the number of hills the configuration string announces, if it does *)
  Variable expected_hills : bbias -> list byte -> option nat.

  (* cvm::memory_stream &colvar::read_state(cvm::memory_stream &is): None = failbit + cvm::error *)
  Definition cv_read (s : mstream) : option mstream :=
    match read_fields s [FKey kw_colvar; FAny] with
    | Some ([_; IStr data], s') => if cv_ok data then Some s' else None
    | _ => None
    end.

  (* read_state_data(is): None = a key or a grid value could not be read (the readers call cvm::error and the
     stream fails: raise_error_rewind in the caller) *)
  Definition read_data (b : bbias) (conf : list byte) (s : mstream) : option (mstream * bool) :=
    match read_fields s (bb_fields b) with
    | None => None
    | Some (_, s1) =>
      match bb_kind b with
      | S O =>
        let fuel := S (length (ms_buf s1)) in
        (* if ((state_num_hills >= 0) && (num_hills_read != state_num_hills)) error + failbit *)
        match expected_hills b conf with
        | Some n => if Nat.eqb (count_hills fuel (bb_nvar b) s1) n
                    then Some (read_hills fuel (bb_nvar b) s1) else None
        | None => Some (read_hills fuel (bb_nvar b) s1)
        end
      | _ => Some (s1, false)
      end
    end.

  (* colvarbias::read_state_template_<cvm::memory_stream> *)
  Definition bias_read (b : bbias) (s : mstream) : bres :=
    match read_string s with
    | (RBytes k, s1) =>
      if bytes_eqb k (bb_kw b) || bytes_eqb k (bb_type b) then
        match read_fields s1 [FKey kw_configuration; FAny] with
        | Some ([_; IStr conf], s2) =>
          match matches b conf with
          | None => BErr
          | Some false => BSkip                       (* rewound, stream good, no error *)
          | Some true =>
            if params_ok b conf then
              match read_data b conf s2 with
              | Some (s3, e) => BOk s3 e
              | None => BErr
              end
            else BErr
          end
        | _ => BErr                                   (* raise_error_rewind *)
        end
      else BSkip                                      (* not this bias type: rewind without error *)
    | (_, _) => BErr                                  (* raise_error_rewind *)
    end.

  (* read_objects_state(cvm::memory_stream &): every variable, then every bias, in order;
     `if (!read_state(is)) return is;`.  Result: error? *)
  Fixpoint read_colvars (n : nat) (s : mstream) : option mstream :=
    match n with
    | O => Some s
    | S n' => match cv_read s with Some s' => read_colvars n' s' | None => None end
    end.

  Fixpoint read_biases (bs : list bbias) (s : mstream) (err : bool) : bool :=
    match bs with
    | [] => err
    | b :: r =>
      match bias_read b s with
      | BErr => true
      | BSkip => read_biases r s err
      | BOk s' e => read_biases r s' (err || e)
      end
    end.

  (* the global block: `if (is >> read_block("configuration", &conf)) {...}  is.clear();`
     key not there: rewound; key there but its contents cannot be read: the position stays where the
     failed read left it *)
  Definition skip_global (s : mstream) : mstream :=
    let start := ms_pos s in
    match read_string s with
    | (RBytes k, s1) =>
      if bytes_eqb k kw_configuration then
        let '(_, s2) := read_string s1 in rewind s2 (ms_pos s2)
      else rewind s start
    | (_, _) => rewind s start
    end.

  (* setup_input() on a file that starts with the magic number: error? *)
  Definition load_bin (ncv : nat) (bs : list bbias) (data : list byte) : bool :=
    match read_object (input_stream data) 4 with
    | (RBytes m, s1) =>
      if bytes_eqb m magic then
        match read_colvars ncv (skip_global s1) with
        | Some s2 => read_biases bs s2 false
        | None => true
        end
      else true
    | (_, _) => true
    end.
End BinReader.

(* the instance run against the C++: a valid state's own configuration (names match, parameters parse) *)
Definition load_bin_c (ncv : nat) (bs : list bbias) (data : list byte) : bool :=
  load_bin (fun _ => true) (fun _ _ => Some true) (fun _ _ => true) (fun _ conf => find_numhills conf) ncv bs data.
