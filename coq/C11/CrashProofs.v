(* C11 (b): lemmas about the replace protocol. *)
From Coq Require Import NArith List Bool Lia.
From CV Require Import C11.CrashModel.
Import ListNotations.
Open Scope N_scope.

(* a system call changes neither the directory nor the registry by itself; a plan without error
   returns stays one, and the outcome is then not an error *)
Lemma pop_spec m op : forall o m', pop m op = (o, m') ->
  m_fs m' = m_fs m /\ m_reg m' = m_reg m /\
  (kills_only (m_plan m) = true -> kills_only (m_plan m') = true /\ o <> OErr).
Proof.
  intros o m'. unfold pop. destruct (m_plan m) as [|o0 r] eqn:E; intros H; inversion H; subst; cbn.
  - repeat split; auto. discriminate.
  - repeat split; auto; unfold kills_only in *; cbn [forallb] in *; apply andb_true_iff in H0; destruct H0 as [Ha Hb]; auto.
    destruct o; cbn in Ha; congruence.
Qed.

(* after the open, the file system is (Some (v, b, t), o): only b moves, whatever the environment does *)
Lemma write_chunks_spec ch : forall m v b t o,
  m_fs m = mkFS (Some (mkF v b t)) o ->
  forall m' w, write_chunks m ch = (m', w) ->
  m_reg m' = m_reg m /\
  (kills_only (m_plan m) = true -> kills_only (m_plan m') = true /\ w <> Some true) /\
  exists b', m_fs m' = mkFS (Some (mkF v b' t)) o /\ (w = Some false -> b' = b + fold_right N.add 0 ch).
Proof.
  induction ch as [|c r IH]; intros m v b t o Hfs m' w H.
  - cbn in H. inversion H; subst. split; [reflexivity|]. split; [intros Hk; split; [exact Hk | discriminate]|].
    exists b. split; auto. intros _. cbn. lia.
  - cbn [write_chunks] in H. destruct (pop m (SWrite c)) as [oc m1] eqn:Ep.
    destruct (pop_spec _ _ _ _ Ep) as (Hf1 & Hr1 & Hk1).
    destruct oc as [| |j].
    + assert (Hfs1 : m_fs (set_fs m1 (add_bytes (m_fs m1) c)) = mkFS (Some (mkF v (b + c) t)) o).
      { cbn. rewrite Hf1, Hfs. reflexivity. }
      destruct (IH _ _ _ _ _ Hfs1 _ _ H) as (Hb & Hc & b' & Hd & He).
      split; [cbn in Hb; congruence|]. split.
      * intros Hk. destruct (Hk1 Hk) as [Hk1' _]. apply Hc. exact Hk1'.
      * exists b'. split; auto. intros Hw. rewrite (He Hw). cbn [fold_right]. lia.
    + inversion H; subst. split; [exact Hr1|]. split.
      * intros Hk. destruct (Hk1 Hk) as [_ Hne]. congruence.
      * exists b. rewrite Hf1, Hfs. split; [reflexivity | discriminate].
    + inversion H; subst. cbn. split; [exact Hr1|]. split.
      * intros Hk. destruct (Hk1 Hk) as [Hk1' _]. split; [exact Hk1' | discriminate].
      * rewrite Hf1, Hfs. cbn. eexists. split; [reflexivity | discriminate].
Qed.

Lemma close_stream_spec m tail v b t o :
  m_fs m = mkFS (Some (mkF v b t)) o ->
  forall m' c, close_stream m tail = (m', c) ->
  (kills_only (m_plan m) = true -> kills_only (m_plan m') = true /\ c <> Some true) /\
  (c <> None -> m_reg m' = NotOpen) /\
  exists b', m_fs m' = mkFS (Some (mkF v b' t)) o /\ (c = Some false -> b' = b + tail).
Proof.
  intros Hfs m' c. unfold close_stream.
  destruct (tail =? 0) eqn:Et.
  - apply N.eqb_eq in Et. subst tail.
    destruct (pop m SClose) as [oc m2] eqn:Ep.
    destruct (pop_spec _ _ _ _ Ep) as (Hf & Hr & Hk').
    destruct oc as [| |j]; intros H; inversion H; subst; cbn [set_reg m_plan m_reg m_fs];
      (split; [intros Hk; destruct (Hk' Hk) as [Hk2 Hne]; split; [exact Hk2 | congruence] |
       split; [intros Hx; try reflexivity; congruence |
       exists b; rewrite Hf, Hfs; split; [reflexivity | intros Hx; try discriminate; lia]]]).
  - destruct (pop m (SWrite tail)) as [ot m1] eqn:Ep1.
    destruct (pop_spec _ _ _ _ Ep1) as (Hf1 & Hr1 & Hk1).
    destruct ot as [| |j].
    + destruct (pop (set_fs m1 (add_bytes (m_fs m1) tail)) SClose) as [oc m2] eqn:Ep2.
      destruct (pop_spec _ _ _ _ Ep2) as (Hf2 & Hr2 & Hk2). cbn [set_fs m_plan] in Hk2.
      cbn [set_fs m_fs] in Hf2. rewrite Hf1, Hfs in Hf2. cbn [add_bytes cur old f_ver f_bytes f_total] in Hf2.
      destruct oc as [| |j]; intros H; inversion H; subst; cbn [set_reg m_plan m_reg m_fs];
        (split; [intros Hk; destruct (Hk1 Hk) as [Hk1' _]; destruct (Hk2 Hk1') as [Hk2' Hne2]; split; [exact Hk2' | congruence] |
         split; [intros Hx; try reflexivity; congruence |
         exists (b + tail); rewrite Hf2; split; [reflexivity | intros Hx; try discriminate; reflexivity]]]).
    + destruct (pop m1 SClose) as [oc m2] eqn:Ep2.
      destruct (pop_spec _ _ _ _ Ep2) as (Hf2 & Hr2 & Hk2).
      destruct oc as [| |j]; intros H; inversion H; subst; cbn [set_reg m_plan m_reg m_fs];
        (split; [intros Hk; destruct (Hk1 Hk) as [_ Hne1]; congruence |
         split; [intros Hx; try reflexivity; congruence |
         exists b; rewrite Hf2, Hf1, Hfs; split; [reflexivity | intros Hx; discriminate]]]).
    + intros H; inversion H; subst. cbn [set_fs m_plan m_fs].
      split; [intros Hk; destruct (Hk1 Hk) as [Hk1' _]; split; [exact Hk1' | discriminate]|].
      split; [intros Hx; congruence|].
      rewrite Hf1, Hfs. cbn [add_bytes cur old f_ver f_bytes f_total].
      eexists. split; [reflexivity | discriminate].
Qed.

Lemma fold_total ch tail : total_of ch tail = fold_right N.add 0 ch + tail.
Proof. unfold total_of. induction ch as [|c r IH]; cbn [fold_right]; lia. Qed.

Lemma complete_some v b t : complete (Some (mkF v b t)) = (b =? t).
Proof. reflexivity. Qed.

(* writing into the freshly truncated file and closing it: the backup is never touched; success is
   reported only when every byte is in the file and the stream is unregistered *)
Lemma body_spec m ch tail v o :
  m_fs m = mkFS (Some (mkF v 0 (total_of ch tail))) o ->
  forall m' r, body m ch tail = (m', r) ->
  old (m_fs m') = o /\
  (r = Done true -> m_reg m' = NotOpen /\ complete (cur (m_fs m')) = true) /\
  (kills_only (m_plan m) = true -> kills_only (m_plan m') = true /\ r <> Done false).
Proof.
  intros Hfs m' r. unfold body.
  destruct (write_chunks m ch) as [m5 w] eqn:Ew.
  destruct (write_chunks_spec ch m _ _ _ _ Hfs _ _ Ew) as (Hr5 & Hk5 & b5 & Hfs5 & Hb5).
  destruct w as [[|]|].
  - intros H; inversion H; subst. cbn [set_reg m_fs m_plan]. rewrite Hfs5.
    split; [reflexivity|]. split; [discriminate|]. intros Hk. destruct (Hk5 Hk) as [_ Hne]. congruence.
  - destruct (close_stream m5 tail) as [m6 c] eqn:Ec6.
    destruct (close_stream_spec _ _ _ _ _ _ Hfs5 _ _ Ec6) as (Hk6 & Hr6 & b6 & Hfs6 & Hb6).
    destruct c as [failed|]; intros H; inversion H; subst; rewrite Hfs6; cbn [old cur].
    + split; [reflexivity|]. split.
      * intros Hd. destruct failed; [discriminate|].
        split; [apply Hr6; discriminate|].
        rewrite complete_some. apply N.eqb_eq. rewrite (Hb6 eq_refl), (Hb5 eq_refl), fold_total. lia.
      * intros Hk. destruct (Hk5 Hk) as [Hk5' _]. destruct (Hk6 Hk5') as [Hk6' Hne].
        split; [exact Hk6'|]. destruct failed; [congruence | discriminate].
    + split; [reflexivity|]. split; [discriminate|].
      intros Hk. destruct (Hk5 Hk) as [Hk5' _]. destruct (Hk6 Hk5') as [Hk6' _]. split; [exact Hk6' | discriminate].
  - intros H; inversion H; subst. rewrite Hfs5.
    split; [reflexivity|]. split; [discriminate|].
    intros Hk. destruct (Hk5 Hk) as [Hk5' _]. split; [exact Hk5' | discriminate].
Qed.

Lemma open_and_write_spec m v ch tail :
  forall m' r, open_and_write m v ch tail = (m', r) ->
  old (m_fs m') = old (m_fs m) /\
  (r = Done true -> m_reg m' = NotOpen /\ complete (cur (m_fs m')) = true) /\
  (kills_only (m_plan m) = true -> kills_only (m_plan m') = true /\ r <> Done false).
Proof.
  intros m' r. unfold open_and_write.
  destruct (pop m SOpen) as [o3 m3] eqn:E3.
  destruct (pop_spec _ _ _ _ E3) as (Hf3 & Hr3 & Hk3).
  destruct o3 as [| |j3].
  - intros H.
    set (m4 := set_reg (set_fs m3 _) (Open false)) in H.
    assert (Hfs4 : m_fs m4 = mkFS (Some (mkF v 0 (total_of ch tail))) (old (m_fs m))) by (cbn; now rewrite Hf3).
    destruct (body_spec m4 ch tail v _ Hfs4 _ _ H) as (Ho & Hd & Hk).
    split; [exact Ho|]. split; [exact Hd|].
    intros Hk0. destruct (Hk3 Hk0) as [Hk3' _]. apply Hk. exact Hk3'.
  - intros H; inversion H; subst. cbn [set_reg m_fs m_plan]. rewrite Hf3.
    split; [reflexivity|]. split; [discriminate|]. intros Hk0. destruct (Hk3 Hk0) as [_ Hne]. congruence.
  - intros H; inversion H; subst. rewrite Hf3.
    split; [reflexivity|]. split; [discriminate|]. intros Hk0. destruct (Hk3 Hk0) as [Hk3' _]. split; [exact Hk3' | discriminate].
Qed.

(* backup_file: on failure or death the directory is as before; on success the current name is free
   and the previous current file (if any) is the backup *)
Lemma backup_spec m :
  forall m' b, backup m = (m', b) ->
  m_reg m' = m_reg m /\
  (b <> Some false -> m_fs m' = m_fs m) /\
  (b = Some false -> cur (m_fs m') = None /\
     (cur (m_fs m) = None -> old (m_fs m') = old (m_fs m)) /\
     (cur (m_fs m) <> None -> old (m_fs m') = cur (m_fs m))) /\
  (kills_only (m_plan m) = true -> kills_only (m_plan m') = true /\ b <> Some true).
Proof.
  intros m' b. unfold backup.
  destruct (pop m SAccess) as [o1 m1] eqn:E1.
  destruct (pop_spec _ _ _ _ E1) as (Hf1 & Hr1 & Hk1).
  destruct o1 as [| |j1].
  - rewrite Hf1. destruct (cur (m_fs m)) as [f|] eqn:Ec.
    + destruct (pop m1 SRename) as [o2 m2] eqn:E2.
      destruct (pop_spec _ _ _ _ E2) as (Hf2 & Hr2 & Hk2).
      destruct o2 as [| |j2]; intros H; inversion H; subst; cbn [set_fs m_fs m_reg m_plan].
      * split; [congruence|]. split; [congruence|]. split.
        { intros _. cbn [cur old]. split; [reflexivity|]. split; [discriminate|]. intros _. now rewrite Hf2, Hf1. }
        { intros Hk. destruct (Hk1 Hk) as [Hk1' _]. destruct (Hk2 Hk1') as [Hk2' _]. split; [exact Hk2' | discriminate]. }
      * split; [congruence|]. split; [intros _; congruence|]. split; [discriminate|].
        intros Hk. destruct (Hk1 Hk) as [Hk1' _]. destruct (Hk2 Hk1') as [_ Hne]. congruence.
      * split; [congruence|]. split; [intros _; congruence|]. split; [discriminate|].
        intros Hk. destruct (Hk1 Hk) as [Hk1' _]. destruct (Hk2 Hk1') as [Hk2' _]. split; [exact Hk2' | discriminate].
    + intros H; inversion H; subst.
      split; [exact Hr1|]. split; [congruence|]. split.
      * intros _. rewrite Hf1. split; [exact Ec|]. split; [reflexivity | congruence].
      * intros Hk. destruct (Hk1 Hk) as [Hk1' _]. split; [exact Hk1' | discriminate].
  - intros H; inversion H; subst. split; [exact Hr1|]. split; [intros _; exact Hf1|]. split; [discriminate|].
    intros Hk. destruct (Hk1 Hk) as [_ Hne]. congruence.
  - intros H; inversion H; subst. split; [exact Hr1|]. split; [intros _; exact Hf1|]. split; [discriminate|].
    intros Hk. destruct (Hk1 Hk) as [Hk1' _]. split; [exact Hk1' | discriminate].
Qed.

(* one save, from a state in which no stream is registered and the current file is absent or complete,
   under ANY behaviour of the environment (success, error return or death at every call) *)
Lemma save_any m v ch tail : m_reg m = NotOpen -> curok (m_fs m) = true ->
  forall m' r, save m v ch tail = (m', r) ->
  (safe (m_fs m) = true -> safe (m_fs m') = true) /\
  (r = Done true -> m_reg m' = NotOpen /\ curok (m_fs m') = true /\ safe (m_fs m') = true) /\
  (kills_only (m_plan m) = true -> kills_only (m_plan m') = true /\ r <> Done false).
Proof.
  intros Hreg Hcur m' r. unfold save. rewrite Hreg.
  destruct (backup m) as [m1 b] eqn:Eb.
  destruct (backup_spec _ _ _ Eb) as (Hr1 & Hsame & Hmoved & Hk1).
  destruct b as [[|]|].
  - intros H; inversion H; subst. rewrite (Hsame ltac:(discriminate)).
    split; [auto|]. split; [discriminate|]. intros Hk. destruct (Hk1 Hk) as [_ Hne]. congruence.
  - destruct (Hmoved eq_refl) as (Hc1 & Hnone & Hsome).
    (* the backup is complete whenever the directory was safe *)
    assert (Hold : safe (m_fs m) = true -> complete (old (m_fs m1)) = true).
    { intros Hs. destruct (cur (m_fs m)) as [f|] eqn:Ec.
      - rewrite (Hsome ltac:(discriminate)). unfold curok in Hcur. rewrite Ec in Hcur. exact Hcur.
      - rewrite (Hnone eq_refl). unfold safe in Hs. rewrite Ec in Hs. exact Hs. }
    intros H. destruct (open_and_write_spec _ _ _ _ _ _ H) as (Ho & Hd & Hk).
    split; [|split].
    + intros Hs. unfold safe. rewrite Ho, (Hold Hs). apply orb_true_r.
    + intros Hdone. destruct (Hd Hdone) as [Hr Hc]. split; [exact Hr|]. split.
      * unfold curok. destruct (cur (m_fs m')); [exact Hc | reflexivity].
      * unfold safe. now rewrite Hc.
    + intros Hk0. destruct (Hk1 Hk0) as [Hk1' _]. apply Hk. exact Hk1'.
  - intros H; inversion H; subst. rewrite (Hsame ltac:(discriminate)).
    split; [auto|]. split; [discriminate|]. intros Hk. destruct (Hk1 Hk) as [Hk1' _]. split; [exact Hk1' | discriminate].
Qed.

(* error tolerance: the host stops saving at the first save that reports an error *)
Lemma session_abort_any l : forall m, m_reg m = NotOpen -> curok (m_fs m) = true ->
  forall m' rs, session_abort m l = (m', rs) ->
  safe (m_fs m) = true \/ completed rs = true -> safe (m_fs m') = true.
Proof.
  induction l as [|s l IH]; intros m Hreg Hcur m' rs H Hor.
  - cbn in H. inversion H; subst. destruct Hor as [Hs|Hc]; [exact Hs | discriminate].
  - cbn [session_abort] in H. destruct (save m (s_ver s) (s_chunks s) (s_tail s)) as [m1 res] eqn:Es.
    destruct (save_any _ _ _ _ Hreg Hcur _ _ Es) as (Hsafe & Hdone & _).
    destruct res as [[|]|].
    + destruct (Hdone eq_refl) as (Hr1 & Hc1 & Hs1).
      destruct (session_abort m1 l) as [m2 rs2] eqn:Ess. inversion H; subst.
      apply (IH _ Hr1 Hc1 _ _ Ess). left. exact Hs1.
    + inversion H; subst. destruct Hor as [Hs|Hc]; [now apply Hsafe | discriminate].
    + inversion H; subst. destruct Hor as [Hs|Hc]; [now apply Hsafe | discriminate].
Qed.

Lemma error_tolerant fs plan l : curok fs = true ->
  let '(m', rs) := session_abort (start fs plan) l in
  safe fs = true \/ completed rs = true -> safe (m_fs m') = true.
Proof.
  intros Hc. destruct (session_abort (start fs plan) l) as [m' rs] eqn:E.
  apply (session_abort_any l (start fs plan)); auto.
Qed.

(* without error returns no save reports an error: the process saves until it dies *)
Lemma session_kills l : forall m, m_reg m = NotOpen -> curok (m_fs m) = true -> kills_only (m_plan m) = true ->
  forall m' rs, session m l = (m', rs) ->
  safe (m_fs m) = true \/ completed rs = true -> safe (m_fs m') = true.
Proof.
  induction l as [|s l IH]; intros m Hreg Hcur Hk m' rs H Hor.
  - cbn in H. inversion H; subst. destruct Hor as [Hs|Hc]; [exact Hs | discriminate].
  - cbn [session] in H. destruct (save m (s_ver s) (s_chunks s) (s_tail s)) as [m1 res] eqn:Es.
    destruct (save_any _ _ _ _ Hreg Hcur _ _ Es) as (Hsafe & Hdone & Hkk).
    destruct (Hkk Hk) as [Hk1 Hnf].
    destruct res as [[|]|].
    + destruct (Hdone eq_refl) as (Hr1 & Hc1 & Hs1).
      destruct (session m1 l) as [m2 rs2] eqn:Ess. inversion H; subst.
      apply (IH _ Hr1 Hc1 Hk1 _ _ Ess). left. exact Hs1.
    + congruence.
    + inversion H; subst. destruct Hor as [Hs|Hc]; [now apply Hsafe | discriminate].
Qed.

Lemma crash_consistent_one_process fs plan l : curok fs = true -> kills_only plan = true ->
  let '(m', rs) := session (start fs plan) l in
  safe fs = true \/ completed rs = true -> safe (m_fs m') = true.
Proof.
  intros Hc Hk. destruct (session (start fs plan) l) as [m' rs] eqn:E.
  apply (session_kills l (start fs plan)); auto.
Qed.

(* every error return is reported: a save that says "ok" left a complete current file and no stream *)
Lemma save_ok_is_complete m v ch tail : m_reg m = NotOpen -> curok (m_fs m) = true ->
  forall m', save m v ch tail = (m', Done true) ->
  complete (cur (m_fs m')) = true /\ m_reg m' = NotOpen.
Proof.
  intros Hreg Hcur m' H. destruct (save_any _ _ _ _ Hreg Hcur _ _ H) as (_ & Hd & _).
  destruct (Hd eq_refl) as (Hr & Hc & Hs). split; [|exact Hr].
  unfold save in H. rewrite Hreg in H.
  destruct (backup m) as [m1 b] eqn:Eb. destruct b as [[|]|]; try discriminate.
  destruct (open_and_write_spec _ _ _ _ _ _ H) as (_ & Hd' & _). apply Hd'. reflexivity.
Qed.

(* a stream that failed stays registered: every later save of the process returns an error without
   touching the directory *)
Lemma stuck_stream m v ch tail : m_reg m = Open true -> save m v ch tail = (m, Done false).
Proof. intros H. unfold save. now rewrite H. Qed.
