(* C11 (b): lemmas about the replace protocol (temporary file, then two renames). *)
From Coq Require Import NArith List Bool Lia.
From CV Require Import C11.CrashModel.
Import ListNotations.
Open Scope N_scope.

(* a system call changes neither the directory nor the registry by itself *)
Lemma pop_spec m op : forall o m', pop m op = (o, m') -> m_fs m' = m_fs m /\ m_reg m' = m_reg m.
Proof.
  intros o m'. unfold pop. destruct (m_plan m) as [|o0 r]; intros H; inversion H; subst; cbn; auto.
Qed.

(* the state file and its backup are what matters; the temporary file is scratch *)
Definition same_co (a b : fsys) : Prop := cur b = cur a /\ old b = old a.

Lemma same_co_refl a : same_co a a. Proof. split; reflexivity. Qed.
Lemma same_co_trans a b c : same_co a b -> same_co b c -> same_co a c.
Proof. intros [H1 H2] [H3 H4]. split; congruence. Qed.
Lemma same_co_curok a b : same_co a b -> curok b = curok a.
Proof. intros [H1 H2]. unfold curok. now rewrite H1. Qed.
Lemma same_co_safe a b : same_co a b -> safe b = safe a.
Proof. intros [H1 H2]. unfold safe. now rewrite H1, H2. Qed.
Lemma same_co_tmp a t : same_co a (set_tmp a t). Proof. split; reflexivity. Qed.

(* while the temporary file is written only its byte count moves, whatever the environment does *)
Lemma write_chunks_spec ch : forall m c o v b t,
  m_fs m = mkFS c o (Some (mkF v b t)) ->
  forall m' w, write_chunks m ch = (m', w) ->
  m_reg m' = m_reg m /\
  exists b', m_fs m' = mkFS c o (Some (mkF v b' t)) /\ (w = Some false -> b' = b + fold_right N.add 0 ch).
Proof.
  induction ch as [|x r IH]; intros m c o v b t Hfs m' w H.
  - cbn in H. inversion H; subst. split; [reflexivity|]. exists b. split; auto. intros _. cbn. lia.
  - cbn [write_chunks] in H. destruct (pop m (SWrite x)) as [oc m1] eqn:Ep.
    destruct (pop_spec _ _ _ _ Ep) as (Hf1 & Hr1).
    destruct oc as [| |j].
    + assert (Hfs1 : m_fs (set_fs m1 (add_bytes (m_fs m1) x)) = mkFS c o (Some (mkF v (b + x) t))).
      { cbn. rewrite Hf1, Hfs. reflexivity. }
      destruct (IH _ _ _ _ _ _ Hfs1 _ _ H) as (Hb & b' & Hd & He).
      split; [cbn in Hb; congruence|].
      exists b'. split; auto. intros Hw. rewrite (He Hw). cbn [fold_right]. lia.
    + inversion H; subst. split; [exact Hr1|]. exists b. rewrite Hf1, Hfs. split; [reflexivity | discriminate].
    + inversion H; subst. cbn. split; [exact Hr1|]. rewrite Hf1, Hfs. cbn. eexists. split; [reflexivity | discriminate].
Qed.

Lemma close_stream_spec m tail c o v b t :
  m_fs m = mkFS c o (Some (mkF v b t)) ->
  forall m' r, close_stream m tail = (m', r) ->
  (r <> None -> m_reg m' = NotOpen) /\
  exists b', m_fs m' = mkFS c o (Some (mkF v b' t)) /\ (r = Some false -> b' = b + tail).
Proof.
  intros Hfs m' r. unfold close_stream.
  destruct (tail =? 0) eqn:Et.
  - apply N.eqb_eq in Et. subst tail.
    destruct (pop m SClose) as [oc m2] eqn:Ep.
    destruct (pop_spec _ _ _ _ Ep) as (Hf & Hr).
    destruct oc as [| |j]; intros H; inversion H; subst; cbn [set_reg m_plan m_reg m_fs];
      (split; [intros Hx; try reflexivity; congruence |
       exists b; rewrite Hf, Hfs; split; [reflexivity | intros Hx; try discriminate; lia]]).
  - destruct (pop m (SWrite tail)) as [ot m1] eqn:Ep1.
    destruct (pop_spec _ _ _ _ Ep1) as (Hf1 & Hr1).
    destruct ot as [| |j].
    + destruct (pop (set_fs m1 (add_bytes (m_fs m1) tail)) SClose) as [oc m2] eqn:Ep2.
      destruct (pop_spec _ _ _ _ Ep2) as (Hf2 & Hr2).
      cbn [set_fs m_fs] in Hf2. rewrite Hf1, Hfs in Hf2. cbn [add_bytes tmp set_tmp cur old f_ver f_bytes f_total] in Hf2.
      destruct oc as [| |j]; intros H; inversion H; subst; cbn [set_reg m_plan m_reg m_fs];
        (split; [intros Hx; try reflexivity; congruence |
         exists (b + tail); rewrite Hf2; split; [reflexivity | intros Hx; try discriminate; reflexivity]]).
    + destruct (pop m1 SClose) as [oc m2] eqn:Ep2.
      destruct (pop_spec _ _ _ _ Ep2) as (Hf2 & Hr2).
      destruct oc as [| |j]; intros H; inversion H; subst; cbn [set_reg m_plan m_reg m_fs];
        (split; [intros Hx; try reflexivity; congruence |
         exists b; rewrite Hf2, Hf1, Hfs; split; [reflexivity | intros Hx; discriminate]]).
    + intros H; inversion H; subst. cbn [set_fs m_plan m_fs].
      split; [intros Hx; congruence|].
      rewrite Hf1, Hfs. cbn [add_bytes tmp set_tmp cur old f_ver f_bytes f_total].
      eexists. split; [reflexivity | discriminate].
Qed.

Lemma fold_total ch tail : total_of ch tail = fold_right N.add 0 ch + tail.
Proof. unfold total_of. induction ch as [|c r IH]; cbn [fold_right]; lia. Qed.

Lemma complete_some v b t : complete (Some (mkF v b t)) = (b =? t).
Proof. reflexivity. Qed.

(* what matters of a directory for the property, and that one step keeps *)
Definition keeps (fs fs' : fsys) : Prop :=
  (curok fs = true -> curok fs' = true) /\ (curok fs = true -> safe fs = true -> safe fs' = true).

Lemma keeps_same_co a b : same_co a b -> keeps a b.
Proof. intros H. split; [now rewrite (same_co_curok _ _ H) | now rewrite (same_co_safe _ _ H)]. Qed.

Lemma curok_complete t o x : complete t = true -> curok (mkFS t o x) = true.
Proof. intros H. unfold curok. cbn [cur]. destruct t; [exact H | reflexivity]. Qed.
Lemma safe_complete t o x : complete t = true -> safe (mkFS t o x) = true.
Proof. intros H. unfold safe. cbn [cur]. now rewrite H. Qed.

(* backup_file(<name>) then rename(<name>.tmp, <name>), with a complete temporary file *)
Lemma install_spec w m : complete (tmp (m_fs m)) = true ->
  forall m' r, install w m = (m', r) ->
  m_reg m' = m_reg m /\ keeps (m_fs m) (m_fs m') /\
  (r = Done true -> curok (m_fs m') = true /\ safe (m_fs m') = true).
Proof.
  intros Htmp m' r. unfold install. destruct (w_backup w).
  2:{ destruct (pop m SRenameT) as [o4 m4] eqn:E4. destruct (pop_spec _ _ _ _ E4) as (Hf4 & Hr4).
      destruct o4 as [| |j4]; intros H; inversion H; subst; cbn [set_fs m_fs m_reg]; rewrite ?Hf4.
      + split; [exact Hr4|]. split.
        * split; intros; [now apply curok_complete | now apply safe_complete].
        * intros _. split; [now apply curok_complete | now apply safe_complete].
      + split; [exact Hr4|]. split; [apply keeps_same_co, same_co_refl | discriminate].
      + split; [exact Hr4|]. split; [apply keeps_same_co, same_co_refl | discriminate]. }
  unfold backup.
  destruct (pop m SAccess) as [o1 m1] eqn:E1. destruct (pop_spec _ _ _ _ E1) as (Hf1 & Hr1).
  destruct o1 as [| |j1].
  2:{ intros H; inversion H; subst. rewrite Hf1. split; [exact Hr1|]. split; [apply keeps_same_co, same_co_refl | discriminate]. }
  2:{ intros H; inversion H; subst. rewrite Hf1. split; [exact Hr1|]. split; [apply keeps_same_co, same_co_refl | discriminate]. }
  rewrite Hf1.
  destruct (cur (m_fs m)) as [f|] eqn:Ec.
  - destruct (pop m1 SRename) as [o2 m2] eqn:E2. destruct (pop_spec _ _ _ _ E2) as (Hf2 & Hr2).
    destruct o2 as [| |j2].
    2:{ intros H; inversion H; subst. rewrite Hf2, Hf1. split; [congruence|]. split; [apply keeps_same_co, same_co_refl | discriminate]. }
    2:{ intros H; inversion H; subst. rewrite Hf2, Hf1. split; [congruence|]. split; [apply keeps_same_co, same_co_refl | discriminate]. }
    set (m3 := set_fs m2 _).
    assert (Hfs3 : m_fs m3 = mkFS None (Some f) (tmp (m_fs m))) by (cbn; now rewrite Hf2, Hf1, Ec).
    destruct (pop m3 SRenameT) as [o4 m4] eqn:E4. destruct (pop_spec _ _ _ _ E4) as (Hf4 & Hr4).
    assert (Hreg : m_reg m4 = m_reg m) by (rewrite Hr4; cbn; congruence).
    destruct o4 as [| |j4]; intros H; inversion H; subst; cbn [set_fs m_fs m_reg]; rewrite ?Hf4, ?Hfs3; cbn [tmp old cur].
    + split; [exact Hreg|]. split.
      * split; intros; [now apply curok_complete | now apply safe_complete].
      * intros _. split; [now apply curok_complete | now apply safe_complete].
    + split; [exact Hreg|]. split; [|discriminate].
      split; [reflexivity|]. intros Hc _. unfold safe. cbn [cur old]. unfold curok in Hc. rewrite Ec in Hc. now rewrite Hc.
    + split; [exact Hreg|]. split; [|discriminate].
      split; [reflexivity|]. intros Hc _. unfold safe. cbn [cur old]. unfold curok in Hc. rewrite Ec in Hc. now rewrite Hc.
  - destruct (pop m1 SRenameT) as [o4 m4] eqn:E4. destruct (pop_spec _ _ _ _ E4) as (Hf4 & Hr4).
    assert (Hreg : m_reg m4 = m_reg m) by congruence.
    destruct o4 as [| |j4]; intros H; inversion H; subst; cbn [set_fs m_fs m_reg]; rewrite ?Hf4, ?Hf1.
    + split; [exact Hreg|]. split.
      * split; intros; [now apply curok_complete | now apply safe_complete].
      * intros _. split; [now apply curok_complete | now apply safe_complete].
    + split; [exact Hreg|]. split; [apply keeps_same_co, same_co_refl | discriminate].
    + split; [exact Hreg|]. split; [apply keeps_same_co, same_co_refl | discriminate].
Qed.

Definition reg_idle (s : stream) : Prop := s = NotOpen \/ s = Open true.

(* writing the temporary file, closing it, installing it *)
Lemma body_spec w m ch tail c o v :
  m_fs m = mkFS c o (Some (mkF v 0 (total_of ch tail))) ->
  forall m' r, body w m ch tail = (m', r) ->
  keeps (m_fs m) (m_fs m') /\ (r <> Dead -> reg_idle (m_reg m')) /\
  (r = Done true -> curok (m_fs m') = true /\ safe (m_fs m') = true).
Proof.
  intros Hfs m' r. unfold body.
  destruct (write_chunks m ch) as [m5 w0] eqn:Ew.
  destruct (write_chunks_spec ch m _ _ _ _ _ Hfs _ _ Ew) as (Hr5 & b5 & Hfs5 & Hb5).
  assert (Hco5 : same_co (m_fs m) (m_fs m5)) by (rewrite Hfs, Hfs5; split; reflexivity).
  destruct w0 as [[|]|].
  - destruct (w_sticky w).
    + intros H; inversion H; subst. cbn [set_reg m_fs m_reg].
      split; [now apply keeps_same_co|]. split; [intros _; now right | discriminate].
    + destruct (pop m5 SClose) as [oc mc] eqn:Epc. destruct (pop_spec _ _ _ _ Epc) as (Hfc & Hrc).
      assert (Hcoc : same_co (m_fs m) (m_fs mc)) by (rewrite Hfc; exact Hco5).
      destruct oc as [| |jc]; intros H; inversion H; subst; cbn [set_reg m_fs m_reg];
        (split; [now apply keeps_same_co|]; split; [intros Hx; try (now left); congruence | discriminate]).
  - destruct (close_stream m5 tail) as [m6 cr] eqn:Ec6.
    destruct (close_stream_spec _ _ _ _ _ _ _ Hfs5 _ _ Ec6) as (Hr6 & b6 & Hfs6 & Hb6).
    assert (Hco6 : same_co (m_fs m) (m_fs m6)) by (rewrite Hfs, Hfs6; split; reflexivity).
    destruct cr as [[|]|].
    + intros H; inversion H; subst. split; [now apply keeps_same_co|].
      split; [intros _; left; apply Hr6; discriminate | discriminate].
    + intros H.
      assert (Htmp : complete (tmp (m_fs m6)) = true).
      { rewrite Hfs6. cbn [tmp]. rewrite complete_some. apply N.eqb_eq.
        rewrite (Hb6 eq_refl), (Hb5 eq_refl), fold_total. lia. }
      destruct (install_spec w m6 Htmp _ _ H) as (Hreg & Hk & Hd).
      split.
      * destruct Hk as [Hk1 Hk2]. split.
        -- intros Hc. apply Hk1. now rewrite (same_co_curok _ _ Hco6).
        -- intros Hc Hs. apply Hk2; [now rewrite (same_co_curok _ _ Hco6) | now rewrite (same_co_safe _ _ Hco6)].
      * split; [|exact Hd]. intros _. left. rewrite Hreg. apply Hr6. discriminate.
    + intros H; inversion H; subst. split; [now apply keeps_same_co|]. split; [congruence | discriminate].
  - intros H; inversion H; subst. split; [now apply keeps_same_co|]. split; [congruence | discriminate].
Qed.

Lemma open_tmp_spec w m v total : reg_idle (m_reg m) ->
  forall m' b, open_tmp w m v total = (m', b) ->
  same_co (m_fs m) (m_fs m') /\
  (b = Some true -> reg_idle (m_reg m')) /\
  (b = Some false -> tmp (m_fs m') = Some (mkF v 0 total)).
Proof.
  intros Hreg m' b. unfold open_tmp.
  destruct (pop m SUnlink) as [o0 m0] eqn:E0. destruct (pop_spec _ _ _ _ E0) as (Hf0 & Hr0).
  destruct o0 as [| |j0].
  2:{ intros H; inversion H; subst. rewrite Hf0. split; [apply same_co_refl|]. split; [intros _; now rewrite Hr0 | discriminate]. }
  2:{ intros H; inversion H; subst. rewrite Hf0. split; [apply same_co_refl|]. split; discriminate. }
  set (m0' := set_fs m0 _).
  assert (Hco0 : same_co (m_fs m) (m_fs m0')) by (cbn; rewrite Hf0; apply same_co_tmp).
  destruct (pop m0' SAccessT) as [o1 m1] eqn:E1. destruct (pop_spec _ _ _ _ E1) as (Hf1 & Hr1).
  destruct o1 as [| |j1].
  2:{ intros H; inversion H; subst. rewrite Hf1. split; [exact Hco0|]. split; [intros _; rewrite Hr1; cbn; now rewrite Hr0 | discriminate]. }
  2:{ intros H; inversion H; subst. rewrite Hf1. split; [exact Hco0|]. split; discriminate. }
  destruct (pop m1 SOpen) as [o3 m3] eqn:E3. destruct (pop_spec _ _ _ _ E3) as (Hf3 & Hr3).
  destruct o3 as [| |j3]; intros H; inversion H; subst; cbn [set_reg set_fs m_fs m_reg].
  - split; [|split; [discriminate | intros _; reflexivity]].
    eapply same_co_trans; [exact Hco0|]. rewrite Hf3, Hf1. apply same_co_tmp.
  - destruct (w_sticky w); cbn [set_reg m_fs m_reg]; rewrite Hf3, Hf1; (split; [exact Hco0|]; split; [intros _ | discriminate]).
    + now right.
    + rewrite Hr3, Hr1. cbn. now rewrite Hr0.
  - rewrite Hf3, Hf1. split; [exact Hco0|]. split; discriminate.
Qed.

(* one save, from a state in which the stream is not registered (or registered and failed), under ANY
   behaviour of the environment (success, error return or death at every call) *)
Lemma save_any w m v ch tail : reg_idle (m_reg m) ->
  forall m' r, save_w w m v ch tail = (m', r) ->
  keeps (m_fs m) (m_fs m') /\ (r <> Dead -> reg_idle (m_reg m')) /\
  (r = Done true -> curok (m_fs m') = true /\ safe (m_fs m') = true).
Proof.
  intros Hreg m' r. unfold save_w. destruct Hreg as [Hr|Hr]; rewrite Hr.
  - destruct (open_tmp w m v (total_of ch tail)) as [m1 b] eqn:Eo.
    destruct (open_tmp_spec w m v _ (or_introl Hr) _ _ Eo) as (Hco & Hbt & Hbf).
    destruct b as [[|]|].
    + intros H; inversion H; subst. split; [now apply keeps_same_co|]. split; [intros _; now apply Hbt | discriminate].
    + intros H.
      assert (Hfs1 : m_fs m1 = mkFS (cur (m_fs m1)) (old (m_fs m1)) (Some (mkF v 0 (total_of ch tail)))).
      { rewrite <- (Hbf eq_refl). destruct (m_fs m1); reflexivity. }
      destruct (body_spec w m1 ch tail _ _ v Hfs1 _ _ H) as (Hk & Hri & Hd).
      split; [|split; [exact Hri | exact Hd]].
      destruct Hk as [Hk1 Hk2]. split.
      * intros Hc. apply Hk1. now rewrite (same_co_curok _ _ Hco).
      * intros Hc Hs. apply Hk2; [now rewrite (same_co_curok _ _ Hco) | now rewrite (same_co_safe _ _ Hco)].
    + intros H; inversion H; subst. split; [now apply keeps_same_co|]. split; [congruence | discriminate].
  - destruct (pop m SUnlink) as [o0 m0] eqn:E0. destruct (pop_spec _ _ _ _ E0) as (Hf0 & Hr0).
    destruct o0 as [| |j0]; intros H; inversion H; subst; cbn [set_fs m_fs m_reg].
    + split; [apply keeps_same_co; rewrite Hf0; apply same_co_tmp|]. split; [intros _; right; congruence | discriminate].
    + split; [apply keeps_same_co; rewrite Hf0; apply same_co_refl|]. split; [intros _; right; congruence | discriminate].
    + split; [apply keeps_same_co; rewrite Hf0; apply same_co_refl|]. split; [congruence | discriminate].
Qed.

(* one process: any number of saves, going on after errors, any environment *)
Lemma session_any w l : forall m, reg_idle (m_reg m) -> curok (m_fs m) = true ->
  forall m' rs, session_w w m l = (m', rs) ->
  curok (m_fs m') = true /\ (safe (m_fs m) = true \/ completed rs = true -> safe (m_fs m') = true).
Proof.
  induction l as [|s l IH]; intros m Hreg Hcur m' rs H.
  - cbn in H. inversion H; subst. split; [exact Hcur|]. intros [Hs|Hc]; [exact Hs | discriminate].
  - cbn [session_w] in H. destruct (save_w w m (s_ver s) (s_chunks s) (s_tail s)) as [m1 res] eqn:Es.
    destruct (save_any _ _ _ _ _ Hreg _ _ Es) as ((Hk1 & Hk2) & Hidle & Hdone).
    destruct res as [ok|].
    + destruct (session_w w m1 l) as [m2 rs2] eqn:Ess. inversion H; subst.
      destruct (IH _ (Hidle ltac:(discriminate)) (Hk1 Hcur) _ _ Ess) as (Hc2 & Hs2).
      split; [exact Hc2|]. intros Hor. apply Hs2.
      destruct Hor as [Hs|Hc].
      * left. now apply Hk2.
      * destruct ok.
        -- left. now apply Hdone.
        -- right. exact Hc.
    + inversion H; subst. split; [now apply Hk1|].
      intros [Hs|Hc]; [now apply Hk2 | discriminate].
Qed.

(* any number of process lifetimes on the same directory *)
Lemma history_any w h : forall fs, curok fs = true ->
  forall fs' out, history_w w fs h = (fs', out) ->
  curok fs' = true /\ (safe fs = true \/ existsb (fun o => completed (fst o)) out = true -> safe fs' = true).
Proof.
  induction h as [|[l plan] h IH]; intros fs Hcur fs' out H.
  - cbn in H. inversion H; subst. split; [exact Hcur|]. intros [Hs|Hc]; [exact Hs | discriminate].
  - cbn [history_w] in H. destruct (session_w w (start fs plan) l) as [m rs] eqn:Es.
    destruct (history_w w (m_fs m) h) as [fs2 out2] eqn:Eh. inversion H; subst.
    destruct (session_any w l (start fs plan) (or_introl eq_refl) Hcur _ _ Es) as (Hc1 & Hs1).
    destruct (IH _ Hc1 _ _ Eh) as (Hc2 & Hs2).
    split; [exact Hc2|]. intros Hor. apply Hs2.
    cbn [existsb fst] in Hor. destruct Hor as [Hs|Hc].
    + left. apply Hs1. now left.
    + apply orb_true_iff in Hc. destruct Hc as [Hc|Hc]; [left; apply Hs1; now right | now right].
Qed.

Lemma crash_consistent_w w fs h : curok fs = true ->
  let '(fs', out) := history_w w fs h in
  safe fs = true \/ existsb (fun o => completed (fst o)) out = true -> safe fs' = true.
Proof.
  intros Hc. destruct (history_w w fs h) as [fs' out] eqn:E. exact (proj2 (history_any w h fs Hc _ _ E)).
Qed.

Lemma crash_consistent fs h : curok fs = true ->
  let '(fs', out) := history fs h in
  safe fs = true \/ existsb (fun o => completed (fst o)) out = true -> safe fs' = true.
Proof. exact (crash_consistent_w W_restart fs h). Qed.

(* the name of the state file never holds an incomplete file *)
Lemma current_never_partial_w w fs h : curok fs = true -> curok (fst (history_w w fs h)) = true.
Proof.
  intros Hc. destruct (history_w w fs h) as [fs' out] eqn:E. exact (proj1 (history_any w h fs Hc _ _ E)).
Qed.

Lemma current_never_partial fs h : curok fs = true -> curok (fst (history fs h)) = true.
Proof. exact (current_never_partial_w W_restart fs h). Qed.

(* no error return is swallowed: a save that reports success has installed the complete new state *)
Lemma save_ok_is_complete m v ch tail : reg_idle (m_reg m) ->
  forall m', save m v ch tail = (m', Done true) ->
  complete (cur (m_fs m')) = true /\ m_reg m' = NotOpen.
Proof.
  intros Hreg m' H. unfold save in H. destruct (save_any _ _ _ _ _ Hreg _ _ H) as (_ & Hidle & Hd).
  destruct (Hd eq_refl) as [Hc Hs].
  (* the current file exists after a successful install: follow the code *)
  unfold save_w in H. destruct Hreg as [Hr|Hr]; rewrite Hr in H.
  - destruct (open_tmp W_restart m v (total_of ch tail)) as [m1 b] eqn:Eo. destruct b as [[|]|]; try discriminate.
    unfold body in H. cbn [W_restart w_sticky] in H.
    destruct (write_chunks m1 ch) as [m5 w] eqn:Ew. destruct w as [[|]|]; try discriminate.
    destruct (close_stream m5 tail) as [m6 cr] eqn:Ec6. destruct cr as [[|]|]; try discriminate.
    destruct (open_tmp_spec W_restart m v _ (or_introl Hr) _ _ Eo) as (_ & _ & Hbf).
    assert (Hfs1 : m_fs m1 = mkFS (cur (m_fs m1)) (old (m_fs m1)) (Some (mkF v 0 (total_of ch tail)))).
    { rewrite <- (Hbf eq_refl). destruct (m_fs m1); reflexivity. }
    destruct (write_chunks_spec ch m1 _ _ _ _ _ Hfs1 _ _ Ew) as (Hr5 & b5 & Hfs5 & Hb5).
    destruct (close_stream_spec _ _ _ _ _ _ _ Hfs5 _ _ Ec6) as (Hr6 & b6 & Hfs6 & Hb6).
    assert (Htmp : complete (tmp (m_fs m6)) = true).
    { rewrite Hfs6. cbn [tmp]. rewrite complete_some. apply N.eqb_eq.
      rewrite (Hb6 eq_refl), (Hb5 eq_refl), fold_total. lia. }
    destruct (install_spec W_restart m6 Htmp _ _ H) as (Hreg6 & _ & _).
    split; [|rewrite Hreg6; apply Hr6; discriminate].
    (* cur of the result is the temporary file *)
    unfold install in H. cbn [W_restart w_backup] in H. destruct (backup m6) as [m7 bk] eqn:Eb. destruct bk as [[|]|]; try discriminate.
    destruct (pop m7 SRenameT) as [o m8] eqn:E8. destruct o; try discriminate.
    inversion H; subst. cbn [set_fs m_fs cur].
    destruct (pop_spec _ _ _ _ E8) as (Hf8 & _). rewrite Hf8.
    unfold backup in Eb. destruct (pop m6 SAccess) as [o1 ma] eqn:Ea. destruct (pop_spec _ _ _ _ Ea) as (Hfa & _).
    destruct o1; try discriminate.
    destruct (cur (m_fs ma)).
    + destruct (pop ma SRename) as [o2 mb] eqn:Eb2. destruct (pop_spec _ _ _ _ Eb2) as (Hfb & _).
      destruct o2; try discriminate. inversion Eb; subst. cbn [set_fs m_fs tmp]. now rewrite Hfb, Hfa.
    + inversion Eb; subst. now rewrite Hfa.
  - destruct (pop m SUnlink) as [o0 m0]. destruct o0; discriminate.
Qed.

(* a stream that failed stays registered: every later save of the process returns an error and touches
   nothing but the temporary file *)
Lemma stuck_stream m v ch tail m' r : m_reg m = Open true -> save m v ch tail = (m', r) ->
  r <> Done true /\ same_co (m_fs m) (m_fs m').
Proof.
  intros Hr. unfold save, save_w. rewrite Hr.
  destruct (pop m SUnlink) as [o0 m0] eqn:E0. destruct (pop_spec _ _ _ _ E0) as (Hf0 & _).
  destruct o0; intros H; inversion H; subst; cbn [set_fs m_fs]; rewrite Hf0;
    (split; [discriminate | first [apply same_co_tmp | apply same_co_refl]]).
Qed.
