(* C11 (b): lemmas about the replace protocol. *)
From Coq Require Import NArith List Bool Lia.
From CV Require Import C11.CrashModel.
Import ListNotations.
Open Scope N_scope.

Lemma pop_spec m op : forall o m', pop m op = (o, m') ->
  m_fs m' = m_fs m /\ m_reg m' = m_reg m /\
  (kills_only (m_plan m) = true -> kills_only (m_plan m') = true /\ o <> OErr).
Proof.
  intros o m'. unfold pop. destruct (m_plan m) as [|o0 r] eqn:E; intros H; inversion H; subst; cbn.
  - repeat split; auto. discriminate.
  - repeat split; auto; unfold kills_only in *; cbn [forallb] in *; apply andb_true_iff in H0; destruct H0 as [Ha Hb]; auto.
    destruct o; cbn in Ha; congruence.
Qed.

(* after the open, the file system is (Some (v, b, t), o): only b moves *)
Lemma write_chunks_spec ch : forall m v b t o,
  m_fs m = mkFS (Some (mkF v b t)) o -> kills_only (m_plan m) = true ->
  forall m' w, write_chunks m ch = (m', w) ->
  kills_only (m_plan m') = true /\ m_reg m' = m_reg m /\ w <> Some true /\
  exists b', m_fs m' = mkFS (Some (mkF v b' t)) o /\ (w = Some false -> b' = b + fold_right N.add 0 ch).
Proof.
  induction ch as [|c r IH]; intros m v b t o Hfs Hk m' w H.
  - cbn in H. inversion H; subst. repeat split; auto; try discriminate.
    exists b. split; auto. intros _. cbn. lia.
  - cbn [write_chunks] in H. destruct (pop m (SWrite c)) as [oc m1] eqn:Ep.
    destruct (pop_spec _ _ _ _ Ep) as (Hf1 & Hr1 & Hk1). destruct (Hk1 Hk) as [Hk1' Hne].
    destruct oc as [| |j]; [| congruence |].
    + assert (Hfs1 : m_fs (set_fs m1 (add_bytes (m_fs m1) c)) = mkFS (Some (mkF v (b + c) t)) o).
      { cbn. rewrite Hf1, Hfs. reflexivity. }
      destruct (IH _ _ _ _ _ Hfs1 Hk1' _ _ H) as (Ha & Hb & Hc & b' & Hd & He).
      repeat split; auto. { cbn in Hb. congruence. }
      exists b'. split; auto. intros Hw. rewrite (He Hw). cbn [fold_right]. lia.
    + inversion H; subst. cbn. repeat split; auto; try discriminate.
      rewrite Hf1, Hfs. cbn. eexists. split; [reflexivity|]. discriminate.
Qed.

Lemma close_stream_spec m tail v b t o :
  m_fs m = mkFS (Some (mkF v b t)) o -> kills_only (m_plan m) = true ->
  forall m' dead, close_stream m tail = (m', dead) ->
  kills_only (m_plan m') = true /\
  exists b', m_fs m' = mkFS (Some (mkF v b' t)) o /\ (dead = false -> b' = b + tail /\ m_reg m' = NotOpen).
Proof.
  intros Hfs Hk m' dead. unfold close_stream.
  destruct (tail =? 0) eqn:Et.
  - apply N.eqb_eq in Et. subst tail.
    destruct (pop m SClose) as [oc m2] eqn:Ep.
    destruct (pop_spec _ _ _ _ Ep) as (Hf & Hr & Hk'). destruct (Hk' Hk) as [Hk2 Hne].
    destruct oc as [| |j]; [|congruence|]; intros H; inversion H; subst; cbn; split; auto;
      exists b; rewrite Hf, Hfs; split; auto; try discriminate. intros _. split; [lia|reflexivity].
  - destruct (pop m (SWrite tail)) as [ot m1] eqn:Ep1.
    destruct (pop_spec _ _ _ _ Ep1) as (Hf1 & Hr1 & Hk1). destruct (Hk1 Hk) as [Hk1' Hne1].
    destruct ot as [| |j]; [|congruence|].
    + destruct (pop (set_fs m1 (add_bytes (m_fs m1) tail)) SClose) as [oc m2] eqn:Ep2.
      destruct (pop_spec _ _ _ _ Ep2) as (Hf2 & Hr2 & Hk2). cbn in Hk2. destruct (Hk2 Hk1') as [Hk2' Hne2].
      cbn in Hf2. rewrite Hf1, Hfs in Hf2. cbn in Hf2.
      destruct oc as [| |j]; [|congruence|]; intros H; inversion H; subst; cbn; split; auto;
        exists (b + tail); rewrite Hf2; split; auto; try discriminate.
    + intros H; inversion H; subst. cbn. split; auto. rewrite Hf1, Hfs. cbn.
      eexists. split; [reflexivity|]. discriminate.
Qed.

Lemma fold_total ch tail : total_of ch tail = fold_right N.add 0 ch + tail.
Proof. unfold total_of. induction ch as [|c r IH]; cbn [fold_right]; lia. Qed.

Lemma complete_some v b t : complete (Some (mkF v b t)) = (b =? t).
Proof. reflexivity. Qed.

(* one save in a process that may die at any call but never sees an error return *)
Lemma save_kills m v ch tail : m_reg m = NotOpen -> curok (m_fs m) = true -> kills_only (m_plan m) = true ->
  forall m' r, save m v ch tail = (m', r) ->
  kills_only (m_plan m') = true /\
  (safe (m_fs m) = true -> safe (m_fs m') = true) /\
  (r <> Dead -> r = Done true /\ m_reg m' = NotOpen /\ curok (m_fs m') = true /\ safe (m_fs m') = true).
Proof.
  intros Hreg Hcur Hk m' r. unfold save. rewrite Hreg.
  destruct (pop m SAccess) as [o1 m1] eqn:E1.
  destruct (pop_spec _ _ _ _ E1) as (Hf1 & Hr1 & Hk1). destruct (Hk1 Hk) as [Hk1' Hne1].
  destruct o1 as [| |j1]; [|congruence|].
  2:{ intros H; inversion H; subst. rewrite Hf1. split; [auto|]. split; [auto|]. intros Hx. congruence. }
  (* the state of the directory after the optional rename: old is complete whenever the directory was safe *)
  assert (Hmid : forall m2 dead2,
    (if match cur (m_fs m1) with Some _ => true | None => false end
     then let '(o2, m2) := pop m1 SRename in
          match o2 with OKill _ => (m2, true) | OErr => (m2, false)
                      | OOk => (set_fs m2 (mkFS None (cur (m_fs m2))), false) end
     else (m1, false)) = (m2, dead2) ->
    kills_only (m_plan m2) = true /\ m_reg m2 = NotOpen /\
    (dead2 = true -> m_fs m2 = m_fs m) /\
    (dead2 = false -> cur (m_fs m2) = None /\ (safe (m_fs m) = true -> complete (old (m_fs m2)) = true))).
  { intros m2 dead2. rewrite Hf1. destruct (cur (m_fs m)) as [f|] eqn:Ec.
    - destruct (pop m1 SRename) as [o2 m2'] eqn:E2.
      destruct (pop_spec _ _ _ _ E2) as (Hf2 & Hr2 & Hk2). destruct (Hk2 Hk1') as [Hk2' Hne2].
      destruct o2 as [| |j2]; [|congruence|]; intros H; inversion H; subst; cbn.
      + split; [exact Hk2'|]. split; [congruence|]. split; [intros Hx; discriminate|].
        intros _. split; [reflexivity|]. intros _. rewrite Hf2, Hf1, Ec.
        unfold curok in Hcur. rewrite Ec in Hcur. exact Hcur.
      + split; [exact Hk2'|]. split; [congruence|]. split; [intros _; congruence|]. intros Hx; discriminate.
    - intros H; inversion H; subst. split; [exact Hk1'|]. split; [congruence|]. split; [intros Hx; discriminate|].
      intros _. split; [rewrite Hf1; exact Ec|]. intros Hs. rewrite Hf1. unfold safe in Hs. rewrite Ec in Hs. exact Hs. }
  match goal with |- context [match ?c with pair _ _ => _ end] =>
    specialize (Hmid (fst c) (snd c) (surjective_pairing c)); destruct c as [m2 dead2] end.
  cbn [fst snd] in Hmid. destruct Hmid as (Hk2 & Hr2 & Hd2 & Hnd2).
  destruct dead2.
  { intros H; inversion H; subst. rewrite (Hd2 eq_refl). split; [auto|]. split; [auto|]. intros Hx. congruence. }
  destruct (Hnd2 eq_refl) as [Hcn Hold].
  destruct (pop m2 SOpen) as [o3 m3] eqn:E3.
  destruct (pop_spec _ _ _ _ E3) as (Hf3 & Hr3 & Hk3). destruct (Hk3 Hk2) as [Hk3' Hne3].
  destruct o3 as [| |j3]; [|congruence|].
  2:{ intros H; inversion H; subst. rewrite Hf3. split; [auto|]. split; [|intros Hx; congruence].
      intros Hs. unfold safe. rewrite (Hold Hs). apply orb_true_r. }
  unfold body.
  set (m4 := set_reg (set_fs m3 _) (Open false)).
  assert (Hfs4 : m_fs m4 = mkFS (Some (mkF v 0 (total_of ch tail))) (old (m_fs m2))) by (cbn; now rewrite Hf3).
  assert (Hk4 : kills_only (m_plan m4) = true) by exact Hk3'.
  destruct (write_chunks m4 ch) as [m5 w] eqn:Ew.
  destruct (write_chunks_spec ch m4 _ _ _ _ Hfs4 Hk4 _ _ Ew) as (Hk5 & Hr5 & Hw & b5 & Hfs5 & Hb5).
  destruct w as [[|]|]; [congruence| |].
  2:{ intros H; inversion H; subst. rewrite Hfs5. split; [auto|]. split; [|intros Hx; congruence].
      intros Hs. unfold safe. cbn [cur old]. rewrite (Hold Hs). apply orb_true_r. }
  destruct (close_stream m5 tail) as [m6 dead6] eqn:Ec6.
  destruct (close_stream_spec _ _ _ _ _ _ Hfs5 Hk5 _ _ Ec6) as (Hk6 & b6 & Hfs6 & Hb6).
  destruct dead6; intros H; inversion H; subst; rewrite Hfs6.
  - split; [auto|]. split; [|intros Hx; congruence].
    intros Hs. unfold safe. cbn [cur old]. rewrite (Hold Hs). apply orb_true_r.
  - destruct (Hb6 eq_refl) as [Hb6' Hr6]. rewrite (Hb5 eq_refl) in Hb6'.
    assert (Hc : complete (Some (mkF v b6 (total_of ch tail))) = true).
    { rewrite complete_some. apply N.eqb_eq. rewrite fold_total. lia. }
    split; [auto|]. split.
    + intros _. unfold safe. cbn [cur old]. now rewrite Hc.
    + intros _. destruct (Hk1 Hk) as [_ _]. split; [reflexivity|]. split; [exact Hr6|]. split.
      * unfold curok. cbn [cur]. exact Hc.
      * unfold safe. cbn [cur old]. now rewrite Hc.
Qed.

Lemma session_kills l : forall m, m_reg m = NotOpen -> curok (m_fs m) = true -> kills_only (m_plan m) = true ->
  forall m' rs, session m l = (m', rs) ->
  safe (m_fs m) = true \/ completed rs = true -> safe (m_fs m') = true.
Proof.
  induction l as [|s l IH]; intros m Hreg Hcur Hk m' rs H Hor.
  - cbn in H. inversion H; subst. destruct Hor as [Hs|Hc]; [exact Hs | discriminate].
  - cbn [session] in H. destruct (save m (s_ver s) (s_chunks s) (s_tail s)) as [m1 res] eqn:Es.
    destruct (save_kills _ _ _ _ Hreg Hcur Hk _ _ Es) as (Hk1 & Hsafe & Hdone).
    destruct res as [ok|].
    + destruct (Hdone ltac:(discriminate)) as (Hok & Hr1 & Hc1 & Hs1).
      destruct (session m1 l) as [m2 rs2] eqn:Ess. inversion H; subst.
      apply (IH _ Hr1 Hc1 Hk1 _ _ Ess). left. exact Hs1.
    + inversion H; subst. destruct Hor as [Hs|Hc]; [now apply Hsafe | discriminate].
Qed.

Lemma crash_consistent_one_process fs plan l : curok fs = true -> kills_only plan = true ->
  let '(m', rs) := session (start fs plan) l in
  safe fs = true \/ completed rs = true -> safe (m_fs m') = true.
Proof.
  intros Hc Hk. destruct (session (start fs plan) l) as [m' rs] eqn:E.
  apply (session_kills l (start fs plan)); auto.
Qed.

(* a stream that failed stays registered: every later save of the process returns an error without
   touching the directory *)
Lemma stuck_stream m v ch tail : m_reg m = Open true -> save m v ch tail = (m, Done false).
Proof. intros H. unfold save. now rewrite H. Qed.
