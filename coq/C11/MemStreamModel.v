(* C11 (a): model of cvm::memory_stream (src/colvars_memstream.h, src/colvars_memstream.cpp).
   Definitions only.  Bytes are N (the model copies them verbatim and only interprets the
   8-byte little-endian length prefixes); every size_t sum/product is taken mod 2^64 explicitly.
   The model mirrors the code that exists (with the two fix: commits of this slice: write_vector
   advances the cursor by sizeof(size_t) after the length prefix; read_vector compares the number
   of elements with (data_length_ - read_pos_) / sizeof(T) instead of multiplying first): reads do
   not look at the previous error state, done_reading() clears every error bit, has_remaining()
   subtracts unsigned. *)
From Coq Require Import NArith List Bool.
Import ListNotations.
Open Scope N_scope.

Definition byte := N.
Definition W64 : N := 18446744073709551616.          (* 2^64 *)
Definition w64 (x : N) : N := x mod W64.
Definition wsub (a b : N) : N := (a + W64 - b mod W64) mod W64.   (* size_t subtraction *)
Definition PTRDIFF_MAX : N := 9223372036854775807.
(* std::vector<T>::max_size() of libstdc++: PTRDIFF_MAX / sizeof(T); resize(n) beyond it throws *)
Definition max_elems (sz : N) : N := PTRDIFF_MAX / sz.

Definition blen {A : Type} (b : list A) : N := N.of_nat (length b).

(* little-endian encoding of a size_t (memcpy of &vector_length on x86-64) *)
Fixpoint le_bytes (k : nat) (n : N) : list byte :=
  match k with O => [] | S k' => n mod 256 :: le_bytes k' (n / 256) end.
Fixpoint of_le (bs : list byte) : N :=
  match bs with [] => 0 | b :: r => b + 256 * of_le r end.
Definition le64 (n : N) : list byte := le_bytes 8 n.

Record mstream := mkMS {
  ms_buf : list byte;   (* the buffer: internal_buffer_/external output vector (length = buffer.size()),
                           or the external input buffer of data_length_ bytes *)
  ms_len : N;           (* data_length_ *)
  ms_max : N;           (* max_length_ *)
  ms_eof : bool; ms_fail : bool; ms_bad : bool;    (* state_ *)
  ms_pos : N;           (* read_pos_ *)
  ms_oob : bool         (* model only, sticky: a non-empty memcpy touched bytes outside the buffer *)
}.

Definition good (s : mstream) : bool := negb (ms_eof s || ms_fail s || ms_bad s).

Definition DEFAULT_MAX : N := 68719476736.   (* 1 << 36 *)
Definition empty_stream (mx : N) : mstream := mkMS [] 0 mx false false false 0 false.
(* memory_stream(size_t n, unsigned char const *buf) *)
Definition input_stream (b : list byte) : mstream := mkMS b (blen b) (blen b) false false false 0 false.

(* std::vector::resize: keep a prefix or append zero bytes *)
Definition resize (b : list byte) (n : N) : list byte :=
  firstn (N.to_nat n) b ++ repeat 0 (N.to_nat n - length b).

(* memcpy(buffer + off, src, |src|): the part that falls inside the buffer is stored;
   the boolean says whether some byte fell outside *)
Definition blit (b : list byte) (off : N) (src : list byte) : list byte * bool :=
  let o := N.to_nat off in
  let room := (length b - o)%nat in
  let inside := firstn room src in
  (firstn o b ++ inside ++ skipn (o + length inside)%nat b,
   negb (Nat.leb (length src) room) && negb (Nat.eqb (length src) 0%nat)).

(* memcpy(dst, buffer + off, n): bytes outside the buffer read as 0 in the model, flagged *)
Definition slice (b : list byte) (off n : N) : list byte * bool :=
  let got := firstn (N.to_nat n) (skipn (N.to_nat off) b) in
  (got ++ repeat 0 (N.to_nat n - length got), negb (off + n <=? blen b) && negb (n =? 0)).

(* bool expand_output_buffer(size_t add_bytes) *)
Definition expand (s : mstream) (add : N) : mstream * bool :=
  let sz := blen (ms_buf s) in
  let s' := if w64 (sz + add) <=? ms_max s
            then mkMS (resize (ms_buf s) (w64 (sz + add))) (ms_len s) (ms_max s) (ms_eof s) (ms_fail s) (ms_bad s) (ms_pos s) (ms_oob s)
            else mkMS (ms_buf s) (ms_len s) (ms_max s) (ms_eof s) (ms_fail s) true (ms_pos s) (ms_oob s) in
  (s', good s').

(* memcpy(output_location(), src, n); incr_write_pos(adv) *)
Definition put (s : mstream) (src : list byte) (adv : N) : mstream :=
  let '(b, o) := blit (ms_buf s) (ms_len s) src in
  mkMS b (w64 (ms_len s + adv)) (ms_max s) (ms_eof s) (ms_fail s) (ms_bad s) (ms_pos s) (ms_oob s || o).

(* template <typename T> void write_object(T const &t), sizeof(T) = |bytes| *)
Definition write_object (s : mstream) (bytes : list byte) : mstream :=
  let n := blen bytes in
  let '(s1, ok) := expand s n in
  if ok then put s1 bytes n else s1.

(* template <> void write_object(std::string const &t) *)
Definition write_string (s : mstream) (chars : list byte) : mstream :=
  let n := blen chars in
  let '(s1, ok) := expand s (w64 (8 + n)) in
  if ok then put (put s1 (le64 n) 8) chars n else s1.

(* template <typename T> void write_vector(std::vector<T> const &t), sizeof(T) = sz *)
Definition write_vector (s : mstream) (sz : N) (elems : list (list byte)) : mstream :=
  let n := blen elems in
  let '(s1, ok) := expand s (w64 (8 + w64 (sz * n))) in
  if ok then put (put s1 (le64 n) 8) (concat elems) (w64 (n * sz)) else s1.

Definition set_state (s : mstream) (e f b : bool) : mstream :=
  mkMS (ms_buf s) (ms_len s) (ms_max s) e f b (ms_pos s) (ms_oob s).
Definition begin_reading (s : mstream) : mstream := set_state s true (ms_fail s) (ms_bad s).
Definition done_reading (s : mstream) : mstream := set_state s false false false.
Definition has_remaining (s : mstream) (c : N) : bool := c <=? wsub (ms_len s) (ms_pos s).

(* memcpy(dst, input_location(), n); incr_read_pos(n) *)
Definition take (s : mstream) (n : N) : list byte * mstream :=
  let '(v, o) := slice (ms_buf s) (ms_pos s) n in
  (v, mkMS (ms_buf s) (ms_len s) (ms_max s) (ms_eof s) (ms_fail s) (ms_bad s) (w64 (ms_pos s + n)) (ms_oob s || o)).

Inductive rres :=
| RNone                               (* nothing delivered, error bits set *)
| RBytes (v : list byte)              (* an object or the characters of a string *)
| RVec (v : list (list byte))         (* the elements of a vector *)
| RThrow (n : N).                     (* std::vector::resize(n) throws std::length_error *)

(* template <typename T> void read_object(T &t), sizeof(T) = sz *)
Definition read_object (s : mstream) (sz : N) : rres * mstream :=
  let s0 := begin_reading s in
  if has_remaining s0 sz then
    let '(v, s1) := take s0 sz in (RBytes v, done_reading s1)
  else (RNone, s0).

(* template <> void read_object(std::string &t) *)
Definition read_string (s : mstream) : rres * mstream :=
  let s0 := begin_reading s in
  if has_remaining s0 8 then
    let '(lb, s1) := take s0 8 in
    let n := of_le lb in
    if has_remaining s1 n then
      let '(v, s2) := take s1 n in (RBytes v, done_reading s2)
    else (RNone, set_state s1 (ms_eof s1) true (ms_bad s1))
  else (RNone, s0).

(* split n*sz bytes into n elements of sz bytes *)
Fixpoint chunks (k : nat) (sz : nat) (b : list byte) : list (list byte) :=
  match k with O => [] | S k' => firstn sz b :: chunks k' sz (skipn sz b) end.

(* template <typename T> void read_vector(std::vector<T> &t), sizeof(T) = sz *)
Definition read_vector (s : mstream) (sz : N) : rres * mstream :=
  let s0 := begin_reading s in
  if has_remaining s0 8 then
    let '(lb, s1) := take s0 8 in
    let n := of_le lb in
    (* vector_length <= (data_length_ - read_pos_) / sizeof(T) *)
    if n <=? wsub (ms_len s1) (ms_pos s1) / sz then
      if max_elems sz <? n then (RThrow n, s1)          (* t.resize(vector_length) would throw *)
      else
        let '(v, s2) := take s1 (w64 (n * sz)) in
        (RVec (chunks (N.to_nat n) (N.to_nat sz) v), done_reading s2)
    else (RNone, set_state s1 (ms_eof s1) true (ms_bad s1))
  else (RNone, s0).

(* ---- the destination of a vector read: std::vector<T> &t may hold anything before the call ---- *)
Definition zero_elem (sz : N) : list byte := repeat 0 (N.to_nat sz).
(* t.resize(n): the first n elements are kept, new ones are value-initialised *)
Definition vresize (sz : N) (dest : list (list byte)) (n : nat) : list (list byte) :=
  firstn n dest ++ repeat (zero_elem sz) (n - length dest).
(* memcpy(t.data(), input_location(), k * sizeof(T)): the first k elements are overwritten *)
Definition voverwrite (dest payload : list (list byte)) : list (list byte) :=
  payload ++ skipn (length payload) dest.
(* read_vector(t) on a destination with previous contents dest: what t holds afterwards.  When nothing is
   delivered (length word missing, or more elements announced than bytes left) t is not touched *)
Definition read_vector_into (s : mstream) (sz : N) (dest : list (list byte)) : rres * mstream * list (list byte) :=
  match read_vector s sz with
  | (RVec v, s') => (RVec v, s', voverwrite (vresize sz dest (length v)) v)
  | (r, s') => (r, s', dest)
  end.

(* ---- items and shapes: sequences of writes and the matching sequence of reads ---- *)
Inductive item :=
| IObj (b : list byte)
| IStr (b : list byte)
| IVec (sz : N) (es : list (list byte)).

Inductive shape := SObj (sz : N) | SStr | SVec (sz : N).

Definition shape_of (i : item) : shape :=
  match i with IObj b => SObj (blen b) | IStr _ => SStr | IVec sz _ => SVec sz end.

Definition write_item (s : mstream) (i : item) : mstream :=
  match i with
  | IObj b => write_object s b
  | IStr b => write_string s b
  | IVec sz es => write_vector s sz es
  end.

Definition write_items (s : mstream) (l : list item) : mstream := fold_left write_item l s.

Definition read_shape (s : mstream) (sh : shape) : rres * mstream :=
  match sh with
  | SObj sz => read_object s sz
  | SStr => read_string s
  | SVec sz => read_vector s sz
  end.

Definition item_of (sh : shape) (r : rres) : option item :=
  match sh, r with
  | SObj _, RBytes v => Some (IObj v)
  | SStr, RBytes v => Some (IStr v)
  | SVec sz, RVec v => Some (IVec sz v)
  | _, _ => None
  end.

(* read the shapes in order, as the callers do (`if (!(is >> x)) return is;`): stop at the first
   read that does not deliver *)
Fixpoint read_items (s : mstream) (l : list shape) : list item * mstream * bool :=
  match l with
  | [] => ([], s, true)
  | sh :: r =>
    let '(res, s1) := read_shape s sh in
    match item_of sh res with
    | Some it => let '(its, s2, ok) := read_items s1 r in (it :: its, s2, ok)
    | None => ([], s1, false)
    end
  end.

(* what a consumer of the written stream sees: output_buffer()[0 .. length()) *)
Definition output (s : mstream) : list byte * bool := slice (ms_buf s) 0 (ms_len s).

(* ---- the format (specification): what the bytes of an item are meant to be ---- *)
Definition enc (i : item) : list byte :=
  match i with
  | IObj b => b
  | IStr b => le64 (blen b) ++ b
  | IVec sz es => le64 (blen es) ++ concat es
  end.
Definition enc_all (l : list item) : list byte := concat (map enc l).

Definition item_ok (i : item) : Prop :=
  match i with
  | IObj b => True
  | IStr b => 8 + blen b < W64
  | IVec sz es => 0 < sz /\ Forall (fun e => blen e = sz) es /\ sz * blen es <= PTRDIFF_MAX
  end.

Definition vec8 (i : item) : Prop := match i with IVec sz _ => sz = 8 | _ => True end.

(* ---- operation sequences for the correspondence check ---- *)
Inductive op :=
| OWObj (b : list byte) | OWStr (b : list byte) | OWVec (sz : N) (es : list (list byte))
| ORObj (sz : N) | ORStr | ORVec (sz : N)
| OSeek (p : N) | OClear
| OReopen.        (* memory_stream(os.length(), os.output_buffer()) *)

Definition run_op (s : mstream) (o : op) : rres * mstream :=
  match o with
  | OWObj b => (RNone, write_object s b)
  | OWStr b => (RNone, write_string s b)
  | OWVec sz es => (RNone, write_vector s sz es)
  | ORObj sz => read_object s sz
  | ORStr => read_string s
  | ORVec sz => read_vector s sz
  | OSeek p => (RNone, mkMS (ms_buf s) (ms_len s) (ms_max s) (ms_eof s) (ms_fail s) (ms_bad s) p (ms_oob s))
  | OClear => (RNone, done_reading s)
  | OReopen => let '(b, o) := output s in
               (RNone, mkMS b (ms_len s) (ms_len s) false false false 0 (ms_oob s || o))
  end.
