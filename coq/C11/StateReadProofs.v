(* C11 (c): lemmas about the text state reader model. *)
From Coq Require Import NArith List Bool Lia Arith.
From CV Require Import C11.StateReadModel.
Import ListNotations.
Open Scope N_scope.

(* from brace depth d (>= 1) the depth never comes back to 0: the block that is open is never closed *)
Fixpoint unclosed (d : nat) (l : list tok) : bool :=
  match l with
  | [] => true
  | TO :: r => unclosed (S d) r
  | TC :: r => match d with S (S d') => unclosed (S d') r | _ => false end
  | TW _ :: r => unclosed d r
  end.

(* c is brace-balanced above the k levels that are open when it starts, and closes exactly those *)
Fixpoint bal (k : nat) (c : list tok) : bool :=
  match c with
  | [] => Nat.eqb k 0
  | TO :: r => bal (S k) r
  | TC :: r => match k with S k' => bal k' r | O => false end
  | TW _ :: r => bal k r
  end.

Lemma unclosed_no_block k : forall l, unclosed (S k) l = true -> block_contents (S k) l = None.
Proof.
  intros l. revert k. induction l as [|t r IH]; intros k H; [reflexivity|].
  destruct t as [| |w]; cbn [unclosed block_contents] in *.
  - now rewrite (IH (S k) H).
  - destruct k as [|k']; [discriminate|]. now rewrite (IH k' H).
  - now rewrite (IH k H).
Qed.

Lemma block_contents_unclosed : forall l k c rest d,
  block_contents (S k) l = Some (c, rest) -> unclosed (S k + S d) l = unclosed (S d) rest.
Proof.
  induction l as [|t r IH]; intros k c rest d H; [discriminate|].
  destruct t as [| |w]; cbn [block_contents] in H.
  - destruct (block_contents (S (S k)) r) as [[c' rest']|] eqn:E; [|discriminate].
    inversion H; subst. cbn [unclosed]. exact (IH (S k) c' rest d E).
  - destruct k as [|k'].
    + inversion H; subst. reflexivity.
    + destruct (block_contents (S k') r) as [[c' rest']|] eqn:E; [|discriminate].
      inversion H; subst. cbn [unclosed plus]. exact (IH k' c' rest d E).
  - destruct (block_contents (S k) r) as [[c' rest']|] eqn:E; [|discriminate].
    inversion H; subst. cbn [unclosed plus]. exact (IH k c' rest d E).
Qed.

Lemma block_contents_shorter : forall l d c rest,
  block_contents d l = Some (c, rest) -> (length rest < length l)%nat.
Proof.
  induction l as [|t r IH]; intros d c rest H; [discriminate|].
  destruct t as [| |w]; cbn [block_contents] in H.
  - destruct (block_contents (S d) r) as [[c' rest']|] eqn:E; [|discriminate].
    inversion H; subst. specialize (IH _ _ _ E). cbn [length]. lia.
  - destruct d as [|[|d']].
    + inversion H; subst. cbn [length]. lia.
    + inversion H; subst. cbn [length]. lia.
    + destruct (block_contents (S d') r) as [[c' rest']|] eqn:E; [|discriminate].
      inversion H; subst. specialize (IH _ _ _ E). cbn [length]. lia.
  - destruct (block_contents d r) as [[c' rest']|] eqn:E; [|discriminate].
    inversion H; subst. specialize (IH _ _ _ E). cbn [length]. lia.
Qed.

Lemma read_block_shorter key l c rest : read_block key l = Some (c, rest) -> (length rest < length l)%nat.
Proof.
  unfold read_block. destruct l as [|k [|x r]]; try discriminate.
  destruct x as [| |w]; destruct (tok_eqb k key); try discriminate; intros H.
  - apply block_contents_shorter in H. cbn [length]. lia.
  - inversion H; subst. cbn [length]. lia.
  - inversion H; subst. cbn [length]. lia.
Qed.

Lemma bal_unclosed : forall c k d r, bal k c = true -> unclosed (k + S d) (c ++ r) = unclosed (S d) r.
Proof.
  induction c as [|t c IH]; intros k d r H.
  - cbn [bal] in H. apply Nat.eqb_eq in H. subst k. reflexivity.
  - destruct t as [| |w]; cbn [bal] in H; cbn [app unclosed].
    + exact (IH (S k) d r H).
    + destruct k as [|k']; [discriminate|].
      replace (S k' + S d)%nat with (S (S (k' + d))) by lia.
      replace (S (k' + d)) with (k' + S d)%nat by lia. exact (IH k' d r H).
    + exact (IH k d r H).
Qed.

(* a block that is opened and never closed: what read_block("configuration") leaves is not closed either *)
Lemma read_block_unclosed key b conf r2 : unclosed 1 b = true -> read_block (TW key) b = Some (conf, r2) ->
  unclosed 1 r2 = true.
Proof.
  unfold read_block. destruct b as [|k [|x r]]; try discriminate.
  intros Hu. destruct x as [| |w]; destruct (tok_eqb k (TW key)) eqn:Ek; try discriminate; intros H;
    destruct k as [| |kw]; cbn [tok_eqb] in Ek; try discriminate; cbn [unclosed] in Hu.
  - rewrite <- (block_contents_unclosed r 0 conf r2 0 H). exact Hu.
  - inversion H; subst. exact Hu.
Qed.

Section Reader.
  Variable cv_ok : N -> list tok -> bool.
  Variable params_ok : bias -> list tok -> bool.
  Variable read_data : bias -> list tok -> option (list tok) * bool.
  Variable colvars : list N.
  Variable biases : list bias.

  (* what is assumed of the type-specific readers: a reader that leaves the stream good has consumed a
     prefix of it, and when it reports no error that prefix is brace-balanced (whole sub-blocks only) *)
  Definition data_wellformed : Prop :=
    forall b l r e, read_data b l = (Some r, e) ->
      exists c, l = c ++ r /\ (e = false -> bal 0 c = true).
  Hypothesis Hdata : data_wellformed.

  Notation cv_read := (cv_read cv_ok).
  Notation bias_read := (bias_read params_ok read_data).
  Notation try_colvars := (try_colvars cv_ok).
  Notation try_biases := (try_biases params_ok read_data).
  Notation step := (step cv_ok params_ok read_data colvars biases).
  Notation loop := (loop cv_ok params_ok read_data colvars biases).
  Notation load := (load cv_ok params_ok read_data colvars biases).

  (* the block TW kw :: TO :: b is claimed by a configured object *)
  Definition claimed (kw : N) (b : list tok) : Prop :=
    (kw = KW_colvar /\ colvars <> []) \/
    (kw <> KW_colvar /\
     (exists b0, In b0 biases /\ claims b0 (TW kw) = true) /\
     (forall conf r2 v, read_block (TW KW_configuration) b = Some (conf, r2) -> lookup KW_name 0 conf = Some v ->
        exists b1, In b1 biases /\ claims b1 (TW kw) = true /\ tok_eqb v (TW (b_name b1)) = true)).

  Definition bad_end (r : option stepres) : Prop :=
    r = Some (Stop true) \/ exists l', r = Some (Next l' true).

  Lemma cv_read_unclosed n kw b : kw = KW_colvar -> unclosed 1 b = true ->
    cv_read n (TW kw :: TO :: b) = OFail.
  Proof.
    intros -> Hu. unfold StateReadModel.cv_read, read_block. cbn [tok_eqb]. rewrite N.eqb_refl.
    now rewrite (unclosed_no_block 0 b Hu).
  Qed.

  (* a bias reading a block that is never closed: an error, unless the block names another bias *)
  Lemma bias_read_unclosed b0 kw b : unclosed 1 b = true ->
    bias_read b0 (TW kw :: TO :: b) = OFail \/
    (exists r, bias_read b0 (TW kw :: TO :: b) = ORead r true) \/
    (bias_read b0 (TW kw :: TO :: b) = OSkip /\
     exists conf r2 v, read_block (TW KW_configuration) b = Some (conf, r2) /\ lookup KW_name 0 conf = Some v /\
                       tok_eqb v (TW (b_name b0)) = false).
  Proof.
    intros Hu. unfold StateReadModel.bias_read.
    destruct (read_block (TW KW_configuration) b) as [[conf r2]|] eqn:Erb; [|now left].
    destruct (lookup KW_name 0 conf) as [v|] eqn:El; [|now left].
    destruct (tok_eqb v (TW (b_name b0))) eqn:Ev.
    2:{ right. right. split; [reflexivity|]. exists conf, r2, v. auto. }
    destruct (params_ok b0 conf); [|now left].
    destruct (read_data b0 r2) as [[r3|] e] eqn:Ed; [|now left].
    destruct (Hdata _ _ _ _ Ed) as (c & Hc & Hbal).
    pose proof (read_block_unclosed _ _ _ _ Hu Erb) as Hu2.
    destruct e.
    - destruct r3 as [|[| |w] r4]; [now left | now left | right; left; now exists r4 | now left].
    - rewrite Hc in Hu2. pose proof (bal_unclosed c 0 0 r3 (Hbal eq_refl)) as Hb. cbn [plus] in Hb.
      rewrite Hb in Hu2.
      destruct r3 as [|[| |w] r4]; [now left | now left | cbn [unclosed] in Hu2; discriminate | now left].
  Qed.

  Lemma try_biases_unclosed kw b : unclosed 1 b = true -> forall bs,
    (exists b0, In b0 bs /\ claims b0 (TW kw) = true) ->
    (forall conf r2 v, read_block (TW KW_configuration) b = Some (conf, r2) -> lookup KW_name 0 conf = Some v ->
       exists b1, In b1 bs /\ claims b1 (TW kw) = true /\ tok_eqb v (TW (b_name b1)) = true) ->
    bad_end (try_biases bs (TW kw) (TW kw :: TO :: b)).
  Proof.
    intros Hu. induction bs as [|b' bs IH]; intros (b0 & Hin0 & Hcl0) Hname.
    - destruct Hin0.
    - cbn [StateReadModel.try_biases].
      destruct (claims b' (TW kw)) eqn:Ecl.
      + destruct (bias_read_unclosed b' kw b Hu) as [Hf | [(r & Hr) | (Hs & conf & r2 & v & Hrb & Hl & Hne)]].
        * rewrite Hf. now left.
        * rewrite Hr. right. now exists r.
        * rewrite Hs. destruct (Hname conf r2 v Hrb Hl) as (b1 & Hin1 & Hcl1 & Hv1).
          assert (Hin1' : In b1 bs).
          { destruct Hin1 as [<-|Hin1]; [congruence | exact Hin1]. }
          apply IH; [now exists b1|].
          intros conf' r2' v' Hrb' Hl'. rewrite Hrb in Hrb'. inversion Hrb'; subst conf' r2'.
          rewrite Hl in Hl'. inversion Hl'; subst v'. now exists b1.
      + assert (Hin0' : In b0 bs).
        { destruct Hin0 as [<-|Hin0]; [congruence | exact Hin0]. }
        apply IH; [now exists b0|].
        intros conf r2 v Hrb Hl. destruct (Hname conf r2 v Hrb Hl) as (b1 & Hin1 & Hcl1 & Hv1).
        destruct Hin1 as [<-|Hin1]; [congruence|]. now exists b1.
  Qed.

  (* one iteration on a claimed block that is never closed flags an error *)
  Lemma step_unclosed kw b : unclosed 1 b = true -> claimed kw b ->
    step (TW kw :: TO :: b) = Stop true \/ exists l', step (TW kw :: TO :: b) = Next l' true.
  Proof.
    intros Hu [[Hkw Hcv] | (Hkw & Hex & Hname)].
    - unfold StateReadModel.step. subst kw. cbn [tok_eqb]. rewrite N.eqb_refl.
      destruct colvars as [|n cvs]; [congruence|].
      cbn [StateReadModel.try_colvars]. rewrite (cv_read_unclosed n KW_colvar b eq_refl Hu). now left.
    - unfold StateReadModel.step. cbn [tok_eqb].
      replace (kw =? KW_colvar) with false by (symmetry; now apply N.eqb_neq).
      destruct (try_biases_unclosed kw b Hu biases Hex Hname) as [H | (l' & H)]; rewrite H; [now left | right; now exists l'].
  Qed.

  Lemma loop_sticky f : forall l, loop f l true = true.
  Proof.
    induction f as [|f IH]; intros l; cbn [StateReadModel.loop]; [reflexivity|].
    destruct (step l) as [e|l' e]; [reflexivity | apply IH].
  Qed.

  Lemma loop_unclosed f err kw b : unclosed 1 b = true -> claimed kw b ->
    loop (S f) (TW kw :: TO :: b) err = true.
  Proof.
    intros Hu Hc. cbn [StateReadModel.loop].
    destruct (step_unclosed kw b Hu Hc) as [H | (l' & H)]; rewrite H.
    - apply orb_true_r.
    - rewrite orb_true_r. apply loop_sticky.
  Qed.

  (* every iteration that goes on has consumed at least one word *)
  Lemma cv_read_shorter n l rest e : cv_read n l = ORead rest e -> (length rest < length l)%nat.
  Proof.
    unfold StateReadModel.cv_read. destruct (read_block (TW KW_colvar) l) as [[conf r]|] eqn:E; [|discriminate].
    destruct (lookup KW_name 0 conf) as [v|]; [|discriminate].
    destruct (tok_eqb v (TW n)); [|discriminate]. destruct (cv_ok n conf); [|discriminate].
    intros H; inversion H; subst. now apply read_block_shorter in E.
  Qed.

  Lemma bias_read_shorter b0 l rest e : bias_read b0 l = ORead rest e -> (length rest < length l)%nat.
  Proof.
    unfold StateReadModel.bias_read. destruct l as [|k [|[| |w] r1]]; try discriminate.
    destruct (read_block (TW KW_configuration) r1) as [[conf r2]|] eqn:E; [|discriminate].
    destruct (lookup KW_name 0 conf) as [v|]; [|discriminate].
    destruct (tok_eqb v (TW (b_name b0))); [|discriminate]. destruct (params_ok b0 conf); [|discriminate].
    destruct (read_data b0 r2) as [[r3|] e'] eqn:Ed; [|discriminate].
    destruct r3 as [|[| |w] r4]; try discriminate. intros H; inversion H; subst.
    destruct (Hdata _ _ _ _ Ed) as (c & Hc & _). apply read_block_shorter in E.
    rewrite Hc, app_length in E. cbn [length] in *. lia.
  Qed.

  Lemma try_colvars_shorter cvs l l' e : try_colvars cvs l = Some (Next l' e) -> (length l' < length l)%nat.
  Proof.
    induction cvs as [|n cvs IH]; cbn [StateReadModel.try_colvars]; [discriminate|].
    destruct (cv_read n l) as [| |rest e'] eqn:E; [discriminate | exact IH |].
    intros H; inversion H; subst. now apply cv_read_shorter in E.
  Qed.

  Lemma try_biases_shorter bs w l l' e : try_biases bs w l = Some (Next l' e) -> (length l' < length l)%nat.
  Proof.
    induction bs as [|b' bs IH]; cbn [StateReadModel.try_biases]; [discriminate|].
    destruct (claims b' w); [|exact IH].
    destruct (bias_read b' l) as [| |rest e'] eqn:E; [discriminate | exact IH |].
    intros H; inversion H; subst. now apply bias_read_shorter in E.
  Qed.

  Lemma step_shorter l l' e : step l = Next l' e -> (length l' < length l)%nat.
  Proof.
    unfold StateReadModel.step. destruct l as [|w r]; [discriminate|].
    destruct (if tok_eqb w (TW KW_colvar) then try_colvars colvars (w :: r) else try_biases biases w (w :: r))
      as [[e0|l0 e0]|] eqn:E.
    - discriminate.
    - intros H; inversion H; subst.
      destruct (tok_eqb w (TW KW_colvar)); [now apply try_colvars_shorter in E | now apply try_biases_shorter in E].
    - destruct (read_block w (w :: r)) as [[c rest]|] eqn:Er; [|discriminate].
      intros H; inversion H; subst. now apply read_block_shorter in Er.
  Qed.

  (* the loop, started on l, gets to the top of an iteration with l2 left *)
  Inductive arrives : list tok -> list tok -> Prop :=
  | arr_here l : arrives l l
  | arr_next l l' e l2 : step l = Next l' e -> arrives l' l2 -> arrives l l2.

  Lemma loop_arrives l l2 : arrives l l2 -> forall f err, (length l < f)%nat ->
    exists f' err', (length l2 < f')%nat /\ loop f l err = loop f' l2 err'.
  Proof.
    induction 1 as [l | l l' e l2 Hs Ha IH]; intros f err Hf.
    - exists f, err. auto.
    - destruct f as [|f]; [lia|]. cbn [StateReadModel.loop]. rewrite Hs.
      pose proof (step_shorter _ _ _ Hs) as Hlt.
      destruct (IH f (err || e)) as (f' & err' & Hf' & Heq); [lia|].
      exists f', err'. auto.
  Qed.

  Definition objects_part (l : list tok) : list tok :=
    match read_block (TW KW_configuration) l with Some (_, r) => r | None => l end.

  (* whenever the reader gets to an object's keyword followed by "{" and that block is never closed in
     what is left of the file (the file ends inside the block), the load reports an error *)
  Lemma cut_in_block_is_error l0 kw b :
    arrives (objects_part l0) (TW kw :: TO :: b) -> unclosed 1 b = true -> claimed kw b ->
    load l0 = true.
  Proof.
    intros Ha Hu Hc. unfold StateReadModel.load. fold (objects_part l0).
    destruct (loop_arrives _ _ Ha (S (length (objects_part l0))) false) as (f' & err' & Hf' & Heq); [lia|].
    rewrite Heq. destruct f' as [|f']; [cbn [length] in Hf'; lia|].
    now apply loop_unclosed.
  Qed.
End Reader.

(* ---- the concrete readers satisfy the assumption ---- *)
Lemma hill_words_spec : forall l r, hill_words l = Some r -> exists ws, l = ws ++ TC :: r /\ bal 1 (ws ++ [TC]) = true.
Proof.
  induction l as [|t l IH]; intros r H; [discriminate|].
  destruct t as [| |w]; cbn [hill_words] in H; [discriminate | |].
  - inversion H; subst. exists []. split; reflexivity.
  - destruct (IH r H) as (ws & Hl & Hb). exists (TW w :: ws). split; [now rewrite Hl | exact Hb].
Qed.

Lemma bal_app : forall c1 c2 k, bal k c1 = true -> bal 0 c2 = true -> bal k (c1 ++ c2) = true.
Proof.
  induction c1 as [|t c1 IH]; intros c2 k H1 H2.
  - cbn [bal] in H1. apply Nat.eqb_eq in H1. now subst k.
  - destruct t as [| |w]; cbn [bal app] in *.
    + now apply IH.
    + destruct k as [|k']; [discriminate|]. now apply IH.
    + now apply IH.
Qed.

Lemma read_hills_spec : forall f l r e, read_hills f l = (r, e) ->
  exists c, l = c ++ r /\ (e = false -> bal 0 c = true).
Proof.
  induction f as [|f IH]; intros l r e H.
  - cbn in H. inversion H; subst. exists []. split; reflexivity.
  - cbn [read_hills] in H.
    destruct l as [|[| |k] l1]; try (inversion H; subst; exists []; split; reflexivity).
    destruct (k =? KW_hill); [|inversion H; subst; exists []; split; reflexivity].
    destruct l1 as [|[| |w] r1]; try (inversion H; subst; exists []; split; [reflexivity | discriminate]).
    destruct (hill_words r1) as [r2|] eqn:Eh; [|inversion H; subst; exists []; split; [reflexivity | discriminate]].
    destruct (hill_words_spec _ _ Eh) as (ws & Hr1 & Hb).
    destruct (IH _ _ _ H) as (c & Hc & Hbc).
    exists (TW k :: TO :: ws ++ TC :: c). split.
    + cbn [app]. rewrite Hr1, Hc. rewrite <- app_assoc. reflexivity.
    + intros He. cbn [bal].
      replace (ws ++ TC :: c) with ((ws ++ [TC]) ++ c) by (rewrite <- app_assoc; reflexivity).
      apply bal_app; [exact Hb | now apply Hbc].
Qed.

Lemma take_words_spec : forall n l r, take_words n l = Some r -> exists c, l = c ++ r /\ bal 0 c = true.
Proof.
  induction n as [|n IH]; intros l r H.
  - cbn in H. inversion H; subst. exists []. split; reflexivity.
  - cbn [take_words] in H. destruct l as [|[| |w] l']; try discriminate.
    destruct (IH _ _ H) as (c & Hc & Hb). exists (TW w :: c). split; [now rewrite Hc | exact Hb].
Qed.

(* the contents of a block and its closing brace close exactly the level that was open *)
Lemma block_contents_bal : forall l k c rest, block_contents (S k) l = Some (c, rest) ->
  l = c ++ TC :: rest /\ bal (S k) (c ++ [TC]) = true.
Proof.
  induction l as [|t r IH]; intros k c rest H; [discriminate|].
  destruct t as [| |w]; cbn [block_contents] in H.
  - destruct (block_contents (S (S k)) r) as [[c' rest']|] eqn:E; [|discriminate].
    inversion H; subst. destruct (IH _ _ _ E) as [Hl Hb]. split; [cbn [app]; now rewrite Hl | exact Hb].
  - destruct k as [|k'].
    + inversion H; subst. split; reflexivity.
    + destruct (block_contents (S k') r) as [[c' rest']|] eqn:E; [|discriminate].
      inversion H; subst. destruct (IH _ _ _ E) as [Hl Hb]. split; [cbn [app]; now rewrite Hl | exact Hb].
  - destruct (block_contents (S k) r) as [[c' rest']|] eqn:E; [|discriminate].
    inversion H; subst. destruct (IH _ _ _ E) as [Hl Hb]. split; [cbn [app]; now rewrite Hl | exact Hb].
Qed.

Lemma read_layout_spec : forall es l r, read_layout es l = Some r -> exists c, l = c ++ r /\ bal 0 c = true.
Proof.
  induction es as [|e es IH]; intros l r H.
  - cbn in H. inversion H; subst. exists []. split; reflexivity.
  - destruct e as [w|n|w]; cbn [read_layout] in H.
    + destruct l as [|[| |k] l']; try discriminate. destruct (k =? w); [|discriminate].
      destruct (IH _ _ H) as (c & Hc & Hb). exists (TW k :: c). split; [now rewrite Hc | exact Hb].
    + destruct (take_words n l) as [l1|] eqn:Et; [|discriminate].
      destruct (take_words_spec _ _ _ Et) as (c1 & Hc1 & Hb1). destruct (IH _ _ H) as (c & Hc & Hb).
      exists (c1 ++ c). split; [rewrite Hc1, Hc; now rewrite app_assoc | now apply bal_app].
    + destruct l as [|[| |k] [|[| |x] l']]; try discriminate. destruct (k =? w); [|discriminate].
      destruct (block_contents 1 l') as [[cc l2]|] eqn:Eb; [|discriminate].
      destruct (block_contents_bal _ _ _ _ Eb) as [Hl Hbb]. destruct (IH _ _ H) as (c & Hc & Hb).
      exists (TW k :: TO :: (cc ++ [TC]) ++ c). split.
      * cbn [app]. rewrite Hl, Hc. rewrite <- !app_assoc. reflexivity.
      * cbn [bal]. now apply bal_app.
Qed.

Lemma data_wellformed_c : data_wellformed read_data_c.
Proof.
  intros b l r e. unfold read_data_c.
  destruct (read_layout (b_layout b) l) as [l1|] eqn:El; [|discriminate].
  destruct (read_layout_spec _ _ _ El) as (c1 & Hc1 & Hb1).
  destruct (b_kind b) as [|[|k]].
  - intros H; inversion H; subst. exists c1. auto.
  - destruct (read_hills (length l1) l1) as [r' e'] eqn:E. intros H; inversion H; subst.
    destruct (read_hills_spec _ _ _ _ E) as (c & Hc & Hb).
    exists (c1 ++ c). split; [rewrite Hc; now rewrite app_assoc|]. intros He. apply bal_app; auto.
  - intros H; inversion H; subst. exists c1. auto.
Qed.

Lemma cut_in_block_is_error_c colvars biases l0 kw b :
  arrives cv_ok_c params_ok_c read_data_c colvars biases (objects_part l0) (TW kw :: TO :: b) ->
  unclosed 1 b = true -> claimed colvars biases kw b ->
  load_c colvars biases l0 = true.
Proof. apply cut_in_block_is_error. exact data_wellformed_c. Qed.

(* ================================================================ whole files *)
(* reading a complete block does not depend on what follows it *)
Lemma block_contents_app : forall c k rest, bal k c = true ->
  block_contents (S k) (c ++ TC :: rest) = Some (c, rest).
Proof.
  induction c as [|t c IH]; intros k rest H.
  - cbn [bal] in H. apply Nat.eqb_eq in H. subst k. reflexivity.
  - destruct t as [| |w]; cbn [bal] in H; cbn [app block_contents].
    + now rewrite (IH (S k) rest H).
    + destruct k as [|k']; [discriminate|]. now rewrite (IH k' rest H).
    + now rewrite (IH k rest H).
Qed.

Lemma read_block_app key c rest : bal 0 c = true ->
  read_block (TW key) (TW key :: TO :: c ++ TC :: rest) = Some (c, rest).
Proof. intros H. unfold read_block. cbn [tok_eqb]. rewrite N.eqb_refl. now apply block_contents_app. Qed.

Definition is_word (t : tok) : Prop := match t with TW _ => True | _ => False end.

Lemma take_words_app : forall ws rest, Forall is_word ws -> take_words (length ws) (ws ++ rest) = Some rest.
Proof.
  induction ws as [|t ws IH]; intros rest H; [reflexivity|].
  inversion H as [|? ? Ht Hws]; subst. destruct t; try contradiction. cbn [length take_words app]. now apply IH.
Qed.

(* the pieces of a bias's data, as written: keys, arrays of numbers, brace blocks *)
Inductive layout_match : list delem -> list tok -> Prop :=
| LM_nil : layout_match [] []
| LM_key w es d : layout_match es d -> layout_match (DKey w :: es) (TW w :: d)
| LM_words ws es d : Forall is_word ws -> layout_match es d -> layout_match (DWords (length ws) :: es) (ws ++ d)
| LM_block w c es d : bal 0 c = true -> layout_match es d -> layout_match (DBlock w :: es) (TW w :: TO :: c ++ TC :: d).

Lemma read_layout_app es d : layout_match es d -> forall rest, read_layout es (d ++ rest) = Some rest.
Proof.
  induction 1 as [| w es d Hm IH | ws es d Hw Hm IH | w c es d Hb Hm IH]; intros rest.
  - reflexivity.
  - cbn [read_layout app]. now rewrite N.eqb_refl.
  - cbn [read_layout]. rewrite <- app_assoc. rewrite (take_words_app ws (d ++ rest) Hw). apply IH.
  - cbn [read_layout app]. rewrite N.eqb_refl. rewrite <- app_assoc. cbn [app].
    rewrite (block_contents_app c 0 (d ++ rest) Hb). apply IH.
Qed.

(* a hill as written: "hill" "{" words "}" *)
Definition hill_toks (ws : list tok) : list tok := TW KW_hill :: TO :: ws ++ [TC].

Lemma hill_words_app : forall ws rest, Forall is_word ws -> hill_words (ws ++ TC :: rest) = Some rest.
Proof.
  induction ws as [|t ws IH]; intros rest H; [reflexivity|].
  inversion H as [|? ? Ht Hws]; subst. destruct t; try contradiction. cbn [app hill_words]. now apply IH.
Qed.

Lemma read_hills_app : forall hs fuel rest, Forall (Forall is_word) hs -> (length hs < fuel)%nat ->
  read_hills fuel (concat (map hill_toks hs) ++ TC :: rest) = (TC :: rest, false).
Proof.
  induction hs as [|ws hs IH]; intros fuel rest H Hf.
  - destruct fuel as [|f]; [cbn in Hf; lia|]. reflexivity.
  - inversion H as [|? ? Hws Hhs]; subst. destruct fuel as [|f]; [cbn in Hf; lia|].
    cbn [map concat]. unfold hill_toks at 1. cbn [app read_hills]. rewrite N.eqb_refl.
    rewrite <- !app_assoc. cbn [app]. rewrite (hill_words_app ws _ Hws).
    apply IH; [exact Hhs | cbn [length] in Hf; lia].
Qed.

(* the data of a bias, as written, are read back whatever follows the closing brace of its block *)
Definition data_match (b : bias) (data : list tok) : Prop :=
  exists dl hs, layout_match (b_layout b) dl /\ Forall (Forall is_word) hs /\
                data = dl ++ concat (map hill_toks hs) /\ (b_kind b <> 1%nat -> hs = []).

Lemma length_hills_le hs : (length hs <= length (concat (map hill_toks hs)))%nat.
Proof.
  induction hs as [|ws hs IH]; [cbn; lia|]. cbn [map concat length]. rewrite app_length. unfold hill_toks at 1. cbn [length]. lia.
Qed.

Lemma read_data_c_app b data rest : data_match b data ->
  read_data_c b (data ++ TC :: rest) = (Some (TC :: rest), false).
Proof.
  intros (dl & hs & Hl & Hw & -> & Hk). unfold read_data_c. rewrite <- app_assoc.
  rewrite (read_layout_app _ _ Hl).
  destruct (b_kind b) as [|[|k]] eqn:Ek.
  - rewrite (Hk ltac:(discriminate)). reflexivity.
  - rewrite (read_hills_app hs _ rest Hw); [reflexivity|].
    rewrite app_length. cbn [length]. pose proof (length_hills_le hs). lia.
  - rewrite (Hk ltac:(discriminate)). reflexivity.
Qed.

Section WholeFile.
  Variable colvars : list N.
  Variable biases : list bias.
  Notation step_c := (step cv_ok_c params_ok_c read_data_c colvars biases).

  (* an object of the file that the configured objects read completely, whatever follows *)
  Definition valid_obj (o : list tok) : Prop := o <> [] /\ forall rest, step_c (o ++ rest) = Next rest false.

  (* a variable's block, as written for a configured variable *)
  Lemma cv_block_valid n conf : In n colvars -> bal 0 conf = true ->
    lookup KW_name 0 conf = Some (TW n) -> cv_ok_c n conf = true ->
    valid_obj (TW KW_colvar :: TO :: conf ++ [TC]).
  Proof.
    intros Hin Hb Hn Hok. split; [discriminate|]. intros rest.
    unfold StateReadModel.step. cbn [app tok_eqb]. rewrite N.eqb_refl.
    assert (Hrb : read_block (TW KW_colvar) (TW KW_colvar :: TO :: (conf ++ [TC]) ++ rest) = Some (conf, rest)).
    { rewrite <- app_assoc. cbn [app]. now apply read_block_app. }
    assert (Ht : try_colvars cv_ok_c colvars (TW KW_colvar :: TO :: (conf ++ [TC]) ++ rest) = Some (Next rest false)).
    { clear - Hin Hrb Hn Hok. induction colvars as [|n' cvs IH]; [destruct Hin|].
      cbn [StateReadModel.try_colvars]. unfold StateReadModel.cv_read. rewrite Hrb, Hn. cbn [tok_eqb].
      destruct (n =? n') eqn:E.
      - apply N.eqb_eq in E. subst n'. unfold cv_ok_c in *. destruct (lookup KW_x 0 conf); [reflexivity | discriminate].
      - destruct Hin as [->|Hin]; [rewrite N.eqb_refl in E; discriminate|]. now apply IH. }
    now rewrite Ht.
  Qed.

  (* a bias's block, as written for a configured bias whose name no other bias of that keyword has *)
  Lemma bias_block_valid b kw conf data : In b biases -> kw <> KW_colvar -> claims b (TW kw) = true ->
    (forall b', In b' biases -> claims b' (TW kw) = true -> b_name b' = b_name b -> b' = b) ->
    bal 0 conf = true -> lookup KW_name 0 conf = Some (TW (b_name b)) -> data_match b data ->
    valid_obj (TW kw :: TO :: TW KW_configuration :: TO :: conf ++ TC :: data ++ [TC]).
  Proof.
    intros Hin Hkw Hcl Huniq Hb Hn Hd. split; [discriminate|]. intros rest.
    unfold StateReadModel.step. cbn [app tok_eqb].
    replace (kw =? KW_colvar) with false by (symmetry; now apply N.eqb_neq).
    replace ((conf ++ TC :: data ++ [TC]) ++ rest) with (conf ++ TC :: (data ++ TC :: rest))
      by (rewrite <- !app_assoc; cbn [app]; now rewrite <- app_assoc).
    set (l := TW kw :: TO :: TW KW_configuration :: TO :: conf ++ TC :: (data ++ TC :: rest)).
    assert (Hbr : bias_read params_ok_c read_data_c b l = ORead rest false).
    { unfold StateReadModel.bias_read, l.
      rewrite (read_block_app KW_configuration conf _ Hb). rewrite Hn. cbn [tok_eqb]. rewrite N.eqb_refl.
      unfold params_ok_c. now rewrite (read_data_c_app b data rest Hd). }
    assert (Hskip : forall b', b_name b' <> b_name b -> bias_read params_ok_c read_data_c b' l = OSkip).
    { intros b' Hne. unfold StateReadModel.bias_read, l.
      rewrite (read_block_app KW_configuration conf _ Hb). rewrite Hn. cbn [tok_eqb].
      replace (b_name b =? b_name b') with false by (symmetry; apply N.eqb_neq; congruence). reflexivity. }
    assert (Ht : try_biases params_ok_c read_data_c biases (TW kw) l = Some (Next rest false)).
    { clearbody l. clear - Hin Hcl Huniq Hbr Hskip. induction biases as [|b' bs IH]; [destruct Hin|].
      cbn [StateReadModel.try_biases]. destruct (claims b' (TW kw)) eqn:Ec.
      - destruct (N.eq_dec (b_name b') (b_name b)) as [En|En].
        + assert (b' = b) by (apply Huniq; [now left | exact Ec | exact En]). subst b'. now rewrite Hbr.
        + rewrite (Hskip b' En). destruct Hin as [->|Hin]; [congruence|].
          apply IH; [exact Hin|]. intros b'' Hin'' Hc'' Hn''. apply Huniq; [now right | exact Hc'' | exact Hn''].
      - destruct Hin as [->|Hin]; [congruence|].
        apply IH; [exact Hin|]. intros b'' Hin'' Hc'' Hn''. apply Huniq; [now right | exact Hc'' | exact Hn'']. }
    now rewrite Ht.
  Qed.

  Lemma arrives_objs : forall objs tl, Forall valid_obj objs ->
    arrives cv_ok_c params_ok_c read_data_c colvars biases (concat objs ++ tl) tl.
  Proof.
    induction objs as [|o objs IH]; intros tl H; [apply arr_here|].
    inversion H as [|? ? [Hne Ho] Hrest]; subst. cbn [concat]. rewrite <- app_assoc.
    eapply arr_next; [apply Ho | now apply IH].
  Qed.

  (* a text state: the global block (or none), any number of complete objects, then an object whose block is
     never closed (the file ends inside it): the load reports an error *)
  Lemma text_state_cut_is_error gc objs kw b : bal 0 gc = true -> Forall valid_obj objs ->
    unclosed 1 b = true -> claimed colvars biases kw b ->
    load_c colvars biases (TW KW_configuration :: TO :: gc ++ TC :: concat objs ++ TW kw :: TO :: b) = true.
  Proof.
    intros Hg Hobjs Hu Hc. apply (cut_in_block_is_error_c colvars biases _ kw b); [|exact Hu | exact Hc].
    unfold objects_part. rewrite (read_block_app KW_configuration gc _ Hg). now apply arrives_objs.
  Qed.
End WholeFile.
