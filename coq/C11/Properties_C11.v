(* C11: state files are crash-consistent; a text state cut inside an object's block is an error; the
   binary stream reads back what it wrote
   (statements only; proofs in MemStreamProofs.v, CrashProofs.v and StateReadProofs.v). *)
From Coq Require Import NArith List Bool Lia.
From CV Require Import C11.MemStreamModel C11.MemStreamProofs C11.CrashModel C11.CrashProofs
  C11.StateReadModel C11.StateReadProofs C11.BinReadModel C11.BinReadProofs.
Import ListNotations.
Open Scope N_scope.

(* ===================== (a) the binary stream codec ===================== *)

(* Any sequence of objects (of any size), strings and vectors (of any element size) written to an empty
   stream produces exactly the documented format, and reading the same sequence of types from
   output_buffer()[0..length()) delivers exactly the values written, ends at the end of the data in
   the good state, and never touches a byte outside the buffer. *)
Theorem C11_stream_roundtrip : forall (l : list item) (mx : N),
  Forall item_ok l -> blen (enc_all l) <= mx -> blen (enc_all l) < W64 ->
  let w := write_items (empty_stream mx) l in
  output w = (enc_all l, false) /\ good w = true /\ ms_oob w = false /\
  exists s', read_items (input_stream (fst (output w))) (map shape_of l) = (l, s', true)
             /\ good s' = true /\ ms_pos s' = ms_len s' /\ ms_oob s' = false.
Proof. exact stream_roundtrip. Qed.
Print Assumptions C11_stream_roundtrip.

Theorem C11_object_roundtrip : forall (b : list byte) (mx : N), blen b <= mx -> blen b < W64 ->
  let w := write_object (empty_stream mx) b in
  output w = (b, false) /\
  exists s', read_object (input_stream (fst (output w))) (blen b) = (RBytes b, s')
             /\ good s' = true /\ ms_pos s' = ms_len s'.
Proof. exact object_roundtrip. Qed.
Print Assumptions C11_object_roundtrip.

Theorem C11_string_roundtrip : forall (b : list byte) (mx : N), 8 + blen b <= mx -> 8 + blen b < W64 ->
  let w := write_string (empty_stream mx) b in
  output w = (le64 (blen b) ++ b, false) /\
  exists s', read_string (input_stream (fst (output w))) = (RBytes b, s')
             /\ good s' = true /\ ms_pos s' = ms_len s'.
Proof. exact string_roundtrip. Qed.
Print Assumptions C11_string_roundtrip.

(* The property text: "every value type the binary stream accepts is read back exactly as written":
   vectors of every element size sz = sizeof(T).  (Refuted on the pinned tree for sz <> 8: write_vector
   advanced the cursor by sizeof(T) after the 8-byte length; repaired by a fix: commit, see known_findings.txt.) *)
Theorem C11_vector_roundtrip : forall (sz : N) (es : list (list byte)) (mx : N),
  item_ok (IVec sz es) -> 8 + sz * blen es <= mx ->
  let w := write_vector (empty_stream mx) sz es in
  output w = (le64 (blen es) ++ concat es, false) /\
  exists s', read_vector (input_stream (fst (output w))) sz = (RVec es, s')
             /\ good s' = true /\ ms_pos s' = ms_len s'.
Proof. exact vector_roundtrip. Qed.
Print Assumptions C11_vector_roundtrip.

(* "... or touching memory out of bounds", writers: the cursor of write_vector stays inside the buffer and
   no byte is stored outside it, for every element size, whether or not the data fits under max_length.
   (Refuted on the pinned tree for sizeof(T) > 8; same fix: commit.) *)
Theorem C11_write_cursor_in_buffer : forall (sz : N) (es : list (list byte)) (mx : N),
  item_ok (IVec sz es) ->
  let w := write_vector (empty_stream mx) sz es in
  ms_len w <= blen (ms_buf w) /\ ms_oob w = false.
Proof. exact write_cursor_in_buffer. Qed.
Print Assumptions C11_write_cursor_in_buffer.

(* "Every value type the binary stream accepts is read back exactly as written", all LENGTHS, into ANY destination:
   the std::vector a vector is read into may hold anything before the call (a loop that reuses one destination, an
   object that loads a second state).  After a read that delivers, the destination holds exactly the decoded
   elements -- none of its previous contents, also when zero elements are decoded (t.resize(0)) --, so the result
   of two reads from the same stream state into two different destinations is the same; a read that does not
   deliver leaves the destination untouched. *)
Theorem C11_vector_read_independent_of_destination :
  forall (s : mstream) (sz : N) (d1 d2 v : list (list byte)) (s1 : mstream) (t1 : list (list byte)),
  read_vector_into s sz d1 = (RVec v, s1, t1) ->
  t1 = v /\ read_vector_into s sz d2 = (RVec v, s1, v).
Proof. exact read_vector_into_independent. Qed.
Print Assumptions C11_vector_read_independent_of_destination.

(* with the round trip: a written vector (any element size, any length, 0 included) read into any destination *)
Theorem C11_vector_roundtrip_any_destination : forall (sz : N) (es dest : list (list byte)) (mx : N),
  item_ok (IVec sz es) -> 8 + sz * blen es <= mx ->
  let w := write_vector (empty_stream mx) sz es in
  exists s', read_vector_into (input_stream (fst (output w))) sz dest = (RVec es, s', es).
Proof.
  intros sz es dest mx Hok Hm w. destruct (vector_roundtrip sz es mx Hok Hm) as (_ & s' & Hr & _).
  pose proof (read_vector_into_spec (input_stream (fst (output w))) sz dest) as Hs. fold w in Hr.
  rewrite Hr in Hs. now exists s'.
Qed.
Print Assumptions C11_vector_roundtrip_any_destination.

(* Every read, whatever the bytes and whatever sequence of reads (objects of any size, strings,
   vectors of any element size, continuing after failures), touches only bytes of the buffer and
   leaves the read position inside it. *)
Theorem C11_reads_in_bounds : forall (buf : list byte) (l : list shape), blen buf < W64 ->
  let s' := read_any (input_stream buf) l in
  ms_oob s' = false /\ ms_pos s' <= ms_len s' /\ ms_len s' = blen (ms_buf s').
Proof. exact reads_in_bounds. Qed.
Print Assumptions C11_reads_in_bounds.

(* "Loading a ... malformed ... binary state terminates without crashing": on a buffer that fits in memory
   (at most PTRDIFF_MAX bytes, as every C++ object) a vector read never asks std::vector::resize for more
   than max_size() elements (no std::length_error), whatever the bytes; and when it delivers n elements,
   the 8 + n * sizeof(T) bytes were there.  (Refuted on the pinned tree by a length prefix of 2^61 with
   sizeof(T) = 8: the byte count wrapped to 0; repaired by a fix: commit.) *)
Theorem C11_vector_alloc_bounded : forall (s : mstream) (sz : N),
  rinv s -> ms_len s <= PTRDIFF_MAX -> 0 < sz ->
  (forall n, fst (read_vector s sz) <> RThrow n) /\
  (forall v s', read_vector s sz = (RVec v, s') -> blen v * sz + 8 <= ms_len s - ms_pos s).
Proof.
  intros s sz H Hm Hz. split.
  - intros n. now apply read_vector_never_throws.
  - intros v s'. now apply read_vector_alloc_bounded.
Qed.
Print Assumptions C11_vector_alloc_bounded.

Theorem C11_string_read_never_throws : forall (s : mstream) (n : N), fst (read_string s) <> RThrow n.
Proof. exact read_string_never_throws. Qed.
Print Assumptions C11_string_read_never_throws.

(* Whatever the 8-byte length word of a string record says -- also 2^64-1, or any value in the window
   [2^64 - read_pos_, 2^64) for which read_pos_ + length wraps around -- a string is delivered only when its
   8 + length bytes lie between the read position and the end of the data (has_remaining subtracts, it
   does not add). *)
Theorem C11_string_read_bounded : forall (s : mstream) (v : list byte) (s' : mstream),
  rinv s -> read_string s = (RBytes v, s') ->
  8 + blen v <= ms_len s - ms_pos s /\ ms_pos s' = ms_pos s + 8 + blen v /\ good s' = true.
Proof. exact read_string_delivers. Qed.
Print Assumptions C11_string_read_bounded.

(* Reading any proper prefix of a valid stream with the types it was written with stops with an
   error (the stream is not good), after delivering only a prefix of the original values. *)
Theorem C11_truncation_detected : forall (l : list item) (p q : list byte),
  Forall item_ok l -> enc_all l = p ++ q -> q <> [] -> blen p < W64 ->
  exists its rest s', read_items (input_stream p) (map shape_of l) = (its, s', false)
                      /\ good s' = false /\ ms_oob s' = false /\ l = its ++ rest.
Proof. exact truncation_detected. Qed.
Print Assumptions C11_truncation_detected.

(* ===================== (b) the replace protocol ===================== *)

(* "Whenever Colvars replaces a state file, a crash at any instant leaves on disk at least one complete,
   loadable state (the new file or its '.old' backup) from the moment the first state was completed."
   Any number of process lifetimes on the same directory, any number of saves in each; the environment
   may, at EVERY file system call (unlink, access, open, each write, close, the two renames), succeed,
   return an error, or kill the process (a write persisting any prefix); the host may go on saving after
   errors.  Starting from an empty directory, or from any directory whose state file is absent or
   complete: from the first completed save on (or from the start, if a complete state was there) the
   state file or its .old backup is complete at every point.
   (Refuted on the pinned tree, where the file was written in place: a killed or failed save left a
   half-written file that the next save renamed over the only complete backup; repaired by the fix:
   commit "the state file was written in place ...", see known_findings.txt.) *)
Theorem C11_crash_consistent : forall (fs : fsys) (h : list (list saveop * list outcome)),
  curok fs = true ->
  let '(fs', out) := history fs h in
  safe fs = true \/ existsb (fun o => completed (fst o)) out = true -> safe fs' = true.
Proof. exact crash_consistent. Qed.
Print Assumptions C11_crash_consistent.

(* The same for every writer of a state file that is read back: colvarmodule::write_restart_file
   (W_restart), colvarbias::write_state_prefix = `cv bias <name> save` (W_bias: the stream is closed on every
   path, errors are accumulated) and colvarbias_meta::write_replica_state_file (W_replica: no .old backup).
   (W_bias wrote in place and ignored the close result, W_replica renamed an incomplete temporary file over
   the complete one: two fix: commits of round 3.) *)
Theorem C11_crash_consistent_all_writers : forall (w : writer) (fs : fsys) (h : list (list saveop * list outcome)),
  curok fs = true ->
  let '(fs', out) := history_w w fs h in
  (safe fs = true \/ existsb (fun o => completed (fst o)) out = true -> safe fs' = true) /\ curok fs' = true.
Proof.
  intros w fs h Hc. pose proof (crash_consistent_w w fs h Hc) as H1. pose proof (current_never_partial_w w fs h Hc) as H2.
  destruct (history_w w fs h) as [fs' out]. split; [exact H1 | exact H2].
Qed.
Print Assumptions C11_crash_consistent_all_writers.

(* the name of the state file itself never holds an incomplete file, whatever happens *)
Theorem C11_current_never_partial : forall (fs : fsys) (h : list (list saveop * list outcome)),
  curok fs = true -> curok (fst (history fs h)) = true.
Proof. exact current_never_partial. Qed.
Print Assumptions C11_current_never_partial.

(* one process lifetime, deaths only (the statement of round 1, now a special case) *)
Theorem C11_crash_consistent_one_process : forall (fs : fsys) (plan : list outcome) (l : list saveop),
  curok fs = true -> kills_only plan = true ->
  let '(m', rs) := session (start fs plan) l in
  safe fs = true \/ completed rs = true -> safe (m_fs m') = true.
Proof.
  intros fs plan l Hc _. destruct (session (start fs plan) l) as [m' rs] eqn:E.
  exact (proj2 (session_any W_restart l (start fs plan) (or_introl eq_refl) Hc m' rs E)).
Qed.
Print Assumptions C11_crash_consistent_one_process.

(* one process lifetime, deaths and error returns at every call, the host going on after errors
   (round 1 proved this only for a host that stops at the first reported error, and refuted the rest) *)
Theorem C11_error_tolerant : forall (fs : fsys) (plan : list outcome) (l : list saveop),
  curok fs = true ->
  let '(m', rs) := session (start fs plan) l in
  safe fs = true \/ completed rs = true -> safe (m_fs m') = true.
Proof.
  intros fs plan l Hc. destruct (session (start fs plan) l) as [m' rs] eqn:E.
  exact (proj2 (session_any W_restart l (start fs plan) (or_introl eq_refl) Hc m' rs E)).
Qed.
Print Assumptions C11_error_tolerant.

(* No error return is swallowed: whatever the environment does, a save that reports success has
   installed the complete new state under the name of the state file and left no registered stream. *)
Theorem C11_save_ok_is_complete : forall (m : mach) (v : N) (ch : list N) (tail : N) (m' : mach),
  reg_idle (m_reg m) -> save m v ch tail = (m', Done true) ->
  complete (cur (m_fs m')) = true /\ m_reg m' = NotOpen.
Proof. intros m v ch tail m' H1 H2. exact (save_ok_is_complete m v ch tail H1 m' H2). Qed.
Print Assumptions C11_save_ok_is_complete.

(* A detected write error (during write_state) leaves the stream of the temporary file registered in a
   failed state: every later save of the process is refused and touches neither the state file nor its
   backup (no new state is written by this process any more). *)
Theorem C11_error_path_stuck_stream : forall (m : mach) (v : N) (ch : list N) (tail : N) (m' : mach) (r : result),
  m_reg m = Open true -> save m v ch tail = (m', r) ->
  r <> Done true /\ same_co (m_fs m) (m_fs m').
Proof. exact stuck_stream. Qed.
Print Assumptions C11_error_path_stuck_stream.

Definition S100 (v : N) : saveop := mkS v [] 100.

(* ===================== (c) the text state reader ===================== *)

(* "A state cut in the middle of an object's block is reported as an error rather than accepted."
   Token-level model of read_state_template_ / read_objects_state / colvar::read_state /
   colvarbias::read_state_template_ / read_block, for ANY set of configured variables and biases and ANY
   type-specific readers (set_state_params, read_state_data) that, when they leave the stream good and
   report nothing, have consumed whole brace-balanced pieces only (data_wellformed):
   whenever the reader's loop gets to an object keyword followed by "{" such that the block is never
   closed in the rest of the file (unclosed: the file ends inside the block, wherever that is, whatever
   the last, possibly mutilated, word is), and the block is claimed by a configured object (a variable
   is configured, resp. a bias of that keyword exists and, if the block's own configuration sub-block is
   intact, it names a configured bias), the load reports an error. *)
Theorem C11_cut_in_block_is_error :
  forall (cv_ok : N -> list tok -> bool) (params_ok : bias -> list tok -> bool)
         (read_data : bias -> list tok -> option (list tok) * bool)
         (colvars : list N) (biases : list bias),
  data_wellformed read_data ->
  forall (l0 : list tok) (kw : N) (b : list tok),
  arrives cv_ok params_ok read_data colvars biases (objects_part l0) (TW kw :: TO :: b) ->
  unclosed 1 b = true -> claimed colvars biases kw b ->
  load cv_ok params_ok read_data colvars biases l0 = true.
Proof. exact cut_in_block_is_error. Qed.
Print Assumptions C11_cut_in_block_is_error.

(* the same for the concrete readers that the correspondence check runs against the C++ (variables,
   restraints without extra data, metadynamics with a list of hills): the assumption is proved for them *)
Theorem C11_cut_in_block_is_error_concrete : forall (colvars : list N) (biases : list bias) (l0 : list tok) (kw : N) (b : list tok),
  arrives cv_ok_c params_ok_c read_data_c colvars biases (objects_part l0) (TW kw :: TO :: b) ->
  unclosed 1 b = true -> claimed colvars biases kw b ->
  load_c colvars biases l0 = true.
Proof. exact cut_in_block_is_error_c. Qed.
Print Assumptions C11_cut_in_block_is_error_concrete.

(* Whole text states, concrete readers: the global block, any number of complete objects (valid_obj: an object
   that the configured objects read completely whatever follows; proved below for the blocks Colvars writes),
   then an object whose block is never closed: the load reports an error.  So a text state cut ANYWHERE strictly
   inside the block of any object that a configured object claims is an error -- the premise "the reader
   arrives there" of C11_cut_in_block_is_error is discharged. *)
Theorem C11_text_state_cut_is_error : forall (colvars : list N) (biases : list bias) (gc : list tok) (objs : list (list tok)) (kw : N) (b : list tok),
  bal 0 gc = true -> Forall (valid_obj colvars biases) objs ->
  unclosed 1 b = true -> claimed colvars biases kw b ->
  load_c colvars biases (TW KW_configuration :: TO :: gc ++ TC :: concat objs ++ TW kw :: TO :: b) = true.
Proof. exact text_state_cut_is_error. Qed.
Print Assumptions C11_text_state_cut_is_error.

(* the block of a configured variable, as written (name, x, ... : any brace-balanced contents naming it) *)
Theorem C11_text_variable_block_valid : forall (colvars : list N) (biases : list bias) (n : N) (conf : list tok),
  In n colvars -> bal 0 conf = true -> lookup KW_name 0 conf = Some (TW n) -> cv_ok_c n conf = true ->
  valid_obj colvars biases (TW KW_colvar :: TO :: conf ++ [TC]).
Proof. exact cv_block_valid. Qed.
Print Assumptions C11_text_variable_block_valid.

(* the block of a configured bias, as written: configuration sub-block naming it, then its data: keys, arrays
   of numbers and grid_parameters blocks in the order of its layout, then (kind 1) any number of hills *)
Theorem C11_text_bias_block_valid : forall (colvars : list N) (biases : list bias) (b : bias) (kw : N) (conf data : list tok),
  In b biases -> kw <> KW_colvar -> claims b (TW kw) = true ->
  (forall b', In b' biases -> claims b' (TW kw) = true -> b_name b' = b_name b -> b' = b) ->
  bal 0 conf = true -> lookup KW_name 0 conf = Some (TW (b_name b)) -> data_match b data ->
  valid_obj colvars biases (TW kw :: TO :: TW KW_configuration :: TO :: conf ++ TC :: data ++ [TC]).
Proof. exact bias_block_valid. Qed.
Print Assumptions C11_text_bias_block_valid.

(* ===================== (d) the binary state readers above the stream ===================== *)

(* The framing of a record of an unformatted state: a list of fields (a string that must be a given
   keyword, any string, an object of sz bytes), each read through the stream model.  A record cut
   anywhere before its end is refused, wherever it lies in the data. *)
Theorem C11_binary_record_truncated : forall (fs : list field) (its : list item) (b1 p q : list byte) (mx : N) (o : bool),
  fields_match fs its -> enc_all its = p ++ q -> q <> [] -> blen (b1 ++ p) < W64 ->
  read_fields (rst (b1 ++ p) mx false false false (blen b1) o) fs = None.
Proof. exact read_fields_trunc. Qed.
Print Assumptions C11_binary_record_truncated.

(* colvar::read_state(memory_stream &): "colvar" <data>, cut anywhere: failbit + cvm::error *)
Theorem C11_binary_colvar_truncated_is_error : forall (cv_ok : list byte -> bool) (data b1 p q : list byte) (mx : N) (o : bool),
  item_ok (IStr data) -> enc_all [IStr kw_colvar; IStr data] = p ++ q -> q <> [] -> blen (b1 ++ p) < W64 ->
  cv_read cv_ok (rst (b1 ++ p) mx false false false (blen b1) o) = None.
Proof. exact cv_cut. Qed.
Print Assumptions C11_binary_colvar_truncated_is_error.

(* colvarbias::read_state_template_<memory_stream> on a bias object: <keyword> "configuration" <conf>, then the
   fixed data of the bias type -- keys and raw arrays, ALL mandatory (bb_fields: ABF "samples" n*8 "gradient"
   n*8 and, with the CZAR estimator, "z_samples" n*8 "z_gradient" n*8; histogram "grid" n*8; none for
   restraints) -- then, for metadynamics, hill*.  The data end somewhere inside the object (p is a proper prefix
   of it, nothing follows).  Unless p stops exactly between two hills (or before the first, or after the last),
   the read is an error: raise_error_rewind for the header and for any key or grid value of the fixed data
   that cannot be read, hill_stream_error for a hill (incl. a cut inside the 12-byte "hill" keyword, told from
   the end of the list by unread_bytes(is, start_pos)).  For a bias without hills (ABF, histogram, restraints)
   there is no exception: EVERY proper prefix of the written block is rejected. *)
Theorem C11_binary_bias_truncated_is_error :
  forall (matches : bbias -> list byte -> option bool) (params_ok : bbias -> list byte -> bool)
         (expected_hills : bbias -> list byte -> option nat) (b : bbias) (kwd conf : list byte) (its : list item) (hs : list (list item)) (b1 p q : list byte) (mx : N) (o : bool),
  (bb_kind b <> 1%nat -> hs = []) -> item_ok (IStr kwd) -> item_ok (IStr conf) ->
  bytes_eqb kwd (bb_kw b) || bytes_eqb kwd (bb_type b) = true ->
  matches b conf = Some true -> params_ok b conf = true ->
  fields_match (bb_fields b) its -> Forall (hill_ok (bb_nvar b)) hs ->
  enc_obj kwd conf its hs = p ++ q -> q <> [] -> blen (b1 ++ p) < W64 ->
  (forall k, p <> enc_header kwd conf ++ enc_all its ++ enc_hills (firstn k hs)) ->
  bias_read matches params_ok expected_hills b (rst (b1 ++ p) mx false false false (blen b1) o) = BErr \/
  exists s, bias_read matches params_ok expected_hills b (rst (b1 ++ p) mx false false false (blen b1) o) = BOk s true.
Proof. exact bias_cut. Qed.
Print Assumptions C11_binary_bias_truncated_is_error.

(* With the number of hills announced in the configuration string of the object ("numHills <n>", written by
   get_state_params() since the fix: commit of round 4; expected_hills b conf = Some (length hs)) there is no
   exception left: EVERY proper prefix of a metadynamics object is rejected, also one that stops exactly between
   two hills (num_hills_read != state_num_hills).  This is the property text's clause for binary states in full. *)
Theorem C11_binary_bias_truncated_is_error_counted :
  forall (matches : bbias -> list byte -> option bool) (params_ok : bbias -> list byte -> bool)
         (expected_hills : bbias -> list byte -> option nat) (b : bbias)
         (kwd conf : list byte) (its : list item) (hs : list (list item)) (b1 p q : list byte) (mx : N) (o : bool),
  bb_kind b = 1%nat -> item_ok (IStr kwd) -> item_ok (IStr conf) ->
  bytes_eqb kwd (bb_kw b) || bytes_eqb kwd (bb_type b) = true ->
  matches b conf = Some true -> params_ok b conf = true ->
  expected_hills b conf = Some (length hs) ->
  fields_match (bb_fields b) its -> Forall (hill_ok (bb_nvar b)) hs ->
  enc_obj kwd conf its hs = p ++ q -> q <> [] -> blen (b1 ++ p) < W64 ->
  bias_read matches params_ok expected_hills b (rst (b1 ++ p) mx false false false (blen b1) o) = BErr \/
  exists s, bias_read matches params_ok expected_hills b (rst (b1 ++ p) mx false false false (blen b1) o) = BOk s true.
Proof. exact bias_cut_counted. Qed.
Print Assumptions C11_binary_bias_truncated_is_error_counted.

(* States written before the number of hills was added (expected_hills b conf = None) cannot be told from their
   prefixes that stop exactly between two hills: those are still accepted (old files stay readable; the former
   known finding load.binary-prefix-accepted:at-hill-boundary, now confined to old files): *)
Theorem C11_binary_hill_boundary_accepted :
  forall (matches : bbias -> list byte -> option bool) (params_ok : bbias -> list byte -> bool)
         (expected_hills : bbias -> list byte -> option nat) (b : bbias) (kwd conf : list byte) (its : list item) (hs : list (list item)) (k : nat) (b1 : list byte) (mx : N) (o : bool),
  bb_kind b = 1%nat -> item_ok (IStr kwd) -> item_ok (IStr conf) ->
  bytes_eqb kwd (bb_kw b) || bytes_eqb kwd (bb_type b) = true ->
  matches b conf = Some true -> params_ok b conf = true -> expected_hills b conf = None ->
  fields_match (bb_fields b) its -> Forall (hill_ok (bb_nvar b)) hs -> (k <= length hs)%nat ->
  blen (b1 ++ enc_header kwd conf ++ enc_all its ++ enc_hills (firstn k hs)) < W64 ->
  exists s, bias_read matches params_ok expected_hills b
              (rst (b1 ++ enc_header kwd conf ++ enc_all its ++ enc_hills (firstn k hs)) mx false false false (blen b1) o) = BOk s false.
Proof. exact bias_hill_boundary. Qed.
Print Assumptions C11_binary_hill_boundary_accepted.

(* Whole binary states: magic number, global block, the variables' records, the bias objects without hills (with
   any fixed data: ABF with or without CZAR grids, histogram, restraints -- last or not) and possibly a last bias
   object with a list of hills (the order of the module's lists puts metadynamics last).
   The data end anywhere after the global block and before the end of the state (p is a proper prefix of what
   follows the global block): the load reports an error -- with the one exception of a state written before the
   number of hills was announced (expected_hills = None) whose data end exactly between two hills of that last
   bias (C11_binary_hill_boundary_accepted); when the number is announced there is no exception.  This composes the record
   theorems over read_objects_state(memory_stream &). *)
Theorem C11_binary_state_cut_is_error :
  forall (cv_ok : list byte -> bool) (matches : bbias -> list byte -> option bool) (params_ok : bbias -> list byte -> bool)
         (expected_hills : bbias -> list byte -> option nat) (gconf : list byte) (datas : list (list byte)) (xs : list bobj) (last : option bobj) (p q : list byte),
  item_ok (IStr gconf) -> Forall (cv_data_ok cv_ok) datas ->
  Forall (obj_ok matches params_ok) xs -> Forall plain xs ->
  match last with
  | Some x => obj_ok matches params_ok x /\ bb_kind (o_b x) = 1%nat /\
              match expected_hills (o_b x) (o_conf x) with Some n => n = length (o_hs x) | None => True end
  | None => True end ->
  concat (map cv_enc datas) ++ concat (map benc xs) ++ match last with Some x => benc x | None => [] end = p ++ q ->
  q <> [] -> blen (magic ++ genc gconf ++ p) < W64 ->
  (forall x k, last = Some x -> expected_hills (o_b x) (o_conf x) = None ->
     p <> concat (map cv_enc datas) ++ concat (map benc xs) ++ enc_header (o_kwd x) (o_conf x) ++ enc_all (o_its x) ++ enc_hills (firstn k (o_hs x))) ->
  load_bin cv_ok matches params_ok expected_hills (length datas)
           (map o_b xs ++ match last with Some x => [o_b x] | None => [] end) (magic ++ genc gconf ++ p) = true.
Proof. exact binary_state_cut. Qed.
Print Assumptions C11_binary_state_cut_is_error.

(* Whole binary states in which every bias object with hills announces their number (states written since the fix:
   commit of round 4), the objects with hills being ANYWHERE in the state (two metadynamics biases, a restraint
   after a metadynamics bias, ...): the data end anywhere after the global block and before the end of the state:
   the load reports an error.  No exception.  (After the hills of an object in the middle the loop looks one
   keyword ahead: the end of the data, a complete other keyword, or a keyword cut short -- an error of its own.) *)
Theorem C11_binary_state_cut_is_error_counted :
  forall (cv_ok : list byte -> bool) (matches : bbias -> list byte -> option bool) (params_ok : bbias -> list byte -> bool)
         (expected_hills : bbias -> list byte -> option nat) (gconf : list byte) (datas : list (list byte)) (xs : list bobj)
         (p q : list byte),
  item_ok (IStr gconf) -> Forall (cv_data_ok cv_ok) datas ->
  Forall (obj_ok matches params_ok) xs -> Forall (counted expected_hills) xs -> Forall not_hill_kw xs ->
  concat (map cv_enc datas) ++ concat (map benc xs) = p ++ q ->
  q <> [] -> blen (magic ++ genc gconf ++ p) < W64 ->
  load_bin cv_ok matches params_ok expected_hills (length datas) (map o_b xs) (magic ++ genc gconf ++ p) = true.
Proof. exact binary_state_cut_counted. Qed.
Print Assumptions C11_binary_state_cut_is_error_counted.

(* non-vacuity *)
Example C11_example_roundtrip :
  let l := [IObj [1;2;3;4]; IStr [97;98;99]; IVec 8 [[1;0;0;0;0;0;0;0]; [2;0;0;0;0;0;0;0]]; IVec 3 [[1;2;3]; [4;5;6]]] in
  Forall item_ok l /\ blen (enc_all l) = 53 /\
  fst (fst (read_items (input_stream (enc_all l)) (map shape_of l))) = l.
Proof.
  cbv zeta. split; [|split].
  - repeat constructor; cbn [item_ok]; try lia; vm_compute; discriminate.
  - vm_compute. reflexivity.
  - vm_compute. reflexivity.
Qed.

(* premises of C11_vector_alloc_bounded: every input stream over a buffer that fits in memory *)
Example C11_example_rinv : forall buf : list byte, blen buf <= PTRDIFF_MAX ->
  rinv (input_stream buf) /\ ms_len (input_stream buf) <= PTRDIFF_MAX.
Proof.
  intros buf H. unfold rinv, input_stream. cbn [ms_len ms_buf ms_pos ms_oob].
  repeat split; auto; unfold PTRDIFF_MAX, W64 in *; lia.
Qed.
(* the former witness: length prefix 2^61, element size 8 *)
Example C11_example_huge_length :
  fst (read_vector (input_stream (le64 2305843009213693952)) 8) = RNone.
Proof. vm_compute. reflexivity. Qed.

Example C11_example_truncation :
  let l := [IStr [97;98;99]] in
  enc_all l = [3;0;0;0;0;0;0;0;97;98] ++ [99] /\
  snd (read_items (input_stream [3;0;0;0;0;0;0;0;97;98]) (map shape_of l)) = false.
Proof. split; vm_compute; reflexivity. Qed.

Example C11_example_protocol :
  let '(m, rs) := session (start empty_fs [OOk; OOk; OOk; OOk; OOk; OOk; OOk;   OOk; OOk; OOk; OKill 10]) [S100 1; S100 2] in
  curok empty_fs = true /\ rs = [Done true; Dead] /\ completed rs = true /\ safe (m_fs m) = true /\
  m_trace m = [SUnlink; SAccessT; SOpen; SWrite 100; SClose; SAccess; SRenameT;   SUnlink; SAccessT; SOpen; SWrite 100].
Proof. vm_compute. repeat split; reflexivity. Qed.

(* the two witnesses that refuted the in-place protocol, on the repaired one.  (i) process 1 saves twice
   and is killed in the write of the second save; process 2 is killed right after its first rename:
   the state file of save 1 is intact.  (ii) ENOSPC in the last write of save 2 (reported), save 3 killed
   between its two renames: the backup holds state 1 *)
Example C11_example_former_witnesses :
  (let h := [ ([S100 1; S100 2], [OOk; OOk; OOk; OOk; OOk; OOk; OOk;   OOk; OOk; OOk; OKill 10]);
              ([S100 3], [OOk; OOk; OOk; OOk; OOk; OOk; OOk; OKill 0]) ] in
   existsb (fun o => completed (fst o)) (snd (history empty_fs h)) = true /\
   fst (history empty_fs h) = mkFS None (Some (mkF 1 100 100)) (Some (mkF 3 100 100))) /\
  (let '(m, rs) := session (start empty_fs [OOk; OOk; OOk; OOk; OOk; OOk; OOk;   OOk; OOk; OOk; OErr; OOk;
                                            OOk; OOk; OOk; OOk; OOk; OOk; OOk; OKill 0])
                           [S100 1; S100 2; S100 3] in
   rs = [Done true; Done false; Dead] /\ m_fs m = mkFS None (Some (mkF 1 100 100)) (Some (mkF 3 100 100))).
Proof. split; vm_compute; split; reflexivity. Qed.

(* (c) is not vacuous.  Words: 0 configuration, 1 colvar, 2 name, 3 hill, 4 x, 10 step, 11 restraint, 12 harmonic,
   13 metadynamics, 20 "d", 21 "h", 22 "m", 30.. numbers.  The state: global block, variable d, restraint h,
   metadynamics m with two hills; cut inside the second hill. *)
Definition ex_biases : list bias := [mkB 11 12 21 0 []; mkB 13 13 22 1 []].
Definition ex_head : list tok :=
  [TW 0; TO; TW 10; TW 30; TC;
   TW 1; TO; TW 2; TW 20; TW 4; TW 31; TC;
   TW 11; TO; TW 0; TO; TW 10; TW 30; TW 2; TW 21; TC; TC].
Definition ex_meta_body (cut : bool) : list tok :=
  [TW 0; TO; TW 10; TW 30; TW 2; TW 22; TC;
   TW 3; TO; TW 10; TW 32; TC;
   TW 3; TO; TW 10] ++ (if cut then [] else [TW 33; TC; TC]).
Example C11_example_cut_in_block :
  let l0 := ex_head ++ TW 13 :: TO :: ex_meta_body true in
  arrives cv_ok_c params_ok_c read_data_c [20] ex_biases (objects_part l0) (TW 13 :: TO :: ex_meta_body true) /\
  unclosed 1 (ex_meta_body true) = true /\ claimed [20] ex_biases 13 (ex_meta_body true) /\
  load_c [20] ex_biases l0 = true /\
  load_c [20] ex_biases (ex_head ++ TW 13 :: TO :: ex_meta_body false) = false.
Proof.
  cbv zeta. split; [|split; [|split; [|split]]].
  - eapply arr_next; [vm_compute; reflexivity|].
    eapply arr_next; [vm_compute; reflexivity|].
    apply arr_here.
  - vm_compute. reflexivity.
  - right. split; [vm_compute; discriminate|]. split.
    + exists (mkB 13 13 22 1 []). split; [right; left; reflexivity | vm_compute; reflexivity].
    + intros conf r2 v Hrb Hl. vm_compute in Hrb. inversion Hrb; subst conf r2.
      vm_compute in Hl. inversion Hl; subst v.
      exists (mkB 13 13 22 1 []). split; [right; left; reflexivity|]. split; vm_compute; reflexivity.
  - vm_compute. reflexivity.
  - vm_compute. reflexivity.
Qed.
(* error tolerance is not vacuous: an error return in the rename of the second save, then a third save *)
Example C11_example_error_tolerant :
  let '(m, rs) := session (start empty_fs [OOk; OOk; OOk; OOk; OOk; OOk; OOk;   OOk; OOk; OOk; OOk; OOk; OOk; OErr])
                          [S100 1; S100 2; S100 3] in
  rs = [Done true; Done false; Done true] /\ completed rs = true /\
  m_fs m = mkFS (Some (mkF 3 100 100)) (Some (mkF 1 100 100)) None.
Proof. vm_compute. repeat split; reflexivity. Qed.

(* (d) is not vacuous: a metadynamics object with two hills of one variable; cut 8 bytes into the second
   hill record (right after the length word of its "hill" keyword): error; cut between the hills: accepted;
   a length word of 2^64-1 after a first string (read position 11 = 8 + 3): not delivered *)
Definition ex_hill (it : N) : list item :=
  [IStr kw_hill; IStr kw_step; IObj (le64 it); IStr kw_weight; IObj (le64 1); IStr kw_centers; IObj (le64 2);
   IStr kw_widths; IObj (le64 3)].
Definition ex_bb : bbias := mkBB [109;101;116;97] [109;101;116;97] 1 1 [].
Definition ex_obj : list byte := enc_header [109;101;116;97] [110;32;109] ++ enc_hills [ex_hill 1; ex_hill 2].
Example C11_example_binary_cut :
  Forall (hill_ok 1) [ex_hill 1; ex_hill 2] /\
  (let p := firstn (N.to_nat (blen (enc_header [109;101;116;97] [110;32;109] ++ enc_all (ex_hill 1)) + 8)) ex_obj in
   exists s, bias_read (fun _ _ => Some true) (fun _ _ => true) (fun _ _ => None) ex_bb (input_stream p) = BOk s true) /\
  (let p := enc_header [109;101;116;97] [110;32;109] ++ enc_all (ex_hill 1) in
   exists s, bias_read (fun _ _ => Some true) (fun _ _ => true) (fun _ _ => None) ex_bb (input_stream p) = BOk s false) /\
  fst (read_string (snd (read_string (input_stream (le64 3 ++ [1;2;3] ++ le64 18446744073709551615 ++ [4;5]))))) = RNone.
Proof.
  split; [|split; [|split]].
  - repeat constructor; cbn [field_ok shape_of shape_of_field item_ok]; try reflexivity; try (vm_compute; reflexivity).
  - vm_compute. eexists. reflexivity.
  - vm_compute. eexists. reflexivity.
  - vm_compute. reflexivity.
Qed.

(* the bias-state writer closes its stream after a failed write and reports the error; the next save works *)
Example C11_example_bias_writer :
  let '(m, rs) := session_w W_bias (start empty_fs [OOk; OOk; OOk; OOk; OOk; OOk; OOk;   OOk; OOk; OOk; OErr])
                            [mkS 1 [50] 50; mkS 2 [50] 50; mkS 3 [50] 50] in
  rs = [Done true; Done false; Done true] /\ m_reg m = NotOpen /\
  m_fs m = mkFS (Some (mkF 3 100 100)) (Some (mkF 1 100 100)) None.
Proof. vm_compute. repeat split; reflexivity. Qed.

(* an eABF object "abf" <conf> samples 2x8 gradient 2x8 z_samples 2x8 z_gradient 2x8 that is the last object of the data:
   cut 9 bytes into the "z_samples" key (inside the window of the seeded change C11_4), and cut right after the
   gradient grid: both are errors *)
Definition ex_abf_fields : list field :=
  [FKey [115;97;109;112;108;101;115]; FObj 8; FObj 8; FKey [103;114;97;100;105;101;110;116]; FObj 8; FObj 8;
   FKey [122;95;115;97;109;112;108;101;115]; FObj 8; FObj 8; FKey [122;95;103;114;97;100;105;101;110;116]; FObj 8; FObj 8].
Definition ex_abf_items : list item :=
  [IStr [115;97;109;112;108;101;115]; IObj (le64 0); IObj (le64 4); IStr [103;114;97;100;105;101;110;116]; IObj (le64 0); IObj (le64 0);
   IStr [122;95;115;97;109;112;108;101;115]; IObj (le64 0); IObj (le64 4); IStr [122;95;103;114;97;100;105;101;110;116]; IObj (le64 0); IObj (le64 0)].
Definition ex_abf : bbias := mkBB [97;98;102] [97;98;102] 0 1 ex_abf_fields.
Example C11_example_abf_czar_cut :
  fields_match ex_abf_fields ex_abf_items /\
  (let pre := enc_header [97;98;102] [110;32;97] ++ enc_all (firstn 6 ex_abf_items) in
   bias_read (fun _ _ => Some true) (fun _ _ => true) (fun _ _ => None) ex_abf (input_stream pre) = BErr /\
   bias_read (fun _ _ => Some true) (fun _ _ => true) (fun _ _ => None) ex_abf
             (input_stream (firstn (length pre + 9) (enc_obj [97;98;102] [110;32;97] ex_abf_items []))) = BErr) /\
  (exists s, bias_read (fun _ _ => Some true) (fun _ _ => true) (fun _ _ => None) ex_abf (input_stream (enc_obj [97;98;102] [110;32;97] ex_abf_items [])) = BOk s false).
Proof.
  split; [|split; [split|]].
  - repeat constructor; cbn [field_ok shape_of shape_of_field item_ok]; try reflexivity; try (vm_compute; reflexivity).
  - vm_compute. reflexivity.
  - vm_compute. reflexivity.
  - vm_compute. eexists. reflexivity.
Qed.

(* the number of hills in the configuration string: "n m\nnumHills 2\n" announces 2; the object of
   C11_example_binary_cut with that configuration, cut between its two hills, is now an error *)
Definition ex_conf_counted : list byte := [110;32;109;10;110;117;109;72;105;108;108;115;32;50;10].
Example C11_example_counted_hills :
  find_numhills ex_conf_counted = Some 2%nat /\ find_numhills [110;32;109] = None /\
  bias_read (fun _ _ => Some true) (fun _ _ => true) (fun _ c => find_numhills c) ex_bb
            (input_stream (enc_header [109;101;116;97] ex_conf_counted ++ enc_all (ex_hill 1))) = BErr /\
  (exists s, bias_read (fun _ _ => Some true) (fun _ _ => true) (fun _ c => find_numhills c) ex_bb
               (input_stream (enc_header [109;101;116;97] ex_conf_counted ++ enc_hills [ex_hill 1; ex_hill 2])) = BOk s false).
Proof. split; [|split; [|split]]; vm_compute; try reflexivity. eexists. reflexivity. Qed.

(* an empty vector read into a destination that holds three elements empties it *)
Example C11_example_empty_vector_into_dirty_destination :
  snd (read_vector_into (input_stream (le64 0)) 4 [[238;238;238;238]; [238;238;238;238]; [238;238;238;238]]) = [] /\
  snd (read_vector_into (input_stream (le64 1 ++ [1;2;3;4])) 4 [[238;238;238;238]; [238;238;238;238]]) = [[1;2;3;4]].
Proof. split; vm_compute; reflexivity. Qed.
