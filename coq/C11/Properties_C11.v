(* C11: state files are crash-consistent; the binary stream reads back what it wrote
   (statements only; proofs in MemStreamProofs.v and CrashProofs.v). *)
From Coq Require Import NArith List Bool Lia.
From CV Require Import C11.MemStreamModel C11.MemStreamProofs C11.CrashModel C11.CrashProofs.
Import ListNotations.
Open Scope N_scope.

(* ===================== (a) the binary stream codec ===================== *)

(* Any sequence of objects (of any size), strings and vectors of 8-byte elements written to an empty
   stream produces exactly the documented format, and reading the same sequence of types from
   output_buffer()[0..length()) delivers exactly the values written, ends at the end of the data in
   the good state, and never touches a byte outside the buffer. *)
Theorem C11_stream_roundtrip : forall (l : list item) (mx : N),
  Forall item_ok l -> Forall vec8 l -> blen (enc_all l) <= mx -> blen (enc_all l) < W64 ->
  let w := write_items (empty_stream mx) l in
  output w = (enc_all l, false) /\ good w = true /\ ms_oob w = false /\
  exists s', read_items (input_stream (fst (output w))) (map shape_of l) = (l, s', true)
             /\ good s' = true /\ ms_pos s' = ms_len s' /\ ms_oob s' = false.
Proof. exact stream_roundtrip. Qed.
Print Assumptions C11_stream_roundtrip.

Theorem C11_object_roundtrip : forall (b : list byte) (mx : N), blen b <= mx -> blen b < W64 ->
  let w := write_object (empty_stream mx) b in
  output w = (b, false) /\
  exists s', read_object (input_stream (fst (output w))) (blen b) = (RBytes b, s')
             /\ good s' = true /\ ms_pos s' = ms_len s'.
Proof. exact object_roundtrip. Qed.
Print Assumptions C11_object_roundtrip.

Theorem C11_string_roundtrip : forall (b : list byte) (mx : N), 8 + blen b <= mx -> 8 + blen b < W64 ->
  let w := write_string (empty_stream mx) b in
  output w = (le64 (blen b) ++ b, false) /\
  exists s', read_string (input_stream (fst (output w))) = (RBytes b, s')
             /\ good s' = true /\ ms_pos s' = ms_len s'.
Proof. exact string_roundtrip. Qed.
Print Assumptions C11_string_roundtrip.

(* The property text: "every value type the binary stream accepts is read back exactly as written".
   Full statement for vectors (every element size sz = sizeof(T)):

     Theorem C11_vector_roundtrip : forall sz es mx, item_ok (IVec sz es) -> 8 + sz * blen es <= mx ->
       let w := write_vector (empty_stream mx) sz es in
       output w = (enc (IVec sz es), false) /\
       fst (read_vector (input_stream (fst (output w))) sz) = RVec es.

   It is FALSE of the code: write_vector advances the cursor by sizeof(T) after the 8-byte length. *)
Theorem C11_vector_roundtrip_refuted : exists (sz : N) (es : list (list byte)),
  item_ok (IVec sz es) /\
  let w := write_vector (empty_stream DEFAULT_MAX) sz es in
  fst (output w) <> enc (IVec sz es) /\
  fst (read_vector (input_stream (fst (output w))) sz) <> RVec es.
Proof.
  exists 4, [[1;0;0;0]; [2;0;0;0]; [3;0;0;0]; [4;0;0;0]; [5;0;0;0]].
  split.
  - cbn [item_ok]. split; [lia|]. split; [repeat constructor|]. vm_compute. discriminate.
  - split; vm_compute; discriminate.
Qed.
Print Assumptions C11_vector_roundtrip_refuted.

Theorem C11_vector_roundtrip_partial : forall (es : list (list byte)) (mx : N),
  Forall (fun e => blen e = 8) es -> 8 * blen es <= PTRDIFF_MAX -> 8 + 8 * blen es <= mx ->
  let w := write_vector (empty_stream mx) 8 es in
  output w = (le64 (blen es) ++ concat es, false) /\
  exists s', read_vector (input_stream (fst (output w))) 8 = (RVec es, s')
             /\ good s' = true /\ ms_pos s' = ms_len s'.
Proof. exact vector8_roundtrip. Qed.
Print Assumptions C11_vector_roundtrip_partial.

(* "... or touching memory out of bounds": full statement for writers

     Theorem C11_write_cursor_in_buffer : forall sz es mx, item_ok (IVec sz es) ->
       let w := write_vector (empty_stream mx) sz es in ms_len w <= blen (ms_buf w) /\ ms_oob w = false.

   FALSE for sizeof(T) > 8: length() exceeds the buffer (empty vector), and with one element the
   second memcpy stores 16 bytes past the end of the buffer. *)
Theorem C11_write_cursor_in_buffer_refuted :
  (exists (sz : N) (es : list (list byte)), item_ok (IVec sz es) /\
     blen (ms_buf (write_vector (empty_stream DEFAULT_MAX) sz es)) < ms_len (write_vector (empty_stream DEFAULT_MAX) sz es)) /\
  (exists (sz : N) (es : list (list byte)), item_ok (IVec sz es) /\
     ms_oob (write_vector (empty_stream DEFAULT_MAX) sz es) = true).
Proof.
  split.
  - exists 24, []. split; [cbn [item_ok]; split; [lia|]; split; [constructor|vm_compute; discriminate] | vm_compute; reflexivity].
  - exists 24, [[0;1;2;3;4;5;6;7;8;9;10;11;12;13;14;15;16;17;18;19;20;21;22;23]].
    split; [cbn [item_ok]; split; [lia|]; split; [repeat constructor|vm_compute; discriminate] | vm_compute; reflexivity].
Qed.
Print Assumptions C11_write_cursor_in_buffer_refuted.

(* Every read, whatever the bytes and whatever sequence of reads (objects of any size, strings,
   vectors of any element size, continuing after failures), touches only bytes of the buffer and
   leaves the read position inside it. *)
Theorem C11_reads_in_bounds : forall (buf : list byte) (l : list shape), blen buf < W64 ->
  let s' := read_any (input_stream buf) l in
  ms_oob s' = false /\ ms_pos s' <= ms_len s' /\ ms_len s' = blen (ms_buf s').
Proof. exact reads_in_bounds. Qed.
Print Assumptions C11_reads_in_bounds.

(* "Loading a ... malformed ... binary state terminates without crashing": full statement

     Theorem C11_vector_alloc_bounded : forall buf sz n, 0 < sz ->
       fst (read_vector (input_stream buf) sz) <> RThrow n
     (a vector read never asks std::vector::resize for more elements than the bytes that remain).

   FALSE: the product length * sizeof(T) is taken mod 2^64 before the bound check. *)
Theorem C11_vector_alloc_bounded_refuted : exists (buf : list byte) (sz n : N),
  0 < sz /\ fst (read_vector (input_stream buf) sz) = RThrow n /\ blen buf < n * sz.
Proof.
  exists (le64 2305843009213693952), 8, 2305843009213693952.
  split; [lia|]. split; vm_compute; reflexivity.
Qed.
Print Assumptions C11_vector_alloc_bounded_refuted.

(* partial: on a buffer that fits in memory the reader throws ONLY when the product wraps;
   strings (element size 1) never throw *)
Theorem C11_vector_alloc_bounded_partial : forall (s : mstream) (sz n : N),
  rinv s -> ms_len s <= PTRDIFF_MAX -> 0 < sz ->
  fst (read_vector s sz) = RThrow n -> W64 <= n * sz.
Proof. exact read_vector_throw_only_by_wrap. Qed.
Print Assumptions C11_vector_alloc_bounded_partial.

Theorem C11_string_read_never_throws : forall (s : mstream) (n : N), fst (read_string s) <> RThrow n.
Proof. exact read_string_never_throws. Qed.
Print Assumptions C11_string_read_never_throws.

(* Reading any proper prefix of a valid stream with the types it was written with stops with an
   error (the stream is not good), after delivering only a prefix of the original values. *)
Theorem C11_truncation_detected : forall (l : list item) (p q : list byte),
  Forall item_ok l -> enc_all l = p ++ q -> q <> [] -> blen p < W64 ->
  exists its rest s', read_items (input_stream p) (map shape_of l) = (its, s', false)
                      /\ good s' = false /\ ms_oob s' = false /\ l = its ++ rest.
Proof. exact truncation_detected. Qed.
Print Assumptions C11_truncation_detected.

(* ===================== (b) the replace protocol ===================== *)

(* Within one process lifetime: any number of saves, the process may die before any file system
   call or inside any write (any prefix persists), no call returns an error.  Starting from an empty
   directory, or from any directory whose current file is absent or complete: from the moment the
   first save completed (or from the start, if a complete state was already there), the state file
   or its .old backup holds a complete state at every point where the process can die. *)
Theorem C11_crash_consistent_one_process : forall (fs : fsys) (plan : list outcome) (l : list saveop),
  curok fs = true -> kills_only plan = true ->
  let '(m', rs) := session (start fs plan) l in
  safe fs = true \/ completed rs = true -> safe (m_fs m') = true.
Proof. exact crash_consistent_one_process. Qed.
Print Assumptions C11_crash_consistent_one_process.

(* The property text quantifies over fault sequences ("a crash at any instant ... from the moment the
   first state was completed"); full statement over several process lifetimes on the same directory:

     Theorem C11_crash_consistent : forall h, Forall (fun sp => kills_only (snd sp) = true) h ->
       let '(fs', out) := history empty_fs h in
       existsb (fun o => completed (fst o)) out = true -> safe fs' = true.

   FALSE of the code: a process that dies while writing leaves a partial <name>; the next process
   renames that partial file over the only complete copy (<name>.old) before it writes anything. *)
Definition S100 (v : N) : saveop := mkS v [] 100.
Theorem C11_crash_consistent_refuted : exists h : list (list saveop * list outcome)%type,
  Forall (fun sp => kills_only (snd sp) = true) h /\
  existsb (fun o => completed (fst o)) (snd (history empty_fs h)) = true /\
  safe (fst (history empty_fs h)) = false.
Proof.
  exists [ ([S100 1; S100 2], [OOk; OOk; OOk; OOk;   OOk; OOk; OOk; OKill 10]);
           ([S100 3], [OOk; OOk; OKill 0]) ].
  split; [repeat constructor | split; vm_compute; reflexivity].
Qed.
Print Assumptions C11_crash_consistent_refuted.

(* The variant in which a write fails without process death.  A detected error (during write_state)
   leaves the stream registered in a failed state: every later save of the process is refused and
   the directory is never touched again (the backup survives, no new state is ever written). *)
Theorem C11_error_path_stuck_stream : forall (m : mach) (v : N) (ch : list N) (tail : N),
  m_reg m = Open true -> save m v ch tail = (m, Done false).
Proof. exact stuck_stream. Qed.
Print Assumptions C11_error_path_stuck_stream.

(* Errors that the code does not look at break the invariant without any second crash:
   (i) the last buffer is flushed inside close_output_stream() and its failure is ignored: the save
       reports success on a truncated file, and the next save renames it over the good backup;
   (ii) the result of backup_file()/rename is ignored by output_stream(): the only copy is truncated. *)
Theorem C11_error_path_refuted :
  (let '(m, rs) := session (start empty_fs [OOk; OOk; OOk; OOk;  OOk; OOk; OOk; OErr; OOk;  OOk; OOk; OKill 0])
                           [S100 1; S100 2; S100 3] in
   rs = [Done true; Done true; Dead] /\ safe (m_fs m) = false) /\
  (let '(m, rs) := session (start empty_fs [OOk; OOk; OOk; OOk;  OOk; OErr; OOk; OKill 10]) [S100 1; S100 2] in
   rs = [Done true; Dead] /\ safe (m_fs m) = false).
Proof. split; vm_compute; split; reflexivity. Qed.
Print Assumptions C11_error_path_refuted.

(* non-vacuity *)
Example C11_example_roundtrip :
  let l := [IObj [1;2;3;4]; IStr [97;98;99]; IVec 8 [[1;0;0;0;0;0;0;0]; [2;0;0;0;0;0;0;0]]] in
  Forall item_ok l /\ Forall vec8 l /\ blen (enc_all l) = 39 /\
  fst (fst (read_items (input_stream (enc_all l)) (map shape_of l))) = l.
Proof.
  cbv zeta. split; [|split; [|split]].
  - repeat constructor; cbn [item_ok]; try lia; vm_compute; discriminate.
  - repeat constructor.
  - vm_compute. reflexivity.
  - vm_compute. reflexivity.
Qed.

Example C11_example_truncation :
  let l := [IStr [97;98;99]] in
  enc_all l = [3;0;0;0;0;0;0;0;97;98] ++ [99] /\
  snd (read_items (input_stream [3;0;0;0;0;0;0;0;97;98]) (map shape_of l)) = false.
Proof. split; vm_compute; reflexivity. Qed.

Example C11_example_protocol :
  let '(m, rs) := session (start empty_fs [OOk; OOk; OOk; OOk; OOk; OOk; OOk; OKill 10]) [S100 1; S100 2] in
  curok empty_fs = true /\ rs = [Done true; Dead] /\ completed rs = true /\ safe (m_fs m) = true /\
  m_trace m = [SAccess; SOpen; SWrite 100; SClose; SAccess; SRename; SOpen; SWrite 100].
Proof. vm_compute. repeat split; reflexivity. Qed.
