(* C11 (c): token-level model of the text state reader
   colvarmodule::read_state_template_<std::istream> -> read_objects_state(std::istream &)
   -> colvar::read_state / colvarbias::read_state_template_ (raise_error_rewind) -> colvarparse::read_block
   (src/colvarmodule.cpp, src/colvar.cpp, src/colvarbias.cpp, src/colvarparse.cpp, src/colvarbias_meta.cpp).
   The stream is the list of the white-space separated words that remain ("{" and "}" are words of their
   own in a state file); a rewind is the return of the list a function was given.  The result of a load is
   whether cvm::error() was called (what setup_input reports to the host).  Definitions only. *)
From Coq Require Import NArith List Bool.
Import ListNotations.
Open Scope N_scope.

Inductive tok := TO | TC | TW (w : N).          (* "{", "}", any other word (numbered by the tokenizer) *)

Definition tok_eqb (a b : tok) : bool :=
  match a, b with
  | TO, TO => true | TC, TC => true | TW x, TW y => x =? y | _, _ => false
  end.

(* the words the reader itself looks for *)
Definition KW_configuration : N := 0.
Definition KW_colvar : N := 1.
Definition KW_name : N := 2.
Definition KW_hill : N := 3.
Definition KW_x : N := 4.

(* read_block_contents(): from inside a block at brace depth d (>= 1) to the matching "}":
   the contents and what follows the brace; None when the braces are never matched (failbit, rewound) *)
Fixpoint block_contents (d : nat) (l : list tok) : option (list tok * list tok) :=
  match l with
  | [] => None
  | TO :: r => match block_contents (S d) r with Some (c, rest) => Some (TO :: c, rest) | None => None end
  | TC :: r => match d with
               | S (S d') => match block_contents (S d') r with Some (c, rest) => Some (TC :: c, rest) | None => None end
               | _ => Some ([], r)
               end
  | TW w :: r => match block_contents d r with Some (c, rest) => Some (TW w :: c, rest) | None => None end
  end.

(* is >> colvarparse::read_block(key, &data): the key, then either "{" contents "}" or one word;
   None = the stream fails (key not there, nothing after it, braces unmatched) and is rewound *)
Definition read_block (key : tok) (l : list tok) : option (list tok * list tok) :=
  match l with
  | k :: TO :: r => if tok_eqb k key then block_contents 1 r else None
  | k :: x :: r => if tok_eqb k key then Some ([x], r) else None
  | _ => None
  end.

(* get_keyval(conf, key, ...): the word that follows the first top-level occurrence of the key *)
Fixpoint lookup (key : N) (d : nat) (conf : list tok) : option tok :=
  match conf with
  | [] => None
  | TO :: r => lookup key (S d) r
  | TC :: r => lookup key (pred d) r
  | TW w :: r => if (w =? key) && (Nat.eqb d 0) then (match r with v :: _ => Some v | [] => None end)
                 else lookup key d r
  end.

(* what an object's read_state() leaves behind *)
Inductive ores :=
| OFail                                  (* failbit; every such path has called or makes the caller call cvm::error *)
| OSkip                                  (* not for this object: rewound, stream good, no error *)
| ORead (rest : list tok) (err : bool).  (* consumed; err = cvm::error was called on the way *)

(* the type-specific data that follow a bias's configuration block, before an optional list of hills:
   read_state_data_key(is, w); n numbers read with operator>> (colvar_grid::read_raw); a brace block
   read with read_block (grid_parameters { ... }) *)
Inductive delem := DKey (w : N) | DWords (n : nat) | DBlock (w : N).

Record bias := mkB {
  b_kw : N;        (* state_keyword, e.g. "restraint" *)
  b_type : N;      (* bias_type, e.g. "harmonic" *)
  b_name : N;
  b_kind : nat;    (* 1: a list of hills follows the layout (metadynamics); otherwise nothing *)
  b_layout : list delem   (* e.g. histogram: [DKey grid; DWords n]; metadynamics with grids:
                             [DKey hills_energy; DBlock grid_parameters; DWords n; DKey hills_energy_gradients; ...] *)
}.

Section Reader.
  (* colvar::set_state_params(conf) == COLVARS_OK *)
  Variable cv_ok : N -> list tok -> bool.
  (* colvarbias::set_state_params(conf) == COLVARS_OK (type-specific overrides) *)
  Variable params_ok : bias -> list tok -> bool.
  (* read_state_data(is): None = the stream failed; Some rest = good stream; the flag = cvm::error was called *)
  Variable read_data : bias -> list tok -> option (list tok) * bool.

  (* std::istream & colvar::read_state(std::istream &is) of the variable named n *)
  Definition cv_read (n : N) (l : list tok) : ores :=
    match read_block (TW KW_colvar) l with
    | None => OFail
    | Some (conf, rest) =>
      match lookup KW_name 0 conf with
      | None => OFail                                     (* check_matching_state: no identifier *)
      | Some v => if tok_eqb v (TW n)
                  then (if cv_ok n conf then ORead rest false else OFail)
                  else OSkip
      end
    end.

  (* colvarbias::read_state_template_<std::istream>: key (already matched by the caller), "{",
     the configuration block, set_state_params, read_state_data, "}" *)
  Definition bias_read (b : bias) (l : list tok) : ores :=
    match l with
    | _ :: TO :: r1 =>
      match read_block (TW KW_configuration) r1 with
      | None => OFail
      | Some (conf, r2) =>
        match lookup KW_name 0 conf with
        | None => OFail
        | Some v =>
          if tok_eqb v (TW (b_name b)) then
            if params_ok b conf then
              match read_data b r2 with
              | (None, _) => OFail
              | (Some r3, e) => match r3 with TC :: r4 => ORead r4 e | _ => OFail end   (* "no matching brace" *)
              end
            else OFail
          else OSkip
        end
      end
    | _ => OFail
    end.

  Inductive stepres := Stop (err : bool) | Next (l : list tok) (err : bool).

  (* the loop `for (cvi ...) { if (!read_state(is)) error; if (is.tellg() > pos) break; }` *)
  Fixpoint try_colvars (cvs : list N) (l : list tok) : option stepres :=
    match cvs with
    | [] => None
    | n :: r => match cv_read n l with
                | OFail => Some (Stop true)
                | OSkip => try_colvars r l
                | ORead rest e => Some (Next rest e)
                end
    end.

  Definition claims (b : bias) (w : tok) : bool := tok_eqb w (TW (b_kw b)) || tok_eqb w (TW (b_type b)).

  Fixpoint try_biases (bs : list bias) (w : tok) (l : list tok) : option stepres :=
    match bs with
    | [] => None
    | b :: r => if claims b w then
                  match bias_read b l with
                  | OFail => Some (Stop true)
                  | OSkip => try_biases r w l
                  | ORead rest e => Some (Next rest e)
                  end
                else try_biases r w l
    end.

  Variable colvars : list N.
  Variable biases : list bias.

  (* one iteration of `while (is)` in read_objects_state(std::istream &) *)
  Definition step (l : list tok) : stepres :=
    match l with
    | [] => Stop false
    | w :: _ =>
      let tried := if tok_eqb w (TW KW_colvar) then try_colvars colvars l else try_biases biases w l in
      match tried with
      | Some r => r
      | None =>            (* not read by any object: is >> read_block(word, NULL); if (!is) break; *)
        match read_block w l with
        | Some (_, rest) => Next rest false
        | None => Stop false
        end
      end
    end.

  (* the loop, with fuel (every Next consumes at least one word); the flag is sticky *)
  Fixpoint loop (fuel : nat) (l : list tok) (err : bool) : bool :=
    match fuel with
    | O => err
    | S f => match step l with
             | Stop e => err || e
             | Next l' e => loop f l' (err || e)
             end
    end.

  (* read_state_template_: the global configuration block when it is there, is.clear(), the objects *)
  Definition load (l : list tok) : bool :=
    let l1 := match read_block (TW KW_configuration) l with Some (_, r) => r | None => l end in
    loop (S (length l1)) l1 false.
End Reader.

(* ---- the concrete readers of the explored configuration ---- *)
(* a hill: "hill" "{" words "}" (the keys and numbers inside are not interpreted by the model) *)
Fixpoint hill_words (l : list tok) : option (list tok) :=
  match l with
  | TW _ :: r => hill_words r
  | TC :: r => Some r
  | _ => None
  end.

(* while (read_hill(is)) {}; is.clear();  a hill that cannot be read is rewound and reported (hill_stream_error) *)
Fixpoint read_hills (fuel : nat) (l : list tok) : list tok * bool :=
  match fuel with
  | O => (l, false)
  | S f =>
    match l with
    | TW k :: r =>
      if k =? KW_hill then
        match r with
        | TO :: r1 => match hill_words r1 with
                      | Some r2 => read_hills f r2
                      | None => (l, true)
                      end
        | _ => (l, true)
        end
      else (l, false)
    | _ => (l, false)
    end
  end.

(* n numbers, each read with operator>>: a brace or the end of the file is not a number *)
Fixpoint take_words (n : nat) (l : list tok) : option (list tok) :=
  match n with
  | O => Some l
  | S n' => match l with TW _ :: r => take_words n' r | _ => None end
  end.

(* keys, raw arrays and brace blocks in the order the bias reads them; None = the stream fails (the readers
   call cvm::error on the way) *)
Fixpoint read_layout (es : list delem) (l : list tok) : option (list tok) :=
  match es with
  | [] => Some l
  | DKey w :: r => match l with
                   | TW k :: l' => if k =? w then read_layout r l' else None
                   | _ => None
                   end
  | DWords n :: r => match take_words n l with Some l' => read_layout r l' | None => None end
  | DBlock w :: r => match l with
                     | TW k :: TO :: l' => if k =? w then
                                             match block_contents 1 l' with
                                             | Some (_, l'') => read_layout r l''
                                             | None => None
                                             end
                                           else None
                     | _ => None
                     end
  end.

(* the layout (nothing for harmonic and other restraints with fixed parameters; the grid of a histogram;
   the two grids of metadynamics), then, kind 1, the list of hills *)
Definition read_data_c (b : bias) (l : list tok) : option (list tok) * bool :=
  match read_layout (b_layout b) l with
  | None => (None, true)
  | Some l1 =>
    match b_kind b with
    | S O => let '(r, e) := read_hills (length l1) l1 in (Some r, e)
    | _ => (Some l1, false)
    end
  end.

Definition cv_ok_c (n : N) (conf : list tok) : bool :=
  match lookup KW_x 0 conf with Some _ => true | None => false end.
Definition params_ok_c (b : bias) (conf : list tok) : bool := true.

Definition load_c (colvars : list N) (biases : list bias) (l : list tok) : bool :=
  load cv_ok_c params_ok_c read_data_c colvars biases l.
