(* C11 (d): lemmas about the binary state readers above memory_stream. *)
From Coq Require Import NArith List Bool Lia Arith.
From CV Require Import C11.MemStreamModel C11.MemStreamProofs C11.BinReadModel.
Import ListNotations.
Open Scope N_scope.

Lemma bytes_eqb_refl a : bytes_eqb a a = true.
Proof. induction a as [|x a IH]; cbn [bytes_eqb]; [reflexivity | now rewrite N.eqb_refl, IH]. Qed.

Lemma bytes_eqb_eq : forall a b, bytes_eqb a b = true -> a = b.
Proof.
  induction a as [|x a IH]; intros [|y b] H; cbn [bytes_eqb] in H; try discriminate; [reflexivity|].
  apply andb_true_iff in H. destruct H as [H1 H2]. apply N.eqb_eq in H1. subst y. now rewrite (IH b H2).
Qed.

(* an item is what a field of a record expects *)
Definition field_item (f : field) (it : item) : Prop :=
  field_ok f it = true /\ shape_of it = shape_of_field f /\ item_ok it.
Definition fields_match (fs : list field) (its : list item) : Prop := Forall2 field_item fs its.

(* a complete record in the middle of the data is read, field by field, and the position moves past it *)
Lemma read_fields_mid : forall fs its b1 b2 mx o, fields_match fs its ->
  blen (b1 ++ enc_all its ++ b2) < W64 ->
  read_fields (rst (b1 ++ enc_all its ++ b2) mx false false false (blen b1) o) fs
  = Some (its, rst (b1 ++ enc_all its ++ b2) mx false false false (blen (b1 ++ enc_all its)) o).
Proof.
  induction fs as [|f fs IH]; intros its b1 b2 mx o Hm H; inversion Hm as [|? it ? its' Hfi Hrest]; subst.
  - cbn [read_fields enc_all map concat app]. now rewrite app_nil_r.
  - destruct Hfi as (Hok & Hsh & Hi).
    cbn [read_fields]. rewrite enc_all_cons in *. rewrite <- (app_assoc (enc it)) in *.
    destruct (read_shape_mid it b1 (enc_all its' ++ b2) mx false false false o Hi H) as (res & Hr & Hit).
    rewrite <- Hsh. rewrite Hr, Hit, Hok.
    rewrite (app_assoc b1 (enc it)) in *.
    rewrite (IH its' (b1 ++ enc it) b2 mx o Hrest H).
    now rewrite <- !app_assoc.
Qed.

(* a record cut anywhere before its end is refused *)
Lemma read_fields_trunc : forall fs its b1 p q mx o, fields_match fs its -> enc_all its = p ++ q -> q <> [] ->
  blen (b1 ++ p) < W64 ->
  read_fields (rst (b1 ++ p) mx false false false (blen b1) o) fs = None.
Proof.
  induction fs as [|f fs IH]; intros its b1 p q mx o Hm He Hq H; inversion Hm as [|? it ? its' Hfi Hrest]; subst.
  - cbn in He. symmetry in He. apply app_eq_nil in He. destruct He; congruence.
  - destruct Hfi as (Hok & Hsh & Hi). rewrite enc_all_cons in He. cbn [read_fields]. rewrite <- Hsh.
    destruct (Nat.le_gt_cases (length (enc it)) (length p)) as [Hle|Hgt].
    + destruct (prefix_split _ _ _ _ He Hle) as (m & Hp & Hmq). subst p.
      destruct (read_shape_mid it b1 m mx false false false o Hi H) as (res & Hr & Hit).
      rewrite Hr, Hit, Hok. rewrite app_assoc in H |- *.
      now rewrite (IH its' (b1 ++ enc it) m q mx o Hrest Hmq Hq H).
    + symmetry in He. destruct (prefix_split _ _ _ _ He) as (m & Hp & Hmq); [lia|].
      assert (Hmn : m <> []) by (intros ->; rewrite app_nil_r in Hp; rewrite Hp in Hgt; lia).
      destruct (read_shape_trunc it b1 p m mx o Hi Hp Hmn H) as (res & s' & Hr & Hit & Hf).
      now rewrite Hr, Hit.
Qed.

(* ---------------------------------------------------------------- the list of hills *)
Definition hill_ok (nv : nat) (h : list item) : Prop := fields_match (FKey kw_hill :: hill_fields nv) h.
Definition enc_hills (hs : list (list item)) : list byte := concat (map enc_all hs).

Lemma enc_hills_cons h hs : enc_hills (h :: hs) = enc_all h ++ enc_hills hs.
Proof. reflexivity. Qed.

Lemma hill_split nv h : hill_ok nv h ->
  exists rest, h = IStr kw_hill :: rest /\ fields_match (hill_fields nv) rest.
Proof.
  intros H. inversion H as [|? it ? rest Hfi Hrest]; subst. destruct Hfi as (Hok & Hsh & Hi).
  destruct it as [v|v|sz es]; cbn [field_ok] in Hok; try discriminate.
  apply bytes_eqb_eq in Hok. subst v. now exists rest.
Qed.

Lemma item_ok_kw_hill : item_ok (IStr kw_hill).
Proof. cbn [item_ok]. vm_compute. reflexivity. Qed.

Lemma read_string_at_end b1 mx o : blen b1 < W64 ->
  fst (read_string (rst b1 mx false false false (blen b1) o)) = RNone.
Proof.
  intros H. unfold read_string. rewrite begin_rst. rewrite has_remaining_rst by lia.
  replace (8 <=? blen b1 - blen b1) with false by (symmetry; apply N.leb_gt; lia). reflexivity.
Qed.

Lemma rst_pos buf mx e f bd p o : ms_pos (rst buf mx e f bd p o) = p. Proof. reflexivity. Qed.
Lemma rst_len buf mx e f bd p o : ms_len (rst buf mx e f bd p o) = blen buf. Proof. reflexivity. Qed.

(* a hill list cut anywhere but between two hills is an error: inside the keyword of a hill (unread bytes
   after the position where the record starts), or inside its fields *)
Lemma hills_cut nv : forall hs fuel b1 p q mx o, Forall (hill_ok nv) hs ->
  enc_hills hs = p ++ q -> q <> [] -> (forall k, p <> enc_hills (firstn k hs)) ->
  (length p < fuel)%nat -> blen (b1 ++ p) < W64 ->
  snd (read_hills fuel nv (rst (b1 ++ p) mx false false false (blen b1) o)) = true.
Proof.
  induction hs as [|h hs IH]; intros fuel b1 p q mx o Hok He Hq Hnb Hfuel H.
  - cbn in He. symmetry in He. apply app_eq_nil in He. destruct He; congruence.
  - inversion Hok as [|? ? Hh Hhs]; subst.
    destruct (hill_split nv h Hh) as (rest & -> & Hrest).
    destruct fuel as [|f]; [lia|].
    assert (Hpne : p <> []) by (intros ->; apply (Hnb 0%nat); reflexivity).
    assert (Hk12 : length (enc (IStr kw_hill)) = 12%nat) by (vm_compute; reflexivity).
    rewrite enc_hills_cons, enc_all_cons, <- app_assoc in He.
    cbn [read_hills]. rewrite rst_pos, rst_len.
    destruct (Nat.le_gt_cases (length (enc (IStr kw_hill))) (length p)) as [Hle|Hgt].
    + (* the keyword is there *)
      destruct (prefix_split _ _ _ _ He Hle) as (p2 & Hp & He2). subst p.
      rewrite (read_string_mid b1 kw_hill p2 mx false false false o H). rewrite bytes_eqb_refl.
      rewrite (app_assoc b1 (enc (IStr kw_hill)) p2) in H |- *.
      destruct (Nat.le_gt_cases (length (enc_all rest)) (length p2)) as [Hle2|Hgt2].
      * destruct (prefix_split _ _ _ _ He2 Hle2) as (p3 & Hp2 & He3). subst p2.
        rewrite (read_fields_mid (hill_fields nv) rest (b1 ++ enc (IStr kw_hill)) p3 mx o Hrest H).
        rewrite (app_assoc (b1 ++ enc (IStr kw_hill)) (enc_all rest) p3) in H |- *.
        apply (IH f _ p3 q mx o Hhs He3 Hq); [| rewrite !app_length in Hfuel; lia | exact H].
        intros k Hk. apply (Hnb (S k)). cbn [firstn]. rewrite enc_hills_cons, enc_all_cons, <- app_assoc. now rewrite Hk.
      * symmetry in He2. destruct (prefix_split _ _ _ _ He2) as (m & Hp2 & Hm); [lia|].
        assert (Hmn : m <> []) by (intros ->; rewrite app_nil_r in Hp2; rewrite Hp2 in Hgt2; lia).
        now rewrite (read_fields_trunc (hill_fields nv) rest (b1 ++ enc (IStr kw_hill)) p2 m mx o Hrest Hp2 Hmn H).
    + (* cut inside the keyword: the string cannot be read, and bytes are left after the start of the record *)
      symmetry in He. destruct (prefix_split _ _ _ _ He) as (m & Hp & Hm); [lia|].
      assert (Hmn : m <> []) by (intros ->; rewrite app_nil_r in Hp; rewrite Hp in Hgt; lia).
      destruct (read_string_trunc kw_hill b1 p m mx o item_ok_kw_hill Hp Hmn H) as (s' & Hr & _).
      rewrite Hr. cbn [snd]. apply N.ltb_lt. rewrite blen_app.
      destruct p; [congruence | unfold blen; cbn [length]; lia].
Qed.

(* ... and a hill list that stops exactly between two hills (the data ends there) is accepted: the format
   has neither a count nor an end marker *)
Lemma hills_boundary nv : forall k hs fuel b1 mx o, Forall (hill_ok nv) hs ->
  (k < fuel)%nat -> blen (b1 ++ enc_hills (firstn k hs)) < W64 ->
  snd (read_hills fuel nv (rst (b1 ++ enc_hills (firstn k hs)) mx false false false (blen b1) o)) = false.
Proof.
  induction k as [|k IH]; intros hs fuel b1 mx o Hok Hfuel H.
  - cbn [firstn enc_hills map concat] in *. rewrite app_nil_r in *.
    destruct fuel as [|f]; [lia|]. cbn [read_hills]. rewrite rst_pos, rst_len.
    pose proof (read_string_at_end b1 mx o H) as He.
    destruct (read_string (rst b1 mx false false false (blen b1) o)) as [r s'] eqn:E. cbn [fst] in He. subst r.
    cbn [snd]. apply N.ltb_ge. lia.
  - destruct hs as [|h hs].
    + rewrite firstn_nil in *. specialize (IH [] fuel b1 mx o Hok). rewrite firstn_nil in IH.
      apply IH; [lia | exact H].
    + inversion Hok as [|? ? Hh Hhs]; subst.
      destruct (hill_split nv h Hh) as (rest & -> & Hrest).
      destruct fuel as [|f]; [lia|].
      cbn [firstn] in *. rewrite enc_hills_cons, enc_all_cons, <- app_assoc in *.
      cbn [read_hills]. rewrite rst_pos, rst_len.
      rewrite (read_string_mid b1 kw_hill _ mx false false false o H). rewrite bytes_eqb_refl.
      rewrite (app_assoc b1 (enc (IStr kw_hill))) in H |- *.
      rewrite (read_fields_mid (hill_fields nv) rest (b1 ++ enc (IStr kw_hill)) _ mx o Hrest H).
      rewrite (app_assoc (b1 ++ enc (IStr kw_hill)) (enc_all rest)) in H |- *.
      apply (IH hs f _ mx o Hhs); [lia | exact H].
Qed.

(* the loop has accepted exactly the hills that are completely there *)
Lemma count_boundary nv : forall k hs fuel b1 mx o, Forall (hill_ok nv) hs -> (k <= length hs)%nat ->
  (k < fuel)%nat -> blen (b1 ++ enc_hills (firstn k hs)) < W64 ->
  count_hills fuel nv (rst (b1 ++ enc_hills (firstn k hs)) mx false false false (blen b1) o) = k.
Proof.
  induction k as [|k IH]; intros hs fuel b1 mx o Hok Hkl Hfuel H.
  - cbn [firstn enc_hills map concat] in *. rewrite app_nil_r in *.
    destruct fuel as [|f]; [lia|]. cbn [count_hills].
    pose proof (read_string_at_end b1 mx o H) as He.
    destruct (read_string (rst b1 mx false false false (blen b1) o)) as [r s'] eqn:E. cbn [fst] in He. now subst r.
  - destruct hs as [|h hs]; [cbn [length] in Hkl; lia|].
    inversion Hok as [|? ? Hh Hhs]; subst.
    destruct (hill_split nv h Hh) as (rest & -> & Hrest).
    destruct fuel as [|f]; [lia|].
    cbn [firstn] in *. rewrite enc_hills_cons, enc_all_cons, <- app_assoc in *.
    cbn [count_hills].
    rewrite (read_string_mid b1 kw_hill _ mx false false false o H). rewrite bytes_eqb_refl.
    rewrite (app_assoc b1 (enc (IStr kw_hill))) in H |- *.
    rewrite (read_fields_mid (hill_fields nv) rest (b1 ++ enc (IStr kw_hill)) _ mx o Hrest H).
    rewrite (app_assoc (b1 ++ enc (IStr kw_hill)) (enc_all rest)) in H |- *.
    f_equal. apply (IH hs f _ mx o Hhs); [cbn [length] in Hkl; lia | lia | exact H].
Qed.

(* a complete hill list followed by something that is not a hill: nothing (the end of the data) or a complete
   string record with another keyword: the loop reads all the hills, stops there without an error *)
Definition tail_clean (t : list byte) : Prop :=
  t = [] \/ exists k r, t = enc (IStr k) ++ r /\ item_ok (IStr k) /\ bytes_eqb k kw_hill = false.

Lemma hills_then nv : forall hs fuel b1 t mx o, Forall (hill_ok nv) hs -> tail_clean t ->
  (length hs < fuel)%nat -> blen (b1 ++ enc_hills hs ++ t) < W64 ->
  read_hills fuel nv (rst (b1 ++ enc_hills hs ++ t) mx false false false (blen b1) o)
  = (rst (b1 ++ enc_hills hs ++ t) mx false false false (blen (b1 ++ enc_hills hs)) o, false) /\
  count_hills fuel nv (rst (b1 ++ enc_hills hs ++ t) mx false false false (blen b1) o) = length hs.
Proof.
  induction hs as [|h hs IH]; intros fuel b1 t mx o Hok Ht Hfuel H.
  - cbn [enc_hills map concat app length] in *. rewrite app_nil_r.
    destruct fuel as [|f]; [lia|]. cbn [read_hills count_hills]. rewrite rst_pos, rst_len.
    destruct Ht as [->|(k & r & -> & Hk & Hne)].
    + rewrite app_nil_r in *. pose proof (read_string_at_end b1 mx o H) as He.
      destruct (read_string (rst b1 mx false false false (blen b1) o)) as [rr s'] eqn:E. cbn [fst] in He. subst rr.
      split; [|reflexivity]. unfold rewind, rst. cbn [ms_buf ms_len ms_max ms_oob]. f_equal.
      apply N.ltb_ge. lia.
    + rewrite (read_string_mid b1 k r mx false false false o H). rewrite Hne.
      split; [|reflexivity]. reflexivity.
  - inversion Hok as [|? ? Hh Hhs]; subst.
    destruct (hill_split nv h Hh) as (rest & -> & Hrest).
    destruct fuel as [|f]; [cbn [length] in Hfuel; lia|].
    rewrite enc_hills_cons, enc_all_cons in *. rewrite <- !app_assoc in *.
    cbn [read_hills count_hills length]. rewrite rst_pos, rst_len.
    rewrite (read_string_mid b1 kw_hill _ mx false false false o H). rewrite bytes_eqb_refl.
    rewrite (app_assoc b1 (enc (IStr kw_hill))) in H |- *.
    rewrite (read_fields_mid (hill_fields nv) rest (b1 ++ enc (IStr kw_hill)) _ mx o Hrest H).
    rewrite (app_assoc (b1 ++ enc (IStr kw_hill)) (enc_all rest)) in H |- *.
    destruct (IH f ((b1 ++ enc (IStr kw_hill)) ++ enc_all rest) t mx o Hhs Ht ltac:(cbn [length] in Hfuel; lia) H) as [Hr Hc].
    rewrite Hr, Hc. split; [|reflexivity]. now rewrite <- !app_assoc.
Qed.

(* ... followed by the beginning of a string record that is cut short: the key read fails with bytes left *)
Lemma hills_then_trunc nv : forall hs fuel b1 t m k mx o, Forall (hill_ok nv) hs ->
  item_ok (IStr k) -> enc (IStr k) = t ++ m -> m <> [] -> t <> [] ->
  (length hs < fuel)%nat -> blen (b1 ++ enc_hills hs ++ t) < W64 ->
  snd (read_hills fuel nv (rst (b1 ++ enc_hills hs ++ t) mx false false false (blen b1) o)) = true /\
  count_hills fuel nv (rst (b1 ++ enc_hills hs ++ t) mx false false false (blen b1) o) = length hs.
Proof.
  induction hs as [|h hs IH]; intros fuel b1 t m k mx o Hok Hk He Hm Ht Hfuel H.
  - cbn [enc_hills map concat app length] in *.
    destruct fuel as [|f]; [lia|]. cbn [read_hills count_hills]. rewrite rst_pos, rst_len.
    destruct (read_string_trunc k b1 t m mx o Hk He Hm H) as (s' & Hr & _). rewrite Hr.
    split; [|reflexivity]. cbn [snd]. apply N.ltb_lt. rewrite blen_app.
    destruct t; [congruence | unfold blen; cbn [length]; lia].
  - inversion Hok as [|? ? Hh Hhs]; subst.
    destruct (hill_split nv h Hh) as (rest & -> & Hrest).
    destruct fuel as [|f]; [cbn [length] in Hfuel; lia|].
    rewrite enc_hills_cons, enc_all_cons in *. rewrite <- !app_assoc in *.
    cbn [read_hills count_hills length]. rewrite rst_pos, rst_len.
    rewrite (read_string_mid b1 kw_hill _ mx false false false o H). rewrite bytes_eqb_refl.
    rewrite (app_assoc b1 (enc (IStr kw_hill))) in H |- *.
    rewrite (read_fields_mid (hill_fields nv) rest (b1 ++ enc (IStr kw_hill)) _ mx o Hrest H).
    rewrite (app_assoc (b1 ++ enc (IStr kw_hill)) (enc_all rest)) in H |- *.
    destruct (IH f ((b1 ++ enc (IStr kw_hill)) ++ enc_all rest) t m k mx o Hhs Hk He Hm Ht ltac:(cbn [length] in Hfuel; lia) H) as [Hr Hc].
    rewrite Hr, Hc. split; reflexivity.
Qed.

(* ---------------------------------------------------------------- one object *)
Section BinReader.
  Variable cv_ok : list byte -> bool.
  Variable matches : bbias -> list byte -> option bool.
  Variable params_ok : bbias -> list byte -> bool.
  Variable expected_hills : bbias -> list byte -> option nat.
  Notation cv_read := (cv_read cv_ok).
  Notation bias_read := (bias_read matches params_ok expected_hills).
  Notation read_data := (read_data expected_hills).

  (* a variable's record "colvar" <data> cut anywhere is an error *)
  Lemma cv_cut data b1 p q mx o : item_ok (IStr data) ->
    enc_all [IStr kw_colvar; IStr data] = p ++ q -> q <> [] -> blen (b1 ++ p) < W64 ->
    cv_read (rst (b1 ++ p) mx false false false (blen b1) o) = None.
  Proof.
    intros Hd He Hq H. unfold BinReadModel.cv_read.
    rewrite (read_fields_trunc [FKey kw_colvar; FAny] [IStr kw_colvar; IStr data] b1 p q mx o); auto.
    repeat constructor; cbn [field_ok shape_of shape_of_field item_ok]; auto; try apply bytes_eqb_refl.
    all: try (vm_compute; reflexivity).
  Qed.

  (* the encoding of a bias object: keyword, "configuration", the configuration string, then its data *)
  Definition enc_header (kwd conf : list byte) : list byte :=
    enc (IStr kwd) ++ enc_all [IStr kw_configuration; IStr conf].

  Lemma conf_fields_match conf : item_ok (IStr conf) ->
    fields_match [FKey kw_configuration; FAny] [IStr kw_configuration; IStr conf].
  Proof.
    intros Hc. repeat constructor; cbn [field_ok shape_of shape_of_field item_ok]; auto; try apply bytes_eqb_refl.
    all: try (vm_compute; reflexivity).
  Qed.

  (* the header of a bias object cut anywhere is an error *)
  Lemma bias_header_cut b kwd conf b1 p q mx o :
    item_ok (IStr kwd) -> item_ok (IStr conf) ->
    bytes_eqb kwd (bb_kw b) || bytes_eqb kwd (bb_type b) = true ->
    enc_header kwd conf = p ++ q -> q <> [] -> blen (b1 ++ p) < W64 ->
    bias_read b (rst (b1 ++ p) mx false false false (blen b1) o) = BErr.
  Proof.
    intros Hk Hc Hkw He Hq H. unfold enc_header in He. unfold BinReadModel.bias_read.
    destruct (Nat.le_gt_cases (length (enc (IStr kwd))) (length p)) as [Hle|Hgt].
    - destruct (prefix_split _ _ _ _ He Hle) as (p2 & Hp & He2). subst p.
      rewrite (read_string_mid b1 kwd p2 mx false false false o H). rewrite Hkw.
      rewrite (app_assoc b1 (enc (IStr kwd)) p2) in H |- *.
      now rewrite (read_fields_trunc _ _ (b1 ++ enc (IStr kwd)) p2 q mx o (conf_fields_match conf Hc) He2 Hq H).
    - symmetry in He. destruct (prefix_split _ _ _ _ He) as (m & Hp & Hm); [lia|].
      assert (Hmn : m <> []) by (intros ->; rewrite app_nil_r in Hp; rewrite Hp in Hgt; lia).
      destruct (read_string_trunc kwd b1 p m mx o Hk Hp Hmn H) as (s' & Hr & _).
      now rewrite Hr.
  Qed.

  (* a complete header is read: what is left is the data *)
  Lemma bias_header_mid b kwd conf b1 b2 mx o :
    item_ok (IStr kwd) -> item_ok (IStr conf) ->
    bytes_eqb kwd (bb_kw b) || bytes_eqb kwd (bb_type b) = true ->
    matches b conf = Some true -> params_ok b conf = true ->
    blen (b1 ++ enc_header kwd conf ++ b2) < W64 ->
    bias_read b (rst (b1 ++ enc_header kwd conf ++ b2) mx false false false (blen b1) o)
    = match read_data b conf (rst (b1 ++ enc_header kwd conf ++ b2) mx false false false
                             (blen (b1 ++ enc_header kwd conf)) o) with
      | Some (s3, e) => BOk s3 e
      | None => BErr
      end.
  Proof.
    intros Hk Hc Hkw Hm Hp H. unfold enc_header in *. unfold BinReadModel.bias_read.
    rewrite <- (app_assoc (enc (IStr kwd))) in *.
    rewrite (read_string_mid b1 kwd _ mx false false false o H). rewrite Hkw.
    rewrite (app_assoc b1 (enc (IStr kwd))) in H |- *.
    rewrite (read_fields_mid _ _ (b1 ++ enc (IStr kwd)) b2 mx o (conf_fields_match conf Hc) H).
    rewrite Hm, Hp. now rewrite <- !app_assoc.
  Qed.

  (* a bias object: header, the fixed data (keys and raw arrays, all mandatory), then (kind 1) hills *)
  Definition enc_obj (kwd conf : list byte) (its : list item) (hs : list (list item)) : list byte :=
    enc_header kwd conf ++ enc_all its ++ enc_hills hs.

  (* the object cut anywhere -- inside the header, inside a key or an array of the fixed data, inside a hill --
     is an error, except exactly between two hills (or before the first / after the last one) *)
  Lemma bias_cut b kwd conf its hs b1 p q mx o :
    (bb_kind b <> 1%nat -> hs = []) -> item_ok (IStr kwd) -> item_ok (IStr conf) ->
    bytes_eqb kwd (bb_kw b) || bytes_eqb kwd (bb_type b) = true ->
    matches b conf = Some true -> params_ok b conf = true ->
    fields_match (bb_fields b) its -> Forall (hill_ok (bb_nvar b)) hs ->
    enc_obj kwd conf its hs = p ++ q -> q <> [] -> blen (b1 ++ p) < W64 ->
    (forall k, p <> enc_header kwd conf ++ enc_all its ++ enc_hills (firstn k hs)) ->
    bias_read b (rst (b1 ++ p) mx false false false (blen b1) o) = BErr \/
    exists s, bias_read b (rst (b1 ++ p) mx false false false (blen b1) o) = BOk s true.
  Proof.
    intros Hkind Hk Hc Hkw Hm Hpo Hits Hhs He Hq H Hnb. unfold enc_obj in He.
    destruct (Nat.le_gt_cases (length (enc_header kwd conf)) (length p)) as [Hle|Hgt].
    2:{ left. symmetry in He. destruct (prefix_split _ _ _ _ He) as (m & Hp & Hmq); [lia|].
        assert (Hmn : m <> []) by (intros ->; rewrite app_nil_r in Hp; rewrite Hp in Hgt; lia).
        exact (bias_header_cut b kwd conf b1 p m mx o Hk Hc Hkw Hp Hmn H). }
    destruct (prefix_split _ _ _ _ He Hle) as (p2 & Hp & He2). subst p.
    rewrite (bias_header_mid b kwd conf b1 p2 mx o Hk Hc Hkw Hm Hpo H).
    unfold read_data. rewrite (app_assoc b1 (enc_header kwd conf) p2) in H |- *.
    destruct (Nat.le_gt_cases (length (enc_all its)) (length p2)) as [Hle2|Hgt2].
    2:{ left. symmetry in He2. destruct (prefix_split _ _ _ _ He2) as (m & Hp2 & Hmq); [lia|].
        assert (Hmn : m <> []) by (intros ->; rewrite app_nil_r in Hp2; rewrite Hp2 in Hgt2; lia).
        now rewrite (read_fields_trunc (bb_fields b) its (b1 ++ enc_header kwd conf) p2 m mx o Hits Hp2 Hmn H). }
    destruct (prefix_split _ _ _ _ He2 Hle2) as (p3 & Hp2 & He3). subst p2.
    rewrite (read_fields_mid (bb_fields b) its (b1 ++ enc_header kwd conf) p3 mx o Hits H).
    rewrite (app_assoc (b1 ++ enc_header kwd conf) (enc_all its) p3) in H |- *.
    destruct (Nat.eq_dec (bb_kind b) 1) as [Hk1|Hk1].
    - rewrite Hk1.
      pose proof (hills_cut (bb_nvar b) hs (S (length (((b1 ++ enc_header kwd conf) ++ enc_all its) ++ p3)))
                            ((b1 ++ enc_header kwd conf) ++ enc_all its) p3 q mx o Hhs He3 Hq) as Hcut.
      cbn [ms_buf rst] in *.
      destruct (read_hills _ _ _) as [s3 e] eqn:E. cbn [snd] in Hcut.
      rewrite Hcut; [| | rewrite !app_length; lia | exact H].
      + destruct (expected_hills b conf) as [n|]; [|right; now exists s3].
        destruct (Nat.eqb _ n); [right; now exists s3 | now left].
      + intros k Hk3. apply (Hnb k). now rewrite Hk3.
    - exfalso. rewrite (Hkind Hk1) in He3. cbn [enc_hills map concat] in He3.
      symmetry in He3. apply app_eq_nil in He3. destruct He3; congruence.
  Qed.

  (* the complement: a file that ends exactly between two hills of a bias object is accepted *)
  Lemma bias_hill_boundary b kwd conf its hs k b1 mx o :
    bb_kind b = 1%nat -> item_ok (IStr kwd) -> item_ok (IStr conf) ->
    bytes_eqb kwd (bb_kw b) || bytes_eqb kwd (bb_type b) = true ->
    matches b conf = Some true -> params_ok b conf = true ->
    expected_hills b conf = None ->
    fields_match (bb_fields b) its -> Forall (hill_ok (bb_nvar b)) hs -> (k <= length hs)%nat ->
    blen (b1 ++ enc_header kwd conf ++ enc_all its ++ enc_hills (firstn k hs)) < W64 ->
    exists s, bias_read b (rst (b1 ++ enc_header kwd conf ++ enc_all its ++ enc_hills (firstn k hs)) mx false false false (blen b1) o)
              = BOk s false.
  Proof.
    intros Hkind Hk Hc Hkw Hm Hpo Hexp Hits Hhs Hkl H.
    rewrite (bias_header_mid b kwd conf b1 _ mx o Hk Hc Hkw Hm Hpo H).
    unfold read_data. rewrite (app_assoc b1 (enc_header kwd conf)) in H |- *.
    rewrite (read_fields_mid (bb_fields b) its (b1 ++ enc_header kwd conf) _ mx o Hits H).
    rewrite (app_assoc (b1 ++ enc_header kwd conf) (enc_all its)) in H |- *. rewrite Hkind, Hexp.
    pose proof (hills_boundary (bb_nvar b) k hs (S (length (((b1 ++ enc_header kwd conf) ++ enc_all its) ++ enc_hills (firstn k hs))))
                               ((b1 ++ enc_header kwd conf) ++ enc_all its) mx o Hhs) as Hb.
    cbn [ms_buf rst] in *.
    destruct (read_hills _ _ _) as [s3 e] eqn:E. cbn [snd] in Hb.
    rewrite Hb; [now exists s3 | | exact H].
    rewrite !app_length.
    assert (Hl : forall j (l : list (list item)), Forall (hill_ok (bb_nvar b)) l -> (length (firstn j l) <= length (enc_hills (firstn j l)))%nat).
    { induction j as [|j IHj]; intros [|h l] Hl; cbn [firstn length]; try lia.
      inversion Hl as [|? ? Hh Hl']; subst. rewrite enc_hills_cons, app_length.
      destruct (hill_split _ h Hh) as (rest & -> & _). specialize (IHj l Hl'). rewrite enc_all_cons, app_length.
      cbn [enc]. rewrite app_length, le64_length. lia. }
    specialize (Hl k hs Hhs). rewrite firstn_length_le in Hl by exact Hkl. lia.
  Qed.

  (* which prefixes of a hill list stop exactly between two hills is decidable *)
  Lemma boundary_dec (hs : list (list item)) (p3 : list byte) :
    (exists k, (k <= length hs)%nat /\ p3 = enc_hills (firstn k hs)) \/ (forall k, p3 <> enc_hills (firstn k hs)).
  Proof.
    assert (Hn : forall n, (exists k, (k <= n)%nat /\ (k <= length hs)%nat /\ p3 = enc_hills (firstn k hs)) \/
                           (forall k, (k <= n)%nat -> (k <= length hs)%nat -> p3 <> enc_hills (firstn k hs))).
    { induction n as [|n IH].
      - destruct (list_eq_dec N.eq_dec p3 (enc_hills (firstn 0 hs))) as [He|Hne].
        + left. exists 0%nat. repeat split; [lia | lia | exact He].
        + right. intros k Hk _. replace k with 0%nat by lia. exact Hne.
      - destruct IH as [(k & Hk & Hkl & He)|Hall]; [left; exists k; repeat split; [lia | exact Hkl | exact He]|].
        destruct (list_eq_dec N.eq_dec p3 (enc_hills (firstn (S n) hs))) as [He|Hne].
        + destruct (Nat.le_gt_cases (S n) (length hs)) as [Hle|Hgt].
          * left. exists (S n). repeat split; [lia | exact Hle | exact He].
          * left. exists (length hs). repeat split; [lia | lia |]. rewrite He. now rewrite !firstn_all2 by lia.
        + right. intros k Hk Hkl. destruct (Nat.eq_dec k (S n)) as [->|Hd]; [exact Hne | apply Hall; [lia | exact Hkl]]. }
    destruct (Hn (length hs)) as [(k & _ & Hkl & He)|Hall]; [left; now exists k|].
    right. intros k. destruct (Nat.le_gt_cases k (length hs)) as [Hle|Hgt]; [now apply Hall|].
    rewrite firstn_all2 by lia. rewrite <- (firstn_all hs) at 1. apply Hall; lia.
  Qed.

  (* with the number of hills announced by the configuration string, EVERY proper prefix of the object is
     rejected, also one that stops between two hills *)
  Lemma bias_cut_counted b kwd conf its hs b1 p q mx o :
    bb_kind b = 1%nat -> item_ok (IStr kwd) -> item_ok (IStr conf) ->
    bytes_eqb kwd (bb_kw b) || bytes_eqb kwd (bb_type b) = true ->
    matches b conf = Some true -> params_ok b conf = true ->
    expected_hills b conf = Some (length hs) ->
    fields_match (bb_fields b) its -> Forall (hill_ok (bb_nvar b)) hs ->
    enc_obj kwd conf its hs = p ++ q -> q <> [] -> blen (b1 ++ p) < W64 ->
    bias_read b (rst (b1 ++ p) mx false false false (blen b1) o) = BErr \/
    exists s, bias_read b (rst (b1 ++ p) mx false false false (blen b1) o) = BOk s true.
  Proof.
    intros Hkind Hk Hc Hkw Hm Hpo Hexp Hits Hhs He Hq H.
    assert (Hk1 : bb_kind b <> 1%nat -> hs = []) by (intros Hx; congruence).
    destruct (Nat.le_gt_cases (length (enc_header kwd conf ++ enc_all its)) (length p)) as [Hle|Hgt].
    2:{ apply (bias_cut b kwd conf its hs b1 p q mx o Hk1 Hk Hc Hkw Hm Hpo Hits Hhs He Hq H).
        intros k Hk3. rewrite Hk3 in Hgt. rewrite !app_length in Hgt. lia. }
    unfold enc_obj in He. rewrite app_assoc in He.
    destruct (prefix_split _ _ _ _ He Hle) as (p3 & Hp & He3).
    destruct (boundary_dec hs p3) as [(k & Hkl & Hk3)|Hnb].
    2:{ rewrite <- app_assoc in He. apply (bias_cut b kwd conf its hs b1 p q mx o Hk1 Hk Hc Hkw Hm Hpo Hits Hhs He Hq H).
        intros k Hk3. apply (Hnb k). rewrite Hp in Hk3. rewrite <- app_assoc in Hk3.
        apply app_inv_head in Hk3. now apply app_inv_head in Hk3. }
    (* the data stop between two hills: k of them are there, fewer than announced *)
    assert (Hlt : (k < length hs)%nat).
    { destruct (Nat.eq_dec k (length hs)) as [->|Hd]; [|lia]. exfalso. rewrite firstn_all in Hk3. subst p3.
      apply (f_equal (@length byte)) in He3. rewrite app_length in He3. destruct q; [congruence | cbn [length] in He3; lia]. }
    left. subst p p3. rewrite <- app_assoc in H |- *.
    rewrite (bias_header_mid b kwd conf b1 _ mx o Hk Hc Hkw Hm Hpo H).
    unfold BinReadModel.read_data. rewrite (app_assoc b1 (enc_header kwd conf)) in H |- *.
    rewrite (read_fields_mid (bb_fields b) its (b1 ++ enc_header kwd conf) _ mx o Hits H).
    rewrite (app_assoc (b1 ++ enc_header kwd conf) (enc_all its)) in H |- *. rewrite Hkind, Hexp.
    cbn [ms_buf rst].
    rewrite (count_boundary (bb_nvar b) k hs _ ((b1 ++ enc_header kwd conf) ++ enc_all its) mx o Hhs Hkl); [| | exact H].
    - replace (Nat.eqb k (length hs)) with false by (symmetry; apply Nat.eqb_neq; lia). reflexivity.
    - rewrite !app_length.
      assert (Hl : forall j (l : list (list item)), Forall (hill_ok (bb_nvar b)) l -> (length (firstn j l) <= length (enc_hills (firstn j l)))%nat).
      { induction j as [|j IHj]; intros [|h l] Hl; cbn [firstn length]; try lia.
        inversion Hl as [|? ? Hh Hl']; subst. rewrite enc_hills_cons, app_length.
        destruct (hill_split _ h Hh) as (rest & -> & _). specialize (IHj l Hl'). rewrite enc_all_cons, app_length.
        cbn [enc]. rewrite app_length, le64_length. lia. }
      specialize (Hl k hs Hhs). rewrite firstn_length_le in Hl by exact Hkl. lia.
  Qed.
End BinReader.

(* ================================================================ whole files *)
Section WholeFile.
  Variable cv_ok : list byte -> bool.
  Variable matches : bbias -> list byte -> option bool.
  Variable params_ok : bbias -> list byte -> bool.
  Variable expected_hills : bbias -> list byte -> option nat.
  Notation cv_read := (cv_read cv_ok).
  Notation bias_read := (bias_read matches params_ok expected_hills).
  Notation read_data := (read_data expected_hills).
  Notation read_colvars := (read_colvars cv_ok).
  Notation read_biases := (read_biases matches params_ok expected_hills).

  Definition cv_enc (data : list byte) : list byte := enc_all [IStr kw_colvar; IStr data].
  Definition cv_data_ok (data : list byte) : Prop := item_ok (IStr data) /\ cv_ok data = true.

  Lemma cv_fields_match data : item_ok (IStr data) -> fields_match [FKey kw_colvar; FAny] [IStr kw_colvar; IStr data].
  Proof.
    intros Hd. repeat constructor; cbn [field_ok shape_of shape_of_field item_ok]; auto; try apply bytes_eqb_refl.
    all: try (vm_compute; reflexivity).
  Qed.

  Lemma cv_mid data b1 b2 mx o : cv_data_ok data -> blen (b1 ++ cv_enc data ++ b2) < W64 ->
    cv_read (rst (b1 ++ cv_enc data ++ b2) mx false false false (blen b1) o)
    = Some (rst (b1 ++ cv_enc data ++ b2) mx false false false (blen (b1 ++ cv_enc data)) o).
  Proof.
    intros [Hd Hok] H. unfold BinReadModel.cv_read, cv_enc in *.
    rewrite (read_fields_mid _ _ b1 b2 mx o (cv_fields_match data Hd) H). now rewrite Hok.
  Qed.

  (* all the variables' records present: read; the data end before the last one is complete: error *)
  Lemma colvars_mid : forall datas b1 b2 mx o, Forall cv_data_ok datas ->
    blen (b1 ++ concat (map cv_enc datas) ++ b2) < W64 ->
    read_colvars (length datas) (rst (b1 ++ concat (map cv_enc datas) ++ b2) mx false false false (blen b1) o)
    = Some (rst (b1 ++ concat (map cv_enc datas) ++ b2) mx false false false (blen (b1 ++ concat (map cv_enc datas))) o).
  Proof.
    induction datas as [|d datas IH]; intros b1 b2 mx o Hok H.
    - cbn [map concat app length BinReadModel.read_colvars]. now rewrite app_nil_r.
    - inversion Hok as [|? ? Hd Hds]; subst. cbn [map concat length BinReadModel.read_colvars] in *.
      rewrite <- app_assoc in *. rewrite (cv_mid d b1 _ mx o Hd H).
      rewrite (app_assoc b1 (cv_enc d)) in *. rewrite (IH _ b2 mx o Hds H). now rewrite <- !app_assoc.
  Qed.

  Lemma colvars_cut : forall datas b1 p q mx o, Forall cv_data_ok datas ->
    concat (map cv_enc datas) = p ++ q -> q <> [] -> blen (b1 ++ p) < W64 ->
    read_colvars (length datas) (rst (b1 ++ p) mx false false false (blen b1) o) = None.
  Proof.
    induction datas as [|d datas IH]; intros b1 p q mx o Hok He Hq H.
    - cbn in He. symmetry in He. apply app_eq_nil in He. destruct He; congruence.
    - inversion Hok as [|? ? Hd Hds]; subst. cbn [map concat length BinReadModel.read_colvars] in *.
      destruct (Nat.le_gt_cases (length (cv_enc d)) (length p)) as [Hle|Hgt].
      + destruct (prefix_split _ _ _ _ He Hle) as (p2 & Hp & He2). subst p.
        rewrite (cv_mid d b1 p2 mx o Hd H). rewrite (app_assoc b1 (cv_enc d) p2) in *.
        exact (IH _ p2 q mx o Hds He2 Hq H).
      + symmetry in He. destruct (prefix_split _ _ _ _ He) as (m & Hp & Hm); [lia|].
        assert (Hmn : m <> []) by (intros ->; rewrite app_nil_r in Hp; rewrite Hp in Hgt; lia).
        destruct Hd as [Hd _]. now rewrite (cv_cut cv_ok d b1 p m mx o Hd Hp Hmn H).
  Qed.

  (* a bias object without data after its configuration *)
  Record bobj := mkO { o_b : bbias; o_kwd : list byte; o_conf : list byte; o_its : list item; o_hs : list (list item) }.
  Definition benc (x : bobj) : list byte := enc_obj (o_kwd x) (o_conf x) (o_its x) (o_hs x).
  Definition obj_ok (x : bobj) : Prop :=
    item_ok (IStr (o_kwd x)) /\ item_ok (IStr (o_conf x)) /\
    bytes_eqb (o_kwd x) (bb_kw (o_b x)) || bytes_eqb (o_kwd x) (bb_type (o_b x)) = true /\
    matches (o_b x) (o_conf x) = Some true /\ params_ok (o_b x) (o_conf x) = true /\
    fields_match (bb_fields (o_b x)) (o_its x) /\ Forall (hill_ok (bb_nvar (o_b x))) (o_hs x).
  (* an object without a list of hills: header and fixed data only (restraints, ABF with or without CZAR, histogram) *)
  Definition plain (x : bobj) : Prop := bb_kind (o_b x) <> 1%nat /\ o_hs x = [].

  Lemma read_biases_sticky bs : forall s, read_biases bs s true = true.
  Proof.
    induction bs as [|b bs IH]; intros s; cbn [BinReadModel.read_biases]; [reflexivity|].
    destruct (bias_read b s) as [| |s' e]; [reflexivity | apply IH | apply IH].
  Qed.

  Lemma plain_benc x : plain x -> benc x = enc_header (o_kwd x) (o_conf x) ++ enc_all (o_its x).
  Proof. intros [_ Hh]. unfold benc, enc_obj. rewrite Hh. cbn [enc_hills map concat]. now rewrite app_nil_r. Qed.

  Lemma plain_mid x b1 b2 mx o : obj_ok x -> plain x -> blen (b1 ++ benc x ++ b2) < W64 ->
    bias_read (o_b x) (rst (b1 ++ benc x ++ b2) mx false false false (blen b1) o)
    = BOk (rst (b1 ++ benc x ++ b2) mx false false false (blen (b1 ++ benc x)) o) false.
  Proof.
    intros (Hk & Hc & Hkw & Hm & Hp & Hits & _) Hpl H. rewrite (plain_benc x Hpl) in *.
    rewrite <- (app_assoc (enc_header (o_kwd x) (o_conf x))) in *.
    rewrite (bias_header_mid matches params_ok expected_hills (o_b x) _ _ b1 _ mx o Hk Hc Hkw Hm Hp H).
    unfold read_data. rewrite (app_assoc b1 (enc_header (o_kwd x) (o_conf x))) in *.
    rewrite (read_fields_mid _ _ (b1 ++ enc_header (o_kwd x) (o_conf x)) b2 mx o Hits H).
    destruct Hpl as [Hkind _]. destruct (bb_kind (o_b x)) as [|[|k]]; try congruence; now rewrite <- !app_assoc.
  Qed.

  Lemma plain_objs_mid : forall xs rest b1 b2 mx o err, Forall obj_ok xs -> Forall plain xs ->
    blen (b1 ++ concat (map benc xs) ++ b2) < W64 ->
    read_biases (map o_b xs ++ rest) (rst (b1 ++ concat (map benc xs) ++ b2) mx false false false (blen b1) o) err
    = read_biases rest (rst (b1 ++ concat (map benc xs) ++ b2) mx false false false (blen (b1 ++ concat (map benc xs))) o) err.
  Proof.
    induction xs as [|x xs IH]; intros rest b1 b2 mx o err Hok Hpl H.
    - cbn [map concat app]. now rewrite app_nil_r.
    - inversion Hok as [|? ? Hx Hxs]; subst. inversion Hpl as [|? ? Hpx Hpxs]; subst.
      cbn [map concat app BinReadModel.read_biases] in *. rewrite <- app_assoc in *.
      rewrite (plain_mid x b1 _ mx o Hx Hpx H). rewrite orb_false_r.
      rewrite (app_assoc b1 (benc x)) in *. rewrite (IH rest _ b2 mx o err Hxs Hpxs H). now rewrite <- !app_assoc.
  Qed.

  Lemma bias_read_at_end b b1 mx o : blen b1 < W64 ->
    bias_read b (rst b1 mx false false false (blen b1) o) = BErr.
  Proof.
    intros H. unfold BinReadModel.bias_read.
    pose proof (read_string_at_end b1 mx o H) as He.
    destruct (read_string (rst b1 mx false false false (blen b1) o)) as [r s'] eqn:E. cbn [fst] in He. now subst r.
  Qed.

  (* data that end inside (or right before) one of the objects without data: error *)
  Lemma plain_objs_cut : forall xs rest b1 p q mx o err, Forall obj_ok xs -> Forall plain xs ->
    concat (map benc xs) = p ++ q -> q <> [] -> blen (b1 ++ p) < W64 ->
    read_biases (map o_b xs ++ rest) (rst (b1 ++ p) mx false false false (blen b1) o) err = true.
  Proof.
    induction xs as [|x xs IH]; intros rest b1 p q mx o err Hok Hpl He Hq H.
    - cbn in He. symmetry in He. apply app_eq_nil in He. destruct He; congruence.
    - inversion Hok as [|? ? Hx Hxs]; subst. inversion Hpl as [|? ? Hpx Hpxs]; subst.
      cbn [map concat app BinReadModel.read_biases] in *.
      destruct (Nat.le_gt_cases (length (benc x)) (length p)) as [Hle|Hgt].
      + destruct (prefix_split _ _ _ _ He Hle) as (p2 & Hp & He2). subst p.
        rewrite (plain_mid x b1 p2 mx o Hx Hpx H). rewrite (app_assoc b1 (benc x) p2) in *.
        exact (IH rest _ p2 q mx o _ Hxs Hpxs He2 Hq H).
      + symmetry in He. destruct (prefix_split _ _ _ _ He) as (m & Hp & Hm); [lia|].
        assert (Hmn : m <> []) by (intros ->; rewrite app_nil_r in Hp; rewrite Hp in Hgt; lia).
        destruct Hx as (Hk & Hc & Hkw & Hm' & Hpo & Hits & Hhs). destruct Hpx as [Hkind Hnil].
        assert (Hp' : enc_obj (o_kwd x) (o_conf x) (o_its x) (o_hs x) = p ++ m) by exact Hp.
        assert (Hnb : forall k, p <> enc_header (o_kwd x) (o_conf x) ++ enc_all (o_its x) ++ enc_hills (firstn k (o_hs x))).
        { intros k Hk3. rewrite Hnil in *. rewrite firstn_nil in Hk3. unfold enc_obj in Hp'. rewrite <- Hk3 in Hp'.
          apply (f_equal (@length byte)) in Hp'. rewrite app_length in Hp'. destruct m; [congruence | cbn [length] in Hp'; lia]. }
        destruct (bias_cut matches params_ok expected_hills (o_b x) _ _ _ _ b1 p m mx o (fun _ => Hnil) Hk Hc Hkw Hm' Hpo Hits Hhs Hp' Hmn H Hnb)
          as [Hr | (s & Hr)]; rewrite Hr; [reflexivity | rewrite orb_true_r; apply read_biases_sticky].
  Qed.

  (* the global block *)
  Definition genc (gconf : list byte) : list byte := enc_all [IStr kw_configuration; IStr gconf].

  Lemma skip_global_mid gconf b1 b2 mx o : item_ok (IStr gconf) -> blen (b1 ++ genc gconf ++ b2) < W64 ->
    skip_global (rst (b1 ++ genc gconf ++ b2) mx false false false (blen b1) o)
    = rst (b1 ++ genc gconf ++ b2) mx false false false (blen (b1 ++ genc gconf)) o.
  Proof.
    intros Hg H. unfold skip_global, genc in *. rewrite rst_pos.
    rewrite !enc_all_cons in *. cbn [enc_all map concat] in *. rewrite app_nil_r in *. rewrite <- app_assoc in *.
    rewrite (read_string_mid b1 kw_configuration _ mx false false false o H). rewrite bytes_eqb_refl.
    rewrite (app_assoc b1 (enc (IStr kw_configuration))) in *.
    rewrite (read_string_mid (b1 ++ enc (IStr kw_configuration)) gconf b2 mx false false false o H).
    rewrite rst_pos. unfold rewind, rst. cbn [ms_buf ms_len ms_max ms_oob]. now rewrite <- !app_assoc.
  Qed.

  (* a binary state: magic number, global block, the variables, the biases without data, and possibly a last
     bias with a list of hills; the data end anywhere after the global block and before the end of the state:
     the load reports an error, unless the data end exactly between two hills of that last bias (or right
     before its first hill, or after its last one when ... nothing is missing) *)
  Lemma binary_state_cut gconf datas xs last p q :
    item_ok (IStr gconf) -> Forall cv_data_ok datas -> Forall obj_ok xs -> Forall plain xs ->
    match last with
    | Some x => obj_ok x /\ bb_kind (o_b x) = 1%nat /\
                match expected_hills (o_b x) (o_conf x) with Some n => n = length (o_hs x) | None => True end
    | None => True end ->
    concat (map cv_enc datas) ++ concat (map benc xs) ++ match last with Some x => benc x | None => [] end = p ++ q ->
    q <> [] -> blen (magic ++ genc gconf ++ p) < W64 ->
    (forall x k, last = Some x -> expected_hills (o_b x) (o_conf x) = None ->
       p <> concat (map cv_enc datas) ++ concat (map benc xs) ++ enc_header (o_kwd x) (o_conf x) ++ enc_all (o_its x) ++ enc_hills (firstn k (o_hs x))) ->
    load_bin cv_ok matches params_ok expected_hills (length datas)
             (map o_b xs ++ match last with Some x => [o_b x] | None => [] end) (magic ++ genc gconf ++ p) = true.
  Proof.
    intros Hg Hcv Hxs Hpl Hlast He Hq H Hnb. unfold load_bin.
    change (input_stream (magic ++ genc gconf ++ p))
      with (rst ([] ++ magic ++ (genc gconf ++ p)) (blen (magic ++ genc gconf ++ p)) false false false (blen (@nil byte)) false).
    change 4 with (blen magic).
    rewrite (read_object_mid [] magic (genc gconf ++ p) _ false false false false H).
    rewrite bytes_eqb_refl. cbn [app].
    rewrite (skip_global_mid gconf magic p _ false Hg H).
    rewrite (app_assoc magic (genc gconf) p) in *.
    set (b1 := magic ++ genc gconf) in *. set (mx := blen (b1 ++ p)).
    destruct (Nat.le_gt_cases (length (concat (map cv_enc datas))) (length p)) as [Hle|Hgt].
    2:{ symmetry in He. destruct (prefix_split _ _ _ _ He) as (m & Hp & Hm); [lia|].
        assert (Hmn : m <> []) by (intros ->; rewrite app_nil_r in Hp; rewrite Hp in Hgt; lia).
        now rewrite (colvars_cut datas b1 p m mx false Hcv Hp Hmn H). }
    destruct (prefix_split _ _ _ _ He Hle) as (p2 & Hp & He2). subst p.
    rewrite (colvars_mid datas b1 p2 mx false Hcv H).
    rewrite (app_assoc b1 (concat (map cv_enc datas)) p2) in *.
    destruct (Nat.le_gt_cases (length (concat (map benc xs))) (length p2)) as [Hle2|Hgt2].
    2:{ symmetry in He2. destruct (prefix_split _ _ _ _ He2) as (m & Hp2 & Hm); [lia|].
        assert (Hmn : m <> []) by (intros ->; rewrite app_nil_r in Hp2; rewrite Hp2 in Hgt2; lia).
        exact (plain_objs_cut xs _ (b1 ++ (concat (map cv_enc datas))) p2 m mx false false Hxs Hpl Hp2 Hmn H). }
    destruct (prefix_split _ _ _ _ He2 Hle2) as (p3 & Hp2 & He3). subst p2.
    rewrite (plain_objs_mid xs _ (b1 ++ (concat (map cv_enc datas))) p3 mx false false Hxs Hpl H).
    rewrite (app_assoc (b1 ++ (concat (map cv_enc datas))) (concat (map benc xs)) p3) in *.
    destruct last as [x|].
    - destruct Hlast as ((Hk & Hc & Hkw & Hm & Hpo & Hits & Hhs) & Hkind & Hexp). unfold benc in He3.
      cbn [BinReadModel.read_biases].
      destruct (expected_hills (o_b x) (o_conf x)) as [nh|] eqn:Eexp.
      { subst nh.
        destruct (bias_cut_counted matches params_ok expected_hills (o_b x) _ _ _ _ ((b1 ++ (concat (map cv_enc datas))) ++ (concat (map benc xs))) p3 q mx false Hkind Hk Hc Hkw Hm Hpo Eexp Hits Hhs He3 Hq H)
          as [Hr | (s & Hr)]; rewrite Hr; reflexivity. }
      assert (Hnb3 : forall k, p3 <> enc_header (o_kwd x) (o_conf x) ++ enc_all (o_its x) ++ enc_hills (firstn k (o_hs x))).
      { intros k Hk3. apply (Hnb x k eq_refl Eexp). now rewrite Hk3. }
      destruct (bias_cut matches params_ok expected_hills (o_b x) _ _ _ _ ((b1 ++ (concat (map cv_enc datas))) ++ (concat (map benc xs))) p3 q mx false (fun Hx => False_ind _ (Hx Hkind)) Hk Hc Hkw Hm Hpo Hits Hhs He3 Hq H Hnb3)
        as [Hr | (s & Hr)]; rewrite Hr; [reflexivity | reflexivity].
    - symmetry in He3. apply app_eq_nil in He3. destruct He3; congruence.
  Qed.

  (* ---- objects with hills anywhere in the state, when they announce their number of hills ---- *)
  Definition counted (x : bobj) : Prop :=
    plain x \/ (bb_kind (o_b x) = 1%nat /\ expected_hills (o_b x) (o_conf x) = Some (length (o_hs x))).
  Definition not_hill_kw (x : bobj) : Prop := bytes_eqb (o_kwd x) kw_hill = false.

  Lemma length_hills_le nv hs : Forall (hill_ok nv) hs -> (length hs <= length (enc_hills hs))%nat.
  Proof.
    induction 1 as [|h hs Hh Hhs IH]; [cbn; lia|].
    rewrite enc_hills_cons, app_length. destruct (hill_split _ h Hh) as (rest & -> & _).
    rewrite enc_all_cons, app_length. cbn [enc length]. rewrite app_length, le64_length. lia.
  Qed.

  Lemma counted_mid_clean x b1 t mx o : obj_ok x -> bb_kind (o_b x) = 1%nat ->
    expected_hills (o_b x) (o_conf x) = Some (length (o_hs x)) -> tail_clean t ->
    blen (b1 ++ benc x ++ t) < W64 ->
    bias_read (o_b x) (rst (b1 ++ benc x ++ t) mx false false false (blen b1) o)
    = BOk (rst (b1 ++ benc x ++ t) mx false false false (blen (b1 ++ benc x)) o) false.
  Proof.
    intros (Hk & Hc & Hkw & Hm & Hp & Hits & Hhs) Hkind Hexp Ht H. unfold benc, enc_obj in *.
    rewrite <- !app_assoc in *.
    rewrite (bias_header_mid matches params_ok expected_hills (o_b x) _ _ b1 _ mx o Hk Hc Hkw Hm Hp H).
    unfold BinReadModel.read_data. rewrite (app_assoc b1 (enc_header (o_kwd x) (o_conf x))) in *.
    rewrite (read_fields_mid _ _ (b1 ++ enc_header (o_kwd x) (o_conf x)) _ mx o Hits H).
    rewrite (app_assoc (b1 ++ enc_header (o_kwd x) (o_conf x)) (enc_all (o_its x))) in *.
    rewrite Hkind, Hexp. cbn [ms_buf rst].
    pose proof (length_hills_le _ _ Hhs) as Hle.
    destruct (hills_then (bb_nvar (o_b x)) (o_hs x)
                (S (length (((b1 ++ enc_header (o_kwd x) (o_conf x)) ++ enc_all (o_its x)) ++ enc_hills (o_hs x) ++ t)))
                ((b1 ++ enc_header (o_kwd x) (o_conf x)) ++ enc_all (o_its x)) t mx o Hhs Ht) as [Hr Hcn];
      [rewrite !app_length; lia | exact H |].
    rewrite Hcn, Nat.eqb_refl, Hr. now rewrite <- !app_assoc.
  Qed.

  Lemma counted_mid_trunc x b1 t m k mx o : obj_ok x -> bb_kind (o_b x) = 1%nat ->
    expected_hills (o_b x) (o_conf x) = Some (length (o_hs x)) ->
    item_ok (IStr k) -> enc (IStr k) = t ++ m -> m <> [] -> t <> [] ->
    blen (b1 ++ benc x ++ t) < W64 ->
    exists s, bias_read (o_b x) (rst (b1 ++ benc x ++ t) mx false false false (blen b1) o) = BOk s true.
  Proof.
    intros (Hk & Hc & Hkw & Hm & Hp & Hits & Hhs) Hkind Hexp Hik He Hmn Htn H. unfold benc, enc_obj in *.
    rewrite <- !app_assoc in *.
    rewrite (bias_header_mid matches params_ok expected_hills (o_b x) _ _ b1 _ mx o Hk Hc Hkw Hm Hp H).
    unfold BinReadModel.read_data. rewrite (app_assoc b1 (enc_header (o_kwd x) (o_conf x))) in *.
    rewrite (read_fields_mid _ _ (b1 ++ enc_header (o_kwd x) (o_conf x)) _ mx o Hits H).
    rewrite (app_assoc (b1 ++ enc_header (o_kwd x) (o_conf x)) (enc_all (o_its x))) in *.
    rewrite Hkind, Hexp. cbn [ms_buf rst].
    pose proof (length_hills_le _ _ Hhs) as Hle.
    destruct (hills_then_trunc (bb_nvar (o_b x)) (o_hs x)
                (S (length (((b1 ++ enc_header (o_kwd x) (o_conf x)) ++ enc_all (o_its x)) ++ enc_hills (o_hs x) ++ t)))
                ((b1 ++ enc_header (o_kwd x) (o_conf x)) ++ enc_all (o_its x)) t m k mx o Hhs Hik He Hmn Htn) as [Hr Hcn];
      [rewrite !app_length; lia | exact H |].
    rewrite Hcn, Nat.eqb_refl.
    destruct (read_hills _ _ _) as [s3 e] eqn:E. cbn [snd] in Hr. subst e. now exists s3.
  Qed.

  Lemma benc_starts x : exists r, benc x = enc (IStr (o_kwd x)) ++ r.
  Proof. unfold benc, enc_obj, enc_header. rewrite <- !app_assoc. eexists. reflexivity. Qed.

  (* the data end inside (or right before) one of these objects: error *)
  Lemma objs_cut : forall xs rest b1 p q mx o err, Forall obj_ok xs -> Forall counted xs -> Forall not_hill_kw xs ->
    concat (map benc xs) = p ++ q -> q <> [] -> blen (b1 ++ p) < W64 ->
    read_biases (map o_b xs ++ rest) (rst (b1 ++ p) mx false false false (blen b1) o) err = true.
  Proof.
    induction xs as [|x xs IH]; intros rest b1 p q mx o err Hok Hcn Hnh He Hq H.
    - cbn in He. symmetry in He. apply app_eq_nil in He. destruct He; congruence.
    - inversion Hok as [|? ? Hx Hxs]; subst. inversion Hcn as [|? ? Hcx Hcxs]; subst. inversion Hnh as [|? ? Hnx Hnxs]; subst.
      cbn [map concat app BinReadModel.read_biases] in *.
      destruct (Nat.le_gt_cases (length (benc x)) (length p)) as [Hle|Hgt].
      + destruct (prefix_split _ _ _ _ He Hle) as (p2 & Hp & He2). subst p.
        destruct Hcx as [Hpl | [Hkind Hexp]].
        * rewrite (plain_mid x b1 p2 mx o Hx Hpl H). rewrite (app_assoc b1 (benc x) p2) in *.
          exact (IH rest _ p2 q mx o _ Hxs Hcxs Hnxs He2 Hq H).
        * (* what follows the hills: nothing, a complete keyword, or a keyword cut short *)
          destruct xs as [|y ys]; [cbn in He2; symmetry in He2; apply app_eq_nil in He2; destruct He2; congruence|].
          inversion Hxs as [|? ? Hy Hys]; subst. inversion Hnxs as [|? ? Hny Hnys]; subst.
          destruct (benc_starts y) as (ry & Hby).
          cbn [map concat] in He2. rewrite Hby, <- app_assoc in He2.
          destruct Hy as (Hky & _).
          destruct p2 as [|c0 p2'] eqn:Ep2.
          -- rewrite (counted_mid_clean x b1 [] mx o Hx Hkind Hexp (or_introl eq_refl) H).
             rewrite orb_false_r. rewrite (app_assoc b1 (benc x) []) in *.
             apply (IH rest _ [] q mx o _ Hxs Hcxs Hnxs); [cbn [map concat]; rewrite Hby, <- app_assoc; exact He2 | exact Hq | exact H].
          -- rewrite <- Ep2 in *.
             destruct (Nat.le_gt_cases (length (enc (IStr (o_kwd y)))) (length p2)) as [Hle2|Hgt2].
             ++ destruct (prefix_split _ _ _ _ He2 Hle2) as (r & Hp2 & Hr).
                assert (Htc : tail_clean p2) by (right; exists (o_kwd y), r; repeat split; [exact Hp2 | exact Hky | exact Hny]).
                rewrite (counted_mid_clean x b1 p2 mx o Hx Hkind Hexp Htc H).
                rewrite orb_false_r. rewrite (app_assoc b1 (benc x) p2) in *.
                apply (IH rest _ p2 q mx o _ Hxs Hcxs Hnxs); [cbn [map concat]; rewrite Hby, <- app_assoc; exact He2 | exact Hq | exact H].
             ++ symmetry in He2. destruct (prefix_split _ _ _ _ He2) as (m & Hpm & Hm); [lia|].
                assert (Hmn : m <> []) by (intros ->; rewrite app_nil_r in Hpm; rewrite Hpm in Hgt2; lia).
                assert (Htn : p2 <> []) by (rewrite Ep2; discriminate).
                destruct (counted_mid_trunc x b1 p2 m (o_kwd y) mx o Hx Hkind Hexp Hky Hpm Hmn Htn H) as (s3 & Hr).
                rewrite Hr. rewrite orb_true_r. apply read_biases_sticky.
      + symmetry in He. destruct (prefix_split _ _ _ _ He) as (m & Hp & Hm); [lia|].
        assert (Hmn : m <> []) by (intros ->; rewrite app_nil_r in Hp; rewrite Hp in Hgt; lia).
        destruct Hx as (Hk & Hc & Hkw & Hm' & Hpo & Hits & Hhs).
        assert (Hp' : enc_obj (o_kwd x) (o_conf x) (o_its x) (o_hs x) = p ++ m) by exact Hp.
        assert (Hres : bias_read (o_b x) (rst (b1 ++ p) mx false false false (blen b1) o) = BErr \/
                       exists s, bias_read (o_b x) (rst (b1 ++ p) mx false false false (blen b1) o) = BOk s true).
        { destruct Hcx as [[Hkind Hnil] | [Hkind Hexp]].
          - assert (Hnb : forall k, p <> enc_header (o_kwd x) (o_conf x) ++ enc_all (o_its x) ++ enc_hills (firstn k (o_hs x))).
            { intros k Hk3. rewrite Hnil in *. rewrite firstn_nil in Hk3. unfold enc_obj in Hp'. rewrite <- Hk3 in Hp'.
              apply (f_equal (@length byte)) in Hp'. rewrite app_length in Hp'. destruct m; [congruence | cbn [length] in Hp'; lia]. }
            exact (bias_cut matches params_ok expected_hills (o_b x) _ _ _ _ b1 p m mx o (fun _ => Hnil) Hk Hc Hkw Hm' Hpo Hits Hhs Hp' Hmn H Hnb).
          - exact (bias_cut_counted matches params_ok expected_hills (o_b x) _ _ _ _ b1 p m mx o Hkind Hk Hc Hkw Hm' Hpo Hexp Hits Hhs Hp' Hmn H). }
        destruct Hres as [Hr | (s & Hr)]; rewrite Hr; [reflexivity | rewrite orb_true_r; apply read_biases_sticky].
  Qed.

  (* a binary state whose objects with hills all announce their number of hills (states written since the fix),
     wherever they are in the state: the data end anywhere after the global block and before the end: error.
     No exception. *)
  Lemma binary_state_cut_counted gconf datas xs p q :
    item_ok (IStr gconf) -> Forall cv_data_ok datas -> Forall obj_ok xs -> Forall counted xs -> Forall not_hill_kw xs ->
    concat (map cv_enc datas) ++ concat (map benc xs) = p ++ q ->
    q <> [] -> blen (magic ++ genc gconf ++ p) < W64 ->
    load_bin cv_ok matches params_ok expected_hills (length datas) (map o_b xs) (magic ++ genc gconf ++ p) = true.
  Proof.
    intros Hg Hcv Hxs Hcn Hnh He Hq H. unfold load_bin.
    change (input_stream (magic ++ genc gconf ++ p))
      with (rst ([] ++ magic ++ (genc gconf ++ p)) (blen (magic ++ genc gconf ++ p)) false false false (blen (@nil byte)) false).
    change 4 with (blen magic).
    rewrite (read_object_mid [] magic (genc gconf ++ p) _ false false false false H).
    rewrite bytes_eqb_refl. cbn [app].
    rewrite (skip_global_mid gconf magic p _ false Hg H).
    rewrite (app_assoc magic (genc gconf) p) in *.
    set (b1 := magic ++ genc gconf) in *. set (mx := blen (b1 ++ p)).
    destruct (Nat.le_gt_cases (length (concat (map cv_enc datas))) (length p)) as [Hle|Hgt].
    2:{ symmetry in He. destruct (prefix_split _ _ _ _ He) as (m & Hp & Hm); [lia|].
        assert (Hmn : m <> []) by (intros ->; rewrite app_nil_r in Hp; rewrite Hp in Hgt; lia).
        now rewrite (colvars_cut datas b1 p m mx false Hcv Hp Hmn H). }
    destruct (prefix_split _ _ _ _ He Hle) as (p2 & Hp & He2). subst p.
    rewrite (colvars_mid datas b1 p2 mx false Hcv H).
    rewrite (app_assoc b1 (concat (map cv_enc datas)) p2) in *.
    rewrite <- (app_nil_r (map o_b xs)).
    exact (objs_cut xs [] (b1 ++ concat (map cv_enc datas)) p2 q mx false false Hxs Hcn Hnh He2 Hq H).
  Qed.
End WholeFile.
