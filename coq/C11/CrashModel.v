(* C11 (b): the state-file replace protocol of colvarmodule::write_restart_file ->
   colvarproxy_io::output_stream -> backup_file -> rename_file -> std::ofstream -> close_output_stream
   (src/colvarmodule.cpp, src/colvarproxy_io.cpp, with the two fix: commits of this slice: output_stream
   gives up when backup_file fails; close_output_stream reports a failed last write/close), as the
   sequence of file system calls the code issues, with an environment that decides the outcome of every call: success, an error return
   (process continues), or death of the process (a write may persist any prefix first).
   Definitions only. *)
From Coq Require Import NArith List Bool.
Import ListNotations.
Open Scope N_scope.

Inductive sysop := SAccess | SRename | SOpen | SWrite (n : N) | SClose.
Inductive outcome := OOk | OErr | OKill (j : N).

(* content of a file: which state it holds (version = step number) and how many of its bytes *)
Record file := mkF { f_ver : N; f_bytes : N; f_total : N }.
(* the two names the protocol touches: <out>.colvars.state and <out>.colvars.state.old *)
Record fsys := mkFS { cur : option file; old : option file }.
(* output_streams_[name]: absent, or registered (and possibly in a failed state) *)
Inductive stream := NotOpen | Open (bad : bool).

Record mach := mkM { m_fs : fsys; m_reg : stream; m_plan : list outcome; m_trace : list sysop }.
Inductive result := Done (ok : bool) | Dead.

Definition complete (f : option file) : bool :=
  match f with Some x => f_bytes x =? f_total x | None => false end.
Definition safe (fs : fsys) : bool := complete (cur fs) || complete (old fs).
Definition curok (fs : fsys) : bool := match cur fs with None => true | Some _ => complete (cur fs) end.

Definition set_fs (m : mach) (fs : fsys) : mach := mkM fs (m_reg m) (m_plan m) (m_trace m).
Definition set_reg (m : mach) (r : stream) : mach := mkM (m_fs m) r (m_plan m) (m_trace m).

(* issue one system call: the environment's next decision (success when the plan is exhausted) *)
Definition pop (m : mach) (op : sysop) : outcome * mach :=
  match m_plan m with
  | [] => (OOk, mkM (m_fs m) (m_reg m) [] (m_trace m ++ [op]))
  | o :: r => (o, mkM (m_fs m) (m_reg m) r (m_trace m ++ [op]))
  end.

Definition add_bytes (fs : fsys) (n : N) : fsys :=
  match cur fs with
  | Some f => mkFS (Some (mkF (f_ver f) (f_bytes f + n) (f_total f))) (old fs)
  | None => fs
  end.

(* the writes issued while write_state() runs (filebuf overflow / direct write): an error sets
   badbit, the rest of the output is dropped, and write_restart_file returns an error *)
Fixpoint write_chunks (m : mach) (chunks : list N) : mach * option bool :=
  match chunks with
  | [] => (m, Some false)
  | c :: r =>
    let '(o, m1) := pop m (SWrite c) in
    match o with
    | OOk => write_chunks (set_fs m1 (add_bytes (m_fs m1) c)) r
    | OErr => (m1, Some true)
    | OKill j => (set_fs m1 (add_bytes (m_fs m1) (N.min j c)), None)
    end
  end.

(* close_output_stream: ofstream::close() flushes what is left in the filebuf and closes the file
   (the file is closed even when the flush failed); failbit tells whether either step failed; the
   stream is deleted and erased from the registry; the result is passed on by write_restart_file.
   None = the process died; Some failed otherwise *)
Definition close_stream (m : mach) (tail : N) : mach * option bool :=
  let '(m1, w) :=
    if tail =? 0 then (m, Some false)
    else let '(o, m1) := pop m (SWrite tail) in
         match o with
         | OOk => (set_fs m1 (add_bytes (m_fs m1) tail), Some false)
         | OErr => (m1, Some true)
         | OKill j => (set_fs m1 (add_bytes (m_fs m1) (N.min j tail)), None)
         end in
  match w with
  | None => (m1, None)
  | Some failed =>
    let '(o, m2) := pop m1 SClose in
    match o with
    | OKill _ => (m2, None)
    | OErr => (set_reg m2 NotOpen, Some true)
    | OOk => (set_reg m2 NotOpen, Some failed)
    end
  end.

(* write_state() into the open stream, then close_output_stream() *)
Definition body (m : mach) (chunks : list N) (tail : N) : mach * result :=
  let '(m1, w) := write_chunks m chunks in
  match w with
  | None => (m1, Dead)
  | Some true => (set_reg m1 (Open true), Done false)     (* return cvm::error(...): the stream stays registered *)
  | Some false =>
    let '(m2, c) := close_stream m1 tail in
    match c with
    | None => (m2, Dead)
    | Some failed => (m2, Done (negb failed))
    end
  end.

Definition total_of (chunks : list N) (tail : N) : N := fold_right N.add tail chunks.

(* backup_file(): access(); if the file is there, rename it to <name>.old.
   None = the process died; Some failed otherwise (any error of access other than ENOENT, or of rename) *)
Definition backup (m : mach) : mach * option bool :=
  let '(o1, m1) := pop m SAccess in
  match o1 with
  | OKill _ => (m1, None)
  | OErr => (m1, Some true)
  | OOk =>
    match cur (m_fs m1) with
    | None => (m1, Some false)                           (* ENOENT *)
    | Some _ =>
      let '(o2, m2) := pop m1 SRename in
      match o2 with
      | OKill _ => (m2, None)
      | OErr => (m2, Some true)                          (* rename_file logs and returns COLVARS_FILE_ERROR *)
      | OOk => (set_fs m2 (mkFS None (cur (m_fs m2))), Some false)
      end
    end
  end.

(* new std::ofstream(name): creates or truncates the file; then the state is written and the stream closed *)
Definition open_and_write (m : mach) (v : N) (chunks : list N) (tail : N) : mach * result :=
  let '(o3, m3) := pop m SOpen in
  match o3 with
  | OKill _ => (m3, Dead)
  | OErr => (set_reg m3 (Open true), Done false)         (* the failed stream stays in the registry *)
  | OOk => body (set_reg (set_fs m3 (mkFS (Some (mkF v 0 (total_of chunks tail))) (old (m_fs m3)))) (Open false))
                chunks tail
  end.

(* one call of colvarmodule::write_restart_file(out_name) for state v *)
Definition save (m : mach) (v : N) (chunks : list N) (tail : N) : mach * result :=
  match m_reg m with
  | Open true => (m, Done false)             (* if (!restart_out_os) return COLVARS_FILE_ERROR; *)
  | Open false => body m chunks tail         (* registered stream returned as is: no backup, no truncation *)
  | NotOpen =>
    let '(m1, b) := backup m in
    match b with
    | None => (m1, Dead)
    | Some true => (m1, Done false)          (* output_stream returns the error stream: nothing is opened *)
    | Some false => open_and_write m1 v chunks tail
    end
  end.

Record saveop := mkS { s_ver : N; s_chunks : list N; s_tail : N }.

(* one process: saves until it dies or runs out of work *)
Fixpoint session (m : mach) (l : list saveop) : mach * list result :=
  match l with
  | [] => (m, [])
  | s :: r =>
    let '(m1, res) := save m (s_ver s) (s_chunks s) (s_tail s) in
    match res with
    | Dead => (m1, [Dead])
    | _ => let '(m2, rs) := session m1 r in (m2, res :: rs)
    end
  end.

(* the same when the host stops saving after the first save that reports an error (a state file
   error is fatal for the engines: they stop the run) *)
Fixpoint session_abort (m : mach) (l : list saveop) : mach * list result :=
  match l with
  | [] => (m, [])
  | s :: r =>
    let '(m1, res) := save m (s_ver s) (s_chunks s) (s_tail s) in
    match res with
    | Done true => let '(m2, rs) := session_abort m1 r in (m2, res :: rs)
    | _ => (m1, [res])
    end
  end.

Definition start (fs : fsys) (plan : list outcome) : mach := mkM fs NotOpen plan [].

(* several processes one after the other on the same directory *)
Fixpoint history (fs : fsys) (h : list (list saveop * list outcome)) : fsys * list (list result * list sysop) :=
  match h with
  | [] => (fs, [])
  | (l, plan) :: r =>
    let '(m, rs) := session (start fs plan) l in
    let '(fs', out) := history (m_fs m) r in
    (fs', (rs, m_trace m) :: out)
  end.

Definition empty_fs : fsys := mkFS None None.
Definition is_done (r : result) : bool := match r with Done true => true | _ => false end.
Definition completed (rs : list result) : bool := existsb is_done rs.
Definition no_err (o : outcome) : bool := match o with OErr => false | _ => true end.
Definition kills_only (p : list outcome) : bool := forallb no_err p.
