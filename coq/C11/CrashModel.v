(* C11 (b): the state-file replace protocol of colvarmodule::write_restart_file (src/colvarmodule.cpp) ->
   colvarproxy_io::remove_file / output_stream / backup_file / rename_file / close_output_stream
   (src/colvarproxy_io.cpp), with the fix: commits of this slice (output_stream gives up when backup_file
   fails; close_output_stream reports a failed last write/close; the state is written to <name>.tmp and
   renamed over <name> only when complete), as the sequence of file system calls the code issues, with
   an environment that decides the outcome of every call: success, an error return (process continues),
   or death of the process (a write may persist any prefix first).  Definitions only. *)
From Coq Require Import NArith List Bool.
Import ListNotations.
Open Scope N_scope.

Inductive sysop :=
| SUnlink                 (* remove_file(<name>.tmp) *)
| SAccessT                (* backup_file(<name>.tmp) inside output_stream: access() *)
| SOpen                   (* std::ofstream(<name>.tmp): creates/truncates *)
| SWrite (n : N)
| SClose
| SAccess                 (* backup_file(<name>): access() *)
| SRename                 (* rename(<name>, <name>.old) *)
| SRenameT.               (* rename(<name>.tmp, <name>) *)
Inductive outcome := OOk | OErr | OKill (j : N).

(* content of a file: which state it holds (version = step number) and how many of its bytes *)
Record file := mkF { f_ver : N; f_bytes : N; f_total : N }.
(* the three names the protocol touches: <out>.colvars.state, <out>.colvars.state.old, <out>.colvars.state.tmp *)
Record fsys := mkFS { cur : option file; old : option file; tmp : option file }.
(* output_streams_[<name>.tmp]: absent, or registered (and possibly in a failed state) *)
Inductive stream := NotOpen | Open (bad : bool).

Record mach := mkM { m_fs : fsys; m_reg : stream; m_plan : list outcome; m_trace : list sysop }.
Inductive result := Done (ok : bool) | Dead.

Definition complete (f : option file) : bool :=
  match f with Some x => f_bytes x =? f_total x | None => false end.
Definition safe (fs : fsys) : bool := complete (cur fs) || complete (old fs).
Definition curok (fs : fsys) : bool := match cur fs with None => true | Some _ => complete (cur fs) end.

Definition set_fs (m : mach) (fs : fsys) : mach := mkM fs (m_reg m) (m_plan m) (m_trace m).
Definition set_reg (m : mach) (r : stream) : mach := mkM (m_fs m) r (m_plan m) (m_trace m).
Definition set_tmp (fs : fsys) (t : option file) : fsys := mkFS (cur fs) (old fs) t.

(* issue one system call: the environment's next decision (success when the plan is exhausted) *)
Definition pop (m : mach) (op : sysop) : outcome * mach :=
  match m_plan m with
  | [] => (OOk, mkM (m_fs m) (m_reg m) [] (m_trace m ++ [op]))
  | o :: r => (o, mkM (m_fs m) (m_reg m) r (m_trace m ++ [op]))
  end.

(* bytes appended to the file being written, <name>.tmp *)
Definition add_bytes (fs : fsys) (n : N) : fsys :=
  match tmp fs with
  | Some f => set_tmp fs (Some (mkF (f_ver f) (f_bytes f + n) (f_total f)))
  | None => fs
  end.

(* the writes issued while write_state() runs (filebuf overflow / direct write): an error sets
   badbit, the rest of the output is dropped, and write_restart_file returns an error *)
Fixpoint write_chunks (m : mach) (chunks : list N) : mach * option bool :=
  match chunks with
  | [] => (m, Some false)
  | c :: r =>
    let '(o, m1) := pop m (SWrite c) in
    match o with
    | OOk => write_chunks (set_fs m1 (add_bytes (m_fs m1) c)) r
    | OErr => (m1, Some true)
    | OKill j => (set_fs m1 (add_bytes (m_fs m1) (N.min j c)), None)
    end
  end.

(* close_output_stream: ofstream::close() flushes what is left in the filebuf and closes the file
   (the file is closed even when the flush failed); failbit tells whether either step failed; the
   stream is deleted and erased from the registry.  None = the process died; Some failed otherwise *)
Definition close_stream (m : mach) (tail : N) : mach * option bool :=
  let '(m1, w) :=
    if tail =? 0 then (m, Some false)
    else let '(o, m1) := pop m (SWrite tail) in
         match o with
         | OOk => (set_fs m1 (add_bytes (m_fs m1) tail), Some false)
         | OErr => (m1, Some true)
         | OKill j => (set_fs m1 (add_bytes (m_fs m1) (N.min j tail)), None)
         end in
  match w with
  | None => (m1, None)
  | Some failed =>
    let '(o, m2) := pop m1 SClose in
    match o with
    | OKill _ => (m2, None)
    | OErr => (set_reg m2 NotOpen, Some true)
    | OOk => (set_reg m2 NotOpen, Some failed)
    end
  end.

(* backup_file(<name>): access(); if the file is there, rename it to <name>.old.
   None = the process died; Some failed otherwise (an error of access other than ENOENT, or of rename) *)
Definition backup (m : mach) : mach * option bool :=
  let '(o1, m1) := pop m SAccess in
  match o1 with
  | OKill _ => (m1, None)
  | OErr => (m1, Some true)
  | OOk =>
    match cur (m_fs m1) with
    | None => (m1, Some false)                           (* ENOENT *)
    | Some _ =>
      let '(o2, m2) := pop m1 SRename in
      match o2 with
      | OKill _ => (m2, None)
      | OErr => (m2, Some true)                          (* rename_file logs and returns COLVARS_FILE_ERROR *)
      | OOk => (set_fs m2 (mkFS None (cur (m_fs m2)) (tmp (m_fs m2))), Some false)
      end
    end
  end.

(* the writers of a state file.  colvarmodule::write_restart_file returns at the first error and leaves a
   stream that failed while write_state() ran in the registry (sticky); colvarbias::write_state_prefix
   (`cv bias <name> save`) and colvarbias_meta::write_replica_state_file always close the stream and go on
   with the error remembered; the replica writer keeps no .old backup.  (For the replica writer an error of
   remove_file is modelled as an early return; the code goes on and backup_file then moves the file that
   could not be removed aside.) *)
Record writer := mkW { w_sticky : bool; w_backup : bool }.
Definition W_restart : writer := mkW true true.
Definition W_bias : writer := mkW false true.
Definition W_replica : writer := mkW false false.

(* after the temporary file is closed: backup_file(<name>) (if the writer keeps a backup), then
   rename_file(<name>.tmp, <name>) *)
Definition install (w : writer) (m : mach) : mach * result :=
  let '(m1, b) := if w_backup w then backup m else (m, Some false) in
  match b with
  | None => (m1, Dead)
  | Some true => (m1, Done false)
  | Some false =>
    let '(o, m2) := pop m1 SRenameT in
    match o with
    | OKill _ => (m2, Dead)
    | OErr => (m2, Done false)
    | OOk => (set_fs m2 (mkFS (tmp (m_fs m2)) (old (m_fs m2)) None), Done true)
    end
  end.

(* write_state() into the open stream, close_output_stream(), then the two renames *)
Definition body (w : writer) (m : mach) (chunks : list N) (tail : N) : mach * result :=
  let '(m1, r) := write_chunks m chunks in
  match r with
  | None => (m1, Dead)
  | Some true =>
    if w_sticky w then (set_reg m1 (Open true), Done false)     (* return cvm::error(...): the stream stays registered *)
    else                                                          (* close_output_stream() all the same *)
      let '(o, m2) := pop m1 SClose in
      match o with
      | OKill _ => (m2, Dead)
      | _ => (set_reg m2 NotOpen, Done false)
      end
  | Some false =>
    let '(m2, c) := close_stream m1 tail in
    match c with
    | None => (m2, Dead)
    | Some true => (m2, Done false)
    | Some false => install w m2
    end
  end.

Definition total_of (chunks : list N) (tail : N) : N := fold_right N.add tail chunks.

(* remove_file(<name>.tmp), then output_stream(<name>.tmp): backup_file finds no file (it has just been
   removed: access() says ENOENT) and the file is created.
   None = died; Some true = an error was returned to write_restart_file *)
Definition open_tmp (w : writer) (m : mach) (v : N) (total : N) : mach * option bool :=
  let '(o0, m0) := pop m SUnlink in
  match o0 with
  | OKill _ => (m0, None)
  | OErr => (m0, Some true)
  | OOk =>
    let m0' := set_fs m0 (set_tmp (m_fs m0) None) in
    let '(o1, m1) := pop m0' SAccessT in
    match o1 with
    | OKill _ => (m1, None)
    | OErr => (m1, Some true)                 (* output_stream returns the error stream: nothing is opened *)
    | OOk =>
      let '(o3, m3) := pop m1 SOpen in
      match o3 with
      | OKill _ => (m3, None)
      | OErr => (if w_sticky w then set_reg m3 (Open true) else m3, Some true)
          (* the failed stream is in the registry: write_restart_file leaves it there, the others close it *)
      | OOk => (set_reg (set_fs m3 (set_tmp (m_fs m3) (Some (mkF v 0 total)))) (Open false), Some false)
      end
    end
  end.

(* one save of state v by writer w *)
Definition save_w (w : writer) (m : mach) (v : N) (chunks : list N) (tail : N) : mach * result :=
  match m_reg m with
  | Open true =>
    (* remove_file(tmp) is still issued; then the registered failed stream is returned: COLVARS_FILE_ERROR *)
    let '(o0, m0) := pop m SUnlink in
    match o0 with
    | OKill _ => (m0, Dead)
    | OErr => (m0, Done false)
    | OOk => (set_fs m0 (set_tmp (m_fs m0) None), Done false)
    end
  | Open false => body w m chunks tail       (* not reachable from `start`: every save leaves NotOpen or Open true *)
  | NotOpen =>
    let '(m1, b) := open_tmp w m v (total_of chunks tail) in
    match b with
    | None => (m1, Dead)
    | Some true => (m1, Done false)
    | Some false => body w m1 chunks tail
    end
  end.

(* one call of colvarmodule::write_restart_file(out_name) for state v *)
Definition save := save_w W_restart.

Record saveop := mkS { s_ver : N; s_chunks : list N; s_tail : N }.

(* one process: saves until it dies or runs out of work (a host that goes on saving after errors) *)
Fixpoint session_w (w : writer) (m : mach) (l : list saveop) : mach * list result :=
  match l with
  | [] => (m, [])
  | s :: r =>
    let '(m1, res) := save_w w m (s_ver s) (s_chunks s) (s_tail s) in
    match res with
    | Dead => (m1, [Dead])
    | _ => let '(m2, rs) := session_w w m1 r in (m2, res :: rs)
    end
  end.
Definition session := session_w W_restart.

Definition start (fs : fsys) (plan : list outcome) : mach := mkM fs NotOpen plan [].

(* several processes one after the other on the same directory *)
Fixpoint history_w (w : writer) (fs : fsys) (h : list (list saveop * list outcome)) : fsys * list (list result * list sysop) :=
  match h with
  | [] => (fs, [])
  | (l, plan) :: r =>
    let '(m, rs) := session_w w (start fs plan) l in
    let '(fs', out) := history_w w (m_fs m) r in
    (fs', (rs, m_trace m) :: out)
  end.
Definition history := history_w W_restart.

Definition empty_fs : fsys := mkFS None None None.
Definition is_done (r : result) : bool := match r with Done true => true | _ => false end.
Definition completed (rs : list result) : bool := existsb is_done rs.
Definition no_err (o : outcome) : bool := match o with OErr => false | _ => true end.
Definition kills_only (p : list outcome) : bool := forallb no_err p.
