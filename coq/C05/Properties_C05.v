(* C05: the metadynamics bias is the sum of the hills deposited on schedule
   (statements only; model in MetaModel.v, specification in MetaSpec.v, proofs in MetaGeom.v and MetaProofs.v).

   Reading guide.  A history is a list of events: [EStep i] (a step of the engine: step number, relative step,
   repeated-step flag, the values of the variables, each a list of components), [ESave] (the state is written),
   [ERestart None] (the state is written and read by a fresh instance with the same configuration),
   [ERestart (Some g)] (the same with rebinGrids on and the new grid boundaries g) or [EReload] (the state is written
   and read back by the same instance, which already holds hills) or [EReconf p] (a restart after which the job goes
   on with other gaussianSigmas / hillWidth, hillWeight, newHillFrequency).  Every hill keeps the widths it was created
   with ([h_s], as the code stores them in each hill and in the state): [K_h] uses the widths of the hill, not those
   configured now.  [final_cfg c hist] is the configuration in force after hist.
   [final_state Rops c hist] is the state of the model of colvarbias_meta after the history;
   [out_energy c hist i] / [out_force c hist i k] are the energy and the force on variable k (a list of components)
   that update() returns at the next step i.  The specification keeps only the list of hills deposited so far,
   split into those already tabulated ([s_tab]) and those not yet ([s_pend]), and the geometry of the grids:
     eligible c i      = i_it mod newHillFrequency = 0, data may be accumulated (relative step > 0 and not a
                         repeated step, or stepZeroData), newHillFrequency > 0
     spec_height c s x = hillWeight, times exp(-V/(k dT)) with V = spec_energy c s x when well-tempered
     spec_energy c s x = on the grid:  sum_{h in s_tab} K_h(centre of the bin of x) + sum_{h in s_pend} K_h(x)
                         off the grid / no grids: sum over all hills of K_h(x)
                         (the bin of x is wrapped along the dimensions in which the grid is periodic)
     K_h(x)            = W_h * exp(-1/2 sum_i D_i(x_i,c_i)/sigma_i^2), D_i the squared distance of variable i
                         (nearest image for a periodic scalar, Euclidean for a 3-vector, squared angle for a unit
                         vector), set to 0 when the exponent exceeds 23 (the kernel as implemented)
     spec_expand       = expandBoundaries: the grid grows by whole bins (next_geom)
   Premises: [cfg_ok c] (positive sigmas and widths, sigma = width*hillWidth/2 when hillWidth is given; with grids:
   scalar variables, upper = lower + nx*width, no expandBoundaries on a periodic variable) and [history_ok c hist]:
   with grids, every step has one value per variable, not beyond a boundary declared hard and not beyond a grid that
   covers part of the range of a periodic variable ([adm]), and a rebinning restart happens onto well-formed
   boundaries, either with keepHills (grids recomputed from the hills) and every hill at least min_buffer bins inside
   the expandable edges of the new grid (vacuous without expandBoundaries), or without keepHills (old grids mapped
   onto the new ones) onto the current grids extended by whole bins where expandBoundaries allows ([rebin_ok]).  Nothing is assumed without grids.  [plain_history_ok]: a list of
   admissible steps, saves and plain restarts is such a history.
   All statements hold for the code with the six `fix:` commits of branch fix-C05 (known_findings.txt); the
   witnesses of the defects they repair are replayed by props/C05/check.py. *)
From Coq Require Import ZArith List Bool Reals Lia Lra.
From CV Require Import Base.Num Base.RNum C15.GridModel C05.MetaModel C05.MetaSpec C05.MetaGeom C05.MetaProofs C05.MetaBound C05.MetaExamples.
Import ListNotations.

(* Energy: at every step, on and off the grid, with and without grids, well-tempered or not, whatever
   gridsUpdateFrequency, keepHills, expandBoundaries, run boundaries, state saves, restarts and rebinning. *)
Theorem C05_energy : forall (c : cfgR) (hist : list eventR) (i : inR),
  cfg_ok c -> history_ok c (hist ++ [EStep i]) ->
  out_energy c hist i = spec_energy c (spec_run c (hist ++ [EStep i])) (i_x i).
Proof. exact energy_holds. Qed.
Print Assumptions C05_energy.

(* Force on variable k, component j. *)
Theorem C05_force : forall (c : cfgR) (hist : list eventR) (i : inR) (k j : nat),
  cfg_ok c -> history_ok c (hist ++ [EStep i]) -> (k < length (c_vars c))%nat ->
  nth j (out_force c hist i k) 0%R = spec_force c (spec_run c (hist ++ [EStep i])) (i_x i) k j.
Proof. exact force_holds. Qed.
Print Assumptions C05_force.

(* Schedule: the explicit hill list of the implementation is the list of deposited hills not yet tabulated (after
   new_hills_begin), preceded by the tabulated ones when keepHills is on (without keepHills: by some of them, namely
   none, or after a restart those near the grid's edges until the next projection); the geometry is the specified one. *)
Theorem C05_schedule : forall (c : cfgR) (hist : list eventR),
  cfg_ok c -> history_ok c hist ->
  st_new (final_state Rops c hist) = s_pend (spec_run c hist) /\
  (c_keep (final_cfg c hist) = true -> st_old (final_state Rops c hist) = s_tab (spec_run c hist)) /\
  Dropped (fun _ => True) (s_tab (spec_run c hist)) (st_old (final_state Rops c hist)) /\
  st_geom (final_state Rops c hist) = s_geom (spec_run c hist).
Proof. exact schedule_holds. Qed.
Print Assumptions C05_schedule.

(* ... where the deposited hills are: one hill per eligible step, centred at the values of that step, of height
   hillWeight (times the well-tempered factor of the bias at the deposition point, on the grid as it is after the
   expansion of that step); writing the state deposits nothing *)
Theorem C05_deposited : forall (c : cfgR) (hist : list eventR) (i : inR),
  s_all (spec_run c (hist ++ [EStep i])) =
  s_all (spec_run c hist) ++
  (let c' := final_cfg c hist in
   if eligible c' i
   then [mkHill (i_it i) (spec_height c' (spec_expand c' (spec_run c hist) (i_x i)) i) (i_x i) (c_sigmas c')] else []).
Proof. exact deposited_snoc. Qed.
Print Assumptions C05_deposited.

Theorem C05_deposited_save : forall (c : cfgR) (hist : list eventR),
  s_all (spec_run c (hist ++ [ESave])) = s_all (spec_run c hist).
Proof. exact deposited_save. Qed.
Print Assumptions C05_deposited_save.

(* a reconfiguration deposits nothing and leaves every hill as it is (step, height, centre, widths) *)
Theorem C05_deposited_reconf : forall (c : cfgR) (hist : list eventR) (p : @params R),
  s_all (spec_run c (hist ++ [EReconf p])) = s_all (spec_run c hist).
Proof. exact deposited_reconf. Qed.
Print Assumptions C05_deposited_reconf.

Theorem C05_deposited_restart : forall (c : cfgR) (hist : list eventR) (r : option (list boundR)),
  s_all (spec_run c (hist ++ [ERestart r])) = s_all (spec_run c hist).
Proof. exact deposited_restart. Qed.
Print Assumptions C05_deposited_restart.

Theorem C05_deposited_plain : forall (c : cfgR) (hist : list eventR), c_wt c = false -> c_eb c = false ->
  Forall never_wt hist -> s_all (spec_run c hist) = plain_hills c hist.
Proof. exact deposited_plain. Qed.
Print Assumptions C05_deposited_plain.

(* ... and they are tabulated at the multiples of gridsUpdateFrequency and when the state is written *)
Theorem C05_tabulated : forall (c : cfgR) (hist : list eventR) (i : inR), c_use_grids c = true ->
  s_pend (spec_run c (hist ++ [EStep i])) = (if (i_it i mod c_gfreq (final_cfg c hist) =? 0)%Z then [] else
     s_pend (spec_run c hist) ++
     (let c' := final_cfg c hist in
      if eligible c' i
      then [mkHill (i_it i) (spec_height c' (spec_expand c' (spec_run c hist) (i_x i)) i) (i_x i) (c_sigmas c')] else [])).
Proof. exact tabulated_snoc. Qed.
Print Assumptions C05_tabulated.

Theorem C05_tabulated_save : forall (c : cfgR) (hist : list eventR), c_use_grids c = true ->
  s_pend (spec_run c (hist ++ [ESave])) = [].
Proof. exact tabulated_save. Qed.
Print Assumptions C05_tabulated_save.

Theorem C05_tabulated_restart : forall (c : cfgR) (hist : list eventR) (r : option (list boundR)),
  c_use_grids c = true -> s_pend (spec_run c (hist ++ [ERestart r])) = [].
Proof. exact tabulated_restart. Qed.
Print Assumptions C05_tabulated_restart.

(* rebinGrids: after the restart the grids have the new boundaries and every hill deposited so far is tabulated on
   them (C05_grid_is_projected_sum then says that every bin of the new grids holds the sum of all hills there) *)
Theorem C05_rebin_from_hills : forall (c : cfgR) (hist : list eventR) (g' : list boundR), c_use_grids c = true ->
  s_geom (spec_run c (hist ++ [ERestart (Some g')])) = g' /\
  s_tab (spec_run c (hist ++ [ERestart (Some g')])) = s_all (spec_run c hist).
Proof. exact rebin_geometry. Qed.
Print Assumptions C05_rebin_from_hills.

(* Every bin of the energy grid holds the sum of the tabulated hills at the centre of the bin, every bin of the
   gradient grid the sum of their gradients (= minus the forces) there -- also the bins added by expandBoundaries. *)
Theorem C05_grid_is_projected_sum : forall (c : cfgR) (hist : list eventR),
  cfg_ok c -> history_ok c hist ->
  forall ix : list Z, index_ok (gsizes (s_geom (spec_run c hist))) ix = true ->
    st_e (final_state Rops c hist) ix =
      Esum (c_vars c) (s_tab (spec_run c hist)) (centre Rops (c_vars c) (s_geom (spec_run c hist)) ix) /\
    forall k : nat, (k < length (c_vars c))%nat -> st_g (final_state Rops c hist) ix k =
      (- Fsum (c_vars c) (s_tab (spec_run c hist)) (centre Rops (c_vars c) (s_geom (spec_run c hist)) ix) k 0)%R.
Proof. exact grid_is_projected_sum. Qed.
Print Assumptions C05_grid_is_projected_sum.

(* expandBoundaries: the grids only grow from the boundaries of the (last) configuration, by whole bins on the same
   lattice, only along variables with expandBoundaries and never beyond a boundary declared hard. *)
Theorem C05_expand_lattice : forall (c : cfgR) (hist : list eventR),
  cfg_ok c -> history_ok c hist -> c_use_grids c = true ->
  All3 (fun v b b' => gstep v b b') (c_vars c) (final_base c hist) (s_geom (spec_run c hist)).
Proof. exact geometry_grows. Qed.
Print Assumptions C05_expand_lattice.

(* keepHills changes neither the energy nor the forces (for a history admissible with both settings: a rebinning
   restart needs keepHills). *)
Theorem C05_keep_hills_irrelevant : forall (c : cfgR) (b : bool) (hist : list eventR) (i : inR),
  cfg_ok c -> history_ok c (hist ++ [EStep i]) -> history_ok (set_keep c b) (hist ++ [EStep i]) ->
  out_energy (set_keep c b) hist i = out_energy c hist i /\
  forall k j, (k < length (c_vars c))%nat ->
    nth j (out_force (set_keep c b) hist i k) 0%R = nth j (out_force c hist i k) 0%R.
Proof. exact keep_hills_irrelevant. Qed.
Print Assumptions C05_keep_hills_irrelevant.

(* writeHillsTrajectory: the records buffered since the instance was created are the hills deposited since then, one
   per hill, in order, with the step, height and centre of the deposition (spec_traj) *)
Theorem C05_hills_trajectory : forall (c : cfgR) (hist : list eventR),
  cfg_ok c -> history_ok c hist -> st_traj (final_state Rops c hist) = spec_traj c hist.
Proof. exact trajectory_holds. Qed.
Print Assumptions C05_hills_trajectory.

(* Discretisation: with grids the returned energy differs from the analytic sum of ALL deposited hills at the actual
   position by at most  Bsum = sum over the tabulated hills h of |W_h| * (exp(-1/2) * sum_i width_i/(2 sigma_{h,i}) + exp(-23/2)):
   the Gaussian exp(-t^2/2) is exp(-1/2)-Lipschitz, a position on the grid is within half a bin of the centre of its
   bin, and the kernel jumps by less than exp(-23/2) at its cut-off.  Scalar, non-periodic variables ([plain_var]). *)
Theorem C05_discretisation_energy : forall (c : cfgR) (hist : list eventR) (i : inR),
  cfg_ok c -> history_ok c (hist ++ [EStep i]) -> c_use_grids c = true -> Forall plain_var (c_vars c) ->
  (Rabs (out_energy c hist i - Esum (c_vars c) (s_all (spec_run c (hist ++ [EStep i]))) (i_x i))
   <= Bsum (c_vars c) (s_tab (spec_run c (hist ++ [EStep i]))))%R.
Proof. exact energy_discretisation. Qed.
Print Assumptions C05_discretisation_energy.

(* writeFreeEnergyFile: the value written for bin ix of the .pmf file is (M - E(ix)) times (biasTemperature + T)/
   biasTemperature for well-tempered runs, where E(ix) is the sum of the TABULATED hills at the centre of the bin and M
   the largest E over the grid (so the minimum of the file is 0); hills not yet tabulated are not in the file *)
Theorem C05_pmf : forall (c : cfgR) (hist : list eventR) (temp : R) (ix : list Z),
  cfg_ok c -> history_ok c hist -> c_use_grids c = true ->
  index_ok (gsizes (s_geom (spec_run c hist))) ix = true ->
  let E := fun jx => Esum (c_vars c) (s_tab (spec_run c hist)) (centre Rops (c_vars c) (s_geom (spec_run c hist)) jx) in
  exists M : R,
    (forall jx, index_ok (gsizes (s_geom (spec_run c hist))) jx = true -> (E jx <= M)%R) /\
    (exists jx, index_ok (gsizes (s_geom (spec_run c hist))) jx = true /\ M = E jx) /\
    pmf_value Rops c (final_state Rops c hist) temp ix =
      ((M - E ix) * (if c_wt c then (c_bias_temp c + temp) / c_bias_temp c else 1))%R.
Proof. exact pmf_holds. Qed.
Print Assumptions C05_pmf.

(* a list of admissible steps, saves and plain restarts is an admissible history *)
Theorem C05_plain_history_ok : forall (c : cfgR) (hist : list eventR),
  Forall (plain_event c) hist -> history_ok c hist.
Proof. exact plain_history_ok. Qed.
Print Assumptions C05_plain_history_ok.

(* non-vacuity: the premises are satisfiable by configurations with grids (a hill deposited and tabulated, a step
   on and a step off the grid), with expandBoundaries, with a periodic grid, well-tempered, and without grids on a
   3-vector and a unit-vector variable *)
Example C05_premises_satisfiable :
  cfg_ok w_cfg /\ history_ok w_cfg ([EStep w_i1] ++ [EStep w_i2]) /\
  in_grid w_cfg (c_geom0 w_cfg) (i_x w_i1) = true /\ in_grid w_cfg (c_geom0 w_cfg) (i_x w_i2) = false /\
  eligible w_cfg w_i1 = true /\
  spec_run w_cfg ([EStep w_i1] ++ [EStep w_i2]) = mkS [mkHill 2%Z (1 * (1 * 1))%R [[(3/2)%R]] [1%R]] [] (c_geom0 w_cfg).
Proof. exact w_example. Qed.

Example C05_premises_satisfiable_expand_periodic_wt :
  cfg_ok x_cfg /\ history_ok x_cfg [EStep x_i1; ESave; EStep x_i2; ERestart None; EStep x_i2] /\
  c_wt x_cfg = true /\ existsb (@v_expand R) (c_vars x_cfg) = true /\ existsb (@v_gperiodic R) (c_vars x_cfg) = true.
Proof. exact x_example. Qed.

Example C05_premises_satisfiable_vectors :
  cfg_ok v_cfg /\ history_ok v_cfg [EStep v_i1; ERestart None; EStep v_i2] /\ c_use_grids v_cfg = false /\
  map (@v_kind R) (c_vars v_cfg) = [KVec3; KUnit3; KQuat] /\ eligible v_cfg v_i1 = true.
Proof. exact v_example. Qed.

Example C05_premises_satisfiable_rebin :
  cfg_ok r_cfg /\ history_ok r_cfg [EStep w_i1; ERestart (Some r_g); EStep w_i2] /\
  spec_run r_cfg [EStep w_i1; ERestart (Some r_g); EStep w_i2] = mkS [mkHill 2%Z (1 * (1 * 1))%R [[(3/2)%R]] [1%R]] [] r_g /\
  in_grid r_cfg r_g (i_x w_i2) = true.
Proof. exact r_example. Qed.

Example C05_premises_satisfiable_ebmeta :
  cfg_ok e_cfg /\ history_ok e_cfg [EStep w_i1; EStep w_i2] /\ c_eb e_cfg = true /\ c_wt e_cfg = true /\
  eligible e_cfg w_i1 = true /\ eb_factor e_cfg w_i1 = (3 / 4)%R.
Proof. exact e_example. Qed.

Example C05_premises_satisfiable_reload_rebin_from_grids :
  cfg_ok n_cfg /\ history_ok n_cfg [EStep w_i1; EReload; ERestart (Some n_g); EStep w_i1] /\
  c_keep n_cfg = false /\ existsb (@v_expand R) (c_vars n_cfg) = true.
Proof. exact n_example. Qed.

Example C05_discretisation_premises_satisfiable :
  cfg_ok w_cfg /\ history_ok w_cfg ([EStep w_i1] ++ [EStep w_i2]) /\ c_use_grids w_cfg = true /\
  Forall plain_var (c_vars w_cfg) /\ lip_bound (c_vars w_cfg) [1%R] = (exp (- (1 / 2)) * (1 / (2 * 1) + 0) + exp (- (23 / 2)))%R.
Proof.
  destruct w_example as (H1 & H2 & _). split; [exact H1|]. split; [exact H2|]. split; [reflexivity|]. split; [|reflexivity].
  apply Forall_cons; [|apply Forall_nil]. unfold plain_var, w_var. cbn [v_kind v_periodic v_gperiodic v_width].
  repeat split; lra.
Qed.

(* Multiple replicas.  The mirror object of another replica, fed with the hills received from it (MAdd, any hills with
   one centre per variable and positive widths) and projected when the grids of this replica are (MProj), returns the
   sum of those hills: tabulated ones at the centre of the bin, the others at the actual position ... *)
Theorem C05_replica_mirror_energy : forall (c : cfgR) (evs : list mirror_ev) (x : list valueR),
  cfg_ok c -> no_expand c -> Forall (mirror_ok c) evs -> adm c (c_geom0 c) x ->
  calc_energy Rops c (mirror_run c evs) x = spec_energy c (mirror_spec_run c evs) x.
Proof. exact mirror_energy. Qed.
Print Assumptions C05_replica_mirror_energy.

Theorem C05_replica_mirror_hills : forall (c : cfgR) (evs : list mirror_ev),
  s_all (mirror_spec_run c evs) = flat_map (fun e => match e with MAdd h => [h] | MProj => [] end) evs.
Proof. exact mirror_hills. Qed.
Print Assumptions C05_replica_mirror_hills.

(* ... and the energy / forces summed over this replica and the mirrors (calc_energy, calc_forces with replicas) are
   those of the hills deposited here on schedule plus all hills received from the other replicas. *)
Theorem C05_replicas_energy : forall (c : cfgR) (hist : list eventR) (i : inR) (mevs : list (list mirror_ev)),
  cfg_ok c -> history_ok c (hist ++ [EStep i]) ->
  no_expand (final_cfg c hist) -> Forall (Forall (mirror_ok (final_cfg c hist))) mevs ->
  adm (final_cfg c hist) (c_geom0 (final_cfg c hist)) (i_x i) ->
  total_energy Rops (final_cfg c hist) (final_state Rops c (hist ++ [EStep i])) (map (mirror_run (final_cfg c hist)) mevs) (i_x i) =
  (spec_energy c (spec_run c (hist ++ [EStep i])) (i_x i) +
   Rsum (map (fun evs => spec_energy (final_cfg c hist) (mirror_spec_run (final_cfg c hist) evs) (i_x i)) mevs))%R.
Proof. exact replicas_energy. Qed.
Print Assumptions C05_replicas_energy.

Theorem C05_replicas_force : forall (c : cfgR) (hist : list eventR) (i : inR) (mevs : list (list mirror_ev)) (k j : nat),
  cfg_ok c -> history_ok c (hist ++ [EStep i]) ->
  no_expand (final_cfg c hist) -> Forall (Forall (mirror_ok (final_cfg c hist))) mevs ->
  adm (final_cfg c hist) (c_geom0 (final_cfg c hist)) (i_x i) -> (k < length (c_vars c))%nat ->
  total_force Rops (final_cfg c hist) (final_state Rops c (hist ++ [EStep i])) (map (mirror_run (final_cfg c hist)) mevs) (i_x i) k j =
  (spec_force c (spec_run c (hist ++ [EStep i])) (i_x i) k j +
   Rsum (map (fun evs => spec_force (final_cfg c hist) (mirror_spec_run (final_cfg c hist) evs) (i_x i) k j) mevs))%R.
Proof. exact replicas_force. Qed.
Print Assumptions C05_replicas_force.

Example C05_premises_satisfiable_replicas :
  cfg_ok w_cfg /\ history_ok w_cfg ([EStep w_i1] ++ [EStep w_i2]) /\ no_expand (final_cfg w_cfg [EStep w_i1]) /\
  Forall (Forall (mirror_ok (final_cfg w_cfg [EStep w_i1])))
         [[MAdd (mkHill 1%Z 1%R [[(7/2)%R]] [1%R]); MProj; MAdd (mkHill 2%Z (1/2)%R [[(-(1/4))%R]] [(1/2)%R])]; [MProj]] /\
  adm (final_cfg w_cfg [EStep w_i1]) (c_geom0 (final_cfg w_cfg [EStep w_i1])) (i_x w_i2).
Proof.
  destruct w_example as (H1 & H2 & _). split; [exact H1|]. split; [exact H2|].
  split; [repeat constructor|]. split.
  - repeat constructor; cbn; lra.
  - exact (last_step_adm w_cfg [EStep w_i1] w_i2 H2).
Qed.

Example C05_premises_satisfiable_reconfiguration :
  cfg_ok w_cfg /\ history_ok w_cfg [EStep w_i1; EReconf p_w; EStep w_i2] /\
  cfg_ok v_cfg /\ history_ok v_cfg [EStep v_i1; EReconf p_v; EStep v_i2] /\
  c_sigmas (final_cfg w_cfg [EStep w_i1; EReconf p_w]) = [(1/2)%R] /\
  s_all (spec_run w_cfg [EStep w_i1; EReconf p_w]) = [mkHill 2%Z (1 * (1 * 1))%R [[(3/2)%R]] [1%R]].
Proof. exact reconf_example. Qed.
