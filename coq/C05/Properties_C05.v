(* C05: the metadynamics bias is the sum of the hills deposited on schedule
   (statements only; model in MetaModel.v, specification and proofs in MetaProofs.v).

   Reading guide.  [final_state Rops c hist] is the state of the model of colvarbias_meta after the
   history [hist] of engine steps (step number, relative step, repeated-step flag, variable values);
   [out_energy c hist i] / [out_force c hist i k] are the energy and the force on variable k that
   update() returns at the next step i.  The specification keeps only the list of hills deposited so
   far, split into those already tabulated ([s_tab]) and those not yet ([s_pend]):
     eligible c i      = i_it mod newHillFrequency = 0, data may be accumulated (relative step > 0 and
                         not a repeated step, or stepZeroData), newHillFrequency > 0
     spec_height c s x = hillWeight, times exp(-V/(k dT)) with V = spec_energy c s x when well-tempered
     spec_energy c s x = inside the grid:  sum_{h in s_tab} K_h(centre of the bin of x) + sum_{h in s_pend} K_h(x)
                         outside / no grids: sum over all hills of K_h(x)
     K_h(x)            = W_h * exp(-1/2 sum_i d_i^2/sigma_i^2), d_i the (nearest-image) difference,
                         set to 0 when the exponent exceeds 23 (the kernel as implemented)
   Side conditions: [no_expand c] (no variable has expandBoundaries), [wt_cfg_ok c] (not well-tempered,
   or no grids, or gridsUpdateFrequency divides newHillFrequency), [wt_dep_inside c i] (a well-tempered
   deposit with grids happens inside the grid).  Each is necessary: see the _refuted theorems. *)
From Coq Require Import ZArith List Bool Reals Lia.
From CV Require Import Base.Num Base.RNum C15.GridModel C05.MetaModel C05.MetaProofs.
Import ListNotations.

(* Schedule: the explicit hill list of the implementation is the list of deposited hills (those not
   yet tabulated after new_hills_begin; all of them when keepHills is on or grids are off), for every
   history and every segmentation into runs, and no grid element outside the grid is ever read. *)
Theorem C05_schedule : forall (c : cfgR) (hist : list inR),
  no_expand c -> wt_cfg_ok c -> Forall (wt_dep_inside c) hist ->
  st_new (final_state Rops c hist) = s_pend (spec_run c hist) /\
  st_old (final_state Rops c hist) = (if c_keep c then s_tab (spec_run c hist) else []) /\
  st_ub (final_state Rops c hist) = false.
Proof. exact schedule_holds. Qed.
Print Assumptions C05_schedule.

(* ... where the deposited hills are: one hill per eligible step, centred at the values of that step,
   of height hillWeight (times the well-tempered factor at the deposition point) *)
Theorem C05_deposited : forall (c : cfgR) (hist : list inR) (i : inR),
  s_all (spec_run c (hist ++ [i])) =
  s_all (spec_run c hist) ++
  (if eligible c i then [mkHill (i_it i) (spec_height c (spec_run c hist) (i_x i)) (i_x i)] else []).
Proof. exact deposited_snoc. Qed.
Print Assumptions C05_deposited.

Theorem C05_deposited_plain : forall (c : cfgR) (hist : list inR), c_wt c = false ->
  s_all (spec_run c hist) = map (fun i => mkHill (i_it i) (c_weight c) (i_x i)) (filter (eligible c) hist).
Proof. exact deposited_plain. Qed.
Print Assumptions C05_deposited_plain.

(* ... and they are tabulated at the multiples of gridsUpdateFrequency *)
Theorem C05_tabulated : forall (c : cfgR) (hist : list inR) (i : inR), c_use_grids c = true ->
  s_pend (spec_run c (hist ++ [i])) = (if (i_it i mod c_gfreq c =? 0)%Z then [] else
     s_pend (spec_run c hist) ++
     (if eligible c i then [mkHill (i_it i) (spec_height c (spec_run c hist) (i_x i)) (i_x i)] else [])).
Proof. exact tabulated_snoc. Qed.
Print Assumptions C05_tabulated.

(* Every bin of the energy grid holds the sum of the tabulated hills at the centre of the bin, every
   bin of the gradient grid the sum of their gradients (= minus the forces) there. *)
Theorem C05_grid_is_projected_sum : forall (c : cfgR) (hist : list inR),
  no_expand c -> wt_cfg_ok c -> Forall (wt_dep_inside c) hist ->
  forall ix : list Z,
    st_e (final_state Rops c hist) ix =
      Esum (c_vars c) (s_tab (spec_run c hist)) (centre Rops (c_vars c) (c_geom0 c) ix) /\
    forall k : nat, st_g (final_state Rops c hist) ix k =
      (- Fsum (c_vars c) (s_tab (spec_run c hist)) (centre Rops (c_vars c) (c_geom0 c) ix) k)%R.
Proof. exact grid_is_projected_sum. Qed.
Print Assumptions C05_grid_is_projected_sum.

(* Inside the grid (or without grids) the energy and the force returned at every step are those of
   the specification; keepHills does not occur in the specification. *)
Theorem C05_energy_inside_grid : forall (c : cfgR) (hist : list inR) (i : inR),
  no_expand c -> wt_cfg_ok c -> Forall (wt_dep_inside c) (hist ++ [i]) ->
  in_grid c (i_x i) = true \/ c_use_grids c = false ->
  out_energy c hist i = spec_energy c (spec_run c (hist ++ [i])) (i_x i).
Proof. exact energy_inside_grid. Qed.
Print Assumptions C05_energy_inside_grid.

Theorem C05_force_inside_grid : forall (c : cfgR) (hist : list inR) (i : inR) (k : nat),
  no_expand c -> wt_cfg_ok c -> Forall (wt_dep_inside c) (hist ++ [i]) ->
  in_grid c (i_x i) = true \/ c_use_grids c = false -> (k < length (c_vars c))%nat ->
  out_force c hist i k = spec_force c (spec_run c (hist ++ [i])) (i_x i) k.
Proof. exact force_inside_grid. Qed.
Print Assumptions C05_force_inside_grid.

(* Outside the grid.  FULL STATEMENT (false of the code, see C05_outside_grid_refuted):
     forall c hist i, no_expand c -> wt_cfg_ok c -> Forall (wt_dep_inside c) (hist ++ [i]) ->
       c_use_grids c = true -> in_grid c (i_x i) = false ->
       out_energy c hist i = spec_energy c (spec_run c (hist ++ [i])) (i_x i).
   What the implementation computes: the hills recorded in hills_off_grid (those deposited within
   3*floor(hillWidth)+1 bins of a non-periodic, non-hard edge) plus the hills not yet tabulated. *)
Theorem C05_outside_grid_implemented : forall (c : cfgR) (hist : list inR) (i : inR),
  no_expand c -> wt_cfg_ok c -> Forall (wt_dep_inside c) (hist ++ [i]) ->
  c_use_grids c = true -> in_grid c (i_x i) = false ->
  out_energy c hist i =
    (Esum (c_vars c) (filter (near c) (s_all (spec_run c (hist ++ [i])))) (i_x i) +
     Esum (c_vars c) (s_pend (spec_run c (hist ++ [i]))) (i_x i))%R.
Proof. exact outside_grid_implemented. Qed.
Print Assumptions C05_outside_grid_implemented.

(* It coincides with the specification when no dropped hill and no untabulated hill reaches x. *)
Theorem C05_outside_grid_partial : forall (c : cfgR) (hist : list inR) (i : inR),
  no_expand c -> wt_cfg_ok c -> Forall (wt_dep_inside c) (hist ++ [i]) ->
  c_use_grids c = true -> in_grid c (i_x i) = false ->
  (forall h, In h (s_all (spec_run c (hist ++ [i]))) -> near c h = false -> K (c_vars c) h (i_x i) = 0%R) ->
  (forall h, In h (s_pend (spec_run c (hist ++ [i]))) -> K (c_vars c) h (i_x i) = 0%R) ->
  out_energy c hist i = spec_energy c (spec_run c (hist ++ [i])) (i_x i).
Proof. exact outside_grid_partial. Qed.
Print Assumptions C05_outside_grid_partial.

(* FINDING (outside-grid:hills-far-from-edges-dropped).  The full outside-grid statement is false:
   with gaussianSigmas (hill_width stays 0, so the retained margin is one bin) a hill of sigma = 1 bin
   deposited 1.5 bins inside the lower edge is not in hills_off_grid; a quarter of a bin outside the
   grid the implementation returns 0 where the hill is worth exp(-49/32).  Witness w_cfg, [w_i1], w_i2
   (MetaProofs.v); replayed on the implementation by props/C05/check.py (witness_outside). *)
Theorem C05_outside_grid_refuted :
  exists (c : cfgR) (hist : list inR) (i : inR),
    no_expand c /\ wt_cfg_ok c /\ Forall (wt_dep_inside c) (hist ++ [i]) /\
    c_use_grids c = true /\ in_grid c (i_x i) = false /\
    out_energy c hist i <> spec_energy c (spec_run c (hist ++ [i])) (i_x i).
Proof. exact outside_grid_refuted. Qed.
Print Assumptions C05_outside_grid_refuted.

(* FINDING (wt:deposit-outside-grid-reads-out-of-range).  FULL STATEMENT (false of the code):
     forall c hist, no_expand c -> wt_cfg_ok c -> st_ub (final_state Rops c hist) = false.
   A well-tempered deposit with grids while the variable is outside the grid reads
   hills_energy->value(curr_bin) without index_ok: the premise [wt_dep_inside] of C05_schedule cannot
   be dropped.  Witness u_cfg, [u_i]; replayed by check.py (witness_wt_outside). *)
Theorem C05_wt_deposit_outside_grid_refuted :
  exists (c : cfgR) (hist : list inR),
    no_expand c /\ wt_cfg_ok c /\ st_ub (final_state Rops c hist) = true.
Proof. exact wt_outside_refuted. Qed.
Print Assumptions C05_wt_deposit_outside_grid_refuted.

(* non-vacuity: the premises of the theorems above are satisfiable, with a hill deposited and
   tabulated, a step inside and a step outside the grid, a well-tempered deposit inside the grid,
   and a step so far outside that the premises of C05_outside_grid_partial hold *)
Example C05_premises_satisfiable :
  no_expand w_cfg /\ wt_cfg_ok w_cfg /\ Forall (wt_dep_inside w_cfg) ([w_i1] ++ [w_i2]) /\
  in_grid w_cfg (i_x w_i1) = true /\ in_grid w_cfg (i_x w_i2) = false /\ c_use_grids w_cfg = true /\
  eligible w_cfg w_i1 = true /\ (0 < length (c_vars w_cfg))%nat /\
  spec_run w_cfg ([w_i1] ++ [w_i2]) = mkS [mkHill 2%Z 1%R [(3/2)%R]] [].
Proof.
  destruct w_hyps as [H1 [H2 H3]].
  repeat split; try assumption; try reflexivity; [exact w_inside|exact w_outside|cbn; lia].
Qed.

Example C05_wt_premises_satisfiable :
  no_expand u_cfg /\ wt_cfg_ok u_cfg /\ c_wt u_cfg = true /\ c_use_grids u_cfg = true /\
  eligible u_cfg u_in = true /\ wt_dep_inside u_cfg u_in /\ in_grid u_cfg (i_x u_in) = true.
Proof.
  destruct u_inside_dep as [H1 [H2 [H3 [H4 H5]]]].
  repeat split; try assumption; try reflexivity. right; right; exists 1%Z; reflexivity.
Qed.

Example C05_partial_premises_satisfiable :
  in_grid w_cfg (i_x w_i3) = false /\
  (forall h, In h (s_all (spec_run w_cfg ([w_i1] ++ [w_i3]))) -> near w_cfg h = false -> K (c_vars w_cfg) h (i_x w_i3) = 0%R) /\
  (forall h, In h (s_pend (spec_run w_cfg ([w_i1] ++ [w_i3]))) -> K (c_vars w_cfg) h (i_x w_i3) = 0%R) /\
  s_all (spec_run w_cfg ([w_i1] ++ [w_i3])) <> [].
Proof. exact w_far. Qed.
