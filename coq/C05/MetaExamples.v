(* C05: concrete configurations and histories that satisfy the premises of the theorems (non-vacuity). *)
From Coq Require Import ZArith List Bool Reals Lra Lia Psatz.
From Flocq Require Import Core.Raux.
From CV Require Import Base.Num Base.RNum C15.GridModel C05.MetaModel C05.MetaSpec C05.MetaGeom C05.MetaProofs.
Import ListNotations.
Local Open Scope R_scope.

(* ================================================================== witnesses (non-vacuity of the premises) *)

Lemma Zfloor_val x n : IZR n <= x < IZR n + 1 -> Zfloor x = n.
Proof. intros H. apply Zfloor_spec. exact H. Qed.

(* one non-periodic variable, grid [0,8) of 8 bins, hillWidth 2, newHillFrequency = gridsUpdateFrequency = 2 *)
Definition w_var : varR := mkVar KScalar false 1 1 false false false false.
Definition w_cfg : cfgR := mkCfg [w_var] [mkBound 0 8 8%Z] [1] 1 2 2%Z 2%Z true false false 1 1 false false 0%Z (fun _ => 1).
Definition w_i1 : inR := mkIn 2%Z 2%Z false [[3/2]].
Definition w_i2 : inR := mkIn 3%Z 3%Z false [[-(1/4)]].

Lemma w_cfg_ok : cfg_ok w_cfg.
Proof.
  unfold cfg_ok. split; [|split; [|split]].
  - apply Forall_cons; [|apply Forall_nil]; unfold var_ok, w_var; cbn [v_width]; lra.
  - split; [reflexivity|]. cbn [c_sigmas]. repeat (apply Forall_cons; [lra|]). apply Forall_nil.
  - intros _. cbn [All2 w_cfg c_vars c_sigmas c_hill_width]. split; [|exact I]. unfold w_var; cbn [v_width]. lra.
  - intros _. split.
    + cbn [All2 w_cfg c_vars c_geom0]. split; [|exact I]. unfold bound_ok, w_var.
      cbn [b_upper b_lower b_nx v_width]. split; [simpl; lra|lia].
    + apply Forall_cons; [|apply Forall_nil]. unfold gvar_ok, w_var; cbn [v_kind v_expand].
      split; [reflexivity|intros H; discriminate H].
Qed.

Lemma w_adm x : adm w_cfg (c_geom0 w_cfg) [[x]].
Proof.
  intros _. cbn [All3 w_cfg c_vars c_geom0]. split; [|exact I].
  unfold adm_var, w_var; cbn [v_periodic v_gperiodic v_hard_lo v_hard_up].
  split; [intros H; discriminate H|split; intros H; discriminate H].
Qed.

Lemma w_example :
  cfg_ok w_cfg /\ history_ok w_cfg ([EStep w_i1] ++ [EStep w_i2]) /\
  in_grid w_cfg (c_geom0 w_cfg) (i_x w_i1) = true /\ in_grid w_cfg (c_geom0 w_cfg) (i_x w_i2) = false /\
  eligible w_cfg w_i1 = true /\
  spec_run w_cfg ([EStep w_i1] ++ [EStep w_i2]) = mkS [mkHill 2%Z (1 * (1 * 1)) [[3/2]] [1]] [] (c_geom0 w_cfg).
Proof.
  split; [exact w_cfg_ok|]. split.
  { apply plain_history_ok. cbn [app]. apply Forall_cons; [exact (w_adm _)|apply Forall_cons; [exact (w_adm _)|apply Forall_nil]]. }
  split; [|split; [|split; reflexivity]].
  - unfold in_grid, gbins, w_cfg, w_i1, w_var.
    cbn [c_use_grids c_geom0 c_vars i_x cbins wrapix gsizes map b_nx b_lower v_width v_gperiodic andb sc].
    unfold value_to_bin. cbn [nfloor ndiv nsub Rops].
    rewrite (Zfloor_val _ 1%Z) by (simpl; lra). reflexivity.
  - unfold in_grid, gbins, w_cfg, w_i2, w_var.
    cbn [c_use_grids c_geom0 c_vars i_x cbins wrapix gsizes map b_nx b_lower v_width v_gperiodic andb sc].
    unfold value_to_bin. cbn [nfloor ndiv nsub Rops].
    rewrite (Zfloor_val _ (-1)%Z) by (simpl; lra). reflexivity.
Qed.

(* two variables: one with expandBoundaries, one periodic with a periodic grid; well-tempered, gaussianSigmas *)
Definition x_varA : varR := mkVar KScalar false 1 1 false true false false.
Definition x_varB : varR := mkVar KScalar true 8 1 true false false false.
Definition x_cfg : cfgR :=
  mkCfg [x_varA; x_varB] [mkBound 0 8 8%Z; mkBound 0 8 8%Z] [1; 1] 1 0 1%Z 2%Z true true true 300 1 false false 0%Z (fun _ => 1).
Definition x_i1 : inR := mkIn 1%Z 1%Z false [[3/2]; [-(3/2)]].
Definition x_i2 : inR := mkIn 2%Z 2%Z false [[-1]; [5]].

Lemma x_cfg_ok : cfg_ok x_cfg.
Proof.
  unfold cfg_ok. split; [|split; [|split]].
  - apply Forall_cons; [|apply Forall_cons; [|apply Forall_nil]]; unfold var_ok, x_varA, x_varB; cbn [v_width]; lra.
  - split; [reflexivity|]. cbn [c_sigmas]. repeat (apply Forall_cons; [lra|]). apply Forall_nil.
  - intros H. cbn [x_cfg c_hill_width] in H. lra.
  - intros _. split.
    + cbn [All2 x_cfg c_vars c_geom0]. unfold bound_ok, x_varA, x_varB. cbn [b_upper b_lower b_nx v_width].
      split; [split; [simpl; lra|lia]|split; [split; [simpl; lra|lia]|exact I]].
    + apply Forall_cons; [|apply Forall_cons; [|apply Forall_nil]];
        unfold gvar_ok, x_varA, x_varB; cbn [v_kind v_expand v_periodic v_gperiodic].
      * split; [reflexivity|intros _; split; reflexivity].
      * split; [reflexivity|intros H; discriminate H].
Qed.

Lemma x_adm a b : adm x_cfg (c_geom0 x_cfg) [[a]; [b]].
Proof.
  intros _. cbn [All3 x_cfg c_vars c_geom0]. unfold adm_var, x_varA, x_varB.
  cbn [v_periodic v_gperiodic v_hard_lo v_hard_up].
  split; [|split; [|exact I]].
  - split; [intros H; discriminate H|split; intros H; discriminate H].
  - split; [intros _ H; discriminate H|split; intros H; discriminate H].
Qed.

Lemma x_example :
  cfg_ok x_cfg /\ history_ok x_cfg [EStep x_i1; ESave; EStep x_i2; ERestart None; EStep x_i2] /\
  c_wt x_cfg = true /\ existsb (@v_expand R) (c_vars x_cfg) = true /\ existsb (@v_gperiodic R) (c_vars x_cfg) = true.
Proof.
  split; [exact x_cfg_ok|]. split; [|repeat split; reflexivity].
  apply plain_history_ok.
  apply Forall_cons; [exact (x_adm _ _)|]. apply Forall_cons; [exact I|]. apply Forall_cons; [exact (x_adm _ _)|].
  apply Forall_cons; [exact I|]. apply Forall_cons; [exact (x_adm _ _)|apply Forall_nil].
Qed.

(* without grids: a 3-vector and a unit-vector variable *)
Definition v_var1 : varR := mkVar KVec3 false 1 1 false false false false.
Definition v_var2 : varR := mkVar KUnit3 false 1 1 false false false false.
Definition v_var3 : varR := mkVar KQuat false 1 1 false false false false.
Definition v_cfg : cfgR := mkCfg [v_var1; v_var2; v_var3] [] [1; 1; 1] 1 2 1%Z 1%Z false false true 300 1 false false 0%Z (fun _ => 1).
Definition v_i1 : inR := mkIn 1%Z 1%Z false [[1; 0; 1/2]; [1; 0; 0]; [1; 0; 0; 0]].
Definition v_i2 : inR := mkIn 2%Z 2%Z false [[1; 1/4; 1/2]; [0; 1; 0]; [0; 1; 0; 0]].

Lemma v_cfg_ok : cfg_ok v_cfg.
Proof.
  unfold cfg_ok. split; [|split; [|split]].
  - apply Forall_cons; [|apply Forall_cons; [|apply Forall_cons; [|apply Forall_nil]]]; unfold var_ok, v_var1, v_var2, v_var3; cbn [v_width]; lra.
  - split; [reflexivity|]. cbn [c_sigmas]. repeat (apply Forall_cons; [lra|]). apply Forall_nil.
  - intros _. cbn [All2 v_cfg c_vars c_sigmas c_hill_width]. unfold v_var1, v_var2, v_var3; cbn [v_width]. repeat split; lra.
  - intros H. discriminate H.
Qed.

Lemma v_example :
  cfg_ok v_cfg /\ history_ok v_cfg [EStep v_i1; ERestart None; EStep v_i2] /\ c_use_grids v_cfg = false /\
  map (@v_kind R) (c_vars v_cfg) = [KVec3; KUnit3; KQuat] /\ eligible v_cfg v_i1 = true.
Proof.
  split; [exact v_cfg_ok|]. split; [|repeat split; reflexivity].
  apply plain_history_ok.
  apply Forall_cons; [intros H; discriminate H|]. apply Forall_cons; [exact I|].
  apply Forall_cons; [intros H; discriminate H|apply Forall_nil].
Qed.

(* keepHills and a restart with rebinGrids onto the larger grid [-2,10) *)
Definition r_cfg : cfgR := mkCfg [w_var] [mkBound 0 8 8%Z] [1] 1 2 2%Z 2%Z true true false 1 1 false false 0%Z (fun _ => 1).
Definition r_g : list boundR := [mkBound (-2) 10 12%Z].

Lemma r_cfg_ok : cfg_ok r_cfg.
Proof. exact w_cfg_ok. Qed.

Lemma r_example :
  cfg_ok r_cfg /\ history_ok r_cfg [EStep w_i1; ERestart (Some r_g); EStep w_i2] /\
  spec_run r_cfg [EStep w_i1; ERestart (Some r_g); EStep w_i2] = mkS [mkHill 2%Z (1 * (1 * 1)) [[3/2]] [1]] [] r_g /\
  in_grid r_cfg r_g (i_x w_i2) = true.
Proof.
  split; [exact r_cfg_ok|]. split; [|split; [reflexivity|]].
  - unfold history_ok. cbn [hist_ok]. split; [exact (w_adm _)|]. split; [|split; [|exact I]].
    + intros _. split.
      * cbn [All2 r_cfg r_g c_vars]. split; [|exact I]. unfold bound_ok, w_var.
        cbn [b_upper b_lower b_nx v_width]. split; [simpl; lra|lia].
      * left. split; [reflexivity|]. assert (Hs : s_all (spec_event r_cfg (mkS [] [] (c_geom0 r_cfg)) (EStep w_i1)) = [mkHill 2%Z (1 * (1 * 1)) [[3/2]] [1]])
          by reflexivity.
        rewrite Hs. intros h [<-|[]]. cbn [All3 r_cfg r_g c_vars h_c]. split; [|exact I].
        unfold clear_var, w_var. cbn [v_expand]. intros H. discriminate H.
    + intros _. cbn [next_base r_cfg c_use_grids All3 r_g c_vars i_x w_i2]. split; [|exact I].
      unfold adm_var, w_var; cbn [v_periodic v_gperiodic v_hard_lo v_hard_up].
      split; [intros H; discriminate H|split; intros H; discriminate H].
  - unfold in_grid, gbins, r_cfg, r_g, w_i2, w_var.
    cbn [c_use_grids c_vars i_x cbins wrapix gsizes map b_nx b_lower v_width v_gperiodic andb sc].
    unfold value_to_bin. cbn [nfloor ndiv nsub Rops].
    rewrite (Zfloor_val _ 1%Z) by (simpl; lra). reflexivity.
Qed.

(* ebMeta (uniform target density 2 on the grid, ramped in during 4 steps) together with well-tempered *)
Definition e_cfg : cfgR := mkCfg [w_var] [mkBound 0 8 8%Z] [1] 1 2 2%Z 2%Z true false true 300 1 false true 4%Z (fun _ => 2).

Lemma e_example :
  cfg_ok e_cfg /\ history_ok e_cfg [EStep w_i1; EStep w_i2] /\ c_eb e_cfg = true /\ c_wt e_cfg = true /\
  eligible e_cfg w_i1 = true /\ eb_factor e_cfg w_i1 = 3 / 4.
Proof.
  split; [exact w_cfg_ok|]. split; [|repeat split; try reflexivity].
  - apply plain_history_ok. apply Forall_cons; [exact (w_adm _)|apply Forall_cons; [exact (w_adm _)|apply Forall_nil]].
  - unfold eb_factor, e_cfg, w_i1. cbn [c_eb c_eb_equil c_eb_target i_it]. simpl. lra.
Qed.

(* expandBoundaries without keepHills, a reload, and a rebinning restart from the grids of the state onto the
   boundaries the grids have reached *)
Definition n_var : varR := mkVar KScalar false 1 1 false true false false.
Definition n_cfg : cfgR := mkCfg [n_var] [mkBound 0 8 8%Z] [1] 1 2 1%Z 1%Z true false false 1 1 false false 0%Z (fun _ => 1).
Definition n_g : list boundR := s_geom (spec_run n_cfg [EStep w_i1; EReload]).

Lemma n_cfg_ok : cfg_ok n_cfg.
Proof.
  unfold cfg_ok. split; [|split; [|split]].
  - apply Forall_cons; [|apply Forall_nil]; unfold var_ok, n_var; cbn [v_width]; lra.
  - split; [reflexivity|]. cbn [c_sigmas]. repeat (apply Forall_cons; [lra|]). apply Forall_nil.
  - intros _. cbn [All2 n_cfg c_vars c_sigmas c_hill_width]. split; [|exact I]. unfold n_var; cbn [v_width]. lra.
  - intros _. split.
    + cbn [All2 n_cfg c_vars c_geom0]. split; [|exact I]. unfold bound_ok, n_var.
      cbn [b_upper b_lower b_nx v_width]. split; [simpl; lra|lia].
    + apply Forall_cons; [|apply Forall_nil]. unfold gvar_ok, n_var; cbn [v_kind v_expand v_periodic v_gperiodic].
      split; [reflexivity|intros _; split; reflexivity].
Qed.

Lemma n_adm g x : adm n_cfg [g] [[x]].
Proof.
  intros _. cbn [All3 n_cfg c_vars]. split; [|exact I].
  unfold adm_var, n_var; cbn [v_periodic v_gperiodic v_hard_lo v_hard_up].
  split; [intros H; discriminate H|split; intros H; discriminate H].
Qed.

Lemma n_example :
  cfg_ok n_cfg /\ history_ok n_cfg [EStep w_i1; EReload; ERestart (Some n_g); EStep w_i1] /\
  c_keep n_cfg = false /\ existsb (@v_expand R) (c_vars n_cfg) = true.
Proof.
  split; [exact n_cfg_ok|]. split; [|split; reflexivity].
  assert (H0 : history_ok n_cfg [EStep w_i1; EReload]).
  { apply plain_history_ok. apply Forall_cons; [exact (n_adm _ _)|apply Forall_cons; [exact I|apply Forall_nil]]. }
  destruct (run_inv n_cfg _ n_cfg_ok H0) as (HI & Hb & _).
  pose proof (geometry_grows n_cfg _ n_cfg_ok H0 eq_refl) as Hgr. fold n_g in Hgr.
  assert (Hlen : length n_g = 1%nat).
  { destruct (All3_length _ _ _ _ Hgr) as [_ Hl]. symmetry. exact Hl. }
  destruct n_g as [|b [|b' r]] eqn:En; try discriminate Hlen.
  change (history_ok n_cfg ([EStep w_i1; EReload] ++ [ERestart (Some [b]); EStep w_i1])).
  unfold history_ok. apply hist_ok_app. split; [exact H0|].
  change (frun spec_event n_cfg [EStep w_i1; EReload] (mkS [] [] (c_geom0 n_cfg))) with (spec_run n_cfg [EStep w_i1; EReload]).
  change (final_cfg n_cfg [EStep w_i1; EReload]) with n_cfg in *.
  cbn [hist_ok]. split; [|split; [|exact I]].
  - intros _. split.
    + apply (All2_bound_gstep (c_vars n_cfg) _ _ (Hb eq_refl)). exact Hgr.
    + right. split; [reflexivity|]. fold n_g. rewrite En. apply All3_refl_gstep. reflexivity.
  - apply n_adm.
Qed.

(* a job continued with narrower hills, another weight and frequency: with grids (w_cfg) and without (v_cfg) *)
Definition p_w : @params R := mkPar [1/2] 1 3 1%Z 2%Z true 1000 false.
Definition p_v : @params R := mkPar [1/2; 1/2; 1/2] 1 2 2%Z 2%Z false 300 true.

Lemma reconf_example :
  cfg_ok w_cfg /\ history_ok w_cfg [EStep w_i1; EReconf p_w; EStep w_i2] /\
  cfg_ok v_cfg /\ history_ok v_cfg [EStep v_i1; EReconf p_v; EStep v_i2] /\
  c_sigmas (final_cfg w_cfg [EStep w_i1; EReconf p_w]) = [1/2] /\
  s_all (spec_run w_cfg [EStep w_i1; EReconf p_w]) = [mkHill 2%Z (1 * (1 * 1)) [[3/2]] [1]].
Proof.
  split; [exact w_cfg_ok|]. split; [|split; [exact v_cfg_ok|split; [|split; reflexivity]]].
  - unfold history_ok. cbn [hist_ok]. split; [exact (w_adm _)|]. split; [|split; [exact (w_adm _)|exact I]].
    unfold cfg_ok. cbn [with_par p_w c_vars c_sigmas c_hill_width c_use_grids c_geom0 w_cfg p_sigmas p_hill_width].
    split; [|split; [|split]].
    + apply Forall_cons; [|apply Forall_nil]. unfold var_ok, w_var; cbn [v_width]; lra.
    + split; [reflexivity|]. apply Forall_cons; [lra|apply Forall_nil].
    + unfold sigmas_ok. cbn [with_par c_vars c_sigmas c_hill_width p_sigmas p_hill_width p_w w_cfg All2].
      intros _. split; [|exact I]. unfold w_var; cbn [v_width]. lra.
    + intros _. destruct w_cfg_ok as (_ & _ & _ & H). exact (H eq_refl).
  - unfold history_ok. cbn [hist_ok]. split; [intros H; discriminate H|]. split; [|split; [intros H; discriminate H|exact I]].
    unfold cfg_ok. cbn [with_par p_v c_vars c_sigmas c_hill_width c_use_grids c_geom0 v_cfg p_sigmas p_hill_width].
    split; [|split; [|split]].
    + destruct v_cfg_ok as (H & _). exact H.
    + split; [reflexivity|]. repeat (apply Forall_cons; [lra|]). apply Forall_nil.
    + unfold sigmas_ok. cbn [with_par c_vars c_sigmas c_hill_width p_sigmas p_hill_width p_v v_cfg All2].
      intros _. repeat split; unfold v_var1, v_var2, v_var3; cbn [v_width]; lra.
    + intros H. discriminate H.
Qed.
