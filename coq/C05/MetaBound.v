(* C05: how far the gridded bias (tabulated hills taken at the centre of the current bin) is from the analytic sum
   of the same hills at the actual position: a Lipschitz bound from the derivative of the Gaussian, plus the jump of
   the kernel at its cut-off (exponent 23).  Scalar, non-periodic variables. *)
From Coq Require Import ZArith List Bool Reals Lra Lia Psatz.
From Flocq Require Import Core.Raux.
From CV Require Import Base.Num Base.RNum C15.GridModel C05.MetaModel C05.MetaSpec C05.MetaGeom C05.MetaProofs.
Import ListNotations.
Local Open Scope R_scope.

(* ---- the one-dimensional Gaussian exp(-t^2/2) is exp(-1/2)-Lipschitz ---- *)
Lemma Rminus_self (x : R) : x - x = 0.
Proof. ring. Qed.

Definition psi (t : R) : R := exp (- (t * t) / 2).

Lemma psi_pos t : 0 < psi t.
Proof. apply exp_pos. Qed.

Lemma psi_le1 t : psi t <= 1.
Proof.
  unfold psi. rewrite <- exp_0. destruct (Req_dec t 0) as [->|H].
  - right. f_equal. lra.
  - left. apply exp_increasing. nra.
Qed.

Lemma psi_deriv c : derivable_pt_lim psi c (- c * psi c).
Proof.
  unfold psi.
  assert (H1 : derivable_pt_lim (fun t => - (t * t) / 2) c (- c)).
  { replace (- c) with (- (1 * c + c * 1) / 2) by lra.
    change (fun t => - (t * t) / 2) with (mult_real_fct (/ 2) (opp_fct (mult_fct id id))) || idtac.
    assert (Hm : derivable_pt_lim (fun t => t * t) c (1 * c + c * 1))
      by (apply (derivable_pt_lim_mult id id c 1 1); apply derivable_pt_lim_id).
    assert (Ho : derivable_pt_lim (fun t => - (t * t)) c (- (1 * c + c * 1)))
      by (apply (derivable_pt_lim_opp (fun t => t * t)); exact Hm).
    assert (Hs : derivable_pt_lim (fun t => / 2 * - (t * t)) c (/ 2 * - (1 * c + c * 1)))
      by (apply (derivable_pt_lim_scal (fun t => - (t * t)) (/ 2) c); exact Ho).
    unfold derivable_pt_lim in *. intros eps Heps. destruct (Hs eps Heps) as [d Hd]. exists d. intros h Hh Hlt.
    specialize (Hd h Hh Hlt).
    replace ((- ((c + h) * (c + h)) / 2 - - (c * c) / 2) / h - - (1 * c + c * 1) / 2)
      with ((/ 2 * - ((c + h) * (c + h)) - / 2 * - (c * c)) / h - / 2 * - (1 * c + c * 1)) by (field; exact Hh).
    exact Hd. }
  pose proof (derivable_pt_lim_comp (fun t => - (t * t) / 2) exp c (- c) (exp (- (c * c) / 2)) H1
                (derivable_pt_lim_exp _)) as H2.
  replace (- c * exp (- (c * c) / 2)) with (exp (- (c * c) / 2) * - c) by ring. exact H2.
Qed.

Lemma psi_slope c : Rabs (- c * psi c) <= exp (- (1 / 2)).
Proof.
  unfold psi. rewrite Rabs_mult, Rabs_Ropp, (Rabs_right (exp _)) by (left; apply exp_pos).
  pose proof (exp_ineq1_le ((c * c - 1) / 2)) as H.
  assert (Hc : Rabs c <= exp ((c * c - 1) / 2)).
  { pose proof (Rle_0_sqr (c - 1)) as S1. pose proof (Rle_0_sqr (c + 1)) as S2. unfold Rsqr in S1, S2.
    unfold Rabs. destruct (Rcase_abs c); lra. }
  replace (exp (- (1 / 2))) with (exp ((c * c - 1) / 2) * exp (- (c * c) / 2)).
  - apply Rmult_le_compat_r; [left; apply exp_pos|exact Hc].
  - rewrite <- exp_plus. f_equal. lra.
Qed.

Lemma psi_lip a b : Rabs (psi a - psi b) <= exp (- (1 / 2)) * Rabs (a - b).
Proof.
  assert (Hlt : forall p q, p < q -> Rabs (psi q - psi p) <= exp (- (1 / 2)) * Rabs (q - p)).
  { intros p q Hpq.
    destruct (MVT_cor2 psi (fun c => - c * psi c) p q Hpq (fun c _ => psi_deriv c)) as [c [Hc _]].
    rewrite Hc, Rabs_mult. apply Rmult_le_compat_r; [apply Rabs_pos|apply psi_slope]. }
  destruct (Rtotal_order a b) as [H|[H|H]].
  - rewrite Rabs_minus_sym, (Rabs_minus_sym a b). apply Hlt. exact H.
  - subst. rewrite !Rminus_self, Rabs_R0. lra.
  - apply Hlt. exact H.
Qed.

(* ---- the untruncated kernel of one hill: a product of one-dimensional Gaussians ---- *)
Definition plain_var (v : varR) : Prop :=
  v_kind v = KScalar /\ v_periodic v = false /\ v_gperiodic v = false /\ 0 < v_width v.

Definition Gexp (vs : list varR) (sg : list R) (x c : list valueR) : R := exp (- Qexp vs sg x c / 2).

(* half a bin in units of the sigma of the hill, summed over the variables *)
Fixpoint half_bins (vs : list varR) (sg : list R) : R :=
  match vs, sg with v :: r, si :: sr => v_width v / (2 * si) + half_bins r sr | _, _ => 0 end.

Lemma half_bins_nonneg vs : forall sg, Forall plain_var vs -> Forall (Rlt 0) sg -> 0 <= half_bins vs sg.
Proof.
  induction vs as [|v vs IH]; intros sg H Hp; cbn [half_bins]; [lra|]. destruct sg as [|si sg]; [lra|].
  inversion H as [|v0 l0 (_ & _ & _ & Hw) Hr]; subst. inversion Hp as [|s0 l1 Hs Hps]; subst. specialize (IH sg Hr Hps).
  assert (0 < v_width v / (2 * si)) by (apply Rdiv_lt_0_compat; lra). lra.
Qed.

Definition Close (vs : list varR) (x y : list valueR) : Prop :=
  All3 (fun v xi yi => Rabs (scR xi - scR yi) <= v_width v / 2) vs x y.

Lemma term_plain v si xi ci : plain_var v -> 0 < si ->
  D v xi ci / (si * si) = ((scR xi - scR ci) / si) * ((scR xi - scR ci) / si).
Proof.
  intros (Hk & Hp & _) Hs. unfold D, mdiff. rewrite Hk, Hp. field. lra.
Qed.

Lemma Gexp_cons v vs si sg xi x ci c : plain_var v -> 0 < si ->
  Gexp (v :: vs) (si :: sg) (xi :: x) (ci :: c) = psi ((scR xi - scR ci) / si) * Gexp vs sg x c.
Proof.
  intros Hv Hs. unfold Gexp, psi. cbn [Qexp]. rewrite (term_plain v si xi ci Hv Hs), <- exp_plus. f_equal. lra.
Qed.

Lemma Gexp_bounds vs sg x c : 0 < Gexp vs sg x c <= 1.
Proof.
  unfold Gexp. split; [apply exp_pos|]. rewrite <- exp_0. pose proof (Qexp_nonneg vs sg x c) as H.
  destruct (Req_dec (Qexp vs sg x c) 0) as [E|E]; [right; f_equal; lra|left; apply exp_increasing; lra].
Qed.

Lemma Gexp_lip vs : forall sg x y c, Forall plain_var vs -> Forall (Rlt 0) sg -> Close vs x y ->
  Rabs (Gexp vs sg x c - Gexp vs sg y c) <= exp (- (1 / 2)) * half_bins vs sg.
Proof.
  induction vs as [|v vs IH]; intros sg x y c Hv Hp Hc.
  - destruct x; [|contradiction]. destruct y; [|contradiction]. unfold Gexp. cbn [Qexp half_bins].
    rewrite Rminus_self, Rabs_R0. lra.
  - destruct x as [|xi x]; [contradiction|]. destruct y as [|yi y]; [contradiction|].
    cbn [Close All3] in Hc. destruct Hc as [Hc1 Hc2]. inversion Hv as [|v0 l0 Hv1 Hvs]; subst.
    pose proof (exp_pos (- (1 / 2))) as He.
    destruct sg as [|si sg].
    { unfold Gexp. cbn [Qexp half_bins]. rewrite Rminus_self, Rabs_R0. lra. }
    inversion Hp as [|s0 l1 Hs Hps]; subst. pose proof (half_bins_nonneg vs sg Hvs Hps) as Hhb.
    destruct c as [|ci c].
    + unfold Gexp. cbn [Qexp half_bins]. rewrite Rminus_self, Rabs_R0.
      destruct Hv1 as (_ & _ & _ & Hw). assert (0 < v_width v / (2 * si)) by (apply Rdiv_lt_0_compat; lra). nra.
    + rewrite !Gexp_cons by assumption. cbn [half_bins].
      set (a := psi ((scR xi - scR ci) / si)). set (b := psi ((scR yi - scR ci) / si)).
      set (p := Gexp vs sg x c). set (q := Gexp vs sg y c).
      assert (Hab : Rabs (a - b) <= exp (- (1 / 2)) * (v_width v / (2 * si))).
      { eapply Rle_trans; [apply psi_lip|]. apply Rmult_le_compat_l; [lra|].
        destruct Hv1 as (_ & _ & _ & Hw).
        replace ((scR xi - scR ci) / si - (scR yi - scR ci) / si) with ((scR xi - scR yi) / si) by (field; lra).
        unfold Rdiv at 1. rewrite Rabs_mult, (Rabs_right (/ si)) by (left; apply Rinv_0_lt_compat; lra).
        replace (v_width v / (2 * si)) with (v_width v / 2 * / si) by (field; lra).
        apply Rmult_le_compat_r; [left; apply Rinv_0_lt_compat; lra|exact Hc1]. }
      pose proof (IH sg x y c Hvs Hps Hc2) as Hpq. fold p q in Hpq.
      destruct (Gexp_bounds vs sg x c) as [Hp0 Hp1]. fold p in Hp0, Hp1.
      pose proof (psi_pos ((scR yi - scR ci) / si)) as Hb0. pose proof (psi_le1 ((scR yi - scR ci) / si)) as Hb1.
      fold b in Hb0, Hb1.
      replace (a * p - b * q) with ((a - b) * p + b * (p - q)) by ring.
      eapply Rle_trans; [apply Rabs_triang|]. rewrite !Rabs_mult, (Rabs_right p), (Rabs_right b) by lra.
      assert (Rabs (a - b) * p <= Rabs (a - b)) by (pose proof (Rabs_pos (a - b)); nra).
      assert (b * Rabs (p - q) <= Rabs (p - q)) by (pose proof (Rabs_pos (p - q)); nra).
      lra.
Qed.

(* ---- with the cut-off ---- *)
Lemma gauss_G q : gauss q = if Rlt_dec 23 q then 0 else exp (- q / 2).
Proof. unfold gauss. destruct (Rlt_dec 23 q); [reflexivity|f_equal; lra]. Qed.

Lemma gauss_trunc vs sg x y c :
  Rabs (gauss (Qexp vs sg x c) - gauss (Qexp vs sg y c)) <= Rabs (Gexp vs sg x c - Gexp vs sg y c) + exp (- (23 / 2)).
Proof.
  rewrite !gauss_G. unfold Gexp. pose proof (exp_pos (- (23 / 2))) as He.
  set (qx := Qexp vs sg x c). set (qy := Qexp vs sg y c).
  pose proof (exp_pos (- qx / 2)) as Hx. pose proof (exp_pos (- qy / 2)) as Hy.
  pose proof (Rabs_pos (exp (- qx / 2) - exp (- qy / 2))) as Hd.
  destruct (Rlt_dec 23 qx) as [Lx|Lx]; destruct (Rlt_dec 23 qy) as [Ly|Ly].
  - rewrite Rminus_self, Rabs_R0. lra.
  - assert (exp (- qx / 2) < exp (- (23 / 2))) by (apply exp_increasing; lra).
    replace (0 - exp (- qy / 2)) with (- exp (- qy / 2)) by ring. rewrite Rabs_Ropp, Rabs_right by lra.
    assert (exp (- qy / 2) <= Rabs (exp (- qx / 2) - exp (- qy / 2)) + exp (- qx / 2)).
    { unfold Rabs. destruct (Rcase_abs (exp (- qx / 2) - exp (- qy / 2))); lra. }
    lra.
  - assert (exp (- qy / 2) < exp (- (23 / 2))) by (apply exp_increasing; lra).
    rewrite Rminus_0_r, Rabs_right by lra.
    assert (exp (- qx / 2) <= Rabs (exp (- qx / 2) - exp (- qy / 2)) + exp (- qy / 2)).
    { unfold Rabs. destruct (Rcase_abs (exp (- qx / 2) - exp (- qy / 2))); lra. }
    lra.
  - lra.
Qed.

(* per hill (with the widths of the hill), and summed over hills *)
Definition lip_bound (vs : list varR) (sg : list R) : R := exp (- (1 / 2)) * half_bins vs sg + exp (- (23 / 2)).
Fixpoint Bsum (vs : list varR) (hs : list hillR) : R :=
  match hs with [] => 0 | h :: r => Rabs (h_W h) * lip_bound vs (h_s h) + Bsum vs r end.

Lemma K_lip vs h x y : Forall plain_var vs -> Forall (Rlt 0) (h_s h) -> Close vs x y ->
  Rabs (K vs h x - K vs h y) <= Rabs (h_W h) * lip_bound vs (h_s h).
Proof.
  intros Hv Hp Hc. unfold K, lip_bound. rewrite <- Rmult_minus_distr_l, Rabs_mult.
  apply Rmult_le_compat_l; [apply Rabs_pos|].
  eapply Rle_trans; [apply gauss_trunc|]. pose proof (Gexp_lip vs (h_s h) x y (h_c h) Hv Hp Hc). lra.
Qed.

Lemma Esum_lip vs hs x y : Forall plain_var vs -> (forall h, In h hs -> Forall (Rlt 0) (h_s h)) -> Close vs x y ->
  Rabs (Esum vs hs x - Esum vs hs y) <= Bsum vs hs.
Proof.
  intros Hv Hp Hc. induction hs as [|h hs IH]; cbn [Bsum].
  - rewrite !Esum_nil, Rminus_self, Rabs_R0. lra.
  - rewrite !Esum_cons.
    replace (K vs h x + Esum vs hs x - (K vs h y + Esum vs hs y)) with ((K vs h x - K vs h y) + (Esum vs hs x - Esum vs hs y)) by ring.
    eapply Rle_trans; [apply Rabs_triang|]. pose proof (K_lip vs h x y Hv (Hp h (or_introl eq_refl)) Hc).
    assert (Rabs (Esum vs hs x - Esum vs hs y) <= Bsum vs hs) by (apply IH; intros h' Hin; apply Hp; right; exact Hin).
    lra.
Qed.

Lemma Bsum_nonneg vs hs : Forall plain_var vs -> (forall h, In h hs -> Forall (Rlt 0) (h_s h)) -> 0 <= Bsum vs hs.
Proof.
  intros Hv Hp. induction hs as [|h hs IH]; cbn [Bsum]; [lra|].
  assert (0 <= Bsum vs hs) by (apply IH; intros h' Hin; apply Hp; right; exact Hin).
  assert (0 <= lip_bound vs (h_s h)).
  { unfold lip_bound. pose proof (half_bins_nonneg vs (h_s h) Hv (Hp h (or_introl eq_refl))).
    pose proof (exp_pos (- (1 / 2))). pose proof (exp_pos (- (23 / 2))). nra. }
  pose proof (Rabs_pos (h_W h)). nra.
Qed.

(* ---- a value on the grid is within half a bin of the centre of its bin ---- *)
Lemma bin_centre_close vs : forall g x, Forall plain_var vs -> length g = length vs -> length x = length vs ->
  Close vs x (centre Rops vs g (gbins Rops vs g x)).
Proof.
  induction vs as [|v vs IH]; intros g x Hv Hg Hx.
  - destruct g; [|discriminate]. destruct x; [|discriminate]. exact I.
  - destruct g as [|b g]; [discriminate|]. destruct x as [|xv x]; [discriminate|].
    inversion Hv as [|v0 l0 Hv1 Hvs]; subst. cbn [length] in Hg, Hx.
    rewrite gbins_cons. cbn [centre Close All3]. split; [|apply IH; [exact Hvs|lia|lia]].
    destruct Hv1 as (_ & _ & Hgp & Hw). unfold wbin. rewrite Hgp. cbn [scR]. rewrite btv_R, vtb_R.
    pose proof (Zfloor_lb ((scR xv - b_lower b) / v_width v)) as Hl.
    pose proof (Zfloor_ub ((scR xv - b_lower b) / v_width v)) as Hu.
    pose proof (div_mul (scR xv - b_lower b) (v_width v) Hw) as Hd.
    set (q := (scR xv - b_lower b) / v_width v) in *. set (n := IZR (Zfloor q)) in *.
    assert (Hx1 : scR xv = b_lower b + q * v_width v) by lra.
    unfold Rabs. destruct (Rcase_abs (scR xv - (b_lower b + v_width v * (1 / 2 + n)))); nra.
Qed.

(* ---- the gridded bias against the analytic sum of all deposited hills at the actual position ---- *)
Lemma spec_energy_discretisation c s x : Forall plain_var (c_vars c) ->
  (forall h, In h (s_tab s) -> Forall (Rlt 0) (h_s h)) ->
  length (s_geom s) = length (c_vars c) -> length x = length (c_vars c) ->
  Rabs (spec_energy c s x - Esum (c_vars c) (s_all s) x) <= Bsum (c_vars c) (s_tab s).
Proof.
  intros Hv Hp Hg Hx. unfold spec_energy, s_all. rewrite Esum_app.
  destruct (in_grid c (s_geom s) x).
  - replace (Esum (c_vars c) (s_tab s) (bin_centre c (s_geom s) x) + Esum (c_vars c) (s_pend s) x -
             (Esum (c_vars c) (s_tab s) x + Esum (c_vars c) (s_pend s) x))
      with (- (Esum (c_vars c) (s_tab s) x - Esum (c_vars c) (s_tab s) (bin_centre c (s_geom s) x))) by ring.
    rewrite Rabs_Ropp. apply Esum_lip; [exact Hv|exact Hp|]. unfold bin_centre. apply bin_centre_close; assumption.
  - rewrite Rminus_self, Rabs_R0. apply Bsum_nonneg; assumption.
Qed.

Lemma energy_discretisation c hist i : cfg_ok c -> history_ok c (hist ++ [EStep i]) ->
  c_use_grids c = true -> Forall plain_var (c_vars c) ->
  Rabs (out_energy c hist i - Esum (c_vars c) (s_all (spec_run c (hist ++ [EStep i]))) (i_x i))
  <= Bsum (c_vars c) (s_tab (spec_run c (hist ++ [EStep i]))).
Proof.
  intros Hok HH G Hv. rewrite (energy_holds c hist i Hok HH).
  pose proof (geometry_grows c _ Hok HH G) as Hgr.
  destruct (All3_length _ _ _ _ Hgr) as [_ Hl].
  destruct (final_cfg_fixed c (hist ++ [EStep i])) as (Hvs & Hug & _).
  pose proof (last_step_adm c hist i HH) as Ha. unfold adm in Ha. rewrite Hvs, Hug in Ha. specialize (Ha G).
  destruct (All3_length _ _ _ _ Ha) as [_ Hlx].
  destruct (run_inv c _ Hok HH) as [[_ _ _ _ _ _ _ _ _ _ Hcl] _]. rewrite Hug in Hcl.
  apply spec_energy_discretisation; [exact Hv| |symmetry; exact Hl|symmetry; exact Hlx].
  intros h Hin. destruct (Hcl G h ltac:(unfold s_all; apply in_or_app; left; exact Hin)) as [_ Hp]. exact Hp.
Qed.

(* ================================================================== the free-energy file (write_pmf) *)

Lemma all_ix_ok nx : forall ix, In ix (all_ix nx) <-> index_ok nx ix = true.
Proof.
  induction nx as [|n r IH]; intros ix; cbn [all_ix index_ok].
  - split.
    + intros [<-|[]]. reflexivity.
    + destruct ix; [left; reflexivity|discriminate].
  - rewrite in_flat_map. split.
    + intros (i & Hi & Hm). apply in_seq in Hi. apply in_map_iff in Hm. destruct Hm as (t & <- & Ht).
      apply IH in Ht. rewrite Ht, andb_true_r. apply andb_true_intro. split; [apply Z.leb_le|apply Z.ltb_lt]; lia.
    + destruct ix as [|i t]; [discriminate|]. intros H. apply andb_prop in H. destruct H as [H Ht].
      apply andb_prop in H. destruct H as [H0 H1]. apply Z.leb_le in H0. apply Z.ltb_lt in H1.
      exists (Z.to_nat i). split; [apply in_seq; lia|]. apply in_map_iff. exists t. split; [|apply IH; exact Ht].
      f_equal. lia.
Qed.

Lemma fold_max_props {A} (f : A -> R) (l : list A) : forall m0,
  let r := fold_left (fun m a => if Rltb m (f a) then f a else m) l m0 in
  m0 <= r /\ (forall a, In a l -> f a <= r) /\ (r = m0 \/ exists a, In a l /\ r = f a).
Proof.
  induction l as [|a l IH]; intros m0; cbn [fold_left].
  - split; [lra|]. split; [intros a []|left; reflexivity].
  - destruct (IH (if Rltb m0 (f a) then f a else m0)) as (H1 & H2 & H3).
    destruct (Rltb m0 (f a)) eqn:E.
    + apply Rltb_true in E. split; [lra|]. split.
      * intros b [<-|Hb]; [exact H1|apply H2; exact Hb].
      * right. destruct H3 as [H3|(b & Hb & H3)]; [exists a; split; [left; reflexivity|exact H3]|exists b; split; [right; exact Hb|exact H3]].
    + apply Rltb_false in E. split; [exact H1|]. split.
      * intros b [<-|Hb]; [lra|apply H2; exact Hb].
      * destruct H3 as [H3|(b & Hb & H3)]; [left; exact H3|right; exists b; split; [right; exact Hb|exact H3]].
Qed.

(* the value written for bin ix: (M - E(ix)) times the well-tempered factor, M the largest bin of the energy grid,
   E(ix) the sum of the tabulated hills at the centre of the bin *)
Lemma pmf_holds c hist temp ix : cfg_ok c -> history_ok c hist -> c_use_grids c = true ->
  index_ok (gsizes (s_geom (spec_run c hist))) ix = true ->
  let E := fun jx => Esum (c_vars c) (s_tab (spec_run c hist)) (centre Rops (c_vars c) (s_geom (spec_run c hist)) jx) in
  exists M,
    (forall jx, index_ok (gsizes (s_geom (spec_run c hist))) jx = true -> E jx <= M) /\
    (exists jx, index_ok (gsizes (s_geom (spec_run c hist))) jx = true /\ M = E jx) /\
    pmf_value Rops c (final_state Rops c hist) temp ix =
      (M - E ix) * (if c_wt c then (c_bias_temp c + temp) / c_bias_temp c else 1).
Proof.
  intros Hok HH G Hix E.
  destruct (run_inv c hist Hok HH) as [[_ _ _ Hgeom _ He _ _ _ _ _] _].
  destruct (final_cfg_fixed c hist) as (Hvs & _). rewrite Hvs in He.
  set (m := final_state Rops c hist) in *. set (s := spec_run c hist) in *.
  unfold pmf_value, pmf_shift. rewrite Hgeom. set (ixs := all_ix (gsizes (s_geom s))).
  assert (Hin : In ix ixs) by (apply all_ix_ok; exact Hix).
  unfold grid_max. destruct ixs as [|ix0 r] eqn:Ei; [destruct Hin|].
  cbn [nltb Rops].
  pose proof (fold_max_props (st_e m) (ix0 :: r) (st_e m ix0)) as (P1 & P2 & P3). cbv zeta in P1, P2, P3.
  set (M := fold_left (fun m0 a => if Rltb m0 (st_e m a) then st_e m a else m0) (ix0 :: r) (st_e m ix0)) in *.
  assert (Hval : forall jx, In jx (ix0 :: r) -> st_e m jx = E jx).
  { intros jx Hj. apply He. apply all_ix_ok. fold ixs. rewrite Ei. exact Hj. }
  exists M. split; [|split].
  - intros jx Hj. rewrite <- Hval by (rewrite <- Ei; apply all_ix_ok; exact Hj).
    apply P2. rewrite <- Ei. apply all_ix_ok. exact Hj.
  - destruct P3 as [P3|(a & Ha & P3)].
    + exists ix0. split; [apply all_ix_ok; fold ixs; rewrite Ei; left; reflexivity|].
      rewrite P3. apply Hval. left. reflexivity.
    + exists a. split; [apply all_ix_ok; fold ixs; rewrite Ei; exact Ha|]. rewrite P3. apply Hval. exact Ha.
  - rewrite (Hval ix Hin). cbn [nmul nadd nneg ndiv n1 Rops]. destruct (c_wt c); ring.
Qed.
