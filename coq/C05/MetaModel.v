(* Model of the single-replica metadynamics bias of src/colvarbias_meta.cpp
   (update -> update_grid_params, update_bias, update_grid_data, calc_energy, calc_forces;
   add_hill, calc_hills, calc_hills_force, project_hills) on scalar variables.
   Definitions only; generic over the numeric carrier.  The state variables are those of the
   code: the hill list split at new_hills_begin (st_old ++ st_new), hills_off_grid, the energy
   and gradient grids (total functions of the index vector, DESIGN 3.3; only in-range indices
   are ever read -- an out-of-range read of the code is recorded in st_ub), the grid geometry.
   The specification (explicit sums of analytic hills, no grids) is in the second section. *)
From Coq Require Import ZArith List Bool.
From CV Require Import Base.Num C15.GridModel.
Import ListNotations.
Local Open Scope Z_scope.

Section Meta.
  Context {T : Type} (O : NumOps T).

  Record var_cfg := mkVar {
    v_periodic : bool;    (* f_cvc_periodic: dist2 takes the minimum image *)
    v_period : T;
    v_sigma : T;          (* colvar_sigmas[i] *)
    v_width : T;          (* widths[i] of the grids *)
    v_gperiodic : bool;   (* colvar_grid::periodic[i] *)
    v_expand : bool;      (* colvar::expand_boundaries *)
    v_hard_lo : bool;     (* f_cv_hard_lower_boundary *)
    v_hard_up : bool      (* f_cv_hard_upper_boundary *)
  }.

  Record bound := mkBound { b_lower : T; b_upper : T; b_nx : Z }.   (* one dimension of the grids *)

  Record cfg := mkCfg {
    c_vars : list var_cfg;
    c_geom0 : list bound;          (* grid geometry at initialisation *)
    c_weight : T;                  (* hill_weight *)
    c_hill_width : T;              (* hill_width (0 when gaussianSigmas is used) *)
    c_freq : Z;                    (* new_hill_freq *)
    c_gfreq : Z;                   (* grids_freq *)
    c_use_grids : bool;
    c_keep : bool;                 (* keep_hills *)
    c_wt : bool;                   (* well_tempered *)
    c_bias_temp : T;               (* bias_temperature *)
    c_kb : T;                      (* proxy->boltzmann() *)
    c_step_zero : bool             (* f_cvb_step_zero_data *)
  }.

  Record hill := mkHill { h_it : Z; h_W : T; h_c : list T }.

  (* one engine step as seen by the bias *)
  Record step_in := mkIn {
    i_it : Z;          (* cvm::step_absolute() *)
    i_rel : Z;         (* cvm::step_relative() *)
    i_cont : bool;     (* proxy->simulation_continuing() *)
    i_x : list T       (* colvar_values *)
  }.

  (* ---- kernel: calc_hills / calc_hills_force ---- *)

  (* colvar::cvc::dist2 / dist2_lgrad: diff, minus floor(diff/period + 0.5)*period when periodic *)
  Definition vdiff (v : var_cfg) (x c : T) : T :=
    let d := nsub O x c in
    if v_periodic v
    then nsub O d (nmul O (nofZ O (nfloor O (nadd O (ndiv O d (v_period v)) (nhalf O)))) (v_period v))
    else d.

  (* cv_sqdev += dist2(x, center) / (sigma*sigma) *)
  Fixpoint sqdev (vs : list var_cfg) (x c : list T) (acc : T) : T :=
    match vs, x, c with
    | v :: vs', xi :: x', ci :: c' =>
        sqdev vs' x' c' (nadd O acc (ndiv O (nsq O (vdiff v xi ci)) (nmul O (v_sigma v) (v_sigma v))))
    | _, _, _ => acc
    end.

  (* h->value(): 0 if cv_sqdev > 23.0, else exp(-0.5*cv_sqdev) *)
  Definition kval (vs : list var_cfg) (x c : list T) : T :=
    let q := sqdev vs x c (n0 O) in
    if nltb O (nofZ O 23) q then n0 O else nexp O (nmul O (nneg O (nhalf O)) q).

  Definition hweight (h : hill) : T := nmul O (h_W h) (n1 O).            (* W * sW, sW = 1 *)
  Definition henergy (vs : list var_cfg) (x : list T) (h : hill) : T :=   (* W * sW * hill_value *)
    nmul O (hweight h) (kval vs x (h_c h)).

  (* calc_hills: energy += h->energy() over [first, last) *)
  Definition hills_energy (vs : list var_cfg) (x : list T) (hs : list hill) (e0 : T) : T :=
    fold_left (fun e h => nadd O e (henergy vs x h)) hs e0.

  (* weight*value * (0.5/(sigma*sigma)) * dist2_lgrad, one entry per variable *)
  Fixpoint fcomps (vs : list var_cfg) (x c : list T) (wk : T) : list T :=
    match vs, x, c with
    | v :: vs', xi :: x', ci :: c' =>
        nmul O (nmul O wk (ndiv O (nhalf O) (nmul O (v_sigma v) (v_sigma v))))
               (nmul O (nofZ O 2) (vdiff v xi ci)) :: fcomps vs' x' c' wk
    | _, _, _ => []
    end.

  (* calc_hills_force for variable i: hills whose value is 0 are skipped *)
  Definition hforce (vs : list var_cfg) (x : list T) (i : nat) (f : T) (h : hill) : T :=
    let k := kval vs x (h_c h) in
    if neqb O k (n0 O) then f
    else nadd O f (nth i (fcomps vs x (h_c h) (nmul O (hweight h) k)) (n0 O)).
  Definition hills_force (vs : list var_cfg) (x : list T) (i : nat) (hs : list hill) (f0 : T) : T :=
    fold_left (hforce vs x i) hs f0.

  (* ---- grid geometry ---- *)

  Fixpoint centre (vs : list var_cfg) (g : list bound) (ix : list Z) : list T :=
    match vs, g, ix with
    | v :: vs', b :: g', i :: ix' => bin_to_value O (b_lower b) (v_width v) i :: centre vs' g' ix'
    | _, _, _ => []
    end.
  Fixpoint cbins (vs : list var_cfg) (g : list bound) (x : list T) : list Z :=
    match vs, g, x with
    | v :: vs', b :: g', xi :: x' => value_to_bin O (b_lower b) (v_width v) xi :: cbins vs' g' x'
    | _, _, _ => []
    end.
  Definition gsizes (g : list bound) : list Z := map b_nx g.

  (* colvar_grid::bin_distance_from_boundaries(values, skip_hard_boundaries = true) *)
  Fixpoint bin_dist (vs : list var_cfg) (g : list bound) (x : list T) (minimum : T) : T :=
    match vs, g, x with
    | v :: vs', b :: g', xi :: x' =>
        if v_gperiodic v then bin_dist vs' g' x' minimum else
        let dl0 := ndiv O (nsqrt O (nsq O (vdiff v xi (b_lower b)))) (v_width v) in
        let du0 := ndiv O (nsqrt O (nsq O (vdiff v xi (b_upper b)))) (v_width v) in
        let dl := if nltb O xi (b_lower b) then nmul O dl0 (nneg O (n1 O)) else dl0 in
        let du := if nltb O (b_upper b) xi then nmul O du0 (nneg O (n1 O)) else du0 in
        let m1 := if negb (v_hard_lo v) && nltb O dl minimum then dl else minimum in
        let m2 := if negb (v_hard_up v) && nltb O du m1 then du else m1 in
        bin_dist vs' g' x' m2
    | _, _, _ => minimum
    end.

  (* (3.0 * floor(hill_width)) + 1.0 *)
  Definition off_margin (c : cfg) : T :=
    nadd O (nmul O (nofZ O 3) (nofZ O (nfloor O (c_hill_width c)))) (n1 O).
  Definition near_edge (c : cfg) (g : list bound) (x : list T) : bool :=
    nltb O (bin_dist (c_vars c) g x (nofZ O 10000000000000000)) (off_margin c).

  (* ---- state ---- *)

  Record state := mkState {
    st_old : list hill;               (* hills before new_hills_begin *)
    st_new : list hill;               (* hills from new_hills_begin on (not yet projected) *)
    st_off : list hill;               (* hills_off_grid *)
    st_e : list Z -> T;               (* hills_energy *)
    st_g : list Z -> nat -> T;        (* hills_energy_gradients *)
    st_geom : list bound;
    st_ub : bool                      (* an out-of-range grid element has been read *)
  }.

  Definition init_state (c : cfg) : state :=
    mkState [] [] [] (fun _ => n0 O) (fun _ _ => n0 O) (c_geom0 c) false.

  (* ---- update_grid_params: expansion of the grids ---- *)

  Definition min_buffer (c : cfg) : Z := 3 * nfloor O (c_hill_width c) + 1.

  Definition expand_var (c : cfg) (v : var_cfg) (b : bound) (xi : T) : bound :=
    if negb (v_expand v) then b else
    let cb := value_to_bin O (b_lower b) (v_width v) xi in
    let mb := min_buffer c in
    let '(lb1, n1', cb1) :=
      if negb (v_hard_lo v) && (cb <? mb)
      then (nsub O (b_lower b) (nmul O (nofZ O (mb - cb)) (v_width v)), b_nx b + (mb - cb), cb + (mb - cb))
      else (b_lower b, b_nx b, cb) in
    let '(ub2, n2) :=
      if negb (v_hard_up v) && (cb1 >? n1' - mb - 1)
      then (nadd O (b_upper b) (nmul O (nofZ O (cb1 - (n1' - 1) + mb)) (v_width v)), n1' + (cb1 - (n1' - 1) + mb))
      else (b_upper b, n1') in
    mkBound lb1 ub2 n2.

  Fixpoint expand_geom (c : cfg) (vs : list var_cfg) (g : list bound) (x : list T) : list bound :=
    match vs, g, x with
    | v :: vs', b :: g', xi :: x' => expand_var c v b xi :: expand_geom c vs' g' x'
    | _, _, _ => []
    end.

  Fixpoint geom_changed (g g' : list bound) : bool :=
    match g, g' with
    | b :: r, b' :: r' => negb (b_nx b =? b_nx b') || geom_changed r r'
    | _, _ => false
    end.

  (* colvar_grid::map_grid: index of the old grid that holds the centre of bin ix of the new one *)
  Fixpoint remap_ix (vs : list var_cfg) (gnew gold : list bound) (ix : list Z) : list Z :=
    match vs, gnew, gold, ix with
    | v :: vs', bn :: gn', bo :: go', i :: ix' =>
        value_to_bin O (b_lower bo) (v_width v) (bin_to_value O (b_lower bn) (v_width v) i)
          :: remap_ix vs' gn' go' ix'
    | _, _, _, _ => []
    end.

  Definition update_grid_params (c : cfg) (s : state) (i : step_in) : state :=
    if c_use_grids c && existsb v_expand (c_vars c) then
      let g' := expand_geom c (c_vars c) (st_geom s) (i_x i) in
      if geom_changed (st_geom s) g' then
        let gold := st_geom s in
        let eold := st_e s in
        let gradold := st_g s in
        mkState (st_old s) (st_new s) (st_off s)
          (fun ix => let oix := remap_ix (c_vars c) g' gold ix in
                     if index_ok (gsizes gold) oix then eold oix else n0 O)
          (fun ix k => let oix := remap_ix (c_vars c) g' gold ix in
                       if index_ok (gsizes gold) oix then gradold oix k else n0 O)
          g' (st_ub s)
      else s
    else s.

  (* ---- update_bias: deposition ---- *)

  (* colvarbias::can_accumulate_data *)
  Definition can_accumulate (c : cfg) (i : step_in) : bool :=
    ((0 <? i_rel i) && negb (i_cont i)) || c_step_zero c.

  Definition deposit_now (c : cfg) (i : step_in) : bool :=
    (i_it i mod c_freq c =? 0) && can_accumulate c i && (0 <? c_freq c).

  (* hills_energy_sum_here of the well-tempered branch, and whether the read was out of range *)
  Definition wt_energy_here (c : cfg) (s : state) (x : list T) : T * bool :=
    if c_use_grids c then
      let ix := cbins (c_vars c) (st_geom s) x in
      if index_ok (gsizes (st_geom s)) ix then (st_e s ix, false) else (n0 O, true)
    else (hills_energy (c_vars c) x (st_new s) (n0 O), false).

  Definition wt_scale (c : cfg) (v : T) : T :=
    nmul O (n1 O) (nexp O (ndiv O (nmul O (nneg O (n1 O)) v) (nmul O (c_bias_temp c) (c_kb c)))).

  Definition update_bias (c : cfg) (s : state) (i : step_in) : state :=
    if deposit_now c i then
      let '(scale, ub) :=
        if c_wt c then (let '(v, ub) := wt_energy_here c s (i_x i) in (wt_scale c v, ub))
        else (n1 O, false) in
      let h := mkHill (i_it i) (nmul O (c_weight c) scale) (i_x i) in
      (* add_hill *)
      mkState (st_old s) (st_new s ++ [h])
              (if c_use_grids c && near_edge c (st_geom s) (i_x i) then st_off s ++ [h] else st_off s)
              (st_e s) (st_g s) (st_geom s) (st_ub s || ub)
    else s.

  (* ---- update_grid_data: project_hills(new_hills_begin, end) every grids_freq steps ---- *)

  Definition project (c : cfg) (s : state) : state :=
    let batch := st_new s in
    let g := st_geom s in
    let eold := st_e s in
    let gradold := st_g s in
    mkState (if c_keep c then st_old s ++ st_new s else []) [] (st_off s)
      (fun ix => nadd O (eold ix) (hills_energy (c_vars c) (centre (c_vars c) g ix) batch (n0 O)))
      (fun ix k => nsub O (gradold ix k) (hills_force (c_vars c) (centre (c_vars c) g ix) k batch (n0 O)))
      g (st_ub s).

  Definition update_grid_data (c : cfg) (s : state) (i : step_in) : state :=
    if i_it i mod c_gfreq c =? 0 then project c s else s.

  (* ---- calc_energy / calc_forces ---- *)

  Definition inside (c : cfg) (s : state) (x : list T) : bool :=
    c_use_grids c && index_ok (gsizes (st_geom s)) (cbins (c_vars c) (st_geom s) x).

  Definition calc_energy (c : cfg) (s : state) (x : list T) : T :=
    let e0 := if inside c s x
              then nadd O (n0 O) (st_e s (cbins (c_vars c) (st_geom s) x))
              else hills_energy (c_vars c) x (st_off s) (n0 O) in
    hills_energy (c_vars c) x (st_new s) e0.

  Definition calc_force (c : cfg) (s : state) (x : list T) (k : nat) : T :=
    let f0 := if inside c s x
              then nadd O (n0 O) (nmul O (nneg O (n1 O)) (st_g s (cbins (c_vars c) (st_geom s) x) k))
              else hills_force (c_vars c) x k (st_off s) (n0 O) in
    hills_force (c_vars c) x k (st_new s) f0.

  Definition calc_forces (c : cfg) (s : state) (x : list T) : list T :=
    map (calc_force c s x) (seq 0 (length (c_vars c))).

  (* ---- colvarbias_meta::update ---- *)

  Definition step_state (c : cfg) (s : state) (i : step_in) : state :=
    let s1 := update_grid_params c s i in
    let s2 := update_bias c s1 i in
    if c_use_grids c then update_grid_data c s2 i else s2.

  Definition step (c : cfg) (s : state) (i : step_in) : state * (T * list T) :=
    let s' := step_state c s i in
    (s', (calc_energy c s' (i_x i), calc_forces c s' (i_x i))).

  Definition final_state (c : cfg) (hist : list step_in) : state :=
    fold_left (step_state c) hist (init_state c).

  (* observers used by the correspondence driver *)
  Definition grid_energy_at (s : state) (ix : list Z) : T := st_e s ix.
  Definition grid_gradient_at (s : state) (ix : list Z) (k : nat) : T := st_g s ix k.
End Meta.
