(* Model of the single-replica metadynamics bias of src/colvarbias_meta.cpp
   (update -> update_grid_params, update_bias, update_grid_data, calc_energy, calc_forces;
   add_hill, calc_hills, calc_hills_force, project_hills, hill_width_bins; the projection done by
   write_state_data) on scalar variables (periodic or not, with grids) and on 3-vector / unit-vector
   variables (without grids).  Definitions only; generic over the numeric carrier.
   The state variables are those of the code: the hill list split at new_hills_begin
   (st_old ++ st_new), hills_off_grid split at new_hills_off_grid_begin (st_off_old ++ st_off_new),
   the energy and gradient grids (total functions of the index vector, DESIGN 3.3; only in-range
   indices are ever read), the grid geometry.
   The value of a variable is the list of its components (one for a scalar, three for a vector).
   The specification (explicit sums of analytic hills, no grids) is in MetaProofs.v. *)
From Coq Require Import ZArith List Bool.
From CV Require Import Base.Num C15.GridModel.
Import ListNotations.
Local Open Scope Z_scope.

Inductive vkind := KScalar | KVec3 | KUnit3 | KQuat | KVecN (n : nat).   (* KVecN n: colvarvalue::type_vector with n entries *)

Section Meta.
  Context {T : Type} (O : NumOps T).

  Record var_cfg := mkVar {
    v_kind : vkind;       (* colvarvalue type of the variable: scalar, 3vector (distanceVec), unit3vector (distanceDir) *)
    v_periodic : bool;    (* f_cvc_periodic: dist2 takes the minimum image (scalars) *)
    v_period : T;
    v_width : T;          (* widths[i] of the grids = colvar::width *)
    v_gperiodic : bool;   (* colvar_grid::periodic[i] *)
    v_expand : bool;      (* colvar::expand_boundaries *)
    v_hard_lo : bool;     (* f_cv_hard_lower_boundary *)
    v_hard_up : bool      (* f_cv_hard_upper_boundary *)
  }.

  Record bound := mkBound { b_lower : T; b_upper : T; b_nx : Z }.   (* one dimension of the grids *)

  Record cfg := mkCfg {
    c_vars : list var_cfg;
    c_geom0 : list bound;          (* grid geometry at initialisation *)
    c_sigmas : list T;             (* colvar_sigmas: the widths given to the hills added from now on *)
    c_weight : T;                  (* hill_weight *)
    c_hill_width : T;              (* hill_width (0 when gaussianSigmas is used) *)
    c_freq : Z;                    (* new_hill_freq *)
    c_gfreq : Z;                   (* grids_freq *)
    c_use_grids : bool;
    c_keep : bool;                 (* keep_hills *)
    c_wt : bool;                   (* well_tempered *)
    c_bias_temp : T;               (* bias_temperature *)
    c_kb : T;                      (* proxy->boltzmann() *)
    c_step_zero : bool;            (* f_cvb_step_zero_data *)
    c_eb : bool;                   (* ebmeta *)
    c_eb_equil : Z;                (* ebmeta_equil_steps *)
    c_eb_target : list Z -> T      (* target_dist (after normalisation at initialisation), by bin index; same
                                      boundaries as the variables (c_geom0): ebMeta excludes expandBoundaries *)
  }.

  Local Notation value := (list T).      (* components of one variable *)
  (* a hill keeps the widths it was created with (hill::sigmas; they are written to and read from the state) *)
  Record hill := mkHill { h_it : Z; h_W : T; h_c : list value; h_s : list T }.

  (* what a run that continues from a state may configure differently: gaussianSigmas / hillWidth, hillWeight,
     newHillFrequency *)
  Record params := mkPar { p_sigmas : list T; p_hill_width : T; p_weight : T; p_freq : Z;
                           p_gfreq : Z; p_wt : bool; p_bias_temp : T;
                           p_keep : bool   (* keepHills may be switched OFF for the run that follows (on only if it was on) *) }.

  (* one engine step as seen by the bias *)
  Record step_in := mkIn {
    i_it : Z;          (* cvm::step_absolute() *)
    i_rel : Z;         (* cvm::step_relative() *)
    i_cont : bool;     (* proxy->simulation_continuing() *)
    i_x : list value   (* colvar_values *)
  }.

  (* what happens to the bias: a step of the engine; the state being written (end of a run, restart
     frequency); a restart: the state is written and read by a fresh instance with the same configuration,
     except, with [Some g], for new grid boundaries g and rebinGrids on; a reload: the state is written and read
     back by the same instance, which already holds hills; a reconfiguration: a restart after which the job goes on
     with other hill widths, weight or frequency *)
  Inductive event := EStep (i : step_in) | ESave | ERestart (rebin : option (list bound)) | EReload
                   | EReconf (p : params).

  (* ---- metric of one variable: colvar::dist2 / dist2_lgrad ---- *)

  Definition sc (x : value) : T := match x with a :: _ => a | [] => n0 O end.
  Definition comp (x : value) (k : nat) : T := nth k x (n0 O).

  (* colvar::cvc::dist2 / dist2_lgrad: diff, minus floor(diff/period + 0.5)*period when periodic *)
  Definition vdiff (v : var_cfg) (x c : T) : T :=
    let d := nsub O x c in
    if v_periodic v
    then nsub O d (nmul O (nofZ O (nfloor O (nadd O (ndiv O d (v_period v)) (nhalf O)))) (v_period v))
    else d.

  Definition dot3 (a b : value) : T :=
    nadd O (nadd O (nmul O (comp a 0) (comp b 0)) (nmul O (comp a 1) (comp b 1))) (nmul O (comp a 2) (comp b 2)).
  Definition sub3 (a b : value) : value :=
    [nsub O (comp a 0) (comp b 0); nsub O (comp a 1) (comp b 1); nsub O (comp a 2) (comp b 2)].
  Definition scale3 (s : T) (a : value) : value := [nmul O s (comp a 0); nmul O s (comp a 1); nmul O s (comp a 2)].
  Definition clamp1 (c : T) : T :=
    if nltb O (n1 O) c then n1 O else if nltb O c (nneg O (n1 O)) then nneg O (n1 O) else c.
  Definition dot4 (a b : value) : T :=
    nadd O (nadd O (nadd O (nmul O (comp a 0) (comp b 0)) (nmul O (comp a 1) (comp b 1))) (nmul O (comp a 2) (comp b 2)))
           (nmul O (comp a 3) (comp b 3)).
  Definition mpi : T := nacos O (nneg O (n1 O)).       (* PI *)
  Definition tiny14 : T := ndiv O (n1 O) (nofZ O 100000000000000).
  Definition tiny28 : T := ndiv O (n1 O) (nmul O (nofZ O 100000000000000) (nofZ O 100000000000000)).

  (* vector1d: (x - c).norm2(), accumulated from 0 in the order of the entries; 2.0 * (x - c) *)
  Definition sqsumN (n : nat) (x c : value) : T :=
    fold_left (fun acc k => nadd O acc (nmul O (nsub O (comp x k) (comp c k)) (nsub O (comp x k) (comp c k)))) (seq 0 n) (n0 O).
  Definition lgradN (n : nat) (x c : value) : value :=
    map (fun k => nmul O (nofZ O 2) (nsub O (comp x k) (comp c k))) (seq 0 n).

  (* dist2(x, center) *)
  Definition vdist2 (v : var_cfg) (x c : value) : T :=
    match v_kind v with
    | KVecN n => sqsumN n x c
    | KScalar => nsq O (vdiff v (sc x) (sc c))
    | KVec3 => let d := sub3 c x in dot3 d d                      (* distance_vec::dist2: |x2 - x1|^2 *)
    | KUnit3 => let th := nacos O (clamp1 (dot3 x c)) in nmul O th th   (* colvarvalue::dist2, unit3vector *)
    | KQuat =>                                                       (* cvm::quaternion::dist2: q and -q are the same *)
        let co := dot4 x c in
        let om := nacos O (clamp1 co) in
        if nltb O (n0 O) co then nmul O om om else nmul O (nsub O mpi om) (nsub O mpi om)
    end.

  (* dist2_lgrad(x, center): derivative with respect to x, one entry per component *)
  Definition vlgrad (v : var_cfg) (x c : value) : value :=
    match v_kind v with
    | KVecN n => lgradN n x c
    | KScalar => [nmul O (nofZ O 2) (vdiff v (sc x) (sc c))]
    | KVec3 => scale3 (nofZ O 2) (sub3 x c)                        (* 2 * position_distance(x2, x1) *)
    | KUnit3 =>
        let co := dot3 x c in
        let s2 := nsub O (n1 O) (nmul O co co) in
        (* coincident or exactly opposite vectors (sin^2 < 1e-28): the null vector, as colvarvalue::dist2_grad returns
           since the repair of the infinite force between opposite unit vectors (C18) *)
        if nltb O s2 tiny28 then [n0 O; n0 O; n0 O]
        else scale3 (ndiv O (nmul O (nmul O (nofZ O 2) (nacos O co)) (nneg O (n1 O))) (nsqrt O s2)) c
    | KQuat =>                                                       (* cvm::quaternion::dist2_grad *)
        let co := dot4 x c in
        let om := nacos O (clamp1 co) in
        let so := nsin O om in
        if nltb O (nabs O so) tiny14 then [n0 O; n0 O; n0 O; n0 O]
        else
          let g k := nadd O (nmul O (nmul O (nneg O (n1 O)) so) (comp c k))
                            (ndiv O (nmul O co (nsub O (comp x k) (nmul O co (comp c k)))) so) in
          let f := if nltb O (n0 O) co then nmul O (nofZ O 2) om
                   else nmul O (nneg O (nofZ O 2)) (nsub O mpi om) in
          [nmul O f (g 0%nat); nmul O f (g 1%nat); nmul O f (g 2%nat); nmul O f (g 3%nat)]
    end.

  (* ---- kernel: calc_hills / calc_hills_force ---- *)

  (* cv_sqdev += dist2(x, center) / (sigma*sigma) *)
  Fixpoint sqdev (vs : list var_cfg) (sg : list T) (x c : list value) (acc : T) : T :=
    match vs, sg, x, c with
    | v :: vs', si :: sg', xi :: x', ci :: c' =>
        sqdev vs' sg' x' c' (nadd O acc (ndiv O (vdist2 v xi ci) (nmul O si si)))
    | _, _, _, _ => acc
    end.

  (* h->value(): 0 if cv_sqdev > 23.0, else exp(-0.5*cv_sqdev) *)
  Definition kval (vs : list var_cfg) (sg : list T) (x c : list value) : T :=
    let q := sqdev vs sg x c (n0 O) in
    if nltb O (nofZ O 23) q then n0 O else nexp O (nmul O (nneg O (nhalf O)) q).

  Definition hweight (h : hill) : T := nmul O (h_W h) (n1 O).            (* W * sW, sW = 1 *)
  Definition henergy (vs : list var_cfg) (x : list value) (h : hill) : T :=   (* W * sW * hill_value *)
    nmul O (hweight h) (kval vs (h_s h) x (h_c h)).

  (* calc_hills: energy += h->energy() over [first, last) *)
  Definition hills_energy (vs : list var_cfg) (x : list value) (hs : list hill) (e0 : T) : T :=
    fold_left (fun e h => nadd O e (henergy vs x h)) hs e0.

  (* weight*value * (0.5/(sigma*sigma)) * dist2_lgrad, for variable i *)
  Definition fterm (vs : list var_cfg) (sg : list T) (x c : list value) (wk : T) (i : nat) : value :=
    match nth_error vs i, nth_error sg i, nth_error x i, nth_error c i with
    | Some v, Some si, Some xi, Some ci =>
        map (nmul O (nmul O wk (ndiv O (nhalf O) (nmul O si si)))) (vlgrad v xi ci)
    | _, _, _, _ => []
    end.

  Fixpoint vadd (a b : value) : value :=
    match a, b with
    | p :: a', q :: b' => nadd O p q :: vadd a' b'
    | _, _ => a
    end.

  (* calc_hills_force for variable i: hills whose value is 0 are skipped *)
  Definition hforce (vs : list var_cfg) (x : list value) (i : nat) (f : value) (h : hill) : value :=
    let k := kval vs (h_s h) x (h_c h) in
    if neqb O k (n0 O) then f
    else vadd f (fterm vs (h_s h) x (h_c h) (nmul O (hweight h) k) i).
  Definition hills_force (vs : list var_cfg) (x : list value) (i : nat) (hs : list hill) (f0 : value) : value :=
    fold_left (hforce vs x i) hs f0.

  (* colvar_forces[i].reset(): zero, with the number of components of the variable *)
  Definition vzero (v : var_cfg) : value :=
    match v_kind v with KScalar => [n0 O] | KQuat => [n0 O; n0 O; n0 O; n0 O] | KVecN n => repeat (n0 O) n
                   | _ => [n0 O; n0 O; n0 O] end.
  Definition fzero (vs : list var_cfg) (i : nat) : value :=
    match nth_error vs i with Some v => vzero v | None => [] end.

  (* ---- grid geometry (scalar variables) ---- *)

  Definition scalars (x : list value) : list T := map sc x.

  Fixpoint centre (vs : list var_cfg) (g : list bound) (ix : list Z) : list value :=
    match vs, g, ix with
    | v :: vs', b :: g', i :: ix' => [bin_to_value O (b_lower b) (v_width v) i] :: centre vs' g' ix'
    | _, _, _ => []
    end.
  (* get_colvars_index: no wrapping *)
  Fixpoint cbins (vs : list var_cfg) (g : list bound) (x : list value) : list Z :=
    match vs, g, x with
    | v :: vs', b :: g', xi :: x' => value_to_bin O (b_lower b) (v_width v) (sc xi) :: cbins vs' g' x'
    | _, _, _ => []
    end.
  (* wrap_detect_edge: periodic dimensions are wrapped, ((ix % nx) + nx) % nx with the C++ remainder *)
  Fixpoint wrapix (vs : list var_cfg) (g : list bound) (ix : list Z) : list Z :=
    match vs, g, ix with
    | v :: vs', b :: g', i :: ix' =>
        (if v_gperiodic v then Z.rem (Z.rem i (b_nx b) + b_nx b) (b_nx b) else i) :: wrapix vs' g' ix'
    | _, _, _ => []
    end.
  (* the index used by calc_energy, calc_forces and the well-tempered factor *)
  Definition gbins (vs : list var_cfg) (g : list bound) (x : list value) : list Z :=
    wrapix vs g (cbins vs g x).
  Definition gsizes (g : list bound) : list Z := map b_nx g.

  (* colvar_grid::bin_distance_from_boundaries(values, skip_hard_boundaries = true) *)
  Fixpoint bin_dist (vs : list var_cfg) (g : list bound) (x : list value) (minimum : T) : T :=
    match vs, g, x with
    | v :: vs', b :: g', xv :: x' =>
        if v_gperiodic v then bin_dist vs' g' x' minimum else
        let xi := sc xv in
        let dl0 := ndiv O (nsqrt O (nsq O (vdiff v xi (b_lower b)))) (v_width v) in
        let du0 := ndiv O (nsqrt O (nsq O (vdiff v xi (b_upper b)))) (v_width v) in
        let dl := if nltb O xi (b_lower b) then nmul O dl0 (nneg O (n1 O)) else dl0 in
        let du := if nltb O (b_upper b) xi then nmul O du0 (nneg O (n1 O)) else du0 in
        let m1 := if negb (v_hard_lo v) && nltb O dl minimum then dl else minimum in
        let m2 := if negb (v_hard_up v) && nltb O du m1 then du else m1 in
        bin_dist vs' g' x' m2
    | _, _, _ => minimum
    end.

  (* hill_width_bins(): hill_width, or the largest 2*sigma/width when gaussianSigmas is used *)
  (* the largest 2*sigma_i/width_i *)
  Fixpoint hwb_max (vs : list var_cfg) (sg : list T) (w : T) : T :=
    match vs, sg with
    | v :: vs', si :: sg' =>
        let wi := ndiv O (nmul O (nofZ O 2) si) (v_width v) in
        hwb_max vs' sg' (if nltb O w wi then wi else w)
    | _, _ => w
    end.
  Definition hw_bins (c : cfg) : T :=
    if nltb O (n0 O) (c_hill_width c) then c_hill_width c
    else hwb_max (c_vars c) (c_sigmas c) (c_hill_width c).
  (* hill_width_bins(h): the width of one hill, from its own sigmas *)
  Definition hw_bins_h (c : cfg) (sg : list T) : T := hwb_max (c_vars c) sg (n0 O).

  (* (3.0 * hill_width_bins(h)) + 1.0: the margin within which hill h is kept in hills_off_grid *)
  Definition off_margin (c : cfg) (sg : list T) : T := nadd O (nmul O (nofZ O 3) (hw_bins_h c sg)) (n1 O).
  Definition near_edge (c : cfg) (g : list bound) (sg : list T) (x : list value) : bool :=
    nltb O (bin_dist (c_vars c) g x (nofZ O 10000000000000000)) (off_margin c sg).

  Definition near_hill (c : cfg) (g : list bound) (h : hill) : bool := near_edge c g (h_s h) (h_c h).

  (* ---- state ---- *)

  Record state := mkState {
    st_old : list hill;               (* hills before new_hills_begin *)
    st_new : list hill;               (* hills from new_hills_begin on (not yet projected) *)
    st_off_old : list hill;           (* hills_off_grid before new_hills_off_grid_begin *)
    st_off_new : list hill;           (* hills_off_grid from new_hills_off_grid_begin on *)
    st_e : list Z -> T;               (* hills_energy *)
    st_g : list Z -> nat -> T;        (* hills_energy_gradients *)
    st_geom : list bound;
    st_traj : list hill               (* hills_traj_os_buf (writeHillsTrajectory): one record per add_hill *)
  }.

  Definition init_state (c : cfg) : state :=
    mkState [] [] [] [] (fun _ => n0 O) (fun _ _ => n0 O) (c_geom0 c) [].

  (* ---- update_grid_params: expansion of the grids ---- *)

  (* ((int) floor(3.0 * hill_width_bins())) + 1 *)
  Definition min_buffer (c : cfg) : Z := nfloor O (nmul O (nofZ O 3) (hw_bins c)) + 1.

  Definition expand_var (c : cfg) (v : var_cfg) (b : bound) (xi : T) : bound :=
    if negb (v_expand v) then b else
    let cb := value_to_bin O (b_lower b) (v_width v) xi in
    let mb := min_buffer c in
    let '(lb1, n1', cb1) :=
      if negb (v_hard_lo v) && (cb <? mb)
      then (nsub O (b_lower b) (nmul O (nofZ O (mb - cb)) (v_width v)), b_nx b + (mb - cb), cb + (mb - cb))
      else (b_lower b, b_nx b, cb) in
    let '(ub2, n2) :=
      if negb (v_hard_up v) && (cb1 >? n1' - mb - 1)
      then (nadd O (b_upper b) (nmul O (nofZ O (cb1 - (n1' - 1) + mb)) (v_width v)), n1' + (cb1 - (n1' - 1) + mb))
      else (b_upper b, n1') in
    mkBound lb1 ub2 n2.

  Fixpoint expand_geom (c : cfg) (vs : list var_cfg) (g : list bound) (x : list value) : list bound :=
    match vs, g, x with
    | v :: vs', b :: g', xi :: x' => expand_var c v b (sc xi) :: expand_geom c vs' g' x'
    | _, _, _ => []
    end.

  Fixpoint geom_changed (g g' : list bound) : bool :=
    match g, g' with
    | b :: r, b' :: r' => negb (b_nx b =? b_nx b') || geom_changed r r'
    | _, _ => false
    end.

  (* colvar_grid::map_grid: index of the old grid that holds the centre of bin ix of the new one *)
  Fixpoint remap_ix (vs : list var_cfg) (gnew gold : list bound) (ix : list Z) : list Z :=
    match vs, gnew, gold, ix with
    | v :: vs', bn :: gn', bo :: go', i :: ix' =>
        value_to_bin O (b_lower bo) (v_width v) (bin_to_value O (b_lower bn) (v_width v) i)
          :: remap_ix vs' gn' go' ix'
    | _, _, _, _ => []
    end.

  Definition update_grid_params (c : cfg) (s : state) (x : list value) : state :=
    if c_use_grids c && existsb v_expand (c_vars c) then
      let g' := expand_geom c (c_vars c) (st_geom s) x in
      if geom_changed (st_geom s) g' then
        let gold := st_geom s in
        let eold := st_e s in
        let gradold := st_g s in
        (* after the expansion the hills no longer within the margin of the edges leave hills_off_grid *)
        mkState (st_old s) (st_new s) (filter (near_hill c g') (st_off_old s)) (filter (near_hill c g') (st_off_new s))
          (fun ix => let oix := remap_ix (c_vars c) g' gold ix in
                     if index_ok (gsizes gold) oix then eold oix else n0 O)
          (fun ix k => let oix := remap_ix (c_vars c) g' gold ix in
                       if index_ok (gsizes gold) oix then gradold oix k else n0 O)
          g' (st_traj s)
      else s
    else s.

  (* ---- calc_energy / calc_forces ---- *)

  Definition inside (c : cfg) (s : state) (x : list value) : bool :=
    c_use_grids c && index_ok (gsizes (st_geom s)) (gbins (c_vars c) (st_geom s) x).

  (* grid at the (wrapped) current bin when it is on the grid, else the projected hills near the edges;
     plus the hills not yet projected *)
  Definition calc_energy (c : cfg) (s : state) (x : list value) : T :=
    let e0 := if inside c s x
              then nadd O (n0 O) (st_e s (gbins (c_vars c) (st_geom s) x))
              else hills_energy (c_vars c) x (st_off_old s) (n0 O) in
    hills_energy (c_vars c) x (st_new s) e0.

  Definition calc_force (c : cfg) (s : state) (x : list value) (k : nat) : value :=
    let f0 := if inside c s x
              then [nadd O (n0 O) (nmul O (nneg O (n1 O)) (st_g s (gbins (c_vars c) (st_geom s) x) k))]
              else hills_force (c_vars c) x k (st_off_old s) (fzero (c_vars c) k) in
    hills_force (c_vars c) x k (st_new s) f0.

  Definition calc_forces (c : cfg) (s : state) (x : list value) : list value :=
    map (calc_force c s x) (seq 0 (length (c_vars c))).

  (* ---- update_bias: deposition ---- *)

  (* colvarbias::can_accumulate_data *)
  Definition can_accumulate (c : cfg) (i : step_in) : bool :=
    ((0 <? i_rel i) && negb (i_cont i)) || c_step_zero c.

  Definition deposit_now (c : cfg) (i : step_in) : bool :=
    (i_it i mod c_freq c =? 0) && can_accumulate c i && (0 <? c_freq c).

  (* hills_energy_sum_here of the well-tempered branch: the same sum as calc_energy *)
  Definition wt_energy_here (c : cfg) (s : state) (x : list value) : T := calc_energy c s x.

  (* wrap_to_edge: periodic dimensions are wrapped, the others brought back to the closest edge bin *)
  Fixpoint edgeix (vs : list var_cfg) (g : list bound) (ix : list Z) : list Z :=
    match vs, g, ix with
    | v :: vs', b :: g', i :: ix' =>
        (if v_gperiodic v then Z.rem (Z.rem i (b_nx b) + b_nx b) (b_nx b)
         else if i <? 0 then 0 else if i >=? b_nx b then b_nx b - 1 else i) :: edgeix vs' g' ix'
    | _, _, _ => []
    end.
  (* the bin of the target distribution of ebMeta at x *)
  Definition tbins (c : cfg) (x : list value) : list Z :=
    edgeix (c_vars c) (c_geom0 c) (cbins (c_vars c) (c_geom0 c) x).

  (* ebMeta: hills_scale *= 1/target_dist(current bin), ramped in during the first ebmeta_equil_steps steps
     (hills_lambda = (equil - step)/equil; hills_scale = lambda + (1-lambda)*hills_scale) *)
  Definition eb_scale (c : cfg) (i : step_in) : T :=
    if c_eb c then
      let r := nmul O (n1 O) (ndiv O (n1 O) (c_eb_target c (tbins c (i_x i)))) in
      if i_it i <? c_eb_equil c then
        let lam := ndiv O (nofZ O (c_eb_equil c - i_it i)) (nofZ O (c_eb_equil c)) in
        nadd O lam (nmul O (nsub O (n1 O) lam) r)
      else r
    else n1 O.

  Definition update_bias (c : cfg) (s : state) (i : step_in) : state :=
    if deposit_now c i then
      let s1 := eb_scale c i in
      let scale := if c_wt c
                   then nmul O s1 (nexp O (ndiv O (nmul O (nneg O (n1 O)) (wt_energy_here c s (i_x i)))
                                               (nmul O (c_bias_temp c) (c_kb c))))
                   else s1 in
      let h := mkHill (i_it i) (nmul O (c_weight c) scale) (i_x i) (c_sigmas c) in
      (* add_hill *)
      mkState (st_old s) (st_new s ++ [h]) (st_off_old s)
              (if c_use_grids c && near_hill c (st_geom s) h then st_off_new s ++ [h] else st_off_new s)
              (st_e s) (st_g s) (st_geom s) (st_traj s ++ [h])
    else s.

  (* ---- add_hill, as a function of its own: used for the hills received from the other replicas, which are added to
     the mirror object of their replica (read_replica_files -> read_hill -> push_back + the test on the margin) ---- *)
  Definition add_hill (c : cfg) (s : state) (h : hill) : state :=
    mkState (st_old s) (st_new s ++ [h]) (st_off_old s)
            (if c_use_grids c && near_hill c (st_geom s) h then st_off_new s ++ [h] else st_off_new s)
            (st_e s) (st_g s) (st_geom s) (st_traj s ++ [h]).

  (* ---- update_grid_data: project_hills(new_hills_begin, end) every grids_freq steps ---- *)

  Definition project (c : cfg) (s : state) : state :=
    let batch := st_new s in
    let g := st_geom s in
    let eold := st_e s in
    let gradold := st_g s in
    mkState (if c_keep c then st_old s ++ st_new s else []) [] (st_off_old s ++ st_off_new s) []
      (fun ix => nadd O (eold ix) (hills_energy (c_vars c) (centre (c_vars c) g ix) batch (n0 O)))
      (fun ix k => nsub O (gradold ix k) (sc (hills_force (c_vars c) (centre (c_vars c) g ix) k batch [n0 O])))
      g (st_traj s).

  Definition update_grid_data (c : cfg) (s : state) (i : step_in) : state :=
    if i_it i mod c_gfreq c =? 0 then project c s else s.

  (* ---- multiple replicas: the mirror object of another replica holds the hills received from it (MAdd) and is
     projected onto its own grids, of the same geometry, when those of this replica are (MProj, update_grid_data);
     calc_energy / calc_forces sum over this replica and the mirrors ---- *)
  Inductive mirror_event := MAdd (h : hill) | MProj.
  Definition mirror_apply (c : cfg) (s : state) (e : mirror_event) : state :=
    match e with MAdd h => add_hill c s h | MProj => if c_use_grids c then project c s else s end.

  (* ---- colvarbias_meta::update ---- *)

  Definition total_energy (c : cfg) (own : state) (mirrors : list state) (x : list value) : T :=
    fold_left (fun acc m => nadd O acc (calc_energy c m x)) mirrors (calc_energy c own x).
  Definition total_force (c : cfg) (own : state) (mirrors : list state) (x : list value) (k j : nat) : T :=
    fold_left (fun acc m => nadd O acc (nth j (calc_force c m x k) (n0 O))) mirrors (nth j (calc_force c own x k) (n0 O)).

  Definition step_state (c : cfg) (s : state) (i : step_in) : state :=
    let s1 := update_grid_params c s (i_x i) in
    let s2 := update_bias c s1 i in
    if c_use_grids c then update_grid_data c s2 i else s2.

  Definition step (c : cfg) (s : state) (i : step_in) : state * (T * list value) :=
    let s' := step_state c s i in
    (s', (calc_energy c s' (i_x i), calc_forces c s' (i_x i))).

  (* write_state_data: with grids the hills not yet projected are projected before the grids are written *)
  Definition save_state (c : cfg) (s : state) : state := if c_use_grids c then project c s else s.

  (* ---- restart: write_state_data, then read_state_data in a fresh instance ---- *)

  (* the hills written to the state: all of them without grids or with keepHills, else hills_off_grid *)
  Definition state_hills (c : cfg) (s : state) : list hill :=
    if negb (c_use_grids c) || c_keep c then st_old s ++ st_new s else st_off_old s ++ st_off_new s.

  (* read_state_data: the grids (with their geometry) are those of the file; every hill of the file is
     appended to hills and, when near the edges of the grid just read, to hills_off_grid; new_hills_begin is
     the end of the list with grids (the hills are on the grids) and its beginning without *)
  Definition read_state (c : cfg) (s : state) : state :=
    let hs := state_hills c s in
    if c_use_grids c
    then mkState hs [] (filter (near_hill c (st_geom s)) hs) [] (st_e s) (st_g s) (st_geom s) []
    else mkState [] hs [] [] (st_e s) (st_g s) (st_geom s) [].

  (* rebin_grids_after_restart with the boundaries g' of the new configuration: from the kept hills when the
     state was written with keepHills and holds hills (project_hills onto empty grids), else from the grids of
     the state (map_grid); then recount_hills_off_grid when there are hills *)
  Definition rebin_state (c : cfg) (s : state) (g' : list bound) : state :=
    if c_use_grids c then
      let hs := st_old s in
      let from_hills := c_keep c && match hs with [] => false | _ => true end in
      let gold := st_geom s in
      let eold := st_e s in
      let gradold := st_g s in
      mkState hs [] (match hs with [] => st_off_old s | _ => filter (near_hill c g') hs end) []
        (if from_hills
         then (fun ix => nadd O (n0 O) (hills_energy (c_vars c) (centre (c_vars c) g' ix) hs (n0 O)))
         else (fun ix => let oix := remap_ix (c_vars c) g' gold ix in
                         if index_ok (gsizes gold) oix then eold oix else n0 O))
        (if from_hills
         then (fun ix k => nsub O (n0 O) (sc (hills_force (c_vars c) (centre (c_vars c) g' ix) k hs [n0 O])))
         else (fun ix k => let oix := remap_ix (c_vars c) g' gold ix in
                           if index_ok (gsizes gold) oix then gradold oix k else n0 O))
        g' (st_traj s)
    else s.

  Definition restart_state (c : cfg) (s : state) (rebin : option (list bound)) : state :=
    let s1 := read_state c (save_state c s) in
    match rebin with None => s1 | Some g' => rebin_state c s1 g' end.

  (* the state read by the instance that wrote it: the hills and off-grid hills in memory are pruned, those of the
     file take their place; the hills trajectory buffer of the instance is untouched *)
  Definition reload_state (c : cfg) (s : state) : state :=
    let s1 := read_state c (save_state c s) in
    mkState (st_old s1) (st_new s1) (st_off_old s1) (st_off_new s1) (st_e s1) (st_g s1) (st_geom s1) (st_traj s).

  (* the configuration of the run that follows an event *)
  Definition with_par (c : cfg) (p : params) : cfg :=
    mkCfg (c_vars c) (c_geom0 c) (p_sigmas p) (p_weight p) (p_hill_width p) (p_freq p) (p_gfreq p) (c_use_grids c)
          (c_keep c && p_keep p) (p_wt p) (p_bias_temp p) (c_kb c) (c_step_zero c) (c_eb c) (c_eb_equil c) (c_eb_target c).
  Definition next_cfg (c : cfg) (e : event) : cfg := match e with EReconf p => with_par c p | _ => c end.

  (* the state is written under the old configuration and read by an instance with the new one (what is read does not
     depend on the widths, weight or frequency configured) *)
  Definition apply_event (c : cfg) (s : state) (e : event) : state :=
    match e with
    | EStep i => step_state c s i | ESave => save_state c s | ERestart r => restart_state c s r
    | EReload => reload_state c s
    | EReconf _ => restart_state c s None
    end.

  (* a history is run with the configuration in force at each event *)
  Fixpoint frun {A : Type} (f : cfg -> A -> event -> A) (c : cfg) (hist : list event) (a : A) : A :=
    match hist with
    | [] => a
    | e :: r => frun f (next_cfg c e) r (f c a e)
    end.
  Definition final_cfg (c : cfg) (hist : list event) : cfg := fold_left next_cfg hist c.

  Definition final_state (c : cfg) (hist : list event) : state := frun apply_event c hist (init_state c).

  (* ---- write_pmf (writeFreeEnergyFile): max(E) - E over the energy grid, times (bias_temperature + T)/bias_temperature
     for well-tempered runs (single replica, no ebMeta) ---- *)

  (* all index vectors of a grid, in the order of the array (last index fastest) *)
  Fixpoint all_ix (nx : list Z) : list (list Z) :=
    match nx with
    | [] => [[]]
    | n :: r => flat_map (fun i => map (cons (Z.of_nat i)) (all_ix r)) (seq 0 (Z.to_nat n))
    end.

  (* colvar_grid_scalar::maximum_value: max = data[0]; if (data[i] > max) max = data[i] *)
  Definition grid_max (e : list Z -> T) (ixs : list (list Z)) : T :=
    match ixs with
    | [] => n0 O
    | ix0 :: _ => fold_left (fun m ix => if nltb O m (e ix) then e ix else m) ixs (e ix0)
    end.

  (* add_constant(-1.0 * max); multiply_constant(-1.0); multiply_constant(well_temper_scale) *)
  Definition pmf_shift (c : cfg) (temp mx e : T) : T :=
    let v := nmul O (nadd O e (nmul O (nneg O (n1 O)) mx)) (nneg O (n1 O)) in
    if c_wt c then nmul O v (ndiv O (nadd O (c_bias_temp c) temp) (c_bias_temp c)) else v.

  Definition pmf_value (c : cfg) (s : state) (temp : T) (ix : list Z) : T :=
    pmf_shift c temp (grid_max (st_e s) (all_ix (gsizes (st_geom s)))) (st_e s ix).

  (* observers used by the correspondence driver *)
  Definition grid_energy_at (s : state) (ix : list Z) : T := st_e s ix.
  Definition grid_gradient_at (s : state) (ix : list Z) (k : nat) : T := st_g s ix k.
End Meta.
