(* C05: specification (explicit sums of analytic hills deposited on schedule) and proofs that
   the model of colvarbias_meta (MetaModel.v, instance Rops) refines it. *)
From Coq Require Import ZArith List Bool Reals Lra Lia Psatz.
From Flocq Require Import Core.Raux.
From CV Require Import Base.Num Base.RNum C15.GridModel C05.MetaModel.
Import ListNotations.
Local Open Scope R_scope.

Notation hillR := (@hill R).
Notation cfgR := (@cfg R).
Notation varR := (@var_cfg R).
Notation stateR := (@state R).
Notation inR := (@step_in R).

(* ================================================================== specification *)

(* difference x - c, by the nearest image for a periodic variable *)
Definition mdiff (v : varR) (x c : R) : R :=
  if v_periodic v then (x - c) - IZR (Zfloor ((x - c) / v_period v + 1 / 2)) * v_period v else x - c.

(* exponent of a hill centred at c, seen from x:  sum_i (x_i - c_i)^2 / sigma_i^2 *)
Fixpoint Qexp (vs : list varR) (x c : list R) : R :=
  match vs, x, c with
  | v :: vs', xi :: x', ci :: c' => (mdiff v xi ci * mdiff v xi ci) / (v_sigma v * v_sigma v) + Qexp vs' x' c'
  | _, _, _ => 0
  end.

(* the kernel as implemented: a Gaussian, set to zero when the exponent exceeds 23 *)
Definition gauss (q : R) : R := if Rlt_dec 23 q then 0 else exp (- (1 / 2) * q).

(* energy of hill h at x *)
Definition K (vs : list varR) (h : hillR) (x : list R) : R := h_W h * gauss (Qexp vs x (h_c h)).

(* (x_i - c_i) / sigma_i^2 for every variable *)
Fixpoint gcomps (vs : list varR) (x c : list R) : list R :=
  match vs, x, c with
  | v :: vs', xi :: x', ci :: c' => mdiff v xi ci / (v_sigma v * v_sigma v) :: gcomps vs' x' c'
  | _, _, _ => []
  end.

(* force of hill h on variable k at x: minus the partial derivative of K along x_k *)
Definition Fk (vs : list varR) (h : hillR) (x : list R) (k : nat) : R :=
  h_W h * gauss (Qexp vs x (h_c h)) * nth k (gcomps vs x (h_c h)) 0.

Fixpoint Rsum (l : list R) : R := match l with [] => 0 | a :: r => a + Rsum r end.

Definition Esum (vs : list varR) (hs : list hillR) (x : list R) : R := Rsum (map (fun h => K vs h x) hs).
Definition Fsum (vs : list varR) (hs : list hillR) (x : list R) (k : nat) : R :=
  Rsum (map (fun h => Fk vs h x k) hs).

(* the hills deposited so far: those already tabulated on the grids and those not yet *)
Record sstate := mkS { s_tab : list hillR; s_pend : list hillR }.
Definition s_all (s : sstate) : list hillR := s_tab s ++ s_pend s.

Section Spec.
  Variable c : cfgR.
  Let vs := c_vars c.
  Let g := c_geom0 c.

  (* a hill is due at a step that is a multiple of newHillFrequency and at which data may be
     accumulated (not the first step of a run nor a repeated step, unless stepZeroData) *)
  Definition eligible (i : inR) : bool :=
    (i_it i mod c_freq c =? 0)%Z && (((0 <? i_rel i)%Z && negb (i_cont i)) || c_step_zero c) && (0 <? c_freq c)%Z.

  Definition in_grid (x : list R) : bool :=
    c_use_grids c && index_ok (gsizes g) (cbins Rops vs g x).
  Definition bin_centre (x : list R) : list R := centre Rops vs g (cbins Rops vs g x).

  (* the bias prescribed by the property *)
  Definition spec_energy (s : sstate) (x : list R) : R :=
    if in_grid x then Esum vs (s_tab s) (bin_centre x) + Esum vs (s_pend s) x
    else Esum vs (s_all s) x.
  Definition spec_force (s : sstate) (x : list R) (k : nat) : R :=
    if in_grid x then Fsum vs (s_tab s) (bin_centre x) k + Fsum vs (s_pend s) x k
    else Fsum vs (s_all s) x k.

  (* height of a new hill: hillWeight, times exp(-V/(k dT)) for well-tempered runs *)
  Definition spec_height (s : sstate) (x : list R) : R :=
    if c_wt c then c_weight c * exp (- spec_energy s x / (c_bias_temp c * c_kb c)) else c_weight c.

  Definition spec_step (s : sstate) (i : inR) : sstate :=
    let s1 := if eligible i
              then mkS (s_tab s) (s_pend s ++ [mkHill (i_it i) (spec_height s (i_x i)) (i_x i)])
              else s in
    if c_use_grids c && (i_it i mod c_gfreq c =? 0)%Z then mkS (s_tab s1 ++ s_pend s1) [] else s1.

  Definition spec_run (hist : list inR) : sstate := fold_left spec_step hist (mkS [] []).
End Spec.

(* ================================================================== kernel lemmas *)

Lemma Rsum_app a b : Rsum (a ++ b) = Rsum a + Rsum b.
Proof. induction a as [|x a IH]; cbn [app Rsum]; lra. Qed.

Lemma Esum_app vs a b x : Esum vs (a ++ b) x = Esum vs a x + Esum vs b x.
Proof. unfold Esum. rewrite map_app, Rsum_app. reflexivity. Qed.
Lemma Fsum_app vs a b x k : Fsum vs (a ++ b) x k = Fsum vs a x k + Fsum vs b x k.
Proof. unfold Fsum. rewrite map_app, Rsum_app. reflexivity. Qed.
Lemma Esum_nil vs x : Esum vs [] x = 0. Proof. reflexivity. Qed.
Lemma Fsum_nil vs x k : Fsum vs [] x k = 0. Proof. reflexivity. Qed.

Lemma vdiff_R v x c : vdiff Rops v x c = mdiff v x c.
Proof. unfold vdiff, mdiff, nhalf; cbn. reflexivity. Qed.

Lemma sqdev_R vs : forall x c a, sqdev Rops vs x c a = a + Qexp vs x c.
Proof.
  induction vs as [|v vs IH]; intros x c a.
  - cbn [sqdev Qexp]. lra.
  - destruct x as [|xi x]; [cbn [sqdev Qexp]; lra|].
    destruct c as [|ci c]; [cbn [sqdev Qexp]; lra|].
    cbn [sqdev Qexp]. rewrite IH, vdiff_R. unfold nsq; cbn. lra.
Qed.

Lemma kval_R vs x c : kval Rops vs x c = gauss (Qexp vs x c).
Proof.
  unfold kval, gauss. rewrite sqdev_R. unfold nhalf; cbn.
  replace (0 + Qexp vs x c) with (Qexp vs x c) by lra.
  unfold Rltb. destruct (Rlt_dec 23 (Qexp vs x c)); reflexivity.
Qed.

Lemma henergy_R vs x h : henergy Rops vs x h = K vs h x.
Proof. unfold henergy, hweight, K. rewrite kval_R. cbn [nmul n1 Rops]. ring. Qed.

Lemma hills_energy_R vs x hs : forall e0, hills_energy Rops vs x hs e0 = e0 + Esum vs hs x.
Proof.
  unfold hills_energy, Esum. induction hs as [|h hs IH]; intros e0; cbn [fold_left map Rsum].
  - lra.
  - rewrite IH, henergy_R. cbn. lra.
Qed.

Lemma fcomps_nth vs : forall x c wk k,
  nth k (fcomps Rops vs x c wk) 0 = wk * nth k (gcomps vs x c) 0.
Proof.
  induction vs as [|v vs IH]; intros x c wk k.
  - cbn [fcomps gcomps]. destruct k; cbn [nth]; lra.
  - destruct x as [|xi x]; [cbn [fcomps gcomps]; destruct k; cbn [nth]; lra|].
    destruct c as [|ci c]; [cbn [fcomps gcomps]; destruct k; cbn [nth]; lra|].
    cbn [fcomps gcomps]. destruct k as [|k]; cbn [nth].
    + rewrite vdiff_R. unfold nhalf. cbn [nmul ndiv n1 nofZ Rops].
      set (S := v_sigma v * v_sigma v). set (d := mdiff v xi ci). unfold Rdiv.
      replace (wk * (1 * / 2 * / S) * (2 * d)) with (wk * d * / S * (/ 2 * 2)) by ring.
      replace (/ 2 * 2) with 1 by lra. ring.
    + apply IH.
Qed.

Lemma hforce_R vs x k f h : hforce Rops vs x k f h = f + Fk vs h x k.
Proof.
  unfold hforce, Fk. rewrite kval_R. cbn [neqb Rops n0 nadd nmul].
  unfold Reqb'. destruct (Req_EM_T (gauss (Qexp vs x (h_c h))) 0) as [E|E].
  - rewrite E. lra.
  - change (nth k (fcomps Rops vs x (h_c h) (hweight Rops h * gauss (Qexp vs x (h_c h)))) (n0 Rops))
      with (nth k (fcomps Rops vs x (h_c h) (hweight Rops h * gauss (Qexp vs x (h_c h)))) 0).
    rewrite fcomps_nth. unfold hweight; cbn. ring.
Qed.

Lemma hills_force_R vs x k hs : forall f0, hills_force Rops vs x k hs f0 = f0 + Fsum vs hs x k.
Proof.
  unfold hills_force, Fsum. induction hs as [|h hs IH]; intros f0; cbn [fold_left map Rsum].
  - lra.
  - rewrite IH, hforce_R. lra.
Qed.

(* ================================================================== refinement *)
Section Refine.
  Variable c : cfgR.
  Local Notation vs := (c_vars c).
  Local Notation g := (c_geom0 c).

  (* side conditions *)
  Definition no_expand : Prop := existsb (@v_expand R) (c_vars c) = false.
  Definition wt_cfg_ok : Prop := c_wt c = false \/ c_use_grids c = false \/ (c_gfreq c | c_freq c)%Z.
  Definition wt_dep_inside (i : inR) : Prop :=
    c_wt c = true -> c_use_grids c = true -> eligible c i = true -> in_grid c (i_x i) = true.

  Definition near (h : hillR) : bool := near_edge Rops c g (h_c h).

  Record Inv (m : stateR) (s : sstate) : Prop := mkInv {
    inv_new : st_new m = s_pend s;
    inv_old : st_old m = if c_keep c then s_tab s else [];
    inv_e : forall ix, st_e m ix = Esum vs (s_tab s) (centre Rops vs g ix);
    inv_g : forall ix k, st_g m ix k = - Fsum vs (s_tab s) (centre Rops vs g ix) k;
    inv_geom : st_geom m = g;
    inv_off : st_off m = if c_use_grids c then filter near (s_all s) else [];
    inv_ub : st_ub m = false;
    inv_nogrid : c_use_grids c = false -> s_tab s = []
  }.

  Definition PendEmpty (s : sstate) : Prop := c_wt c = true -> c_use_grids c = true -> s_pend s = [].

  Definition spec_dep (s : sstate) (i : inR) : sstate :=
    if eligible c i then mkS (s_tab s) (s_pend s ++ [mkHill (i_it i) (spec_height c s (i_x i)) (i_x i)]) else s.
  Definition spec_proj (s : sstate) (i : inR) : sstate :=
    if c_use_grids c && (i_it i mod c_gfreq c =? 0)%Z then mkS (s_tab s ++ s_pend s) [] else s.
  Lemma spec_step_eq s i : spec_step c s i = spec_proj (spec_dep s i) i.
  Proof. reflexivity. Qed.

  Lemma init_inv : Inv (init_state Rops c) (mkS [] []).
  Proof.
    constructor; cbn [init_state st_new st_old st_e st_g st_geom st_off st_ub s_tab s_pend s_all app filter].
    - reflexivity.
    - destruct (c_keep c); reflexivity.
    - intros ix. cbn. lra.
    - intros ix k. cbn. lra.
    - reflexivity.
    - destruct (c_use_grids c); reflexivity.
    - reflexivity.
    - reflexivity.
  Qed.

  Lemma ugp_id m i : no_expand -> update_grid_params Rops c m i = m.
  Proof. intros H. unfold update_grid_params. rewrite H, andb_false_r. reflexivity. Qed.

  Lemma eligible_deposit i : deposit_now c i = eligible c i.
  Proof. reflexivity. Qed.

  Lemma pend_empty_step s i : wt_cfg_ok -> PendEmpty s -> PendEmpty (spec_step c s i).
  Proof.
    intros Hcfg HP W G. specialize (HP W G).
    destruct Hcfg as [H|[H|Hdiv]]; [congruence|congruence|].
    unfold spec_step. rewrite G. cbn [andb].
    destruct (i_it i mod c_gfreq c =? 0)%Z eqn:E; [reflexivity|].
    destruct (eligible c i) eqn:El; [|exact HP].
    exfalso. unfold eligible in El.
    apply andb_prop in El. destruct El as [El Hpos]. apply andb_prop in El. destruct El as [Hm _].
    apply Z.ltb_lt in Hpos. apply Z.eqb_eq in Hm. apply Z.eqb_neq in E. apply E.
    destruct (Z.eq_dec (c_gfreq c) 0) as [Z0|NZ].
    - destruct Hdiv as [q Hq]. rewrite Z0 in Hq. lia.
    - apply Z.mod_divide; [exact NZ|]. apply Z.divide_trans with (m := c_freq c); [exact Hdiv|].
      apply Z.mod_divide; [lia|exact Hm].
  Qed.

  Lemma wt_weight m s i : Inv m s -> PendEmpty s -> wt_dep_inside i -> eligible c i = true -> c_wt c = true ->
    wt_energy_here Rops c m (i_x i) = (spec_energy c s (i_x i), false).
  Proof.
    intros HI HP Hin El W. destruct HI as [Hnew Hold He Hg Hgeom Hoff Hub Hng].
    unfold wt_energy_here, spec_energy, in_grid. destruct (c_use_grids c) eqn:G; cbn [andb].
    - rewrite Hgeom. specialize (Hin W G El). unfold in_grid in Hin. rewrite G in Hin. cbn [andb] in Hin.
      rewrite Hin. f_equal. rewrite He. unfold bin_centre. rewrite (HP W G), Esum_nil. lra.
    - f_equal. rewrite hills_energy_R, Hnew. unfold s_all. rewrite (Hng eq_refl). cbn [app n0 Rops]. lra.
  Qed.

  Lemma filter_snoc {A} (p : A -> bool) l a : filter p (l ++ [a]) = filter p l ++ (if p a then [a] else []).
  Proof. rewrite filter_app. cbn [filter]. destruct (p a); reflexivity. Qed.

  Lemma add_hill_inv m s i w : Inv m s -> w = spec_height c s (i_x i) ->
    Inv (mkState (st_old m) (st_new m ++ [mkHill (i_it i) w (i_x i)])
                 (if c_use_grids c && near_edge Rops c (st_geom m) (i_x i)
                  then st_off m ++ [mkHill (i_it i) w (i_x i)] else st_off m)
                 (st_e m) (st_g m) (st_geom m) (st_ub m || false))
        (mkS (s_tab s) (s_pend s ++ [mkHill (i_it i) (spec_height c s (i_x i)) (i_x i)])).
  Proof.
    intros HI ->. destruct HI as [Hnew Hold He Hg Hgeom Hoff Hub Hng].
    constructor; cbn [st_new st_old st_e st_g st_geom st_off st_ub s_tab s_pend]; auto.
    - rewrite Hnew. reflexivity.
    - rewrite Hgeom, Hoff. unfold s_all. cbn [s_tab s_pend].
      destruct (c_use_grids c); cbn [andb]; [|reflexivity].
      rewrite app_assoc, filter_snoc.
      assert (Hn : near (mkHill (i_it i) (spec_height c s (i_x i)) (i_x i)) = near_edge Rops c g (i_x i)) by reflexivity.
      rewrite Hn.
      destruct (near_edge Rops c g (i_x i)); [reflexivity|rewrite app_nil_r; reflexivity].
    - rewrite Hub. reflexivity.
  Qed.

  Lemma update_bias_inv m s i : Inv m s -> PendEmpty s -> wt_dep_inside i ->
    Inv (update_bias Rops c m i) (spec_dep s i).
  Proof.
    intros HI HP Hin. unfold update_bias, spec_dep. rewrite eligible_deposit.
    destruct (eligible c i) eqn:El; [|exact HI].
    destruct (c_wt c) eqn:W.
    - rewrite (wt_weight m s i HI HP Hin El W). apply add_hill_inv; [exact HI|].
      unfold spec_height, wt_scale. rewrite W. cbn [nmul n1 nexp ndiv nneg Rops].
      f_equal. rewrite Rmult_1_l. f_equal. unfold Rdiv. ring.
    - apply add_hill_inv; [exact HI|]. unfold spec_height. rewrite W. cbn [nmul n1 Rops]. ring.
  Qed.

  Lemma project_inv m s : Inv m s -> c_use_grids c = true ->
    Inv (project Rops c m) (mkS (s_tab s ++ s_pend s) []).
  Proof.
    intros HI G. destruct HI as [Hnew Hold He Hg Hgeom Hoff Hub Hng].
    unfold project. constructor; cbn [st_new st_old st_e st_g st_geom st_off st_ub s_tab s_pend]; auto.
    - rewrite Hold, Hnew. destruct (c_keep c); reflexivity.
    - intros ix. rewrite He, Hgeom, hills_energy_R, Hnew, Esum_app. cbn [nadd n0 Rops]. lra.
    - intros ix k. rewrite Hg, Hgeom, hills_force_R, Hnew, Fsum_app. cbn [nsub n0 Rops]. lra.
    - rewrite Hoff. unfold s_all. cbn [s_tab s_pend]. rewrite app_nil_r. reflexivity.
    - intros G'. congruence.
  Qed.

  Lemma step_inv m s i : no_expand -> Inv m s -> PendEmpty s -> wt_dep_inside i ->
    Inv (step_state Rops c m i) (spec_step c s i).
  Proof.
    intros Hne HI HP Hin. unfold step_state. rewrite (ugp_id m i Hne), spec_step_eq.
    pose proof (update_bias_inv m s i HI HP Hin) as H2.
    unfold spec_proj, update_grid_data. destruct (c_use_grids c) eqn:G; cbn [andb]; [|exact H2].
    destruct (i_it i mod c_gfreq c =? 0)%Z; [|exact H2].
    apply project_inv; assumption.
  Qed.

  Lemma run_inv hist : no_expand -> wt_cfg_ok -> Forall wt_dep_inside hist ->
    Inv (final_state Rops c hist) (spec_run c hist) /\ PendEmpty (spec_run c hist).
  Proof.
    intros Hne Hcfg. unfold final_state, spec_run.
    assert (Hgen : forall m s, Inv m s -> PendEmpty s -> Forall wt_dep_inside hist ->
              Inv (fold_left (step_state Rops c) hist m) (fold_left (spec_step c) hist s) /\
              PendEmpty (fold_left (spec_step c) hist s)).
    { induction hist as [|i hist IH]; intros m s HI HP HF; cbn [fold_left].
      - split; assumption.
      - inversion HF as [|i' l' Hi Hl]; subst. apply IH; auto.
        + apply step_inv; auto.
        + apply pend_empty_step; auto. }
    intros HF. apply Hgen; auto.
    - apply init_inv.
    - intros _ _. reflexivity.
  Qed.

  (* ---- what the bias returns, in terms of the specification ---- *)

  Lemma inside_eq m x : st_geom m = g -> inside Rops c m x = in_grid c x.
  Proof. intros H. unfold inside, in_grid. rewrite H. reflexivity. Qed.

  Lemma energy_inside m s x : Inv m s -> (in_grid c x = true \/ c_use_grids c = false) ->
    calc_energy Rops c m x = spec_energy c s x.
  Proof.
    intros HI Hc. destruct HI as [Hnew Hold He Hg Hgeom Hoff Hub Hng].
    unfold calc_energy, spec_energy. rewrite (inside_eq m x Hgeom), hills_energy_R, Hnew.
    destruct Hc as [Hin|G].
    - rewrite Hin, Hgeom, He. unfold bin_centre. cbn [nadd n0 Rops]. lra.
    - assert (Hin : in_grid c x = false) by (unfold in_grid; rewrite G; reflexivity).
      rewrite Hin, hills_energy_R, Hoff, G, Esum_nil. unfold s_all. rewrite (Hng G). cbn [app n0 Rops]. lra.
  Qed.

  Lemma force_inside m s x k : Inv m s -> (in_grid c x = true \/ c_use_grids c = false) ->
    calc_force Rops c m x k = spec_force c s x k.
  Proof.
    intros HI Hc. destruct HI as [Hnew Hold He Hg Hgeom Hoff Hub Hng].
    unfold calc_force, spec_force. rewrite (inside_eq m x Hgeom), hills_force_R, Hnew.
    destruct Hc as [Hin|G].
    - rewrite Hin, Hgeom, Hg. unfold bin_centre. cbn [nadd nmul nneg n0 n1 Rops]. lra.
    - assert (Hin : in_grid c x = false) by (unfold in_grid; rewrite G; reflexivity).
      rewrite Hin, hills_force_R, Hoff, G, Fsum_nil. unfold s_all. rewrite (Hng G). cbn [app n0 Rops]. lra.
  Qed.

  (* outside the grid the implementation sums hills_off_grid and the unprojected hills *)
  Lemma energy_outside m s x : Inv m s -> c_use_grids c = true -> in_grid c x = false ->
    calc_energy Rops c m x = Esum vs (filter near (s_all s)) x + Esum vs (s_pend s) x.
  Proof.
    intros HI G Hout. destruct HI as [Hnew Hold He Hg Hgeom Hoff Hub Hng].
    unfold calc_energy. rewrite (inside_eq m x Hgeom), Hout, !hills_energy_R, Hnew, Hoff, G.
    cbn [n0 Rops]. lra.
  Qed.

  Lemma force_outside m s x k : Inv m s -> c_use_grids c = true -> in_grid c x = false ->
    calc_force Rops c m x k = Fsum vs (filter near (s_all s)) x k + Fsum vs (s_pend s) x k.
  Proof.
    intros HI G Hout. destruct HI as [Hnew Hold He Hg Hgeom Hoff Hub Hng].
    unfold calc_force. rewrite (inside_eq m x Hgeom), Hout, !hills_force_R, Hnew, Hoff, G.
    cbn [n0 Rops]. lra.
  Qed.

  Lemma Esum_filter (p : hillR -> bool) hs x :
    (forall h, In h hs -> p h = false -> K vs h x = 0) -> Esum vs (filter p hs) x = Esum vs hs x.
  Proof.
    unfold Esum. induction hs as [|h hs IH]; intros H; cbn [filter map Rsum]; [reflexivity|].
    destruct (p h) eqn:E; cbn [map Rsum].
    - rewrite IH; [reflexivity|]. intros h' Hin. apply H. right. exact Hin.
    - rewrite IH; [|intros h' Hin; apply H; right; exact Hin].
      rewrite (H h); [lra|left; reflexivity|exact E].
  Qed.

  Lemma Esum_zero hs x : (forall h, In h hs -> K vs h x = 0) -> Esum vs hs x = 0.
  Proof.
    unfold Esum. induction hs as [|h hs IH]; intros H; cbn [map Rsum]; [reflexivity|].
    rewrite IH; [|intros h' Hin; apply H; right; exact Hin]. rewrite (H h); [lra|left; reflexivity].
  Qed.
End Refine.

(* ================================================================== statements at the level of histories *)

Lemma final_state_snoc c hist i :
  final_state Rops c (hist ++ [i]) = step_state Rops c (final_state Rops c hist) i.
Proof. unfold final_state. rewrite fold_left_app. reflexivity. Qed.

Lemma spec_run_snoc c hist i : spec_run c (hist ++ [i]) = spec_step c (spec_run c hist) i.
Proof. unfold spec_run. rewrite fold_left_app. reflexivity. Qed.

(* energy and force on variable k returned by update() at the step with input i, after history hist *)
Definition out_energy (c : cfgR) (hist : list inR) (i : inR) : R :=
  fst (snd (step Rops c (final_state Rops c hist) i)).
Definition out_force (c : cfgR) (hist : list inR) (i : inR) (k : nat) : R :=
  nth k (snd (snd (step Rops c (final_state Rops c hist) i))) 0.

Lemma out_energy_eq c hist i :
  out_energy c hist i = calc_energy Rops c (final_state Rops c (hist ++ [i])) (i_x i).
Proof. unfold out_energy, step. cbn [fst snd]. rewrite final_state_snoc. reflexivity. Qed.

Lemma nth_map_seq {A} (f : nat -> A) n k d : (k < n)%nat -> nth k (map f (seq 0 n)) d = f k.
Proof.
  intros H. rewrite nth_indep with (d' := f 0%nat) by (rewrite map_length, seq_length; exact H).
  rewrite map_nth. rewrite seq_nth by exact H. reflexivity.
Qed.

Lemma out_force_eq c hist i k : (k < length (c_vars c))%nat ->
  out_force c hist i k = calc_force Rops c (final_state Rops c (hist ++ [i])) (i_x i) k.
Proof.
  intros H. unfold out_force, step. cbn [fst snd]. rewrite final_state_snoc.
  unfold calc_forces. apply nth_map_seq. exact H.
Qed.

Lemma schedule_holds c hist : no_expand c -> wt_cfg_ok c -> Forall (wt_dep_inside c) hist ->
  st_new (final_state Rops c hist) = s_pend (spec_run c hist) /\
  st_old (final_state Rops c hist) = (if c_keep c then s_tab (spec_run c hist) else []) /\
  st_ub (final_state Rops c hist) = false.
Proof.
  intros H1 H2 H3. destruct (run_inv c hist H1 H2 H3) as [HI _].
  destruct HI as [Hnew Hold He Hg Hgeom Hoff Hub Hng]. auto.
Qed.

(* every eligible step adds exactly one hill, centred at the current values, of the prescribed height *)
Lemma s_all_step c s i :
  s_all (spec_step c s i) =
  s_all s ++ (if eligible c i then [mkHill (i_it i) (spec_height c s (i_x i)) (i_x i)] else []).
Proof.
  unfold spec_step, s_all.
  destruct (eligible c i); destruct (c_use_grids c && (i_it i mod c_gfreq c =? 0)%Z);
    cbn [s_tab s_pend]; rewrite ?app_nil_r, ?app_assoc; reflexivity.
Qed.

Lemma deposited_snoc c hist i :
  s_all (spec_run c (hist ++ [i])) =
  s_all (spec_run c hist) ++
  (if eligible c i then [mkHill (i_it i) (spec_height c (spec_run c hist) (i_x i)) (i_x i)] else []).
Proof. rewrite spec_run_snoc. apply s_all_step. Qed.

(* without well-tempering: the deposited hills are one hill of height hillWeight per eligible step *)
Lemma deposited_plain c hist : c_wt c = false ->
  s_all (spec_run c hist) = map (fun i => mkHill (i_it i) (c_weight c) (i_x i)) (filter (eligible c) hist).
Proof.
  intros W. unfold spec_run.
  assert (Hgen : forall s, s_all (fold_left (spec_step c) hist s) =
            s_all s ++ map (fun i => mkHill (i_it i) (c_weight c) (i_x i)) (filter (eligible c) hist)).
  { induction hist as [|i hist IH]; intros s; cbn [fold_left filter map].
    - rewrite app_nil_r. reflexivity.
    - rewrite IH, s_all_step. unfold spec_height. rewrite W.
      destruct (eligible c i); cbn [map]; rewrite <- app_assoc; reflexivity. }
  rewrite Hgen. reflexivity.
Qed.

(* hills are tabulated at the steps that are multiples of gridsUpdateFrequency *)
Lemma tabulated_snoc c hist i : c_use_grids c = true ->
  s_pend (spec_run c (hist ++ [i])) = (if (i_it i mod c_gfreq c =? 0)%Z then [] else
     s_pend (spec_run c hist) ++ (if eligible c i then [mkHill (i_it i) (spec_height c (spec_run c hist) (i_x i)) (i_x i)] else [])).
Proof.
  intros G. rewrite spec_run_snoc. unfold spec_step. rewrite G. cbn [andb].
  destruct (i_it i mod c_gfreq c =? 0)%Z; [reflexivity|].
  destruct (eligible c i); cbn [s_pend]; rewrite ?app_nil_r; reflexivity.
Qed.

Lemma grid_is_projected_sum c hist : no_expand c -> wt_cfg_ok c -> Forall (wt_dep_inside c) hist ->
  forall ix,
    st_e (final_state Rops c hist) ix =
      Esum (c_vars c) (s_tab (spec_run c hist)) (centre Rops (c_vars c) (c_geom0 c) ix) /\
    forall k, st_g (final_state Rops c hist) ix k =
      - Fsum (c_vars c) (s_tab (spec_run c hist)) (centre Rops (c_vars c) (c_geom0 c) ix) k.
Proof.
  intros H1 H2 H3 ix. destruct (run_inv c hist H1 H2 H3) as [HI _].
  destruct HI as [Hnew Hold He Hg Hgeom Hoff Hub Hng]. split; [apply He|intros k; apply Hg].
Qed.

Lemma energy_inside_grid c hist i : no_expand c -> wt_cfg_ok c -> Forall (wt_dep_inside c) (hist ++ [i]) ->
  in_grid c (i_x i) = true \/ c_use_grids c = false ->
  out_energy c hist i = spec_energy c (spec_run c (hist ++ [i])) (i_x i).
Proof.
  intros H1 H2 H3 Hc. rewrite out_energy_eq. destruct (run_inv c _ H1 H2 H3) as [HI _].
  apply energy_inside; assumption.
Qed.

Lemma force_inside_grid c hist i k : no_expand c -> wt_cfg_ok c -> Forall (wt_dep_inside c) (hist ++ [i]) ->
  in_grid c (i_x i) = true \/ c_use_grids c = false -> (k < length (c_vars c))%nat ->
  out_force c hist i k = spec_force c (spec_run c (hist ++ [i])) (i_x i) k.
Proof.
  intros H1 H2 H3 Hc Hk. rewrite out_force_eq by exact Hk. destruct (run_inv c _ H1 H2 H3) as [HI _].
  apply force_inside; assumption.
Qed.

Lemma outside_grid_implemented c hist i : no_expand c -> wt_cfg_ok c -> Forall (wt_dep_inside c) (hist ++ [i]) ->
  c_use_grids c = true -> in_grid c (i_x i) = false ->
  out_energy c hist i =
    Esum (c_vars c) (filter (near c) (s_all (spec_run c (hist ++ [i])))) (i_x i) +
    Esum (c_vars c) (s_pend (spec_run c (hist ++ [i]))) (i_x i).
Proof.
  intros H1 H2 H3 G Ho. rewrite out_energy_eq. destruct (run_inv c _ H1 H2 H3) as [HI _].
  apply energy_outside; assumption.
Qed.

Lemma outside_grid_partial c hist i : no_expand c -> wt_cfg_ok c -> Forall (wt_dep_inside c) (hist ++ [i]) ->
  c_use_grids c = true -> in_grid c (i_x i) = false ->
  (forall h, In h (s_all (spec_run c (hist ++ [i]))) -> near c h = false -> K (c_vars c) h (i_x i) = 0) ->
  (forall h, In h (s_pend (spec_run c (hist ++ [i]))) -> K (c_vars c) h (i_x i) = 0) ->
  out_energy c hist i = spec_energy c (spec_run c (hist ++ [i])) (i_x i).
Proof.
  intros H1 H2 H3 G Ho Ha Hb. rewrite (outside_grid_implemented c hist i H1 H2 H3 G Ho).
  rewrite Esum_filter by exact Ha. rewrite (Esum_zero c _ _ Hb).
  unfold spec_energy. rewrite Ho. lra.
Qed.

(* ================================================================== witnesses (findings and non-vacuity) *)

Lemma Zfloor_val x n : IZR n <= x < IZR n + 1 -> Zfloor x = n.
Proof. intros H. apply Zfloor_spec. exact H. Qed.

Definition w_var : varR := mkVar false 1 1 1 false false false false.
Definition w_cfg : cfgR := mkCfg [w_var] [mkBound 0 8 8%Z] 1 0 2%Z 2%Z true false false 1 1 false.
Definition w_i1 : inR := mkIn 2%Z 2%Z false [3/2].
Definition w_i2 : inR := mkIn 3%Z 3%Z false [-(1/4)].

Lemma w_run : spec_run w_cfg ([w_i1] ++ [w_i2]) = mkS [mkHill 2%Z 1 [3/2]] [].
Proof. reflexivity. Qed.

Lemma w_hyps : no_expand w_cfg /\ wt_cfg_ok w_cfg /\ Forall (wt_dep_inside w_cfg) ([w_i1] ++ [w_i2]).
Proof.
  split; [reflexivity|]. split; [left; reflexivity|].
  repeat constructor; intros W; discriminate W.
Qed.

Lemma w_outside : in_grid w_cfg (i_x w_i2) = false.
Proof.
  unfold in_grid, w_cfg, w_i2, w_var. cbn [c_use_grids c_geom0 c_vars i_x cbins gsizes map b_nx b_lower v_width andb].
  unfold value_to_bin. cbn [nfloor ndiv nsub Rops].
  rewrite (Zfloor_val _ (-1)%Z) by (simpl; lra). reflexivity.
Qed.

Lemma w_not_near : near w_cfg (mkHill 2%Z 1 [3/2]) = false.
Proof.
  unfold near, near_edge, off_margin, w_cfg, w_var.
  cbn [c_vars c_geom0 c_hill_width h_c bin_dist v_gperiodic v_periodic v_width v_hard_lo v_hard_up b_lower b_upper negb andb].
  unfold vdiff, nsq. cbn [v_periodic nsub nmul ndiv nsqrt nadd nneg n1 nofZ nfloor nltb Rops].
  rewrite (Zfloor_val 0 0%Z) by (simpl; lra).
  replace ((3 / 2 - 0) * (3 / 2 - 0)) with ((3 / 2) * (3 / 2)) by lra.
  replace ((3 / 2 - 8) * (3 / 2 - 8)) with ((13 / 2) * (13 / 2)) by lra.
  rewrite !sqrt_square by lra.
  assert (H1 : Rltb (3 / 2) 0 = false) by (apply Rltb_false; lra).
  assert (H2 : Rltb 8 (3 / 2) = false) by (apply Rltb_false; lra).
  rewrite H1, H2.
  assert (H3 : Rltb (3 / 2 / 1) (IZR 10000000000000000) = true) by (apply Rltb_true; lra).
  rewrite H3.
  assert (H4 : Rltb (13 / 2 / 1) (3 / 2 / 1) = false) by (apply Rltb_false; lra).
  rewrite H4.
  apply Rltb_false. simpl. lra.
Qed.

Lemma outside_grid_refuted :
  exists (c : cfgR) (hist : list inR) (i : inR),
    no_expand c /\ wt_cfg_ok c /\ Forall (wt_dep_inside c) (hist ++ [i]) /\
    c_use_grids c = true /\ in_grid c (i_x i) = false /\
    out_energy c hist i <> spec_energy c (spec_run c (hist ++ [i])) (i_x i).
Proof.
  exists w_cfg, [w_i1], w_i2. destruct w_hyps as [H1 [H2 H3]].
  split; [exact H1|]. split; [exact H2|]. split; [exact H3|]. split; [reflexivity|]. split; [exact w_outside|].
  rewrite (outside_grid_implemented w_cfg [w_i1] w_i2 H1 H2 H3 eq_refl w_outside).
  unfold spec_energy. rewrite w_outside, w_run. unfold s_all. cbn [s_tab s_pend app filter].
  rewrite w_not_near. rewrite !Esum_nil.
  unfold Esum. cbn [map Rsum]. unfold K, w_cfg, w_i2, w_var. cbn [c_vars h_W h_c i_x Qexp v_sigma].
  unfold mdiff. cbn [v_periodic]. unfold gauss.
  destruct (Rlt_dec 23 ((- (1 / 4) - 3 / 2) * (- (1 / 4) - 3 / 2) / (1 * 1) + 0)) as [Hlt|_]; [exfalso; lra|].
  pose proof (exp_pos (- (1 / 2) * ((- (1 / 4) - 3 / 2) * (- (1 / 4) - 3 / 2) / (1 * 1) + 0))) as Hp.
  lra.
Qed.

(* well-tempered, one step outside the grid *)
Definition u_cfg : cfgR := mkCfg [w_var] [mkBound 0 8 8%Z] 1 0 1%Z 1%Z true false true 1 1 false.
Definition u_i : inR := mkIn 1%Z 1%Z false [-(1/4)].

Lemma u_read : wt_energy_here Rops u_cfg (init_state Rops u_cfg) (i_x u_i) = (0, true).
Proof.
  unfold wt_energy_here, u_cfg, u_i, w_var, init_state.
  cbn [c_use_grids c_geom0 c_vars i_x cbins gsizes map b_nx b_lower v_width st_geom].
  unfold value_to_bin. cbn [nfloor ndiv nsub Rops].
  rewrite (Zfloor_val _ (-1)%Z) by (simpl; lra). reflexivity.
Qed.

Lemma wt_outside_refuted :
  exists (c : cfgR) (hist : list inR),
    no_expand c /\ wt_cfg_ok c /\ st_ub (final_state Rops c hist) = true.
Proof.
  exists u_cfg, [u_i]. split; [reflexivity|]. split; [right; right; exists 1%Z; reflexivity|].
  unfold final_state. cbn [fold_left]. unfold step_state. rewrite ugp_id by reflexivity.
  change (c_use_grids u_cfg) with true. cbv iota.
  unfold update_grid_data. change (i_it u_i mod c_gfreq u_cfg =? 0)%Z with true. cbv iota.
  unfold project. cbn [st_ub].
  unfold update_bias. change (deposit_now u_cfg u_i) with true. cbv iota.
  change (c_wt u_cfg) with true. cbv iota. rewrite u_read. reflexivity.
Qed.

(* non-vacuity of the premises used above *)
Lemma w_inside : in_grid w_cfg (i_x w_i1) = true.
Proof.
  unfold in_grid, w_cfg, w_i1, w_var. cbn [c_use_grids c_geom0 c_vars i_x cbins gsizes map b_nx b_lower v_width andb].
  unfold value_to_bin. cbn [nfloor ndiv nsub Rops].
  rewrite (Zfloor_val _ 1%Z) by (simpl; lra). reflexivity.
Qed.

Definition u_in : inR := mkIn 1%Z 1%Z false [3/2].
Lemma u_inside_dep : c_wt u_cfg = true /\ c_use_grids u_cfg = true /\ eligible u_cfg u_in = true /\
  wt_dep_inside u_cfg u_in /\ in_grid u_cfg (i_x u_in) = true.
Proof.
  assert (H : in_grid u_cfg (i_x u_in) = true).
  { unfold in_grid, u_cfg, u_in, w_var. cbn [c_use_grids c_geom0 c_vars i_x cbins gsizes map b_nx b_lower v_width andb].
    unfold value_to_bin. cbn [nfloor ndiv nsub Rops].
    rewrite (Zfloor_val _ 1%Z) by (simpl; lra). reflexivity. }
  repeat split; try reflexivity; [intros _ _ _; exact H|exact H].
Qed.

(* far outside the grid the dropped hill does not reach x: the premises of outside_grid_partial hold *)
Definition w_i3 : inR := mkIn 3%Z 3%Z false [-20].
Lemma w_far : in_grid w_cfg (i_x w_i3) = false /\
  (forall h, In h (s_all (spec_run w_cfg ([w_i1] ++ [w_i3]))) -> near w_cfg h = false -> K (c_vars w_cfg) h (i_x w_i3) = 0) /\
  (forall h, In h (s_pend (spec_run w_cfg ([w_i1] ++ [w_i3]))) -> K (c_vars w_cfg) h (i_x w_i3) = 0) /\
  s_all (spec_run w_cfg ([w_i1] ++ [w_i3])) <> [].
Proof.
  assert (Hr : spec_run w_cfg ([w_i1] ++ [w_i3]) = mkS [mkHill 2%Z 1 [3/2]] []) by reflexivity.
  rewrite Hr. unfold s_all. cbn [s_tab s_pend app]. repeat split.
  - unfold in_grid, w_cfg, w_i3, w_var. cbn [c_use_grids c_geom0 c_vars i_x cbins gsizes map b_nx b_lower v_width andb].
    unfold value_to_bin. cbn [nfloor ndiv nsub Rops].
    rewrite (Zfloor_val _ (-20)%Z) by (simpl; lra). reflexivity.
  - intros h [<-|[]] _. unfold K, w_cfg, w_i3, w_var. cbn [c_vars h_W h_c i_x Qexp v_sigma].
    unfold mdiff. cbn [v_periodic]. unfold gauss.
    destruct (Rlt_dec 23 ((-20 - 3 / 2) * (-20 - 3 / 2) / (1 * 1) + 0)) as [_|Hn]; [lra|exfalso; apply Hn; lra].
  - intros h [].
  - discriminate.
Qed.
