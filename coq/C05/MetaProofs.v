(* C05: the model of colvarbias_meta (MetaModel.v, instance Rops) refines the specification of MetaSpec.v:
   for every well-formed configuration and every history of admissible steps and state saves. *)
From Coq Require Import ZArith List Bool Reals Lra Lia Psatz.
From Flocq Require Import Core.Raux.
From CV Require Import Base.Num Base.RNum C15.GridModel C05.MetaModel C05.MetaSpec C05.MetaGeom.
Import ListNotations.
Local Open Scope R_scope.

(* ================================================================== premises *)

(* well-formed configuration: positive sigmas and widths; sigma = width*hillWidth/2 when hillWidth is given;
   with grids: upper = lower + nx*width, nx > 0, scalar variables, no expansion of a grid on a periodic variable *)
Definition cfg_ok (c : cfgR) : Prop :=
  Forall var_ok (c_vars c) /\ sig_ok (c_vars c) (c_sigmas c) /\ sigmas_ok c /\
  (c_use_grids c = true -> All2 bound_ok (c_vars c) (c_geom0 c) /\ Forall gvar_ok (c_vars c)).

(* admissible values (only with grids): one value per variable, not beyond a boundary declared hard, and within
   the grid along a periodic variable whose grid covers part of the period *)
(* well-formed grid boundaries (only with grids) *)
Definition geom_ok (c : cfgR) (g : list boundR) : Prop := c_use_grids c = true -> All2 bound_ok (c_vars c) g.

Definition adm (c : cfgR) (g0 : list boundR) (x : list valueR) : Prop :=
  c_use_grids c = true -> All3 (fun v b xv => adm_var v b (scR xv)) (c_vars c) g0 x.

(* restart with rebinGrids and new boundaries g' (only with grids): the new grids are well formed and
   - either the state was written with keepHills (the grids are recomputed from the hills) and every hill deposited
     so far is at least min_buffer bins inside the expandable edges of the new grids (as expandBoundaries would have
     kept them; vacuous when no variable has expandBoundaries),
   - or keepHills is off (the old grids are mapped onto the new ones) and the new grids are the current ones
     extended by whole bins along expandBoundaries variables beyond non-hard boundaries *)
Definition rebin_ok (c : cfgR) (g' : list boundR) (s : sstate) : Prop :=
  c_use_grids c = true ->
  All2 bound_ok (c_vars c) g' /\
  ((c_keep c = true /\ forall h, In h (s_all s) -> All4 clear_var (c_vars c) g' (h_c h) (h_s h)) \/
   (c_keep c = false /\ All3 (fun v b b' => gstep v b b') (c_vars c) (s_geom s) g')).

(* the base geometry (boundaries of the configuration) after an event *)
Definition next_base (c : cfgR) (g0 : list boundR) (e : eventR) : list boundR :=
  match e with ERestart (Some g') => if c_use_grids c then g' else g0 | _ => g0 end.

(* admissible history, from the specification state s with base geometry g0 *)
Fixpoint hist_ok (c : cfgR) (g0 : list boundR) (s : sstate) (hist : list eventR) : Prop :=
  match hist with
  | [] => True
  | e :: r =>
      match e with
      | EStep i => adm c g0 (i_x i)
      | ESave => True
      | ERestart None => True
      | ERestart (Some g') => rebin_ok c g' s
      | EReload => True
      | EReconf p => cfg_ok (with_par c p)     (* the new widths are positive, consistent with the new hillWidth *)
      end /\ hist_ok (next_cfg c e) (next_base c g0 e) (spec_event c s e) r
  end.

(* the base geometry at the end of a history *)
Fixpoint fbase (c : cfgR) (hist : list eventR) (g0 : list boundR) : list boundR :=
  match hist with [] => g0 | e :: r => fbase (next_cfg c e) r (next_base c g0 e) end.
Definition final_base (c : cfgR) (hist : list eventR) : list boundR := fbase c hist (c_geom0 c).
Definition history_ok (c : cfgR) (hist : list eventR) : Prop := hist_ok c (c_geom0 c) (mkS [] [] (c_geom0 c)) hist.

Lemma scR_nth (l : valueR) : scR l = nth 0 l 0.
Proof. destruct l; reflexivity. Qed.

Lemma vzero_nth (v : varR) j : nth j (vzero Rops v) 0 = 0.
Proof.
  unfold vzero. destruct (v_kind v) as [| | | |n]; try (destruct j as [|[|[|[|[|j]]]]]; reflexivity).
  change (n0 Rops) with 0. revert j. induction n as [|n IH]; intros j; destruct j; cbn [repeat nth]; auto.
Qed.

Lemma fzero_nth (vs : list varR) k j : nth j (fzero Rops vs k) 0 = 0.
Proof. unfold fzero. destruct (nth_error vs k); [apply vzero_nth|destruct j; reflexivity]. Qed.

Lemma fzero_scalar (vs : list varR) k : Forall gvar_ok vs -> (k < length vs)%nat -> fzero Rops vs k = [0].
Proof.
  intros Hg Hk. unfold fzero. destruct (nth_error vs k) as [v|] eqn:E.
  - apply nth_error_In in E. rewrite Forall_forall in Hg. destruct (Hg v E) as [Hkind _].
    unfold vzero. rewrite Hkind. reflexivity.
  - apply nth_error_None in E. lia.
Qed.

Lemma Fk_scalar_high (vs : list varR) h x k j : Forall gvar_ok vs -> (0 < j)%nat -> Fk vs h x k j = 0.
Proof.
  intros Hg Hj. unfold Fk. destruct (nth_error vs k) as [v|] eqn:E; [|reflexivity].
  destruct (nth_error (h_s h) k); [|reflexivity].
  destruct (nth_error x k); [|reflexivity]. destruct (nth_error (h_c h) k); [|reflexivity].
  apply nth_error_In in E. rewrite Forall_forall in Hg. destruct (Hg v E) as [Hkind _].
  unfold Dgrad. rewrite Hkind. destruct j as [|j]; [lia|]. cbn [nth]. destruct j; unfold Rdiv; ring.
Qed.

Lemma Fsum_scalar_high (vs : list varR) hs x k j : Forall gvar_ok vs -> (0 < j)%nat -> Fsum vs hs x k j = 0.
Proof. intros Hg Hj. apply Fsum_zero. intros h _. apply Fk_scalar_high; assumption. Qed.

(* ================================================================== refinement *)
Section Refine.
  Variable c : cfgR.
  Hypothesis Hok : cfg_ok c.
  Local Notation vs := (c_vars c).
  (* base geometry: the boundaries of the (current) configuration *)
  Variable g0 : list boundR.
  Hypothesis Hg0 : geom_ok c g0.
  Local Notation GS := (All3 (fun v b b' => gstep v b b') vs).
  Local Notation ADM := (All3 (fun v b xv => adm_var v b (scR xv)) vs).

  Lemma Hvars : Forall var_ok vs.
  Proof. exact (proj1 Hok). Qed.
  Lemma Hsg : sig_ok vs (c_sigmas c).
  Proof. exact (proj1 (proj2 Hok)). Qed.
  Lemma Hsig : sigmas_ok c.
  Proof. exact (proj1 (proj2 (proj2 Hok))). Qed.

  (* a hill that is zero everywhere off the grid g *)
  Definition Far (g : list boundR) (h : hillR) : Prop :=
    forall x, ADM g x -> index_ok (gsizes g) (gbins Rops vs g x) = false -> 23 < Qexp vs (h_s h) x (h_c h).
  (* a hill (with positive widths) at least six of its sigmas inside the expandable edges of g *)
  Definition Clear (g : list boundR) (h : hillR) : Prop :=
    All4 clear_var vs g (h_c h) (h_s h) /\ Forall (Rlt 0) (h_s h).

  Record Inv (m : stateR) (s : sstate) : Prop := mkInv {
    inv_new : st_new m = s_pend s;
    inv_old : c_keep c = true -> st_old m = s_tab s;
    inv_sub : Dropped (fun _ => True) (s_tab s) (st_old m);
    inv_geom : st_geom m = s_geom s;
    inv_grel : c_use_grids c = true -> GS g0 (s_geom s);
    inv_e : forall ix, index_ok (gsizes (s_geom s)) ix = true ->
              st_e m ix = Esum vs (s_tab s) (centre Rops vs (s_geom s) ix);
    inv_g : forall ix k, index_ok (gsizes (s_geom s)) ix = true -> (k < length vs)%nat ->
              st_g m ix k = - Fsum vs (s_tab s) (centre Rops vs (s_geom s) ix) k 0;
    inv_off_old : c_use_grids c = true -> Dropped (Far (s_geom s)) (s_tab s) (st_off_old m);
    inv_off_new : c_use_grids c = true -> Dropped (Far (s_geom s)) (s_pend s) (st_off_new m);
    inv_nogrid : c_use_grids c = false -> s_tab s = [] /\ st_off_old m = [] /\ st_off_new m = [];
    inv_clear : c_use_grids c = true -> forall h, In h (s_all s) -> Clear (s_geom s) h
  }.

  Lemma init_inv : g0 = c_geom0 c -> Inv (init_state Rops c) (mkS [] [] (c_geom0 c)).
  Proof.
    intros Eg0.
    constructor; cbn [init_state st_new st_old st_e st_g st_geom st_off_old st_off_new s_tab s_pend s_geom s_all app].
    - reflexivity.
    - intros _. reflexivity.
    - apply D_nil.
    - reflexivity.
    - intros G. rewrite <- Eg0. apply All3_refl_gstep.
      symmetry. apply (All2_length _ _ _ (Hg0 G)).
    - intros ix _. cbn. lra.
    - intros ix k _ _. cbn. lra.
    - intros _. apply D_nil.
    - intros _. apply D_nil.
    - intros _. auto.
    - intros _ h [].
  Qed.

  (* facts about the current geometry *)
  Lemma geom_facts s : c_use_grids c = true -> GS g0 (s_geom s) ->
    All2 bound_ok vs (s_geom s) /\ Forall gvar_ok vs /\ length (s_geom s) = length vs.
  Proof.
    intros G Hg. pose proof Hok as (_ & _ & _ & H). destruct (H G) as [_ Hgv].
    split; [apply (All2_bound_gstep vs _ _ (Hg0 G) Hg)|]. split; [exact Hgv|].
    destruct (All3_length _ _ _ _ Hg) as [_ Hl]. symmetry. exact Hl.
  Qed.

  Lemma adm_current s x : c_use_grids c = true -> GS g0 (s_geom s) -> adm c g0 x -> ADM (s_geom s) x.
  Proof.
    intros G Hg Ha. destruct (geom_facts s G Hg) as (_ & Hgv & _).
    apply (proj1 (All3_adm_gstep vs _ _ x Hgv Hg)). apply Ha. exact G.
  Qed.

  (* ---- what the bias returns ---- *)
  Lemma inside_eq m s x : st_geom m = s_geom s -> inside Rops c m x = in_grid c (s_geom s) x.
  Proof. intros H. unfold inside, in_grid. rewrite H. reflexivity. Qed.

  Lemma far_K g h x : Far g h -> ADM g x -> index_ok (gsizes g) (gbins Rops vs g x) = false -> K vs h x = 0.
  Proof. intros Hf Ha Ho. apply K_far. apply Hf; assumption. Qed.
  Lemma far_Fk g h x k j : Far g h -> ADM g x -> index_ok (gsizes g) (gbins Rops vs g x) = false -> Fk vs h x k j = 0.
  Proof. intros Hf Ha Ho. apply Fk_far. apply Hf; assumption. Qed.

  Lemma energy_spec m s x : Inv m s -> adm c g0 x -> calc_energy Rops c m x = spec_energy c s x.
  Proof.
    intros HI Ha. destruct HI as [Hnew Hold Hsub Hgeom Hgrel He Hg Hoo Hon Hng Hcl].
    unfold calc_energy, spec_energy. rewrite (inside_eq m s x Hgeom), hills_energy_R, Hnew.
    destruct (in_grid c (s_geom s) x) eqn:Hin.
    - unfold in_grid in Hin. apply andb_prop in Hin. destruct Hin as [G Hin].
      rewrite Hgeom, (He _ Hin). unfold bin_centre. cbn [nadd n0 Rops]. lra.
    - rewrite hills_energy_R. unfold s_all. rewrite Esum_app. cbn [n0 Rops].
      destruct (c_use_grids c) eqn:G.
      + unfold in_grid in Hin. rewrite G in Hin. cbn [andb] in Hin.
        pose proof (adm_current s x G (Hgrel eq_refl) Ha) as Hadm.
        rewrite (Dropped_Esum (Far (s_geom s)) vs x (s_tab s) (st_off_old m)); [lra| |apply Hoo; reflexivity].
        intros h Hf. apply (far_K (s_geom s)); assumption.
      + destruct (Hng eq_refl) as (-> & -> & _). rewrite !Esum_nil. lra.
  Qed.

  Lemma force_spec m s x k j : Inv m s -> adm c g0 x -> (k < length vs)%nat ->
    nth j (calc_force Rops c m x k) 0 = spec_force c s x k j.
  Proof.
    intros HI Ha Hk. destruct HI as [Hnew Hold Hsub Hgeom Hgrel He Hg Hoo Hon Hng Hcl].
    unfold calc_force, spec_force. rewrite (inside_eq m s x Hgeom), Hnew.
    destruct (in_grid c (s_geom s) x) eqn:Hin.
    - unfold in_grid in Hin. apply andb_prop in Hin. destruct Hin as [G Hin].
      destruct (geom_facts s G (Hgrel G)) as (_ & Hgv & _).
      rewrite hills_force_R by (rewrite fzero_scalar by assumption; reflexivity).
      rewrite Hgeom, (Hg _ _ Hin Hk). unfold bin_centre. cbn [nadd nmul nneg n0 n1 Rops].
      destruct j as [|j]; cbn [nth].
      + lra.
      + rewrite (Fsum_scalar_high vs (s_tab s)) by (assumption || lia). destruct j; lra.
    - rewrite hills_force_R by (apply hills_force_length).
      rewrite hills_force_R by reflexivity. rewrite fzero_nth. unfold s_all. rewrite Fsum_app.
      destruct (c_use_grids c) eqn:G.
      + unfold in_grid in Hin. rewrite G in Hin. cbn [andb] in Hin.
        pose proof (adm_current s x G (Hgrel eq_refl) Ha) as Hadm.
        rewrite (Dropped_Fsum (Far (s_geom s)) vs x k j (s_tab s) (st_off_old m)); [lra| |apply Hoo; reflexivity].
        intros h Hf. apply (far_Fk (s_geom s)); assumption.
      + destruct (Hng eq_refl) as (-> & -> & _). rewrite !Fsum_nil. lra.
  Qed.

  (* ---- update_grid_params ---- *)
  Lemma Far_step g g' h : Forall gvar_ok vs -> All2 bound_ok vs g -> GS g g' -> Far g h -> Far g' h.
  Proof.
    intros Hgv Hb Hs Hf x Ha Ho. apply Hf.
    - apply (proj2 (All3_adm_gstep vs g g' x Hgv Hs)). exact Ha.
    - destruct (index_ok (gsizes g) (gbins Rops vs g x)) eqn:E; [|reflexivity].
      rewrite (in_grid_step vs g g' x Hvars Hgv Hb Hs E) in Ho. discriminate.
  Qed.

  Lemma same_sstate s : mkS (s_tab s) (s_pend s) (s_geom s) = s.
  Proof. destruct s; reflexivity. Qed.

  Lemma mb_covers : All2 (fun v si => 6 * si < IZR (min_buffer Rops c) * v_width v) vs (c_sigmas c).
  Proof. apply min_buffer_covers; [exact Hsig|exact Hvars|exact Hsg]. Qed.

  Lemma All2_and_pos (P : varR -> R -> Prop) us : forall sg, All2 P us sg -> Forall (Rlt 0) sg ->
    All2 (fun v si => 0 < si /\ P v si) us sg.
  Proof.
    induction us as [|v us IH]; intros [|si sg] H Hp; cbn [All2] in *; try tauto.
    inversion Hp as [|s0 l0 Hp1 Hp2]; subst. destruct H as [Ha Hb]. split; [split; assumption|apply IH; assumption].
  Qed.

  Lemma not_near_far g x sg : c_use_grids c = true -> All2 bound_ok vs g -> Forall gvar_ok vs ->
    length g = length vs -> length x = length vs -> length sg = length vs -> Forall (Rlt 0) sg ->
    near_edge Rops c g sg x = false -> forall w it, Far g (mkHill it w x sg).
  Proof.
    intros G Hb Hgv Hlg Hlx Hls Hp Hn w it y Hay Hout. cbn [h_c h_s].
    unfold near_edge in Hn. cbn [nltb nofZ Rops] in Hn. apply Rltb_false in Hn.
    pose proof (bin_dist_far (off_margin Rops c sg) vs g x _ Hlg Hlx Hn) as Hf.
    destruct (margin_covers c sg Hvars Hls) as [H1 Hc].
    apply (far_outside_gen (off_margin Rops c sg) vs g sg y x Hvars Hgv Hb Hay Hf); [lra| |exact Hout].
    apply All2_and_pos; assumption.
  Qed.

  Lemma clear_facts g h : Clear g h ->
    length (h_c h) = length vs /\ length (h_s h) = length vs /\ Forall (Rlt 0) (h_s h).
  Proof.
    intros [H4 Hp]. destruct (All4_length _ _ _ _ _ H4) as (_ & H2 & H3). repeat split; [symmetry; exact H2|symmetry; exact H3|exact Hp].
  Qed.

  Lemma expand_inv m s x : Inv m s -> adm c g0 x -> Inv (update_grid_params Rops c m x) (spec_expand c s x).
  Proof.
    intros HI Ha. pose proof HI as HI0. destruct HI as [Hnew Hold Hsub Hgeom Hgrel He Hg Hoo Hon Hng Hcl].
    unfold update_grid_params, spec_expand, next_geom. rewrite Hgeom.
    destruct (c_use_grids c && existsb (@v_expand R) vs) eqn:E; [|rewrite same_sstate; exact HI0].
    destruct (geom_changed (s_geom s) (expand_geom Rops c vs (s_geom s) x)) eqn:Ec; [|rewrite same_sstate; exact HI0].
    apply andb_prop in E. destruct E as [G _].
    destruct (geom_facts s G (Hgrel G)) as (Hb & Hgv & Hlen).
    assert (Hlx : length x = length vs).
    { specialize (Ha G). destruct (All3_length _ _ _ _ Ha) as [_ Hl]. symmetry. exact Hl. }
    destruct (expand_geom_spec c vs (s_geom s) x Hvars Hlen Hlx) as [Hs _].
    set (g' := expand_geom Rops c vs (s_geom s) x) in *.
    constructor; cbn [st_new st_old st_e st_g st_geom st_off_old st_off_new s_tab s_pend s_geom s_all].
    - exact Hnew.
    - exact Hold.
    - exact Hsub.
    - reflexivity.
    - intros _. apply (All3_gstep_trans vs _ _ _ (Hgrel G) Hs).
    - intros ix Hix. destruct (remap_lemma vs (s_geom s) g' ix Hvars Hgv Hb Hs Hix) as [R1 R2].
      destruct (index_ok (gsizes (s_geom s)) (remap_ix Rops vs g' (s_geom s) ix)) eqn:Eo.
      + rewrite (He _ Eo), (R1 eq_refl). reflexivity.
      + symmetry. apply Esum_zero. intros h Hin. apply K_far.
        destruct (Hcl G h ltac:(unfold s_all; apply in_or_app; left; exact Hin)) as [H4 Hp]. apply (R2 eq_refl _ _ H4 Hp).
    - intros ix k Hix Hk. destruct (remap_lemma vs (s_geom s) g' ix Hvars Hgv Hb Hs Hix) as [R1 R2].
      destruct (index_ok (gsizes (s_geom s)) (remap_ix Rops vs g' (s_geom s) ix)) eqn:Eo.
      + rewrite (Hg _ _ Eo Hk), (R1 eq_refl). reflexivity.
      + rewrite Fsum_zero; [cbn; lra|]. intros h Hin. apply Fk_far.
        destruct (Hcl G h ltac:(unfold s_all; apply in_or_app; left; exact Hin)) as [H4 Hp]. apply (R2 eq_refl _ _ H4 Hp).
    - intros _. apply (Dropped_trans _ _ (st_off_old m)).
      + apply (Dropped_mono (Far (s_geom s))); [|apply Hoo; exact G]. intros h. apply (Far_step _ _ h Hgv Hb Hs).
      + apply Dropped_filter. intros h Hin Hn. destruct h as [it w cx sg]. unfold near_hill in Hn. cbn [h_c h_s] in Hn.
        assert (Hb' : All2 bound_ok vs g') by (apply (All2_bound_gstep vs _ _ Hb Hs)).
        assert (Hl' : length g' = length vs) by (symmetry; apply (All2_length _ _ _ Hb')).
        destruct (clear_facts _ _ (Hcl G (mkHill it w cx sg) ltac:(unfold s_all; apply in_or_app; left; apply (Dropped_In _ _ _ (Hoo G)); exact Hin))) as (Hlc & Hls & Hp).
        cbn [h_c h_s] in Hlc, Hls, Hp. apply (not_near_far g' cx sg G Hb' Hgv Hl' Hlc Hls Hp Hn).
    - intros _. apply (Dropped_trans _ _ (st_off_new m)).
      + apply (Dropped_mono (Far (s_geom s))); [|apply Hon; exact G]. intros h. apply (Far_step _ _ h Hgv Hb Hs).
      + apply Dropped_filter. intros h Hin Hn. destruct h as [it w cx sg]. unfold near_hill in Hn. cbn [h_c h_s] in Hn.
        assert (Hb' : All2 bound_ok vs g') by (apply (All2_bound_gstep vs _ _ Hb Hs)).
        assert (Hl' : length g' = length vs) by (symmetry; apply (All2_length _ _ _ Hb')).
        destruct (clear_facts _ _ (Hcl G (mkHill it w cx sg) ltac:(unfold s_all; apply in_or_app; right; apply (Dropped_In _ _ _ (Hon G)); exact Hin))) as (Hlc & Hls & Hp).
        cbn [h_c h_s] in Hlc, Hls, Hp. apply (not_near_far g' cx sg G Hb' Hgv Hl' Hlc Hls Hp Hn).
    - intros G'. rewrite G in G'. discriminate G'.
    - intros _ h Hin. destruct (Hcl G h Hin) as [H4 Hp]. split; [|exact Hp].
      apply (All4_clear_gstep vs (s_geom s) g' (h_c h) (h_s h) Hvars Hs H4).
  Qed.

  (* ---- update_bias ---- *)
  Lemma eligible_deposit i : deposit_now c i = eligible c i.
  Proof. reflexivity. Qed.


  Lemma eb_scale_R i : eb_scale Rops c i = eb_factor c i.
  Proof.
    unfold eb_scale, eb_factor. destruct (c_eb c); [|reflexivity]. cbn [nmul ndiv nadd nsub n1 nofZ Rops].
    destruct (i_it i <? c_eb_equil c)%Z; cbv zeta; rewrite ?Rmult_1_l; reflexivity.
  Qed.

  (* the weight of the hill added by update_bias *)
  Lemma deposit_weight m s i : Inv m s -> adm c g0 (i_x i) ->
    nmul Rops (c_weight c)
      (if c_wt c
       then nmul Rops (eb_scale Rops c i)
              (nexp Rops (ndiv Rops (nmul Rops (nneg Rops (n1 Rops)) (wt_energy_here Rops c m (i_x i)))
                                    (nmul Rops (c_bias_temp c) (c_kb c))))
       else eb_scale Rops c i)
    = spec_height c s i.
  Proof.
    intros HI Ha. unfold spec_height, wt_energy_here. rewrite eb_scale_R. destruct (c_wt c).
    - rewrite (energy_spec m s (i_x i) HI Ha). cbn [nmul n1 nexp ndiv nneg Rops].
      f_equal. f_equal. f_equal. unfold Rdiv. ring.
    - cbn [nmul Rops]. ring.
  Qed.

  Lemma deposit_inv m s i : Inv m s -> adm c g0 (i_x i) ->
    (c_use_grids c = true -> All3 (fun v b' xv => buffer_ok c v b' (scR xv)) vs (s_geom s) (i_x i)) ->
    Inv (update_bias Rops c m i) (spec_dep c s i).
  Proof.
    intros HI Ha Hbuf. pose proof HI as HI0. destruct HI as [Hnew Hold Hsub Hgeom Hgrel He Hg Hoo Hon Hng Hcl].
    unfold update_bias, spec_dep. rewrite eligible_deposit.
    destruct (eligible c i) eqn:El; [|exact HI0].
    rewrite (deposit_weight m s i HI0 Ha). set (h := mkHill (i_it i) (spec_height c s i) (i_x i) (c_sigmas c)).
    destruct Hsg as [Hsl Hsp].
    constructor; cbn [st_new st_old st_e st_g st_geom st_off_old st_off_new s_tab s_pend s_geom s_all].
    - rewrite Hnew. reflexivity.
    - exact Hold.
    - exact Hsub.
    - exact Hgeom.
    - exact Hgrel.
    - exact He.
    - exact Hg.
    - exact Hoo.
    - intros G. rewrite G, Hgeom. cbn [andb].
      destruct (geom_facts s G (Hgrel G)) as (Hb & Hgv & Hlen).
      assert (Hlx : length (i_x i) = length vs).
      { specialize (Ha G). destruct (All3_length _ _ _ _ Ha) as [_ Hl]. symmetry. exact Hl. }
      unfold near_hill. cbn [h_c h_s h].
      destruct (near_edge Rops c (s_geom s) (c_sigmas c) (i_x i)) eqn:En.
      + apply Dropped_app; [apply Hon; exact G|]. apply D_keep. apply D_nil.
      + rewrite <- (app_nil_r (st_off_new m)). apply Dropped_app; [apply Hon; exact G|].
        apply D_drop; [|apply D_nil]. apply (not_near_far _ _ _ G Hb Hgv Hlen Hlx Hsl Hsp En).
    - intros G. rewrite G. cbn [andb]. apply (Hng G).
    - intros G h' Hin. apply in_app_or in Hin. destruct Hin as [Hin|Hin].
      + apply (Hcl G). unfold s_all. apply in_or_app. left. exact Hin.
      + apply in_app_or in Hin. destruct Hin as [Hin|[<-|[]]].
        * apply (Hcl G). unfold s_all. apply in_or_app. right. exact Hin.
        * destruct (geom_facts s G (Hgrel G)) as (Hb & _ & _).
          unfold Clear, h. cbn [h_c h_s]. split; [|exact Hsp].
          apply (All4_buffer_clear c vs _ _ _ Hvars Hb mb_covers (Hbuf G)).
  Qed.

  (* ---- add_hill of a hill that was not deposited by this instance (a hill of another replica) ---- *)
  Lemma add_inv m s h : Inv m s -> length (h_c h) = length vs -> sig_ok vs (h_s h) ->
    (c_use_grids c = true -> Clear (s_geom s) h) ->
    Inv (add_hill Rops c m h) (mkS (s_tab s) (s_pend s ++ [h]) (s_geom s)).
  Proof.
    intros HI Hlx [Hsl Hsp] Hclr. destruct HI as [Hnew Hold Hsub Hgeom Hgrel He Hg Hoo Hon Hng Hcl].
    unfold add_hill.
    constructor; cbn [st_new st_old st_e st_g st_geom st_off_old st_off_new s_tab s_pend s_geom s_all].
    - rewrite Hnew. reflexivity.
    - exact Hold.
    - exact Hsub.
    - exact Hgeom.
    - exact Hgrel.
    - exact He.
    - exact Hg.
    - exact Hoo.
    - intros G. rewrite G, Hgeom. cbn [andb].
      destruct (geom_facts s G (Hgrel G)) as (Hb & Hgv & Hlen).
      unfold near_hill.
      destruct (near_edge Rops c (s_geom s) (h_s h) (h_c h)) eqn:En.
      + apply Dropped_app; [apply Hon; exact G|]. apply D_keep. apply D_nil.
      + rewrite <- (app_nil_r (st_off_new m)). apply Dropped_app; [apply Hon; exact G|].
        apply D_drop; [|apply D_nil].
        pose proof (not_near_far _ _ _ G Hb Hgv Hlen Hlx Hsl Hsp En (h_W h) (h_it h)) as Hf.
        destruct h as [it w cx sg]. cbn [h_it h_W h_c h_s] in Hf. exact Hf.
    - intros G. rewrite G. cbn [andb]. apply (Hng G).
    - intros G h' Hin. apply in_app_or in Hin. destruct Hin as [Hin|Hin].
      + apply (Hcl G). unfold s_all. apply in_or_app. left. exact Hin.
      + apply in_app_or in Hin. destruct Hin as [Hin|[<-|[]]].
        * apply (Hcl G). unfold s_all. apply in_or_app. right. exact Hin.
        * apply Hclr. exact G.
  Qed.

  (* ---- project_hills ---- *)
  Lemma project_inv m s : Inv m s -> c_use_grids c = true ->
    Inv (project Rops c m) (mkS (s_tab s ++ s_pend s) [] (s_geom s)).
  Proof.
    intros HI G. destruct HI as [Hnew Hold Hsub Hgeom Hgrel He Hg Hoo Hon Hng Hcl].
    destruct (geom_facts s G (Hgrel G)) as (Hb & Hgv & Hlen).
    unfold project. constructor; cbn [st_new st_old st_e st_g st_geom st_off_old st_off_new s_tab s_pend s_geom s_all].
    - reflexivity.
    - intros Ek. rewrite Ek, (Hold Ek), Hnew. reflexivity.
    - rewrite Hnew. destruct (c_keep c) eqn:Ek.
      + rewrite (Hold eq_refl). apply Dropped_refl.
      + generalize (s_tab s ++ s_pend s). intros l.
        induction l as [|h l IH]; [apply D_nil|apply D_drop; [exact I|exact IH]].
    - exact Hgeom.
    - exact Hgrel.
    - intros ix Hix. rewrite (He _ Hix), Hgeom, hills_energy_R, Hnew, Esum_app. cbn [nadd n0 Rops]. lra.
    - intros ix k Hix Hk. rewrite (Hg _ _ Hix Hk), Hgeom, sc_R, scR_nth.
      rewrite hills_force_R by (rewrite fzero_scalar by assumption; reflexivity).
      rewrite Hnew, Fsum_app. cbn [nsub n0 nth Rops]. lra.
    - intros _. apply Dropped_app; [apply Hoo; exact G|apply Hon; exact G].
    - intros _. apply D_nil.
    - intros G'. congruence.
    - intros _ h Hin. unfold s_all in Hin. cbn [s_tab s_pend] in Hin. rewrite app_nil_r in Hin. apply (Hcl G h Hin).
  Qed.

  Lemma tabulate_inv m s : Inv m s -> Inv (save_state Rops c m) (spec_tabulate c s).
  Proof.
    intros HI. unfold save_state, spec_tabulate. destruct (c_use_grids c) eqn:G; [|exact HI].
    apply project_inv; assumption.
  Qed.

  (* ---- update ---- *)
  Lemma step_inv m s i : Inv m s -> adm c g0 (i_x i) -> Inv (step_state Rops c m i) (spec_step c s i).
  Proof.
    intros HI Ha. unfold step_state, spec_step.
    pose proof (expand_inv m s (i_x i) HI Ha) as H1.
    assert (Hbuf : c_use_grids c = true ->
              All3 (fun v b' xv => buffer_ok c v b' (scR xv)) vs (s_geom (spec_expand c s (i_x i))) (i_x i)).
    { intros G. destruct HI as [_ _ _ _ Hgrel _ _ _ _ _ _].
      destruct (geom_facts s G (Hgrel G)) as (_ & _ & Hlen).
      assert (Hlx : length (i_x i) = length vs).
      { specialize (Ha G). destruct (All3_length _ _ _ _ Ha) as [_ Hl]. symmetry. exact Hl. }
      cbn [spec_expand s_geom]. apply (next_geom_spec c (s_geom s) (i_x i) G Hvars Hlen Hlx). }
    pose proof (deposit_inv _ _ i H1 Ha Hbuf) as H2.
    unfold spec_proj, update_grid_data. destruct (c_use_grids c) eqn:G.
    - destruct (i_it i mod c_gfreq c =? 0)%Z; [|exact H2].
      unfold spec_tabulate. rewrite G. apply project_inv; assumption.
    - destruct (i_it i mod c_gfreq c =? 0)%Z; [|exact H2]. unfold spec_tabulate. rewrite G. exact H2.
  Qed.

  (* ---- read_state_data in a fresh instance (same geometry) ---- *)
  Lemma near_filter_dropped s hs : c_use_grids c = true -> GS g0 (s_geom s) ->
    (forall h, In h hs -> Clear (s_geom s) h) ->
    Dropped (Far (s_geom s)) hs (filter (near_hill Rops c (s_geom s)) hs).
  Proof.
    intros G Hgr Hcl. destruct (geom_facts s G Hgr) as (Hb & Hgv & Hlen).
    apply Dropped_filter. intros h Hin Hn. destruct h as [it w x sg]. unfold near_hill in Hn. cbn [h_c h_s] in Hn.
    destruct (clear_facts _ _ (Hcl _ Hin)) as (Hlc & Hls & Hp). cbn [h_c h_s] in Hlc, Hls, Hp.
    apply (not_near_far _ _ _ G Hb Hgv Hlen Hlc Hls Hp Hn).
  Qed.

  Lemma read_inv m s : Inv m s -> (c_use_grids c = true -> s_pend s = []) -> Inv (read_state Rops c m) s.
  Proof.
    intros HI Hp. destruct HI as [Hnew Hold Hsub Hgeom Hgrel He Hg Hoo Hon Hng Hcl].
    unfold read_state, state_hills. destruct (c_use_grids c) eqn:G; cbn [negb orb].
    - specialize (Hp eq_refl). specialize (Hgrel eq_refl). specialize (Hoo eq_refl). specialize (Hon eq_refl).
      specialize (Hcl eq_refl). rewrite Hp in *.
      assert (Hoff_new : st_off_new m = []) by (apply (Dropped_nil _ _ Hon)).
      assert (Hgr' : c_use_grids c = true -> GS g0 (s_geom s)) by (intros _; exact Hgrel).
      constructor; cbn [st_new st_old st_e st_g st_geom st_off_old st_off_new].
      + rewrite Hp. reflexivity.
      + intros Ek. rewrite Ek, (Hold Ek), Hnew, app_nil_r. reflexivity.
      + destruct (c_keep c) eqn:Ek.
        * rewrite (Hold eq_refl), Hnew, app_nil_r. apply Dropped_refl.
        * rewrite Hoff_new, app_nil_r. apply (Dropped_mono (Far (s_geom s))); [intros; exact I|exact Hoo].
      + exact Hgeom.
      + exact Hgr'.
      + exact He.
      + exact Hg.
      + intros _. rewrite Hgeom. destruct (c_keep c) eqn:Ek.
        * rewrite (Hold eq_refl), Hnew, app_nil_r. apply (near_filter_dropped s _ G Hgrel).
          intros h Hin. apply Hcl. unfold s_all. apply in_or_app. left. exact Hin.
        * rewrite Hoff_new, app_nil_r. apply (Dropped_trans _ _ _ Hoo).
          apply (near_filter_dropped s _ G Hgrel).
          intros h Hin. apply Hcl. unfold s_all. apply in_or_app. left.
          apply (Dropped_In _ _ _ Hoo). exact Hin.
      + intros _. rewrite Hp. apply D_nil.
      + intros G'. rewrite G in G'. discriminate G'.
      + intros _. exact Hcl.
    - destruct (Hng eq_refl) as (Ht & Ho1 & Ho2).
      assert (Hold' : st_old m = []).
      { rewrite Ht in Hsub. apply (Dropped_nil _ _ Hsub). }
      constructor; cbn [st_new st_old st_e st_g st_geom st_off_old st_off_new].
      + rewrite Hold', Hnew. reflexivity.
      + intros _. rewrite Ht. reflexivity.
      + rewrite Ht. apply D_nil.
      + exact Hgeom.
      + intros G'. rewrite G in G'. discriminate G'.
      + exact He.
      + exact Hg.
      + intros G'. rewrite G in G'. discriminate G'.
      + intros G'. rewrite G in G'. discriminate G'.
      + intros _. auto.
      + intros G'. rewrite G in G'. discriminate G'.
  Qed.

  Lemma tabulate_pend s : c_use_grids c = true -> s_pend (spec_tabulate c s) = [].
  Proof. intros G. unfold spec_tabulate. rewrite G. reflexivity. Qed.

  Lemma restart_inv m s : Inv m s -> Inv (restart_state Rops c m None) (spec_restart c s None).
  Proof.
    intros HI. unfold restart_state, spec_restart. apply read_inv; [apply tabulate_inv; exact HI|apply tabulate_pend].
  Qed.

  Lemma reload_inv m s : Inv m s -> Inv (reload_state Rops c m) (spec_tabulate c s).
  Proof.
    intros HI. pose proof (restart_inv m s HI) as H. unfold restart_state, spec_restart in H.
    destruct H as [Hnew Hold Hsub Hgeom Hgrel He Hg Hoo Hon Hng Hcl].
    unfold reload_state. constructor; cbn [st_new st_old st_e st_g st_geom st_off_old st_off_new]; assumption.
  Qed.

  (* without keepHills the hills listed after read_state_data are hills near the edges: the others vanish off the grid *)
  Lemma read_old_far m s : Inv m s -> c_use_grids c = true -> c_keep c = false -> s_pend s = [] ->
    Dropped (Far (s_geom s)) (s_tab s) (st_old (read_state Rops c m)).
  Proof.
    intros HI G Ek Hp. destruct HI as [Hnew Hold Hsub Hgeom Hgrel He Hg Hoo Hon Hng Hcl].
    unfold read_state, state_hills. rewrite G, Ek. cbn [negb orb st_old].
    specialize (Hon G). rewrite Hp in Hon. rewrite (Dropped_nil _ _ Hon), app_nil_r. apply Hoo. exact G.
  Qed.

  Lemma event_inv m s e : Inv m s ->
    match e with EStep i => adm c g0 (i_x i) | ERestart (Some _) => False | _ => True end ->
    Inv (apply_event Rops c m e) (spec_event c s e).
  Proof.
    intros HI Ha. destruct e as [i| |[g'|]| |p]; cbn [apply_event spec_event].
    - apply step_inv; assumption.
    - apply tabulate_inv; assumption.
    - contradiction.
    - apply restart_inv; assumption.
    - apply reload_inv; assumption.
    - apply restart_inv; assumption.
  Qed.
End Refine.

(* ================================================================== restart with rebinGrids (new base geometry) *)

Lemma s_all_save c s : s_all (spec_tabulate c s) = s_all s.
Proof. unfold spec_tabulate, s_all. destruct (c_use_grids c); cbn [s_tab s_pend]; rewrite ?app_nil_r; reflexivity. Qed.

Lemma rebin_inv c g0 g' m s : cfg_ok c -> geom_ok c g0 ->
  Inv c g0 m s -> rebin_ok c g' s ->
  Inv c (next_base c g0 (ERestart (Some g'))) (restart_state Rops c m (Some g')) (spec_restart c s (Some g')).
Proof.
  intros Hok Hg0 HI Hr. pose proof (restart_inv c Hok g0 Hg0 m s HI) as H1.
  pose proof (tabulate_inv c Hok g0 Hg0 m s HI) as Hsave.
  unfold restart_state, spec_restart in *. cbn [next_base].
  set (m1 := read_state Rops c (save_state Rops c m)) in *. set (s1 := spec_tabulate c s) in *.
  unfold rebin_state. destruct (c_use_grids c) eqn:G; [|exact H1].
  destruct (Hr G) as (Hb' & Hcase).
  assert (Hp1 : s_pend s1 = []) by (unfold s1; apply tabulate_pend; exact G).
  assert (Hg1 : s_geom s1 = s_geom s) by (unfold s1, spec_tabulate; rewrite G; reflexivity).
  pose proof (read_old_far c g0 (save_state Rops c m) s1 Hsave G) as Hfar1. fold m1 in Hfar1.
  destruct H1 as [Hnew Hold Hsub Hgeom Hgrel He Hg Hoo Hon Hng Hcl].
  pose proof Hok as (Hvars & Hsgok & Hsig & Hgv0). destruct (Hgv0 G) as [_ Hgv].
  assert (Hlen' : length g' = length (c_vars c)) by (symmetry; apply (All2_length _ _ _ Hb')).
  destruct Hcase as [(Ek & Hcl')|(Ek & Hs)].
  - (* from the kept hills *)
    rewrite Ek. cbn [andb].
    assert (Hclear1 : forall h, In h (s_tab s1) -> Clear c g' h).
    { intros h Hin. split.
      - apply Hcl'. rewrite <- (s_all_save c s). fold s1. unfold s_all. apply in_or_app. left. exact Hin.
      - apply (Hcl G h). unfold s_all. apply in_or_app. left. exact Hin. }
    constructor; cbn [st_new st_old st_e st_g st_geom st_off_old st_off_new s_tab s_pend s_geom].
    + symmetry. exact Hp1.
    + intros _. apply (Hold Ek).
    + rewrite (Hold Ek). apply Dropped_refl.
    + reflexivity.
    + intros _. apply All3_refl_gstep. exact Hlen'.
    + intros ix Hix. rewrite (Hold Ek). destruct (s_tab s1) as [|h0 t0] eqn:Et.
      * rewrite Esum_nil.
        destruct (index_ok (gsizes (st_geom m1)) (remap_ix Rops (c_vars c) g' (st_geom m1) ix)) eqn:Eo; [|reflexivity].
        rewrite Hgeom in Eo. rewrite Hgeom, (He _ Eo), ?Et, Esum_nil. reflexivity.
      * rewrite hills_energy_R. cbn [nadd n0 Rops]. lra.
    + intros ix k Hix Hk. rewrite (Hold Ek). destruct (s_tab s1) as [|h0 t0] eqn:Et.
      * rewrite Fsum_nil.
        destruct (index_ok (gsizes (st_geom m1)) (remap_ix Rops (c_vars c) g' (st_geom m1) ix)) eqn:Eo; [|cbn; lra].
        rewrite Hgeom in Eo. rewrite Hgeom, (Hg _ _ Eo Hk), ?Et, Fsum_nil. lra.
      * rewrite sc_R, scR_nth, hills_force_R by (rewrite fzero_scalar by assumption; reflexivity).
        cbn [nsub n0 nth Rops]. lra.
    + intros _. rewrite (Hold Ek). destruct (s_tab s1) as [|h0 t0] eqn:Et.
      * rewrite (Dropped_nil _ _ (Hoo G)). apply D_nil.
      * apply Dropped_filter. intros h Hin Hn. destruct h as [it w x sg].
        unfold near_hill in Hn. cbn [h_c h_s] in Hn.
        destruct (clear_facts c _ _ (Hclear1 _ Hin)) as (Hlc & Hls & Hp). cbn [h_c h_s] in Hlc, Hls, Hp.
        apply (not_near_far c Hok g' x sg G Hb' Hgv Hlen' Hlc Hls Hp Hn).
    + intros _. rewrite Hp1. apply D_nil.
    + intros G'. rewrite G in G'. discriminate G'.
    + intros _ h Hin. unfold s_all in Hin. cbn [s_tab s_pend] in Hin. rewrite Hp1, app_nil_r in Hin. apply Hclear1. exact Hin.
  - (* from the grids of the state: map_grid onto an extension of the current grids *)
    rewrite Ek. cbn [andb]. rewrite <- Hg1 in Hs.
    destruct (geom_facts c Hok g0 Hg0 s1 G (Hgrel G)) as (Hb & _ & Hlen).
    specialize (Hfar1 Ek Hp1).
    assert (Hfar' : forall h, Far c (s_geom s1) h -> Far c g' h) by (intros h; apply (Far_step c Hok _ _ h Hgv Hb Hs)).
    assert (Hcl1 : forall h, In h (s_tab s1) -> Clear c (s_geom s1) h).
    { intros h Hin. apply (Hcl G). unfold s_all. apply in_or_app. left. exact Hin. }
    constructor; cbn [st_new st_old st_e st_g st_geom st_off_old st_off_new s_tab s_pend s_geom].
    + symmetry. exact Hp1.
    + intros Ek'. rewrite Ek in Ek'. discriminate Ek'.
    + exact Hsub.
    + reflexivity.
    + intros _. apply All3_refl_gstep. exact Hlen'.
    + intros ix Hix. rewrite Hgeom.
      destruct (remap_lemma (c_vars c) (s_geom s1) g' ix Hvars Hgv Hb Hs Hix) as [R1 R2].
      destruct (index_ok (gsizes (s_geom s1)) (remap_ix Rops (c_vars c) g' (s_geom s1) ix)) eqn:Eo.
      * rewrite (He _ Eo), (R1 eq_refl). reflexivity.
      * symmetry. apply Esum_zero. intros h Hin. apply K_far. destruct (Hcl1 h Hin) as [H4 Hp]. apply (R2 eq_refl _ _ H4 Hp).
    + intros ix k Hix Hk. rewrite Hgeom.
      destruct (remap_lemma (c_vars c) (s_geom s1) g' ix Hvars Hgv Hb Hs Hix) as [R1 R2].
      destruct (index_ok (gsizes (s_geom s1)) (remap_ix Rops (c_vars c) g' (s_geom s1) ix)) eqn:Eo.
      * rewrite (Hg _ _ Eo Hk), (R1 eq_refl). reflexivity.
      * rewrite Fsum_zero; [cbn; lra|]. intros h Hin. apply Fk_far. destruct (Hcl1 h Hin) as [H4 Hp]. apply (R2 eq_refl _ _ H4 Hp).
    + intros _. destruct (st_old m1) as [|h0 t0] eqn:Eh.
      * apply (Dropped_mono (Far c (s_geom s1))); [exact Hfar'|apply Hoo; exact G].
      * apply (Dropped_trans _ _ _ (Dropped_mono _ _ _ _ Hfar' Hfar1)).
        apply Dropped_filter. intros h Hin Hn. destruct h as [it w x sg].
        unfold near_hill in Hn. cbn [h_c h_s] in Hn.
        destruct (clear_facts c _ _ (Hcl1 _ (Dropped_In _ _ _ Hfar1 _ Hin))) as (Hlc & Hls & Hp). cbn [h_c h_s] in Hlc, Hls, Hp.
        apply (not_near_far c Hok g' x sg G Hb' Hgv Hlen' Hlc Hls Hp Hn).
    + intros _. rewrite Hp1. apply D_nil.
    + intros G'. rewrite G in G'. discriminate G'.
    + intros _ h Hin. destruct (Hcl G h Hin) as [H4 Hp]. split; [|exact Hp].
      apply (All4_clear_gstep (c_vars c) (s_geom s1) g' (h_c h) (h_s h) Hvars Hs H4).
Qed.

Lemma next_base_ok c g0 e s : geom_ok c g0 ->
  match e with ERestart (Some g') => rebin_ok c g' s | _ => True end ->
  geom_ok c (next_base c g0 e).
Proof.
  intros Hg0 He G. destruct e as [i| |[g'|]| |p]; cbn [next_base]; try (apply Hg0; exact G).
  rewrite G. destruct (He G) as (Hb & _). exact Hb.
Qed.

(* the invariant does not depend on the widths, weight and frequency configured for the hills to come *)
Lemma Inv_par c p g0 m s : Inv c g0 m s -> Inv (with_par c p) g0 m s.
Proof.
  intros [f1 f2 f3 f4 f5 f6 f7 f8 f9 f10 f11]. constructor; try assumption.
  cbn [with_par c_keep]. intros H. apply andb_prop in H. apply f2. tauto.
Qed.

Lemma final_cfg_cons (c : cfgR) e hist : final_cfg c (e :: hist) = final_cfg (next_cfg c e) hist.
Proof. reflexivity. Qed.

Lemma final_cfg_fixed (c : cfgR) hist :
  c_vars (final_cfg c hist) = c_vars c /\ c_use_grids (final_cfg c hist) = c_use_grids c /\
  c_eb (final_cfg c hist) = c_eb c /\ c_geom0 (final_cfg c hist) = c_geom0 c.
Proof.
  revert c. induction hist as [|e hist IH]; intros c; [repeat split|].
  rewrite final_cfg_cons. destruct (IH (next_cfg c e)) as (H1 & H2 & H3 & H4).
  rewrite H1, H2, H3, H4. destruct e; repeat split.
Qed.

Lemma frun_app {A} (f : cfgR -> A -> eventR -> A) h1 : forall c h2 a,
  frun f c (h1 ++ h2) a = frun f (final_cfg c h1) h2 (frun f c h1 a).
Proof. induction h1 as [|e h1 IH]; intros c h2 a; cbn [app frun]; [reflexivity|]. rewrite IH. reflexivity. Qed.

Lemma final_cfg_app (c : cfgR) h1 h2 : final_cfg c (h1 ++ h2) = final_cfg (final_cfg c h1) h2.
Proof. unfold final_cfg. apply fold_left_app. Qed.

Lemma fbase_app h1 : forall c h2 g0, fbase c (h1 ++ h2) g0 = fbase (final_cfg c h1) h2 (fbase c h1 g0).
Proof. induction h1 as [|e h1 IH]; intros c h2 g0; cbn [app fbase]; [reflexivity|]. rewrite IH. reflexivity. Qed.

Lemma run_inv_gen : forall hist c g0 m s, cfg_ok c ->
  geom_ok c g0 -> Inv c g0 m s -> hist_ok c g0 s hist ->
  Inv (final_cfg c hist) (fbase c hist g0) (frun (apply_event Rops) c hist m) (frun spec_event c hist s) /\
  geom_ok (final_cfg c hist) (fbase c hist g0) /\ cfg_ok (final_cfg c hist).
Proof.
  induction hist as [|e hist IH]; intros c g0 m s Hok Hg0 HI HH; cbn [frun fbase].
  - split; [exact HI|split; [exact Hg0|exact Hok]].
  - cbn [hist_ok] in HH. destruct HH as [He Hr]. rewrite final_cfg_cons.
    destruct e as [i| |[g'|]| |p]; cbn [next_cfg] in *.
    + apply IH; [exact Hok|exact Hg0|apply (event_inv c Hok g0 Hg0 m s (EStep i) HI He)|exact Hr].
    + apply IH; [exact Hok|exact Hg0|apply (event_inv c Hok g0 Hg0 m s ESave HI I)|exact Hr].
    + apply IH; [exact Hok|apply (next_base_ok c g0 (ERestart (Some g')) s Hg0 He)|apply (rebin_inv c g0 g' m s Hok Hg0 HI He)|exact Hr].
    + apply IH; [exact Hok|exact Hg0|apply (event_inv c Hok g0 Hg0 m s (ERestart None) HI I)|exact Hr].
    + apply IH; [exact Hok|exact Hg0|apply (event_inv c Hok g0 Hg0 m s EReload HI I)|exact Hr].
    + apply IH; [exact He|exact Hg0| |exact Hr].
      apply Inv_par. apply (event_inv c Hok g0 Hg0 m s (EReconf p) HI I).
Qed.

Lemma cfg_geom0_ok c : cfg_ok c -> geom_ok c (c_geom0 c).
Proof. intros (_ & _ & _ & H) G. destruct (H G) as [Hb _]. exact Hb. Qed.

Lemma run_inv c hist : cfg_ok c -> history_ok c hist ->
  Inv (final_cfg c hist) (final_base c hist) (final_state Rops c hist) (spec_run c hist) /\
  geom_ok (final_cfg c hist) (final_base c hist) /\ cfg_ok (final_cfg c hist).
Proof.
  intros Hok HH. unfold final_base, final_state, spec_run.
  apply (run_inv_gen hist c (c_geom0 c)); [exact Hok|apply cfg_geom0_ok; exact Hok| |exact HH].
  apply init_inv; [apply cfg_geom0_ok; exact Hok|reflexivity].
Qed.

(* ================================================================== multiple replicas: the mirror objects *)

Definition mirror_ev := @mirror_event R.
Definition mirror_spec (c : cfgR) (s : sstate) (e : mirror_ev) : sstate :=
  match e with MAdd h => mkS (s_tab s) (s_pend s ++ [h]) (s_geom s) | MProj => spec_tabulate c s end.
Definition mirror_run (c : cfgR) (evs : list mirror_ev) : stateR := fold_left (mirror_apply Rops c) evs (init_state Rops c).
Definition mirror_spec_run (c : cfgR) (evs : list mirror_ev) : sstate := fold_left (mirror_spec c) evs (mkS [] [] (c_geom0 c)).
(* multipleReplicas is refused together with expandBoundaries (and with keepHills) *)
Definition no_expand (c : cfgR) : Prop := Forall (fun v => v_expand v = false) (c_vars c).
(* a hill received from another replica: one centre per variable, positive widths *)
Definition mirror_ok (c : cfgR) (e : mirror_ev) : Prop :=
  match e with MAdd h => length (h_c h) = length (c_vars c) /\ sig_ok (c_vars c) (h_s h) | MProj => True end.

Lemma clear_no_expand (vs : list varR) : Forall (fun v => v_expand v = false) vs -> forall g cx sg,
  length g = length vs -> length cx = length vs -> length sg = length vs -> All4 clear_var vs g cx sg.
Proof.
  induction 1 as [|v vs Hv Hvs IH]; intros [|b g] [|x cx] [|si sg] H1 H2 H3; cbn in H1, H2, H3; try discriminate; cbn [All4]; [exact I|].
  split; [|apply IH; congruence]. unfold clear_var. intros E. congruence.
Qed.

Lemma mirror_inv_gen c : cfg_ok c -> no_expand c -> forall evs m s, Forall (mirror_ok c) evs ->
  Inv c (c_geom0 c) m s -> s_geom s = c_geom0 c ->
  Inv c (c_geom0 c) (fold_left (mirror_apply Rops c) evs m) (fold_left (mirror_spec c) evs s) /\
  s_geom (fold_left (mirror_spec c) evs s) = c_geom0 c.
Proof.
  intros Hok Hne. pose proof (cfg_geom0_ok c Hok) as Hg0.
  induction evs as [|e evs IH]; intros m s HF HI Hgeo; cbn [fold_left]; [split; assumption|].
  inversion HF as [|e' l' He Hl]; subst.
  destruct e as [h|]; cbn [mirror_apply mirror_spec].
  - destruct He as [Hlx Hsg]. apply IH; [exact Hl| |exact Hgeo].
    apply (add_inv c Hok (c_geom0 c) Hg0 m s h HI Hlx Hsg).
    intros G. split; [|exact (proj2 Hsg)].
    destruct (geom_facts c Hok (c_geom0 c) Hg0 s G (inv_grel _ _ _ _ HI G)) as (_ & _ & Hlen).
    apply clear_no_expand; [exact Hne|exact Hlen|exact Hlx|exact (proj1 Hsg)].
  - unfold spec_tabulate. destruct (c_use_grids c) eqn:G.
    + apply IH; [exact Hl| |exact Hgeo]. apply (project_inv c Hok (c_geom0 c) Hg0 m s HI G).
    + apply IH; [exact Hl|exact HI|exact Hgeo].
Qed.

Lemma mirror_inv c evs : cfg_ok c -> no_expand c -> Forall (mirror_ok c) evs ->
  Inv c (c_geom0 c) (mirror_run c evs) (mirror_spec_run c evs) /\ s_geom (mirror_spec_run c evs) = c_geom0 c.
Proof.
  intros Hok Hne HF. apply (mirror_inv_gen c Hok Hne evs _ _ HF); [|reflexivity].
  apply init_inv; [apply cfg_geom0_ok; exact Hok|reflexivity].
Qed.

(* what a mirror contributes: the sum of the hills received from its replica (tabulated at the bin centre, the others at x) *)
Lemma mirror_energy c evs x : cfg_ok c -> no_expand c -> Forall (mirror_ok c) evs -> adm c (c_geom0 c) x ->
  calc_energy Rops c (mirror_run c evs) x = spec_energy c (mirror_spec_run c evs) x.
Proof.
  intros Hok Hne HF Ha. destruct (mirror_inv c evs Hok Hne HF) as [HI _].
  apply (energy_spec c Hok (c_geom0 c) (cfg_geom0_ok c Hok) _ _ x HI Ha).
Qed.

Lemma mirror_force c evs x k j : cfg_ok c -> no_expand c -> Forall (mirror_ok c) evs -> adm c (c_geom0 c) x ->
  (k < length (c_vars c))%nat ->
  nth j (calc_force Rops c (mirror_run c evs) x k) 0 = spec_force c (mirror_spec_run c evs) x k j.
Proof.
  intros Hok Hne HF Ha Hk. destruct (mirror_inv c evs Hok Hne HF) as [HI _].
  apply (force_spec c Hok (c_geom0 c) (cfg_geom0_ok c Hok) _ _ x k j HI Ha Hk).
Qed.

(* the hills a mirror holds are those received, in order *)
Lemma mirror_hills c evs : s_all (mirror_spec_run c evs) = flat_map (fun e => match e with MAdd h => [h] | MProj => [] end) evs.
Proof.
  unfold mirror_spec_run.
  assert (G : forall evs s, s_all (fold_left (mirror_spec c) evs s) =
                            s_all s ++ flat_map (fun e : mirror_ev => match e with MAdd h => [h] | MProj => [] end) evs).
  { clear. induction evs as [|e evs IH]; intros s; cbn [fold_left flat_map]; [rewrite app_nil_r; reflexivity|].
    rewrite IH. destruct e as [h|]; cbn [mirror_spec].
    - unfold s_all. cbn [s_tab s_pend]. rewrite <- !app_assoc. reflexivity.
    - unfold spec_tabulate, s_all. destruct (c_use_grids c); cbn [s_tab s_pend app]; rewrite ?app_nil_r; reflexivity. }
  rewrite G. reflexivity.
Qed.

(* the energy over this replica and the mirrors: the sum of what each holds *)
Lemma total_energy_sum (c : cfgR) own ms x :
  total_energy Rops c own ms x = calc_energy Rops c own x + Rsum (map (fun m => calc_energy Rops c m x) ms).
Proof.
  unfold total_energy. generalize (calc_energy Rops c own x). induction ms as [|m ms IH]; intros a; cbn [fold_left map Rsum]; [lra|].
  rewrite IH. cbn [nadd Rops]. lra.
Qed.

Lemma total_force_sum (c : cfgR) own ms x k j :
  total_force Rops c own ms x k j =
  nth j (calc_force Rops c own x k) 0 + Rsum (map (fun m => nth j (calc_force Rops c m x k) 0) ms).
Proof.
  unfold total_force. change (n0 Rops) with 0. generalize (nth j (calc_force Rops c own x k) 0).
  induction ms as [|m ms IH]; intros a; cbn [fold_left map Rsum]; [lra|].
  rewrite IH. cbn [nadd Rops]. lra.
Qed.

Lemma hist_ok_app h1 : forall c g0 s h2,
  hist_ok c g0 s (h1 ++ h2) <->
  hist_ok c g0 s h1 /\ hist_ok (final_cfg c h1) (fbase c h1 g0) (frun spec_event c h1 s) h2.
Proof.
  induction h1 as [|e h1 IH]; intros c g0 s h2; cbn [app hist_ok frun fbase]; [unfold final_cfg; cbn; tauto|].
  rewrite IH, final_cfg_cons. tauto.
Qed.

(* ================================================================== statements at the level of histories *)

Lemma final_state_snoc c hist e :
  final_state Rops c (hist ++ [e]) = apply_event Rops (final_cfg c hist) (final_state Rops c hist) e.
Proof. unfold final_state. rewrite frun_app. reflexivity. Qed.

Lemma spec_run_snoc c hist e : spec_run c (hist ++ [e]) = spec_event (final_cfg c hist) (spec_run c hist) e.
Proof. unfold spec_run. rewrite frun_app. reflexivity. Qed.

Lemma final_base_snoc c hist e : final_base c (hist ++ [e]) = next_base (final_cfg c hist) (final_base c hist) e.
Proof. unfold final_base. rewrite fbase_app. reflexivity. Qed.

(* the specification of the bias does not depend on the widths, weight and frequency configured for the hills to come *)
Lemma spec_energy_final c hist s x : spec_energy (final_cfg c hist) s x = spec_energy c s x.
Proof.
  destruct (final_cfg_fixed c hist) as (H1 & H2 & _). unfold spec_energy, in_grid, bin_centre. rewrite H1, H2. reflexivity.
Qed.
Lemma spec_force_final c hist s x k j : spec_force (final_cfg c hist) s x k j = spec_force c s x k j.
Proof.
  destruct (final_cfg_fixed c hist) as (H1 & H2 & _). unfold spec_force, in_grid, bin_centre. rewrite H1, H2. reflexivity.
Qed.

(* energy, and force on variable k (a list of components), returned by update() at the step with input i after
   the history hist (the bias runs with the configuration in force after hist) *)
Definition out_energy (c : cfgR) (hist : list eventR) (i : inR) : R :=
  fst (snd (step Rops (final_cfg c hist) (final_state Rops c hist) i)).
Definition out_force (c : cfgR) (hist : list eventR) (i : inR) (k : nat) : valueR :=
  nth k (snd (snd (step Rops (final_cfg c hist) (final_state Rops c hist) i))) [].

Lemma final_cfg_step (c : cfgR) hist (i : inR) : final_cfg c (hist ++ [EStep i]) = final_cfg c hist.
Proof. rewrite final_cfg_app. reflexivity. Qed.

Lemma out_energy_eq c hist i :
  out_energy c hist i = calc_energy Rops (final_cfg c hist) (final_state Rops c (hist ++ [EStep i])) (i_x i).
Proof. unfold out_energy, step. cbn [fst snd]. rewrite final_state_snoc. reflexivity. Qed.

Lemma nth_map_seq {A} (f : nat -> A) n k d : (k < n)%nat -> nth k (map f (seq 0 n)) d = f k.
Proof.
  intros H. rewrite nth_indep with (d' := f 0%nat) by (rewrite map_length, seq_length; exact H).
  rewrite map_nth. rewrite seq_nth by exact H. reflexivity.
Qed.

Lemma out_force_eq c hist i k : (k < length (c_vars c))%nat ->
  out_force c hist i k = calc_force Rops (final_cfg c hist) (final_state Rops c (hist ++ [EStep i])) (i_x i) k.
Proof.
  intros H. unfold out_force, step. cbn [fst snd]. rewrite final_state_snoc.
  unfold calc_forces. apply nth_map_seq. destruct (final_cfg_fixed c hist) as (H1 & _). rewrite H1. exact H.
Qed.

Lemma last_step_adm c hist i : history_ok c (hist ++ [EStep i]) ->
  adm (final_cfg c (hist ++ [EStep i])) (final_base c (hist ++ [EStep i])) (i_x i).
Proof.
  unfold history_ok. intros H. apply hist_ok_app in H. destruct H as [_ H]. cbn [hist_ok] in H. destruct H as [H _].
  rewrite final_base_snoc, final_cfg_step. cbn [next_base]. exact H.
Qed.

Lemma schedule_holds c hist : cfg_ok c -> history_ok c hist ->
  st_new (final_state Rops c hist) = s_pend (spec_run c hist) /\
  (c_keep (final_cfg c hist) = true -> st_old (final_state Rops c hist) = s_tab (spec_run c hist)) /\
  Dropped (fun _ => True) (s_tab (spec_run c hist)) (st_old (final_state Rops c hist)) /\
  st_geom (final_state Rops c hist) = s_geom (spec_run c hist).
Proof.
  intros H1 H2. destruct (run_inv c hist H1 H2) as [[Hnew Hold Hsub Hgeom _ _ _ _ _ _ _] _]. auto.
Qed.

Lemma energy_holds c hist i : cfg_ok c -> history_ok c (hist ++ [EStep i]) ->
  out_energy c hist i = spec_energy c (spec_run c (hist ++ [EStep i])) (i_x i).
Proof.
  intros H1 H2. rewrite out_energy_eq. destruct (run_inv c _ H1 H2) as (HI & Hb & Hok').
  pose proof (last_step_adm c hist i H2) as Ha. rewrite final_cfg_step in *.
  rewrite (energy_spec _ Hok' _ Hb _ _ _ HI Ha). apply spec_energy_final.
Qed.

Lemma force_holds c hist i k j : cfg_ok c -> history_ok c (hist ++ [EStep i]) ->
  (k < length (c_vars c))%nat ->
  nth j (out_force c hist i k) 0 = spec_force c (spec_run c (hist ++ [EStep i])) (i_x i) k j.
Proof.
  intros H1 H2 Hk. rewrite out_force_eq by exact Hk. destruct (run_inv c _ H1 H2) as (HI & Hb & Hok').
  pose proof (last_step_adm c hist i H2) as Ha. rewrite final_cfg_step in *.
  rewrite (force_spec _ Hok' _ Hb _ _ _ _ _ HI Ha); [apply spec_force_final|].
  destruct (final_cfg_fixed c hist) as (Hv & _). rewrite Hv. exact Hk.
Qed.

(* multiple replicas: the energy and the forces returned at a step, summed over this replica and the mirrors of the
   others, are those of the hills this replica deposited plus the hills received from every other replica *)
Lemma replicas_energy c hist i mevs : cfg_ok c -> history_ok c (hist ++ [EStep i]) ->
  no_expand (final_cfg c hist) -> Forall (Forall (mirror_ok (final_cfg c hist))) mevs ->
  adm (final_cfg c hist) (c_geom0 (final_cfg c hist)) (i_x i) ->
  total_energy Rops (final_cfg c hist) (final_state Rops c (hist ++ [EStep i])) (map (mirror_run (final_cfg c hist)) mevs) (i_x i) =
  spec_energy c (spec_run c (hist ++ [EStep i])) (i_x i) +
  Rsum (map (fun evs => spec_energy (final_cfg c hist) (mirror_spec_run (final_cfg c hist) evs) (i_x i)) mevs).
Proof.
  intros H1 H2 Hne HF Ha. rewrite total_energy_sum, <- out_energy_eq, (energy_holds c hist i H1 H2). f_equal.
  destruct (run_inv c _ H1 H2) as (_ & _ & Hok'). rewrite final_cfg_step in Hok'.
  rewrite map_map. induction HF as [|evs l He Hl IH]; cbn [map Rsum]; [reflexivity|].
  rewrite IH, (mirror_energy _ evs (i_x i) Hok' Hne He Ha). reflexivity.
Qed.

Lemma replicas_force c hist i mevs k j : cfg_ok c -> history_ok c (hist ++ [EStep i]) ->
  no_expand (final_cfg c hist) -> Forall (Forall (mirror_ok (final_cfg c hist))) mevs ->
  adm (final_cfg c hist) (c_geom0 (final_cfg c hist)) (i_x i) -> (k < length (c_vars c))%nat ->
  total_force Rops (final_cfg c hist) (final_state Rops c (hist ++ [EStep i])) (map (mirror_run (final_cfg c hist)) mevs) (i_x i) k j =
  spec_force c (spec_run c (hist ++ [EStep i])) (i_x i) k j +
  Rsum (map (fun evs => spec_force (final_cfg c hist) (mirror_spec_run (final_cfg c hist) evs) (i_x i) k j) mevs).
Proof.
  intros H1 H2 Hne HF Ha Hk. rewrite total_force_sum, <- (out_force_eq c hist i k Hk), (force_holds c hist i k j H1 H2 Hk). f_equal.
  destruct (run_inv c _ H1 H2) as (_ & _ & Hok'). rewrite final_cfg_step in Hok'.
  assert (Hk' : (k < length (c_vars (final_cfg c hist)))%nat).
  { destruct (final_cfg_fixed c hist) as (Hv & _). rewrite Hv. exact Hk. }
  rewrite map_map. induction HF as [|evs l He Hl IH]; cbn [map Rsum]; [reflexivity|].
  rewrite IH, (mirror_force _ evs (i_x i) k j Hok' Hne He Ha Hk'). reflexivity.
Qed.

Lemma grid_is_projected_sum c hist : cfg_ok c -> history_ok c hist ->
  forall ix, index_ok (gsizes (s_geom (spec_run c hist))) ix = true ->
    st_e (final_state Rops c hist) ix =
      Esum (c_vars c) (s_tab (spec_run c hist)) (centre Rops (c_vars c) (s_geom (spec_run c hist)) ix) /\
    forall k, (k < length (c_vars c))%nat -> st_g (final_state Rops c hist) ix k =
      - Fsum (c_vars c) (s_tab (spec_run c hist)) (centre Rops (c_vars c) (s_geom (spec_run c hist)) ix) k 0.
Proof.
  intros H1 H2 ix Hix. destruct (run_inv c hist H1 H2) as [[_ _ _ _ _ He Hg _ _ _ _] _].
  destruct (final_cfg_fixed c hist) as (Hv & _). rewrite Hv in He, Hg.
  split; [apply He; exact Hix|intros k Hk; apply Hg; assumption].
Qed.

(* the grids only grow from the boundaries of the (last) configuration, by whole bins, on the same lattice, and
   only along expandBoundaries variables and beyond non-hard boundaries *)
Lemma geometry_grows c hist : cfg_ok c -> history_ok c hist -> c_use_grids c = true ->
  All3 (fun v b b' => gstep v b b') (c_vars c) (final_base c hist) (s_geom (spec_run c hist)).
Proof.
  intros H1 H2 G. destruct (run_inv c hist H1 H2) as [[_ _ _ _ Hgrel _ _ _ _ _ _] _].
  destruct (final_cfg_fixed c hist) as (Hv & Hu & _). rewrite Hv, Hu in Hgrel. apply Hgrel. exact G.
Qed.

(* ---- the schedule itself ---- *)
Lemma s_all_step c s i :
  s_all (spec_step c s i) =
  s_all s ++ (if eligible c i
              then [mkHill (i_it i) (spec_height c (spec_expand c s (i_x i)) i) (i_x i) (c_sigmas c)] else []).
Proof.
  unfold spec_step, spec_proj, spec_tabulate, spec_dep, s_all.
  destruct (eligible c i); destruct (i_it i mod c_gfreq c =? 0)%Z; destruct (c_use_grids c);
    cbn [s_tab s_pend spec_expand]; rewrite ?app_nil_r, ?app_assoc; reflexivity.
Qed.

(* every eligible step adds one hill, centred at the values of that step, with the height and the widths of the
   configuration in force *)
Lemma deposited_snoc c hist i :
  s_all (spec_run c (hist ++ [EStep i])) =
  s_all (spec_run c hist) ++
  (let c' := final_cfg c hist in
   if eligible c' i
   then [mkHill (i_it i) (spec_height c' (spec_expand c' (spec_run c hist) (i_x i)) i) (i_x i) (c_sigmas c')] else []).
Proof. rewrite spec_run_snoc. apply s_all_step. Qed.

Lemma deposited_save c hist : s_all (spec_run c (hist ++ [ESave])) = s_all (spec_run c hist).
Proof. rewrite spec_run_snoc. apply s_all_save. Qed.

Lemma s_all_restart c s r : s_all (spec_restart c s r) = s_all s.
Proof.
  unfold spec_restart. destruct r as [g'|]; [|apply s_all_save].
  destruct (c_use_grids c); [|apply s_all_save]. rewrite <- (s_all_save c s). reflexivity.
Qed.

Lemma deposited_restart c hist r : s_all (spec_run c (hist ++ [ERestart r])) = s_all (spec_run c hist).
Proof. rewrite spec_run_snoc. apply s_all_restart. Qed.

Lemma deposited_reconf c hist p : s_all (spec_run c (hist ++ [EReconf p])) = s_all (spec_run c hist).
Proof. rewrite spec_run_snoc. apply (s_all_restart _ _ None). Qed.

(* without well-tempering and ebMeta: one hill of the height and widths in force per eligible step *)
Fixpoint plain_hills (c : cfgR) (hist : list eventR) : list hillR :=
  match hist with
  | [] => []
  | e :: r =>
      (match e with
       | EStep i => if eligible c i then [mkHill (i_it i) (c_weight c) (i_x i) (c_sigmas c)] else []
       | _ => []
       end) ++ plain_hills (next_cfg c e) r
  end.

(* no reconfiguration switches wellTempered on *)
Definition never_wt (e : eventR) : Prop := match e with EReconf p => p_wt p = false | _ => True end.

Lemma deposited_plain c hist : c_wt c = false -> c_eb c = false -> Forall never_wt hist ->
  s_all (spec_run c hist) = plain_hills c hist.
Proof.
  intros W B N. unfold spec_run.
  assert (Hgen : forall hist c s, c_wt c = false -> c_eb c = false -> Forall never_wt hist ->
            s_all (frun spec_event c hist s) = s_all s ++ plain_hills c hist).
  { clear. induction hist as [|e hist IH]; intros c s W B N; cbn [frun plain_hills].
    - rewrite app_nil_r. reflexivity.
    - inversion N as [|e' l' Ne Nl]; subst.
      assert (W' : c_wt (next_cfg c e) = false) by (destruct e; try exact W; exact Ne).
      assert (B' : c_eb (next_cfg c e) = false) by (destruct e; exact B).
      rewrite (IH _ _ W' B' Nl). destruct e as [i| |r| |p]; cbn [spec_event].
      + rewrite s_all_step. unfold spec_height, eb_factor. rewrite W, B.
        replace (c_weight c * (1 * 1)) with (c_weight c) by ring. rewrite <- app_assoc. reflexivity.
      + rewrite s_all_save. reflexivity.
      + rewrite s_all_restart. reflexivity.
      + rewrite s_all_save. reflexivity.
      + rewrite (s_all_restart _ _ None). reflexivity. }
  rewrite (Hgen hist c _ W B N). reflexivity.
Qed.

(* hills are tabulated at the steps that are multiples of gridsUpdateFrequency, and when the state is written *)
Lemma tabulated_snoc c hist i : c_use_grids c = true ->
  s_pend (spec_run c (hist ++ [EStep i])) = (if (i_it i mod c_gfreq (final_cfg c hist) =? 0)%Z then [] else
     s_pend (spec_run c hist) ++
     (let c' := final_cfg c hist in
      if eligible c' i
      then [mkHill (i_it i) (spec_height c' (spec_expand c' (spec_run c hist) (i_x i)) i) (i_x i) (c_sigmas c')] else [])).
Proof.
  intros G. rewrite spec_run_snoc. cbn [spec_event]. unfold spec_step, spec_proj, spec_tabulate, spec_dep.
  destruct (final_cfg_fixed c hist) as (_ & Hu & _). rewrite Hu, G.
  destruct (i_it i mod c_gfreq (final_cfg c hist) =? 0)%Z; [reflexivity|]. cbv zeta.
  destruct (eligible (final_cfg c hist) i); cbn [s_pend spec_expand]; rewrite ?app_nil_r; reflexivity.
Qed.

Lemma tabulated_save c hist : c_use_grids c = true -> s_pend (spec_run c (hist ++ [ESave])) = [].
Proof.
  intros G. rewrite spec_run_snoc. cbn [spec_event]. unfold spec_tabulate.
  destruct (final_cfg_fixed c hist) as (_ & Hu & _). rewrite Hu, G. reflexivity.
Qed.

Lemma tabulated_restart c hist r : c_use_grids c = true -> s_pend (spec_run c (hist ++ [ERestart r])) = [].
Proof.
  intros G. rewrite spec_run_snoc. cbn [spec_event]. unfold spec_restart, spec_tabulate.
  destruct (final_cfg_fixed c hist) as (_ & Hu & _). rewrite Hu, G. destruct r; reflexivity.
Qed.

(* rebinGrids: the restart gives the grids the boundaries of the new configuration *)
Lemma rebin_geometry c hist g' : c_use_grids c = true ->
  s_geom (spec_run c (hist ++ [ERestart (Some g')])) = g' /\
  s_tab (spec_run c (hist ++ [ERestart (Some g')])) = s_all (spec_run c hist).
Proof.
  intros G. rewrite spec_run_snoc. cbn [spec_event]. unfold spec_restart, spec_tabulate, s_all.
  destruct (final_cfg_fixed c hist) as (_ & Hu & _). rewrite Hu, G. split; reflexivity.
Qed.

(* keepHills does not occur in the specification *)
Definition set_keep (c : cfgR) (b : bool) : cfgR :=
  mkCfg (c_vars c) (c_geom0 c) (c_sigmas c) (c_weight c) (c_hill_width c) (c_freq c) (c_gfreq c) (c_use_grids c) b
        (c_wt c) (c_bias_temp c) (c_kb c) (c_step_zero c) (c_eb c) (c_eb_equil c) (c_eb_target c).

Lemma expand_geom_keep c b us : forall g x,
  expand_geom Rops (set_keep c b) us g x = expand_geom Rops c us g x.
Proof.
  induction us as [|v us IH]; intros [|bd g] [|xv x]; cbn [expand_geom]; try reflexivity.
  rewrite IH. reflexivity.
Qed.

Lemma next_geom_keep c b g x : next_geom (set_keep c b) g x = next_geom c g x.
Proof.
  unfold next_geom. change (c_use_grids (set_keep c b)) with (c_use_grids c).
  change (c_vars (set_keep c b)) with (c_vars c). rewrite expand_geom_keep. reflexivity.
Qed.

Lemma spec_event_keep c b s e : spec_event (set_keep c b) s e = spec_event c s e.
Proof.
  destruct e as [i| |r| |p]; cbn [spec_event]; try reflexivity.
  unfold spec_step, spec_expand. rewrite next_geom_keep. reflexivity.
Qed.

Lemma next_cfg_keep (c : cfgR) b e : exists b', next_cfg (set_keep c b) e = set_keep (next_cfg c e) b'.
Proof. destruct e as [i| |r| |p]; try (exists b; reflexivity). exists (b && p_keep p)%bool. reflexivity. Qed.

Lemma spec_run_keep c b hist : spec_run (set_keep c b) hist = spec_run c hist.
Proof.
  unfold spec_run. change (c_geom0 (set_keep c b)) with (c_geom0 c). generalize (mkS [] [] (c_geom0 c)).
  revert c b. induction hist as [|e hist IH]; intros c b s; cbn [frun]; [reflexivity|].
  rewrite spec_event_keep. destruct (next_cfg_keep c b e) as [b' ->]. apply IH.
Qed.

Lemma keep_hills_irrelevant c b hist i : cfg_ok c ->
  history_ok c (hist ++ [EStep i]) -> history_ok (set_keep c b) (hist ++ [EStep i]) ->
  out_energy (set_keep c b) hist i = out_energy c hist i /\
  forall k j, (k < length (c_vars c))%nat ->
    nth j (out_force (set_keep c b) hist i k) 0 = nth j (out_force c hist i k) 0.
Proof.
  intros H1 H2 H2'.
  assert (H1' : cfg_ok (set_keep c b)) by exact H1.
  split.
  - rewrite (energy_holds _ _ _ H1' H2'), (energy_holds _ _ _ H1 H2), spec_run_keep. reflexivity.
  - intros k j Hk. rewrite (force_holds _ _ _ k j H1' H2' Hk), (force_holds _ _ _ k j H1 H2 Hk), spec_run_keep.
    reflexivity.
Qed.

(* histories without a rebinning restart or a reconfiguration: a list of admissible steps, saves, plain restarts and
   reloads *)
Definition plain_event (c : cfgR) (e : eventR) : Prop :=
  match e with EStep i => adm c (c_geom0 c) (i_x i) | ERestart (Some _) => False | EReconf _ => False | _ => True end.

Lemma plain_history_ok c hist : Forall (plain_event c) hist -> history_ok c hist.
Proof.
  unfold history_ok. generalize (mkS [] [] (c_geom0 c)).
  induction hist as [|e hist IH]; intros s HF; cbn [hist_ok]; [exact I|].
  inversion HF as [|e' l' He Hl]; subst.
  destruct e as [i| |[g'|]| |p]; cbn [plain_event next_base next_cfg] in *; try contradiction; (split; [assumption|apply IH; exact Hl]).
Qed.

(* ================================================================== writeHillsTrajectory *)

(* the hills written to the hills trajectory since the instance was created: one record per deposited hill, in
   order, with the step, height, centre and widths of the deposition *)
Fixpoint traj_run (c : cfgR) (s : sstate) (tr : list hillR) (hist : list eventR) : list hillR :=
  match hist with
  | [] => tr
  | e :: r =>
      traj_run (next_cfg c e) (spec_event c s e)
        (match e with
         | EStep i => tr ++ (if eligible c i
                             then [mkHill (i_it i) (spec_height c (spec_expand c s (i_x i)) i) (i_x i) (c_sigmas c)] else [])
         | ESave => tr
         | ERestart _ => []
         | EReload => tr
         | EReconf _ => []
         end) r
  end.
Definition spec_traj (c : cfgR) (hist : list eventR) : list hillR := traj_run c (mkS [] [] (c_geom0 c)) [] hist.

Lemma traj_event c g0 m s e : cfg_ok c -> geom_ok c g0 -> Inv c g0 m s ->
  match e with EStep i => adm c g0 (i_x i) | _ => True end ->
  st_traj (apply_event Rops c m e) =
  match e with
  | EStep i => st_traj m ++ (if eligible c i
                             then [mkHill (i_it i) (spec_height c (spec_expand c s (i_x i)) i) (i_x i) (c_sigmas c)] else [])
  | ESave => st_traj m
  | ERestart _ => []
  | EReload => st_traj m
  | EReconf _ => []
  end.
Proof.
  intros Hok Hg0 HI Ha. destruct e as [i| |r| |p]; cbn [apply_event].
  - unfold step_state.
    pose proof (expand_inv c Hok g0 Hg0 m s (i_x i) HI Ha) as H1.
    set (m1 := update_grid_params Rops c m (i_x i)) in *.
    assert (Ht1 : st_traj m1 = st_traj m).
    { unfold m1, update_grid_params. destruct (c_use_grids c && existsb (@v_expand R) (c_vars c)); [|reflexivity].
      destruct (geom_changed (st_geom m) (expand_geom Rops c (c_vars c) (st_geom m) (i_x i))); reflexivity. }
    assert (Ht2 : st_traj (update_bias Rops c m1 i) =
                  st_traj m ++ (if eligible c i
                                then [mkHill (i_it i) (spec_height c (spec_expand c s (i_x i)) i) (i_x i) (c_sigmas c)] else [])).
    { unfold update_bias. rewrite (eligible_deposit c i). destruct (eligible c i).
      - cbn [st_traj]. rewrite (deposit_weight c Hok g0 Hg0 m1 _ i H1 Ha), Ht1. reflexivity.
      - rewrite app_nil_r. exact Ht1. }
    destruct (c_use_grids c); [|exact Ht2].
    unfold update_grid_data. destruct (i_it i mod c_gfreq c =? 0)%Z; [|exact Ht2].
    unfold project. cbn [st_traj]. exact Ht2.
  - unfold save_state. destruct (c_use_grids c); reflexivity.
  - unfold restart_state, read_state, rebin_state. destruct r as [g'|]; destruct (c_use_grids c); reflexivity.
  - reflexivity.
  - unfold restart_state, read_state. destruct (c_use_grids c); reflexivity.
Qed.

Lemma traj_gen : forall hist c g0 m s tr, cfg_ok c -> geom_ok c g0 -> Inv c g0 m s -> hist_ok c g0 s hist ->
  st_traj m = tr -> st_traj (frun (apply_event Rops) c hist m) = traj_run c s tr hist.
Proof.
  induction hist as [|e hist IH]; intros c g0 m s tr Hok Hg0 HI HH Ht; cbn [frun traj_run]; [exact Ht|].
  cbn [hist_ok] in HH. destruct HH as [He Hr].
  pose proof (run_inv_gen [e] c g0 m s Hok Hg0 HI) as Hstep. cbn [hist_ok frun fbase] in Hstep.
  destruct (Hstep (conj He I)) as (HI' & Hg' & Hok'). rewrite final_cfg_cons in HI', Hg', Hok'.
  change (final_cfg (next_cfg c e) []) with (next_cfg c e) in HI', Hg', Hok'.
  apply (IH _ _ _ _ _ Hok' Hg' HI' Hr).
  rewrite (traj_event c g0 m s e Hok Hg0 HI); [|destruct e as [i| |r| |p]; try exact I; exact He].
  destruct e as [i| |r| |p]; rewrite ?Ht; reflexivity.
Qed.

Lemma trajectory_holds c hist : cfg_ok c -> history_ok c hist ->
  st_traj (final_state Rops c hist) = spec_traj c hist.
Proof.
  intros Hok HH. unfold final_state, spec_traj.
  apply (traj_gen hist c (c_geom0 c)); [exact Hok|apply cfg_geom0_ok; exact Hok| |exact HH|reflexivity].
  apply init_inv; [apply cfg_geom0_ok; exact Hok|reflexivity].
Qed.
