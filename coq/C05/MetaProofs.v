(* C05: the model of colvarbias_meta (MetaModel.v, instance Rops) refines the specification of MetaSpec.v:
   for every well-formed configuration and every history of admissible steps and state saves. *)
From Coq Require Import ZArith List Bool Reals Lra Lia Psatz.
From Flocq Require Import Core.Raux.
From CV Require Import Base.Num Base.RNum C15.GridModel C05.MetaModel C05.MetaSpec C05.MetaGeom.
Import ListNotations.
Local Open Scope R_scope.

(* ================================================================== premises *)

(* well-formed configuration: positive sigmas and widths; sigma = width*hillWidth/2 when hillWidth is given;
   with grids: upper = lower + nx*width, nx > 0, scalar variables, no expansion of a grid on a periodic variable *)
Definition cfg_ok (c : cfgR) : Prop :=
  Forall var_ok (c_vars c) /\ sigmas_ok c /\
  (c_use_grids c = true -> All2 bound_ok (c_vars c) (c_geom0 c) /\ Forall gvar_ok (c_vars c)).

(* admissible values (only with grids): one value per variable, not beyond a boundary declared hard, and within
   the grid along a periodic variable whose grid covers part of the period *)
Definition adm (c : cfgR) (x : list valueR) : Prop :=
  c_use_grids c = true -> All3 (fun v b xv => adm_var v b (scR xv)) (c_vars c) (c_geom0 c) x.
Definition adm_event (c : cfgR) (e : eventR) : Prop :=
  match e with EStep i => adm c (i_x i) | ESave => True end.

Lemma scR_nth (l : valueR) : scR l = nth 0 l 0.
Proof. destruct l; reflexivity. Qed.

Lemma vzero_nth (v : varR) j : nth j (vzero Rops v) 0 = 0.
Proof. unfold vzero. destruct (v_kind v); destruct j as [|[|[|[|j]]]]; reflexivity. Qed.

Lemma fzero_nth (vs : list varR) k j : nth j (fzero Rops vs k) 0 = 0.
Proof. unfold fzero. destruct (nth_error vs k); [apply vzero_nth|destruct j; reflexivity]. Qed.

Lemma fzero_scalar (vs : list varR) k : Forall gvar_ok vs -> (k < length vs)%nat -> fzero Rops vs k = [0].
Proof.
  intros Hg Hk. unfold fzero. destruct (nth_error vs k) as [v|] eqn:E.
  - apply nth_error_In in E. rewrite Forall_forall in Hg. destruct (Hg v E) as [Hkind _].
    unfold vzero. rewrite Hkind. reflexivity.
  - apply nth_error_None in E. lia.
Qed.

Lemma Fk_scalar_high (vs : list varR) h x k j : Forall gvar_ok vs -> (0 < j)%nat -> Fk vs h x k j = 0.
Proof.
  intros Hg Hj. unfold Fk. destruct (nth_error vs k) as [v|] eqn:E; [|reflexivity].
  destruct (nth_error x k); [|reflexivity]. destruct (nth_error (h_c h) k); [|reflexivity].
  apply nth_error_In in E. rewrite Forall_forall in Hg. destruct (Hg v E) as [Hkind _].
  unfold Dgrad. rewrite Hkind. destruct j as [|j]; [lia|]. cbn [nth]. destruct j; unfold Rdiv; ring.
Qed.

Lemma Fsum_scalar_high (vs : list varR) hs x k j : Forall gvar_ok vs -> (0 < j)%nat -> Fsum vs hs x k j = 0.
Proof. intros Hg Hj. apply Fsum_zero. intros h _. apply Fk_scalar_high; assumption. Qed.

(* ================================================================== refinement *)
Section Refine.
  Variable c : cfgR.
  Hypothesis Hok : cfg_ok c.
  Local Notation vs := (c_vars c).
  Local Notation GS := (All3 (fun v b b' => gstep v b b') vs).
  Local Notation ADM := (All3 (fun v b xv => adm_var v b (scR xv)) vs).

  Lemma Hvars : Forall var_ok vs.
  Proof. exact (proj1 Hok). Qed.
  Lemma Hsig : sigmas_ok c.
  Proof. exact (proj1 (proj2 Hok)). Qed.

  (* a hill that is zero everywhere off the grid g *)
  Definition Far (g : list boundR) (h : hillR) : Prop :=
    forall x, ADM g x -> index_ok (gsizes g) (gbins Rops vs g x) = false -> 23 < Qexp vs x (h_c h).
  (* a hill at least min_buffer bins inside the expandable edges of g *)
  Definition Clear (g : list boundR) (h : hillR) : Prop := All3 (clear_var c) vs g (h_c h).

  Record Inv (m : stateR) (s : sstate) : Prop := mkInv {
    inv_new : st_new m = s_pend s;
    inv_old : st_old m = if c_keep c then s_tab s else [];
    inv_geom : st_geom m = s_geom s;
    inv_grel : c_use_grids c = true -> GS (c_geom0 c) (s_geom s);
    inv_e : forall ix, index_ok (gsizes (s_geom s)) ix = true ->
              st_e m ix = Esum vs (s_tab s) (centre Rops vs (s_geom s) ix);
    inv_g : forall ix k, index_ok (gsizes (s_geom s)) ix = true -> (k < length vs)%nat ->
              st_g m ix k = - Fsum vs (s_tab s) (centre Rops vs (s_geom s) ix) k 0;
    inv_off_old : c_use_grids c = true -> Dropped (Far (s_geom s)) (s_tab s) (st_off_old m);
    inv_off_new : c_use_grids c = true -> Dropped (Far (s_geom s)) (s_pend s) (st_off_new m);
    inv_nogrid : c_use_grids c = false -> s_tab s = [] /\ st_off_old m = [] /\ st_off_new m = [];
    inv_clear : c_use_grids c = true -> forall h, In h (s_all s) -> Clear (s_geom s) h
  }.

  Lemma init_inv : Inv (init_state Rops c) (mkS [] [] (c_geom0 c)).
  Proof.
    constructor; cbn [init_state st_new st_old st_e st_g st_geom st_off_old st_off_new s_tab s_pend s_geom s_all app].
    - reflexivity.
    - destruct (c_keep c); reflexivity.
    - reflexivity.
    - intros G. apply All3_refl_gstep. pose proof Hok as (_ & _ & H). destruct (H G) as [Hb _].
      symmetry. apply (All2_length _ _ _ Hb).
    - intros ix _. cbn. lra.
    - intros ix k _ _. cbn. lra.
    - intros _. apply D_nil.
    - intros _. apply D_nil.
    - intros _. auto.
    - intros _ h [].
  Qed.

  (* facts about the current geometry *)
  Lemma geom_facts s : c_use_grids c = true -> GS (c_geom0 c) (s_geom s) ->
    All2 bound_ok vs (s_geom s) /\ Forall gvar_ok vs /\ length (s_geom s) = length vs.
  Proof.
    intros G Hg. pose proof Hok as (_ & _ & H). destruct (H G) as [Hb Hgv].
    split; [apply (All2_bound_gstep vs _ _ Hb Hg)|]. split; [exact Hgv|].
    destruct (All3_length _ _ _ _ Hg) as [_ Hl]. symmetry. exact Hl.
  Qed.

  Lemma adm_current s x : c_use_grids c = true -> GS (c_geom0 c) (s_geom s) -> adm c x -> ADM (s_geom s) x.
  Proof.
    intros G Hg Ha. destruct (geom_facts s G Hg) as (_ & Hgv & _).
    apply (proj1 (All3_adm_gstep vs _ _ x Hgv Hg)). apply Ha. exact G.
  Qed.

  (* ---- what the bias returns ---- *)
  Lemma inside_eq m s x : st_geom m = s_geom s -> inside Rops c m x = in_grid c (s_geom s) x.
  Proof. intros H. unfold inside, in_grid. rewrite H. reflexivity. Qed.

  Lemma far_K g h x : Far g h -> ADM g x -> index_ok (gsizes g) (gbins Rops vs g x) = false -> K vs h x = 0.
  Proof. intros Hf Ha Ho. apply K_far. apply Hf; assumption. Qed.
  Lemma far_Fk g h x k j : Far g h -> ADM g x -> index_ok (gsizes g) (gbins Rops vs g x) = false -> Fk vs h x k j = 0.
  Proof. intros Hf Ha Ho. apply Fk_far. apply Hf; assumption. Qed.

  Lemma energy_spec m s x : Inv m s -> adm c x -> calc_energy Rops c m x = spec_energy c s x.
  Proof.
    intros HI Ha. destruct HI as [Hnew Hold Hgeom Hgrel He Hg Hoo Hon Hng Hcl].
    unfold calc_energy, spec_energy. rewrite (inside_eq m s x Hgeom), hills_energy_R, Hnew.
    destruct (in_grid c (s_geom s) x) eqn:Hin.
    - unfold in_grid in Hin. apply andb_prop in Hin. destruct Hin as [G Hin].
      rewrite Hgeom, (He _ Hin). unfold bin_centre. cbn [nadd n0 Rops]. lra.
    - rewrite hills_energy_R. unfold s_all. rewrite Esum_app. cbn [n0 Rops].
      destruct (c_use_grids c) eqn:G.
      + unfold in_grid in Hin. rewrite G in Hin. cbn [andb] in Hin.
        pose proof (adm_current s x G (Hgrel eq_refl) Ha) as Hadm.
        rewrite (Dropped_Esum (Far (s_geom s)) vs x (s_tab s) (st_off_old m)); [lra| |apply Hoo; reflexivity].
        intros h Hf. apply (far_K (s_geom s)); assumption.
      + destruct (Hng eq_refl) as (-> & -> & _). rewrite !Esum_nil. lra.
  Qed.

  Lemma force_spec m s x k j : Inv m s -> adm c x -> (k < length vs)%nat ->
    nth j (calc_force Rops c m x k) 0 = spec_force c s x k j.
  Proof.
    intros HI Ha Hk. destruct HI as [Hnew Hold Hgeom Hgrel He Hg Hoo Hon Hng Hcl].
    unfold calc_force, spec_force. rewrite (inside_eq m s x Hgeom), Hnew.
    destruct (in_grid c (s_geom s) x) eqn:Hin.
    - unfold in_grid in Hin. apply andb_prop in Hin. destruct Hin as [G Hin].
      destruct (geom_facts s G (Hgrel G)) as (_ & Hgv & _).
      rewrite hills_force_R by (rewrite fzero_scalar by assumption; reflexivity).
      rewrite Hgeom, (Hg _ _ Hin Hk). unfold bin_centre. cbn [nadd nmul nneg n0 n1 Rops].
      destruct j as [|j]; cbn [nth].
      + lra.
      + rewrite (Fsum_scalar_high vs (s_tab s)) by (assumption || lia). destruct j; lra.
    - rewrite hills_force_R by (apply hills_force_length).
      rewrite hills_force_R by reflexivity. rewrite fzero_nth. unfold s_all. rewrite Fsum_app.
      destruct (c_use_grids c) eqn:G.
      + unfold in_grid in Hin. rewrite G in Hin. cbn [andb] in Hin.
        pose proof (adm_current s x G (Hgrel eq_refl) Ha) as Hadm.
        rewrite (Dropped_Fsum (Far (s_geom s)) vs x k j (s_tab s) (st_off_old m)); [lra| |apply Hoo; reflexivity].
        intros h Hf. apply (far_Fk (s_geom s)); assumption.
      + destruct (Hng eq_refl) as (-> & -> & _). rewrite !Fsum_nil. lra.
  Qed.

  (* ---- update_grid_params ---- *)
  Lemma Far_step g g' h : Forall gvar_ok vs -> All2 bound_ok vs g -> GS g g' -> Far g h -> Far g' h.
  Proof.
    intros Hgv Hb Hs Hf x Ha Ho. apply Hf.
    - apply (proj2 (All3_adm_gstep vs g g' x Hgv Hs)). exact Ha.
    - destruct (index_ok (gsizes g) (gbins Rops vs g x)) eqn:E; [|reflexivity].
      rewrite (in_grid_step vs g g' x Hvars Hgv Hb Hs E) in Ho. discriminate.
  Qed.

  Lemma same_sstate s : mkS (s_tab s) (s_pend s) (s_geom s) = s.
  Proof. destruct s; reflexivity. Qed.

  Lemma mb_covers : forall v, In v vs -> 6 * v_sigma v < IZR (min_buffer Rops c) * v_width v.
  Proof. intros v Hin. apply min_buffer_covers; [exact Hsig|exact Hvars|exact Hin]. Qed.

  Lemma expand_inv m s x : Inv m s -> adm c x -> Inv (update_grid_params Rops c m x) (spec_expand c s x).
  Proof.
    intros HI Ha. pose proof HI as HI0. destruct HI as [Hnew Hold Hgeom Hgrel He Hg Hoo Hon Hng Hcl].
    unfold update_grid_params, spec_expand, next_geom. rewrite Hgeom.
    destruct (c_use_grids c && existsb (@v_expand R) vs) eqn:E; [|rewrite same_sstate; exact HI0].
    destruct (geom_changed (s_geom s) (expand_geom Rops c vs (s_geom s) x)) eqn:Ec; [|rewrite same_sstate; exact HI0].
    apply andb_prop in E. destruct E as [G _].
    destruct (geom_facts s G (Hgrel G)) as (Hb & Hgv & Hlen).
    assert (Hlx : length x = length vs).
    { specialize (Ha G). destruct (All3_length _ _ _ _ Ha) as [_ Hl]. symmetry. exact Hl. }
    destruct (expand_geom_spec c vs (s_geom s) x Hvars Hlen Hlx) as [Hs _].
    set (g' := expand_geom Rops c vs (s_geom s) x) in *.
    constructor; cbn [st_new st_old st_e st_g st_geom st_off_old st_off_new s_tab s_pend s_geom s_all].
    - exact Hnew.
    - exact Hold.
    - reflexivity.
    - intros _. apply (All3_gstep_trans vs _ _ _ (Hgrel G) Hs).
    - intros ix Hix. destruct (remap_lemma c vs (s_geom s) g' ix Hvars Hgv Hb Hs mb_covers Hix) as [R1 R2].
      destruct (index_ok (gsizes (s_geom s)) (remap_ix Rops vs g' (s_geom s) ix)) eqn:Eo.
      + rewrite (He _ Eo), (R1 eq_refl). reflexivity.
      + symmetry. apply Esum_zero. intros h Hin. apply K_far. apply (R2 eq_refl).
        apply (Hcl G). unfold s_all. apply in_or_app. left. exact Hin.
    - intros ix k Hix Hk. destruct (remap_lemma c vs (s_geom s) g' ix Hvars Hgv Hb Hs mb_covers Hix) as [R1 R2].
      destruct (index_ok (gsizes (s_geom s)) (remap_ix Rops vs g' (s_geom s) ix)) eqn:Eo.
      + rewrite (Hg _ _ Eo Hk), (R1 eq_refl). reflexivity.
      + rewrite Fsum_zero; [cbn; lra|]. intros h Hin. apply Fk_far. apply (R2 eq_refl).
        apply (Hcl G). unfold s_all. apply in_or_app. left. exact Hin.
    - intros _. apply (Dropped_mono (Far (s_geom s))); [|apply Hoo; exact G].
      intros h. apply (Far_step _ _ h Hgv Hb Hs).
    - intros _. apply (Dropped_mono (Far (s_geom s))); [|apply Hon; exact G].
      intros h. apply (Far_step _ _ h Hgv Hb Hs).
    - intros G'. congruence.
    - intros _ h Hin. apply (All3_clear_gstep c vs (s_geom s) g' (h_c h) Hvars Hs). apply (Hcl G h Hin).
  Qed.

  (* ---- update_bias ---- *)
  Lemma eligible_deposit i : deposit_now c i = eligible c i.
  Proof. reflexivity. Qed.

  Lemma not_near_far g x : c_use_grids c = true -> All2 bound_ok vs g -> Forall gvar_ok vs ->
    length g = length vs -> length x = length vs ->
    near_edge Rops c g x = false -> forall w it, Far g (mkHill it w x).
  Proof.
    intros G Hb Hgv Hlg Hlx Hn w it y Hay Hout. cbn [h_c].
    unfold near_edge in Hn. cbn [nltb nofZ Rops] in Hn. apply Rltb_false in Hn.
    pose proof (bin_dist_far (off_margin Rops c) vs g x _ Hlg Hlx Hn) as Hf.
    destruct vs as [|v0 l0] eqn:Evs.
    - destruct g; [|discriminate]. destruct y; [|contradiction]. cbn in Hout. discriminate.
    - rewrite <- Evs in *.
      apply (far_outside_gen (off_margin Rops c) vs g y x Hvars Hgv Hb Hay Hf); [| |exact Hout].
      + apply (margin_pos c v0 Hsig Hvars). rewrite Evs. left. reflexivity.
      + intros v Hin. apply margin_covers; [exact Hsig|exact Hvars|exact Hin].
  Qed.

  Lemma deposit_inv m s i : Inv m s -> adm c (i_x i) ->
    (c_use_grids c = true -> All3 (fun v b' xv => buffer_ok c v b' (scR xv)) vs (s_geom s) (i_x i)) ->
    Inv (update_bias Rops c m i) (spec_dep c s i).
  Proof.
    intros HI Ha Hbuf. pose proof HI as HI0. destruct HI as [Hnew Hold Hgeom Hgrel He Hg Hoo Hon Hng Hcl].
    unfold update_bias, spec_dep. rewrite eligible_deposit.
    destruct (eligible c i) eqn:El; [|exact HI0].
    assert (Hw : nmul Rops (c_weight c) (if c_wt c then wt_scale Rops c (wt_energy_here Rops c m (i_x i)) else n1 Rops)
                 = spec_height c s (i_x i)).
    { unfold spec_height, wt_energy_here. destruct (c_wt c).
      - rewrite (energy_spec m s (i_x i) HI0 Ha). unfold wt_scale. cbn [nmul n1 nexp ndiv nneg Rops].
        f_equal. rewrite Rmult_1_l. f_equal. unfold Rdiv. ring.
      - cbn [nmul n1 Rops]. ring. }
    rewrite Hw. set (h := mkHill (i_it i) (spec_height c s (i_x i)) (i_x i)).
    constructor; cbn [st_new st_old st_e st_g st_geom st_off_old st_off_new s_tab s_pend s_geom s_all].
    - rewrite Hnew. reflexivity.
    - exact Hold.
    - exact Hgeom.
    - exact Hgrel.
    - exact He.
    - exact Hg.
    - exact Hoo.
    - intros G. rewrite G, Hgeom. cbn [andb].
      destruct (geom_facts s G (Hgrel G)) as (Hb & Hgv & Hlen).
      assert (Hlx : length (i_x i) = length vs).
      { specialize (Ha G). destruct (All3_length _ _ _ _ Ha) as [_ Hl]. symmetry. exact Hl. }
      destruct (near_edge Rops c (s_geom s) (i_x i)) eqn:En.
      + apply Dropped_app; [apply Hon; exact G|]. apply D_keep. apply D_nil.
      + rewrite <- (app_nil_r (st_off_new m)). apply Dropped_app; [apply Hon; exact G|].
        apply D_drop; [|apply D_nil]. apply (not_near_far _ _ G Hb Hgv Hlen Hlx En).
    - intros G. rewrite G. cbn [andb]. apply (Hng G).
    - intros G h' Hin. apply in_app_or in Hin. destruct Hin as [Hin|Hin].
      + apply (Hcl G). unfold s_all. apply in_or_app. left. exact Hin.
      + apply in_app_or in Hin. destruct Hin as [Hin|[<-|[]]].
        * apply (Hcl G). unfold s_all. apply in_or_app. right. exact Hin.
        * destruct (geom_facts s G (Hgrel G)) as (Hb & _ & _).
          unfold Clear, h. cbn [h_c]. apply (All3_buffer_clear c vs _ _ Hvars Hb (Hbuf G)).
  Qed.

  (* ---- project_hills ---- *)
  Lemma project_inv m s : Inv m s -> c_use_grids c = true ->
    Inv (project Rops c m) (mkS (s_tab s ++ s_pend s) [] (s_geom s)).
  Proof.
    intros HI G. destruct HI as [Hnew Hold Hgeom Hgrel He Hg Hoo Hon Hng Hcl].
    destruct (geom_facts s G (Hgrel G)) as (Hb & Hgv & Hlen).
    unfold project. constructor; cbn [st_new st_old st_e st_g st_geom st_off_old st_off_new s_tab s_pend s_geom s_all].
    - reflexivity.
    - rewrite Hold, Hnew. destruct (c_keep c); reflexivity.
    - exact Hgeom.
    - exact Hgrel.
    - intros ix Hix. rewrite (He _ Hix), Hgeom, hills_energy_R, Hnew, Esum_app. cbn [nadd n0 Rops]. lra.
    - intros ix k Hix Hk. rewrite (Hg _ _ Hix Hk), Hgeom, sc_R, scR_nth.
      rewrite hills_force_R by (rewrite fzero_scalar by assumption; reflexivity).
      rewrite Hnew, Fsum_app. cbn [nsub n0 nth Rops]. lra.
    - intros _. apply Dropped_app; [apply Hoo; exact G|apply Hon; exact G].
    - intros _. apply D_nil.
    - intros G'. congruence.
    - intros _ h Hin. unfold s_all in Hin. cbn [s_tab s_pend] in Hin. rewrite app_nil_r in Hin. apply (Hcl G h Hin).
  Qed.

  Lemma tabulate_inv m s : Inv m s -> Inv (save_state Rops c m) (spec_tabulate c s).
  Proof.
    intros HI. unfold save_state, spec_tabulate. destruct (c_use_grids c) eqn:G; [|exact HI].
    apply project_inv; assumption.
  Qed.

  (* ---- update ---- *)
  Lemma step_inv m s i : Inv m s -> adm c (i_x i) -> Inv (step_state Rops c m i) (spec_step c s i).
  Proof.
    intros HI Ha. unfold step_state, spec_step.
    pose proof (expand_inv m s (i_x i) HI Ha) as H1.
    assert (Hbuf : c_use_grids c = true ->
              All3 (fun v b' xv => buffer_ok c v b' (scR xv)) vs (s_geom (spec_expand c s (i_x i))) (i_x i)).
    { intros G. destruct HI as [_ _ _ Hgrel _ _ _ _ _ _].
      destruct (geom_facts s G (Hgrel G)) as (_ & _ & Hlen).
      assert (Hlx : length (i_x i) = length vs).
      { specialize (Ha G). destruct (All3_length _ _ _ _ Ha) as [_ Hl]. symmetry. exact Hl. }
      cbn [spec_expand s_geom]. apply (next_geom_spec c (s_geom s) (i_x i) G Hvars Hlen Hlx). }
    pose proof (deposit_inv _ _ i H1 Ha Hbuf) as H2.
    unfold spec_proj, update_grid_data. destruct (c_use_grids c) eqn:G.
    - destruct (i_it i mod c_gfreq c =? 0)%Z; [|exact H2].
      unfold spec_tabulate. rewrite G. apply project_inv; assumption.
    - destruct (i_it i mod c_gfreq c =? 0)%Z; [|exact H2]. unfold spec_tabulate. rewrite G. exact H2.
  Qed.

  Lemma event_inv m s e : Inv m s -> adm_event c e -> Inv (apply_event Rops c m e) (spec_event c s e).
  Proof.
    intros HI Ha. destruct e as [i|]; cbn [apply_event spec_event].
    - apply step_inv; assumption.
    - apply tabulate_inv; assumption.
  Qed.

  Lemma run_inv hist : Forall (adm_event c) hist -> Inv (final_state Rops c hist) (spec_run c hist).
  Proof.
    unfold final_state, spec_run.
    assert (Hgen : forall m s, Inv m s -> Forall (adm_event c) hist ->
              Inv (fold_left (apply_event Rops c) hist m) (fold_left (spec_event c) hist s)).
    { induction hist as [|e hist IH]; intros m s HI HF; cbn [fold_left]; [exact HI|].
      inversion HF as [|e' l' He Hl]; subst. apply IH; [apply event_inv; assumption|exact Hl]. }
    intros HF. apply Hgen; [apply init_inv|exact HF].
  Qed.
End Refine.

(* ================================================================== statements at the level of histories *)

Lemma final_state_snoc c hist e :
  final_state Rops c (hist ++ [e]) = apply_event Rops c (final_state Rops c hist) e.
Proof. unfold final_state. rewrite fold_left_app. reflexivity. Qed.

Lemma spec_run_snoc c hist e : spec_run c (hist ++ [e]) = spec_event c (spec_run c hist) e.
Proof. unfold spec_run. rewrite fold_left_app. reflexivity. Qed.

(* energy, and force on variable k (a list of components), returned by update() at the step with input i after
   the history hist *)
Definition out_energy (c : cfgR) (hist : list eventR) (i : inR) : R :=
  fst (snd (step Rops c (final_state Rops c hist) i)).
Definition out_force (c : cfgR) (hist : list eventR) (i : inR) (k : nat) : valueR :=
  nth k (snd (snd (step Rops c (final_state Rops c hist) i))) [].

Lemma out_energy_eq c hist i :
  out_energy c hist i = calc_energy Rops c (final_state Rops c (hist ++ [EStep i])) (i_x i).
Proof. unfold out_energy, step. cbn [fst snd]. rewrite final_state_snoc. reflexivity. Qed.

Lemma nth_map_seq {A} (f : nat -> A) n k d : (k < n)%nat -> nth k (map f (seq 0 n)) d = f k.
Proof.
  intros H. rewrite nth_indep with (d' := f 0%nat) by (rewrite map_length, seq_length; exact H).
  rewrite map_nth. rewrite seq_nth by exact H. reflexivity.
Qed.

Lemma out_force_eq c hist i k : (k < length (c_vars c))%nat ->
  out_force c hist i k = calc_force Rops c (final_state Rops c (hist ++ [EStep i])) (i_x i) k.
Proof.
  intros H. unfold out_force, step. cbn [fst snd]. rewrite final_state_snoc.
  unfold calc_forces. apply nth_map_seq. exact H.
Qed.

Lemma schedule_holds c hist : cfg_ok c -> Forall (adm_event c) hist ->
  st_new (final_state Rops c hist) = s_pend (spec_run c hist) /\
  st_old (final_state Rops c hist) = (if c_keep c then s_tab (spec_run c hist) else []) /\
  st_geom (final_state Rops c hist) = s_geom (spec_run c hist).
Proof.
  intros H1 H2. destruct (run_inv c H1 hist H2) as [Hnew Hold Hgeom _ _ _ _ _ _ _]. auto.
Qed.

Lemma energy_holds c hist i : cfg_ok c -> Forall (adm_event c) (hist ++ [EStep i]) ->
  out_energy c hist i = spec_energy c (spec_run c (hist ++ [EStep i])) (i_x i).
Proof.
  intros H1 H2. rewrite out_energy_eq. apply (energy_spec c H1); [apply run_inv; assumption|].
  apply Forall_app in H2. destruct H2 as [_ H2]. inversion H2; subst. assumption.
Qed.

Lemma force_holds c hist i k j : cfg_ok c -> Forall (adm_event c) (hist ++ [EStep i]) ->
  (k < length (c_vars c))%nat ->
  nth j (out_force c hist i k) 0 = spec_force c (spec_run c (hist ++ [EStep i])) (i_x i) k j.
Proof.
  intros H1 H2 Hk. rewrite out_force_eq by exact Hk. apply (force_spec c H1); [apply run_inv; assumption| |exact Hk].
  apply Forall_app in H2. destruct H2 as [_ H2]. inversion H2; subst. assumption.
Qed.

Lemma grid_is_projected_sum c hist : cfg_ok c -> Forall (adm_event c) hist ->
  forall ix, index_ok (gsizes (s_geom (spec_run c hist))) ix = true ->
    st_e (final_state Rops c hist) ix =
      Esum (c_vars c) (s_tab (spec_run c hist)) (centre Rops (c_vars c) (s_geom (spec_run c hist)) ix) /\
    forall k, (k < length (c_vars c))%nat -> st_g (final_state Rops c hist) ix k =
      - Fsum (c_vars c) (s_tab (spec_run c hist)) (centre Rops (c_vars c) (s_geom (spec_run c hist)) ix) k 0.
Proof.
  intros H1 H2 ix Hix. destruct (run_inv c H1 hist H2) as [_ _ _ _ He Hg _ _ _ _].
  split; [apply He; exact Hix|intros k Hk; apply Hg; assumption].
Qed.

(* the grids only grow, by whole bins, on the same lattice, and only along expandBoundaries variables and
   beyond non-hard boundaries *)
Lemma geometry_grows c hist : cfg_ok c -> Forall (adm_event c) hist -> c_use_grids c = true ->
  All3 (fun v b b' => gstep v b b') (c_vars c) (c_geom0 c) (s_geom (spec_run c hist)).
Proof.
  intros H1 H2 G. destruct (run_inv c H1 hist H2) as [_ _ _ Hgrel _ _ _ _ _ _]. apply Hgrel. exact G.
Qed.

(* ---- the schedule itself ---- *)
Lemma s_all_step c s i :
  s_all (spec_step c s i) =
  s_all s ++ (if eligible c i
              then [mkHill (i_it i) (spec_height c (spec_expand c s (i_x i)) (i_x i)) (i_x i)] else []).
Proof.
  unfold spec_step, spec_proj, spec_tabulate, spec_dep, s_all.
  destruct (eligible c i); destruct (i_it i mod c_gfreq c =? 0)%Z; destruct (c_use_grids c);
    cbn [s_tab s_pend spec_expand]; rewrite ?app_nil_r, ?app_assoc; reflexivity.
Qed.

Lemma s_all_save c s : s_all (spec_tabulate c s) = s_all s.
Proof. unfold spec_tabulate, s_all. destruct (c_use_grids c); cbn [s_tab s_pend]; rewrite ?app_nil_r; reflexivity. Qed.

Lemma deposited_snoc c hist i :
  s_all (spec_run c (hist ++ [EStep i])) =
  s_all (spec_run c hist) ++
  (if eligible c i
   then [mkHill (i_it i) (spec_height c (spec_expand c (spec_run c hist) (i_x i)) (i_x i)) (i_x i)] else []).
Proof. rewrite spec_run_snoc. apply s_all_step. Qed.

Lemma deposited_save c hist : s_all (spec_run c (hist ++ [ESave])) = s_all (spec_run c hist).
Proof. rewrite spec_run_snoc. apply s_all_save. Qed.

Fixpoint steps_of (hist : list eventR) : list inR :=
  match hist with
  | [] => []
  | EStep i :: r => i :: steps_of r
  | ESave :: r => steps_of r
  end.

(* without well-tempering: the deposited hills are one hill of height hillWeight per eligible step *)
Lemma deposited_plain c hist : c_wt c = false ->
  s_all (spec_run c hist) = map (fun i => mkHill (i_it i) (c_weight c) (i_x i)) (filter (eligible c) (steps_of hist)).
Proof.
  intros W. unfold spec_run.
  assert (Hgen : forall s, s_all (fold_left (spec_event c) hist s) =
            s_all s ++ map (fun i => mkHill (i_it i) (c_weight c) (i_x i)) (filter (eligible c) (steps_of hist))).
  { induction hist as [|e hist IH]; intros s; cbn [fold_left].
    - cbn. rewrite app_nil_r. reflexivity.
    - destruct e as [i|]; cbn [spec_event steps_of filter].
      + rewrite IH, s_all_step. unfold spec_height. rewrite W.
        destruct (eligible c i); cbn [map]; rewrite <- app_assoc; reflexivity.
      + rewrite IH, s_all_save. reflexivity. }
  rewrite Hgen. reflexivity.
Qed.

(* hills are tabulated at the steps that are multiples of gridsUpdateFrequency, and when the state is written *)
Lemma tabulated_snoc c hist i : c_use_grids c = true ->
  s_pend (spec_run c (hist ++ [EStep i])) = (if (i_it i mod c_gfreq c =? 0)%Z then [] else
     s_pend (spec_run c hist) ++
     (if eligible c i
      then [mkHill (i_it i) (spec_height c (spec_expand c (spec_run c hist) (i_x i)) (i_x i)) (i_x i)] else [])).
Proof.
  intros G. rewrite spec_run_snoc. cbn [spec_event]. unfold spec_step, spec_proj, spec_tabulate, spec_dep. rewrite G.
  destruct (i_it i mod c_gfreq c =? 0)%Z; [reflexivity|].
  destruct (eligible c i); cbn [s_pend spec_expand]; rewrite ?app_nil_r; reflexivity.
Qed.

Lemma tabulated_save c hist : c_use_grids c = true -> s_pend (spec_run c (hist ++ [ESave])) = [].
Proof. intros G. rewrite spec_run_snoc. cbn [spec_event]. unfold spec_tabulate. rewrite G. reflexivity. Qed.

(* keepHills does not occur in the specification *)
Definition set_keep (c : cfgR) (b : bool) : cfgR :=
  mkCfg (c_vars c) (c_geom0 c) (c_weight c) (c_hill_width c) (c_freq c) (c_gfreq c) (c_use_grids c) b
        (c_wt c) (c_bias_temp c) (c_kb c) (c_step_zero c).

Lemma expand_geom_keep c b us : forall g x,
  expand_geom Rops (set_keep c b) us g x = expand_geom Rops c us g x.
Proof.
  induction us as [|v us IH]; intros [|bd g] [|xv x]; cbn [expand_geom]; try reflexivity.
  rewrite IH. reflexivity.
Qed.

Lemma next_geom_keep c b g x : next_geom (set_keep c b) g x = next_geom c g x.
Proof.
  unfold next_geom. change (c_use_grids (set_keep c b)) with (c_use_grids c).
  change (c_vars (set_keep c b)) with (c_vars c). rewrite expand_geom_keep. reflexivity.
Qed.

Lemma spec_event_keep c b s e : spec_event (set_keep c b) s e = spec_event c s e.
Proof.
  destruct e as [i|]; cbn [spec_event]; [|reflexivity].
  unfold spec_step, spec_expand. rewrite next_geom_keep. reflexivity.
Qed.

Lemma spec_run_keep c b hist : spec_run (set_keep c b) hist = spec_run c hist.
Proof.
  unfold spec_run. change (c_geom0 (set_keep c b)) with (c_geom0 c). generalize (mkS [] [] (c_geom0 c)).
  induction hist as [|e hist IH]; intros s; cbn [fold_left]; [reflexivity|].
  rewrite spec_event_keep. apply IH.
Qed.

Lemma keep_hills_irrelevant c b hist i : cfg_ok c -> Forall (adm_event c) (hist ++ [EStep i]) ->
  out_energy (set_keep c b) hist i = out_energy c hist i /\
  forall k j, (k < length (c_vars c))%nat ->
    nth j (out_force (set_keep c b) hist i k) 0 = nth j (out_force c hist i k) 0.
Proof.
  intros H1 H2.
  assert (H1' : cfg_ok (set_keep c b)) by exact H1.
  assert (H2' : Forall (adm_event (set_keep c b)) (hist ++ [EStep i])) by exact H2.
  split.
  - rewrite (energy_holds _ _ _ H1' H2'), (energy_holds _ _ _ H1 H2), spec_run_keep. reflexivity.
  - intros k j Hk. rewrite (force_holds _ _ _ k j H1' H2' Hk), (force_holds _ _ _ k j H1 H2 Hk), spec_run_keep.
    reflexivity.
Qed.

