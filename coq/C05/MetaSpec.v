(* C05: specification of the metadynamics bias -- explicit sums of the analytic hills deposited on
   schedule -- and the lemmas that relate the kernel of the model (MetaModel.v, instance Rops) to it. *)
From Coq Require Import ZArith List Bool Reals Lra Lia Psatz.
From Flocq Require Import Core.Raux.
From CV Require Import Base.Num Base.RNum C15.GridModel C05.MetaModel.
Import ListNotations.
Local Open Scope R_scope.

Notation valueR := (list R).
Notation hillR := (@hill R).
Notation cfgR := (@cfg R).
Notation varR := (@var_cfg R).
Notation stateR := (@state R).
Notation inR := (@step_in R).
Notation eventR := (@event R).
Notation boundR := (@bound R).

(* ================================================================== the kernel *)

Fixpoint Rsum0 (l : list R) : R := match l with [] => 0 | a :: r => a + Rsum0 r end.

Definition scR (x : valueR) : R := match x with a :: _ => a | [] => 0 end.
Definition cR (x : valueR) (k : nat) : R := nth k x 0.

(* difference x - c of a scalar variable, by the nearest image when it is periodic *)
Definition mdiff (v : varR) (x c : R) : R :=
  if v_periodic v then (x - c) - IZR (Zfloor ((x - c) / v_period v + 1 / 2)) * v_period v else x - c.

(* squared distance of one variable: scalar (nearest image), Euclidean for a 3-vector, for a unit vector the
   squared angle as implemented (arc cosine of the inner product clamped to [-1,1]), for a quaternion the squared
   angle omega or pi - omega, whichever is smaller (q and -q are the same rotation), as implemented *)
(* Euclidean squared distance of two vectors of n entries *)
Definition SqN (n : nat) (x c : valueR) : R := Rsum0 (map (fun k => (cR x k - cR c k) * (cR x k - cR c k)) (seq 0 n)).

Definition D (v : varR) (x c : valueR) : R :=
  match v_kind v with
  | KScalar => mdiff v (scR x) (scR c) * mdiff v (scR x) (scR c)
  | KVec3 => (cR c 0 - cR x 0) * (cR c 0 - cR x 0) + (cR c 1 - cR x 1) * (cR c 1 - cR x 1)
             + (cR c 2 - cR x 2) * (cR c 2 - cR x 2)
  | KUnit3 => vdist2 Rops v x c
  | KQuat => vdist2 Rops v x c
  | KVecN n => SqN n x c
  end.

(* its gradient with respect to x, one entry per component (for the unit vector: as implemented) *)
Definition Dgrad (v : varR) (x c : valueR) : valueR :=
  match v_kind v with
  | KScalar => [2 * mdiff v (scR x) (scR c)]
  | KVec3 => [2 * (cR x 0 - cR c 0); 2 * (cR x 1 - cR c 1); 2 * (cR x 2 - cR c 2)]
  | KUnit3 => vlgrad Rops v x c
  | KQuat => vlgrad Rops v x c
  | KVecN n => map (fun k => 2 * (cR x k - cR c k)) (seq 0 n)
  end.

Definition dim (v : varR) : nat := match v_kind v with KScalar => 1 | KQuat => 4 | KVecN n => n | _ => 3 end.

(* exponent of a hill centred at c with widths sg, seen from x:  sum_i D_i(x_i, c_i) / sigma_i^2 *)
Fixpoint Qexp (vs : list varR) (sg : list R) (x c : list valueR) : R :=
  match vs, sg, x, c with
  | v :: vs', si :: sg', xi :: x', ci :: c' => D v xi ci / (si * si) + Qexp vs' sg' x' c'
  | _, _, _, _ => 0
  end.

(* the kernel as implemented: a Gaussian, set to zero when the exponent exceeds 23 *)
Definition gauss (q : R) : R := if Rlt_dec 23 q then 0 else exp (- (1 / 2) * q).

(* energy of hill h at x *)
Definition K (vs : list varR) (h : hillR) (x : list valueR) : R := h_W h * gauss (Qexp vs (h_s h) x (h_c h)).

(* component j of the force of hill h on variable k at x: minus the partial derivative of K *)
Definition Fk (vs : list varR) (h : hillR) (x : list valueR) (k j : nat) : R :=
  match nth_error vs k, nth_error (h_s h) k, nth_error x k, nth_error (h_c h) k with
  | Some v, Some si, Some xi, Some ci =>
      h_W h * gauss (Qexp vs (h_s h) x (h_c h)) * (nth j (Dgrad v xi ci) 0 / (2 * (si * si)))
  | _, _, _, _ => 0
  end.

Fixpoint Rsum (l : list R) : R := match l with [] => 0 | a :: r => a + Rsum r end.

Definition Esum (vs : list varR) (hs : list hillR) (x : list valueR) : R := Rsum (map (fun h => K vs h x) hs).
Definition Fsum (vs : list varR) (hs : list hillR) (x : list valueR) (k j : nat) : R :=
  Rsum (map (fun h => Fk vs h x k j) hs).

(* ================================================================== the schedule *)

(* the hills deposited so far: those already tabulated on the grids and those not yet; the geometry of
   the grids (it changes with expandBoundaries) *)
Record sstate := mkS { s_tab : list hillR; s_pend : list hillR; s_geom : list boundR }.
Definition s_all (s : sstate) : list hillR := s_tab s ++ s_pend s.

Section Spec.
  Variable c : cfgR.
  Let vs := c_vars c.

  (* a hill is due at a step that is a multiple of newHillFrequency and at which data may be
     accumulated (not the first step of a run nor a repeated step, unless stepZeroData) *)
  Definition eligible (i : inR) : bool :=
    (i_it i mod c_freq c =? 0)%Z && (((0 <? i_rel i)%Z && negb (i_cont i)) || c_step_zero c) && (0 <? c_freq c)%Z.

  (* x is on the grid g: the bin of every variable, wrapped along periodic dimensions, is in range *)
  Definition in_grid (g : list boundR) (x : list valueR) : bool :=
    c_use_grids c && index_ok (gsizes g) (gbins Rops vs g x).
  Definition bin_centre (g : list boundR) (x : list valueR) : list valueR := centre Rops vs g (gbins Rops vs g x).

  (* the bias prescribed by the property *)
  Definition spec_energy (s : sstate) (x : list valueR) : R :=
    if in_grid (s_geom s) x then Esum vs (s_tab s) (bin_centre (s_geom s) x) + Esum vs (s_pend s) x
    else Esum vs (s_all s) x.
  Definition spec_force (s : sstate) (x : list valueR) (k j : nat) : R :=
    if in_grid (s_geom s) x then Fsum vs (s_tab s) (bin_centre (s_geom s) x) k j + Fsum vs (s_pend s) x k j
    else Fsum vs (s_all s) x k j.

  (* ebMeta: the inverse of the target distribution at the bin of x (bins of the configured boundaries, wrapped
     along periodic dimensions; beyond the boundaries the closest edge bin), ramped in linearly from 1 during the
     first ebMetaEquilSteps steps *)
  Definition eb_factor (i : inR) : R :=
    if c_eb c then
      let r := 1 / c_eb_target c (tbins Rops c (i_x i)) in
      if (i_it i <? c_eb_equil c)%Z
      then let lam := IZR (c_eb_equil c - i_it i) / IZR (c_eb_equil c) in lam + (1 - lam) * r
      else r
    else 1.

  (* height of a new hill: hillWeight, times the ebMeta factor, times exp(-V/(k dT)) for well-tempered runs *)
  Definition spec_height (s : sstate) (i : inR) : R :=
    c_weight c * (eb_factor i * (if c_wt c then exp (- spec_energy s (i_x i) / (c_bias_temp c * c_kb c)) else 1)).

  (* expandBoundaries: the grids grow by whole bins so that the current bin keeps a buffer of
     floor(3 hillWidth)+1 bins from the (non-hard) edges *)
  Definition next_geom (g : list boundR) (x : list valueR) : list boundR :=
    if c_use_grids c && existsb (@v_expand R) vs then
      let g' := expand_geom Rops c vs g x in
      if geom_changed g g' then g' else g
    else g.

  Definition spec_expand (s : sstate) (x : list valueR) : sstate :=
    mkS (s_tab s) (s_pend s) (next_geom (s_geom s) x).
  Definition spec_dep (s : sstate) (i : inR) : sstate :=
    if eligible i
    then mkS (s_tab s) (s_pend s ++ [mkHill (i_it i) (spec_height s i) (i_x i) (c_sigmas c)]) (s_geom s)
    else s.
  Definition spec_tabulate (s : sstate) : sstate :=
    if c_use_grids c then mkS (s_tab s ++ s_pend s) [] (s_geom s) else s.
  Definition spec_proj (s : sstate) (i : inR) : sstate :=
    if (i_it i mod c_gfreq c =? 0)%Z then spec_tabulate s else s.

  Definition spec_step (s : sstate) (i : inR) : sstate :=
    spec_proj (spec_dep (spec_expand s (i_x i)) i) i.

  (* a restart tabulates the hills not yet tabulated (the state is written); with rebinGrids the grids get the
     boundaries of the new configuration *)
  Definition spec_restart (s : sstate) (r : option (list boundR)) : sstate :=
    let s1 := spec_tabulate s in
    match r with
    | None => s1
    | Some g' => if c_use_grids c then mkS (s_tab s1) (s_pend s1) g' else s1
    end.

  (* a step of the engine, the state being written (the hills not yet tabulated are tabulated), a restart *)
  Definition spec_event (s : sstate) (e : eventR) : sstate :=
    match e with
    | EStep i => spec_step s i | ESave => spec_tabulate s | ERestart r => spec_restart s r
    | EReload => spec_tabulate s
    | EReconf _ => spec_restart s None
    end.
End Spec.

(* the history is followed with the configuration in force at each event (hill widths, weight and frequency may change
   at a reconfiguration) *)
Definition spec_run (c : cfgR) (hist : list eventR) : sstate := frun spec_event c hist (mkS [] [] (c_geom0 c)).

(* ================================================================== kernel lemmas *)

Lemma Rsum_app a b : Rsum (a ++ b) = Rsum a + Rsum b.
Proof. induction a as [|x a IH]; cbn [app Rsum]; lra. Qed.

Lemma Esum_app vs a b x : Esum vs (a ++ b) x = Esum vs a x + Esum vs b x.
Proof. unfold Esum. rewrite map_app, Rsum_app. reflexivity. Qed.
Lemma Fsum_app vs a b x k j : Fsum vs (a ++ b) x k j = Fsum vs a x k j + Fsum vs b x k j.
Proof. unfold Fsum. rewrite map_app, Rsum_app. reflexivity. Qed.
Lemma Esum_nil vs x : Esum vs [] x = 0. Proof. reflexivity. Qed.
Lemma Fsum_nil vs x k j : Fsum vs [] x k j = 0. Proof. reflexivity. Qed.
Lemma Esum_cons vs h hs x : Esum vs (h :: hs) x = K vs h x + Esum vs hs x. Proof. reflexivity. Qed.
Lemma Fsum_cons vs h hs x k j : Fsum vs (h :: hs) x k j = Fk vs h x k j + Fsum vs hs x k j. Proof. reflexivity. Qed.

Lemma sc_R (x : valueR) : sc Rops x = scR x.
Proof. destruct x; reflexivity. Qed.

Lemma vdiff_R v x c : vdiff Rops v x c = mdiff v x c.
Proof. unfold vdiff, mdiff, nhalf; cbn. reflexivity. Qed.

Lemma vdist2_R v x c : vdist2 Rops v x c = D v x c.
Proof.
  unfold D. destruct (v_kind v) eqn:E.
  - unfold vdist2. rewrite E, !sc_R, vdiff_R. reflexivity.
  - unfold vdist2. rewrite E. reflexivity.
  - reflexivity.
  - reflexivity.
  - unfold vdist2. rewrite E. unfold sqsumN, SqN.
    assert (G : forall l a, fold_left (fun acc k => nadd Rops acc (nmul Rops (nsub Rops (comp Rops x k) (comp Rops c k)) (nsub Rops (comp Rops x k) (comp Rops c k)))) l a
                          = a + Rsum0 (map (fun k => (cR x k - cR c k) * (cR x k - cR c k)) l)).
    { induction l as [|k l IH]; intros a; cbn [fold_left map Rsum0]; [lra|]. rewrite IH. unfold comp, cR. cbn [nadd nmul nsub n0 Rops]. change (n0 Rops) with 0. ring. }
    rewrite G. cbn. lra.
Qed.

Lemma vlgrad_R v x c : vlgrad Rops v x c = Dgrad v x c.
Proof.
  unfold Dgrad. destruct (v_kind v) eqn:E.
  - unfold vlgrad. rewrite E, !sc_R, vdiff_R. reflexivity.
  - unfold vlgrad. rewrite E. reflexivity.
  - reflexivity.
  - reflexivity.
  - unfold vlgrad. rewrite E. unfold lgradN. apply map_ext. intros k. cbn. unfold comp, cR. reflexivity.
Qed.

Lemma D_nonneg v x c : 0 <= D v x c.
Proof.
  unfold D. destruct (v_kind v) eqn:E.
  - apply Rle_0_sqr.
  - pose proof (Rle_0_sqr (cR c 0 - cR x 0)). pose proof (Rle_0_sqr (cR c 1 - cR x 1)).
    pose proof (Rle_0_sqr (cR c 2 - cR x 2)). unfold Rsqr in *. lra.
  - unfold vdist2. rewrite E. apply Rle_0_sqr.
  - unfold vdist2. rewrite E. cbv zeta.
    destruct (nltb Rops (n0 Rops) (dot4 Rops x c)); apply Rle_0_sqr.
  - unfold SqN. induction (seq 0 n) as [|k l IH]; cbn [map Rsum0]; [lra|].
    pose proof (Rle_0_sqr (cR x k - cR c k)). unfold Rsqr in *. lra.
Qed.

Lemma sqdev_R vs : forall sg x c a, sqdev Rops vs sg x c a = a + Qexp vs sg x c.
Proof.
  induction vs as [|v vs IH]; intros sg x c a.
  - cbn [sqdev Qexp]. lra.
  - destruct sg as [|si sg]; [cbn [sqdev Qexp]; lra|].
    destruct x as [|xi x]; [cbn [sqdev Qexp]; lra|].
    destruct c as [|ci c]; [cbn [sqdev Qexp]; lra|].
    cbn [sqdev Qexp]. rewrite IH, vdist2_R. cbn [nadd ndiv nmul Rops]. lra.
Qed.

Lemma kval_R vs sg x c : kval Rops vs sg x c = gauss (Qexp vs sg x c).
Proof.
  unfold kval, gauss. rewrite sqdev_R. unfold nhalf; cbn.
  replace (0 + Qexp vs sg x c) with (Qexp vs sg x c) by lra.
  unfold Rltb. destruct (Rlt_dec 23 (Qexp vs sg x c)); reflexivity.
Qed.

Lemma henergy_R vs x h : henergy Rops vs x h = K vs h x.
Proof. unfold henergy, hweight, K. rewrite kval_R. cbn [nmul n1 Rops]. ring. Qed.

Lemma hills_energy_R vs x hs : forall e0, hills_energy Rops vs x hs e0 = e0 + Esum vs hs x.
Proof.
  unfold hills_energy, Esum. induction hs as [|h hs IH]; intros e0; cbn [fold_left map Rsum].
  - lra.
  - rewrite IH, henergy_R. cbn. lra.
Qed.

Lemma Qexp_nonneg vs : forall sg x c, 0 <= Qexp vs sg x c.
Proof.
  induction vs as [|v vs IH]; intros sg x c; [cbn [Qexp]; lra|].
  destruct sg as [|si sg]; [cbn [Qexp]; lra|].
  destruct x as [|xi x]; [cbn [Qexp]; lra|]. destruct c as [|ci c]; [cbn [Qexp]; lra|].
  cbn [Qexp]. specialize (IH sg x c). pose proof (D_nonneg v xi ci) as HD.
  destruct (Req_dec (si * si) 0) as [E|E].
  - rewrite E. unfold Rdiv. rewrite Rinv_0. lra.
  - assert (0 < si * si) by (pose proof (Rle_0_sqr si); unfold Rsqr in *; lra).
    assert (0 <= D v xi ci / (si * si)) by (apply Rmult_le_pos; [lra|left; apply Rinv_0_lt_compat; lra]).
    lra.
Qed.

Lemma gauss_far q : 23 < q -> gauss q = 0.
Proof. intros H. unfold gauss. destruct (Rlt_dec 23 q); [reflexivity|lra]. Qed.

Lemma K_far vs h x : 23 < Qexp vs (h_s h) x (h_c h) -> K vs h x = 0.
Proof. intros H. unfold K. rewrite gauss_far by exact H. ring. Qed.
Lemma Fk_far vs h x k j : 23 < Qexp vs (h_s h) x (h_c h) -> Fk vs h x k j = 0.
Proof.
  intros H. unfold Fk. rewrite gauss_far by exact H.
  destruct (nth_error vs k); [|reflexivity]. destruct (nth_error (h_s h) k); [|reflexivity].
  destruct (nth_error x k); [|reflexivity].
  destruct (nth_error (h_c h) k); [|reflexivity]. ring.
Qed.

(* ---- forces: lists of components ---- *)

Lemma vadd_length (a b : valueR) : length (vadd Rops a b) = length a.
Proof.
  revert b. induction a as [|p a IH]; intros b; [reflexivity|].
  destruct b as [|q b]; [reflexivity|]. cbn [vadd length]. rewrite IH. reflexivity.
Qed.

Lemma vadd_nth (a b : valueR) j : (length b <= length a)%nat ->
  nth j (vadd Rops a b) 0 = nth j a 0 + nth j b 0.
Proof.
  revert b j. induction a as [|p a IH]; intros b j Hl.
  - destruct b; [|cbn in Hl; lia]. destruct j; cbn; lra.
  - destruct b as [|q b].
    + cbn [vadd]. destruct j; cbn [nth]; lra.
    + cbn [vadd]. destruct j as [|j]; cbn [nth]; [cbn; lra|]. apply IH. cbn in Hl. lia.
Qed.

Lemma vlgrad_length (v : varR) x c : length (vlgrad Rops v x c) = dim v.
Proof.
  unfold vlgrad, dim. destruct (v_kind v); try reflexivity.
  - destruct (nltb Rops (nsub Rops (n1 Rops) (nmul Rops (dot3 Rops x c) (dot3 Rops x c))) (tiny28 Rops)); reflexivity.
  - cbv zeta. destruct (nltb Rops (nabs Rops (nsin Rops (nacos Rops (clamp1 Rops (dot4 Rops x c))))) (tiny14 Rops)); reflexivity.
  - unfold lgradN. rewrite map_length, seq_length. reflexivity.
Qed.

Lemma vzero_length (v : varR) : length (vzero Rops v) = dim v.
Proof. unfold vzero, dim. destruct (v_kind v); try reflexivity. apply repeat_length. Qed.

Lemma fterm_length vs sg x c wk k : (length (fterm Rops vs sg x c wk k) <= length (fzero Rops vs k))%nat.
Proof.
  unfold fterm, fzero. destruct (nth_error vs k) as [v|]; [|cbn; lia].
  destruct (nth_error sg k); [|cbn; lia].
  destruct (nth_error x k); [|cbn; lia]. destruct (nth_error c k); [|cbn; lia].
  rewrite map_length, vlgrad_length, vzero_length. lia.
Qed.

Lemma nth_map_default (f : R -> R) l : forall j d d', f d = d' -> nth j (map f l) d' = f (nth j l d).
Proof.
  induction l as [|a l IH]; intros j d d' H; destruct j; cbn [map nth]; auto.
Qed.

Lemma fterm_nth vs sg x c wk k j :
  nth j (fterm Rops vs sg x c wk k) 0 =
  match nth_error vs k, nth_error sg k, nth_error x k, nth_error c k with
  | Some v, Some si, Some xi, Some ci => wk * (nth j (Dgrad v xi ci) 0 / (2 * (si * si)))
  | _, _, _, _ => 0
  end.
Proof.
  unfold fterm. destruct (nth_error vs k) as [v|]; [|destruct j; reflexivity].
  destruct (nth_error sg k) as [si|]; [|destruct j; reflexivity].
  destruct (nth_error x k) as [xi|]; [|destruct j; reflexivity].
  destruct (nth_error c k) as [ci|]; [|destruct j; reflexivity].
  rewrite vlgrad_R.
  rewrite nth_map_default with (d := 0) by (cbn [nmul Rops]; ring).
  unfold nhalf. cbn [nmul ndiv n1 nofZ Rops]. unfold Rdiv.
  destruct (Req_dec (si * si) 0) as [E|E].
  - rewrite E. rewrite Rmult_0_r, !Rinv_0. ring.
  - rewrite Rinv_mult. field. intros Z0. apply E. rewrite Z0. ring.
Qed.

Lemma hforce_length vs x k f h : length (hforce Rops vs x k f h) = length f.
Proof.
  unfold hforce. destruct (neqb Rops (kval Rops vs (h_s h) x (h_c h)) (n0 Rops)); [reflexivity|apply vadd_length].
Qed.

Lemma hills_force_length vs x k hs : forall f, length (hills_force Rops vs x k hs f) = length f.
Proof.
  unfold hills_force. induction hs as [|h hs IH]; intros f; cbn [fold_left]; [reflexivity|].
  rewrite IH. apply hforce_length.
Qed.

Lemma hforce_R vs x k f h j : length f = length (fzero Rops vs k) ->
  nth j (hforce Rops vs x k f h) 0 = nth j f 0 + Fk vs h x k j.
Proof.
  intros Hl. unfold hforce, Fk. rewrite kval_R. cbn [neqb Rops n0].
  unfold Reqb'. destruct (Req_EM_T (gauss (Qexp vs (h_s h) x (h_c h))) 0) as [E|E].
  - rewrite E. destruct (nth_error vs k); [|ring]. destruct (nth_error (h_s h) k); [|ring]. destruct (nth_error x k); [|ring].
    destruct (nth_error (h_c h) k); unfold Rdiv; ring.
  - rewrite vadd_nth by (rewrite Hl; apply fterm_length).
    rewrite fterm_nth. destruct (nth_error vs k); [|ring]. destruct (nth_error (h_s h) k); [|ring]. destruct (nth_error x k); [|ring].
    destruct (nth_error (h_c h) k); [|ring]. unfold hweight. cbn [nmul n1 Rops]. unfold Rdiv. ring.
Qed.

Lemma hills_force_R vs x k hs j : forall f0, length f0 = length (fzero Rops vs k) ->
  nth j (hills_force Rops vs x k hs f0) 0 = nth j f0 0 + Fsum vs hs x k j.
Proof.
  unfold hills_force, Fsum. induction hs as [|h hs IH]; intros f0 Hl; cbn [fold_left map Rsum].
  - lra.
  - rewrite IH by (rewrite hforce_length; exact Hl). rewrite hforce_R by exact Hl. lra.
Qed.

(* sums over lists from which hills that do not contribute have been dropped *)
Section Dropped.
  Variable P : hillR -> Prop.
  Inductive Dropped : list hillR -> list hillR -> Prop :=
  | D_nil : Dropped [] []
  | D_keep h l l' : Dropped l l' -> Dropped (h :: l) (h :: l')
  | D_drop h l l' : P h -> Dropped l l' -> Dropped (h :: l) l'.

  Lemma Dropped_app a a' b b' : Dropped a a' -> Dropped b b' -> Dropped (a ++ b) (a' ++ b').
  Proof.
    intros Ha Hb. induction Ha as [|h l l' Ha IH|h l l' Hp Ha IH]; cbn [app].
    - exact Hb.
    - apply D_keep. exact IH.
    - apply D_drop; [exact Hp|exact IH].
  Qed.

  Lemma Dropped_refl l : Dropped l l.
  Proof. induction l as [|h l IH]; [apply D_nil|apply D_keep; exact IH]. Qed.

  Lemma Dropped_Esum vs x l l' : (forall h, P h -> K vs h x = 0) -> Dropped l l' -> Esum vs l' x = Esum vs l x.
  Proof.
    intros HP Hd. induction Hd as [|h l l' Hd IH|h l l' Hp Hd IH].
    - reflexivity.
    - rewrite !Esum_cons, IH. reflexivity.
    - rewrite Esum_cons, IH, (HP h Hp). lra.
  Qed.

  Lemma Dropped_Fsum vs x k j l l' : (forall h, P h -> Fk vs h x k j = 0) -> Dropped l l' ->
    Fsum vs l' x k j = Fsum vs l x k j.
  Proof.
    intros HP Hd. induction Hd as [|h l l' Hd IH|h l l' Hp Hd IH].
    - reflexivity.
    - rewrite !Fsum_cons, IH. reflexivity.
    - rewrite Fsum_cons, IH, (HP h Hp). lra.
  Qed.
End Dropped.

Lemma Dropped_trans (P : hillR -> Prop) a b : Dropped P a b -> forall c, Dropped P b c -> Dropped P a c.
Proof.
  intros Hab. induction Hab as [|h l l' Hd IH|h l l' Hp Hd IH]; intros c Hbc.
  - exact Hbc.
  - inversion Hbc as [|h0 l0 l0' Hd0|h0 l0 l0' Hp0 Hd0]; subst.
    + apply D_keep. apply IH. exact Hd0.
    + apply D_drop; [exact Hp0|]. apply IH. exact Hd0.
  - apply D_drop; [exact Hp|]. apply IH. exact Hbc.
Qed.

Lemma Dropped_filter (P : hillR -> Prop) (f : hillR -> bool) l :
  (forall h, In h l -> f h = false -> P h) -> Dropped P l (filter f l).
Proof.
  induction l as [|h l IH]; intros H; cbn [filter]; [apply D_nil|].
  destruct (f h) eqn:E.
  - apply D_keep. apply IH. intros h' Hin. apply H. right. exact Hin.
  - apply D_drop; [apply H; [left; reflexivity|exact E]|]. apply IH. intros h' Hin. apply H. right. exact Hin.
Qed.

Lemma Dropped_In (P : hillR -> Prop) l l' : Dropped P l l' -> forall h, In h l' -> In h l.
Proof.
  intros Hd. induction Hd as [|h l l' Hd IH|h l l' Hp Hd IH]; intros h' Hin.
  - exact Hin.
  - destruct Hin as [<-|Hin]; [left; reflexivity|right; apply IH; exact Hin].
  - right. apply IH. exact Hin.
Qed.

Lemma Dropped_nil (P : hillR -> Prop) l' : Dropped P [] l' -> l' = [].
Proof. intros H. inversion H. reflexivity. Qed.

Lemma Dropped_mono (P Q : hillR -> Prop) l l' : (forall h, P h -> Q h) -> Dropped P l l' -> Dropped Q l l'.
Proof.
  intros HPQ Hd. induction Hd as [|h l l' Hd IH|h l l' Hp Hd IH].
  - apply D_nil.
  - apply D_keep. exact IH.
  - apply D_drop; [apply HPQ; exact Hp|exact IH].
Qed.

Lemma Esum_zero vs hs x : (forall h, In h hs -> K vs h x = 0) -> Esum vs hs x = 0.
Proof.
  induction hs as [|h hs IH]; intros H; [reflexivity|].
  rewrite Esum_cons, IH; [|intros h' Hin; apply H; right; exact Hin]. rewrite (H h); [lra|left; reflexivity].
Qed.
Lemma Fsum_zero vs hs x k j : (forall h, In h hs -> Fk vs h x k j = 0) -> Fsum vs hs x k j = 0.
Proof.
  induction hs as [|h hs IH]; intros H; [reflexivity|].
  rewrite Fsum_cons, IH; [|intros h' Hin; apply H; right; exact Hin]. rewrite (H h); [lra|left; reflexivity].
Qed.
