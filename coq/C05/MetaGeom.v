(* C05: geometry lemmas.  (1) A hill that add_hill does not keep in hills_off_grid is zero everywhere off
   the grid.  (2) expandBoundaries keeps every hill at least min_buffer bins from the expandable edges, so
   the bins added by an expansion are beyond the range of all earlier hills; map_grid moves the old bins
   onto the same lattice. *)
From Coq Require Import ZArith List Bool Reals Lra Lia Psatz.
From Flocq Require Import Core.Raux.
From CV Require Import Base.Num Base.RNum C15.GridModel C05.MetaModel C05.MetaSpec.
Import ListNotations.
Local Open Scope R_scope.

(* ---- predicates over parallel lists ---- *)
Fixpoint All2 {A B} (P : A -> B -> Prop) (la : list A) (lb : list B) : Prop :=
  match la, lb with
  | a :: la', b :: lb' => P a b /\ All2 P la' lb'
  | [], [] => True
  | _, _ => False
  end.
Fixpoint All3 {A B C} (P : A -> B -> C -> Prop) (la : list A) (lb : list B) (lc : list C) : Prop :=
  match la, lb, lc with
  | a :: la', b :: lb', c :: lc' => P a b c /\ All3 P la' lb' lc'
  | [], [], [] => True
  | _, _, _ => False
  end.

Fixpoint All4 {A B C D} (P : A -> B -> C -> D -> Prop) (la : list A) (lb : list B) (lc : list C) (ld : list D) : Prop :=
  match la, lb, lc, ld with
  | a :: la', b :: lb', c :: lc', d :: ld' => P a b c d /\ All4 P la' lb' lc' ld'
  | [], [], [], [] => True
  | _, _, _, _ => False
  end.

Lemma All4_length {A B C D} (P : A -> B -> C -> D -> Prop) la : forall lb lc ld, All4 P la lb lc ld ->
  length la = length lb /\ length la = length lc /\ length la = length ld.
Proof.
  induction la as [|a la IH]; intros [|b lb] [|c lc] [|d ld] H; cbn in *; try tauto.
  destruct H as [_ H]. destruct (IH _ _ _ H) as (H1 & H2 & H3). repeat split; f_equal; assumption.
Qed.

Lemma All2_length {A B} (P : A -> B -> Prop) la : forall lb, All2 P la lb -> length la = length lb.
Proof.
  induction la as [|a la IH]; intros [|b lb] H; cbn in *; try tauto. f_equal. apply IH. tauto.
Qed.
Lemma All3_length {A B C} (P : A -> B -> C -> Prop) la : forall lb lc, All3 P la lb lc ->
  length la = length lb /\ length la = length lc.
Proof.
  induction la as [|a la IH]; intros [|b lb] [|c lc] H; cbn in *; try tauto.
  destruct H as [_ H]. destruct (IH _ _ H). split; f_equal; assumption.
Qed.
Lemma All2_impl {A B} (P Q : A -> B -> Prop) la : forall lb, (forall a b, P a b -> Q a b) -> All2 P la lb -> All2 Q la lb.
Proof.
  induction la as [|a la IH]; intros [|b lb] HPQ H; cbn in *; try tauto. split; [apply HPQ; tauto|apply IH; tauto].
Qed.

(* ---- well-formedness of one dimension ---- *)
Definition var_ok (v : varR) : Prop := 0 < v_width v.
(* widths of a hill (or of the configuration): one positive sigma per variable *)
Definition sig_ok (vs : list varR) (sg : list R) : Prop := length sg = length vs /\ Forall (Rlt 0) sg.
Definition bound_ok (v : varR) (b : boundR) : Prop :=
  b_upper b = b_lower b + IZR (b_nx b) * v_width v /\ (0 < b_nx b)%Z.
(* a variable on a grid is a scalar; a grid that spans the period of its variable is not expanded
   (colvar::check_grid_parameters); [restriction] nor is a grid on part of the range of a periodic variable *)
Definition gvar_ok (v : varR) : Prop :=
  v_kind v = KScalar /\ (v_expand v = true -> v_periodic v = false /\ v_gperiodic v = false).

(* admissible value of a variable with respect to its grid: beyond a boundary only where the boundary is
   not declared hard, and (restriction) not beyond the grid when the grid covers part of a period *)
Definition adm_var (v : varR) (b : boundR) (x : R) : Prop :=
  (v_periodic v = true -> v_gperiodic v = false -> b_lower b <= x < b_upper b) /\
  (v_hard_lo v = true -> b_lower b <= x) /\
  (v_hard_up v = true -> x < b_upper b).

(* b' is b grown by k bins below and k' bins above, on the same lattice, only where allowed *)
Definition gstep (v : varR) (b b' : boundR) : Prop :=
  exists k k' : Z, (0 <= k)%Z /\ (0 <= k')%Z /\
    b_lower b' = b_lower b - IZR k * v_width v /\
    b_upper b' = b_upper b + IZR k' * v_width v /\
    b_nx b' = (b_nx b + k + k')%Z /\
    (v_expand v = false \/ v_hard_lo v = true -> k = 0%Z) /\
    (v_expand v = false \/ v_hard_up v = true -> k' = 0%Z).

Lemma gstep_refl v b : gstep v b b.
Proof. exists 0%Z, 0%Z. repeat split; try lia; simpl; try lra. Qed.

Lemma gstep_trans v b1 b2 b3 : gstep v b1 b2 -> gstep v b2 b3 -> gstep v b1 b3.
Proof.
  intros (k1 & k1' & A1 & A2 & A3 & A4 & A5 & A6 & A7) (k2 & k2' & B1 & B2 & B3 & B4 & B5 & B6 & B7).
  exists (k1 + k2)%Z, (k1' + k2')%Z. repeat split; try lia.
  - rewrite B3, A3, plus_IZR. lra.
  - rewrite B4, A4, plus_IZR. lra.
  - intros H. rewrite (A6 H), (B6 H). reflexivity.
  - intros H. rewrite (A7 H), (B7 H). reflexivity.
Qed.

Lemma gstep_bound_ok v b b' : bound_ok v b -> gstep v b b' -> bound_ok v b'.
Proof.
  intros [Hu Hn] (k & k' & A1 & A2 & A3 & A4 & A5 & _ & _). split; [|lia].
  rewrite A4, A3, A5, Hu, !plus_IZR. lra.
Qed.

Lemma gstep_adm v b b' x : gstep v b b' -> gvar_ok v -> (adm_var v b x <-> adm_var v b' x).
Proof.
  intros (k & k' & A1 & A2 & A3 & A4 & A5 & A6 & A7) [_ Hg]. unfold adm_var.
  assert (Hp : v_periodic v = true -> k = 0%Z /\ k' = 0%Z).
  { intros Hper. destruct (v_expand v) eqn:E.
    - destruct (Hg eq_refl) as [Hc _]. congruence.
    - split; [apply A6|apply A7]; left; reflexivity. }
  split; intros (H1 & H2 & H3); (split; [|split]).
  - intros P G. destruct (Hp P) as [K1 K2]. rewrite A3, A4, K1, K2. simpl. specialize (H1 P G). lra.
  - intros Hl. rewrite A3, (A6 (or_intror Hl)). simpl. specialize (H2 Hl). lra.
  - intros Hu. rewrite A4, (A7 (or_intror Hu)). simpl. specialize (H3 Hu). lra.
  - intros P G. destruct (Hp P) as [K1 K2]. rewrite A3, A4, K1, K2 in H1. simpl in H1. specialize (H1 P G). lra.
  - intros Hl. rewrite A3, (A6 (or_intror Hl)) in H2. simpl in H2. specialize (H2 Hl). lra.
  - intros Hu. rewrite A4, (A7 (or_intror Hu)) in H3. simpl in H3. specialize (H3 Hu). lra.
Qed.

(* ---- bins ---- *)
Lemma vtb_R lower w x : value_to_bin Rops lower w x = Zfloor ((x - lower) / w).
Proof. reflexivity. Qed.
Lemma btv_R lower w i : bin_to_value Rops lower w i = lower + w * (1 / 2 + IZR i).
Proof. unfold bin_to_value, nhalf. cbn. reflexivity. Qed.

Lemma vtb_shift lower w x k : 0 < w ->
  value_to_bin Rops (lower - IZR k * w) w x = (value_to_bin Rops lower w x + k)%Z.
Proof.
  intros Hw. rewrite !vtb_R. rewrite <- Zfloor_add_IZR. f_equal. field. lra.
Qed.

Lemma div_mul (a w : R) : 0 < w -> a / w * w = a.
Proof. intros H. field. lra. Qed.

Lemma vtb_neg lower w x : 0 < w -> (value_to_bin Rops lower w x < 0)%Z -> x < lower.
Proof.
  intros Hw H. rewrite vtb_R in H.
  pose proof (Zfloor_ub ((x - lower) / w)) as Hub.
  assert (Hz : IZR (Zfloor ((x - lower) / w)) + 1 <= 0).
  { rewrite <- plus_IZR. apply IZR_le. lia. }
  pose proof (div_mul (x - lower) w Hw) as Hd.
  set (q := (x - lower) / w) in *. assert (Hq : q < 0) by lra. nra.
Qed.

Lemma vtb_ge lower w x n : 0 < w -> (n <= value_to_bin Rops lower w x)%Z -> lower + IZR n * w <= x.
Proof.
  intros Hw H. rewrite vtb_R in H.
  pose proof (Zfloor_lb ((x - lower) / w)) as Hlb.
  pose proof (div_mul (x - lower) w Hw) as Hd.
  apply IZR_le in H. set (q := (x - lower) / w) in *. assert (Hq : IZR n <= q) by lra. nra.
Qed.

Lemma vtb_lt lower w x n : 0 < w -> (value_to_bin Rops lower w x < n)%Z -> x < lower + IZR n * w.
Proof.
  intros Hw H. rewrite vtb_R in H.
  pose proof (Zfloor_ub ((x - lower) / w)) as Hub.
  assert (Hz : IZR (Zfloor ((x - lower) / w)) + 1 <= IZR n) by (rewrite <- plus_IZR; apply IZR_le; lia).
  pose proof (div_mul (x - lower) w Hw) as Hd.
  set (q := (x - lower) / w) in *. assert (Hq : q < IZR n) by lra. nra.
Qed.

Lemma wrap_in_range i n : (0 < n)%Z -> (0 <= Z.rem (Z.rem i n + n) n < n)%Z.
Proof.
  intros Hn. pose proof (Z.rem_bound_abs i n ltac:(lia)) as Hb.
  apply Z.rem_bound_pos; lia.
Qed.

(* ---- the width of the hills in bins ---- *)
Lemma fold_max_ge (f : varR -> R) (l : list varR) : forall a,
  a <= fold_left (fun w v => if Rltb w (f v) then f v else w) l a /\
  forall v, In v l -> f v <= fold_left (fun w v => if Rltb w (f v) then f v else w) l a.
Proof.
  induction l as [|u l IH]; intros a; cbn [fold_left].
  - split; [lra|intros v []].
  - destruct (IH (if Rltb a (f u) then f u else a)) as [H1 H2]. split.
    + destruct (Rltb a (f u)) eqn:E; [apply Rltb_true in E|]; lra.
    + intros v [->|Hin]; [|apply H2; exact Hin].
      destruct (Rltb a (f v)) eqn:E; [lra|apply Rltb_false in E; lra].
Qed.

(* hillWidth given: sigma_i = width_i * hillWidth / 2 *)
Definition sigmas_ok (c : cfgR) : Prop :=
  0 < c_hill_width c -> All2 (fun v si => si = v_width v * c_hill_width c / 2) (c_vars c) (c_sigmas c).

Lemma hwb_max_ge vs : forall sg w0, Forall var_ok vs -> length sg = length vs ->
  w0 <= hwb_max Rops vs sg w0 /\ All2 (fun v si => 2 * si / v_width v <= hwb_max Rops vs sg w0) vs sg.
Proof.
  induction vs as [|v vs IH]; intros sg w0 Hv Hl.
  - destruct sg; [|discriminate]. cbn. split; [lra|exact I].
  - destruct sg as [|si sg]; [discriminate|]. inversion Hv as [|v0 l0 Hv1 Hvs]; subst. cbn [length] in Hl.
    cbn [hwb_max All2]. cbn [ndiv nmul nofZ nltb Rops].
    set (w1 := if Rltb w0 (2 * si / v_width v) then 2 * si / v_width v else w0).
    destruct (IH sg w1 Hvs ltac:(lia)) as [H1 H2].
    assert (Hw1 : w0 <= w1 /\ 2 * si / v_width v <= w1).
    { unfold w1. destruct (Rltb w0 (2 * si / v_width v)) eqn:E; [apply Rltb_true in E|apply Rltb_false in E]; lra. }
    split; [lra|]. split; [lra|]. exact H2.
Qed.

Lemma All2_mono_val {A B} (P Q : A -> B -> Prop) la : forall lb, (forall a b, P a b -> Q a b) -> All2 P la lb -> All2 Q la lb.
Proof. exact (All2_impl P Q la). Qed.

(* the configured widths against hill_width_bins() *)
Lemma hw_bins_ge (c : cfgR) : sigmas_ok c -> Forall var_ok (c_vars c) -> sig_ok (c_vars c) (c_sigmas c) ->
  All2 (fun v si => 2 * si / v_width v <= hw_bins Rops c) (c_vars c) (c_sigmas c).
Proof.
  intros Hs Hv [Hl _]. unfold hw_bins. cbn [nltb n0 Rops].
  destruct (Rltb 0 (c_hill_width c)) eqn:E.
  - apply Rltb_true in E. specialize (Hs E). revert Hs Hv. generalize (c_sigmas c) as sg. generalize (c_vars c) as vs.
    induction vs as [|v vs IH]; intros [|si sg] Hs Hv; cbn [All2] in *; try tauto.
    inversion Hv as [|v0 l0 Hv1 Hvs]; subst. destruct Hs as [Hs1 Hs2]. split; [|apply IH; assumption].
    rewrite Hs1. unfold var_ok in Hv1. right. field. lra.
  - destruct (hwb_max_ge (c_vars c) (c_sigmas c) (c_hill_width c) Hv Hl) as [_ H]. exact H.
Qed.

(* min_buffer * width exceeds six sigmas of the configured widths *)
Lemma min_buffer_covers (c : cfgR) : sigmas_ok c -> Forall var_ok (c_vars c) -> sig_ok (c_vars c) (c_sigmas c) ->
  All2 (fun v si => 6 * si < IZR (min_buffer Rops c) * v_width v) (c_vars c) (c_sigmas c).
Proof.
  intros Hs Hv Hsg. pose proof (hw_bins_ge c Hs Hv Hsg) as H. revert H Hv.
  unfold min_buffer. cbn [nfloor nmul nofZ Rops]. rewrite plus_IZR. simpl (IZR 1).
  pose proof (Zfloor_ub (3 * hw_bins Rops c)) as Hub. set (hb := hw_bins Rops c) in *.
  generalize (c_sigmas c) as sg. generalize (c_vars c) as vs.
  induction vs as [|v vs IH]; intros [|si sg] H Hv; cbn [All2] in *; try tauto.
  inversion Hv as [|v0 l0 Hv1 Hvs]; subst. destruct H as [H1 H2]. split; [|apply IH; assumption].
  unfold var_ok in Hv1.
  assert (H3 : 2 * si <= hb * v_width v).
  { apply Rmult_le_compat_r with (r := v_width v) in H1; [|lra].
    unfold Rdiv in H1. rewrite Rmult_assoc, Rinv_l, Rmult_1_r in H1 by lra. exact H1. }
  assert (H4 : 3 * hb * v_width v < (IZR (Zfloor (3 * hb)) + 1) * v_width v) by (apply Rmult_lt_compat_r; lra).
  lra.
Qed.

(* the margin of a hill (from its own widths) times the width exceeds the range of the hill *)
Lemma margin_covers (c : cfgR) sg : Forall var_ok (c_vars c) -> length sg = length (c_vars c) ->
  1 <= off_margin Rops c sg /\
  All2 (fun v si => 6 * si + v_width v <= off_margin Rops c sg * v_width v) (c_vars c) sg.
Proof.
  intros Hv Hl. unfold off_margin, hw_bins_h. cbn [nadd nmul nofZ n1 n0 Rops].
  destruct (hwb_max_ge (c_vars c) sg 0 Hv Hl) as [H0 H]. set (hb := hwb_max Rops (c_vars c) sg 0) in *.
  split; [lra|]. revert H Hv. generalize sg as sg'. generalize (c_vars c) as vs.
  induction vs as [|v vs IH]; intros [|si sg'] H Hv; cbn [All2] in *; try tauto.
  inversion Hv as [|v0 l0 Hv1 Hvs]; subst. destruct H as [H1 H2]. split; [|apply IH; assumption].
  unfold var_ok in Hv1.
  assert (H3 : 2 * si <= hb * v_width v).
  { apply Rmult_le_compat_r with (r := v_width v) in H1; [|lra].
    unfold Rdiv in H1. rewrite Rmult_assoc, Rinv_l, Rmult_1_r in H1 by lra. exact H1. }
  lra.
Qed.

(* ================================================================== (1) hills far from the edges *)

Section Far.
  Variable c : cfgR.
  Local Notation vs := (c_vars c).

  (* the two distances of bin_distance_from_boundaries for one dimension *)
  Definition dlow (v : varR) (b : boundR) (x : R) : R :=
    let d0 := sqrt (mdiff v x (b_lower b) * mdiff v x (b_lower b)) / v_width v in
    if Rltb x (b_lower b) then d0 * - 1 else d0.
  Definition dupp (v : varR) (b : boundR) (x : R) : R :=
    let d0 := sqrt (mdiff v x (b_upper b) * mdiff v x (b_upper b)) / v_width v in
    if Rltb (b_upper b) x then d0 * - 1 else d0.

  Definition far_var (M : R) (v : varR) (b : boundR) (cx : valueR) : Prop :=
    v_gperiodic v = false ->
    (v_hard_lo v = false -> M <= dlow v b (scR cx)) /\ (v_hard_up v = false -> M <= dupp v b (scR cx)).

  Lemma bin_dist_step (v : varR) (b : boundR) (xv : valueR) us g x m :
    bin_dist Rops (v :: us) (b :: g) (xv :: x) m =
    if v_gperiodic v then bin_dist Rops us g x m else
    bin_dist Rops us g x
      (let m1 := if negb (v_hard_lo v) && Rltb (dlow v b (scR xv)) m then dlow v b (scR xv) else m in
       if negb (v_hard_up v) && Rltb (dupp v b (scR xv)) m1 then dupp v b (scR xv) else m1).
  Proof.
    cbn [bin_dist]. destruct (v_gperiodic v); [reflexivity|].
    unfold dlow, dupp. rewrite !sc_R, !vdiff_R. reflexivity.
  Qed.

  Lemma bin_dist_le us : forall g x m, bin_dist Rops us g x m <= m.
  Proof.
    induction us as [|v us IH]; intros g x m; [cbn; lra|].
    destruct g as [|b g]; [cbn; lra|]. destruct x as [|xv x]; [cbn; lra|].
    rewrite bin_dist_step. destruct (v_gperiodic v); [apply IH|].
    eapply Rle_trans; [apply IH|]. cbv zeta.
    destruct (negb (v_hard_lo v) && Rltb (dlow v b (scR xv)) m) eqn:E1.
    - apply andb_prop in E1. destruct E1 as [_ E1]. apply Rltb_true in E1.
      destruct (negb (v_hard_up v) && Rltb (dupp v b (scR xv)) (dlow v b (scR xv))) eqn:E2; [|lra].
      apply andb_prop in E2. destruct E2 as [_ E2]. apply Rltb_true in E2. lra.
    - destruct (negb (v_hard_up v) && Rltb (dupp v b (scR xv)) m) eqn:E2; [|lra].
      apply andb_prop in E2. destruct E2 as [_ E2]. apply Rltb_true in E2. lra.
  Qed.

  Lemma bin_dist_far M us : forall g x m, length g = length us -> length x = length us ->
    M <= bin_dist Rops us g x m -> All3 (far_var M) us g x.
  Proof.
    induction us as [|v us IH]; intros g x m Hg Hx HM.
    - destruct g; [|discriminate]. destruct x; [|discriminate]. exact I.
    - destruct g as [|b g]; [discriminate|]. destruct x as [|xv x]; [discriminate|].
      cbn [length] in Hg, Hx. injection Hg as Hg. injection Hx as Hx.
      rewrite bin_dist_step in HM. cbv zeta in HM. cbn [All3]. unfold far_var at 1. destruct (v_gperiodic v) eqn:G.
      + split; [intros Hc; congruence|]. apply (IH g x m Hg Hx HM).
      + set (dl := dlow v b (scR xv)) in *. set (du := dupp v b (scR xv)) in *.
        set (m1 := if negb (v_hard_lo v) && Rltb dl m then dl else m) in *.
        set (m2 := if negb (v_hard_up v) && Rltb du m1 then du else m1) in *.
        pose proof (bin_dist_le us g x m2) as Hle.
        split; [|apply (IH g x m2 Hg Hx HM)].
        intros _. split.
        * intros Hl. assert (Hm1 : m1 <= dl).
          { unfold m1. rewrite Hl. cbn [negb andb]. destruct (Rltb dl m) eqn:E; [lra|apply Rltb_false in E; lra]. }
          assert (Hm2 : m2 <= m1).
          { unfold m2. destruct (negb (v_hard_up v) && Rltb du m1) eqn:E; [|lra].
            apply andb_prop in E. destruct E as [_ E]. apply Rltb_true in E. lra. }
          lra.
        * intros Hu. assert (Hm2 : m2 <= du).
          { unfold m2. rewrite Hu. cbn [negb andb]. destruct (Rltb du m1) eqn:E; [lra|apply Rltb_false in E; lra]. }
          lra.
  Qed.

  (* one dimension: the value is beyond the grid, the centre is at least M bins inside it *)
  Lemma dim_far (M : R) (v : varR) (si : R) (b : boundR) (xs cs : R) :
    var_ok v -> 0 < si -> bound_ok v b -> adm_var v b xs -> v_gperiodic v = false ->
    ((v_hard_lo v = false -> M <= dlow v b cs) /\ (v_hard_up v = false -> M <= dupp v b cs)) ->
    0 < M -> 6 * si + v_width v <= M * v_width v ->
    ~ (0 <= value_to_bin Rops (b_lower b) (v_width v) xs < b_nx b)%Z ->
    23 < mdiff v xs cs * mdiff v xs cs / (si * si).
  Proof.
    intros Hw Hs [Hu Hn] (Ha1 & Ha2 & Ha3) G [Hfl Hfu] HM Hcov Hout. unfold var_ok in Hw.
    assert (Hside : xs < b_lower b \/ b_upper b <= xs).
    { destruct (Z_lt_dec (value_to_bin Rops (b_lower b) (v_width v) xs) 0) as [Hneg|Hnn].
      - left. apply (vtb_neg _ _ _ Hw Hneg).
      - right. assert (Hge : (b_nx b <= value_to_bin Rops (b_lower b) (v_width v) xs)%Z) by lia.
        pose proof (vtb_ge _ _ _ _ Hw Hge). lra. }
    assert (Hper : v_periodic v = false).
    { destruct (v_periodic v) eqn:P; [|reflexivity]. specialize (Ha1 eq_refl G). lra. }
    assert (Hmd : forall a b0, mdiff v a b0 = a - b0) by (intros; unfold mdiff; rewrite Hper; reflexivity).
    rewrite Hmd.
    assert (Hgoal : 6 * si < Rabs (xs - cs) -> 23 < (xs - cs) * (xs - cs) / (si * si)).
    { intros H6. assert (Hsq : 36 * (si * si) < (xs - cs) * (xs - cs)).
      { unfold Rabs in H6. destruct (Rcase_abs (xs - cs)); nra. }
      assert (Hs2 : 0 < si * si) by nra.
      apply Rmult_lt_reg_r with (r := si * si); [exact Hs2|].
      unfold Rdiv. rewrite Rmult_assoc, Rinv_l by lra. lra. }
    apply Hgoal.
    destruct Hside as [Hlo|Hup].
    - assert (Hl : v_hard_lo v = false).
      { destruct (v_hard_lo v) eqn:E; [|reflexivity]. specialize (Ha2 eq_refl). lra. }
      specialize (Hfl Hl). unfold dlow in Hfl. rewrite Hmd in Hfl.
      destruct (Rltb cs (b_lower b)) eqn:E.
      + exfalso. assert (0 <= sqrt ((cs - b_lower b) * (cs - b_lower b)) / v_width v).
        { apply Rmult_le_pos; [apply sqrt_pos|left; apply Rinv_0_lt_compat; exact Hw]. }
        lra.
      + apply Rltb_false in E. rewrite sqrt_square in Hfl by lra.
        pose proof (div_mul (cs - b_lower b) (v_width v) Hw) as Hd.
        assert (M * v_width v <= (cs - b_lower b) / v_width v * v_width v) by (apply Rmult_le_compat_r; lra).
        unfold Rabs. destruct (Rcase_abs (xs - cs)); lra.
    - assert (Hl : v_hard_up v = false).
      { destruct (v_hard_up v) eqn:E; [|reflexivity]. specialize (Ha3 eq_refl). lra. }
      specialize (Hfu Hl). unfold dupp in Hfu. rewrite Hmd in Hfu.
      destruct (Rltb (b_upper b) cs) eqn:E.
      + exfalso. assert (0 <= sqrt ((cs - b_upper b) * (cs - b_upper b)) / v_width v).
        { apply Rmult_le_pos; [apply sqrt_pos|left; apply Rinv_0_lt_compat; exact Hw]. }
        lra.
      + apply Rltb_false in E.
        replace ((cs - b_upper b) * (cs - b_upper b)) with ((b_upper b - cs) * (b_upper b - cs)) in Hfu by ring.
        rewrite sqrt_square in Hfu by lra.
        pose proof (div_mul (b_upper b - cs) (v_width v) Hw) as Hd.
        assert (M * v_width v <= (b_upper b - cs) / v_width v * v_width v) by (apply Rmult_le_compat_r; lra).
        unfold Rabs. destruct (Rcase_abs (xs - cs)); lra.
  Qed.

  (* the wrapped index of a dimension *)
  Definition wbin (v : varR) (b : boundR) (xs : R) : Z :=
    let i := value_to_bin Rops (b_lower b) (v_width v) xs in
    if v_gperiodic v then Z.rem (Z.rem i (b_nx b) + b_nx b) (b_nx b) else i.

  Lemma gbins_cons (v : varR) (b : boundR) (xv : valueR) us g x :
    gbins Rops (v :: us) (b :: g) (xv :: x) = wbin v b (scR xv) :: gbins Rops us g x.
  Proof. unfold gbins. cbn [cbins wrapix]. unfold wbin. rewrite sc_R. reflexivity. Qed.

  Lemma term_nonneg (v : varR) (si : R) xi ci : 0 <= D v xi ci / (si * si).
  Proof.
    pose proof (D_nonneg v xi ci). destruct (Req_dec (si * si) 0) as [E|E].
    - rewrite E. unfold Rdiv. rewrite Rinv_0. lra.
    - assert (0 < si * si) by (pose proof (Rle_0_sqr si); unfold Rsqr in *; lra).
      apply Rmult_le_pos; [lra|left; apply Rinv_0_lt_compat; lra].
  Qed.

  (* list level: off the grid, a centre at least M bins from every (non-periodic, non-hard) edge is out of range *)
  Lemma far_outside_gen (M : R) us : forall g sg x cx,
    Forall var_ok us -> Forall gvar_ok us -> All2 bound_ok us g ->
    All3 (fun v b xv => adm_var v b (scR xv)) us g x ->
    All3 (far_var M) us g cx ->
    0 < M -> All2 (fun v si => 0 < si /\ 6 * si + v_width v <= M * v_width v) us sg ->
    index_ok (gsizes g) (gbins Rops us g x) = false ->
    23 < Qexp us sg x cx.
  Proof.
    induction us as [|v us IH]; intros g sg x cx Hv Hgv Hb Ha Hf HM Hcov Hout.
    - destruct g; [|contradiction]. destruct x; [|contradiction]. cbn in Hout. discriminate.
    - destruct g as [|b g]; [contradiction|]. destruct x as [|xv x]; [contradiction|].
      destruct cx as [|cv cx]; [contradiction|]. destruct sg as [|si sg]; [contradiction|].
      cbn [All2] in Hb, Hcov. cbn [All3] in Ha, Hf. destruct Hb as [Hb Hbs]. destruct Ha as [Ha Has]. destruct Hf as [Hf Hfs].
      destruct Hcov as [[Hsi Hc1] Hcs].
      inversion Hv as [|v0 l0 Hv1 Hvs]; subst. inversion Hgv as [|v0 l0 Hg1 Hgs]; subst.
      rewrite gbins_cons in Hout. cbn [gsizes map index_ok] in Hout. cbn [Qexp].
      pose proof (Qexp_nonneg us sg x cx) as Hq. pose proof (term_nonneg v si xv cv) as Ht.
      destruct ((0 <=? wbin v b (scR xv))%Z && (wbin v b (scR xv) <? b_nx b)%Z) eqn:Ehead.
      + cbn [andb] in Hout.
        assert (23 < Qexp us sg x cx) by (apply (IH g sg x cx Hvs Hgs Hbs Has Hfs HM Hcs Hout)).
        lra.
      + assert (Hnot : ~ (0 <= wbin v b (scR xv) < b_nx b)%Z).
        { intros [H1 H2]. apply Z.leb_le in H1. apply Z.ltb_lt in H2. rewrite H1, H2 in Ehead. discriminate. }
        destruct (v_gperiodic v) eqn:G.
        * exfalso. apply Hnot. unfold wbin. rewrite G. apply wrap_in_range. destruct Hb as [_ Hn]. exact Hn.
        * unfold wbin in Hnot. rewrite G in Hnot.
          assert (Hd : 23 < mdiff v (scR xv) (scR cv) * mdiff v (scR xv) (scR cv) / (si * si)).
          { apply (dim_far M v si b (scR xv) (scR cv) Hv1 Hsi Hb Ha G (Hf G) HM Hc1 Hnot). }
          destruct Hg1 as [Hk _]. unfold D in *. rewrite Hk in *. lra.
  Qed.
End Far.

(* ================================================================== (2) expansion of the grids *)

Definition gstepk (v : varR) (b b' : boundR) (k k' : Z) : Prop :=
  (0 <= k)%Z /\ (0 <= k')%Z /\
  b_lower b' = b_lower b - IZR k * v_width v /\
  b_upper b' = b_upper b + IZR k' * v_width v /\
  b_nx b' = (b_nx b + k + k')%Z /\
  (v_expand v = false \/ v_hard_lo v = true -> k = 0%Z) /\
  (v_expand v = false \/ v_hard_up v = true -> k' = 0%Z).

Lemma gstep_k v b b' : gstep v b b' <-> exists k k', gstepk v b b' k k'.
Proof. unfold gstep, gstepk. tauto. Qed.

Section Expand.
  Variable c : cfgR.
  Local Notation vs := (c_vars c).
  Local Notation mb := (min_buffer Rops c).

  (* after update_grid_params the current bin is at least min_buffer bins from the expandable edges *)
  Definition buffer_ok (v : varR) (b : boundR) (xs : R) : Prop :=
    v_expand v = true ->
    (v_hard_lo v = false -> (mb <= value_to_bin Rops (b_lower b) (v_width v) xs)%Z) /\
    (v_hard_up v = false -> (value_to_bin Rops (b_lower b) (v_width v) xs <= b_nx b - mb - 1)%Z).

  Lemma gstep_intro v b b' k k' : (0 <= k)%Z -> (0 <= k')%Z ->
    b_lower b' = b_lower b - IZR k * v_width v -> b_upper b' = b_upper b + IZR k' * v_width v ->
    b_nx b' = (b_nx b + k + k')%Z ->
    (v_expand v = false \/ v_hard_lo v = true -> k = 0%Z) ->
    (v_expand v = false \/ v_hard_up v = true -> k' = 0%Z) -> gstep v b b'.
  Proof. intros. exists k, k'. tauto. Qed.

  Ltac gstep_tac :=
    cbn [b_lower b_upper b_nx nsub nadd nmul nofZ Rops];
    first [lia | reflexivity | (simpl; lra) | (let H := fresh in intros [H|H]; first [congruence | reflexivity])].

  Lemma expand_var_spec v b xs : var_ok v ->
    gstep v b (expand_var Rops c v b xs) /\ buffer_ok v (expand_var Rops c v b xs) xs.
  Proof.
    intros Hw. unfold var_ok in Hw. unfold expand_var. destruct (v_expand v) eqn:Ex; cbn [negb].
    2:{ split; [apply gstep_refl|]. intros H. rewrite Ex in H. discriminate. }
    set (cb := value_to_bin Rops (b_lower b) (v_width v) xs).
    destruct (negb (v_hard_lo v) && (cb <? mb)%Z) eqn:E1; lazy beta iota zeta.
    - apply andb_prop in E1. destruct E1 as [Hl E1]. apply negb_true_iff in Hl. apply Z.ltb_lt in E1.
      destruct (negb (v_hard_up v) && (cb + (mb - cb) >? b_nx b + (mb - cb) - mb - 1)%Z) eqn:E2; lazy beta iota zeta.
      + apply andb_prop in E2. destruct E2 as [Hu E2]. apply negb_true_iff in Hu. apply Z.gtb_lt in E2.
        split.
        * apply (gstep_intro v b _ (mb - cb)%Z (cb + (mb - cb) - (b_nx b + (mb - cb) - 1) + mb)%Z); gstep_tac.
        * intros _. cbn [b_lower b_nx nsub nmul nofZ Rops]. rewrite vtb_shift by exact Hw. fold cb. split; intros _; lia.
      + split.
        * apply (gstep_intro v b _ (mb - cb)%Z 0%Z); gstep_tac.
        * intros _. cbn [b_lower b_nx nsub nmul nofZ Rops]. rewrite vtb_shift by exact Hw. fold cb. split; intros H; [lia|].
          rewrite H in E2. cbn [negb andb] in E2. rewrite Z.gtb_ltb, Z.ltb_ge in E2. lia.
    - destruct (negb (v_hard_up v) && (cb >? b_nx b - mb - 1)%Z) eqn:E2; lazy beta iota zeta.
      + apply andb_prop in E2. destruct E2 as [Hu E2]. apply negb_true_iff in Hu. apply Z.gtb_lt in E2.
        split.
        * apply (gstep_intro v b _ 0%Z (cb - (b_nx b - 1) + mb)%Z); gstep_tac.
        * intros _. cbn [b_lower b_nx]. fold cb. split; intros H; [|lia].
          rewrite H in E1. cbn [negb andb] in E1. apply Z.ltb_ge in E1. exact E1.
      + split.
        * apply (gstep_intro v b _ 0%Z 0%Z); gstep_tac.
        * intros _. cbn [b_lower b_nx]. fold cb. split; intros H.
          -- rewrite H in E1. cbn [negb andb] in E1. apply Z.ltb_ge in E1. exact E1.
          -- rewrite H in E2. cbn [negb andb] in E2. rewrite Z.gtb_ltb, Z.ltb_ge in E2. lia.
  Qed.

  Lemma expand_geom_spec us : forall g x, Forall var_ok us -> length g = length us -> length x = length us ->
    All3 (fun v b b' => gstep v b b') us g (expand_geom Rops c us g x) /\
    All3 (fun v b' xv => buffer_ok v b' (scR xv)) us (expand_geom Rops c us g x) x.
  Proof.
    induction us as [|v us IH]; intros g x Hv Hg Hx.
    - destruct g; [|discriminate]. destruct x; [|discriminate]. cbn. tauto.
    - destruct g as [|b g]; [discriminate|]. destruct x as [|xv x]; [discriminate|].
      cbn [length] in Hg, Hx. injection Hg as Hg. injection Hx as Hx.
      inversion Hv as [|v0 l0 Hv1 Hvs]; subst.
      cbn [expand_geom All3]. destruct (IH g x Hvs Hg Hx) as [I1 I2].
      destruct (expand_var_spec v b (sc Rops xv) Hv1) as [E1 E2]. rewrite sc_R in *. tauto.
  Qed.

  Lemma gstep_same v b b' : gstep v b b' -> b_nx b' = b_nx b -> b' = b.
  Proof.
    intros (k & k' & A1 & A2 & A3 & A4 & A5 & _ & _) Hn.
    assert (k = 0%Z) by lia. assert (k' = 0%Z) by lia. subst k k'.
    destruct b as [l u n]. destruct b' as [l' u' n']. cbn [b_lower b_upper b_nx] in *.
    f_equal; [rewrite A3|rewrite A4|exact Hn]; simpl; lra.
  Qed.

  Lemma geom_unchanged us : forall g g', All3 (fun v b b' => gstep v b b') us g g' ->
    geom_changed g g' = false -> g' = g.
  Proof.
    induction us as [|v us IH]; intros g g' H Hc.
    - destruct g; [|contradiction]. destruct g'; [|contradiction]. reflexivity.
    - destruct g as [|b g]; [contradiction|]. destruct g' as [|b' g']; [contradiction|].
      cbn [All3] in H. destruct H as [H1 H2]. cbn [geom_changed] in Hc.
      apply orb_false_iff in Hc. destruct Hc as [Hc1 Hc2]. apply negb_false_iff in Hc1. apply Z.eqb_eq in Hc1.
      f_equal; [apply (gstep_same v); [exact H1|symmetry; exact Hc1]|apply (IH g g' H2 Hc2)].
  Qed.

  Lemma All3_refl_gstep us : forall g, length g = length us -> All3 (fun v b b' => gstep v b b') us g g.
  Proof.
    induction us as [|v us IH]; intros g Hg.
    - destruct g; [exact I|discriminate].
    - destruct g as [|b g]; [discriminate|]. cbn [All3]. split; [apply gstep_refl|apply IH]. cbn in Hg. lia.
  Qed.

  Lemma buffer_vacuous us : forall g x, length g = length us -> length x = length us ->
    existsb (@v_expand R) us = false -> All3 (fun v b' xv => buffer_ok v b' (scR xv)) us g x.
  Proof.
    induction us as [|v us IH]; intros g x Hg Hx He.
    - destruct g; [|discriminate]. destruct x; [|discriminate]. exact I.
    - destruct g as [|b g]; [discriminate|]. destruct x as [|xv x]; [discriminate|].
      cbn [existsb] in He. apply orb_false_iff in He. destruct He as [He1 He2].
      cbn [All3]. split; [intros H; congruence|apply IH; cbn in *; try lia; exact He2].
  Qed.

  (* the geometry after update_grid_params *)
  Lemma next_geom_spec g x : c_use_grids c = true -> Forall var_ok vs -> length g = length vs -> length x = length vs ->
    All3 (fun v b b' => gstep v b b') vs g (next_geom c g x) /\
    All3 (fun v b' xv => buffer_ok v b' (scR xv)) vs (next_geom c g x) x.
  Proof.
    intros G Hv Hg Hx. unfold next_geom. rewrite G. cbn [andb].
    destruct (existsb (@v_expand R) vs) eqn:E.
    - destruct (expand_geom_spec vs g x Hv Hg Hx) as [H1 H2].
      destruct (geom_changed g (expand_geom Rops c vs g x)) eqn:Ec.
      + split; assumption.
      + rewrite (geom_unchanged vs g _ H1 Ec) in H2. split; [apply All3_refl_gstep; exact Hg|exact H2].
    - split; [apply All3_refl_gstep; exact Hg|apply buffer_vacuous; assumption].
  Qed.

  (* every hill stays at least six of its sigmas inside the expandable edges *)
  Definition clear_var (v : varR) (b : boundR) (cv : valueR) (si : R) : Prop :=
    v_expand v = true ->
    (v_hard_lo v = false -> b_lower b + 6 * si <= scR cv) /\
    (v_hard_up v = false -> scR cv <= b_upper b - 6 * si).

  Lemma buffer_clear v b (xv : valueR) si : var_ok v -> bound_ok v b -> 6 * si < IZR mb * v_width v ->
    buffer_ok v b (scR xv) -> clear_var v b xv si.
  Proof.
    intros Hw [Hu Hn] Hcov Hb Ex. unfold var_ok in Hw. destruct (Hb Ex) as [H1 H2]. split; intros H.
    - pose proof (vtb_ge _ _ _ _ Hw (H1 H)). lra.
    - specialize (H2 H).
      assert (Hlt : (value_to_bin Rops (b_lower b) (v_width v) (scR xv) < b_nx b - mb)%Z) by lia.
      pose proof (vtb_lt _ _ _ _ Hw Hlt) as Hx. rewrite minus_IZR in Hx. rewrite Hu. lra.
  Qed.

  Lemma clear_gstep v b b' cv si : var_ok v -> gstep v b b' -> clear_var v b cv si -> clear_var v b' cv si.
  Proof.
    intros Hw (k & k' & A1 & A2 & A3 & A4 & _) Hc Ex. unfold var_ok in Hw. destruct (Hc Ex) as [H1 H2].
    assert (Hk1 : 0 <= IZR k * v_width v) by (apply Rmult_le_pos; [apply IZR_le; lia|lra]).
    assert (Hk2 : 0 <= IZR k' * v_width v) by (apply Rmult_le_pos; [apply IZR_le; lia|lra]).
    split; intros Hh; [specialize (H1 Hh)|specialize (H2 Hh)]; rewrite ?A3, ?A4; lra.
  Qed.

  Lemma All4_buffer_clear us : forall g x sg, Forall var_ok us -> All2 bound_ok us g ->
    All2 (fun v si => 6 * si < IZR mb * v_width v) us sg ->
    All3 (fun v b' xv => buffer_ok v b' (scR xv)) us g x -> All4 clear_var us g x sg.
  Proof.
    induction us as [|v us IH]; intros g x sg Hv Hb Hc H.
    - destruct g; [|contradiction]. destruct x; [|contradiction]. destruct sg; [|contradiction]. exact I.
    - destruct g as [|b g]; [contradiction|]. destruct x as [|xv x]; [contradiction|]. destruct sg as [|si sg]; [contradiction|].
      inversion Hv as [|v0 l0 Hv1 Hvs]; subst. cbn [All2 All3 All4] in *.
      destruct Hb as [Hb1 Hb2]. destruct H as [H1 H2]. destruct Hc as [Hc1 Hc2].
      split; [apply buffer_clear; assumption|apply IH; assumption].
  Qed.

  Lemma All4_clear_gstep us : forall g g' cx sg, Forall var_ok us ->
    All3 (fun v b b' => gstep v b b') us g g' -> All4 clear_var us g cx sg -> All4 clear_var us g' cx sg.
  Proof.
    induction us as [|v us IH]; intros g g' cx sg Hv Hs Hc.
    - destruct g; [|contradiction]. destruct g'; [|contradiction]. exact Hc.
    - destruct g as [|b g]; [contradiction|]. destruct g' as [|b' g']; [contradiction|].
      destruct cx as [|cv cx]; [contradiction|]. destruct sg as [|si sg]; [contradiction|].
      inversion Hv as [|v0 l0 Hv1 Hvs]; subst. cbn [All3 All4] in *.
      destruct Hs as [Hs1 Hs2]. destruct Hc as [Hc1 Hc2].
      split; [apply (clear_gstep v b b' cv si Hv1 Hs1 Hc1)|apply (IH g g' cx sg Hvs Hs2 Hc2)].
  Qed.

  Lemma All2_bound_gstep us : forall g g', All2 bound_ok us g ->
    All3 (fun v b b' => gstep v b b') us g g' -> All2 bound_ok us g'.
  Proof.
    induction us as [|v us IH]; intros g g' Hb Hs.
    - destruct g; [|contradiction]. destruct g'; [|contradiction]. exact I.
    - destruct g as [|b g]; [contradiction|]. destruct g' as [|b' g']; [contradiction|].
      cbn [All2 All3] in *. destruct Hb as [Hb1 Hb2]. destruct Hs as [Hs1 Hs2].
      split; [apply (gstep_bound_ok v b b' Hb1 Hs1)|apply (IH g g' Hb2 Hs2)].
  Qed.

  Lemma All3_gstep_trans us : forall g1 g2 g3,
    All3 (fun v b b' => gstep v b b') us g1 g2 -> All3 (fun v b b' => gstep v b b') us g2 g3 ->
    All3 (fun v b b' => gstep v b b') us g1 g3.
  Proof.
    induction us as [|v us IH]; intros g1 g2 g3 H1 H2.
    - destruct g1; [|contradiction]. destruct g2; [|contradiction]. destruct g3; [|contradiction]. exact I.
    - destruct g1 as [|b1 g1]; [contradiction|]. destruct g2 as [|b2 g2]; [contradiction|].
      destruct g3 as [|b3 g3]; [contradiction|]. cbn [All3] in *.
      destruct H1 as [A1 A2]. destruct H2 as [B1 B2].
      split; [apply (gstep_trans v b1 b2 b3 A1 B1)|apply (IH g1 g2 g3 A2 B2)].
  Qed.

  Lemma All3_adm_gstep us : forall g g' x, Forall gvar_ok us ->
    All3 (fun v b b' => gstep v b b') us g g' ->
    (All3 (fun v b xv => adm_var v b (scR xv)) us g x <-> All3 (fun v b xv => adm_var v b (scR xv)) us g' x).
  Proof.
    induction us as [|v us IH]; intros g g' x Hgv Hs.
    - destruct g; [|contradiction]. destruct g'; [|contradiction]. tauto.
    - destruct g as [|b g]; [contradiction|]. destruct g' as [|b' g']; [contradiction|].
      inversion Hgv as [|v0 l0 Hg1 Hgs]; subst. cbn [All3] in Hs. destruct Hs as [Hs1 Hs2].
      destruct x as [|xv x]; [cbn; tauto|]. cbn [All3].
      pose proof (gstep_adm v b b' (scR xv) Hs1 Hg1) as E1. pose proof (IH g g' x Hgs Hs2) as E2. tauto.
  Qed.

  (* ---- map_grid onto the expanded grid ---- *)

  Lemma remap_dim v b b' k k' i : var_ok v -> gstepk v b b' k k' ->
    value_to_bin Rops (b_lower b) (v_width v) (bin_to_value Rops (b_lower b') (v_width v) i) = (i - k)%Z.
  Proof.
    intros Hw (A1 & A2 & A3 & _). unfold var_ok in Hw. rewrite vtb_R, btv_R, A3.
    apply Zfloor_imp. rewrite plus_IZR, minus_IZR. simpl (IZR 1).
    replace ((b_lower b - IZR k * v_width v + v_width v * (1 / 2 + IZR i) - b_lower b) / v_width v)
      with (IZR i - IZR k + 1 / 2) by (field; lra).
    lra.
  Qed.

  Lemma old_bin_dim v b b' k k' i : gstepk v b b' k k' ->
    bin_to_value Rops (b_lower b) (v_width v) (i - k) = bin_to_value Rops (b_lower b') (v_width v) i.
  Proof. intros (A1 & A2 & A3 & _). rewrite !btv_R, A3, minus_IZR. ring. Qed.

  Lemma new_bin_dim v b b' k k' i (cv : valueR) si : var_ok v -> 0 < si -> bound_ok v b -> gvar_ok v -> gstepk v b b' k k' ->
    clear_var v b cv si ->
    (0 <= i < b_nx b')%Z -> ~ (0 <= i - k < b_nx b)%Z ->
    23 < D v [bin_to_value Rops (b_lower b') (v_width v) i] cv / (si * si).
  Proof.
    intros Hw Hs [Hu Hn] [Hk Hg] (A1 & A2 & A3 & A4 & A5 & A6 & A7) Hc Hi Hout. unfold var_ok in Hw.
    assert (Hex : v_expand v = true).
    { destruct (v_expand v) eqn:E; [reflexivity|]. rewrite (A6 (or_introl eq_refl)), (A7 (or_introl eq_refl)) in *. lia. }
    destruct (Hg Hex) as [Hper _]. destruct (Hc Hex) as [Hc1 Hc2].
    unfold D. rewrite Hk. unfold mdiff. rewrite Hper. cbn [scR]. rewrite btv_R, A3.
    set (ctr := b_lower b - IZR k * v_width v + v_width v * (1 / 2 + IZR i)).
    assert (Hgoal : 6 * si < Rabs (ctr - scR cv) ->
                    23 < (ctr - scR cv) * (ctr - scR cv) / (si * si)).
    { intros H6. assert (Hsq : 36 * (si * si) < (ctr - scR cv) * (ctr - scR cv)).
      { unfold Rabs in H6. destruct (Rcase_abs (ctr - scR cv)); nra. }
      assert (Hs2 : 0 < si * si) by nra.
      apply Rmult_lt_reg_r with (r := si * si); [exact Hs2|].
      unfold Rdiv. rewrite Rmult_assoc, Rinv_l by lra. lra. }
    apply Hgoal.
    destruct (Z_lt_dec (i - k) 0) as [Hlo|Hnl].
    - assert (Hkpos : (0 < k)%Z) by lia.
      assert (Hl : v_hard_lo v = false).
      { destruct (v_hard_lo v) eqn:E; [|reflexivity]. rewrite (A6 (or_intror eq_refl)) in Hkpos. lia. }
      specialize (Hc1 Hl).
      assert (Hik : IZR i + 1 <= IZR k) by (rewrite <- plus_IZR; apply IZR_le; lia).
      assert (ctr <= b_lower b - v_width v / 2) by (unfold ctr; nra).
      unfold Rabs. destruct (Rcase_abs (ctr - scR cv)); nra.
    - assert (Hhi : (b_nx b <= i - k)%Z) by lia.
      assert (Hkpos : (0 < k')%Z) by lia.
      assert (Hl : v_hard_up v = false).
      { destruct (v_hard_up v) eqn:E; [|reflexivity]. rewrite (A7 (or_intror eq_refl)) in Hkpos. lia. }
      specialize (Hc2 Hl).
      assert (Hik : IZR (b_nx b) <= IZR i - IZR k) by (rewrite <- minus_IZR; apply IZR_le; lia).
      assert (b_upper b + v_width v / 2 <= ctr) by (unfold ctr; rewrite Hu; nra).
      unfold Rabs. destruct (Rcase_abs (ctr - scR cv)); nra.
  Qed.

  Lemma remap_lemma us : forall g g' ix,
    Forall var_ok us -> Forall gvar_ok us -> All2 bound_ok us g ->
    All3 (fun v b b' => gstep v b b') us g g' ->
    index_ok (gsizes g') ix = true ->
    (index_ok (gsizes g) (remap_ix Rops us g' g ix) = true ->
       centre Rops us g (remap_ix Rops us g' g ix) = centre Rops us g' ix) /\
    (index_ok (gsizes g) (remap_ix Rops us g' g ix) = false ->
       forall cx sg, All4 clear_var us g cx sg -> Forall (Rlt 0) sg -> 23 < Qexp us sg (centre Rops us g' ix) cx).
  Proof.
    induction us as [|v us IH]; intros g g' ix Hv Hgv Hb Hs Hix.
    - destruct g; [|contradiction]. destruct g'; [|contradiction]. destruct ix; [|discriminate].
      cbn. split; [reflexivity|discriminate].
    - destruct g as [|b g]; [contradiction|]. destruct g' as [|b' g']; [contradiction|].
      destruct ix as [|i ix]; [discriminate|].
      inversion Hv as [|v0 l0 Hv1 Hvs]; subst. inversion Hgv as [|v0 l0 Hg1 Hgs]; subst.
      cbn [All2 All3] in Hb, Hs. destruct Hb as [Hb1 Hb2]. destruct Hs as [Hs1 Hs2].
      cbn [gsizes map index_ok] in Hix. apply andb_prop in Hix. destruct Hix as [Hi Hix].
      apply andb_prop in Hi. destruct Hi as [Hi1 Hi2]. apply Z.leb_le in Hi1. apply Z.ltb_lt in Hi2.
      destruct (proj1 (gstep_k v b b') Hs1) as (k & k' & Hk).
      destruct (IH g g' ix Hvs Hgs Hb2 Hs2 Hix) as [IH1 IH2].
      cbn [remap_ix centre gsizes map index_ok]. rewrite (remap_dim v b b' k k' i Hv1 Hk).
      split.
      + intros H. apply andb_prop in H. destruct H as [_ H]. rewrite (IH1 H).
        rewrite (old_bin_dim v b b' k k' i Hk). reflexivity.
      + intros H cx sg Hc Hp. destruct cx as [|cv cx]; [contradiction|]. destruct sg as [|si sg]; [contradiction|].
        cbn [All4] in Hc. destruct Hc as [Hc1 Hc2]. inversion Hp as [|s0 l0 Hp1 Hp2]; subst.
        cbn [Qexp].
        pose proof (Qexp_nonneg us sg (centre Rops us g' ix) cx) as Hq.
        pose proof (term_nonneg v si [bin_to_value Rops (b_lower b') (v_width v) i] cv) as Ht.
        destruct ((0 <=? i - k)%Z && (i - k <? b_nx b)%Z) eqn:Eh.
        * cbn [andb] in H. specialize (IH2 H cx sg Hc2 Hp2). lra.
        * assert (Hnot : ~ (0 <= i - k < b_nx b)%Z).
          { intros [H1 H2]. apply Z.leb_le in H1. apply Z.ltb_lt in H2. rewrite H1, H2 in Eh. discriminate. }
          pose proof (new_bin_dim v b b' k k' i cv si Hv1 Hp1 Hb1 Hg1 Hk Hc1 (conj Hi1 Hi2) Hnot).
          lra.
  Qed.

  (* ---- a value on the grid stays on the expanded grid ---- *)
  Lemma wbin_step v b b' xs : var_ok v -> bound_ok v b -> gvar_ok v -> gstep v b b' ->
    (0 <= wbin v b xs < b_nx b)%Z -> (0 <= wbin v b' xs < b_nx b')%Z.
  Proof.
    intros Hw [Hu Hn] [_ Hg] (k & k' & A1 & A2 & A3 & A4 & A5 & A6 & A7) H. unfold var_ok in Hw. unfold wbin in *.
    destruct (v_gperiodic v) eqn:G.
    - apply wrap_in_range. lia.
    - rewrite A3, vtb_shift by exact Hw. lia.
  Qed.

  Lemma in_grid_step us : forall g g' x, Forall var_ok us -> Forall gvar_ok us -> All2 bound_ok us g ->
    All3 (fun v b b' => gstep v b b') us g g' ->
    index_ok (gsizes g) (gbins Rops us g x) = true -> index_ok (gsizes g') (gbins Rops us g' x) = true.
  Proof.
    induction us as [|v us IH]; intros g g' x Hv Hgv Hb Hs H.
    - destruct g; [|contradiction]. destruct g'; [|contradiction]. exact H.
    - destruct g as [|b g]; [contradiction|]. destruct g' as [|b' g']; [contradiction|].
      destruct x as [|xv x]; [cbn in H; discriminate|].
      inversion Hv as [|v0 l0 Hv1 Hvs]; subst. inversion Hgv as [|v0 l0 Hg1 Hgs]; subst.
      cbn [All2 All3] in Hb, Hs. destruct Hb as [Hb1 Hb2]. destruct Hs as [Hs1 Hs2].
      rewrite gbins_cons in *. cbn [gsizes map index_ok] in *.
      apply andb_prop in H. destruct H as [Hh Ht]. apply andb_prop in Hh. destruct Hh as [H1 H2].
      apply Z.leb_le in H1. apply Z.ltb_lt in H2.
      destruct (wbin_step v b b' (scR xv) Hv1 Hb1 Hg1 Hs1 (conj H1 H2)) as [W1 W2].
      apply Z.leb_le in W1. apply Z.ltb_lt in W2. rewrite W1, W2. cbn [andb].
      apply (IH g g' x Hvs Hgs Hb2 Hs2 Ht).
  Qed.
End Expand.
