From Coq Require Import Extraction ExtrOcamlBasic.
From CV Require Import Base.Num C15.GridModel C05.MetaModel.
Extraction Language OCaml.
Extraction "model.ml" mkNumOps nhalf value_to_bin bin_to_value index_ok
  mkVar mkBound mkCfg mkHill mkIn mkState init_state step step_state save_state read_state rebin_state restart_state reload_state apply_event final_state
  calc_energy calc_forces grid_energy_at grid_gradient_at gsizes kval henergy near_edge cbins gbins centre
  hw_bins min_buffer tbins eb_scale all_ix grid_max pmf_shift pmf_value mkPar with_par next_cfg add_hill mirror_apply total_energy total_force.
