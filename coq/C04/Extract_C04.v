From Coq Require Import Extraction ExtrOcamlBasic.
From CV Require Import Base.Num C04.ABFModel.
Extraction Language OCaml.
Extraction "model.ml" mkNumOps idx_eqb zget bget zrange vget vbuild vzero mkCfg mkSt mkIn mkOut
  value_to_bin bins index_ok clock smooth_inverse_weight inv_weight average grad_out cap1 calc_biasing_force
  awake st_clk abf_bin_num abf_current_bin abf_count_current abf_step abf_mstep abf_init abf_init_late abf_add_data abf_init_data abf_set_grids abf_event_apply abf_run_events abf_run_from abf_run abf_run_data sample_force deliveries attributed samples_in.
