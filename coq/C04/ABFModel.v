(* Model of the ABF estimator and of its closed loop with the variable and the engine:
     colvarbias_abf::update / update_system_force / calc_biasing_force   (src/colvarbias_abf.cpp)
     colvar_grid_gradient::acc_force / smooth_inverse_weight / vector_value_smoothed / average,
     colvar_grid::value_to_bin_scalar / index_ok                          (src/colvargrid.h)
     colvar::collect_cvc_total_forces / calc_colvar_properties (ft -= f_old) / update_forces_energy /
     end_of_step (f_old = f)                                              (src/colvar.cpp)
     colvarbias::can_accumulate_data                                      (src/colvarbias.cpp)
   and of the engine conventions of harness/vsim.h (vsim_proxy::step): step counter, repeated
   step at a run boundary, total forces of the same step or of the previous step including the
   engine's copy of the Colvars forces.
   Variables are scalar; the Jacobian force fj of each variable (colvar::collect_cvc_Jacobians: kT times the
   Jacobian derivative of the component, 0 for distanceZ, 2kT/r for distance) is an input of every step.
   The model mirrors the tree with the fix commits of branch fix-C04 (see props/C04/NOTES.md).
   Definitions only; generic over the numeric carrier.  Vectors indexed by the variable are lists read with [vget] (default 0) and
   built with [vbuild nd], so that every vector the model builds has exactly nd components. *)
From Coq Require Import ZArith List Bool.
From CV Require Import Base.Num.
Import ListNotations.
Local Open Scope Z_scope.

Definition idx := list Z.

Fixpoint idx_eqb (a b : idx) : bool :=
  match a, b with
  | [], [] => true
  | x :: a', y :: b' => (x =? y) && idx_eqb a' b'
  | _, _ => false
  end.

Definition zget (v : list Z) (k : nat) : Z := nth k v 0.
Definition bget (v : list bool) (k : nat) : bool := nth k v false.
Definition zrange (n : Z) : list Z := map Z.of_nat (seq 0 (Z.to_nat n)).

Section ABF.
  Context {T : Type} (O : NumOps T).

  Definition vec := list T.
  Definition vget (v : vec) (k : nat) : T := nth k v (n0 O).
  Definition vbuild (n : nat) (f : nat -> T) : vec := map f (seq 0 n).
  Definition vzero (n : nat) : vec := vbuild n (fun _ => n0 O).

  Record abf_cfg := mkCfg {
    c_nd : nat;                       (* number of variables *)
    c_lower : vec; c_width : vec; c_nx : list Z; c_periodic : list bool;   (* grid of samples/gradients *)
    c_full : Z; c_min : Z;            (* fullSamples, minSamples *)
    c_update : bool;                  (* updateBias  (f_cvb_history_dependent) *)
    c_cap : bool; c_maxf : vec;       (* maxForce given; its values *)
    c_szd : bool;                     (* stepZeroData (f_cvb_step_zero_data) *)
    c_same_step : bool;               (* proxy->total_forces_same_step(), hence f_cv_total_force_current_step *)
    c_subtract : list bool;           (* subtractAppliedForce of each variable *)
    c_hidej : bool;                   (* hideJacobian of the ABF bias (f_cv_hide_Jacobian on each of its variables) *)
    c_other : list bool;              (* another bias that applies forces is attached to the variable *)
    c_scaled : bool;                  (* scaledBiasingForce (f_cvb_scale_biasing_force) *)
    c_sfac : idx -> T                 (* scaledBiasingForceFactorsGrid: a grid with the geometry of the ABF grids *)
  }.


  Record abf_state := mkSt {
    s_cnt : idx -> Z;                 (* samples   (colvar_grid_count) *)
    s_sum : idx -> vec;               (* gradients (colvar_grid_gradient::data: minus the summed forces) *)
    s_bin : idx; s_fbin : idx;        (* bin, force_bin *)
    s_fabf : vec;                     (* colvar_forces of the ABF bias (last force it computed) *)
    s_fprev : vec;                    (* previous_colvar_forces: the force the ABF bias last applied (scaled) *)
    s_ft : vec;                       (* colvar::ft of each variable *)
    s_fold : vec;                     (* colvar::f_old of each variable *)
    s_eng : vec;                      (* engine: force that acted on each variable at the previous step *)
    s_fj : vec;                       (* colvar::fj of each variable as left by the previous step *)
    s_rel : Z;                        (* cvm::step_relative() *)
    s_started : bool;                 (* engine: a step was already made *)
    s_japp : list bool;               (* colvar::prev_Jacobian_force_compensated of each variable: the force applied at the
                                         previous step contained the compensation -fj (hideJacobian and f_cv_apply_force) *)
    s_tfok : bool                     (* colvar::lagged_total_force_available() minus its step_relative() > 0 clause: the
                                         variables were computed at the previous step of the CURRENT step counter with the total
                                         force calculation on (prev_timestep, prev_total_force_calc); false after init and after a
                                         state file was read (colvar::set_state_params resets prev_timestep) *)
  }.

  Record abf_in := mkIn {
    i_x : vec;                        (* variable values at this step *)
    i_e : vec;                        (* engine's own force on each variable at this configuration *)
    i_o : vec;                        (* force applied to each variable by the other biases at this step (read only when c_other) *)
    i_j : vec;                        (* Jacobian force fj of each variable at this configuration *)
    i_boundary : bool;                (* this step repeats the previous one (new run statement) *)
    i_apply : bool;                   (* applyBias (f_cvb_apply_force) at this step: the configuration value, or what
                                         `cv bias <name> set apply_force 0|1` left *)
    i_w : vec                         (* force applied to each variable at this step by the biases that bypass the extended
                                         Lagrangian (add_bias_force_actual_value -> colvar::fb_actual: harmonicWalls by
                                         default); i_o is the force of the other biases (add_bias_force -> colvar::fb) *)
  }.

  (* f_cv_apply_force of variable k: enabled (through require_feature_children(f_cvb_apply_force, ...)) while
     a bias that applies forces uses the variable.  colvarmodule::update_colvar_forces calls
     communicate_forces() only for such variables: otherwise colvar::f never reaches the atoms *)
  Definition cvapply (c : abf_cfg) (i : abf_in) (k : nat) : bool := i_apply i || bget (c_other c) k.

  Record abf_out := mkOut {
    o_bin : idx;                      (* bin of this step *)
    o_fabf : vec;                     (* ABF force computed at this step (colvar_forces) *)
    o_fapp : vec;                     (* ABF force applied at this step: times the scaledBiasingForce factor *)
    o_f : vec;                        (* total force applied by Colvars to each variable (colvar::f) *)
    o_rel : Z; o_cont : bool;         (* step_relative, simulation_continuing at this step *)
    o_tf : vec                        (* colvar::ft_reported *)
  }.

  (* colvar_grid::value_to_bin_scalar *)
  Definition value_to_bin (l w x : T) : Z := nfloor O (ndiv O (nsub O x l) w).
  Definition bins (c : abf_cfg) (x : vec) : idx :=
    map (fun k => value_to_bin (vget (c_lower c) k) (vget (c_width c) k) (vget x k)) (seq 0 (c_nd c)).
  (* colvar_grid::index_ok *)
  Definition index_ok (c : abf_cfg) (ix : idx) : bool :=
    forallb (fun k => (0 <=? zget ix k) && (zget ix k <? zget (c_nx c) k)) (seq 0 (c_nd c)).

  (* vsim_proxy::step: the first step has step_relative 0; a boundary step repeats the step number
     with simulation_continuing = true; any other step increments it *)
  Definition clock (started : bool) (rel : Z) (boundary : bool) : Z * bool :=
    if started then (if boundary then (rel, true) else (rel + 1, false)) else (rel, boundary).

  (* colvar_grid_gradient::smooth_inverse_weight *)
  Definition smooth_inverse_weight (c : abf_cfg) (w : Z) : T :=
    if w <=? c_min c then n0 O
    else if w <? c_full c
         then ndiv O (nsub O (nofZ O w) (nofZ O (c_min c))) (nmul O (nofZ O w) (nofZ O (c_full c - c_min c)))
         else ndiv O (n1 O) (nofZ O w).

  (* value_output / value_output_smoothed(ix, false): fact = weight > 0 ? 1/weight : 0; fact * data *)
  Definition inv_weight (w : Z) : T := if 0 <? w then ndiv O (n1 O) (nofZ O w) else n0 O.

  (* colvar_grid_gradient::average(true): the grid average of the SMOOTHED estimates
     (value_output_smoothed(ix, true) = smooth_inverse_weight(count) * data); only called when nd = 1 *)
  Definition average (c : abf_cfg) (cnt : idx -> Z) (sum : idx -> vec) : T :=
    let n := zget (c_nx c) 0 in
    if n =? 0 then n0 O
    else ndiv O (fold_left (fun acc i => nadd O acc (nmul O (smooth_inverse_weight c (cnt [i])) (vget (sum [i]) 0)))
                           (zrange n) (n0 O))
                (nofZ O n).

  (* colvar_grid_gradient::value_output: the stored estimate of the free-energy gradient written to the
     state / .grad files: data / count, 0 in a bin without samples *)
  Definition grad_out (cnt : idx -> Z) (sum : idx -> vec) (b : idx) (k : nat) : T :=
    if 0 <? cnt b then ndiv O (vget (sum b) k) (nofZ O (cnt b)) else n0 O.

  (* the cap of calc_biasing_force *)
  Definition cap1 (m f : T) : T :=
    if nltb O (nmul O m m) (nmul O f f)
    then (if nltb O (n0 O) f then m else nmul O (nneg O (n1 O)) m)
    else f.

  (* colvarbias_abf::calc_biasing_force, plain ABF branch (pabf_freq = 0) *)
  Definition calc_biasing_force (c : abf_cfg) (cnt : idx -> Z) (sum : idx -> vec) (b : idx) : vec :=
    let nd := c_nd c in
    let fact := smooth_inverse_weight c (cnt b) in
    let f0 := vbuild nd (fun k => nmul O fact (vget (sum b) k)) in
    let f1 := if Nat.eqb nd 1 && bget (c_periodic c) 0
              then vbuild nd (fun k => nsub O (vget f0 k) (average c cnt sum))
              else f0 in
    if c_cap c then vbuild nd (fun k => cap1 (vget (c_maxf c) k) (vget f1 k)) else f1.

  (* ---- one step of the closed loop, written as named pieces (the proofs unfold them one by one) ---- *)

  Definition st_clk (s : abf_state) (i : abf_in) : Z * bool := clock (s_started s) (s_rel s) (i_boundary i).

  (* colvar::collect_cvc_total_forces: same step -> at every step from this step's atomic forces;
     otherwise only when step_relative > 0, from the forces the engine kept from the previous step.
     f_cv_total_force_calc is requested by the ABF bias when it is updated, or by subtractAppliedForce *)
  (* `ft += fj` unless hideJacobian and the compensating force -fj is not part of the measured force
     (subtractAppliedForce removes it with the applied force; same-step total forces never contain it;
     a variable without f_cv_apply_force never applied it).
     In the lagged convention fj is still the one of the previous step (collect_cvc_total_forces runs
     before collect_cvc_Jacobians) *)
  Definition addj (c : abf_cfg) (s : abf_state) (k : nat) : bool :=
    negb (c_hidej c && (bget (c_subtract c) k || c_same_step c || negb (bget (s_japp s) k))).
  (* colvar::end_of_step *)
  Definition st_japp (c : abf_cfg) (i : abf_in) : list bool :=
    map (fun k => c_hidej c && cvapply c i k) (seq 0 (c_nd c)).
  Definition st_ft0 (c : abf_cfg) (s : abf_state) (i : abf_in) : vec :=
    vbuild (c_nd c) (fun k =>
      if c_update c || bget (c_subtract c) k
      then (if c_same_step c
            then (if addj c s k then nadd O (vget (i_e i) k) (vget (i_j i) k) else vget (i_e i) k)
            else if (0 <? fst (st_clk s i)) && s_tfok s
                 then (if addj c s k then nadd O (vget (s_eng s) k) (vget (s_fj s) k) else vget (s_eng s) k)
                 else vget (s_ft s) k)
      else vget (s_ft s) k).

  (* colvar::calc_colvar_properties: if subtractAppliedForce and not same step:
     if (step_relative() > 0) ft -= f_old      (the total force was collected at this step) *)
  Definition st_ft (c : abf_cfg) (s : abf_state) (i : abf_in) : vec :=
    if c_same_step c then st_ft0 c s i
    else vbuild (c_nd c) (fun k =>
           let t := vget (st_ft0 c s i) k in
           if bget (c_subtract c) k && ((0 <? fst (st_clk s i)) && s_tfok s)
           then nsub O t (vget (s_fold s) k) else t).

  (* colvarbias_abf::update, part I *)
  Definition st_bin (c : abf_cfg) (i : abf_in) : idx := bins c (i_x i).
  Definition st_fbin (c : abf_cfg) (s : abf_state) (i : abf_in) : idx :=
    if c_same_step c then st_bin c i else s_fbin s.
  Definition st_doacc (c : abf_cfg) (s : abf_state) (i : abf_in) : bool :=
    let rel := fst (st_clk s i) in
    let cont := snd (st_clk s i) in
    (((0 <? rel) && negb cont) || c_szd c)       (* can_accumulate_data() *)
    && c_update c                                 (* is_enabled(f_cvb_history_dependent) *)
    && ((0 <? rel) || c_same_step c)              (* step_relative() > 0 || total_forces_same_step() *)
    && (c_same_step c || s_tfok s)                (* every variable collected its total force at this step *)
    && index_ok c (st_fbin c s i).                (* samples->index_ok(force_bin) *)
  (* update_system_force: total force minus the force the ABF bias applied at the previous step *)
  Definition st_sysf (c : abf_cfg) (s : abf_state) (i : abf_in) : vec :=
    vbuild (c_nd c) (fun k =>
      if bget (c_subtract c) k || c_same_step c then vget (st_ft c s i) k
      else nsub O (vget (st_ft c s i) k) (vget (s_fprev s) k)).
  (* gradients->acc_force(force_bin, system_force) *)
  Definition st_cnt (c : abf_cfg) (s : abf_state) (i : abf_in) : idx -> Z :=
    if st_doacc c s i
    then (fun b => if idx_eqb b (st_fbin c s i) then s_cnt s b + 1 else s_cnt s b)
    else s_cnt s.
  Definition st_sum (c : abf_cfg) (s : abf_state) (i : abf_in) : idx -> vec :=
    if st_doacc c s i
    then (fun b => if idx_eqb b (st_fbin c s i)
                   then vbuild (c_nd c) (fun k => nsub O (vget (s_sum s b) k) (vget (st_sysf c s i) k))
                   else s_sum s b)
    else s_sum s.
  (* part II *)
  Definition st_fabf (c : abf_cfg) (s : abf_state) (i : abf_in) : vec :=
    if i_apply i && index_ok c (st_bin c i)
    then calc_biasing_force c (st_cnt c s i) (st_sum c s i) (st_bin c i)
    else vzero (c_nd c).
  (* colvar::update_forces_energy: f = fb = sum of the biases' forces, minus fj with hideJacobian when the
     variable applies forces; end_of_step: f_old = f *)
  (* colvarbias::communicate_forces: the force handed to the variables is colvar_forces times the factor
     read from the scaling grid at the current bin (1 outside that grid or without scaledBiasingForce);
     it is recorded in previous_colvar_forces *)
  Definition sfac (c : abf_cfg) (b : idx) : T := if c_scaled c && index_ok c b then c_sfac c b else n1 O.
  Definition st_fapp (c : abf_cfg) (s : abf_state) (i : abf_in) : vec :=
    vbuild (c_nd c) (fun k => nmul O (vget (st_fabf c s i) k) (sfac c (st_bin c i))).
  Definition oeff (c : abf_cfg) (i : abf_in) (k : nat) : T := if bget (c_other c) k then vget (i_o i) k else n0 O.
  Definition weff (c : abf_cfg) (i : abf_in) (k : nat) : T := if bget (c_other c) k then vget (i_w i) k else n0 O.
  (* f = fb; f -= fj (hideJacobian); [extended Lagrangian]; f += fb_actual.  end_of_step: f_old = f, i.e. everything
     Colvars applies to the variable at this step *)
  Definition st_f (c : abf_cfg) (s : abf_state) (i : abf_in) : vec :=
    vbuild (c_nd c) (fun k =>
      let fb := nadd O (vget (st_fapp c s i) k) (oeff c i k) in
      nadd O (if c_hidej c && cvapply c i k then nsub O fb (vget (i_j i) k) else fb) (weff c i k)).
  Definition st_fold (c : abf_cfg) (s : abf_state) (i : abf_in) : vec :=
    vbuild (c_nd c) (fun k => if bget (c_subtract c) k then vget (st_f c s i) k else vget (s_fold s) k).
  (* colvar::communicate_forces hands f (times integer_power(value, 0) = 1) to the component, for the
     variables that have f_cv_apply_force.  engine: prev_total = eforce + force received from Colvars *)
  Definition st_eng (c : abf_cfg) (s : abf_state) (i : abf_in) : vec :=
    vbuild (c_nd c) (fun k => if cvapply c i k then nadd O (vget (i_e i) k) (vget (st_f c s i) k) else vget (i_e i) k).
  (* colvar::collect_cvc_Jacobians *)
  Definition st_fj (c : abf_cfg) (i : abf_in) : vec := vbuild (c_nd c) (fun k => vget (i_j i) k).

  Definition abf_step (c : abf_cfg) (s : abf_state) (i : abf_in) : abf_state * abf_out :=
    (mkSt (st_cnt c s i) (st_sum c s i) (st_bin c i) (st_bin c i) (st_fabf c s i) (st_fapp c s i) (st_ft c s i)
          (st_fold c s i) (st_eng c s i) (st_fj c i) (fst (st_clk s i)) true (st_japp c i) true,
     mkOut (st_bin c i) (st_fabf c s i) (st_fapp c s i) (st_f c s i) (fst (st_clk s i)) (snd (st_clk s i)) (st_ft c s i)).

  (* colvarbias_abf::init: bin := 0, force_bin := -1 (outside of every grid: no bin has been recorded yet) *)
  Definition abf_init (c : abf_cfg) : abf_state :=
    let nd := c_nd c in
    mkSt (fun _ => 0) (fun _ => vzero nd) (repeat 0 nd) (repeat (-1) nd)
         (vzero nd) (vzero nd) (vzero nd) (vzero nd) (vzero nd) (vzero nd) 0 false [] false.
  (* the bias is defined (a second `config`) while the simulation is running: the engine has made steps,
     the last one with step_relative = rel *)
  Definition abf_init_late (c : abf_cfg) (rel : Z) : abf_state :=
    let nd := c_nd c in
    mkSt (fun _ => 0) (fun _ => vzero nd) (repeat 0 nd) (repeat (-1) nd)
         (vzero nd) (vzero nd) (vzero nd) (vzero nd) (vzero nd) (vzero nd) rel true [] false.

  Fixpoint abf_run_from (c : abf_cfg) (s : abf_state) (h : list abf_in) : abf_state * list abf_out :=
    match h with
    | [] => (s, [])
    | i :: r => let so := abf_step c s i in
                let ro := abf_run_from c (fst so) r in
                (fst ro, snd so :: snd ro)
    end.
  Definition abf_run (c : abf_cfg) (h : list abf_in) := abf_run_from c (abf_init c) h.

  (* ---- script entry points `cv bias <name> bin | bincount | binnum` (colvarbias_abf::current_bin, bin_count,
     bin_num; colvar_grid::current_bin_flat_bound, value_to_bin_scalar_bound, address): the bin of the current values
     with every index brought into the grid (periodic: C++ remainder, made non-negative by adding nx -- the wrapped bin --,
     then clipped to [0, nx-1]), its flat address, the
     count stored there (also local_sample_count(0)), and the number of bins *)
  Definition bound1 (c : abf_cfg) (k : nat) (b : Z) : Z :=
    let n := zget (c_nx c) k in
    let b1 := if bget (c_periodic c) k then (let r := Z.rem b n in if r <? 0 then r + n else r) else b in
    if b1 <? 0 then 0 else if n <=? b1 then n - 1 else b1.
  Definition bins_bound (c : abf_cfg) (x : vec) : idx :=
    map (fun k => bound1 c k (value_to_bin (vget (c_lower c) k) (vget (c_width c) k) (vget x k))) (seq 0 (c_nd c)).
  Definition flat_address (c : abf_cfg) (ix : idx) : Z :=
    fold_left (fun a k => a * zget (c_nx c) k + zget ix k) (seq 0 (c_nd c)) 0.
  Definition abf_bin_num (c : abf_cfg) : Z := fold_left (fun a k => a * zget (c_nx c) k) (seq 0 (c_nd c)) 1.
  Definition abf_current_bin (c : abf_cfg) (x : vec) : Z := flat_address c (bins_bound c x).
  Definition abf_count_current (c : abf_cfg) (s : abf_state) (x : vec) : Z := s_cnt s (bins_bound c x).

  (* ---- timeStepFactor k > 1 on the bias and its variables (impulse multiple time stepping; only available with
     same-step total forces: colvar.cpp excludes f_cv_multiple_ts with lagged total forces).
     colvarmodule::calc_colvars: bias and variables are awake at the steps whose number is a multiple of k, asleep
     otherwise: then update() is not called, the variables are not computed, colvar::f is reset to 0 and nothing is
     applied.  At an awake step colvarbias::communicate_forces hands k * colvar_forces * factor to the variables and
     colvar::update_forces_energy subtracts k * fj with hideJacobian.
     [abf_mstep] reuses [abf_step] for the grids, bin, force_bin, ABF force and total force; the fields of the state
     that only the lagged convention reads (s_eng, s_fold, s_fprev) are not meaningful here. *)
  (* K = (k, t0): the factor, and the absolute number cvm::step_absolute() of the step at which step_relative() = 0
     (`it_restart`: the engine's step number at the start of the job, which may be huge); awake iff the ABSOLUTE step
     number is a multiple of k *)
  Definition awake (K : Z * Z) (clk : Z * bool) : bool := (fst K <=? 1) || ((snd K + fst clk) mod fst K =? 0).
  Definition abf_sleep (c : abf_cfg) (s : abf_state) (i : abf_in) : abf_state * abf_out :=
    (mkSt (s_cnt s) (s_sum s) (s_bin s) (s_fbin s) (s_fabf s) (s_fprev s) (s_ft s) (s_fold s) (s_eng s) (s_fj s)
          (fst (st_clk s i)) true (s_japp s) (s_tfok s),
     mkOut (s_bin s) (s_fabf s) (vzero (c_nd c)) (vzero (c_nd c)) (fst (st_clk s i)) (snd (st_clk s i)) (s_ft s)).
  Definition mts_out (c : abf_cfg) (K : Z * Z) (i : abf_in) (o : abf_out) : abf_out :=
    let k := fst K in
    let fapp := vbuild (c_nd c) (fun d => nmul O (nmul O (nofZ O k) (vget (o_fabf o) d)) (sfac c (st_bin c i))) in
    mkOut (o_bin o) (o_fabf o) fapp
          (vbuild (c_nd c) (fun d =>
             let fb := nadd O (vget fapp d) (oeff c i d) in
             nadd O (if c_hidej c && cvapply c i d then nsub O fb (nmul O (vget (i_j i) d) (nofZ O k)) else fb) (weff c i d)))
          (o_rel o) (o_cont o) (o_tf o).
  Definition abf_mstep (c : abf_cfg) (k : Z * Z) (s : abf_state) (i : abf_in) : abf_state * abf_out :=
    if awake k (st_clk s i)
    then (fst (abf_step c s i), mts_out c k i (snd (abf_step c s i)))
    else abf_sleep c s i.
  Fixpoint abf_mrun_from (c : abf_cfg) (k : Z * Z) (s : abf_state) (h : list abf_in) : abf_state * list abf_out :=
    match h with
    | [] => (s, [])
    | i :: r => let so := abf_mstep c k s i in
                let ro := abf_mrun_from c k (fst so) r in
                (fst ro, snd so :: snd ro)
    end.

  (* inputPrefix: colvarbias_abf::read_gradients_samples adds the counts of the .count file to `samples` and,
     for the .grad file, gradient * (count read) to `gradients` (colvar_grid_gradient::value_input with add).
     One data set per prefix of the inputPrefix list, added in order. *)
  Definition dataset := ((idx -> Z) * (idx -> vec))%type.
  Definition abf_add_data (c : abf_cfg) (s : abf_state) (d : dataset) : abf_state :=
    mkSt (fun b => s_cnt s b + fst d b)
         (fun b => vbuild (c_nd c) (fun k => nadd O (vget (s_sum s b) k) (nmul O (vget (snd d b) k) (nofZ O (fst d b)))))
         (s_bin s) (s_fbin s) (s_fabf s) (s_fprev s) (s_ft s) (s_fold s) (s_eng s) (s_fj s) (s_rel s) (s_started s) (s_japp s) (s_tfok s).
  Definition abf_init_data (c : abf_cfg) (l : list dataset) : abf_state :=
    fold_left (abf_add_data c) l (abf_init c).
  Definition abf_run_data (c : abf_cfg) (l : list dataset) (h : list abf_in) :=
    abf_run_from c (abf_init_data c l) h.

  (* ---- state files.  colvarbias_abf::read_state_data replaces the grids: samples->read_raw (count := value read),
     gradients->read_raw (value_input without add: data := gradient read * count).  Everything else the bias
     applies must be a function of these grids.
     EvRestart: the state is loaded into a new instance (new module: step_relative 0 at its first step, every other
     field as after init).  EvReload: the state is loaded into the instance that is running (`cv load`): the grids are
     replaced, it_restart := it (the next regular step has step_relative 1), the variables forget the step they were
     last computed at (no lagged total force at the next step: the force exerted at the last step before the load is
     dropped, as after a restart), everything else is kept. *)
  Definition abf_set_grids (c : abf_cfg) (s : abf_state) (d : dataset) (rel : Z) : abf_state :=
    mkSt (fst d)
         (fun b => vbuild (c_nd c) (fun k => nmul O (vget (snd d b) k) (nofZ O (fst d b))))
         (s_bin s) (s_fbin s) (s_fabf s) (s_fprev s) (s_ft s) (s_fold s) (s_eng s) (s_fj s) rel (s_started s) (s_japp s) false.
  Inductive abf_event :=
  | EvStep (i : abf_in)
  | EvRestart (d : dataset)
  | EvReload (d : dataset).
  Definition abf_event_apply (c : abf_cfg) (s : abf_state) (ev : abf_event) : abf_state :=
    match ev with
    | EvStep i => fst (abf_step c s i)
    | EvRestart d => abf_set_grids c (abf_init c) d 0
    | EvReload d => abf_set_grids c s d 0
    end.
  Definition abf_run_events (c : abf_cfg) (evs : list abf_event) : abf_state :=
    fold_left (abf_event_apply c) evs (abf_init c).

  (* ------------------------------------------------------------------------------------------
     Specification: the attributed samples of a history.
     A trace is the history zipped with what Colvars applied at each step. *)
  Definition trace := list (abf_in * abf_out).

  (* force exerted by the atoms on variable k at a step, as the engine measures it *)
  Definition measured (c : abf_cfg) (io : abf_in * abf_out) (k : nat) : T :=
    if c_same_step c then vget (i_e (fst io)) k      (* measured before Colvars adds its forces *)
    else if cvapply c (fst io) k then nadd O (vget (i_e (fst io)) k) (vget (o_f (snd io)) k)  (* engine force + every Colvars force of that step *)
    else vget (i_e (fst io)) k.                      (* the variable hands no force to the atoms *)
  (* the part of it that Colvars itself was applying at that step and that the sample excludes:
     the ABF force (and, with hideJacobian, the compensating force -fj that the ABF bias asks the variable
     to apply); with subtractAppliedForce every force applied by Colvars to the variable *)
  Definition own (c : abf_cfg) (io : abf_in * abf_out) (k : nat) : T :=
    if c_same_step c then n0 O
    else if negb (cvapply c (fst io) k) then n0 O
    else if bget (c_subtract c) k then vget (o_f (snd io)) k
    else if c_hidej c then nsub O (vget (o_fapp (snd io)) k) (vget (i_j (fst io)) k)
    else vget (o_fapp (snd io)) k.
  (* the Jacobian term of the total force (geometric entropy), which hideJacobian removes from the estimate *)
  Definition jac (c : abf_cfg) (io : abf_in * abf_out) (k : nat) : T :=
    if c_hidej c then n0 O else vget (i_j (fst io)) k.
  Definition sample_force (c : abf_cfg) (io : abf_in * abf_out) : vec :=
    vbuild (c_nd c) (fun k => nadd O (nsub O (measured c io k) (own c io k)) (jac c io k)).

  (* (bin occupied when the force was exerted, sample force, (step_relative, continuing) of the step
     at which the engine delivers that force) *)
  Definition delivery := (idx * vec * (Z * bool))%type.
  Definition deliveries_same (c : abf_cfg) (tr : trace) : list delivery :=
    map (fun io => (bins c (i_x (fst io)), sample_force c io, (o_rel (snd io), o_cont (snd io)))) tr.
  Fixpoint deliveries_lag (c : abf_cfg) (prev : option (abf_in * abf_out)) (tr : trace) : list delivery :=
    match tr with
    | [] => []
    | io :: rest =>
        match prev with
        | Some p => [(bins c (i_x (fst p)), sample_force c p, (o_rel (snd io), o_cont (snd io)))]
        | None => []
        end ++ deliveries_lag c (Some io) rest
    end.
  Definition deliveries (c : abf_cfg) (tr : trace) : list delivery :=
    if c_same_step c then deliveries_same c tr else deliveries_lag c None tr.

  (* a delivered force becomes a sample when the bias is being updated, the delivery step is a
     regular step of the run (not step 0, not a repeated step) or stepZeroData is on, and the bin
     is inside the grid *)
  Definition eligible (c : abf_cfg) (clk : Z * bool) : bool :=
    c_update c && (((0 <? fst clk) && negb (snd clk)) || c_szd c).
  Definition attributed_of (c : abf_cfg) (ds : list delivery) : list (idx * vec) :=
    map (fun d => (fst (fst d), snd (fst d)))
        (filter (fun d => eligible c (snd d) && index_ok c (fst (fst d))) ds).
  Definition attributed (c : abf_cfg) (tr : trace) : list (idx * vec) := attributed_of c (deliveries c tr).

  Definition samples_in (b : idx) (S : list (idx * vec)) : list vec :=
    map snd (filter (fun s => idx_eqb (fst s) b) S).
  (* number of attributed samples in bin b, and the sum of their k-th force components *)
  Definition cnt_of (b : idx) (S : list (idx * vec)) : Z := Z.of_nat (length (samples_in b S)).
  Fixpoint gsum (l : list T) : T := match l with [] => n0 O | x :: r => nadd O x (gsum r) end.
  Definition fsum_of (k : nat) (b : idx) (S : list (idx * vec)) : T :=
    gsum (map (fun v => vget v k) (samples_in b S)).
  (* the trace of a history: the history zipped with what the model reports at each step *)
  (* timeStepFactor k: a step of the history yields a sample only if the bias is awake at it *)
  Definition attributed_mts (c : abf_cfg) (k : Z * Z) (tr : trace) : list (idx * vec) :=
    map (fun d => (fst (fst d), snd (fst d)))
        (filter (fun d => awake k (snd d) && eligible c (snd d) && index_ok c (fst (fst d))) (deliveries_same c tr)).
  Definition trace_from (c : abf_cfg) (s : abf_state) (h : list abf_in) : trace := combine h (snd (abf_run_from c s h)).
  Definition trace_of (c : abf_cfg) (h : list abf_in) : trace := trace_from c (abf_init c) h.
End ABF.
