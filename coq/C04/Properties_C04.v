(* C04: ABF stores the mean force per bin and applies its smoothed negative.
   Statements only; proofs are in ABFProofs.v (real-number instance of the model ABFModel.v) and
   ABFWitness.v (concrete runs, computed at exact rationals with the same generic model).
   The model mirrors the tree WITH the fix commits of branch fix-C04 (props/C04/NOTES.md): on the tree
   without them the first version of this slice proved `_refuted` theorems for T1 and T3; the
   inputs of those witnesses are the Examples E1, E3, E4 at the end of this file and are replayed on the
   C++ at every run of the check (round 2: fix-C04-2, E5 and E7). *)
From Coq Require Import ZArith QArith List Bool Reals Lia.
From CV Require Import Base.Num Base.RNum C04.ABFModel C04.ABFProofs C04.ABFWitness.
Import ListNotations.

(* ---- T1.  After ANY history, in EVERY bin b the stored count is the number of attributed samples in b
   and the stored gradient sum is minus the sum of their forces.  The attributed samples (ABFModel.v,
   [attributed]) are, for every step whose force the engine delivers at a regular step of the run
   (or at any step with stepZeroData):
   (bin occupied by the variables at the step the force was exerted,
    force measured on the variable for that step - the force Colvars itself was applying at that step
    [the ABF force AS APPLIED, i.e. times the scaledBiasingForce factor, and the Jacobian compensation of
    hideJacobian; every Colvars force for a variable with subtractAppliedForce; nothing for a variable that
    hands no force to the atoms]
    + the Jacobian term unless hideJacobian),
   in both timing conventions, with other biases, run boundaries, values inside and outside the grid,
   one or more variables.  [wf_cfg]: stepZeroData only with same-step forces (the code rejects it
   otherwise).  applyBias is an input of every step ([i_apply]): the theorem covers every run-time switching
   (`cv bias <name> set apply_force 0|1`).  No other side condition: `jac_ok` went with fix 318ea9be, `steady` /
   `apply_const` with fix 5b106d10. *)
Theorem C04_abf_state_is_sample_sum :
  forall (c : @abf_cfg R) (h : list (@abf_in R)) (b : idx),
    wf_cfg c ->
    s_cnt (fst (abf_run Rops c h)) b = cnt_of b (attributed Rops c (trace_of Rops c h)) /\
    forall k, (k < c_nd c)%nat ->
      vget Rops (s_sum (fst (abf_run Rops c h)) b) k = (- fsum_of Rops k b (attributed Rops c (trace_of Rops c h)))%R.
Proof. exact abf_state_is_sample_sum. Qed.
Print Assumptions C04_abf_state_is_sample_sum.

(* the same for the whole vector stored in the bin *)
Theorem C04_abf_sum_vector :
  forall (c : @abf_cfg R) (h : list (@abf_in R)) (b : idx),
    wf_cfg c ->
    s_sum (fst (abf_run Rops c h)) b
    = vbuild (c_nd c) (fun k => (- fsum_of Rops k b (attributed Rops c (trace_of Rops c h)))%R).
Proof. exact abf_sum_vector. Qed.
Print Assumptions C04_abf_sum_vector.

(* ---- T1'.  The property as worded: the stored free-energy gradient of every bin (what
   colvar_grid_gradient::value_output writes to the state and .grad files, [grad_out] = sum / count) is
   MINUS THE ARITHMETIC MEAN of the forces of the samples attributed to the bin, the stored count is their
   number, and the gradient of a bin without samples is 0. *)
Theorem C04_stored_gradient_is_minus_mean :
  forall (c : @abf_cfg R) (h : list (@abf_in R)) (b : idx) (k : nat),
    wf_cfg c -> (k < c_nd c)%nat ->
    let s := fst (abf_run Rops c h) in
    let S := attributed Rops c (trace_of Rops c h) in
    s_cnt s b = cnt_of b S /\
    ((0 < cnt_of b S)%Z -> grad_out Rops (s_cnt s) (s_sum s) b k = (- mean_force S b k)%R) /\
    (cnt_of b S = 0%Z -> grad_out Rops (s_cnt s) (s_sum s) b k = 0%R).
Proof. exact stored_gradient_is_minus_mean. Qed.
Print Assumptions C04_stored_gradient_is_minus_mean.

(* ---- T1i.  inputPrefix (a list of prefixes, one data set each, added in order): a run started from data read
   from .count/.grad files ends with count = counts read + number of attributed samples,
   sum = sum over the data sets of gradient read * count read - sum of the sample forces. *)
Theorem C04_abf_state_with_input_data :
  forall (c : @abf_cfg R) (l : list (@dataset R)) (h : list (@abf_in R)) (b : idx),
    wf_cfg c ->
    let s0 := abf_init_data Rops c l in
    let r := abf_run_data Rops c l h in
    let S := attributed Rops c (trace_from Rops c s0 h) in
    s_cnt (fst r) b = (data_cnt l b + cnt_of b S)%Z /\
    forall k, (k < c_nd c)%nat ->
      vget Rops (s_sum (fst r) b) k = (data_sum l b k - fsum_of Rops k b S)%R.
Proof. exact abf_state_with_input_data. Qed.
Print Assumptions C04_abf_state_with_input_data.

(* ---- T1f.  Which applied forces are subtracted: closed form of the sample of a step for every mix of forces that
   Colvars applies (ABF force as applied, biases acting through fb [i_o], biases bypassing the extended Lagrangian
   through fb_actual [i_w], hideJacobian compensation), from any state.  With subtractAppliedForce the sample is the
   force of the system alone: f_old = colvar::f contains EVERYTHING that was applied, fb_actual included. *)
Theorem C04_sample_force_closed_form :
  forall (c : @abf_cfg R) (s : @abf_state R) (i : @abf_in R) (k : nat),
    (k < c_nd c)%nat ->
    let io := (i, snd (abf_step Rops c s i)) in
    vget Rops (sample_force Rops c io) k
    = (vget Rops (i_e i) k
       + (if c_same_step c || bget (c_subtract c) k then 0 else oeff Rops c i k + weff Rops c i k)
       + (if c_hidej c then 0 else vget Rops (i_j i) k))%R.
Proof. exact sample_force_closed_form. Qed.
Print Assumptions C04_sample_force_closed_form.

Theorem C04_subtracted_sample_is_system_force :
  forall (c : @abf_cfg R) (s : @abf_state R) (i : @abf_in R) (k : nat),
    (k < c_nd c)%nat -> bget (c_subtract c) k = true ->
    vget Rops (sample_force Rops c (i, snd (abf_step Rops c s i))) k
    = (vget Rops (i_e i) k + (if c_hidej c then 0 else vget Rops (i_j i) k))%R.
Proof. exact subtracted_sample_is_system_force. Qed.
Print Assumptions C04_subtracted_sample_is_system_force.

(* ---- T1b.  Script entry points: `cv bias <name> bincount [cv bias <name> bin]` (= local_sample_count 0) after any history,
   for values inside the grid, is the number of samples attributed to the bin of the current values. *)
Theorem C04_script_count_current :
  forall (c : @abf_cfg R) (h : list (@abf_in R)) (x : @vec R),
    wf_cfg c -> index_ok c (bins Rops c x) = true ->
    abf_count_current Rops c (fst (abf_run Rops c h)) x
    = cnt_of (bins Rops c x) (attributed Rops c (trace_of Rops c h)).
Proof. exact script_count_current. Qed.
Print Assumptions C04_script_count_current.

(* ---- T2.  The ABF force handed to variable k at the step that follows any history is
   ramp(count b) * (sum b / count b) for the current bin b (count and sum AFTER this step's accumulation),
   with ramp the documented 0 / linear / 1 function of minSamples and fullSamples; minus, for one periodic
   variable, the grid average of these ramped estimates; clipped to +-maxForce; and 0 when b is outside the
   grid or applyBias is off. *)
Theorem C04_applied_force :
  forall (c : @abf_cfg R) (h : list (@abf_in R)) (i : @abf_in R) (k : nat),
    (k < c_nd c)%nat -> (0 <= c_min c < c_full c)%Z ->
    (c_cap c = true -> (0 <= vget Rops (c_maxf c) k)%R) ->
    let s := fst (abf_run Rops c h) in
    let s1 := fst (abf_step Rops c s i) in
    vget Rops (o_fabf (snd (abf_step Rops c s i))) k = spec_force c (i_apply i) (s_cnt s1) (s_sum s1) (bins Rops c (i_x i)) k.
Proof. exact applied_force_after_history. Qed.
Print Assumptions C04_applied_force.

(* ---- T2r.  State files.  After ANY sequence of steps, restarts from a state file into a new instance and loads of
   a state file into the running instance (read_state_data replaces the grids by the counts and gradient * count
   read), the ABF force of the next step is [spec_force] of the CURRENT grids: the past matters only through the
   grids; in particular two pasts ending with the same grids give the same force.  (The zero-mean term of a
   periodic variable is the mean over the bins of the ramped estimates of the current grids, not of any earlier ones.) *)
Theorem C04_applied_force_function_of_grids :
  forall (c : @abf_cfg R) (evs : list (@abf_event R)) (i : @abf_in R) (k : nat),
    Forall event_ok evs ->
    (k < c_nd c)%nat -> (0 <= c_min c < c_full c)%Z -> (c_cap c = true -> (0 <= vget Rops (c_maxf c) k)%R) ->
    let s := abf_run_events Rops c evs in
    let s1 := fst (abf_step Rops c s i) in
    vget Rops (o_fabf (snd (abf_step Rops c s i))) k
    = spec_force c (i_apply i) (s_cnt s1) (s_sum s1) (bins Rops c (i_x i)) k.
Proof. exact applied_force_function_of_grids. Qed.
Print Assumptions C04_applied_force_function_of_grids.

Theorem C04_same_grids_same_force :
  forall (c : @abf_cfg R) (evs1 evs2 : list (@abf_event R)) (i : @abf_in R) (k : nat),
    Forall event_ok evs1 -> Forall event_ok evs2 ->
    (k < c_nd c)%nat -> (0 <= c_min c < c_full c)%Z -> (c_cap c = true -> (0 <= vget Rops (c_maxf c) k)%R) ->
    let s1 := fst (abf_step Rops c (abf_run_events Rops c evs1) i) in
    let s2 := fst (abf_step Rops c (abf_run_events Rops c evs2) i) in
    s_cnt s1 = s_cnt s2 -> s_sum s1 = s_sum s2 ->
    vget Rops (o_fabf (snd (abf_step Rops c (abf_run_events Rops c evs1) i))) k
    = vget Rops (o_fabf (snd (abf_step Rops c (abf_run_events Rops c evs2) i))) k.
Proof. exact same_grids_same_force. Qed.
Print Assumptions C04_same_grids_same_force.

(* T1 after a restart: whatever happened before, after a restart from the data set d and the steps h the grids are
   d plus the samples attributed in h *)
Theorem C04_abf_state_after_restart :
  forall (c : @abf_cfg R) (evs : list (@abf_event R)) (d : @dataset R) (h : list (@abf_in R)) (b : idx),
    wf_cfg c ->
    let s0 := abf_set_grids Rops c (abf_init Rops c) d 0 in
    let s := abf_run_events Rops c (evs ++ [EvRestart d] ++ map (@EvStep R) h) in
    let S := attributed Rops c (trace_from Rops c s0 h) in
    s_cnt s b = (fst d b + cnt_of b S)%Z /\
    forall k, (k < c_nd c)%nat ->
      vget Rops (s_sum s b) k = (vget Rops (snd d b) k * IZR (fst d b) - fsum_of Rops k b S)%R.
Proof. exact abf_state_after_restart. Qed.
Print Assumptions C04_abf_state_after_restart.

(* T1 across a load of a state file into the RUNNING instance, in any state s: the grids are the data set d plus the
   samples attributed in the steps made after the load, exactly as after a restart into a new instance.  In the lagged
   convention the force exerted at the last step before the load belongs to the replaced history and is dropped: the
   variables do not collect a total force at the first step after a state was read (colvar::set_state_params resets
   prev_timestep), and the bias takes no sample then (fix 8faa5692; before it, the total force of an earlier step was
   recorded a second time). *)
Theorem C04_abf_state_after_reload :
  forall (c : @abf_cfg R) (s : @abf_state R) (d : @dataset R) (h : list (@abf_in R)) (b : idx),
    wf_cfg c ->
    let s' := abf_set_grids Rops c s d 0 in
    let r := abf_run_from Rops c s' h in
    let S := attributed Rops c (trace_from Rops c s' h) in
    s_cnt (fst r) b = (fst d b + cnt_of b S)%Z /\
    forall k, (k < c_nd c)%nat ->
      vget Rops (s_sum (fst r) b) k = (vget Rops (snd d b) k * IZR (fst d b) - fsum_of Rops k b S)%R.
Proof. exact abf_state_after_reload. Qed.
Print Assumptions C04_abf_state_after_reload.

Theorem C04_no_sample_right_after_reload :
  forall (c : @abf_cfg R) (s : @abf_state R) (d : @dataset R) (i : @abf_in R),
    c_same_step c = false ->
    s_cnt (fst (abf_step Rops c (abf_set_grids Rops c s d 0) i)) = fst d.
Proof. exact no_sample_right_after_reload. Qed.
Print Assumptions C04_no_sample_right_after_reload.

(* T1 for a bias DEFINED WHILE THE SIMULATION IS RUNNING (a later `config`; the engine's last step had
   step_relative = rel): the grids are the samples attributed in the bias's own history; nothing that happened before it
   existed enters a bin (force_bin starts outside of the grid: fix 3cb1a6bc). *)
Theorem C04_abf_state_late_definition :
  forall (c : @abf_cfg R) (rel : Z) (h : list (@abf_in R)) (b : idx),
    wf_cfg c -> (0 < c_nd c)%nat ->
    let s0 := abf_init_late Rops c rel in
    let r := abf_run_from Rops c s0 h in
    let S := attributed Rops c (trace_from Rops c s0 h) in
    s_cnt (fst r) b = cnt_of b S /\
    forall k, (k < c_nd c)%nat -> vget Rops (s_sum (fst r) b) k = (- fsum_of Rops k b S)%R.
Proof. exact abf_state_late_definition. Qed.
Print Assumptions C04_abf_state_late_definition.

(* ---- T1m/T2m.  timeStepFactor k on the bias and its variables (same-step total forces; the code excludes it with
   lagged ones): [abf_mstep]/[abf_mrun_from].  The grids hold the samples of the steps at which the bias is awake
   (ABSOLUTE step number a multiple of k; k = (factor, absolute number of the job's first step)); at such a step the ABF force is [spec_force] of the grids and the variable receives
   k times it (times the scaling factor); while asleep nothing is applied and the grids do not change. *)
Theorem C04_mts_state_is_sample_sum :
  forall (c : @abf_cfg R) (k : Z * Z) (h : list (@abf_in R)) (b : idx),
    c_same_step c = true ->
    let r := abf_mrun_from Rops c k (abf_init Rops c) h in
    let S := attributed_mts Rops c k (combine h (snd r)) in
    s_cnt (fst r) b = cnt_of b S /\
    forall d, (d < c_nd c)%nat -> vget Rops (s_sum (fst r) b) d = (- fsum_of Rops d b S)%R.
Proof. exact mts_state_is_sample_sum. Qed.
Print Assumptions C04_mts_state_is_sample_sum.

Theorem C04_mts_force :
  forall (c : @abf_cfg R) (k : Z * Z) (s : @abf_state R) (i : @abf_in R) (d : nat),
    (forall b, 0 <= s_cnt s b)%Z -> (d < c_nd c)%nat -> (0 <= c_min c < c_full c)%Z ->
    (c_cap c = true -> (0 <= vget Rops (c_maxf c) d)%R) ->
    let so := abf_mstep Rops c k s i in
    (awake k (st_clk s i) = true ->
       vget Rops (o_fabf (snd so)) d
         = spec_force c (i_apply i) (s_cnt (fst so)) (s_sum (fst so)) (bins Rops c (i_x i)) d /\
       vget Rops (o_fapp (snd so)) d = (IZR (fst k) * vget Rops (o_fabf (snd so)) d * sfac Rops c (bins Rops c (i_x i)))%R) /\
    (awake k (st_clk s i) = false ->
       vget Rops (o_f (snd so)) d = 0%R /\ vget Rops (o_fapp (snd so)) d = 0%R /\
       s_cnt (fst so) = s_cnt s /\ s_sum (fst so) = s_sum s).
Proof. exact mts_force. Qed.
Print Assumptions C04_mts_force.

(* ---- T2'.  T1 and T2 together, without reference to the stored arrays: for every history h and next
   step i, the ABF force of that step is [spec_force_samples] of the samples attributed in h ++ [i]:
   ramp(N_b) * (- arithmetic mean of the N_b sample forces of the current bin b), minus the grid average of
   the same quantity for one periodic variable, clipped to +-maxForce, 0 outside the grid / applyBias off. *)
Theorem C04_applied_force_is_smoothed_negative_mean :
  forall (c : @abf_cfg R) (h : list (@abf_in R)) (i : @abf_in R) (k : nat),
    wf_cfg c -> (k < c_nd c)%nat -> (0 <= c_min c < c_full c)%Z ->
    (c_cap c = true -> (0 <= vget Rops (c_maxf c) k)%R) ->
    vget Rops (o_fabf (snd (abf_step Rops c (fst (abf_run Rops c h)) i))) k
    = spec_force_samples c (i_apply i) (attributed Rops c (trace_of Rops c (h ++ [i]))) (bins Rops c (i_x i)) k.
Proof. exact applied_force_is_smoothed_negative_mean. Qed.
Print Assumptions C04_applied_force_is_smoothed_negative_mean.

(* what the variable receives from the bias is that force times the factor of the scaling grid at the current
   bin when scaledBiasingForce is on (1 otherwise) *)
Theorem C04_applied_force_scaled :
  forall (c : @abf_cfg R) (s : @abf_state R) (i : @abf_in R) (k : nat),
    (k < c_nd c)%nat ->
    vget Rops (o_fapp (snd (abf_step Rops c s i))) k
    = (vget Rops (o_fabf (snd (abf_step Rops c s i))) k * sfac Rops c (bins Rops c (i_x i)))%R.
Proof. exact applied_force_scaled. Qed.
Print Assumptions C04_applied_force_scaled.

Theorem C04_no_force_outside_grid :
  forall (c : @abf_cfg R) (s : @abf_state R) (i : @abf_in R) (k : nat),
    i_apply i && index_ok c (bins Rops c (i_x i)) = false ->
    vget Rops (o_fabf (snd (abf_step Rops c s i))) k = 0%R.
Proof. exact no_force_outside. Qed.
Print Assumptions C04_no_force_outside_grid.

(* ---- T3.  One periodic variable: the forces of all the bins sum to zero, for EVERY content of the grid
   (no hypothesis on the counts: also while bins are between minSamples and fullSamples), and for the
   samples of every history. *)
Theorem C04_zero_mean_periodic :
  forall (c : @abf_cfg R) (cnt : idx -> Z) (sum : idx -> @vec R),
    c_nd c = 1%nat -> bget (c_periodic c) 0 = true -> c_cap c = false ->
    gsum Rops (map (fun i => spec_force c true cnt sum [i] 0) (zrange (zget (c_nx c) 0))) = 0%R.
Proof. exact zero_mean_periodic. Qed.
Print Assumptions C04_zero_mean_periodic.

Theorem C04_zero_mean_periodic_samples :
  forall (c : @abf_cfg R) (S : list (idx * @vec R)),
    c_nd c = 1%nat -> bget (c_periodic c) 0 = true -> c_cap c = false ->
    gsum Rops (map (fun i => spec_force_samples c true S [i] 0) (zrange (zget (c_nx c) 0))) = 0%R.
Proof. exact zero_mean_periodic_samples. Qed.
Print Assumptions C04_zero_mean_periodic_samples.

(* the documented "no bias below minSamples": while no bin has more than minSamples samples the force is 0
   in every bin, periodic or not *)
Theorem C04_no_force_below_min :
  forall (c : @abf_cfg R) (a : bool) (cnt : idx -> Z) (sum : idx -> @vec R) (b : idx) (k : nat),
    (0 <= c_min c < c_full c)%Z -> (c_cap c = true -> (0 <= vget Rops (c_maxf c) k)%R) ->
    (forall b', (0 <= cnt b' <= c_min c)%Z) ->
    spec_force c a cnt sum b k = 0%R.
Proof. exact no_force_below_min. Qed.
Print Assumptions C04_no_force_below_min.

(* ---- T4.  The repeated step of a run boundary adds no sample (stepZeroData off): counts and sums of
   every bin are unchanged, from any state in which a step was already made; and on histories. *)
Theorem C04_run_boundary :
  forall (c : @abf_cfg R) (s : @abf_state R) (i : @abf_in R),
    c_szd c = false -> i_boundary i = true -> s_started s = true ->
    s_cnt (fst (abf_step Rops c s i)) = s_cnt s /\ s_sum (fst (abf_step Rops c s i)) = s_sum s.
Proof. exact run_boundary_no_sample. Qed.
Print Assumptions C04_run_boundary.

Theorem C04_run_boundary_history :
  forall (c : @abf_cfg R) (h : list (@abf_in R)) (i : @abf_in R),
    c_szd c = false -> i_boundary i = true -> h <> [] ->
    s_cnt (fst (abf_run Rops c (h ++ [i]))) = s_cnt (fst (abf_run Rops c h)) /\
    s_sum (fst (abf_run Rops c (h ++ [i]))) = s_sum (fst (abf_run Rops c h)).
Proof. exact run_boundary_history. Qed.
Print Assumptions C04_run_boundary_history.

(* ---- non-vacuity *)

(* wf_cfg holds for a lagged configuration with hideJacobian, with a two-step history that switches applyBias off *)
Example C04_example_wf :
  let c := @mkCfg R 1 [0%R] [1%R] [2%Z] [false] 2 1 true false [0%R] false false [false] true [false] true (fun _ => (1/2)%R) in
  let h := [@mkIn R [(1/2)%R] [1%R] [0%R] [3%R] false true [0%R]; @mkIn R [(1/2)%R] [0%R] [0%R] [3%R] false false [0%R]] in
  wf_cfg c /\ c_hidej c = true /\ c_same_step c = false /\ length (trace_of Rops c h) = 2%nat.
Proof. exact example_wf_lagged. Qed.

(* event_ok holds for a step, a restart and a reload with non-negative counts *)
Example C04_example_event_ok : Forall event_ok [EvStep (@mkIn R [(1/2)%R] [1%R] [0%R] [0%R] false true [0%R]);
                                                EvRestart ((fun _ => 2%Z), (fun _ => [1%R]));
                                                EvReload ((fun _ => 0%Z), (fun _ => [0%R]))].
Proof. exact example_event_ok. Qed.

(* both branches of T2m occur *)
Example C04_example_awake : awake (2, 0)%Z (0%Z, false) = true /\ awake (2, 0)%Z (1%Z, false) = false /\ awake (3, 0)%Z (6%Z, true) = true /\
                            awake (1, 0)%Z (5%Z, false) = true /\
                            awake (7, 4294967301)%Z (5%Z, false) = true /\ awake (7, 4294967301)%Z (0%Z, false) = false.
Proof. exact awake_examples. Qed.

(* T4's premise s_started = true holds after any step *)
Example C04_example_started : forall (c : @abf_cfg R) s i, s_started (fst (abf_step Rops c s i)) = true.
Proof. exact started_after_step. Qed.

(* runs in which samples are really taken and forces really applied (exact rationals):
   E1/E2: lagged, subtractAppliedForce, measured total force exactly zero (engine force cancels a restraint
          / cancels the ABF force itself): 2 resp. 3 samples, stored sum = minus their sum;
   E3:    periodic grid at count = minSamples: no force in either bin;  E3b: during the ramp the two bins get
          -5/4 and +5/4;
   E4:    hideJacobian with a non-zero Jacobian force, same-step and lagged: the samples are the engine
          force 1 and the variable receives ABF force - fj;
   E6:    scaledBiasingForce 1/2, lagged: ABF force -2, applied -1, every sample is the engine force 2;
   E5:    hideJacobian, lagged, nothing applied to the variable: samples are the engine force 1, applied force 0;
   E7:    applyBias switched off and on again at run time, lagged: five samples of 2. *)
Example C04_example_E1 :
  stored_cnt e1_cfg e1_hist [0%Z] = 2%Z /\ spec_cnt e1_cfg e1_hist [0%Z] = 2%Z /\
  Qeq_bool (stored_sum e1_cfg e1_hist [0%Z] 0) (-(1)) = true /\
  Qeq_bool (spec_sum e1_cfg e1_hist [0%Z] 0) (-(1)) = true.
Proof. exact e1_values. Qed.
Example C04_example_E2 :
  stored_cnt e2_cfg e2_hist [0%Z] = 3%Z /\ spec_cnt e2_cfg e2_hist [0%Z] = 3%Z /\
  Qeq_bool (stored_sum e2_cfg e2_hist [0%Z] 0) (-(6#1)) = true /\
  Qeq_bool (spec_sum e2_cfg e2_hist [0%Z] 0) (-(6#1)) = true.
Proof. exact e2_values. Qed.
Example C04_example_E3 :
  stored_cnt e3_cfg e3_hist [0%Z] = 1%Z /\ stored_cnt e3_cfg e3_hist [1%Z] = 0%Z /\
  Qeq_bool (force_in e3_cfg e3_hist 0) 0 = true /\ Qeq_bool (force_in e3_cfg e3_hist 1) 0 = true.
Proof. exact e3_values. Qed.
Example C04_example_E3b :
  stored_cnt e3b_cfg e3b_hist [0%Z] = 4%Z /\ stored_cnt e3b_cfg e3b_hist [1%Z] = 2%Z /\
  Qeq_bool (force_in e3b_cfg e3b_hist 0) (-(5#4)) = true /\ Qeq_bool (force_in e3b_cfg e3b_hist 1) (5#4) = true.
Proof. exact e3b_values. Qed.
Example C04_example_E4 :
  stored_cnt e4_cfg e4_hist [0%Z] = 2%Z /\ Qeq_bool (stored_sum e4_cfg e4_hist [0%Z] 0) (-(2#1)) = true /\
  Qeq_bool (spec_sum e4_cfg e4_hist [0%Z] 0) (-(2#1)) = true /\
  Qeq_bool (last_applied e4_cfg e4_hist) (-(4#1)) = true /\
  stored_cnt e4l_cfg e4l_hist [0%Z] = 3%Z /\ Qeq_bool (stored_sum e4l_cfg e4l_hist [0%Z] 0) (-(3#1)) = true.
Proof. exact e4_values. Qed.
Example C04_example_E6 :
  stored_cnt e6_cfg e6_hist [0%Z] = 3%Z /\ spec_cnt e6_cfg e6_hist [0%Z] = 3%Z /\
  Qeq_bool (stored_sum e6_cfg e6_hist [0%Z] 0) (-(6#1)) = true /\
  Qeq_bool (spec_sum e6_cfg e6_hist [0%Z] 0) (-(6#1)) = true /\
  Qeq_bool (last_applied e6_cfg e6_hist) (-(1)) = true.
Proof. exact e6_values. Qed.
Example C04_example_E5 :
  stored_cnt e5_cfg e5_hist [0%Z] = 2%Z /\ spec_cnt e5_cfg e5_hist [0%Z] = 2%Z /\
  Qeq_bool (stored_sum e5_cfg e5_hist [0%Z] 0) (-(2#1)) = true /\
  Qeq_bool (spec_sum e5_cfg e5_hist [0%Z] 0) (-(2#1)) = true /\
  Qeq_bool (last_applied e5_cfg e5_hist) 0 = true.
Proof. exact e5_values. Qed.
Example C04_example_E7 :
  stored_cnt e7_cfg e7_hist [0%Z] = 5%Z /\ spec_cnt e7_cfg e7_hist [0%Z] = 5%Z /\
  Qeq_bool (stored_sum e7_cfg e7_hist [0%Z] 0) (-(10#1)) = true /\
  Qeq_bool (spec_sum e7_cfg e7_hist [0%Z] 0) (-(10#1)) = true.
Proof. exact e7_values. Qed.
(* W7: hideJacobian, lagged, applyBias switched off after step 0: both samples are the engine force 1 *)
Example C04_example_W7 :
  stored_cnt w7_cfg w7_hist [0%Z] = 2%Z /\ spec_cnt w7_cfg w7_hist [0%Z] = 2%Z /\
  Qeq_bool (stored_sum w7_cfg w7_hist [0%Z] 0) (-(2#1)) = true /\
  Qeq_bool (spec_sum w7_cfg w7_hist [0%Z] 0) (-(2#1)) = true.
Proof. exact w7_values. Qed.
