(* C04: ABF stores the mean force per bin and applies its smoothed negative.
   Statements only; proofs are in ABFProofs.v (real-number instance of the model ABFModel.v) and
   ABFWitness.v (counterexamples, computed at exact rationals with the same generic model). *)
From Coq Require Import ZArith QArith List Bool Reals Lia.
From CV Require Import Base.Num Base.RNum C04.ABFModel C04.ABFProofs C04.ABFWitness.
Import ListNotations.

(* ---- T1.  After ANY history, in EVERY bin b the stored count is the number of attributed samples in b
   and the stored gradient sum is minus the sum of their forces.  The attributed samples (ABFModel.v,
   [attributed]) are, for every step whose force the engine delivers at a regular step of the run:
   (bin occupied by the variables at the step the force was exerted,
    total force measured for that step - the force Colvars itself was applying at that step
    [the ABF force; every Colvars force for a variable with subtractAppliedForce]),
   in both timing conventions, with other biases, run boundaries, values inside and outside the grid.

   FULL STATEMENT (false of the code, see the two _refuted theorems below):
     forall c h b, wf_cfg c ->
       s_cnt (fst (abf_run Rops c h)) b = cnt_of b (attributed Rops c (trace_of Rops c h)) /\
       forall k, k < c_nd c -> vget Rops (s_sum (fst (abf_run Rops c h)) b) k
                               = - fsum_of Rops k b (attributed Rops c (trace_of Rops c h)).
   It holds under the side condition [clean_io] on every step of a lagged-convention trace:
   no variable has the value exactly 0, and no variable with subtractAppliedForce has a measured total
   force of exactly 0. *)
Theorem C04_abf_state_is_sample_sum_partial :
  forall (c : @abf_cfg R) (h : list (@abf_in R)) (b : idx),
    wf_cfg c ->
    (c_same_step c = false -> Forall (clean_io c) (trace_of Rops c h)) ->
    s_cnt (fst (abf_run Rops c h)) b = cnt_of b (attributed Rops c (trace_of Rops c h)) /\
    forall k, (k < c_nd c)%nat ->
      vget Rops (s_sum (fst (abf_run Rops c h)) b) k = (- fsum_of Rops k b (attributed Rops c (trace_of Rops c h)))%R.
Proof. exact abf_state_is_sample_sum_partial. Qed.
Print Assumptions C04_abf_state_is_sample_sum_partial.

(* W1: subtractAppliedForce + lagged forces + measured total force exactly 0 (engine -1, restraint +1):
   the stored sum in bin [0] is -2, minus the sum of the attributed samples (-1 and 2) is -1. *)
Theorem C04_abf_state_is_sample_sum_refuted :
  exists (c : @abf_cfg Q) (h : list (@abf_in Q)) (b : idx),
    c_szd c = false /\
    stored_cnt c h b = spec_cnt c h b /\
    Qeq_bool (stored_sum c h b 0) (spec_sum c h b 0) = false.
Proof. exists w1_cfg, w1_hist, [0%Z]. vm_compute. repeat split; reflexivity. Qed.
Print Assumptions C04_abf_state_is_sample_sum_refuted.

(* W2: lagged forces + value of the variable exactly 0 while Colvars applies a force to it: the force is
   not handed to the atoms, the stored sum in bin [1] is -1, minus the attributed sample is -2. *)
Theorem C04_abf_state_is_sample_sum_refuted_value_zero :
  exists (c : @abf_cfg Q) (h : list (@abf_in Q)) (b : idx),
    c_szd c = false /\ c_subtract c = [false] /\
    stored_cnt c h b = spec_cnt c h b /\
    Qeq_bool (stored_sum c h b 0) (spec_sum c h b 0) = false.
Proof. exists w2_cfg, w2_hist, [1%Z]. vm_compute. repeat split; reflexivity. Qed.
Print Assumptions C04_abf_state_is_sample_sum_refuted_value_zero.

(* ---- T2.  The ABF force handed to variable k at the step that follows any history is
   ramp(count b) * (sum b / count b) for the current bin b (count and sum AFTER this step's accumulation),
   with ramp the documented 0 / linear / 1 function of minSamples and fullSamples; minus the grid average
   of sum/count for one periodic variable; clipped to +-maxForce; and 0 when b is outside the grid or
   applyBias is off. *)
Theorem C04_applied_force :
  forall (c : @abf_cfg R) (h : list (@abf_in R)) (i : @abf_in R) (k : nat),
    (k < c_nd c)%nat -> (0 <= c_min c < c_full c)%Z ->
    (c_cap c = true -> (0 <= vget Rops (c_maxf c) k)%R) ->
    let s := fst (abf_run Rops c h) in
    let s1 := fst (abf_step Rops c s i) in
    vget Rops (o_fabf (snd (abf_step Rops c s i))) k = spec_force c (s_cnt s1) (s_sum s1) (bins Rops c (i_x i)) k.
Proof. exact applied_force_after_history. Qed.
Print Assumptions C04_applied_force.

(* ---- T3.  One periodic variable: the forces of all the bins sum to zero.
   FULL STATEMENT (false of the code, see _refuted): without the hypothesis on the counts.
   It holds when every bin is either fully sampled (count >= fullSamples) or empty. *)
Theorem C04_zero_mean_periodic_partial :
  forall (c : @abf_cfg R) (cnt : idx -> Z) (sum : idx -> @vec R),
    c_nd c = 1%nat -> bget (c_periodic c) 0 = true -> c_apply c = true -> c_cap c = false ->
    (forall i, (0 <= i < zget (c_nx c) 0)%Z -> (c_full c <= cnt [i])%Z \/ cnt [i] = 0%Z) ->
    (0 <= c_min c < c_full c)%Z ->
    gsum Rops (map (fun i => spec_force c cnt sum [i] 0) (zrange (zget (c_nx c) 0))) = 0%R.
Proof. exact zero_mean_periodic_partial. Qed.
Print Assumptions C04_zero_mean_periodic_partial.

(* W3: 2 bins, minSamples 1, fullSamples 2, one sample (force 2) in bin [0]: after that history the force
   is 1 in bin [0] and 1 in bin [1] (which has no sample): sum 2, and a bias where the ramp is 0. *)
Theorem C04_zero_mean_periodic_refuted :
  stored_cnt w3_cfg w3_hist [0%Z] = 1%Z /\ stored_cnt w3_cfg w3_hist [1%Z] = 0%Z /\
  Qeq_bool (w3_force 0) 1 = true /\ Qeq_bool (w3_force 1) 1 = true /\
  Qeq_bool (w3_force 0 + w3_force 1) 0 = false.
Proof. exact w3_refutes. Qed.
Print Assumptions C04_zero_mean_periodic_refuted.

(* ---- T4.  The repeated step of a run boundary adds no sample (stepZeroData off): counts and sums of
   every bin are unchanged, from any state in which a step was already made. *)
Theorem C04_run_boundary :
  forall (c : @abf_cfg R) (s : @abf_state R) (i : @abf_in R),
    c_szd c = false -> i_boundary i = true -> s_started s = true ->
    s_cnt (fst (abf_step Rops c s i)) = s_cnt s /\ s_sum (fst (abf_step Rops c s i)) = s_sum s.
Proof. exact run_boundary_no_sample. Qed.
Print Assumptions C04_run_boundary.

(* ---- non-vacuity *)

(* premises of T1 are satisfiable in the lagged convention: a two-step history with a clean trace *)
Example C04_example_clean_trace :
  let c := @mkCfg R 1 [0%R] [1%R] [2%Z] [false] 2 1 false true false [0%R] false false [false] in
  let h := [@mkIn R [(1/2)%R] [1%R] [0%R] false; @mkIn R [(1/2)%R] [0%R] [0%R] false] in
  wf_cfg c /\ (c_same_step c = false -> Forall (clean_io c) (trace_of Rops c h)) /\ length (trace_of Rops c h) = 2%nat.
Proof. exact example_clean_trace. Qed.

(* T4's premise s_started = true holds after any step *)
Example C04_example_started : forall (c : @abf_cfg R) s i, s_started (fst (abf_step Rops c s i)) = true.
Proof. exact started_after_step. Qed.

(* the witnesses are runs in which the samples are really taken (same counts on both sides) *)
Example C04_example_witness_counts :
  stored_cnt w1_cfg w1_hist [0%Z] = 2%Z /\ spec_cnt w1_cfg w1_hist [0%Z] = 2%Z /\
  stored_cnt w2_cfg w2_hist [1%Z] = 1%Z /\ spec_cnt w2_cfg w2_hist [1%Z] = 1%Z.
Proof. vm_compute. repeat split; reflexivity. Qed.
