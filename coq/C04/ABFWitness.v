(* Concrete runs of the SAME generic model instantiated at exact rational arithmetic (QArith): every
   operation the ABF model uses (+ - * / floor < ==) is exact there, so the values computed here by
   vm_compute are the values of the real-number instance on these inputs (and, the numbers being dyadic,
   of IEEE doubles: check.py replays the same scenarios on the C++ at every run).
   E1, E3, E4 are the minimal inputs on which the tree BEFORE the fix commits of branch fix-C04 violated
   C04 (they were the witnesses of `_refuted` theorems in the first version of this slice); they now show
   that the premises of the theorems are met by runs in which samples are really taken. *)
From Coq Require Import ZArith QArith Qround List Bool.
From CV Require Import Base.Num C04.ABFModel.
Import ListNotations.
Local Open Scope Q_scope.

Definition Qltb (a b : Q) : bool := negb (Qle_bool b a).
Definition Qops : NumOps Q :=
  mkNumOps Q 0 1 Qplus Qminus Qmult Qdiv Qopp
           (fun x => x) (fun x => x) (fun x => x) (fun x => x) (fun x => x) (fun x => x)   (* sqrt .. acos: unused by the ABF model *)
           (fun x _ => x) (fun x _ => x)                                                     (* atan2, pow: unused *)
           inject_Z Qfloor Qltb Qle_bool Qeq_bool.

(* one variable, bins [lower, lower+1) and [lower+1, lower+2), fullSamples 2, minSamples 1, updateBias on *)
Definition cfg1 (lower : Q) (periodic same sub hidej other : bool) : @abf_cfg Q :=
  @mkCfg Q 1%nat [lower] [1] [2%Z] [periodic] 2 1 true false [0] false same [sub] hidej [other] false (fun _ => 1).
(* [inp] with applyBias on, [inp0] with applyBias off at that step *)
Definition inpa (a : bool) (x e o j : Q) (boundary : bool) : @abf_in Q := @mkIn Q [x] [e] [o] [j] boundary a [0].
Definition inp := inpa true.
Definition inp0 := inpa false.

(* E1: subtractAppliedForce, lagged forces.  Step 0: value 1/2, engine force -1, a restraint applies +1:
   the measured total force is exactly 0.  The sample recorded at step 1 for bin [0] is (-1 + 1) - 1 = -1;
   step 1 (engine force 2) gives the sample 2: stored sum -(-1 + 2) = -1.
   (Before the fix `if (ft.norm2() > 0.0) ft -= f_old` recorded 0 for the first one: stored sum -2.) *)
Definition e1_cfg := cfg1 0 false false true false true.
Definition e1_hist := [inp0 (1#2) (-(1)) 1 0 false; inp0 (1#2) (2#1) 1 0 false; inp0 (1#2) (2#1) 1 0 false].

(* E2: the ABF force itself cancels the engine force.  minSamples 0 / fullSamples 1, applyBias on,
   subtractAppliedForce, lagged.  Steps 0,1: engine force 2 -> at step 2 the bin holds one sample 2 and the
   ABF force is -2; the engine force of step 2 is +2: measured total force exactly 0, sample 0 - (-2) = 2. *)
Definition e2_cfg : @abf_cfg Q := @mkCfg Q 1%nat [0] [1] [2%Z] [false] 1 0 true false [0] false false [true] false [false] false (fun _ => 1).
Definition e2_hist := [inp (1#2) (2#1) 0 0 false; inp (1#2) (2#1) 0 0 false; inp (1#2) (2#1) 0 0 false; inp (1#2) (2#1) 0 0 false].

(* E3: one periodic variable, 2 bins, minSamples 1, fullSamples 2, same-step forces; one sample of force 2
   in bin [0] (count = minSamples: ramp 0, the other bin is empty): no force in either bin.
   (Before the fix the average of the unramped means was subtracted: +1 in both bins.) *)
Definition e3_cfg := cfg1 0 true true false false false.
Definition e3_hist := [inp (1#2) 0 0 0 false; inp (1#2) (2#1) 0 0 false].
Definition force_in (c : @abf_cfg Q) (h : list (@abf_in Q)) (b : Z) : Q :=
  let s := fst (abf_run Qops c h) in
  vget Qops (calc_biasing_force Qops c (s_cnt s) (s_sum s) [b]) 0.

(* E3b: the same grid during the ramp, fullSamples 4, minSamples 0: 4 samples (2, 2, 4, 4) in bin [0]
   (full: estimate -3), 2 samples of force 1 in bin [1] (ramp 1/2: ramped estimate -1/2); the average of the
   ramped estimates is -7/4: forces -5/4 and +5/4, non-zero and opposite *)
Definition e3b_cfg : @abf_cfg Q := @mkCfg Q 1%nat [0] [1] [2%Z] [true] 4 0 true false [0] false true [false] false [false] false (fun _ => 1).
Definition e3b_hist := [inp (1#2) 0 0 0 false; inp (1#2) (2#1) 0 0 false; inp (1#2) (2#1) 0 0 false; inp (1#2) (4#1) 0 0 false;
                        inp (1#2) (4#1) 0 0 false; inp (3#2) 1 0 0 false; inp (3#2) 1 0 0 false].

(* E4: hideJacobian with same-step total forces and a variable with Jacobian force 3 (distance: 2kT/r):
   engine force 1: the sample is 1 (the Jacobian term is hidden), and the variable receives the ABF
   force minus the compensation fj.
   (Before the fix `ft += fj` was also done here: sample 4, Jacobian compensated twice.) *)
Definition e4_cfg := cfg1 0 false true false true false.
Definition e4_hist := [inp (1#2) 1 0 (3#1) false; inp (1#2) 1 0 (3#1) false; inp (1#2) 1 0 (3#1) false].
(* and the same history in the lagged convention *)
Definition e4l_cfg := cfg1 0 false false false true false.
Definition e4l_hist := e4_hist ++ [inp (1#2) 1 0 (3#1) false].

(* E6: scaledBiasingForce with the factor 1/2 in every bin, lagged forces, minSamples 0, fullSamples 1,
   engine force 2 at every step: the ABF force is -2, the variable receives -1, the measured force is 1 and
   every sample is 1 - (-1) = 2.  (Before the fix the unscaled -2 was subtracted: samples 2, 3, 13/4.) *)
Definition e6_cfg : @abf_cfg Q :=
  @mkCfg Q 1%nat [0] [1] [2%Z] [false] 1 0 true false [0] false false [false] false [false] true (fun _ => 1#2).
Definition e6_hist := [inp (1#2) (2#1) 0 0 false; inp (1#2) (2#1) 0 0 false; inp (1#2) (2#1) 0 0 false; inp (1#2) (2#1) 0 0 false].

(* E5: hideJacobian, lagged forces, applyBias off and no other bias on the variable (nothing is handed to the
   atoms), Jacobian force 3, engine force 1: the samples are 1.
   (Before the fix colvar::f = -fj was computed and reported but never applied, and fj was still added to the
   measured force: samples 4.) *)
Definition e5_cfg := cfg1 0 false false false true false.
Definition e5_hist := [inp0 (1#2) 1 0 (3#1) false; inp0 (1#2) 1 0 (3#1) false; inp0 (1#2) 1 0 (3#1) false].

(* E7: applyBias switched off and on again at run time (cv bias <name> set apply_force 0|1), lagged forces,
   minSamples 0, fullSamples 1, engine force 2 at every step: every sample is 2 whatever was applied *)
Definition e7_cfg : @abf_cfg Q :=
  @mkCfg Q 1%nat [0] [1] [2%Z] [false] 1 0 true false [0] false false [false] false [false] false (fun _ => 1).
Definition e7_hist := [inp (1#2) (2#1) 0 0 false; inp (1#2) (2#1) 0 0 false; inp0 (1#2) (2#1) 0 0 false;
                       inp0 (1#2) (2#1) 0 0 false; inp (1#2) (2#1) 0 0 false; inp (1#2) (2#1) 0 0 false].

(* W7: hideJacobian, lagged forces, Jacobian force 3, engine force 1, applyBias on at step 0 and switched off
   before step 1: the force measured for step 0 contains the compensation -3, which the variable remembers
   (prev_Jacobian_force_compensated): both samples are 1.
   (Before fix 5b106d10 collect_cvc_total_forces looked at f_cv_apply_force at step 1: sample -2 instead of 1.) *)
Definition w7_cfg := cfg1 0 false false false true false.
Definition w7_hist := [inp (1#2) 1 0 (3#1) false; inp0 (1#2) 1 0 (3#1) false; inp0 (1#2) 1 0 (3#1) false].

Definition stored_sum (c : @abf_cfg Q) (h : list (@abf_in Q)) (b : idx) (k : nat) : Q :=
  vget Qops (s_sum (fst (abf_run Qops c h)) b) k.
Definition spec_sum (c : @abf_cfg Q) (h : list (@abf_in Q)) (b : idx) (k : nat) : Q :=
  - fsum_of Qops k b (attributed Qops c (trace_of Qops c h)).
Definition stored_cnt (c : @abf_cfg Q) (h : list (@abf_in Q)) (b : idx) : Z := s_cnt (fst (abf_run Qops c h)) b.
Definition spec_cnt (c : @abf_cfg Q) (h : list (@abf_in Q)) (b : idx) : Z :=
  cnt_of b (attributed Qops c (trace_of Qops c h)).
Definition last_applied (c : @abf_cfg Q) (h : list (@abf_in Q)) : Q :=
  vget Qops (o_f (last (snd (abf_run Qops c h)) (mkOut [] [] [] [] 0%Z false []))) 0.

Lemma e1_values :
  stored_cnt e1_cfg e1_hist [0%Z] = 2%Z /\ spec_cnt e1_cfg e1_hist [0%Z] = 2%Z /\
  Qeq_bool (stored_sum e1_cfg e1_hist [0%Z] 0) (-(1)) = true /\
  Qeq_bool (spec_sum e1_cfg e1_hist [0%Z] 0) (-(1)) = true.
Proof. vm_compute. repeat split; reflexivity. Qed.

Lemma e2_values :
  stored_cnt e2_cfg e2_hist [0%Z] = 3%Z /\ spec_cnt e2_cfg e2_hist [0%Z] = 3%Z /\
  Qeq_bool (stored_sum e2_cfg e2_hist [0%Z] 0) (-(6#1)) = true /\
  Qeq_bool (spec_sum e2_cfg e2_hist [0%Z] 0) (-(6#1)) = true.
Proof. vm_compute. repeat split; reflexivity. Qed.

Lemma e3_values :
  stored_cnt e3_cfg e3_hist [0%Z] = 1%Z /\ stored_cnt e3_cfg e3_hist [1%Z] = 0%Z /\
  Qeq_bool (force_in e3_cfg e3_hist 0) 0 = true /\ Qeq_bool (force_in e3_cfg e3_hist 1) 0 = true.
Proof. vm_compute. repeat split; reflexivity. Qed.

Lemma e3b_values :
  stored_cnt e3b_cfg e3b_hist [0%Z] = 4%Z /\ stored_cnt e3b_cfg e3b_hist [1%Z] = 2%Z /\
  Qeq_bool (force_in e3b_cfg e3b_hist 0) (-(5#4)) = true /\ Qeq_bool (force_in e3b_cfg e3b_hist 1) (5#4) = true.
Proof. vm_compute. repeat split; reflexivity. Qed.

Lemma e4_values :
  stored_cnt e4_cfg e4_hist [0%Z] = 2%Z /\ Qeq_bool (stored_sum e4_cfg e4_hist [0%Z] 0) (-(2#1)) = true /\
  Qeq_bool (spec_sum e4_cfg e4_hist [0%Z] 0) (-(2#1)) = true /\
  Qeq_bool (last_applied e4_cfg e4_hist) (-(4#1)) = true /\
  stored_cnt e4l_cfg e4l_hist [0%Z] = 3%Z /\ Qeq_bool (stored_sum e4l_cfg e4l_hist [0%Z] 0) (-(3#1)) = true.
Proof. vm_compute. repeat split; reflexivity. Qed.

Lemma e5_values :
  stored_cnt e5_cfg e5_hist [0%Z] = 2%Z /\ spec_cnt e5_cfg e5_hist [0%Z] = 2%Z /\
  Qeq_bool (stored_sum e5_cfg e5_hist [0%Z] 0) (-(2#1)) = true /\
  Qeq_bool (spec_sum e5_cfg e5_hist [0%Z] 0) (-(2#1)) = true /\
  Qeq_bool (last_applied e5_cfg e5_hist) 0 = true.
Proof. vm_compute. repeat split; reflexivity. Qed.

Lemma e7_values :
  stored_cnt e7_cfg e7_hist [0%Z] = 5%Z /\ spec_cnt e7_cfg e7_hist [0%Z] = 5%Z /\
  Qeq_bool (stored_sum e7_cfg e7_hist [0%Z] 0) (-(10#1)) = true /\
  Qeq_bool (spec_sum e7_cfg e7_hist [0%Z] 0) (-(10#1)) = true.
Proof. vm_compute. repeat split; reflexivity. Qed.

Lemma w7_values :
  stored_cnt w7_cfg w7_hist [0%Z] = 2%Z /\ spec_cnt w7_cfg w7_hist [0%Z] = 2%Z /\
  Qeq_bool (stored_sum w7_cfg w7_hist [0%Z] 0) (-(2#1)) = true /\
  Qeq_bool (spec_sum w7_cfg w7_hist [0%Z] 0) (-(2#1)) = true.
Proof. vm_compute. repeat split; reflexivity. Qed.

Lemma e6_values :
  stored_cnt e6_cfg e6_hist [0%Z] = 3%Z /\ spec_cnt e6_cfg e6_hist [0%Z] = 3%Z /\
  Qeq_bool (stored_sum e6_cfg e6_hist [0%Z] 0) (-(6#1)) = true /\
  Qeq_bool (spec_sum e6_cfg e6_hist [0%Z] 0) (-(6#1)) = true /\
  Qeq_bool (last_applied e6_cfg e6_hist) (-(1)) = true.
Proof. vm_compute. repeat split; reflexivity. Qed.
