(* Counterexamples to the full (unconditional) statements of C04, computed with the SAME generic
   model instantiated at exact rational arithmetic (QArith): every operation the ABF model uses
   (+ - * / floor < ==) is exact there, and the inputs are small rationals, so each witness is also
   a counterexample for the real-number instance (and, the numbers being dyadic, for IEEE doubles:
   check.py replays each of them on the C++). *)
From Coq Require Import ZArith QArith Qround List Bool.
From CV Require Import Base.Num C04.ABFModel.
Import ListNotations.
Local Open Scope Q_scope.

Definition Qltb (a b : Q) : bool := negb (Qle_bool b a).
Definition Qops : NumOps Q :=
  mkNumOps Q 0 1 Qplus Qminus Qmult Qdiv Qopp
           (fun x => x) (fun x => x) (fun x => x) (fun x => x) (fun x => x) (fun x => x)   (* sqrt .. acos: unused by the ABF model *)
           (fun x _ => x) (fun x _ => x)                                                     (* atan2, pow: unused *)
           inject_Z Qfloor Qltb Qle_bool Qeq_bool.

Definition cfg1 (lower : Q) (periodic : bool) (apply : bool) (same : bool) (sub : bool) : @abf_cfg Q :=
  @mkCfg Q 1%nat [lower] [1] [2%Z] [periodic] 2 1 apply true false [0] false same [sub].

(* W1: subtractAppliedForce, lagged forces.  Step 0: value 1/2, engine force -1, a restraint applies +1:
   the measured total force is exactly 0 and colvar.cpp skips `ft -= f_old`: the sample recorded at
   step 1 for bin [0] is 0 instead of (-1 + 1) - 1 = -1.  Step 1 (engine force 2) gives the sample 2.
   Stored sum -(0 + 2) = -2; minus the attributed samples is -(-1 + 2) = -1.
   (Same scenario as witness_zero_total() in props/C04/check.py.) *)
Definition w1_cfg := cfg1 0 false false false true.
Definition w1_hist : list (@abf_in Q) :=
  [@mkIn Q [1#2] [-(1)] [1] false; @mkIn Q [1#2] [2#1] [1] false; @mkIn Q [1#2] [2#1] [1] false].

(* W2: lagged forces, value exactly 0 at step 0 while a restraint applies +1 and the engine force is 1:
   colvar::communicate_forces drops the applied force (integer_power(0,0) = 0), the engine measures 1,
   the sample recorded for bin [1] is 1; the attributed sample is (1 + 1) - 0 = 2. *)
Definition w2_cfg := cfg1 (-(1)) false false false false.
Definition w2_hist : list (@abf_in Q) := [@mkIn Q [0] [1] [1] false; @mkIn Q [1#2] [0] [1#2] false].

(* W3: one periodic variable, 2 bins, minSamples 1, fullSamples 2, same-step forces; one sample of
   force 2 in bin [0].  The force that calc_biasing_force gives is 1 in bin [0] (below the ramp) and 1
   in bin [1] (no sample at all): not zero-mean, and non-zero where the documented ramp is zero. *)
Definition w3_cfg := cfg1 0 true true true false.
Definition w3_hist : list (@abf_in Q) := [@mkIn Q [1#2] [0] [0] false; @mkIn Q [1#2] [2#1] [0] false].
Definition w3_force (b : Z) : Q :=
  let s := fst (abf_run Qops w3_cfg w3_hist) in
  vget Qops (calc_biasing_force Qops w3_cfg (s_cnt s) (s_sum s) [b]) 0.

Definition stored_sum (c : @abf_cfg Q) (h : list (@abf_in Q)) (b : idx) (k : nat) : Q :=
  vget Qops (s_sum (fst (abf_run Qops c h)) b) k.
Definition spec_sum (c : @abf_cfg Q) (h : list (@abf_in Q)) (b : idx) (k : nat) : Q :=
  - fsum_of Qops k b (attributed Qops c (trace_of Qops c h)).
Definition stored_cnt (c : @abf_cfg Q) (h : list (@abf_in Q)) (b : idx) : Z := s_cnt (fst (abf_run Qops c h)) b.
Definition spec_cnt (c : @abf_cfg Q) (h : list (@abf_in Q)) (b : idx) : Z :=
  cnt_of b (attributed Qops c (trace_of Qops c h)).

Lemma w1_refutes :
  stored_cnt w1_cfg w1_hist [0%Z] = 2%Z /\ spec_cnt w1_cfg w1_hist [0%Z] = 2%Z /\
  Qeq_bool (stored_sum w1_cfg w1_hist [0%Z] 0) (-(2#1)) = true /\
  Qeq_bool (spec_sum w1_cfg w1_hist [0%Z] 0) (-(1)) = true.
Proof. vm_compute. repeat split; reflexivity. Qed.

Lemma w2_refutes :
  stored_cnt w2_cfg w2_hist [1%Z] = 1%Z /\ spec_cnt w2_cfg w2_hist [1%Z] = 1%Z /\
  Qeq_bool (stored_sum w2_cfg w2_hist [1%Z] 0) (-(1)) = true /\
  Qeq_bool (spec_sum w2_cfg w2_hist [1%Z] 0) (-(2#1)) = true.
Proof. vm_compute. repeat split; reflexivity. Qed.

Lemma w3_refutes :
  stored_cnt w3_cfg w3_hist [0%Z] = 1%Z /\ stored_cnt w3_cfg w3_hist [1%Z] = 0%Z /\
  Qeq_bool (w3_force 0) 1 = true /\ Qeq_bool (w3_force 1) 1 = true /\
  Qeq_bool (w3_force 0 + w3_force 1) 0 = false.
Proof. vm_compute. repeat split; reflexivity. Qed.
