(* Proofs about the ABF model (C04/ABFModel.v) at the real-number instance. *)
From Coq Require Import ZArith List Bool Reals Lra Lia Psatz.
From CV Require Import Base.Num Base.RNum C04.ABFModel.
Import ListNotations.
Local Open Scope R_scope.

(* ---------------------------------------------------------------- small facts *)

Lemma vget_vbuild (n : nat) (f : nat -> R) (k : nat) : (k < n)%nat -> vget Rops (vbuild n f) k = f k.
Proof.
  intros Hk. unfold vget, vbuild.
  rewrite nth_indep with (d' := f 0%nat) by (rewrite map_length, seq_length; exact Hk).
  rewrite map_nth. rewrite seq_nth by exact Hk. reflexivity.
Qed.

Lemma vget_vzero (n k : nat) : vget Rops (vzero Rops n) k = 0.
Proof.
  destruct (lt_dec k n) as [Hk|Hk].
  - unfold vzero. rewrite vget_vbuild by exact Hk. reflexivity.
  - unfold vget, vzero, vbuild. rewrite nth_overflow; [reflexivity|].
    rewrite map_length, seq_length. lia.
Qed.

Lemma idx_eqb_sym (a b : idx) : idx_eqb a b = idx_eqb b a.
Proof.
  revert b. induction a as [|x a IH]; intros [|y b]; cbn [idx_eqb]; try reflexivity.
  rewrite Z.eqb_sym, IH. reflexivity.
Qed.

Lemma idx_eqb_eq (a b : idx) : idx_eqb a b = true <-> a = b.
Proof.
  revert b. induction a as [|x a IH]; intros [|y b]; cbn [idx_eqb]; split; intros H; try reflexivity; try discriminate.
  - apply andb_true_iff in H. destruct H as [H1 H2]. apply Z.eqb_eq in H1. apply IH in H2. subst. reflexivity.
  - inversion H; subst. apply andb_true_iff. split; [apply Z.eqb_refl | apply IH; reflexivity].
Qed.

Lemma Rltb_sq_pos (t : R) : t <> 0 -> Rltb 0 (t * t) = true.
Proof. intros H. apply Rltb_true. nra. Qed.

Lemma Rltb_sq_zero (t : R) : t = 0 -> Rltb 0 (t * t) = false.
Proof. intros H. apply Rltb_false. subst. lra. Qed.

Lemma Reqb_false (a b : R) : a <> b -> Reqb' a b = false.
Proof. intros H. unfold Reqb'. destruct (Req_EM_T a b) as [E|E]; [contradiction|reflexivity]. Qed.

(* ---------------------------------------------------------------- sums over attributed samples *)

Local Notation rsum := (gsum Rops).

Lemma rsum_app (a b : list R) : rsum (a ++ b) = rsum a + rsum b.
Proof. induction a as [|x a IH]; cbn [gsum app nadd n0 Rops]; [lra | rewrite IH; lra]. Qed.

Local Notation cnt_of := (@cnt_of R).
Local Notation fsum_of := (fsum_of Rops).

Lemma samples_in_app (b : idx) (S1 S2 : list (idx * @vec R)) :
  samples_in b (S1 ++ S2) = samples_in b S1 ++ samples_in b S2.
Proof. unfold samples_in. rewrite filter_app, map_app. reflexivity. Qed.

Lemma cnt_of_app b (S1 S2 : list (idx * @vec R)) : cnt_of b (S1 ++ S2) = (cnt_of b S1 + cnt_of b S2)%Z.
Proof. unfold cnt_of. rewrite samples_in_app, app_length. lia. Qed.

Lemma fsum_of_app k b (S1 S2 : list (idx * @vec R)) : fsum_of k b (S1 ++ S2) = fsum_of k b S1 + fsum_of k b S2.
Proof. unfold fsum_of. rewrite samples_in_app, map_app, rsum_app. reflexivity. Qed.

Lemma attributed_of_app c (d1 d2 : list (@delivery R)) :
  attributed_of c (d1 ++ d2) = attributed_of c d1 ++ attributed_of c d2.
Proof. unfold attributed_of. rewrite filter_app, map_app. reflexivity. Qed.

Lemma attributed_of_one c (bn : idx) (F : @vec R) (clk : Z * bool) :
  attributed_of c [(bn, F, clk)] = if eligible c clk && index_ok c bn then [(bn, F)] else [].
Proof.
  unfold attributed_of. cbn [filter map fst snd].
  destruct (eligible c clk && index_ok c bn); reflexivity.
Qed.

Lemma cnt_of_one b bn (F : @vec R) : cnt_of b [(bn, F)] = if idx_eqb b bn then 1%Z else 0%Z.
Proof.
  unfold cnt_of, samples_in. cbn [filter map fst]. rewrite (idx_eqb_sym bn b).
  destruct (idx_eqb b bn); reflexivity.
Qed.

Lemma fsum_of_one k b bn (F : @vec R) : fsum_of k b [(bn, F)] = if idx_eqb b bn then vget Rops F k else 0.
Proof.
  unfold fsum_of, samples_in. cbn [filter map fst]. rewrite (idx_eqb_sym bn b).
  destruct (idx_eqb b bn); cbn [map snd gsum nadd n0 Rops]; lra.
Qed.

(* ---------------------------------------------------------------- lagged convention: the invariant *)

(* what the state remembers of the previous step p (lagged convention): the bin of p, the force the
   engine measured at p (its own force + everything Colvars applied), the ABF force of p, f_old of the
   variables with subtractAppliedForce, and the Jacobian force of p *)
Definition link (c : @abf_cfg R) (s : @abf_state R) (p : @abf_in R * @abf_out R) : Prop :=
  s_tfok s = true /\
  s_started s = true /\
  s_fbin s = bins Rops c (i_x (fst p)) /\
  (forall k, (k < c_nd c)%nat ->
     vget Rops (s_eng s) k = if cvapply c (fst p) k then vget Rops (i_e (fst p)) k + vget Rops (o_f (snd p)) k
                             else vget Rops (i_e (fst p)) k) /\
  (forall k, (k < c_nd c)%nat -> vget Rops (s_fprev s) k = vget Rops (o_fapp (snd p)) k) /\
  (forall k, (k < c_nd c)%nat -> bget (c_subtract c) k = true -> vget Rops (s_fold s) k = vget Rops (o_f (snd p)) k) /\
  (forall k, (k < c_nd c)%nat -> vget Rops (s_fj s) k = vget Rops (i_j (fst p)) k) /\
  (forall k, (k < c_nd c)%nat -> bget (s_japp s) k = c_hidej c && cvapply c (fst p) k) /\
  (* a variable to which no bias applies a force: the ABF force is 0, and so is colvar::f *)
  (forall k, (k < c_nd c)%nat -> cvapply c (fst p) k = false ->
     vget Rops (o_fapp (snd p)) k = 0 /\ vget Rops (o_f (snd p)) k = 0).

Lemma bget_map_seq (f : nat -> bool) (n k : nat) : (k < n)%nat -> bget (map f (seq 0 n)) k = f k.
Proof.
  intros Hk. unfold bget. rewrite nth_indep with (d' := f 0%nat) by (rewrite map_length, seq_length; exact Hk).
  rewrite map_nth. rewrite seq_nth by exact Hk. reflexivity.
Qed.

Lemma link_step c s i : link c (fst (abf_step Rops c s i)) (i, snd (abf_step Rops c s i)).
Proof.
  unfold abf_step, link. cbn [fst snd s_started s_fbin s_eng s_fprev s_fold s_fj s_japp s_tfok o_f o_fapp].
  split; [reflexivity|]. split; [reflexivity|]. split; [reflexivity|]. split; [|split; [|split; [|split; [|split]]]].
  - intros k Hk. unfold st_eng. rewrite vget_vbuild by exact Hk. cbn [fst]. destruct (cvapply c i k); reflexivity.
  - intros k Hk. reflexivity.
  - intros k Hk Hs. unfold st_fold. rewrite vget_vbuild by exact Hk. rewrite Hs. reflexivity.
  - intros k Hk. unfold st_fj. rewrite vget_vbuild by exact Hk. reflexivity.
  - intros k Hk. unfold st_japp. rewrite bget_map_seq by exact Hk. reflexivity.
  - intros k Hk Hcv. cbn [fst] in Hcv. pose proof Hcv as Hcv'.
    unfold cvapply in Hcv. apply orb_false_iff in Hcv. destruct Hcv as [Ha Ho].
    assert (Hf : vget Rops (st_fapp Rops c s i) k = 0).
    { unfold st_fapp. rewrite vget_vbuild by exact Hk. unfold st_fabf. rewrite Ha. cbn [andb].
      rewrite vget_vzero. cbn [nmul Rops]. lra. }
    split; [exact Hf|]. unfold st_f. rewrite vget_vbuild by exact Hk.
    rewrite Hcv', andb_false_r, Hf. unfold oeff, weff. rewrite Ho. cbn [nadd n0 Rops]. lra.
Qed.

(* ---------------------------------------------------------------- one step, lagged convention *)

Lemma sysf_lag c s i p k :
  c_same_step c = false -> c_update c = true -> (0 <? fst (st_clk s i))%Z = true ->
  link c s p -> (k < c_nd c)%nat ->
  vget Rops (st_sysf Rops c s i) k = vget Rops (sample_force Rops c p) k.
Proof.
  intros Hsame Hupd Hrel (Htf & Hst & Hfb & Heng & Hfapp & Hfold & Hfj & Hjapp & Hnoapp) Hk.
  unfold st_sysf. rewrite vget_vbuild by exact Hk.
  unfold st_ft. rewrite Hsame. rewrite vget_vbuild by exact Hk.
  unfold st_ft0. rewrite vget_vbuild by exact Hk.
  rewrite Hupd, Hsame, Hrel, Htf. cbn [orb andb]. rewrite (Heng k Hk), (Hfj k Hk).
  unfold sample_force. rewrite vget_vbuild by exact Hk.
  unfold measured, own, jac, addj. rewrite Hsame. rewrite (Hjapp k Hk).
  destruct (c_hidej c) eqn:Hh; destruct (cvapply c (fst p) k) eqn:Hcv;
    try (destruct (Hnoapp k Hk Hcv) as [Hf0 Hof]);
    destruct (bget (c_subtract c) k) eqn:Hs;
    cbn [andb orb negb nsub nadd n0 Rops];
    try rewrite (Hfold k Hk Hs); try rewrite (Hfapp k Hk); lra.
Qed.

Lemma doacc_lag c s i p :
  c_same_step c = false -> c_szd c = false -> link c s p ->
  st_doacc Rops c s i = eligible c (st_clk s i) && index_ok c (bins Rops c (i_x (fst p))).
Proof.
  intros Hsame Hszd (Htf & Hst & Hfb & _).
  unfold st_doacc, st_fbin, eligible. rewrite Hsame, Hszd, Hfb, Htf.
  destruct (0 <? fst (st_clk s i))%Z; destruct (snd (st_clk s i)); destruct (c_update c);
    destruct (index_ok c (bins Rops c (i_x (fst p)))); reflexivity.
Qed.

Lemma step_lag c s i p b :
  c_same_step c = false -> c_szd c = false -> link c s p ->
  let s1 := fst (abf_step Rops c s i) in
  let o := snd (abf_step Rops c s i) in
  let A := attributed_of c [(bins Rops c (i_x (fst p)), sample_force Rops c p, (o_rel o, o_cont o))] in
  s_cnt s1 b = (s_cnt s b + cnt_of b A)%Z /\
  forall k, (k < c_nd c)%nat -> vget Rops (s_sum s1 b) k = vget Rops (s_sum s b) k - fsum_of k b A.
Proof.
  intros Hsame Hszd Hl. cbn zeta.
  unfold abf_step. cbn [fst snd s_cnt s_sum o_rel o_cont].
  rewrite attributed_of_one. rewrite <- surjective_pairing.
  unfold st_cnt, st_sum. rewrite (doacc_lag c s i p Hsame Hszd Hl).
  destruct (eligible c (st_clk s i) && index_ok c (bins Rops c (i_x (fst p)))) eqn:E.
  - assert (Hfb : st_fbin Rops c s i = bins Rops c (i_x (fst p))).
    { unfold st_fbin. rewrite Hsame. destruct Hl as (_ & _ & Hfb & _). exact Hfb. }
    rewrite Hfb. rewrite cnt_of_one. split.
    + destruct (idx_eqb b (bins Rops c (i_x (fst p)))); lia.
    + intros k Hk. rewrite fsum_of_one.
      destruct (idx_eqb b (bins Rops c (i_x (fst p)))).
      * rewrite vget_vbuild by exact Hk. cbn [nsub Rops].
        apply andb_true_iff in E. destruct E as [E1 _]. unfold eligible in E1.
        apply andb_true_iff in E1. destruct E1 as [Hupd E2]. rewrite Hszd in E2.
        rewrite orb_false_r in E2. apply andb_true_iff in E2. destruct E2 as [Hrel _].
        rewrite (sysf_lag c s i p k Hsame Hupd Hrel Hl Hk). reflexivity.
      * lra.
  - split; [unfold cnt_of; cbn; lia | intros k Hk; unfold fsum_of; cbn; lra].
Qed.

Lemma run_lag c : c_same_step c = false -> c_szd c = false ->
  forall h s p, link c s p ->
    forall b,
      let r := abf_run_from Rops c s h in
      let A := attributed_of c (deliveries_lag Rops c (Some p) (combine h (snd r))) in
      s_cnt (fst r) b = (s_cnt s b + cnt_of b A)%Z /\
      forall k, (k < c_nd c)%nat -> vget Rops (s_sum (fst r) b) k = vget Rops (s_sum s b) k - fsum_of k b A.
Proof.
  intros Hsame Hszd h. induction h as [|i h IH]; intros s p Hl b; cbn zeta.
  - cbn [abf_run_from fst snd combine deliveries_lag]. unfold attributed_of, cnt_of, fsum_of. cbn.
    split; [lia | intros k Hk; lra].
  - cbn [abf_run_from fst snd combine deliveries_lag] in *.
    pose proof (link_step c s i) as Hl1.
    specialize (IH (fst (abf_step Rops c s i)) (i, snd (abf_step Rops c s i)) Hl1 b).
    cbn zeta in IH. destruct IH as [IHc IHs].
    pose proof (step_lag c s i p b Hsame Hszd Hl) as Hstep. cbn zeta in Hstep.
    destruct Hstep as [Sc Ss].
    rewrite attributed_of_app, cnt_of_app. split.
    + rewrite IHc, Sc. lia.
    + intros k Hk. rewrite fsum_of_app. rewrite (IHs k Hk), (Ss k Hk). lra.
Qed.

(* ---------------------------------------------------------------- one step, same-step convention *)

Lemma step_same c s i b :
  c_same_step c = true ->
  let s1 := fst (abf_step Rops c s i) in
  let o := snd (abf_step Rops c s i) in
  let A := attributed_of c [(bins Rops c (i_x i), sample_force Rops c (i, o), (o_rel o, o_cont o))] in
  s_cnt s1 b = (s_cnt s b + cnt_of b A)%Z /\
  forall k, (k < c_nd c)%nat -> vget Rops (s_sum s1 b) k = vget Rops (s_sum s b) k - fsum_of k b A.
Proof.
  intros Hsame. cbn zeta. unfold abf_step. cbn [fst snd s_cnt s_sum o_rel o_cont].
  rewrite attributed_of_one. rewrite <- surjective_pairing.
  unfold st_cnt, st_sum.
  assert (Hd : st_doacc Rops c s i = eligible c (st_clk s i) && index_ok c (bins Rops c (i_x i))).
  { unfold st_doacc, st_fbin, st_bin, eligible. rewrite Hsame.
    destruct (0 <? fst (st_clk s i))%Z; destruct (snd (st_clk s i)); destruct (c_update c); destruct (c_szd c);
      destruct (index_ok c (bins Rops c (i_x i))); reflexivity. }
  rewrite Hd.
  destruct (eligible c (st_clk s i) && index_ok c (bins Rops c (i_x i))) eqn:E.
  - assert (Hfb : st_fbin Rops c s i = bins Rops c (i_x i)).
    { unfold st_fbin, st_bin. rewrite Hsame. reflexivity. }
    rewrite Hfb. rewrite cnt_of_one. split.
    + destruct (idx_eqb b (bins Rops c (i_x i))); lia.
    + intros k Hk. rewrite fsum_of_one.
      destruct (idx_eqb b (bins Rops c (i_x i))).
      * rewrite vget_vbuild by exact Hk. cbn [nsub Rops].
        apply andb_true_iff in E. destruct E as [E1 _]. unfold eligible in E1.
        apply andb_true_iff in E1. destruct E1 as [Hupd _].
        assert (Hsf : vget Rops (st_sysf Rops c s i) k = vget Rops (sample_force Rops c (i, mkOut (st_bin Rops c i) (st_fabf Rops c s i) (st_fapp Rops c s i) (st_f Rops c s i) (fst (st_clk s i)) (snd (st_clk s i)) (st_ft Rops c s i))) k).
        { unfold st_sysf. rewrite vget_vbuild by exact Hk. rewrite Hsame, orb_true_r.
          unfold st_ft. rewrite Hsame. unfold st_ft0. rewrite vget_vbuild by exact Hk.
          rewrite Hupd, Hsame. cbn [orb].
          unfold sample_force. rewrite vget_vbuild by exact Hk. unfold measured, own, jac, addj. rewrite Hsame.
          rewrite orb_true_r, andb_true_r.
          destruct (c_hidej c); cbn [negb fst nsub nadd n0 Rops]; lra. }
        rewrite Hsf. reflexivity.
      * lra.
  - split; [unfold cnt_of; cbn; lia | intros k Hk; unfold fsum_of; cbn; lra].
Qed.

Lemma run_same c : c_same_step c = true ->
  forall h s b,
    let r := abf_run_from Rops c s h in
    let A := attributed_of c (deliveries_same Rops c (combine h (snd r))) in
    s_cnt (fst r) b = (s_cnt s b + cnt_of b A)%Z /\
    forall k, (k < c_nd c)%nat -> vget Rops (s_sum (fst r) b) k = vget Rops (s_sum s b) k - fsum_of k b A.
Proof.
  intros Hsame h. induction h as [|i h IH]; intros s b; cbn zeta.
  - cbn [abf_run_from fst snd combine deliveries_same map]. unfold attributed_of, cnt_of, fsum_of. cbn.
    split; [lia | intros k Hk; lra].
  - cbn [abf_run_from fst snd combine deliveries_same map].
    specialize (IH (fst (abf_step Rops c s i)) b). cbn zeta in IH. destruct IH as [IHc IHs].
    pose proof (step_same c s i b Hsame) as Hstep. cbn zeta in Hstep. destruct Hstep as [Sc Ss].
    change (?x :: map ?f ?l) with ([x] ++ map f l).
    rewrite attributed_of_app, cnt_of_app. split.
    + unfold deliveries_same in IHc. rewrite IHc, Sc. lia.
    + intros k Hk. rewrite fsum_of_app. unfold deliveries_same in IHs. rewrite (IHs k Hk), (Ss k Hk). lra.
Qed.

(* ---------------------------------------------------------------- T1 *)

(* stepZeroData is only available with same-step total forces (colvarbias_abf::init:
   provide(f_cvb_step_zero_data, false) otherwise; the configuration is then rejected) *)
Definition wf_cfg (c : @abf_cfg R) : Prop := c_szd c = true -> c_same_step c = true.

Local Notation trace_of := (trace_of Rops).
Local Notation trace_from := (trace_from Rops).

(* a state in which the bias has not been updated yet: the freshly initialised bias, with or without data read
   through inputPrefix or a state file, at the start of the run (no step made) or defined while the simulation is
   running (force_bin still outside of the grid) *)
Definition fresh (c : @abf_cfg R) (s : @abf_state R) : Prop :=
  (s_started s = false /\ s_rel s = 0%Z) \/ index_ok c (s_fbin s) = false \/ s_tfok s = false.

Lemma first_step_lag c s i :
  fresh c s -> c_szd c = false -> c_same_step c = false -> st_doacc Rops c s i = false.
Proof.
  intros [[Hst Hrel]|[Hfb|Htf]] Hszd Hsame.
  - unfold st_doacc, st_clk, clock. rewrite Hst, Hrel. cbn [fst snd]. rewrite Hszd. cbn. reflexivity.
  - unfold st_doacc, st_fbin. rewrite Hsame, Hfb. apply andb_false_r.
  - unfold st_doacc. rewrite Hsame, Htf. cbn [orb]. rewrite andb_false_r. reflexivity.
Qed.


(* from ANY fresh state s0: what the history adds to the grids of s0 *)
Theorem run_from_fresh (c : @abf_cfg R) (s0 : @abf_state R) (h : list (@abf_in R)) (b : idx) :
  wf_cfg c -> fresh c s0 ->
  let r := abf_run_from Rops c s0 h in
  let S := attributed Rops c (trace_from c s0 h) in
  s_cnt (fst r) b = (s_cnt s0 b + cnt_of b S)%Z /\
  forall k, (k < c_nd c)%nat -> vget Rops (s_sum (fst r) b) k = vget Rops (s_sum s0 b) k - fsum_of k b S.
Proof.
  intros Hwf Hfresh. cbn zeta. unfold attributed, deliveries, ABFModel.trace_from.
  destruct (c_same_step c) eqn:Hsame.
  - pose proof (run_same c Hsame h s0 b) as H. cbn zeta in H. exact H.
  - assert (Hszd : c_szd c = false).
    { destruct (c_szd c) eqn:E; [|reflexivity]. unfold wf_cfg in Hwf. specialize (Hwf E). congruence. }
    destruct h as [|i0 h].
    + cbn [abf_run_from fst snd combine deliveries_lag]. unfold attributed_of. cbn [filter map].
      unfold cnt_of, fsum_of, samples_in. cbn [filter map length gsum n0 Rops].
      split; [lia | intros k Hk; lra].
    + cbn [abf_run_from fst snd combine deliveries_lag app] in *.
      pose proof (link_step c s0 i0) as Hl.
      pose proof (run_lag c Hsame Hszd h _ _ Hl b) as H. cbn zeta in H. destruct H as [Hc Hs].
      assert (Hc0 : s_cnt (fst (abf_step Rops c s0 i0)) b = s_cnt s0 b).
      { unfold abf_step. cbn [fst s_cnt]. unfold st_cnt. rewrite first_step_lag by assumption. reflexivity. }
      assert (Hs0 : s_sum (fst (abf_step Rops c s0 i0)) b = s_sum s0 b).
      { unfold abf_step. cbn [fst s_sum]. unfold st_sum. rewrite first_step_lag by assumption. reflexivity. }
      split.
      * rewrite Hc, Hc0. reflexivity.
      * intros k Hk. rewrite (Hs k Hk), Hs0. reflexivity.
Qed.

Lemma fresh_init c : fresh c (abf_init Rops c).
Proof. left. split; reflexivity. Qed.
Lemma fresh_add_data c s d : fresh c s -> fresh c (abf_add_data Rops c s d).
Proof. intros H. exact H. Qed.
Lemma fresh_fold c l : forall s, fresh c s -> fresh c (fold_left (abf_add_data Rops c) l s).
Proof. induction l as [|d l IH]; intros s H; cbn [fold_left]; [exact H | apply IH, fresh_add_data, H]. Qed.
Lemma fresh_init_data c l : fresh c (abf_init_data Rops c l).
Proof. unfold abf_init_data. apply fresh_fold, fresh_init. Qed.

(* what the data sets contain: the summed counts, and the summed gradient * count *)
Fixpoint data_cnt (l : list (@dataset R)) (b : idx) : Z :=
  match l with [] => 0%Z | d :: r => (fst d b + data_cnt r b)%Z end.
Fixpoint data_sum (l : list (@dataset R)) (b : idx) (k : nat) : R :=
  match l with [] => 0 | d :: r => vget Rops (snd d b) k * IZR (fst d b) + data_sum r b k end.

Lemma fold_data_grids c l : forall s b,
  s_cnt (fold_left (abf_add_data Rops c) l s) b = (s_cnt s b + data_cnt l b)%Z /\
  forall k, (k < c_nd c)%nat ->
    vget Rops (s_sum (fold_left (abf_add_data Rops c) l s) b) k = vget Rops (s_sum s b) k + data_sum l b k.
Proof.
  induction l as [|d l IH]; intros s b; cbn [fold_left data_cnt data_sum].
  - split; [lia | intros k Hk; lra].
  - destruct (IH (abf_add_data Rops c s d) b) as [Hc Hs]. split.
    + rewrite Hc. unfold abf_add_data. cbn [s_cnt]. lia.
    + intros k Hk. rewrite (Hs k Hk). unfold abf_add_data. cbn [s_sum]. rewrite vget_vbuild by exact Hk.
      cbn [nadd nmul nofZ Rops]. lra.
Qed.

Theorem abf_state_is_sample_sum (c : @abf_cfg R) (h : list (@abf_in R)) (b : idx) :
  wf_cfg c ->
  s_cnt (fst (abf_run Rops c h)) b = cnt_of b (attributed Rops c (trace_of c h)) /\
  forall k, (k < c_nd c)%nat ->
    vget Rops (s_sum (fst (abf_run Rops c h)) b) k = - fsum_of k b (attributed Rops c (trace_of c h)).
Proof.
  intros Hwf.
  pose proof (run_from_fresh c (abf_init Rops c) h b Hwf (fresh_init c)) as H. cbn zeta in H.
  destruct H as [Hc Hs]. unfold abf_run, ABFModel.trace_of. split.
  - rewrite Hc. unfold abf_init. cbn [s_cnt]. lia.
  - intros k Hk. rewrite (Hs k Hk). unfold abf_init. cbn [s_sum]. rewrite vget_vzero. lra.
Qed.

(* inputPrefix: the grids after a history started from data read from files are that data plus the samples
   of the history: count = counts read + number, sum = sum of gradient read * count read - sum of the forces *)
Theorem abf_state_with_input_data (c : @abf_cfg R) (l : list (@dataset R))
        (h : list (@abf_in R)) (b : idx) :
  wf_cfg c ->
  let s0 := abf_init_data Rops c l in
  let r := abf_run_data Rops c l h in
  let S := attributed Rops c (trace_from c s0 h) in
  s_cnt (fst r) b = (data_cnt l b + cnt_of b S)%Z /\
  forall k, (k < c_nd c)%nat ->
    vget Rops (s_sum (fst r) b) k = data_sum l b k - fsum_of k b S.
Proof.
  intros Hwf. cbn zeta.
  pose proof (run_from_fresh c (abf_init_data Rops c l) h b Hwf (fresh_init_data c l)) as H.
  cbn zeta in H. destruct H as [Hc Hs]. unfold abf_run_data.
  destruct (fold_data_grids c l (abf_init Rops c) b) as [Dc Ds]. fold (abf_init_data Rops c l) in Dc, Ds. split.
  - rewrite Hc, Dc. unfold abf_init. cbn [s_cnt]. lia.
  - intros k Hk. rewrite (Hs k Hk), (Ds k Hk). unfold abf_init. cbn [s_sum]. rewrite vget_vzero. lra.
Qed.

(* ---------------------------------------------------------------- whole-vector form *)

Lemma vbuild_length (n : nat) (f : nat -> R) : length (vbuild n f) = n.
Proof. unfold vbuild. rewrite map_length, seq_length. reflexivity. Qed.

Lemma vec_ext (n : nat) (u v : list R) :
  length u = n -> length v = n -> (forall k, (k < n)%nat -> vget Rops u k = vget Rops v k) -> u = v.
Proof.
  intros Hu Hv H. apply nth_ext with (d := 0) (d' := 0); [congruence|].
  intros k Hk. apply H. lia.
Qed.

Lemma sum_length_step c s i : (forall b, length (s_sum s b) = c_nd c) ->
  forall b, length (st_sum Rops c s i b) = c_nd c.
Proof.
  intros H b. unfold st_sum. destruct (st_doacc Rops c s i); [|apply H].
  destruct (idx_eqb b (st_fbin Rops c s i)); [apply vbuild_length | apply H].
Qed.

Lemma sum_length_run c h : forall s, (forall b, length (s_sum s b) = c_nd c) ->
  forall b, length (s_sum (fst (abf_run_from Rops c s h)) b) = c_nd c.
Proof.
  induction h as [|i h IH]; intros s H b; cbn [abf_run_from fst snd]; [apply H|].
  apply IH. unfold abf_step. cbn [fst s_sum]. apply sum_length_step. exact H.
Qed.

Theorem abf_sum_vector (c : @abf_cfg R) (h : list (@abf_in R)) (b : idx) :
  wf_cfg c ->
  s_sum (fst (abf_run Rops c h)) b
  = vbuild (c_nd c) (fun k => - fsum_of k b (attributed Rops c (ABFModel.trace_of Rops c h))).
Proof.
  intros Hwf. apply vec_ext with (n := c_nd c).
  - unfold abf_run. apply sum_length_run. intros b'. unfold abf_init. cbn [s_sum]. apply vbuild_length.
  - apply vbuild_length.
  - intros k Hk. rewrite vget_vbuild by exact Hk.
    destruct (abf_state_is_sample_sum c h b Hwf) as [_ Hs]. apply Hs. exact Hk.
Qed.

(* ---------------------------------------------------------------- the stored gradient is minus the mean *)

(* arithmetic mean of the k-th force component of the attributed samples of bin b *)
Definition mean_force (S : list (idx * @vec R)) (b : idx) (k : nat) : R :=
  fsum_of k b S / IZR (cnt_of b S).

Lemma cnt_of_nonneg b (S : list (idx * @vec R)) : (0 <= cnt_of b S)%Z.
Proof. unfold cnt_of. lia. Qed.

(* [grad_out] is colvar_grid_gradient::value_output, what the state file and the .grad file contain *)
Theorem stored_gradient_is_minus_mean (c : @abf_cfg R) (h : list (@abf_in R)) (b : idx) (k : nat) :
  wf_cfg c -> (k < c_nd c)%nat ->
  let s := fst (abf_run Rops c h) in
  let S := attributed Rops c (ABFModel.trace_of Rops c h) in
  s_cnt s b = cnt_of b S /\
  ((0 < cnt_of b S)%Z -> grad_out Rops (s_cnt s) (s_sum s) b k = - mean_force S b k) /\
  (cnt_of b S = 0%Z -> grad_out Rops (s_cnt s) (s_sum s) b k = 0).
Proof.
  intros Hwf Hk. cbn zeta.
  destruct (abf_state_is_sample_sum c h b Hwf) as [Hc Hs].
  split; [exact Hc|]. unfold grad_out, mean_force. cbn [n0 n1 ndiv nmul nofZ Rops].
  rewrite Hc, (Hs k Hk). split.
  - intros Hpos. destruct (0 <? cnt_of b (attributed Rops c (ABFModel.trace_of Rops c h)))%Z eqn:E;
      [|apply Z.ltb_ge in E; lia].
    assert (0 < IZR (cnt_of b (attributed Rops c (ABFModel.trace_of Rops c h)))) by (apply IZR_lt; exact Hpos).
    field. lra.
  - intros Hz. rewrite Hz. cbn [Z.ltb Z.compare]. lra.
Qed.

(* ---------------------------------------------------------------- run boundary *)

(* at a repeated step (run boundary) nothing is accumulated, unless stepZeroData is on *)
Lemma started_after_step c s i : s_started (fst (abf_step Rops c s i)) = true.
Proof. reflexivity. Qed.

Theorem run_boundary_no_sample c s i :
  c_szd c = false -> i_boundary i = true -> s_started s = true ->
  s_cnt (fst (abf_step Rops c s i)) = s_cnt s /\ s_sum (fst (abf_step Rops c s i)) = s_sum s.
Proof.
  intros Hszd Hb Hst. unfold abf_step. cbn [fst s_cnt s_sum].
  assert (Hd : st_doacc Rops c s i = false).
  { unfold st_doacc, st_clk, clock. rewrite Hst, Hb, Hszd.
    cbn [fst snd negb andb orb]. rewrite andb_false_r. reflexivity. }
  unfold st_cnt, st_sum. rewrite Hd. split; reflexivity.
Qed.

Lemma run_from_app c h1 : forall s h2,
  fst (abf_run_from Rops c s (h1 ++ h2)) = fst (abf_run_from Rops c (fst (abf_run_from Rops c s h1)) h2).
Proof.
  induction h1 as [|i h1 IH]; intros s h2; cbn [app abf_run_from fst snd]; [reflexivity|]. apply IH.
Qed.

Lemma run_snoc c h i :
  fst (abf_run Rops c (h ++ [i])) = fst (abf_step Rops c (fst (abf_run Rops c h)) i).
Proof. unfold abf_run. rewrite run_from_app. cbn [abf_run_from fst snd]. reflexivity. Qed.

Lemma started_after_run c h : forall s, (h <> [] \/ s_started s = true) ->
  s_started (fst (abf_run_from Rops c s h)) = true.
Proof.
  induction h as [|i h IH]; intros s H; cbn [abf_run_from fst snd].
  - destruct H as [H|H]; [contradiction H; reflexivity | exact H].
  - apply IH. right. reflexivity.
Qed.

(* phrased on histories: appending the repeated step of a run boundary to any non-empty history
   changes no count and no sum *)
Theorem run_boundary_history c h i :
  c_szd c = false -> i_boundary i = true -> h <> [] ->
  s_cnt (fst (abf_run Rops c (h ++ [i]))) = s_cnt (fst (abf_run Rops c h)) /\
  s_sum (fst (abf_run Rops c (h ++ [i]))) = s_sum (fst (abf_run Rops c h)).
Proof.
  intros Hszd Hb Hne. rewrite run_snoc. apply run_boundary_no_sample; try assumption.
  unfold abf_run. apply started_after_run. left. exact Hne.
Qed.

(* ---------------------------------------------------------------- applied force *)

(* the stored estimate of the free-energy gradient in bin b: sum / count (minus the mean force) *)
Definition mean_grad (cnt : idx -> Z) (sum : idx -> @vec R) (b : idx) (k : nat) : R :=
  if (0 <? cnt b)%Z then vget Rops (sum b) k / IZR (cnt b) else 0.

(* the documented ramp alpha(N): 0 below minSamples, 1 above fullSamples, linear in between *)
Definition ramp (c : @abf_cfg R) (N : Z) : R :=
  if (N <? c_min c)%Z then 0
  else if (N <? c_full c)%Z then (IZR N - IZR (c_min c)) / (IZR (c_full c) - IZR (c_min c))
  else 1.

Definition clip (m f : R) : R := Rmax (- m) (Rmin m f).

(* the ramped estimate of bin b *)
Definition ramped (c : @abf_cfg R) (cnt : idx -> Z) (sum : idx -> @vec R) (b : idx) (k : nat) : R :=
  ramp c (cnt b) * mean_grad cnt sum b k.

(* average over the bins of a one-dimensional grid of the ramped estimates *)
Definition avg_ramped (c : @abf_cfg R) (cnt : idx -> Z) (sum : idx -> @vec R) : R :=
  rsum (map (fun i => ramped c cnt sum [i] 0) (zrange (zget (c_nx c) 0))) / IZR (zget (c_nx c) 0).

Definition spec_force (c : @abf_cfg R) (a : bool) (cnt : idx -> Z) (sum : idx -> @vec R) (b : idx) (k : nat) : R :=
  if a && index_ok c b then
    let f := ramped c cnt sum b k
             - (if Nat.eqb (c_nd c) 1 && bget (c_periodic c) 0 then avg_ramped c cnt sum else 0) in
    if c_cap c then clip (vget Rops (c_maxf c) k) f else f
  else 0.

Lemma siw_ramp c w S : (0 <= c_min c < c_full c)%Z -> (0 <= w)%Z ->
  smooth_inverse_weight Rops c w * S = ramp c w * (if (0 <? w)%Z then S / IZR w else 0).
Proof.
  intros [Hm Hf] Hw. unfold smooth_inverse_weight, ramp. cbn [n0 n1 ndiv nsub nmul nofZ Rops].
  destruct (w <=? c_min c)%Z eqn:E1.
  - apply Z.leb_le in E1. destruct (w <? c_min c)%Z eqn:E2; [lra|].
    apply Z.ltb_ge in E2. assert (w = c_min c) by lia. subst w.
    destruct (c_min c <? c_full c)%Z eqn:E3; [|apply Z.ltb_ge in E3; lia].
    unfold Rdiv. lra.
  - apply Z.leb_gt in E1. destruct (w <? c_min c)%Z eqn:E2; [apply Z.ltb_lt in E2; lia|].
    assert (Hw0 : (0 < w)%Z) by lia. destruct (0 <? w)%Z eqn:E4; [|apply Z.ltb_ge in E4; lia].
    assert (HwR : 0 < IZR w) by (apply IZR_lt; exact Hw0).
    destruct (w <? c_full c)%Z eqn:E3.
    + rewrite minus_IZR. assert (IZR (c_min c) < IZR (c_full c)) by (apply IZR_lt; lia). field. lra.
    + field. lra.
Qed.

Lemma siw_ramped c (cnt : idx -> Z) (sum : idx -> @vec R) b k :
  (0 <= c_min c < c_full c)%Z -> (0 <= cnt b)%Z ->
  smooth_inverse_weight Rops c (cnt b) * vget Rops (sum b) k = ramped c cnt sum b k.
Proof. intros Hmf Hc. rewrite (siw_ramp c (cnt b) _ Hmf Hc). reflexivity. Qed.

Lemma fold_left_add (g : Z -> R) (l : list Z) (a : R) :
  fold_left (fun acc i => acc + g i) l a = a + rsum (map g l).
Proof.
  revert a. induction l as [|x l IH]; intros a; cbn [fold_left map gsum nadd n0 Rops]; [lra|].
  rewrite IH. lra.
Qed.

Lemma average_avg c cnt sum : (0 <= c_min c < c_full c)%Z -> (forall b, 0 <= cnt b)%Z ->
  average Rops c cnt sum = avg_ramped c cnt sum.
Proof.
  intros Hmf Hcnt. unfold average, avg_ramped. cbn [n0 ndiv nadd nmul nofZ Rops].
  destruct (zget (c_nx c) 0 =? 0)%Z eqn:E.
  - apply Z.eqb_eq in E. rewrite E. unfold zrange. cbn [Z.to_nat seq map gsum n0 Rops]. unfold Rdiv. lra.
  - rewrite (fold_left_add (fun i => smooth_inverse_weight Rops c (cnt [i]) * vget Rops (sum [i]) 0)).
    rewrite Rplus_0_l. f_equal. f_equal. apply map_ext. intros i. apply siw_ramped; [exact Hmf | apply Hcnt].
Qed.

Lemma cap1_clip m f : 0 <= m -> cap1 Rops m f = clip m f.
Proof.
  intros Hm. unfold cap1, clip. cbn [n0 n1 nmul nneg nltb Rops].
  unfold Rmax, Rmin.
  destruct (Rltb (m * m) (f * f)) eqn:E1.
  - apply Rltb_true in E1. destruct (Rltb 0 f) eqn:E2.
    + apply Rltb_true in E2. destruct (Rle_dec m f) as [H1|H1]; [|nra].
      destruct (Rle_dec (- m) m); lra.
    + apply Rltb_false in E2. destruct (Rle_dec m f) as [H1|H1]; [nra|].
      destruct (Rle_dec (- m) f) as [H2|H2]; [nra|lra].
  - apply Rltb_false in E1. destruct (Rle_dec m f) as [H1|H1].
    + assert (f = m) by nra. subst. destruct (Rle_dec (- m) m); lra.
    + destruct (Rle_dec (- f) m) as [H3|H3].
      * destruct (Rle_dec (- m) f); lra.
      * nra.
Qed.

Theorem applied_force_spec c a cnt sum b k :
  (k < c_nd c)%nat -> (0 <= c_min c < c_full c)%Z -> (forall b', 0 <= cnt b')%Z ->
  (c_cap c = true -> 0 <= vget Rops (c_maxf c) k) ->
  vget Rops (if a && index_ok c b then calc_biasing_force Rops c cnt sum b else vzero Rops (c_nd c)) k
  = spec_force c a cnt sum b k.
Proof.
  intros Hk Hmf Hcnt Hcap. unfold spec_force.
  destruct (a && index_ok c b); [|apply vget_vzero].
  unfold calc_biasing_force. cbv zeta.
  assert (H0 : vget Rops (vbuild (c_nd c) (fun k0 => nmul Rops (smooth_inverse_weight Rops c (cnt b)) (vget Rops (sum b) k0))) k
               = ramped c cnt sum b k).
  { rewrite vget_vbuild by exact Hk. cbn [nmul Rops]. apply siw_ramped; [exact Hmf | apply Hcnt]. }
  destruct (Nat.eqb (c_nd c) 1 && bget (c_periodic c) 0).
  - destruct (c_cap c).
    + rewrite vget_vbuild by exact Hk. rewrite vget_vbuild by exact Hk. rewrite H0.
      cbn [nsub Rops]. rewrite (average_avg c cnt sum Hmf Hcnt). apply cap1_clip. apply Hcap. reflexivity.
    + rewrite vget_vbuild by exact Hk. rewrite H0. cbn [nsub Rops]. rewrite (average_avg c cnt sum Hmf Hcnt). reflexivity.
  - destruct (c_cap c).
    + rewrite vget_vbuild by exact Hk. rewrite H0. rewrite Rminus_0_r. apply cap1_clip. apply Hcap. reflexivity.
    + rewrite H0. lra.
Qed.

(* counts never become negative *)
Lemma cnt_nonneg_step c s i : (forall b, 0 <= s_cnt s b)%Z -> forall b, (0 <= st_cnt Rops c s i b)%Z.
Proof.
  intros H b. unfold st_cnt. destruct (st_doacc Rops c s i); [|apply H].
  destruct (idx_eqb b (st_fbin Rops c s i)); specialize (H b); lia.
Qed.

Lemma cnt_nonneg_run c h : forall s, (forall b, 0 <= s_cnt s b)%Z ->
  forall b, (0 <= s_cnt (fst (abf_run_from Rops c s h)) b)%Z.
Proof.
  induction h as [|i h IH]; intros s H b; cbn [abf_run_from fst snd]; [apply H|].
  apply IH. unfold abf_step. cbn [fst s_cnt]. apply cnt_nonneg_step. exact H.
Qed.

(* The force handed to the variables at the step that follows any history *)
Theorem applied_force_after_history c h i k :
  (k < c_nd c)%nat -> (0 <= c_min c < c_full c)%Z -> (c_cap c = true -> 0 <= vget Rops (c_maxf c) k) ->
  let s := fst (abf_run Rops c h) in
  let s1 := fst (abf_step Rops c s i) in
  vget Rops (o_fabf (snd (abf_step Rops c s i))) k = spec_force c (i_apply i) (s_cnt s1) (s_sum s1) (bins Rops c (i_x i)) k.
Proof.
  intros Hk Hmf Hcap. cbn zeta. unfold abf_step. cbn [fst snd o_fabf s_cnt s_sum].
  unfold st_fabf, st_bin. apply applied_force_spec; try assumption.
  apply cnt_nonneg_step. unfold abf_run. apply cnt_nonneg_run. intros b. unfold abf_init. cbn [s_cnt]. lia.
Qed.

(* ---- the applied force written directly on the attributed samples of the history (T1 + T2) *)

(* minus the ramped mean force of the samples of bin b *)
Definition ramped_neg_mean (c : @abf_cfg R) (S : list (idx * @vec R)) (b : idx) (k : nat) : R :=
  ramp c (cnt_of b S) * (if (0 <? cnt_of b S)%Z then - mean_force S b k else 0).

Definition spec_force_samples (c : @abf_cfg R) (a : bool) (S : list (idx * @vec R)) (b : idx) (k : nat) : R :=
  if a && index_ok c b then
    let f := ramped_neg_mean c S b k
             - (if Nat.eqb (c_nd c) 1 && bget (c_periodic c) 0
                then rsum (map (fun i => ramped_neg_mean c S [i] 0) (zrange (zget (c_nx c) 0))) / IZR (zget (c_nx c) 0)
                else 0) in
    if c_cap c then clip (vget Rops (c_maxf c) k) f else f
  else 0.

Lemma ramped_of_samples c (cnt : idx -> Z) (sum : idx -> @vec R) S b k :
  cnt b = cnt_of b S -> vget Rops (sum b) k = - fsum_of k b S ->
  ramped c cnt sum b k = ramped_neg_mean c S b k.
Proof.
  intros Hc Hs. unfold ramped, ramped_neg_mean, mean_grad, mean_force. rewrite Hc, Hs.
  destruct (0 <? cnt_of b S)%Z eqn:E; [|reflexivity].
  apply Z.ltb_lt in E. assert (0 < IZR (cnt_of b S)) by (apply IZR_lt; exact E).
  f_equal. field. lra.
Qed.

Lemma spec_force_of_samples c a (cnt : idx -> Z) (sum : idx -> @vec R) S b k :
  (k < c_nd c)%nat ->
  (forall b', cnt b' = cnt_of b' S) ->
  (forall b' k', (k' < c_nd c)%nat -> vget Rops (sum b') k' = - fsum_of k' b' S) ->
  spec_force c a cnt sum b k = spec_force_samples c a S b k.
Proof.
  intros Hk Hc Hs. unfold spec_force, spec_force_samples.
  destruct (a && index_ok c b); [|reflexivity]. cbv zeta.
  rewrite (ramped_of_samples c cnt sum S b k (Hc b) (Hs b k Hk)).
  destruct (Nat.eqb (c_nd c) 1 && bget (c_periodic c) 0) eqn:E; [|reflexivity].
  apply andb_true_iff in E. destruct E as [End _]. apply Nat.eqb_eq in End.
  assert (H0 : (0 < c_nd c)%nat) by lia.
  unfold avg_ramped.
  rewrite (map_ext (fun i => ramped c cnt sum [i] 0) (fun i => ramped_neg_mean c S [i] 0))
    by (intros i; apply ramped_of_samples; [apply Hc | apply Hs; exact H0]).
  reflexivity.
Qed.

(* After ANY history h followed by a step i: the ABF force of that step, in terms of the attributed
   samples of the whole history h ++ [i] *)
Theorem applied_force_is_smoothed_negative_mean c h i k :
  wf_cfg c -> (k < c_nd c)%nat -> (0 <= c_min c < c_full c)%Z ->
  (c_cap c = true -> 0 <= vget Rops (c_maxf c) k) ->
  vget Rops (o_fabf (snd (abf_step Rops c (fst (abf_run Rops c h)) i))) k
  = spec_force_samples c (i_apply i) (attributed Rops c (ABFModel.trace_of Rops c (h ++ [i]))) (bins Rops c (i_x i)) k.
Proof.
  intros Hwf Hk Hmf Hcap.
  pose proof (applied_force_after_history c h i k Hk Hmf Hcap) as H. cbn zeta in H. rewrite H.
  rewrite <- run_snoc.
  apply spec_force_of_samples; [exact Hk | |].
  - intros b'. apply (abf_state_is_sample_sum c (h ++ [i]) b' Hwf).
  - intros b' k' Hk'. apply (abf_state_is_sample_sum c (h ++ [i]) b' Hwf). exact Hk'.
Qed.

(* the force the bias hands to the variable is that force times the factor of the scaling grid at the
   current bin (scaledBiasingForce), 1 when the option is off *)
Theorem applied_force_scaled c s i k :
  (k < c_nd c)%nat ->
  vget Rops (o_fapp (snd (abf_step Rops c s i))) k
  = vget Rops (o_fabf (snd (abf_step Rops c s i))) k * sfac Rops c (bins Rops c (i_x i)).
Proof.
  intros Hk. unfold abf_step. cbn [snd o_fapp o_fabf]. unfold st_fapp. rewrite vget_vbuild by exact Hk. reflexivity.
Qed.

Lemma sfac_unscaled c b : c_scaled c = false -> sfac Rops c b = 1.
Proof. intros H. unfold sfac. rewrite H. reflexivity. Qed.

(* outside the grid, or with applyBias off, the ABF force is zero *)
Theorem no_force_outside c s i k :
  i_apply i && index_ok c (bins Rops c (i_x i)) = false ->
  vget Rops (o_fabf (snd (abf_step Rops c s i))) k = 0.
Proof.
  intros H. unfold abf_step. cbn [snd o_fabf]. unfold st_fabf, st_bin. rewrite H. apply vget_vzero.
Qed.

(* ---------------------------------------------------------------- zero mean, 1-D periodic *)

Lemma rsum_map_minus (g : Z -> R) (a : R) (l : list Z) :
  rsum (map (fun i => g i - a) l) = rsum (map g l) - INR (length l) * a.
Proof.
  induction l as [|x l IH]; [cbn [map gsum length INR n0 Rops]; lra|].
  cbn [map gsum nadd Rops]. rewrite IH. change (length (x :: l)) with (S (length l)). rewrite S_INR. lra.
Qed.

Lemma zrange_in n i : In i (zrange n) -> (0 <= i < n)%Z.
Proof.
  unfold zrange. intros H. apply in_map_iff in H. destruct H as (j & Hj & Hin).
  apply in_seq in Hin. lia.
Qed.

(* for every content of the grid (any counts, any sums): no hypothesis on the sampling *)
Theorem zero_mean_periodic c cnt sum :
  c_nd c = 1%nat -> bget (c_periodic c) 0 = true -> c_cap c = false ->
  rsum (map (fun i => spec_force c true cnt sum [i] 0) (zrange (zget (c_nx c) 0))) = 0.
Proof.
  intros Hnd Hper Hcap.
  set (n := zget (c_nx c) 0) in *.
  assert (Hterm : forall i, In i (zrange n) ->
            spec_force c true cnt sum [i] 0 = ramped c cnt sum [i] 0 - avg_ramped c cnt sum).
  { intros i Hi. apply zrange_in in Hi. unfold spec_force. rewrite Hcap, Hnd, Hper.
    assert (Hok : index_ok c [i] = true).
    { unfold index_ok. rewrite Hnd. cbn [seq forallb]. unfold zget at 1 2. cbn [nth]. fold n.
      rewrite andb_true_r. apply andb_true_iff. split; [apply Z.leb_le | apply Z.ltb_lt]; lia. }
    rewrite Hok. cbn [andb Nat.eqb]. reflexivity. }
  rewrite (map_ext_in _ _ _ Hterm). rewrite rsum_map_minus.
  unfold avg_ramped. fold n. unfold zrange at 2. rewrite map_length, seq_length.
  destruct (Z_le_gt_dec n 0) as [Hn|Hn].
  - unfold zrange. replace (Z.to_nat n) with 0%nat by lia. cbn [seq map gsum INR n0 Rops]. lra.
  - rewrite INR_IZR_INZ. rewrite Z2Nat.id by lia. assert (0 < IZR n) by (apply IZR_lt; lia). field. lra.
Qed.

(* the same on the attributed samples of a history: the forces that the bias would apply in the bins of
   the period, as determined by ANY list of samples, sum to zero *)
Theorem zero_mean_periodic_samples c (S : list (idx * @vec R)) :
  c_nd c = 1%nat -> bget (c_periodic c) 0 = true -> c_cap c = false ->
  rsum (map (fun i => spec_force_samples c true S [i] 0) (zrange (zget (c_nx c) 0))) = 0.
Proof.
  intros Hnd Hper Hcap.
  set (cnt := fun b : idx => cnt_of b S).
  set (sum := fun b : idx => vbuild (c_nd c) (fun k => - fsum_of k b S)).
  rewrite <- (zero_mean_periodic c cnt sum Hnd Hper Hcap).
  f_equal. apply map_ext. intros i. symmetry. apply spec_force_of_samples.
  - lia.
  - intros b'. reflexivity.
  - intros b' k' Hk'. unfold sum. rewrite vget_vbuild by exact Hk'. reflexivity.
Qed.

(* while no bin has more than minSamples samples no force at all is applied, in any bin
   (before the fix of calc_biasing_force the periodic case subtracted the average of the unramped means) *)
Lemma rsum_map_zero (g : Z -> R) (l : list Z) : (forall i, g i = 0) -> rsum (map g l) = 0.
Proof.
  intros H. induction l as [|x l IH]; cbn [map gsum nadd n0 Rops]; [reflexivity|]. rewrite H, IH. lra.
Qed.

Lemma clip_zero m : 0 <= m -> clip m 0 = 0.
Proof.
  intros Hm. unfold clip, Rmax, Rmin.
  destruct (Rle_dec m 0) as [H1|H1].
  - destruct (Rle_dec (- m) m); lra.
  - destruct (Rle_dec (- m) 0); lra.
Qed.

Theorem no_force_below_min c a cnt sum b k :
  (0 <= c_min c < c_full c)%Z -> (c_cap c = true -> 0 <= vget Rops (c_maxf c) k) ->
  (forall b', (0 <= cnt b' <= c_min c)%Z) ->
  spec_force c a cnt sum b k = 0.
Proof.
  intros Hmf Hcap Hall. unfold spec_force.
  assert (Hr : forall b' k', ramped c cnt sum b' k' = 0).
  { intros b' k'. unfold ramped, ramp. destruct (Hall b') as [H0 Hm].
    destruct (cnt b' <? c_min c)%Z eqn:E1; [lra|].
    apply Z.ltb_ge in E1. assert (Heq : cnt b' = c_min c) by lia.
    destruct (cnt b' <? c_full c)%Z eqn:E2; [|apply Z.ltb_ge in E2; lia].
    rewrite Heq. unfold Rdiv. replace (IZR (c_min c) - IZR (c_min c)) with 0 by lra. lra. }
  destruct (a && index_ok c b); [|reflexivity]. cbv zeta.
  rewrite Hr.
  assert (Ha : avg_ramped c cnt sum = 0).
  { unfold avg_ramped. rewrite rsum_map_zero by (intros i; apply Hr). unfold Rdiv. lra. }
  rewrite Ha.
  assert (Hz : 0 - (if Nat.eqb (c_nd c) 1 && bget (c_periodic c) 0 then 0 else 0) = 0)
    by (destruct (Nat.eqb (c_nd c) 1 && bget (c_periodic c) 0); lra).
  rewrite Hz. destruct (c_cap c); [|reflexivity]. apply clip_zero. apply Hcap. reflexivity.
Qed.

(* ---------------------------------------------------------------- non-vacuity *)
(* wf_cfg holds for a lagged configuration with hideJacobian; the history switches applyBias off at its second step *)
Lemma example_wf_lagged :
  let c := @mkCfg R 1 [0%R] [1%R] [2%Z] [false] 2 1 true false [0%R] false false [false] true [false] true (fun _ => (1/2)%R) in
  let h := [@mkIn R [(1/2)%R] [1%R] [0%R] [3%R] false true [0%R]; @mkIn R [(1/2)%R] [0%R] [0%R] [3%R] false false [0%R]] in
  wf_cfg c /\ c_hidej c = true /\ c_same_step c = false /\ length (ABFModel.trace_of Rops c h) = 2%nat.
Proof.
  cbn zeta. split; [|split; [|split]]; try reflexivity.
  unfold wf_cfg. cbn [c_szd]. intros H. discriminate H.
Qed.

(* ---------------------------------------------------------------- state files: restart and reload events *)

Definition event_ok (ev : @abf_event R) : Prop :=
  match ev with
  | EvStep _ => True
  | EvRestart d => forall b, (0 <= fst d b)%Z
  | EvReload d => forall b, (0 <= fst d b)%Z
  end.

Lemma cnt_nonneg_event c s ev : event_ok ev -> (forall b, 0 <= s_cnt s b)%Z ->
  forall b, (0 <= s_cnt (abf_event_apply Rops c s ev) b)%Z.
Proof.
  intros Hok H b. destruct ev as [i|d|d]; cbn [abf_event_apply].
  - unfold abf_step. cbn [fst s_cnt]. apply cnt_nonneg_step. exact H.
  - unfold abf_set_grids. cbn [s_cnt]. apply Hok.
  - unfold abf_set_grids. cbn [s_cnt]. apply Hok.
Qed.

Lemma cnt_nonneg_events c evs : Forall event_ok evs -> forall s, (forall b, 0 <= s_cnt s b)%Z ->
  forall b, (0 <= s_cnt (fold_left (abf_event_apply Rops c) evs s) b)%Z.
Proof.
  induction evs as [|ev evs IH]; intros Hok s H b; cbn [fold_left]; [apply H|].
  inversion Hok as [|x l Hx Hl]; subst. apply IH; [exact Hl|]. apply cnt_nonneg_event; assumption.
Qed.

(* After ANY sequence of steps, restarts from a state file and reloads of a state file, the ABF force of the next
   step is spec_force of the CURRENT grids (those after this step's accumulation), of the current bin and of the
   configuration: it depends on the past only through the grids.  (A cached quantity that is not refreshed when
   the grids are read from a file breaks exactly this.) *)
Theorem applied_force_function_of_grids c evs i k :
  Forall event_ok evs ->
  (k < c_nd c)%nat -> (0 <= c_min c < c_full c)%Z -> (c_cap c = true -> 0 <= vget Rops (c_maxf c) k) ->
  let s := abf_run_events Rops c evs in
  let s1 := fst (abf_step Rops c s i) in
  vget Rops (o_fabf (snd (abf_step Rops c s i))) k
  = spec_force c (i_apply i) (s_cnt s1) (s_sum s1) (bins Rops c (i_x i)) k.
Proof.
  intros Hok Hk Hmf Hcap. cbn zeta. unfold abf_step. cbn [fst snd o_fabf s_cnt s_sum].
  unfold st_fabf, st_bin. apply applied_force_spec; try assumption.
  apply cnt_nonneg_step. unfold abf_run_events. apply cnt_nonneg_events; [exact Hok|].
  intros b. unfold abf_init. cbn [s_cnt]. lia.
Qed.

(* two pasts that end with the same grids give the same force *)
Corollary same_grids_same_force c evs1 evs2 i k :
  Forall event_ok evs1 -> Forall event_ok evs2 ->
  (k < c_nd c)%nat -> (0 <= c_min c < c_full c)%Z -> (c_cap c = true -> 0 <= vget Rops (c_maxf c) k) ->
  let s1 := fst (abf_step Rops c (abf_run_events Rops c evs1) i) in
  let s2 := fst (abf_step Rops c (abf_run_events Rops c evs2) i) in
  s_cnt s1 = s_cnt s2 -> s_sum s1 = s_sum s2 ->
  vget Rops (o_fabf (snd (abf_step Rops c (abf_run_events Rops c evs1) i))) k
  = vget Rops (o_fabf (snd (abf_step Rops c (abf_run_events Rops c evs2) i))) k.
Proof.
  intros H1 H2 Hk Hmf Hcap. cbn zeta. intros Ec Es.
  pose proof (applied_force_function_of_grids c evs1 i k H1 Hk Hmf Hcap) as F1.
  pose proof (applied_force_function_of_grids c evs2 i k H2 Hk Hmf Hcap) as F2.
  cbn zeta in F1, F2. rewrite F1, F2, Ec, Es. reflexivity.
Qed.

(* T1 after a restart: whatever happened before, the grids after a restart from the data set d followed by the
   steps h are d plus the samples attributed in h *)
Lemma fresh_set_grids c d : fresh c (abf_set_grids Rops c (abf_init Rops c) d 0).
Proof. left. split; reflexivity. Qed.

Lemma run_events_app c evs1 evs2 :
  abf_run_events Rops c (evs1 ++ evs2) = fold_left (abf_event_apply Rops c) evs2 (abf_run_events Rops c evs1).
Proof. unfold abf_run_events. apply fold_left_app. Qed.

Lemma run_events_steps c h : forall s,
  fold_left (abf_event_apply Rops c) (map (@EvStep R) h) s = fst (abf_run_from Rops c s h).
Proof.
  induction h as [|i h IH]; intros s; cbn [map fold_left abf_run_from fst snd abf_event_apply]; [reflexivity|]. apply IH.
Qed.

Theorem abf_state_after_restart c evs d h b :
  wf_cfg c ->
  let s0 := abf_set_grids Rops c (abf_init Rops c) d 0 in
  let s := abf_run_events Rops c (evs ++ [EvRestart d] ++ map (@EvStep R) h) in
  let S := attributed Rops c (ABFModel.trace_from Rops c s0 h) in
  s_cnt s b = (fst d b + cnt_of b S)%Z /\
  forall k, (k < c_nd c)%nat -> vget Rops (s_sum s b) k = vget Rops (snd d b) k * IZR (fst d b) - fsum_of k b S.
Proof.
  intros Hwf. cbn zeta.
  rewrite run_events_app. rewrite fold_left_app. cbn [fold_left abf_event_apply]. rewrite run_events_steps.
  pose proof (run_from_fresh c (abf_set_grids Rops c (abf_init Rops c) d 0) h b Hwf (fresh_set_grids c d)) as H.
  cbn zeta in H. destruct H as [Hc Hs]. split.
  - rewrite Hc. reflexivity.
  - intros k Hk. rewrite (Hs k Hk). unfold abf_set_grids. cbn [s_sum]. rewrite vget_vbuild by exact Hk. reflexivity.
Qed.

Lemma example_event_ok : Forall event_ok [EvStep (@mkIn R [(1/2)%R] [1%R] [0%R] [0%R] false true [0%R]);
                                          EvRestart ((fun _ => 2%Z), (fun _ => [1%R]));
                                          EvReload ((fun _ => 0%Z), (fun _ => [0%R]))].
Proof. repeat constructor; intros b; cbn [fst]; lia. Qed.


(* ---------------------------------------------------------------- the bias defined while the simulation is running *)

Lemma index_ok_minus1 (c : @abf_cfg R) : (0 < c_nd c)%nat -> index_ok c (repeat (-1)%Z (c_nd c)) = false.
Proof.
  intros H. unfold index_ok. destruct (c_nd c) as [|n]; [lia|].
  cbn [seq forallb repeat]. unfold zget at 1. cbn [nth]. reflexivity.
Qed.

Lemma fresh_init_late (c : @abf_cfg R) rel : (0 < c_nd c)%nat -> fresh c (abf_init_late Rops c rel).
Proof. intros H. right. left. unfold abf_init_late. cbn [s_fbin]. apply index_ok_minus1. exact H. Qed.

(* T1 for a bias defined after the engine has made steps (the last one with step_relative = rel): the grids are
   the samples attributed in its own history; nothing of what happened before it existed enters a bin *)
Theorem abf_state_late_definition c rel h b :
  wf_cfg c -> (0 < c_nd c)%nat ->
  let s0 := abf_init_late Rops c rel in
  let r := abf_run_from Rops c s0 h in
  let S := attributed Rops c (ABFModel.trace_from Rops c s0 h) in
  s_cnt (fst r) b = cnt_of b S /\
  forall k, (k < c_nd c)%nat -> vget Rops (s_sum (fst r) b) k = - fsum_of k b S.
Proof.
  intros Hwf Hnd. cbn zeta.
  pose proof (run_from_fresh c (abf_init_late Rops c rel) h b Hwf (fresh_init_late c rel Hnd)) as H.
  cbn zeta in H. destruct H as [H1 H2]. split.
  - rewrite H1. unfold abf_init_late. cbn [s_cnt]. lia.
  - intros k Hk. rewrite (H2 k Hk). unfold abf_init_late. cbn [s_sum]. rewrite vget_vzero. lra.
Qed.

(* ---------------------------------------------------------------- T1 across a reload into the running instance *)

Lemma fresh_reload c s d : fresh c (abf_set_grids Rops c s d 0).
Proof. right. right. reflexivity. Qed.

(* The state file is loaded into the instance that is running, in ANY state s: the grids become the data set d and
   from then on receive the samples attributed in the steps h made after the load, exactly as after a restart into a
   new instance: in the lagged convention the force exerted at the last step before the load belongs to the replaced
   history and is dropped (the variables do not collect a total force at the first step after a state was read). *)
Theorem abf_state_after_reload c s d h b :
  wf_cfg c ->
  let s' := abf_set_grids Rops c s d 0 in
  let r := abf_run_from Rops c s' h in
  let S := attributed Rops c (ABFModel.trace_from Rops c s' h) in
  s_cnt (fst r) b = (fst d b + cnt_of b S)%Z /\
  forall k, (k < c_nd c)%nat -> vget Rops (s_sum (fst r) b) k = vget Rops (snd d b) k * IZR (fst d b) - fsum_of k b S.
Proof.
  intros Hwf. cbn zeta.
  pose proof (run_from_fresh c (abf_set_grids Rops c s d 0) h b Hwf (fresh_reload c s d)) as H. cbn zeta in H.
  destruct H as [Hc Hs]. split.
  - rewrite Hc. reflexivity.
  - intros k Hk. rewrite (Hs k Hk). unfold abf_set_grids. cbn [s_sum]. rewrite vget_vbuild by exact Hk. reflexivity.
Qed.

(* and no sample at all is taken at the first step after the load, in the lagged convention *)
Theorem no_sample_right_after_reload c s d i :
  c_same_step c = false ->
  s_cnt (fst (abf_step Rops c (abf_set_grids Rops c s d 0) i)) = fst d.
Proof.
  intros Hsame. unfold abf_step. cbn [fst s_cnt]. unfold st_cnt.
  assert (Hd : st_doacc Rops c (abf_set_grids Rops c s d 0) i = false).
  { unfold st_doacc. rewrite Hsame. unfold abf_set_grids at 3. cbn [s_tfok orb]. rewrite andb_false_r. reflexivity. }
  rewrite Hd. reflexivity.
Qed.

(* ---------------------------------------------------------------- timeStepFactor (same-step total forces) *)

Definition attributed_mts_of (c : @abf_cfg R) (k : Z * Z) (ds : list (@delivery R)) : list (idx * @vec R) :=
  map (fun d => (fst (fst d), snd (fst d)))
      (filter (fun d => awake k (snd d) && eligible c (snd d) && index_ok c (fst (fst d))) ds).

Lemma attributed_mts_of_app c k d1 d2 :
  attributed_mts_of c k (d1 ++ d2) = attributed_mts_of c k d1 ++ attributed_mts_of c k d2.
Proof. unfold attributed_mts_of. rewrite filter_app, map_app. reflexivity. Qed.

Lemma sample_force_same c i o o' : c_same_step c = true ->
  sample_force Rops c (i, o) = sample_force Rops c (i, o').
Proof.
  intros Hsame. unfold sample_force. apply map_ext. intros k. unfold measured, own, jac. rewrite Hsame. reflexivity.
Qed.

Lemma mstep_same c k s i b :
  c_same_step c = true ->
  let so := abf_mstep Rops c k s i in
  let A := attributed_mts_of c k [(bins Rops c (i_x i), sample_force Rops c (i, snd so), (o_rel (snd so), o_cont (snd so)))] in
  s_cnt (fst so) b = (s_cnt s b + cnt_of b A)%Z /\
  forall d, (d < c_nd c)%nat -> vget Rops (s_sum (fst so) b) d = vget Rops (s_sum s b) d - fsum_of d b A.
Proof.
  intros Hsame. cbn zeta. unfold abf_mstep. destruct (awake k (st_clk s i)) eqn:Haw.
  - cbn [fst snd]. pose proof (step_same c s i b Hsame) as H. cbn zeta in H.
    rewrite (sample_force_same c i (mts_out Rops c k i (snd (abf_step Rops c s i))) (snd (abf_step Rops c s i)) Hsame).
    unfold attributed_mts_of. unfold attributed_of in H. cbn [filter map fst snd] in *.
    assert (Hclk : (o_rel (mts_out Rops c k i (snd (abf_step Rops c s i))), o_cont (mts_out Rops c k i (snd (abf_step Rops c s i))))
                   = st_clk s i).
    { unfold mts_out, abf_step. cbn [snd o_rel o_cont]. symmetry. apply surjective_pairing. }
    assert (Hclk2 : (o_rel (snd (abf_step Rops c s i)), o_cont (snd (abf_step Rops c s i))) = st_clk s i).
    { unfold abf_step. cbn [snd o_rel o_cont]. symmetry. apply surjective_pairing. }
    rewrite Hclk, Haw. rewrite Hclk2 in H. cbn [andb]. exact H.
  - unfold abf_sleep. cbn [fst snd s_cnt s_sum o_rel o_cont]. unfold attributed_mts_of. cbn [filter map fst snd].
    rewrite <- surjective_pairing. rewrite Haw. cbn [andb map]. unfold cnt_of, fsum_of. cbn.
    split; [lia | intros d Hd; lra].
Qed.

Lemma run_mts c k : c_same_step c = true ->
  forall h s b,
    let r := abf_mrun_from Rops c k s h in
    let A := attributed_mts_of c k (deliveries_same Rops c (combine h (snd r))) in
    s_cnt (fst r) b = (s_cnt s b + cnt_of b A)%Z /\
    forall d, (d < c_nd c)%nat -> vget Rops (s_sum (fst r) b) d = vget Rops (s_sum s b) d - fsum_of d b A.
Proof.
  intros Hsame h. induction h as [|i h IH]; intros s b; cbn zeta.
  - cbn [abf_mrun_from fst snd combine deliveries_same map]. unfold attributed_mts_of, cnt_of, fsum_of. cbn.
    split; [lia | intros d Hd; lra].
  - cbn [abf_mrun_from fst snd combine deliveries_same map].
    specialize (IH (fst (abf_mstep Rops c k s i)) b). cbn zeta in IH. destruct IH as [IHc IHs].
    pose proof (mstep_same c k s i b Hsame) as Hstep. cbn zeta in Hstep. destruct Hstep as [Sc Ss].
    change (?x :: map ?f ?l) with ([x] ++ map f l).
    rewrite attributed_mts_of_app, cnt_of_app. split.
    + unfold deliveries_same in IHc. rewrite IHc, Sc. lia.
    + intros d Hd. rewrite fsum_of_app. unfold deliveries_same in IHs. rewrite (IHs d Hd), (Ss d Hd). lra.
Qed.

(* T1 with timeStepFactor k (same-step total forces): count and sum of every bin are those of the samples of the
   steps at which the bias is awake *)
Theorem mts_state_is_sample_sum c k h b :
  c_same_step c = true ->
  let r := abf_mrun_from Rops c k (abf_init Rops c) h in
  let S := attributed_mts Rops c k (combine h (snd r)) in
  s_cnt (fst r) b = cnt_of b S /\
  forall d, (d < c_nd c)%nat -> vget Rops (s_sum (fst r) b) d = - fsum_of d b S.
Proof.
  intros Hsame. cbn zeta. pose proof (run_mts c k Hsame h (abf_init Rops c) b) as H. cbn zeta in H.
  destruct H as [Hc Hs]. unfold attributed_mts. fold (attributed_mts_of c k (deliveries_same Rops c (combine h (snd (abf_mrun_from Rops c k (abf_init Rops c) h))))).
  split.
  - rewrite Hc. unfold abf_init. cbn [s_cnt]. lia.
  - intros d Hd. rewrite (Hs d Hd). unfold abf_init. cbn [s_sum]. rewrite vget_vzero. lra.
Qed.

(* T2 with timeStepFactor: at an awake step the ABF force is spec_force of the grids and the variable receives
   k times it (times the scaling factor); at a step at which the bias is asleep nothing is applied *)
Theorem mts_force c k s i d :
  (forall b, 0 <= s_cnt s b)%Z -> (d < c_nd c)%nat -> (0 <= c_min c < c_full c)%Z ->
  (c_cap c = true -> 0 <= vget Rops (c_maxf c) d) ->
  let so := abf_mstep Rops c k s i in
  (awake k (st_clk s i) = true ->
     vget Rops (o_fabf (snd so)) d
       = spec_force c (i_apply i) (s_cnt (fst so)) (s_sum (fst so)) (bins Rops c (i_x i)) d /\
     vget Rops (o_fapp (snd so)) d = IZR (fst k) * vget Rops (o_fabf (snd so)) d * sfac Rops c (bins Rops c (i_x i))) /\
  (awake k (st_clk s i) = false ->
     vget Rops (o_f (snd so)) d = 0 /\ vget Rops (o_fapp (snd so)) d = 0 /\
     s_cnt (fst so) = s_cnt s /\ s_sum (fst so) = s_sum s).
Proof.
  intros Hcnt Hd Hmf Hcap. cbn zeta. unfold abf_mstep. split; intros Haw; rewrite Haw.
  - cbn [fst snd]. split.
    + unfold mts_out. cbn [o_fabf]. unfold abf_step. cbn [fst snd o_fabf s_cnt s_sum].
      unfold st_fabf, st_bin. apply applied_force_spec; try assumption. apply cnt_nonneg_step. exact Hcnt.
    + unfold mts_out. cbn [o_fapp o_fabf]. rewrite vget_vbuild by exact Hd. cbn [nmul nofZ Rops]. reflexivity.
  - unfold abf_sleep. cbn [fst snd o_f o_fapp s_cnt s_sum]. rewrite vget_vzero. repeat split; reflexivity.
Qed.

Lemma cnt_nonneg_mstep c k s i : (forall b, 0 <= s_cnt s b)%Z -> forall b, (0 <= s_cnt (fst (abf_mstep Rops c k s i)) b)%Z.
Proof.
  intros H b. unfold abf_mstep. destruct (awake k (st_clk s i)); cbn [fst].
  - unfold abf_step. cbn [fst s_cnt]. apply cnt_nonneg_step. exact H.
  - unfold abf_sleep. cbn [fst s_cnt]. apply H.
Qed.

(* the bias is awake at step 0 and at every k-th step; with k <= 1 at every step *)
Lemma awake_examples : awake (2, 0)%Z (0%Z, false) = true /\ awake (2, 0)%Z (1%Z, false) = false /\ awake (3, 0)%Z (6%Z, true) = true /\
                       awake (1, 0)%Z (5%Z, false) = true /\
                       (* a job that starts at absolute step 2^32 + 5 with factor 7: awake at its relative steps 5, 12, ... *)
                       awake (7, 4294967301)%Z (5%Z, false) = true /\ awake (7, 4294967301)%Z (0%Z, false) = false.
Proof. repeat split; reflexivity. Qed.

(* ---------------------------------------------------------------- which applied forces are subtracted *)

(* Closed form of the sample attributed to a step, for EVERY mix of forces applied by Colvars at that step (the ABF
   force as applied, biases acting through fb [i_o], biases that bypass the extended Lagrangian and act through
   fb_actual [i_w], the hideJacobian compensation), from any state:
   - a variable with subtractAppliedForce: the force of the system alone (+ the Jacobian term unless hideJacobian):
     f_old = colvar::f contains everything that was applied, and all of it is removed;
   - otherwise, lagged forces: the system force plus the forces of the OTHER biases (both kinds), the ABF force and
     the hideJacobian compensation being removed;
   - same-step forces: the system force (nothing of Colvars is in the measured force). *)
Theorem sample_force_closed_form c s i k :
  (k < c_nd c)%nat ->
  let io := (i, snd (abf_step Rops c s i)) in
  vget Rops (sample_force Rops c io) k
  = vget Rops (i_e i) k
    + (if c_same_step c || bget (c_subtract c) k then 0 else oeff Rops c i k + weff Rops c i k)
    + (if c_hidej c then 0 else vget Rops (i_j i) k).
Proof.
  intros Hk. cbn zeta. unfold sample_force. rewrite vget_vbuild by exact Hk.
  unfold measured, own, jac. cbn [fst snd]. unfold abf_step. cbn [snd o_f o_fapp].
  destruct (c_same_step c) eqn:Hsame; cbn [orb nadd nsub n0 Rops]; [destruct (c_hidej c); lra|].
  unfold st_f. rewrite vget_vbuild by exact Hk.
  destruct (cvapply c i k) eqn:Hcv; cbn [negb].
  - destruct (bget (c_subtract c) k); destruct (c_hidej c); cbn [andb nadd nsub n0 Rops]; lra.
  - assert (Ho : bget (c_other c) k = false).
    { unfold cvapply in Hcv. apply orb_false_iff in Hcv. tauto. }
    unfold oeff, weff. rewrite Ho.
    destruct (bget (c_subtract c) k); destruct (c_hidej c); cbn [nadd nsub n0 Rops]; lra.
Qed.

Corollary subtracted_sample_is_system_force c s i k :
  (k < c_nd c)%nat -> bget (c_subtract c) k = true ->
  vget Rops (sample_force Rops c (i, snd (abf_step Rops c s i))) k
  = vget Rops (i_e i) k + (if c_hidej c then 0 else vget Rops (i_j i) k).
Proof.
  intros Hk Hs. pose proof (sample_force_closed_form c s i k Hk) as H. cbn zeta in H. rewrite H, Hs, orb_true_r. lra.
Qed.


(* ---------------------------------------------------------------- script entry points bin / bincount *)

Lemma bound1_in_grid (c : @abf_cfg R) k b : (0 <= b < zget (c_nx c) k)%Z -> bound1 c k b = b.
Proof.
  intros [H0 H1]. unfold bound1. cbv zeta.
  assert (Hrem : Z.rem b (zget (c_nx c) k) = b) by (apply Z.rem_small; lia).
  assert (E1 : (b <? 0)%Z = false) by (apply Z.ltb_ge; lia).
  assert (E2 : (zget (c_nx c) k <=? b)%Z = false) by (apply Z.leb_gt; lia).
  destruct (bget (c_periodic c) k); [rewrite Hrem|]; rewrite ?E1, ?E2; rewrite ?E1, ?E2; reflexivity.
Qed.

Lemma zget_map_seq (f : nat -> Z) (n k : nat) : (k < n)%nat -> zget (map f (seq 0 n)) k = f k.
Proof.
  intros Hk. unfold zget. rewrite nth_indep with (d' := f 0%nat) by (rewrite map_length, seq_length; exact Hk).
  rewrite map_nth. rewrite seq_nth by exact Hk. reflexivity.
Qed.

Lemma bins_bound_in_grid (c : @abf_cfg R) x : index_ok c (bins Rops c x) = true -> bins_bound Rops c x = bins Rops c x.
Proof.
  intros H. unfold bins_bound, bins. apply map_ext_in. intros k Hk.
  unfold index_ok in H. rewrite forallb_forall in H. specialize (H k Hk).
  apply andb_true_iff in H. destruct H as [H0 H1]. apply Z.leb_le in H0. apply Z.ltb_lt in H1.
  apply bound1_in_grid.
  assert (Hz : zget (bins Rops c x) k
               = value_to_bin Rops (vget Rops (c_lower c) k) (vget Rops (c_width c) k) (vget Rops x k)).
  { unfold bins. apply in_seq in Hk. apply zget_map_seq. lia. }
  rewrite <- Hz. lia.
Qed.

(* `cv bias a bincount [cv bias a bin]` (and local_sample_count 0) after any history, for values inside the grid:
   the number of samples attributed to the bin of the current values *)
Theorem script_count_current c h x :
  wf_cfg c -> index_ok c (bins Rops c x) = true ->
  abf_count_current Rops c (fst (abf_run Rops c h)) x
  = cnt_of (bins Rops c x) (attributed Rops c (ABFModel.trace_of Rops c h)).
Proof.
  intros Hwf Hok. unfold abf_count_current. rewrite (bins_bound_in_grid c x Hok).
  apply (abf_state_is_sample_sum c h (bins Rops c x) Hwf).
Qed.
