(* Proofs about the ABF model (C04/ABFModel.v) at the real-number instance. *)
From Coq Require Import ZArith List Bool Reals Lra Lia Psatz.
From CV Require Import Base.Num Base.RNum C04.ABFModel.
Import ListNotations.
Local Open Scope R_scope.

(* ---------------------------------------------------------------- small facts *)

Lemma vget_vbuild (n : nat) (f : nat -> R) (k : nat) : (k < n)%nat -> vget Rops (vbuild n f) k = f k.
Proof.
  intros Hk. unfold vget, vbuild.
  rewrite nth_indep with (d' := f 0%nat) by (rewrite map_length, seq_length; exact Hk).
  rewrite map_nth. rewrite seq_nth by exact Hk. reflexivity.
Qed.

Lemma vget_vzero (n k : nat) : vget Rops (vzero Rops n) k = 0.
Proof.
  destruct (lt_dec k n) as [Hk|Hk].
  - unfold vzero. rewrite vget_vbuild by exact Hk. reflexivity.
  - unfold vget, vzero, vbuild. rewrite nth_overflow; [reflexivity|].
    rewrite map_length, seq_length. lia.
Qed.

Lemma idx_eqb_sym (a b : idx) : idx_eqb a b = idx_eqb b a.
Proof.
  revert b. induction a as [|x a IH]; intros [|y b]; cbn [idx_eqb]; try reflexivity.
  rewrite Z.eqb_sym, IH. reflexivity.
Qed.

Lemma idx_eqb_eq (a b : idx) : idx_eqb a b = true <-> a = b.
Proof.
  revert b. induction a as [|x a IH]; intros [|y b]; cbn [idx_eqb]; split; intros H; try reflexivity; try discriminate.
  - apply andb_true_iff in H. destruct H as [H1 H2]. apply Z.eqb_eq in H1. apply IH in H2. subst. reflexivity.
  - inversion H; subst. apply andb_true_iff. split; [apply Z.eqb_refl | apply IH; reflexivity].
Qed.

Lemma Rltb_sq_pos (t : R) : t <> 0 -> Rltb 0 (t * t) = true.
Proof. intros H. apply Rltb_true. nra. Qed.

Lemma Rltb_sq_zero (t : R) : t = 0 -> Rltb 0 (t * t) = false.
Proof. intros H. apply Rltb_false. subst. lra. Qed.

Lemma Reqb_false (a b : R) : a <> b -> Reqb' a b = false.
Proof. intros H. unfold Reqb'. destruct (Req_EM_T a b) as [E|E]; [contradiction|reflexivity]. Qed.

(* ---------------------------------------------------------------- sums over attributed samples *)

Local Notation rsum := (gsum Rops).

Lemma rsum_app (a b : list R) : rsum (a ++ b) = rsum a + rsum b.
Proof. induction a as [|x a IH]; cbn [gsum app nadd n0 Rops]; [lra | rewrite IH; lra]. Qed.

Local Notation cnt_of := (@cnt_of R).
Local Notation fsum_of := (fsum_of Rops).

Lemma samples_in_app (b : idx) (S1 S2 : list (idx * @vec R)) :
  samples_in b (S1 ++ S2) = samples_in b S1 ++ samples_in b S2.
Proof. unfold samples_in. rewrite filter_app, map_app. reflexivity. Qed.

Lemma cnt_of_app b (S1 S2 : list (idx * @vec R)) : cnt_of b (S1 ++ S2) = (cnt_of b S1 + cnt_of b S2)%Z.
Proof. unfold cnt_of. rewrite samples_in_app, app_length. lia. Qed.

Lemma fsum_of_app k b (S1 S2 : list (idx * @vec R)) : fsum_of k b (S1 ++ S2) = fsum_of k b S1 + fsum_of k b S2.
Proof. unfold fsum_of. rewrite samples_in_app, map_app, rsum_app. reflexivity. Qed.

Lemma attributed_of_app c (d1 d2 : list (@delivery R)) :
  attributed_of c (d1 ++ d2) = attributed_of c d1 ++ attributed_of c d2.
Proof. unfold attributed_of. rewrite filter_app, map_app. reflexivity. Qed.

Lemma attributed_of_one c (bn : idx) (F : @vec R) (clk : Z * bool) :
  attributed_of c [(bn, F, clk)] = if eligible c clk && index_ok c bn then [(bn, F)] else [].
Proof.
  unfold attributed_of. cbn [filter map fst snd].
  destruct (eligible c clk && index_ok c bn); reflexivity.
Qed.

Lemma cnt_of_one b bn (F : @vec R) : cnt_of b [(bn, F)] = if idx_eqb b bn then 1%Z else 0%Z.
Proof.
  unfold cnt_of, samples_in. cbn [filter map fst]. rewrite (idx_eqb_sym bn b).
  destruct (idx_eqb b bn); reflexivity.
Qed.

Lemma fsum_of_one k b bn (F : @vec R) : fsum_of k b [(bn, F)] = if idx_eqb b bn then vget Rops F k else 0.
Proof.
  unfold fsum_of, samples_in. cbn [filter map fst]. rewrite (idx_eqb_sym bn b).
  destruct (idx_eqb b bn); cbn [map snd gsum nadd n0 Rops]; lra.
Qed.

(* ---------------------------------------------------------------- side condition of the partial theorem *)

(* In the lagged convention two behaviours of colvar.cpp make the recorded sample differ from
   "measured total force minus the forces Colvars was applying":
   - colvar::communicate_forces drops the force when the value of the variable is exactly 0
     (cvm::integer_power(0, 0) = 0), so the measured force does not contain it;
   - colvar::calc_colvar_properties skips `ft -= f_old` when the measured total force is exactly 0.
   [clean_io] excludes both for one step of the trace. *)
Definition clean_io (c : @abf_cfg R) (io : @abf_in R * @abf_out R) : Prop :=
  forall k, (k < c_nd c)%nat ->
    vget Rops (i_x (fst io)) k <> 0 /\
    (bget (c_subtract c) k = true -> vget Rops (i_e (fst io)) k + vget Rops (o_f (snd io)) k <> 0).

(* what the state remembers of the previous step p (lagged convention) *)
Definition link (c : @abf_cfg R) (s : @abf_state R) (p : @abf_in R * @abf_out R) : Prop :=
  s_started s = true /\
  s_fbin s = bins Rops c (i_x (fst p)) /\
  (forall k, (k < c_nd c)%nat -> vget Rops (s_eng s) k = vget Rops (i_e (fst p)) k + vget Rops (o_f (snd p)) k) /\
  (forall k, (k < c_nd c)%nat -> vget Rops (s_fabf s) k = vget Rops (o_fabf (snd p)) k) /\
  (forall k, (k < c_nd c)%nat -> bget (c_subtract c) k = true -> vget Rops (s_fold s) k = vget Rops (o_f (snd p)) k).

Lemma link_step c s i :
  clean_io c (i, snd (abf_step Rops c s i)) ->
  link c (fst (abf_step Rops c s i)) (i, snd (abf_step Rops c s i)).
Proof.
  intros Hc. unfold abf_step in *. cbn [fst snd o_f] in Hc.
  unfold link. cbn [fst snd s_started s_fbin s_eng s_fabf s_fold o_f o_fabf].
  split; [reflexivity|]. split; [reflexivity|]. split; [|split].
  - intros k Hk. unfold st_eng. rewrite vget_vbuild by exact Hk.
    destruct (Hc k Hk) as [Hx _]. cbn [neqb n0 nadd Rops]. rewrite Reqb_false by exact Hx. reflexivity.
  - intros k Hk. reflexivity.
  - intros k Hk Hs. unfold st_fold. rewrite vget_vbuild by exact Hk. rewrite Hs. reflexivity.
Qed.

(* ---------------------------------------------------------------- one step, lagged convention *)

Lemma sysf_lag c s i p k :
  c_same_step c = false -> c_update c = true -> (0 <? fst (st_clk s i))%Z = true ->
  link c s p -> clean_io c p -> (k < c_nd c)%nat ->
  vget Rops (st_sysf Rops c s i) k = vget Rops (sample_force Rops c p) k.
Proof.
  intros Hsame Hupd Hrel (Hst & Hfb & Heng & Hfabf & Hfold) Hc Hk.
  destruct (Hc k Hk) as [_ Hnz].
  unfold st_sysf. rewrite vget_vbuild by exact Hk.
  unfold st_ft. rewrite Hsame. rewrite vget_vbuild by exact Hk.
  unfold st_ft0. rewrite vget_vbuild by exact Hk.
  rewrite Hupd, Hsame, Hrel. cbn [orb]. rewrite (Heng k Hk).
  unfold sample_force. rewrite vget_vbuild by exact Hk.
  unfold measured, own. rewrite Hsame.
  destruct (bget (c_subtract c) k) eqn:Hs.
  - cbn [andb orb nltb nmul n0 nsub nadd Rops].
    rewrite Rltb_sq_pos by (apply Hnz; reflexivity).
    rewrite (Hfold k Hk Hs). reflexivity.
  - cbn [andb orb nsub nadd Rops]. rewrite (Hfabf k Hk). reflexivity.
Qed.

Lemma doacc_lag c s i p :
  c_same_step c = false -> c_szd c = false -> link c s p ->
  st_doacc Rops c s i = eligible c (st_clk s i) && index_ok c (bins Rops c (i_x (fst p))).
Proof.
  intros Hsame Hszd (Hst & Hfb & _).
  unfold st_doacc, st_fbin, eligible. rewrite Hsame, Hszd, Hfb.
  destruct (0 <? fst (st_clk s i))%Z; destruct (snd (st_clk s i)); destruct (c_update c);
    destruct (index_ok c (bins Rops c (i_x (fst p)))); reflexivity.
Qed.

Lemma step_lag c s i p b :
  c_same_step c = false -> c_szd c = false -> link c s p -> clean_io c p ->
  let s1 := fst (abf_step Rops c s i) in
  let o := snd (abf_step Rops c s i) in
  let A := attributed_of c [(bins Rops c (i_x (fst p)), sample_force Rops c p, (o_rel o, o_cont o))] in
  s_cnt s1 b = (s_cnt s b + cnt_of b A)%Z /\
  forall k, (k < c_nd c)%nat -> vget Rops (s_sum s1 b) k = vget Rops (s_sum s b) k - fsum_of k b A.
Proof.
  intros Hsame Hszd Hl Hc. cbn zeta.
  unfold abf_step. cbn [fst snd s_cnt s_sum o_rel o_cont].
  rewrite attributed_of_one. rewrite <- surjective_pairing.
  unfold st_cnt, st_sum. rewrite (doacc_lag c s i p Hsame Hszd Hl).
  destruct (eligible c (st_clk s i) && index_ok c (bins Rops c (i_x (fst p)))) eqn:E.
  - assert (Hfb : st_fbin Rops c s i = bins Rops c (i_x (fst p))).
    { unfold st_fbin. rewrite Hsame. destruct Hl as (_ & Hfb & _). exact Hfb. }
    rewrite Hfb. rewrite cnt_of_one. split.
    + destruct (idx_eqb b (bins Rops c (i_x (fst p)))); lia.
    + intros k Hk. rewrite fsum_of_one.
      destruct (idx_eqb b (bins Rops c (i_x (fst p)))).
      * rewrite vget_vbuild by exact Hk. cbn [nsub Rops].
        apply andb_true_iff in E. destruct E as [E1 _]. unfold eligible in E1.
        apply andb_true_iff in E1. destruct E1 as [Hupd E2]. rewrite Hszd in E2.
        rewrite orb_false_r in E2. apply andb_true_iff in E2. destruct E2 as [Hrel _].
        rewrite (sysf_lag c s i p k Hsame Hupd Hrel Hl Hc Hk). reflexivity.
      * lra.
  - split; [unfold cnt_of; cbn; lia | intros k Hk; unfold fsum_of; cbn; lra].
Qed.

Lemma run_lag c : c_same_step c = false -> c_szd c = false ->
  forall h s p, link c s p -> clean_io c p ->
    Forall (clean_io c) (combine h (snd (abf_run_from Rops c s h))) ->
    forall b,
      let r := abf_run_from Rops c s h in
      let A := attributed_of c (deliveries_lag Rops c (Some p) (combine h (snd r))) in
      s_cnt (fst r) b = (s_cnt s b + cnt_of b A)%Z /\
      forall k, (k < c_nd c)%nat -> vget Rops (s_sum (fst r) b) k = vget Rops (s_sum s b) k - fsum_of k b A.
Proof.
  intros Hsame Hszd h. induction h as [|i h IH]; intros s p Hl Hc Hall b; cbn zeta.
  - cbn [abf_run_from fst snd combine deliveries_lag]. unfold attributed_of, cnt_of, fsum_of. cbn.
    split; [lia | intros k Hk; lra].
  - cbn [abf_run_from fst snd combine deliveries_lag] in *.
    inversion Hall as [|x l Hio Hrest]; subst.
    pose proof (link_step c s i Hio) as Hl1.
    specialize (IH (fst (abf_step Rops c s i)) (i, snd (abf_step Rops c s i)) Hl1 Hio Hrest b).
    cbn zeta in IH. destruct IH as [IHc IHs].
    pose proof (step_lag c s i p b Hsame Hszd Hl Hc) as Hstep. cbn zeta in Hstep.
    destruct Hstep as [Sc Ss].
    rewrite attributed_of_app, cnt_of_app. split.
    + rewrite IHc, Sc. lia.
    + intros k Hk. rewrite fsum_of_app. rewrite (IHs k Hk), (Ss k Hk). lra.
Qed.

(* ---------------------------------------------------------------- one step, same-step convention *)

Lemma step_same c s i b :
  c_same_step c = true ->
  let s1 := fst (abf_step Rops c s i) in
  let o := snd (abf_step Rops c s i) in
  let A := attributed_of c [(bins Rops c (i_x i), sample_force Rops c (i, o), (o_rel o, o_cont o))] in
  s_cnt s1 b = (s_cnt s b + cnt_of b A)%Z /\
  forall k, (k < c_nd c)%nat -> vget Rops (s_sum s1 b) k = vget Rops (s_sum s b) k - fsum_of k b A.
Proof.
  intros Hsame. cbn zeta. unfold abf_step. cbn [fst snd s_cnt s_sum o_rel o_cont].
  rewrite attributed_of_one. rewrite <- surjective_pairing.
  unfold st_cnt, st_sum.
  assert (Hd : st_doacc Rops c s i = eligible c (st_clk s i) && index_ok c (bins Rops c (i_x i))).
  { unfold st_doacc, st_fbin, st_bin, eligible. rewrite Hsame.
    destruct (0 <? fst (st_clk s i))%Z; destruct (snd (st_clk s i)); destruct (c_update c); destruct (c_szd c);
      destruct (index_ok c (bins Rops c (i_x i))); reflexivity. }
  rewrite Hd.
  destruct (eligible c (st_clk s i) && index_ok c (bins Rops c (i_x i))) eqn:E.
  - assert (Hfb : st_fbin Rops c s i = bins Rops c (i_x i)).
    { unfold st_fbin, st_bin. rewrite Hsame. reflexivity. }
    rewrite Hfb. rewrite cnt_of_one. split.
    + destruct (idx_eqb b (bins Rops c (i_x i))); lia.
    + intros k Hk. rewrite fsum_of_one.
      destruct (idx_eqb b (bins Rops c (i_x i))).
      * rewrite vget_vbuild by exact Hk. cbn [nsub Rops].
        apply andb_true_iff in E. destruct E as [E1 _]. unfold eligible in E1.
        apply andb_true_iff in E1. destruct E1 as [Hupd _].
        assert (Hsf : vget Rops (st_sysf Rops c s i) k = vget Rops (sample_force Rops c (i, mkOut (st_bin Rops c i) (st_fabf Rops c s i) (st_f Rops c s i) (fst (st_clk s i)) (snd (st_clk s i)) (st_ft Rops c s i))) k).
        { unfold st_sysf. rewrite vget_vbuild by exact Hk. rewrite Hsame, orb_true_r.
          unfold st_ft. rewrite Hsame. unfold st_ft0. rewrite vget_vbuild by exact Hk.
          rewrite Hupd, Hsame. cbn [orb].
          unfold sample_force. rewrite vget_vbuild by exact Hk. unfold measured, own. rewrite Hsame.
          cbn [fst nsub n0 Rops]. lra. }
        rewrite Hsf. reflexivity.
      * lra.
  - split; [unfold cnt_of; cbn; lia | intros k Hk; unfold fsum_of; cbn; lra].
Qed.

Lemma run_same c : c_same_step c = true ->
  forall h s b,
    let r := abf_run_from Rops c s h in
    let A := attributed_of c (deliveries_same Rops c (combine h (snd r))) in
    s_cnt (fst r) b = (s_cnt s b + cnt_of b A)%Z /\
    forall k, (k < c_nd c)%nat -> vget Rops (s_sum (fst r) b) k = vget Rops (s_sum s b) k - fsum_of k b A.
Proof.
  intros Hsame h. induction h as [|i h IH]; intros s b; cbn zeta.
  - cbn [abf_run_from fst snd combine deliveries_same map]. unfold attributed_of, cnt_of, fsum_of. cbn.
    split; [lia | intros k Hk; lra].
  - cbn [abf_run_from fst snd combine deliveries_same map].
    specialize (IH (fst (abf_step Rops c s i)) b). cbn zeta in IH. destruct IH as [IHc IHs].
    pose proof (step_same c s i b Hsame) as Hstep. cbn zeta in Hstep. destruct Hstep as [Sc Ss].
    change (?x :: map ?f ?l) with ([x] ++ map f l).
    rewrite attributed_of_app, cnt_of_app. split.
    + unfold deliveries_same in IHc. rewrite IHc, Sc. lia.
    + intros k Hk. rewrite fsum_of_app. unfold deliveries_same in IHs. rewrite (IHs k Hk), (Ss k Hk). lra.
Qed.

(* ---------------------------------------------------------------- T1 (partial: clean traces) *)

Definition wf_cfg (c : @abf_cfg R) : Prop := c_szd c = true -> c_same_step c = true.

Local Notation trace_of := (trace_of Rops).

Lemma first_step_lag c i :
  c_szd c = false -> c_same_step c = false -> st_doacc Rops c (abf_init Rops c) i = false.
Proof.
  intros Hszd Hsame. unfold st_doacc, st_clk, abf_init, clock. cbn [s_started s_rel fst snd].
  rewrite Hszd. cbn. reflexivity.
Qed.

Theorem abf_state_is_sample_sum_partial (c : @abf_cfg R) (h : list (@abf_in R)) (b : idx) :
  wf_cfg c ->
  (c_same_step c = false -> Forall (clean_io c) (trace_of c h)) ->
  s_cnt (fst (abf_run Rops c h)) b = cnt_of b (attributed Rops c (trace_of c h)) /\
  forall k, (k < c_nd c)%nat ->
    vget Rops (s_sum (fst (abf_run Rops c h)) b) k = - fsum_of k b (attributed Rops c (trace_of c h)).
Proof.
  intros Hwf Hclean. unfold attributed, deliveries, trace_of, abf_run in *.
  destruct (c_same_step c) eqn:Hsame.
  - pose proof (run_same c Hsame h (abf_init Rops c) b) as H. cbn zeta in H. destruct H as [Hc Hs].
    split.
    + rewrite Hc. unfold abf_init. cbn [s_cnt]. lia.
    + intros k Hk. rewrite (Hs k Hk). unfold abf_init. cbn [s_sum]. rewrite vget_vzero. lra.
  - assert (Hszd : c_szd c = false).
    { destruct (c_szd c) eqn:E; [|reflexivity]. unfold wf_cfg in Hwf. specialize (Hwf E). congruence. }
    specialize (Hclean eq_refl).
    destruct h as [|i0 h].
    + cbn [abf_run_from fst snd combine deliveries_lag]. unfold attributed_of. cbn [filter map].
      unfold cnt_of, fsum_of, samples_in. cbn [filter map length gsum n0 Rops]. unfold abf_init. cbn [s_cnt s_sum].
      split; [reflexivity | intros k Hk; rewrite vget_vzero; lra].
    + cbn [abf_run_from fst snd combine deliveries_lag app] in *.
      inversion Hclean as [|x l Hio Hrest]; subst.
      pose proof (link_step c (abf_init Rops c) i0 Hio) as Hl.
      pose proof (run_lag c Hsame Hszd h _ _ Hl Hio Hrest b) as H. cbn zeta in H. destruct H as [Hc Hs].
      assert (Hc0 : s_cnt (fst (abf_step Rops c (abf_init Rops c) i0)) b = 0%Z).
      { unfold abf_step. cbn [fst s_cnt]. unfold st_cnt. rewrite first_step_lag by assumption. reflexivity. }
      assert (Hs0 : forall k, vget Rops (s_sum (fst (abf_step Rops c (abf_init Rops c) i0)) b) k = 0).
      { intros k. unfold abf_step. cbn [fst s_sum]. unfold st_sum. rewrite first_step_lag by assumption.
        unfold abf_init. cbn [s_sum]. apply vget_vzero. }
      split.
      * rewrite Hc, Hc0. lia.
      * intros k Hk. rewrite (Hs k Hk), Hs0. lra.
Qed.

(* ---------------------------------------------------------------- run boundary *)

(* at a repeated step (run boundary) nothing is accumulated, unless stepZeroData is on *)
Lemma started_after_step c s i : s_started (fst (abf_step Rops c s i)) = true.
Proof. reflexivity. Qed.

Theorem run_boundary_no_sample c s i :
  c_szd c = false -> i_boundary i = true -> s_started s = true ->
  s_cnt (fst (abf_step Rops c s i)) = s_cnt s /\ s_sum (fst (abf_step Rops c s i)) = s_sum s.
Proof.
  intros Hszd Hb Hst. unfold abf_step. cbn [fst s_cnt s_sum].
  assert (Hd : st_doacc Rops c s i = false).
  { unfold st_doacc, st_clk, clock. rewrite Hst, Hb, Hszd.
    cbn [fst snd negb andb orb]. rewrite andb_false_r. reflexivity. }
  unfold st_cnt, st_sum. rewrite Hd. split; reflexivity.
Qed.

(* ---------------------------------------------------------------- applied force *)

(* the stored estimate of the free-energy gradient in bin b: sum / count (minus the mean force) *)
Definition mean_grad (cnt : idx -> Z) (sum : idx -> @vec R) (b : idx) (k : nat) : R :=
  if (0 <? cnt b)%Z then vget Rops (sum b) k / IZR (cnt b) else 0.

(* the documented ramp alpha(N): 0 below minSamples, 1 above fullSamples, linear in between *)
Definition ramp (c : @abf_cfg R) (N : Z) : R :=
  if (N <? c_min c)%Z then 0
  else if (N <? c_full c)%Z then (IZR N - IZR (c_min c)) / (IZR (c_full c) - IZR (c_min c))
  else 1.

Definition clip (m f : R) : R := Rmax (- m) (Rmin m f).

(* average over the bins of a one-dimensional grid of the stored gradient estimate *)
Definition avg_grad (c : @abf_cfg R) (cnt : idx -> Z) (sum : idx -> @vec R) : R :=
  rsum (map (fun i => mean_grad cnt sum [i] 0) (zrange (zget (c_nx c) 0))) / IZR (zget (c_nx c) 0).

Definition spec_force (c : @abf_cfg R) (cnt : idx -> Z) (sum : idx -> @vec R) (b : idx) (k : nat) : R :=
  if c_apply c && index_ok c b then
    let f := ramp c (cnt b) * mean_grad cnt sum b k
             - (if Nat.eqb (c_nd c) 1 && bget (c_periodic c) 0 then avg_grad c cnt sum else 0) in
    if c_cap c then clip (vget Rops (c_maxf c) k) f else f
  else 0.

Lemma siw_ramp c w S : (0 <= c_min c < c_full c)%Z -> (0 <= w)%Z ->
  smooth_inverse_weight Rops c w * S = ramp c w * (if (0 <? w)%Z then S / IZR w else 0).
Proof.
  intros [Hm Hf] Hw. unfold smooth_inverse_weight, ramp. cbn [n0 n1 ndiv nsub nmul nofZ Rops].
  destruct (w <=? c_min c)%Z eqn:E1.
  - apply Z.leb_le in E1. destruct (w <? c_min c)%Z eqn:E2; [lra|].
    apply Z.ltb_ge in E2. assert (w = c_min c) by lia. subst w.
    destruct (c_min c <? c_full c)%Z eqn:E3; [|apply Z.ltb_ge in E3; lia].
    unfold Rdiv. lra.
  - apply Z.leb_gt in E1. destruct (w <? c_min c)%Z eqn:E2; [apply Z.ltb_lt in E2; lia|].
    assert (Hw0 : (0 < w)%Z) by lia. destruct (0 <? w)%Z eqn:E4; [|apply Z.ltb_ge in E4; lia].
    assert (HwR : 0 < IZR w) by (apply IZR_lt; exact Hw0).
    destruct (w <? c_full c)%Z eqn:E3.
    + rewrite minus_IZR. assert (IZR (c_min c) < IZR (c_full c)) by (apply IZR_lt; lia). field. lra.
    + field. lra.
Qed.

Lemma inv_weight_mean (cnt : idx -> Z) (sum : idx -> @vec R) b k :
  inv_weight Rops (cnt b) * vget Rops (sum b) k = mean_grad cnt sum b k.
Proof.
  unfold inv_weight, mean_grad. cbn [n0 n1 ndiv nofZ Rops].
  destruct (0 <? cnt b)%Z eqn:E; [|lra].
  apply Z.ltb_lt in E. assert (0 < IZR (cnt b)) by (apply IZR_lt; exact E). field. lra.
Qed.

Lemma fold_left_add (g : Z -> R) (l : list Z) (a : R) :
  fold_left (fun acc i => acc + g i) l a = a + rsum (map g l).
Proof.
  revert a. induction l as [|x l IH]; intros a; cbn [fold_left map gsum nadd n0 Rops]; [lra|].
  rewrite IH. lra.
Qed.

Lemma average_avg c cnt sum : average Rops c cnt sum = avg_grad c cnt sum.
Proof.
  unfold average, avg_grad. cbn [n0 ndiv nadd nmul nofZ Rops].
  destruct (zget (c_nx c) 0 =? 0)%Z eqn:E.
  - apply Z.eqb_eq in E. rewrite E. unfold zrange. cbn [Z.to_nat seq map gsum n0 Rops]. unfold Rdiv. lra.
  - rewrite (fold_left_add (fun i => inv_weight Rops (cnt [i]) * vget Rops (sum [i]) 0)).
    rewrite Rplus_0_l. f_equal. f_equal. apply map_ext. intros i. apply inv_weight_mean.
Qed.

Lemma cap1_clip m f : 0 <= m -> cap1 Rops m f = clip m f.
Proof.
  intros Hm. unfold cap1, clip. cbn [n0 n1 nmul nneg nltb Rops].
  unfold Rmax, Rmin.
  destruct (Rltb (m * m) (f * f)) eqn:E1.
  - apply Rltb_true in E1. destruct (Rltb 0 f) eqn:E2.
    + apply Rltb_true in E2. destruct (Rle_dec m f) as [H1|H1]; [|nra].
      destruct (Rle_dec (- m) m); lra.
    + apply Rltb_false in E2. destruct (Rle_dec m f) as [H1|H1]; [nra|].
      destruct (Rle_dec (- m) f) as [H2|H2]; [nra|lra].
  - apply Rltb_false in E1. destruct (Rle_dec m f) as [H1|H1].
    + assert (f = m) by nra. subst. destruct (Rle_dec (- m) m); lra.
    + destruct (Rle_dec (- f) m) as [H3|H3].
      * destruct (Rle_dec (- m) f); lra.
      * nra.
Qed.

Theorem applied_force_spec c cnt sum b k :
  (k < c_nd c)%nat -> (0 <= c_min c < c_full c)%Z -> (forall b', 0 <= cnt b')%Z ->
  (c_cap c = true -> 0 <= vget Rops (c_maxf c) k) ->
  vget Rops (if c_apply c && index_ok c b then calc_biasing_force Rops c cnt sum b else vzero Rops (c_nd c)) k
  = spec_force c cnt sum b k.
Proof.
  intros Hk Hmf Hcnt Hcap. unfold spec_force.
  destruct (c_apply c && index_ok c b); [|apply vget_vzero].
  unfold calc_biasing_force. cbv zeta.
  assert (H0 : vget Rops (vbuild (c_nd c) (fun k0 => nmul Rops (smooth_inverse_weight Rops c (cnt b)) (vget Rops (sum b) k0))) k
               = ramp c (cnt b) * mean_grad cnt sum b k).
  { rewrite vget_vbuild by exact Hk. cbn [nmul Rops]. rewrite (siw_ramp c (cnt b) _ Hmf (Hcnt b)).
    unfold mean_grad. reflexivity. }
  destruct (Nat.eqb (c_nd c) 1 && bget (c_periodic c) 0).
  - destruct (c_cap c).
    + rewrite vget_vbuild by exact Hk. rewrite vget_vbuild by exact Hk. rewrite H0.
      cbn [nsub Rops]. rewrite average_avg. apply cap1_clip. apply Hcap. reflexivity.
    + rewrite vget_vbuild by exact Hk. rewrite H0. cbn [nsub Rops]. rewrite average_avg. reflexivity.
  - destruct (c_cap c).
    + rewrite vget_vbuild by exact Hk. rewrite H0. rewrite Rminus_0_r. apply cap1_clip. apply Hcap. reflexivity.
    + rewrite H0. lra.
Qed.

(* counts never become negative *)
Lemma cnt_nonneg_step c s i : (forall b, 0 <= s_cnt s b)%Z -> forall b, (0 <= st_cnt Rops c s i b)%Z.
Proof.
  intros H b. unfold st_cnt. destruct (st_doacc Rops c s i); [|apply H].
  destruct (idx_eqb b (st_fbin Rops c s i)); specialize (H b); lia.
Qed.

Lemma cnt_nonneg_run c h : forall s, (forall b, 0 <= s_cnt s b)%Z ->
  forall b, (0 <= s_cnt (fst (abf_run_from Rops c s h)) b)%Z.
Proof.
  induction h as [|i h IH]; intros s H b; cbn [abf_run_from fst snd]; [apply H|].
  apply IH. unfold abf_step. cbn [fst s_cnt]. apply cnt_nonneg_step. exact H.
Qed.

(* The force handed to the variables at the step that follows any history *)
Theorem applied_force_after_history c h i k :
  (k < c_nd c)%nat -> (0 <= c_min c < c_full c)%Z -> (c_cap c = true -> 0 <= vget Rops (c_maxf c) k) ->
  let s := fst (abf_run Rops c h) in
  let s1 := fst (abf_step Rops c s i) in
  vget Rops (o_fabf (snd (abf_step Rops c s i))) k = spec_force c (s_cnt s1) (s_sum s1) (bins Rops c (i_x i)) k.
Proof.
  intros Hk Hmf Hcap. cbn zeta. unfold abf_step. cbn [fst snd o_fabf s_cnt s_sum].
  unfold st_fabf, st_bin. apply applied_force_spec; try assumption.
  apply cnt_nonneg_step. unfold abf_run. apply cnt_nonneg_run. intros b. unfold abf_init. cbn [s_cnt]. lia.
Qed.

(* ---------------------------------------------------------------- zero mean, 1-D periodic *)

Lemma rsum_map_minus (g : Z -> R) (a : R) (l : list Z) :
  rsum (map (fun i => g i - a) l) = rsum (map g l) - INR (length l) * a.
Proof.
  induction l as [|x l IH]; [cbn [map gsum length INR n0 Rops]; lra|].
  cbn [map gsum nadd Rops]. rewrite IH. change (length (x :: l)) with (S (length l)). rewrite S_INR. lra.
Qed.

Lemma zrange_in n i : In i (zrange n) -> (0 <= i < n)%Z.
Proof.
  unfold zrange. intros H. apply in_map_iff in H. destruct H as (j & Hj & Hin).
  apply in_seq in Hin. lia.
Qed.

Theorem zero_mean_periodic_partial c cnt sum :
  c_nd c = 1%nat -> bget (c_periodic c) 0 = true -> c_apply c = true -> c_cap c = false ->
  (forall i, (0 <= i < zget (c_nx c) 0)%Z -> (c_full c <= cnt [i])%Z \/ cnt [i] = 0%Z) ->
  (0 <= c_min c < c_full c)%Z ->
  rsum (map (fun i => spec_force c cnt sum [i] 0) (zrange (zget (c_nx c) 0))) = 0.
Proof.
  intros Hnd Hper Happ Hcap Hfull Hmf.
  set (n := zget (c_nx c) 0) in *.
  assert (Hterm : forall i, In i (zrange n) ->
            spec_force c cnt sum [i] 0 = mean_grad cnt sum [i] 0 - avg_grad c cnt sum).
  { intros i Hi. apply zrange_in in Hi. unfold spec_force. rewrite Happ, Hcap, Hnd, Hper.
    assert (Hok : index_ok c [i] = true).
    { unfold index_ok. rewrite Hnd. cbn [seq forallb]. unfold zget at 1 2. cbn [nth]. fold n.
      rewrite andb_true_r. apply andb_true_iff. split; [apply Z.leb_le | apply Z.ltb_lt]; lia. }
    rewrite Hok. cbn [andb Nat.eqb]. f_equal.
    destruct (Hfull i Hi) as [Hge|Hz].
    - unfold ramp. destruct (cnt [i] <? c_min c)%Z eqn:E1; [apply Z.ltb_lt in E1; lia|].
      destruct (cnt [i] <? c_full c)%Z eqn:E2; [apply Z.ltb_lt in E2; lia|]. lra.
    - unfold mean_grad. rewrite Hz. cbn [Z.ltb Z.compare]. lra. }
  rewrite (map_ext_in _ _ _ Hterm). rewrite rsum_map_minus.
  unfold avg_grad. fold n. unfold zrange at 2. rewrite map_length, seq_length.
  destruct (Z_le_gt_dec n 0) as [Hn|Hn].
  - unfold zrange. replace (Z.to_nat n) with 0%nat by lia. cbn [seq map gsum INR n0 Rops]. lra.
  - rewrite INR_IZR_INZ. rewrite Z2Nat.id by lia. assert (0 < IZR n) by (apply IZR_lt; lia). field. lra.
Qed.

(* ---------------------------------------------------------------- non-vacuity of T1's premises *)
Lemma example_clean_trace :
  let c := @mkCfg R 1 [0%R] [1%R] [2%Z] [false] 2 1 false true false [0%R] false false [false] in
  let h := [@mkIn R [(1/2)%R] [1%R] [0%R] false; @mkIn R [(1/2)%R] [0%R] [0%R] false] in
  wf_cfg c /\ (c_same_step c = false -> Forall (clean_io c) (trace_of c h)) /\ length (trace_of c h) = 2%nat.
Proof.
  cbn zeta. split; [|split].
  - unfold wf_cfg. cbn [c_szd]. intros H. discriminate H.
  - intros _. unfold ABFModel.trace_of, abf_run. cbn [abf_run_from fst snd combine].
    apply Forall_cons; [|apply Forall_cons; [|apply Forall_nil]];
      intros k Hk; cbn [c_nd] in Hk; assert (k = 0%nat) by lia; subst k;
      (split; [unfold vget; cbn [fst i_x nth n0 Rops]; lra | cbn [c_subtract bget nth]; intros H; discriminate H]).
  - reflexivity.
Qed.
